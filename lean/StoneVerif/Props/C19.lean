import StoneVerif.Model.Cli
import StoneVerif.Gen.Tables
import StoneVerif.Lemmas.CliParse
import StoneVerif.Lemmas.CliEval
import StoneVerif.Lemmas.CliLex
import StoneVerif.Lemmas.CliPrune
/-!
Property theorems for C19 (backends see exactly the routes and attributes the command line selects).

Model: `StoneVerif.Cli` (Model/Cli.lean) — lexer, parser and evaluator of `--filter-by-route-attr`
following stone/cli_helpers.py, the `-w` / `-b` / `-f` / `-a` blocks of `stone.cli.main`, and
`ApiNamespace.add_route`. Specification-level definitions used in the statements: `evalSpec`
(three-valued reference evaluator written from the property text), `GExpr` (the grammar of the `p_*`
docstrings), `SExpr` / `SExpr.text` (an expression as a user writes it, with the spelling of every
literal and optional redundant parentheses), `orOfAnds`, `hidden`, `pass`, `index`, `Consistent`.
-/
namespace StoneVerif.C19
open StoneVerif.Cli

/-! ## The literal tables the model was written from

An edit of a token regex, of KEYWORDS, of the precedence tuple, of a grammar docstring, of the
strings `eval` compares with, or of `':all'` in /repo changes `Tables.*` and breaks these `rfl`s. -/

theorem tables_pinned :
    Tables.filterPrecedence = [("left", ["OR"]), ("left", ["AND"])] ∧
    Tables.filterKeywords = [("and", "AND"), ("or", "OR")] ∧
    Tables.filterTokenFuncs =
      [("t_BOOLEAN", "\\btrue\\b|\\bfalse\\b"), ("t_NULL", "\\bnull\\b"),
       ("t_FLOAT", "-?\\d+(\\.\\d*(e-?\\d+)?|e-?\\d+)"), ("t_INTEGER", "-?\\d+"),
       ("t_STRING", "\\\"([^\\\\\"]|(\\\\.))*\\\""), ("t_ID", "[a-zA-Z_][a-zA-Z0-9_-]*")] ∧
    Tables.filterTokenStrs = [("t_LPAR", "\\("), ("t_NEQ", "!="), ("t_RPAR", "\\)"), ("t_EQ", "=")] ∧
    Tables.filterIgnore = " " ∧
    Tables.filterTokens =
      ["ID", "LPAR", "RPAR", "AND", "OR", "NEQ", "EQ", "BOOLEAN", "FLOAT", "INTEGER", "NULL", "STRING"] ∧
    Tables.filterStart = "expr" ∧
    Tables.filterGrammar =
      [("p_expr", "expr : pred"), ("p_expr_parens", "expr : LPAR expr RPAR"),
       ("p_expr_group", "expr : expr OR expr | expr AND expr"), ("p_pred", "pred : ID op primitive"),
       ("p_op", "op : NEQ | EQ"), ("p_primitive", "primitive : BOOLEAN | FLOAT | INTEGER | NULL | STRING")] ∧
    Tables.filterEvalOps = ["=", "!="] ∧
    Tables.filterEvalConjs = ["and", "or"] ∧
    Tables.cliAllAttributes = [":all"] :=
  ⟨rfl, rfl, rfl, rfl, rfl, rfl, rfl, rfl, rfl, rfl, rfl⟩

/-! ## Parsing -/

/-- Token level, no side condition: the tokens of any written expression (parentheses where
precedence requires them, plus any redundant ones) parse, and the tree evaluates like the
expression read in the ordinary way, on every route. -/
theorem parse_print_tokens (p : SExpr) :
    ∃ e, parseToks p.toks = .ok e ∧ ∀ r, e.eval r = p.strip.eval r :=
  parseToks_print p

/-- Printing any expression tree — with the minimal parenthesisation (no `paren` node), the full
one (`paren` around every operand) or anything in between — then lexing and parsing the text gives
a tree that evaluates, on every route, as the reference evaluator `evalSpec` says wherever that is
specified (and as `eval` of the written tree everywhere). `p.wf`: identifiers match the ID pattern
and are not reserved words, numbers have digits, string bodies have no bare quote. -/
theorem parse_print (p : SExpr) (h : p.wf = true) :
    ∃ e, parseFilter p.text = .ok e ∧
      (∀ r, e.eval r = p.strip.eval r) ∧
      (∀ r v, evalSpec p.strip r = some v → e.eval r = v) := by
  obtain ⟨e, he, hev⟩ := parseToks_print p
  have hl : lex p.text = ⟨p.toks, []⟩ := lex_render p.stoks (stoks_wf p h)
  refine ⟨e, ?_, hev, ?_⟩
  · simp [parseFilter, hl, he]
  · intro r v hv
    rw [hev r]
    exact evalSpec_sound _ _ _ hv

/-- minimal parenthesisation: `a = 1 or b != "x" and c = null` keeps `and` tighter -/
example : SExpr.wf (.conj .or (.atom .eq ['a'] (.int false ['1']))
      (.conj .and (.atom .neq ['b'] (.str ['x'])) (.atom .eq ['c'] .null))) = true := by decide

/-- an `or` under an `and` is printed in parentheses; full parenthesisation is a tree with `paren` nodes -/
example : (SExpr.conj .and (.conj .or (.atom .eq ['a'] .true) (.atom .eq ['b'] (.float true ['1'] (some ['5']) (some (true, ['3'])))))
      (.paren (.atom .eq ['c'] .null))).text = "( a = true or b = -1.5e-3 ) and ( c = null ) ".toList := by decide

/-- The reference evaluator is refined by the code's `eval` on every expression and route: where
the property fixes the outcome (same-kind comparisons, comparisons with null, connectives whose
value does not depend on an unspecified operand), Python's `==` / `and` / `or` give that outcome. -/
theorem eval_spec (e : Expr) (r : Attrs) (v : Bool) (h : evalSpec e r = some v) : e.eval r = v :=
  evalSpec_sound e r v h

/-- specified and not trivial: a Boolean attribute compared with `true`, an absent one with null -/
example : evalSpec (.conj .and (.pred .eq ['f'] (.bool true)) (.pred .eq ['g'] .null)) [(['f'], .bool true)] = some true := by
  decide
/-- unspecified: a Boolean attribute against `1` (Python says equal) -/
example : evalSpec (.pred .eq ['f'] (.int 1)) [(['f'], .bool true)] = none ∧
    (Expr.pred .eq ['f'] (.int 1)).eval [(['f'], .bool true)] = true := by decide

/-- `and` binds tighter than `or`, both associate to the left: a flat sequence of atoms joined by
`and` / `or` evaluates as the disjunction of its maximal `and`-groups. The precedence tuple of
`FilterExprParser` is the one this was proved for. -/
theorem parse_prec :
    Tables.filterPrecedence = [("left", ["OR"]), ("left", ["AND"])] ∧
    ∀ (a : Atom) (rest : List (Conj × Atom)),
      ∃ e, parseToks (flatToks a rest) = .ok e ∧
        ∀ r, e.eval r = orOfAnds (fun b => b.expr.eval r) (a.expr.eval r) rest := by
  refine ⟨rfl, ?_⟩
  intro a rest
  obtain ⟨e, h1, h2⟩ := run_flat (fun r b => b.expr.eval r) (fun _ _ => rfl) rest none (mkAnd none a.expr)
  refine ⟨e, ?_, ?_⟩
  · simp only [parseToks, flatToks, Atom.toks, List.cons_append, List.nil_append, run_want_atom]
    exact h1
  · intro r
    rw [h2 r]
    simp [evO, mkAnd]

/-- `a or b and c` is `a or (b and c)`, `a and b or c` is `(a and b) or c`, `a or b or c` is `(a or b) or c` -/
example (a b c : Atom) :
    parseToks (flatToks a [(.or, b), (.and, c)]) = .ok (.conj .or a.expr (.conj .and b.expr c.expr)) ∧
    parseToks (flatToks a [(.and, b), (.or, c)]) = .ok (.conj .or (.conj .and a.expr b.expr) c.expr) ∧
    parseToks (flatToks a [(.or, b), (.or, c)]) = .ok (.conj .or (.conj .or a.expr b.expr) c.expr) := by
  refine ⟨?_, ?_, ?_⟩ <;>
    simp [parseToks, flatToks, Atom.toks, Atom.expr, Conj.tok, mkAnd, mkOr]

/-- An absent attribute reads as null: `a = null` holds exactly when the route has no attribute `a`
or has it with the value null, for the code and for the reference; `a != null` is its negation. -/
theorem eval_absent_is_null (r : Attrs) (a : Name) :
    ((Expr.pred .eq a .null).eval r = true ↔ (r.lookup a = none ∨ r.lookup a = some .null)) ∧
    (evalSpec (.pred .eq a .null) r = some true ↔ (r.lookup a = none ∨ r.lookup a = some .null)) ∧
    ((Expr.pred .neq a .null).eval r = !(Expr.pred .eq a .null).eval r) ∧
    (∃ v, evalSpec (.pred .eq a .null) r = some v) := by
  refine ⟨?_, ?_, ?_, ?_⟩
  · simp only [Expr.eval, pyEq_null_right, attrGet]
    cases h : r.lookup a with
    | none => simp
    | some v => simp
  · simp only [evalSpec, attrSpec]
    cases h : r.lookup a with
    | none => simp [specEq]
    | some v => cases v <;> simp [specEq]
  · simp [Expr.eval]
  · simp only [evalSpec, attrSpec]
    cases h : r.lookup a with
    | none => exact ⟨true, by simp [specEq]⟩
    | some v => cases v <;> simp [specEq]

example : (Expr.pred .eq ['x'] .null).eval [(['y'], .int 3)] = true ∧
    (Expr.pred .eq ['y'] .null).eval [(['y'], .int 3)] = false := by decide

/-! ## Malformed expressions -/

/-- Token level: the parser accepts exactly the token sequences of the grammar in the `p_*`
docstrings; everything else is a syntax error. -/
theorem parse_accepts_iff_grammar (ts : List Tok) : (∃ e, parseToks ts = .ok e) ↔ GExpr ts :=
  ⟨fun ⟨_, h⟩ => parseToks_sound h, parseToks_complete⟩

/-- A filter text is reported as erroneous as soon as one of its characters is illegal for the
lexer or its token sequence is not derivable in the grammar — the whole complement of the language.
(Tokenisation itself is the lexer model, tied to ply by the `cli.lex` correspondence suite.) -/
theorem malformed_reported (s : List Char) (h : (lex s).errors ≠ [] ∨ ¬ GExpr (lex s).toks) :
    ∃ err, parseFilter s = .error err := by
  unfold parseFilter
  cases hp : parseToks (lex s).toks with
  | error pe =>
    by_cases he : (lex s).errors = []
    · exact ⟨.syntax pe, by simp [he, hp]⟩
    · exact ⟨.illegalChars (lex s).errors, by simp [he, hp]⟩
  | ok e =>
    rcases h with h | h
    · exact ⟨.illegalChars (lex s).errors, by simp [h, hp]⟩
    · exact absurd (parseToks_sound hp) h

/-- and only then -/
theorem wellformed_accepted (s : List Char) (h1 : (lex s).errors = []) (h2 : GExpr (lex s).toks) :
    ∃ e, parseFilter s = .ok e := by
  obtain ⟨e, he⟩ := parseToks_complete h2
  exact ⟨e, by simp [parseFilter, he, h1]⟩

/-- a recognisable class: parentheses that do not balance -/
theorem unbalanced_reported (s : List Char) (h : (lex s).toks.count .lpar ≠ (lex s).toks.count .rpar) :
    ∃ err, parseFilter s = .error err :=
  malformed_reported s (Or.inr fun g => h (GExpr_balanced g))

/-- missing operand, doubled operator, stray token, unbalanced parenthesis (token level) -/
example : (∃ e, parseToks [.id ['a'], .eq, .lit (.int 1), .and] = .error e) ∧
    (∃ e, parseToks [.id ['a'], .eq, .eq, .lit (.int 1)] = .error e) ∧
    (∃ e, parseToks [.id ['a'], .eq, .lit (.int 1), .id ['b']] = .error e) ∧
    (∃ e, parseToks [.lpar, .id ['a'], .eq, .lit (.int 1)] = .error e) ∧
    (∃ e, parseToks [] = .error e) := by
  refine ⟨⟨_, rfl⟩, ⟨_, rfl⟩, ⟨_, rfl⟩, ⟨_, rfl⟩, ⟨_, rfl⟩⟩

/-! ## What the backend sees -/

/-- With `-f` alone, a namespace keeps exactly the routes the expression accepts, in their order
(attributes cut down to the `-a` selection); the expression used is the parse of the option text;
and wherever the reference evaluator fixes whether a route satisfies the expression, that is what
decides. -/
theorem prune_filter {o : Opts} {api api' : Api} (hc : api.Consistent) (h : prune o api = .ok api')
    (hw : o.whitelist = []) (hb : o.blacklist = []) :
    ∃ f, stageParse o = .ok f ∧
      (∀ c cs, o.filter = some (c :: cs) → ∃ e, parseFilter (c :: cs) = .ok e ∧ f = some e) ∧
      api'.namespaces.map (·.routes) = api.namespaces.map (fun ns =>
        (ns.routes.filter (pass f)).map (Route.restrict (wantedAttrs o.attributes api.allFields))) ∧
      (∀ e, f = some e → ∀ (r : Route) v, evalSpec e r.attrs = some v → pass f r = v) := by
  obtain ⟨f, hf, rfl⟩ := prune_eq_spec hc h
  refine ⟨f, hf, ?_, ?_, ?_⟩
  · intro c cs hfl
    simp only [stageParse, hfl] at hf
    cases hp : parseFilter (c :: cs) with
    | ok e => simp [hp] at hf; exact ⟨e, rfl, hf.symm⟩
    | error fe => simp [hp] at hf
  · simp only [pruneSpec, List.map_map]
    apply List.map_congr_left
    intro ns _
    simp [Namespace.pruned, hidden, hw, hb]
  · intro e he r v hv
    subst he
    exact evalSpec_sound e r.attrs v hv

/-- `-w`: every name must be a namespace of the spec; namespaces not named show no routes (list and
both tables empty), the named ones keep theirs (subject to `-f`); names, order and data types of
all namespaces are untouched. -/
theorem prune_w {o : Opts} {api api' : Api} (hc : api.Consistent) (h : prune o api = .ok api')
    (hw : o.whitelist ≠ []) (hb : o.blacklist = []) :
    (∀ n ∈ o.whitelist, api.hasNamespace n = true) ∧
    api'.namespaces.map (·.name) = api.namespaces.map (·.name) ∧
    api'.namespaces.map (·.dataTypes) = api.namespaces.map (·.dataTypes) ∧
    ∃ f, stageParse o = .ok f ∧
      api'.namespaces.map (fun ns => (ns.routes, ns.routeByName, ns.routesByName)) = api.namespaces.map (fun ns =>
        if ns.name ∈ o.whitelist then
          let rs := (ns.routes.filter (pass f)).map (Route.restrict (wantedAttrs o.attributes api.allFields))
          (rs, (index rs).1, (index rs).2)
        else ([], [], [])) := by
  obtain ⟨f', _, hwl, _, _, _⟩ := prune_ok h
  obtain ⟨f, hf, rfl⟩ := prune_eq_spec hc h
  refine ⟨hwl, ?_, ?_, f, hf, ?_⟩
  · simp [pruneSpec, Namespace.pruned, List.map_map, Function.comp_def]
  · simp [pruneSpec, Namespace.pruned, List.map_map, Function.comp_def]
  · simp only [pruneSpec, List.map_map]
    apply List.map_congr_left
    intro ns _
    by_cases hm : ns.name ∈ o.whitelist
    · simp [Namespace.pruned, hidden, hw, hb, hm]
    · simp [Namespace.pruned, hidden, hw, hb, hm, index]

/-- an unknown namespace after `-w` is an error, whatever else is on the command line -/
theorem prune_w_unknown {o : Opts} {api : Api} (h : ∃ n ∈ o.whitelist, api.hasNamespace n = false) :
    ∃ err, prune o api = .error err :=
  prune_error_of_whitelist h

/-- `-b`: the named namespaces show no routes, all others keep theirs; types untouched. -/
theorem prune_b {o : Opts} {api api' : Api} (hc : api.Consistent) (h : prune o api = .ok api')
    (hw : o.whitelist = []) :
    (∀ n ∈ o.blacklist, api.hasNamespace n = true) ∧
    api'.namespaces.map (·.name) = api.namespaces.map (·.name) ∧
    api'.namespaces.map (·.dataTypes) = api.namespaces.map (·.dataTypes) ∧
    ∃ f, stageParse o = .ok f ∧
      api'.namespaces.map (fun ns => (ns.routes, ns.routeByName, ns.routesByName)) = api.namespaces.map (fun ns =>
        if ns.name ∈ o.blacklist then ([], [], [])
        else
          let rs := (ns.routes.filter (pass f)).map (Route.restrict (wantedAttrs o.attributes api.allFields))
          (rs, (index rs).1, (index rs).2)) := by
  obtain ⟨f', _, _, hbl, _, _⟩ := prune_ok h
  obtain ⟨f, hf, rfl⟩ := prune_eq_spec hc h
  refine ⟨hbl, ?_, ?_, f, hf, ?_⟩
  · simp [pruneSpec, Namespace.pruned, List.map_map, Function.comp_def]
  · simp [pruneSpec, Namespace.pruned, List.map_map, Function.comp_def]
  · simp only [pruneSpec, List.map_map]
    apply List.map_congr_left
    intro ns _
    by_cases hm : ns.name ∈ o.blacklist
    · simp [Namespace.pruned, hidden, hw, hm, index]
    · simp [Namespace.pruned, hidden, hw, hm]

theorem prune_b_unknown {o : Opts} {api : Api} (h : ∃ n ∈ o.blacklist, api.hasNamespace n = false) :
    ∃ err, prune o api = .error err :=
  prune_error_of_blacklist h

/-- `-a`: the visible attributes are those named (every attribute of the schema, inherited fields of
`stone_cfg.Route` included, with `:all`; none without `-a`): every name given is an attribute of the
schema, the route schema keeps exactly the selected ones of its own fields, in order, and every route
the backend sees has exactly the selected ones of its attributes. -/
theorem prune_attrs {o : Opts} {api api' : Api} (hc : api.Consistent) (h : prune o api = .ok api') :
    (∀ n, n ∈ wantedAttrs o.attributes api.allFields ↔
      (allAttributes ∈ o.attributes ∧ (n ∈ api.allFields ∨ (n ∈ o.attributes ∧ n ≠ allAttributes))) ∨
      (allAttributes ∉ o.attributes ∧ n ∈ o.attributes)) ∧
    (∀ n ∈ wantedAttrs o.attributes api.allFields, n ∈ api.allFields) ∧
    api'.schema = api.schema.filter (fun n => n ∈ wantedAttrs o.attributes api.allFields) ∧
    api'.schemaByName = api.schemaByName.filter (fun n => n ∈ wantedAttrs o.attributes api.allFields) ∧
    (∀ ns' ∈ api'.namespaces, ∀ r' ∈ ns'.routes, ∃ ns ∈ api.namespaces, ∃ r ∈ ns.routes,
      ns.name = ns'.name ∧ r'.name = r.name ∧ r'.version = r.version ∧
      r'.attrs = r.attrs.filter (fun kv => kv.1 ∈ wantedAttrs o.attributes api.allFields)) := by
  obtain ⟨f', _, _, _, hall, _⟩ := prune_ok h
  obtain ⟨f, hf, rfl⟩ := prune_eq_spec hc h
  refine ⟨?_, hall, rfl, rfl, ?_⟩
  · intro n
    unfold wantedAttrs
    by_cases h0 : o.attributes = []
    · simp [h0]
    · by_cases ha : allAttributes ∈ o.attributes
      · simp only [h0, ha, if_true, if_false, List.mem_append, List.mem_filter, not_true_eq_false, false_and, or_false,
          true_and, ne_eq, decide_not, Bool.not_eq_eq_eq_not, Bool.not_true, decide_eq_false_iff_not]
        constructor
        · rintro (⟨h1, h2⟩ | h1)
          · exact Or.inr ⟨h1, h2⟩
          · exact Or.inl h1
        · rintro (h1 | ⟨h1, h2⟩)
          · exact Or.inr h1
          · exact Or.inl ⟨h1, h2⟩
      · simp [h0, ha]
  · intro ns' hns' r' hr'
    simp only [pruneSpec, List.mem_map] at hns'
    obtain ⟨ns, hns, rfl⟩ := hns'
    simp only [Namespace.pruned] at hr'
    split at hr'
    · simp at hr'
    · simp only [List.mem_map, List.mem_filter] at hr'
      obtain ⟨r, ⟨hr, _⟩, rfl⟩ := hr'
      exact ⟨ns, hns, r, hr, rfl, rfl, rfl, rfl⟩

/-- when the run succeeds, the set `attrs` of `main` is the selection the property speaks of -/
theorem mem_wantedAttrs_iff_wantedAll {o : Opts} {api : Api}
    (hall : ∀ n ∈ wantedAttrs o.attributes api.allFields, n ∈ api.allFields) (n : Name) :
    n ∈ wantedAttrs o.attributes api.allFields ↔ n ∈ wantedAll o.attributes api := by
  have := hall n
  unfold wantedAttrs at this ⊢
  unfold wantedAll
  by_cases h0 : o.attributes = []
  · simp [h0]
  · by_cases ha : allAttributes ∈ o.attributes
    · simp only [h0, ha, if_true, if_false] at this ⊢
      constructor
      · exact this
      · intro hn; exact List.mem_append.mpr (Or.inr hn)
    · simp [h0, ha]

/-- The property read over ALL attributes a route can carry (`route_schema.all_fields`, inherited
fields of `stone_cfg.Route` included): every name given with `-a` is one of them and every route
shows exactly the `-a` selection of its attributes. (Before the repair of `cli.main` this held for a
schema without inherited fields only; the two old witnesses are kept below as regression examples.) -/
theorem prune_attrs_all_fields {o : Opts} {api api' : Api} (hc : api.Consistent) (h : prune o api = .ok api') :
    (∀ n ∈ wantedAll o.attributes api, n ∈ api.allFields) ∧
    (∀ ns' ∈ api'.namespaces, ∀ r' ∈ ns'.routes, ∃ ns ∈ api.namespaces, ∃ r ∈ ns.routes,
      ns.name = ns'.name ∧ r'.name = r.name ∧ r'.version = r.version ∧
      r'.attrs = r.attrs.filter (fun kv => kv.1 ∈ wantedAll o.attributes api)) := by
  obtain ⟨_, h2, _, _, h5⟩ := prune_attrs hc h
  have hiff := mem_wantedAttrs_iff_wantedAll h2
  refine ⟨fun n hn => h2 n ((hiff n).mpr hn), ?_⟩
  intro ns' hns' r' hr'
  obtain ⟨ns, hns, r, hr, e1, e2, e3, e4⟩ := h5 ns' hns' r' hr'
  refine ⟨ns, hns, r, hr, e1, e2, e3, ?_⟩
  rw [e4]
  apply List.filter_congr
  intro kv _
  exact decide_eq_decide.mpr (hiff kv.1)

/-- The same for the schema itself: `route_schema.all_fields` shows exactly the `-a` selection.
PARTIAL: proved for a schema without inherited fields. `cli.main` takes the unselected names out of
`route_schema.fields`; the fields `stone_cfg.Route` inherits live in the parent struct (a user type
the backends generate) and stay visible whatever `-a` says - witness below (reported by the harness
as a failing input of the property). -/
theorem prune_schema_all_fields_partial {o : Opts} {api api' : Api} (hc : api.Consistent)
    (hflat : api.schemaInherited = []) (h : prune o api = .ok api') :
    api'.allFields = api.allFields.filter (fun n => n ∈ wantedAll o.attributes api) := by
  obtain ⟨_, h2, h3, _, _⟩ := prune_attrs hc h
  have hiff := mem_wantedAttrs_iff_wantedAll h2
  obtain ⟨f, _, hspec⟩ := prune_eq_spec hc h
  have hinh : api'.schemaInherited = [] := by rw [hspec]; simp [pruneSpec, hflat]
  simp only [Api.allFields, hflat, hinh, List.nil_append, h3]
  apply List.filter_congr
  intro n _
  have := hiff n
  simp only [Api.allFields, hflat, List.nil_append] at this
  exact decide_eq_decide.mpr this

/-- regression (was witness 1, `inherited_attribute_rejected`): an inherited attribute can be
selected - `-a p` for an inherited `p` keeps `p` on the routes and nothing of the own fields -/
example :
    prune { attributes := [['p']] }
      ⟨[⟨['a'], [⟨['r'], 1, [(['p'], .int 1), (['n'], .int 2)]⟩], [], [], []⟩], [['n']], [['n']], [['p']]⟩
      = .ok ⟨[⟨['a'], [⟨['r'], 1, [(['p'], .int 1)]⟩], [], [], []⟩], [], [], [['p']]⟩ := rfl

/-- regression (was witness 2, `inherited_attribute_dropped_by_all`): `:all` keeps the inherited
attributes of every route -/
example :
    prune { attributes := [allAttributes] }
      ⟨[⟨['a'], [⟨['r'], 1, [(['p'], .int 1), (['n'], .int 2)]⟩], [], [], []⟩], [['n']], [['n']], [['p']]⟩
      = .ok ⟨[⟨['a'], [⟨['r'], 1, [(['p'], .int 1), (['n'], .int 2)]⟩], [], [], []⟩], [['n']], [['n']], [['p']]⟩ := rfl

/-- witness: without any `-a` the inherited fields are still there in the schema -/
theorem inherited_field_stays_visible :
    ∃ (o : Opts) (api api' : Api), o.attributes = [] ∧ prune o api = .ok api' ∧ api'.allFields ≠ [] :=
  ⟨{}, ⟨[], [['n']], [['n']], [['p']]⟩, ⟨[], [], [], [['p']]⟩, rfl, rfl, by decide⟩

/-- An attribute name unknown to the schema (own and inherited fields) is an error, also next to
`:all`. (Before the repair of `cli.main` the names given next to `:all` were never looked at.) -/
theorem prune_attrs_unknown {o : Opts} {api : Api}
    (h : ∃ n ∈ o.attributes, n ≠ allAttributes ∧ n ∉ api.allFields) : ∃ err, prune o api = .error err :=
  prune_error_of_attribute h

/-- regression (was the witness `all_masks_unknown`): `-a :all -a bogus` is refused -/
example :
    prune { attributes := [allAttributes, ['b', 'o', 'g', 'u', 's']] } ⟨[], [['n']], [['n']], []⟩
      = .error (.attributeUndefined [['b', 'o', 'g', 'u', 's']]) := rfl

/-- The by-name tables (`route_by_name`, `routes_by_name`) of every namespace the backend sees are
exactly the index `add_route` builds for the route list it sees — provided they were for the Api
the frontend produced. -/
theorem tables_consistent {o : Opts} {api api' : Api} (hc : api.Consistent) (h : prune o api = .ok api') :
    api'.Consistent := by
  obtain ⟨f, _, rfl⟩ := prune_eq_spec hc h
  intro ns' hns'
  simp only [pruneSpec, List.mem_map] at hns'
  obtain ⟨ns, _, rfl⟩ := hns'
  simp [Namespace.Consistent, Namespace.pruned]

/-- What the tables contain, independently of `add_route`: `route_by_name[n]` is the last version-1
route named `n` in the list, `routes_by_name[n].at_version[v]` the last route named `n` with
version `v` (for the frontend's lists, where (name, version) is unique: *the* route). -/
theorem index_lookup (rs : List Route) (n : Name) (v : Int) :
    (index rs).1.lookup n = lastMatch (fun r => decide (r.name = n) && decide (r.version = 1)) rs ∧
    ((index rs).2.lookup n).bind (fun d => d.lookup v) =
      lastMatch (fun r => decide (r.name = n) && decide (r.version = v)) rs :=
  Cli.index_lookup rs n v

/-- what `index` means: a version-1 route is found under its name, every route under its name and
version (for a list without repeated (name, version), as the frontend guarantees, later entries
would win otherwise) -/
example :
    index [⟨['r'], 1, []⟩, ⟨['r'], 2, []⟩, ⟨['z'], 3, []⟩] =
      ([(['r'], ⟨['r'], 1, []⟩)],
       [(['r'], [(1, ⟨['r'], 1, []⟩), (2, ⟨['r'], 2, []⟩)]), (['z'], [(3, ⟨['z'], 3, []⟩)])]) := by decide

/-- non-vacuity of the pruning theorems: a consistent two-namespace Api, `-w a -f "n = 1 " -a n` -/
example :
    let r1 : Route := ⟨['r'], 1, [(['n'], .int 1), (['h'], .str ['x'])]⟩
    let r2 : Route := ⟨['s'], 1, [(['n'], .int 2), (['h'], .str ['y'])]⟩
    let nsA : Namespace := ⟨['a'], [r1, r2], (index [r1, r2]).1, (index [r1, r2]).2, [['T']]⟩
    let nsB : Namespace := ⟨['b'], [r1], (index [r1]).1, (index [r1]).2, [['U']]⟩
    let api : Api := ⟨[nsA, nsB], [['n'], ['h']], [['n'], ['h']], []⟩
    let o : Opts := { whitelist := [['a']], attributes := [['n']], filter := some ['n', ' ', '=', ' ', '1', ' '] }
    api.Consistent ∧
    (prune o api).map (fun a => a.namespaces.map fun ns => (ns.name, ns.routes, ns.dataTypes)) =
      .ok [(['a'], [⟨['r'], 1, [(['n'], .int 1)]⟩], [['T']]), (['b'], [], [['U']])] := by
  refine ⟨?_, ?_⟩
  · intro ns hns
    simp only [List.mem_cons, List.not_mem_nil, or_false] at hns
    rcases hns with rfl | rfl <;> rfl
  · -- the text `n = 1 ` is the predicate `n = 1`
    have parse_n_eq_1 : parseFilter ['n', ' ', '=', ' ', '1', ' '] = .ok (.pred .eq ['n'] (.int 1)) := by
      have hl := lex_render [.id ['n'], .op .eq, .lit (.int false ['1'])] (by decide)
      have ht : render [.id ['n'], .op .eq, .lit (.int false ['1'])] = ['n', ' ', '=', ' ', '1', ' '] := by decide
      rw [ht] at hl
      simp only [parseFilter, hl]
      rfl
    simp only [prune, stageParse, parse_n_eq_1]
    rfl

end StoneVerif.C19
