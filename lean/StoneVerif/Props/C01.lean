import StoneVerif.Lemmas.FeParams
import StoneVerif.Lemmas.FeNames
/-!
# C01 — the compiler accepts exactly the legal specs: the proved part

The end-to-end statement (whole specs through `specs_to_ir`) is covered by the by-construction oracle of
`harness/suites/fe_rules.py` and is labelled testing.  Proved here, for ALL inputs, about the component models that
follow the decision logic of the code:

(a) `FeParams`: `_instantiate_data_type` + the `__init__` parameter checks of the built-in types against the "Basic
    Types" table of docs/lang_ref.rst (`legalArgs`);
(b) `FeNames`: the registration pass reduced to names against the pairwise no-clash rule (`NoClash`).

All statements are full strength.  The holes earlier versions of the code had (a literal as `List` / `Map` element
type, a non-integral `List` length, a falsy non-string `String` pattern, a numeric bound beyond the far end of the
width, the separator-less canonical key) were repaired in the code; the former witnesses are kept as regression
statements of the new behaviour.
-/
namespace StoneVerif.C01
open StoneVerif.FeParams StoneVerif.FeNames

/-! ## (a) type arguments -/

/-- A legal argument list is never refused. -/
theorem legal_args_accepted (rx : String → Bool) (k : TyKind) (pos : List Arg)
    (kw : List (String × Arg)) (h : legalArgs rx k pos kw = true) : ∃ t, instantiate rx k pos kw = .ok t :=
  FeParams.legal_accepted rx k pos kw h

/-- Acceptance = legality, for every built-in type and every argument list (`rx`: which patterns `re.compile`
accepts). -/
theorem instantiate_ok_iff_legal (rx : String → Bool) (k : TyKind) (pos : List Arg) (kw : List (String × Arg)) :
    (∃ t, instantiate rx k pos kw = .ok t) ↔ legalArgs rx k pos kw = true :=
  FeParams.instantiate_ok_iff_legal rx k pos kw

/-- The same for a whole reference `K(args)` / `K(args)?` to a built-in type (`Void?` is refused). -/
theorem builtin_ref_ok_iff_legal (rx : String → Bool) (k : TyKind) (pos : List Arg) (kw : List (String × Arg))
    (nullable : Bool) :
    (∃ r, resolveBuiltin rx k pos kw nullable = .ok r) ↔ legalRef rx k pos kw nullable = true :=
  FeParams.resolveBuiltin_ok_iff_legalRef rx k pos kw nullable

/-- Repaired: `String(pattern=0)`, `pattern=false`, `pattern=0.0` are spec errors. -/
theorem string_falsy_pattern_refused :
    instantiate (fun _ => true) .string [] [("pattern", .int 0)] = .error (.specerr .badArgument) ∧
    instantiate (fun _ => true) .string [] [("pattern", .bool false)] = .error (.specerr .badArgument) ∧
    instantiate (fun _ => true) .string [] [("pattern", .float (.fin 0 1))] = .error (.specerr .badArgument) :=
  FeParams.string_falsy_pattern_refused

/-- Repaired: `Int32(min_value=2147483648)`, `UInt32(max_value=-1)`, `Float32(min_value=1e39)` are spec errors. -/
theorem bound_beyond_far_end_refused :
    instantiate (fun _ => true) .int32 [] [("min_value", .int 2147483648)] = .error (.specerr .badArgument) ∧
    instantiate (fun _ => true) .uint32 [] [("max_value", .int (-1))] = .error (.specerr .badArgument) ∧
    instantiate (fun _ => true) .float32 [] [("min_value", .float (.fin (10 ^ 39) 1))] = .error (.specerr .badArgument) :=
  ⟨FeParams.int_min_above_maximum_refused, FeParams.uint_max_below_minimum_refused,
    FeParams.float32_bound_beyond_far_end_refused.1⟩

/-- Repaired: `List(3)` (a literal where a type is required) is a spec error. -/
theorem list_literal_refused :
    instantiate (fun _ => true) .list [.int 3] [] = .error (.specerr .badArgument) :=
  FeParams.list_literal_refused

/-- Repaired: `List(String, min_items=1.5)` is a spec error. -/
theorem list_float_length_refused :
    instantiate (fun _ => true) .list [.ty true] [("min_items", .float (.fin 3 2))] = .error (.specerr .badArgument) :=
  FeParams.list_float_length_refused

/-- the signatures the model reads (`Tables.feInitSigs`, extracted from stone/ir/data_types.py) are the ones the
specification table assumes: required = non-defaulted, optional = defaulted parameters -/
theorem signature_tables (k : TyKind) :
    (required k).length = (initSig k).1.length - (initSig k).2 ∧
      (optional k).map (·.1) = (initSig k).1.drop ((initSig k).1.length - (initSig k).2) :=
  ⟨FeParams.required_matches_signature k, FeParams.optional_matches_signature k⟩

/-- the width tables the bound checks read (`Tables.irIntBounds`, `Tables.irFloatBounds`) -/
theorem bound_tables :
    [TyKind.int32, .uint32, .int64, .uint64].map (fun k => (k.pyName, intLimits k)) = Tables.irIntBounds ∧
    floatLimits .float64 = (none, none) :=
  ⟨FeParams.intLimits_table, FeParams.floatLimits_table.2.1⟩

example : legalArgs (fun _ => true) .string [] [("min_length", .int 1), ("max_length", .int 5), ("pattern", .str "a+")]
    = true ∧ legalArgs (fun _ => true) .int32 [] [("min_value", .int 2147483648)] = false := by decide

/-! ## (b) names -/

/-- Registration succeeds exactly when no two definitions clash (A8 – A10, B19).  `NsLexical` (no `/` in a namespace
name) is the lexer's guarantee about `ID` tokens, not a restriction on compiler inputs. -/
theorem register_ok_iff_noclash (fs : List File) (hl : NsLexical fs) : isOk (register fs) = true ↔ NoClash fs :=
  FeNames.register_ok_iff_noclash fs hl

/-- Acceptance does not depend on declaration order, file order or on how a namespace is split into files. -/
theorem register_perm (fs fs' : List File) (h : SameDecls fs fs') (hl : NsLexical fs) :
    isOk (register fs) = isOk (register fs') :=
  FeNames.register_perm fs fs' h hl

/-- The keys of `_get_base_name` determine (canonical name, canonical namespace): the separator
`Tables.feCanonicalSep` is stripped from the name part and cannot occur in a namespace name. -/
theorem keys_unambiguous (fs : List File) (hl : NsLexical fs) : ConcatUnambiguous fs :=
  FeNames.concatUnambiguous_of_nsLexical fs hl

/-- Repaired: `Ab` in namespace `c` with `A` in namespace `bc` (both keys used to be `abc`) is accepted. -/
theorem concat_legal_accepted :
    isOk (register [⟨"c".toList, [⟨.type, "Ab".toList⟩]⟩, ⟨"bc".toList, [⟨.type, "A".toList⟩]⟩]) = true :=
  FeNames.concat_legal_accepted.2

/-- Repaired: type `abc` of namespace `abcabcabc` with namespace `abcabc` is accepted in both file orders. -/
theorem concat_order_independent :
    isOk (register [⟨"abcabcabc".toList, [⟨.type, "abc".toList⟩]⟩, ⟨"abcabc".toList, [⟨.type, "X".toList⟩]⟩]) = true ∧
    isOk (register [⟨"abcabc".toList, [⟨.type, "X".toList⟩]⟩, ⟨"abcabcabc".toList, [⟨.type, "abc".toList⟩]⟩]) = true :=
  FeNames.concat_order_independent

/-- A name of `Tables.feBuiltinTypes` cannot be redefined, whatever else the spec says. -/
theorem builtin_type_not_redefinable (fs : List File) (f : File) (hf : f ∈ fs) (x : Item) (hx : x ∈ f.items)
    (hb : x.name ∈ Tables.feBuiltinTypes.map String.toList) : isOk (register fs) = false :=
  FeNames.builtin_type_not_redefinable fs f hf x hx (FeNames.builtinTypes_eq ▸ hb)

/-- the characters `_get_base_name` strips and the separator it inserts, as extracted from the code -/
theorem canonical_key_tables : Tables.feCanonicalStrip = (["/", "_"], ["_"]) ∧ Tables.feCanonicalSep = "/" :=
  ⟨FeNames.canonical_strip_table, FeNames.canonical_sep_table⟩

example : NsLexical FeNames.exampleFiles ∧ NoClash FeNames.exampleFiles ∧
    isOk (register FeNames.exampleFiles) = true := by decide

/-- a refused input: the theorem is not about a model that accepts everything -/
example : NsLexical [⟨"a".toList, [⟨.type, "Foo".toList⟩, ⟨.route 1, "foo".toList⟩]⟩] ∧
    ¬ NoClash [⟨"a".toList, [⟨.type, "Foo".toList⟩, ⟨.route 1, "foo".toList⟩]⟩] := by decide

end StoneVerif.C01
