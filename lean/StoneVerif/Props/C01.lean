import StoneVerif.Lemmas.FeParams
import StoneVerif.Lemmas.FeNames
/-!
# C01 — the compiler accepts exactly the legal specs: the proved part

The end-to-end statement (whole specs through `specs_to_ir`) is covered by the by-construction oracle of
`harness/suites/fe_rules.py` and is labelled testing.  Proved here, for ALL inputs, about the component models that
follow the decision logic of the code:

(a) `FeParams`: `_instantiate_data_type` + the `__init__` parameter checks of the built-in types against the "Basic
    Types" table of docs/lang_ref.rst (`legalArgs`);
(b) `FeNames`: the registration pass reduced to names against the pairwise no-clash rule (`NoClash`).

Full-strength statements that are false of today's code are refuted on a concrete witness; the `_partial` versions
exclude exactly the witnessed holes by a named, decidable hypothesis.  Holes that were repaired in the code since the
first version of these models (a literal as `List` / `Map` element type, a non-integral `List` length) are no longer
excluded; the new behaviour is pinned by `list_literal_refused`, `list_float_length_refused`.
-/
namespace StoneVerif.C01
open StoneVerif.FeParams StoneVerif.FeNames

/-! ## (a) type arguments -/

/-- A legal argument list is never refused (full strength; `rx ""`: the empty pattern compiles). -/
theorem legal_args_accepted (rx : String → Bool) (hrx : rx "" = true) (k : TyKind) (pos : List Arg)
    (kw : List (String × Arg)) (h : legalArgs rx k pos kw = true) : ∃ t, instantiate rx k pos kw = .ok t :=
  FeParams.legal_accepted rx hrx k pos kw h

/-- Acceptance = legality, outside the two remaining holes (`hitsHole`: a falsy non-string `String` pattern, a
numeric bound beyond the far end of the width). Missing for full strength: those holes. -/
theorem instantiate_ok_iff_legal_partial (rx : String → Bool) (hrx : rx "" = true) (k : TyKind) (pos : List Arg)
    (kw : List (String × Arg)) (hh : hitsHole k kw = false) :
    (∃ t, instantiate rx k pos kw = .ok t) ↔ legalArgs rx k pos kw = true :=
  FeParams.instantiate_ok_iff_legal_partial rx hrx k pos kw hh

/-- The same for a whole reference `K(args)` / `K(args)?` to a built-in type (`Void?` is refused). -/
theorem builtin_ref_ok_iff_legal_partial (rx : String → Bool) (hrx : rx "" = true) (k : TyKind) (pos : List Arg)
    (kw : List (String × Arg)) (nullable : Bool) (hh : hitsHole k kw = false) :
    (∃ r, resolveBuiltin rx k pos kw nullable = .ok r) ↔ legalRef rx k pos kw nullable = true :=
  FeParams.resolveBuiltin_ok_iff_legalRef_partial rx hrx k pos kw nullable hh

/-- Full strength for the composite and parameterless types: for `List`, `Map`, `Timestamp`, `Bytes`, `Boolean`,
`Void` acceptance = legality for every argument list (no hole is left there). -/
theorem container_ok_iff_legal (rx : String → Bool) (hrx : rx "" = true) (k : TyKind) (pos : List Arg)
    (kw : List (String × Arg)) (hk : k = .list ∨ k = .map ∨ k = .timestamp ∨ k = .bytes ∨ k = .boolean ∨ k = .void) :
    (∃ t, instantiate rx k pos kw = .ok t) ↔ legalArgs rx k pos kw = true :=
  FeParams.instantiate_ok_iff_legal_of_kind rx hrx k pos kw hk

/-- The full-strength equivalence over all thirteen types FAILS on today's code. -/
theorem instantiate_ok_iff_legal_fails :
    ¬ ∀ (rx : String → Bool) (k : TyKind) (pos : List Arg) (kw : List (String × Arg)),
      ((∃ t, instantiate rx k pos kw = .ok t) ↔ legalArgs rx k pos kw = true) :=
  FeParams.instantiate_ok_iff_legal_fails

/-- `String(pattern=0)`: a non-string pattern is accepted when it is falsy. -/
theorem hole_string_falsy_pattern :
    instantiate (fun _ => true) .string [] [("pattern", .int 0)] = .ok (.string none none (some (.int 0))) ∧
      legalArgs (fun _ => true) .string [] [("pattern", .int 0)] = false :=
  FeParams.hole_string_falsy_pattern

/-- `Int32(min_value=2147483648)`: a lower bound above the maximum of the width is accepted. -/
theorem hole_int_min_above_maximum :
    instantiate (fun _ => true) .int32 [] [("min_value", .int 2147483648)] = .ok (.int .int32 (some 2147483648) none) ∧
      legalArgs (fun _ => true) .int32 [] [("min_value", .int 2147483648)] = false :=
  FeParams.hole_int_min_above_maximum

/-- Repaired: `List(3)` (a literal where a type is required) is a spec error. -/
theorem list_literal_refused :
    instantiate (fun _ => true) .list [.int 3] [] = .error (.specerr .badArgument) :=
  FeParams.list_literal_refused

/-- Repaired: `List(String, min_items=1.5)` is a spec error. -/
theorem list_float_length_refused :
    instantiate (fun _ => true) .list [.ty true] [("min_items", .float (.fin 3 2))] = .error (.specerr .badArgument) :=
  FeParams.list_float_length_refused

/-- the signatures the model reads (`Tables.feInitSigs`, extracted from stone/ir/data_types.py) are the ones the
specification table assumes: required = non-defaulted, optional = defaulted parameters -/
theorem signature_tables (k : TyKind) :
    (required k).length = (initSig k).1.length - (initSig k).2 ∧
      (optional k).map (·.1) = (initSig k).1.drop ((initSig k).1.length - (initSig k).2) :=
  ⟨FeParams.required_matches_signature k, FeParams.optional_matches_signature k⟩

example : hitsHole .string [("min_length", .int 1), ("max_length", .int 5)] = false ∧
    legalArgs (fun _ => true) .string [] [("min_length", .int 1), ("max_length", .int 5)] = true := by decide

/-! ## (b) names -/

/-- Registration succeeds exactly when no two definitions clash (A8 – A10, B19), provided the separator-less
concatenation of `_get_base_name` is unambiguous on the input and namespace names are identifiers (no `/`).
Missing for full strength: `ConcatUnambiguous` (see `register_refuses_legal`). -/
theorem register_ok_iff_noclash_partial (fs : List File) (hu : ConcatUnambiguous fs) (hl : NsLexical fs) :
    isOk (register fs) = true ↔ NoClash fs :=
  FeNames.register_ok_iff_noclash_partial fs hu hl

/-- Acceptance does not depend on declaration order, file order or on how a namespace is split into files (same
hypotheses). -/
theorem register_perm_partial (fs fs' : List File) (h : SameDecls fs fs') (hu : ConcatUnambiguous fs)
    (hl : NsLexical fs) : isOk (register fs) = isOk (register fs') :=
  FeNames.register_perm_partial fs fs' h hu hl

/-- Without the hypothesis: a spec that violates no naming rule is refused (`Ab` in `c`, `A` in `bc`). -/
theorem register_refuses_legal : ∃ fs, NoClash fs ∧ isOk (register fs) = false :=
  FeNames.register_refuses_legal

/-- Without the hypothesis: acceptance depends on file order (type `abc` of namespace `abcabcabc` against the
namespace line of `abcabc`). -/
theorem register_order_dependent : ∃ fs fs', SameDecls fs fs' ∧ isOk (register fs) ≠ isOk (register fs') :=
  FeNames.register_order_dependent

/-- A name of `Tables.feBuiltinTypes` cannot be redefined, whatever else the spec says. -/
theorem builtin_type_not_redefinable (fs : List File) (f : File) (hf : f ∈ fs) (x : Item) (hx : x ∈ f.items)
    (hb : x.name ∈ Tables.feBuiltinTypes.map String.toList) : isOk (register fs) = false :=
  FeNames.builtin_type_not_redefinable fs f hf x hx (FeNames.builtinTypes_eq ▸ hb)

/-- the characters `_get_base_name` strips, as extracted from the code -/
theorem canonical_strip_table : Tables.feCanonicalStrip = (["/", "_"], ["_"]) := FeNames.canonical_strip_table

example : ConcatUnambiguous FeNames.exampleFiles ∧ NsLexical FeNames.exampleFiles ∧ NoClash FeNames.exampleFiles ∧
    isOk (register FeNames.exampleFiles) = true := by decide

end StoneVerif.C01
