import StoneVerif.Model.DeclStub
import StoneVerif.Lemmas.DeclStub
import StoneVerif.Gen.Tables
/-!
Property theorems for C15 (type stubs describe exactly what the modules define).

Model: `StoneVerif.DeclStub` (Model/DeclStub.lean) — `stubNs` follows
`PythonTypeStubsBackend._generate_base_namespace_module` (with the `ImportTracker` mechanism: what is
registered while emitting is what the placeholder imports), `rtNs` follows
`PythonTypesBackend._generate_base_namespace_module` (names only), `mapStoneType` follows
`map_stone_type_to_python_type` with the overrides of the stub backend. Specification level:
`pep484` (independent Stone type → PEP 484 type), `judgedNames` / `judgedMember` (what the property
compares), `resolve` / `resolveCtor` (inheritance resolved), `judgedSpec` below.

All theorems hold for EVERY naming (`Naming` = the two word formatters of helpers.py are parameters).
-/
namespace StoneVerif.C15
open StoneVerif.DeclStub

/-! ## The literals the model was written from -/

theorem tables_pinned :
    Tables.stubReservedKeywords = ["async", "break", "class", "continue", "for", "pass", "while"] ∧
    Tables.stubTypeMapBranches =
      [("is_string_type", "str"), ("is_bytes_type", "bytes"), ("is_boolean_type", "bool"),
       ("is_float_type", "float"), ("is_integer_type", "int"), ("is_void_type", "None"),
       ("is_timestamp_type", "datetime.datetime"), ("is_alias", ""), ("is_user_defined_type", ""),
       ("is_list_type", ""), ("is_map_type", ""), ("is_nullable_type", "")] ∧
    Tables.stubOverrideCallbacks =
      [("List", "upon_encountering_list"), ("Map", "upon_encountering_map"),
       ("Nullable", "upon_encountering_nullable"), ("Timestamp", "upon_encountering_timestamp"),
       ("String", "upon_encountering_string"), ("UserDefined", "upon_encountering_user_defined")] ∧
    Tables.stubCallbackFormats =
      [("List", "List[{}]"), ("Map", "Dict[{}, {}]"), ("Nullable", "Optional[{}]"), ("Timestamp", ""),
       ("String", "Text"), ("UserDefined", "")] ∧
    Tables.stubCallbackRegisters =
      [("List", "typing:List"), ("Map", "typing:Dict"), ("Nullable", "typing:Optional"),
       ("Timestamp", "adhoc:import datetime"), ("String", "typing:Text"),
       ("UserDefined", "adhoc-expr:'from {} import {}{}'.format(self.args.package, fmt_namespace(data_type.namespace.name), TYPE_IGNORE_COMMENT)")] ∧
    Tables.stubCallbackGuards =
      [("UserDefined", "data_type.namespace not in [ns] + ns.get_imported_namespaces(consider_annotation_types=True)")] ∧
    Tables.stubOtherRegisters =
      [("_generate_typevars", "typing:TypeVar"),
       ("_generate_struct_or_union_class_custom_annotations", "typing:Type"),
       ("_generate_struct_or_union_class_custom_annotations", "typing:Text"),
       ("_generate_struct_or_union_class_custom_annotations", "typing:Callable"),
       ("_generate_struct_class_init", "typing:Optional"),
       ("_generate_annotation_type_class_init", "typing:Optional")] ∧
    Tables.stubEmitTemplates =
      [("_generate_validator_for", "{}_validator: bv.Validator = ..."),
       ("_generate_routes", "{method_name}: bb.Route = ..."),
       ("_generate_struct_class_properties", "{}: bb.Attribute[{}] = ..."),
       ("_generate_union_class_vars", "{field_name}: {field_type} = ..."),
       ("_generate_union_class_is_set", "def is_{}(self) -> bool: ..."),
       ("_generate_union_class_variant_creators", "def {field_name}(cls, val: {val_type}) -> {union_type}: ..."),
       ("_generate_union_class_get_helpers", "def get_{field_name}(self) -> {val_type}: ..."),
       ("_generate_typevars", "T = TypeVar('T', bound=bb.AnnotationType)"),
       ("_generate_typevars", "U = TypeVar('U')"),
       ("_generate_struct_or_union_class_custom_annotations", ") -> None: ..."),
       ("_generate_struct_or_union_class_custom_annotations", "annotation_type: Type[T],"),
       ("_generate_struct_or_union_class_custom_annotations", "field_path: Text,"),
       ("_generate_struct_or_union_class_custom_annotations", "processor: Callable[[T, U], U],")] :=
  ⟨rfl, rfl, rfl, rfl, rfl, rfl, rfl, rfl⟩

/-! ## Annotations: the code's mapping is the PEP 484 mapping -/

/-- For every Stone type expression, in every namespace, under every naming: what
`map_stone_type_to_pep484_type` writes is the independent PEP 484 type, with the text type spelled
`Text` (`typing.Text`, which PEP 484 defines as an alias of `str` in Python 3; the harness asserts
`typing.Text is str`). -/
theorem stub_annotation_ok (N : Naming) (ns : String) (t : StoneTy) :
    (mapStoneType N ns t).1 = pep484S (.name "Text") (fun n => fmtClass N n) fmtNamespace ns t := by
  unfold mapStoneType
  rw [overrides_all]
  induction t with
  | alias a b t ih => simpa [mapTy, pep484S] using ih
  | user tns name =>
    by_cases h : tns = ns <;> simp [mapTy, pep484S, h]
  | list t ih => simp [mapTy, pep484S, ih]
  | map k v ihk ihv => simp [mapTy, pep484S, ihk, ihv]
  | nullable t ih => simp [mapTy, pep484S, ih]
  | _ => simp [mapTy, pep484S, tDatetime]

/-- The same with `Text` read as `str`: exactly `pep484`, provided no generated class reachable in the
type is itself called `Text` (then the spelling `Text` would be ambiguous in the stub). -/
theorem stub_annotation_ok_str (N : Naming) (ns : String) (t : StoneTy) (h : textFree N t = true) :
    normText (mapStoneType N ns t).1 = pep484 N ns t := by
  rw [stub_annotation_ok, pep484S_norm N ns t h]

/-- Where each mapped type is placed (the exact relation between an item and its Stone type `T`,
`P = ` the PEP 484 type of `T`): field attribute `bb.Attribute[P]`; constructor parameter `P`, or
`Optional[P]` exactly when the field has a default; tag constructor `val: P`, `get_<tag> -> P`,
`is_<tag> -> bool`; a void tag is an attribute of the union's own class. -/
theorem stub_annotation_placement (N : Naming) (ns : String) (f : Field) :
    let P := pep484S (.name "Text") (fun n => fmtClass N n) fmtNamespace ns f.ty
    (stubFieldAttr N ns f).1.ann = .sub (tBB "Attribute") P ∧
    (stubInitParam N ns f).1.ann = (if f.hasDefault then tOptional P else P) ∧
    (stubInitParam N ns f).1.name = fmtVar N f.name true ∧
    (∀ t : TypeDef, ∀ m ∈ (stubUnionCreators N ns t).1, m.ann = .name (fmtClass N t.name)) ∧
    (∀ t : TypeDef, f ∈ t.fields → isVoidTy f.ty = false →
        { kind := .classmethod, name := fmtFunc N f.name true, ann := .name (fmtClass N t.name),
          params := [⟨"val", P⟩] } ∈ (stubUnionCreators N ns t).1 ∧
        { kind := .method, name := "get_" ++ fmtFunc N f.name, ann := P } ∈ (stubUnionGetters N ns t).1) ∧
    (∀ t : TypeDef, f ∈ t.fields →
        { kind := .method, name := "is_" ++ fmtFunc N f.name, ann := .name "bool" } ∈ stubUnionIsSet N t) ∧
    (∀ t : TypeDef, f ∈ t.fields → isVoidTy f.ty = true →
        { kind := .attr, name := fmtVar N f.name, ann := .name (fmtClass N t.name) } ∈ stubUnionVars N t) := by
  intro P
  have hP : (mapStoneType N ns f.ty).1 = P := stub_annotation_ok N ns f.ty
  refine ⟨?_, ?_, ?_, ?_, ?_, ?_, ?_⟩
  · simp [stubFieldAttr, hP]
  · by_cases h : f.hasDefault <;> simp [stubInitParam, h, hP]
  · by_cases h : f.hasDefault <;> simp [stubInitParam, h]
  · intro t m hm
    simp only [stubUnionCreators, unzipW, List.map_map, List.mem_map, List.mem_filter] at hm
    obtain ⟨g, _, rfl⟩ := hm
    rfl
  · intro t hf hv
    constructor
    · simp only [stubUnionCreators, unzipW, List.map_map, List.mem_map, List.mem_filter]
      exact ⟨f, ⟨hf, by simp [hv]⟩, by simp [hP]⟩
    · simp only [stubUnionGetters, unzipW, List.map_map, List.mem_map, List.mem_filter]
      exact ⟨f, ⟨hf, by simp [hv]⟩, by simp [hP]⟩
  · intro t hf
    simp only [stubUnionIsSet, List.mem_map]
    exact ⟨f, hf, rfl⟩
  · intro t hf hv
    simp only [stubUnionVars, List.mem_map, List.mem_filter]
    exact ⟨f, ⟨hf, hv⟩, rfl⟩

/-! ## Names: stub and runtime declare the same judged names -/

/-- The stub declares exactly the enumerated names, the validator of an alias being named after
`fmt_class(alias.name)`. -/
theorem stub_names_exact (N : Naming) (api : Api) (ns : Namespace) (m : ModDecl)
    (h : stubNs N api ns = .ok m) :
    judgedNames m = judgedSpec N ns (fun n => fmtClass N n ++ "_validator") := by
  unfold stubNs at h
  split at h
  · cases h
  · injection h with h
    subst h
    simp only [judgedNames, stubBody, List.flatMap_append, flatW_fst, flatMap_flatMap', judged_stubType,
      judged_stubAlias, judgedSpec]
    simp [stubTypevars, stubAnnoType, judgedItem, stubRoutes, List.flatMap_map, flatMap_nil', flatMap_single']

/-- The runtime module defines exactly the enumerated names, the validator of an alias being named
after `fmt_class(alias.name)` as well (since the repair of D20; it used to be `alias.name` itself). -/
theorem runtime_names_exact (N : Naming) (api : Api) (ns : Namespace) (m : ModDecl)
    (h : rtNs N api ns = .ok m) :
    judgedNames m = judgedSpec N ns (fun n => fmtClass N n ++ "_validator") := by
  unfold rtNs at h
  split at h
  · cases h
  · injection h with h
    subst h
    simp only [judgedNames, List.flatMap_append, flatMap_flatMap', judged_rtType, judged_rtAlias, judgedSpec]
    simp [rtAnnoType, judgedItem, rtRoutes, List.flatMap_map, flatMap_nil', flatMap_single']

/-- both generators refuse the same namespaces (`check_route_name_conflict`) -/
theorem stub_ok_iff_runtime_ok (N : Naming) (api : Api) (ns : Namespace) :
    (∃ m, stubNs N api ns = .ok m) ↔ (∃ m, rtNs N api ns = .ok m) := by
  unfold stubNs rtNs
  cases routeConflict N [] ns.routes <;> simp

/-- **C15, names.** For every API description, namespace and naming, the judged names the stub
declares are the judged names the runtime module defines (same kinds, same names, same order): per
struct / union its class and `<Class>_validator`, per alias `<fmt_class(alias)>_validator` and, for
an alias of a struct or union, `fmt_class(alias)` itself, per route its object (`judgedSpec`). No
hypothesis: both generators name the validator of an alias after `fmt_class(alias.name)`
(regression example of D20 below). -/
theorem stub_eq_runtime_names (N : Naming) (api : Api) (ns : Namespace) (ms mr : ModDecl)
    (hs : stubNs N api ns = .ok ms) (hr : rtNs N api ns = .ok mr) :
    judgedNames ms = judgedNames mr := by
  rw [stub_names_exact N api ns ms hs, runtime_names_exact N api ns mr hr]

/-! ## Bases and constructor parameters -/

/-- **C15, bases.** The class generated for a struct or union has the same name, the same kind and
the same single base on both sides: the class of the parent type (qualified by its module when the
parent lives in another namespace), else `bb.Struct` / `bb.Union`. -/
theorem stub_bases_eq (N : Naming) (api : Api) (ns : String) (t : TypeDef) :
    ∃ cs cr, classOf (stubType N api ns t).1 = some cs ∧ classOf (rtType N api ns t) = some cr ∧
      cs.name = cr.name ∧ cs.kind = cr.kind ∧ cs.base = cr.base ∧ cs.base = classBase N ns t := by
  cases h : t.kind <;>
    simp [stubType, rtType, h, stubStruct, stubUnion, rtStruct, rtUnion, classOf]

/-- **C15, constructor parameters.** With inheritance resolved on both sides (the first class of the
chain whose body defines `__init__`), stub and runtime have the same parameter names in the same
order: for a struct one parameter per field of `all_fields` (required fields of the whole chain
first), for a union the constructor of the library class on both sides (`none`). -/
theorem stub_ctor_params_eq (N : Naming) (api : Api) (n : Nat) (ns : String) (t : TypeDef) :
    resolveCtor (fun ns t => (stubType N api ns t).1) api n ns t = resolveCtor (rtType N api) api n ns t := by
  induction n generalizing ns t with
  | zero => simp [resolveCtor, ctor_own_eq]
  | succ n ih =>
    simp only [resolveCtor, ctor_own_eq]
    split
    · rfl
    · split
      · rfl
      · split
        · rfl
        · exact ih _ _

/-- the parameters of a struct's constructor, explicitly -/
theorem stub_ctor_params_struct (N : Naming) (api : Api) (ns : String) (t : TypeDef) (h : t.kind = .struct) :
    ctorParams (stubType N api ns t).1 = some ((allFields api api.fuel t).map fun f => fmtVar N f.name true) := by
  simp [stubType, h, stubStruct, classOf, ctorParams, unzipW, List.map_map, Function.comp_def,
    stubInitParam_name]

/-! ## Members with inheritance resolved -/

/-- **C15, members.** With inheritance resolved on BOTH sides, the class of every struct and union
has the same judged members (kind and name: field attributes; void-tag attributes, `is_<tag>`,
`get_<tag>`, tag constructors) in the stub and at runtime. The stub of a struct repeats the
inherited fields in every class (`all_fields`), the runtime class defines only its own: the sets
coincide once the chain is followed. Hypothesis: the inheritance chain of the type ends within `n`
steps and stays within one kind (`chainOK`, evaluated on every description the harness dumps). -/
theorem stub_members_eq (N : Naming) (api : Api) (n : Nat) (ns : String) (t : TypeDef)
    (hc : chainOK api n t = true) (hn : n ≤ api.fuel) (x : MKind × String) :
    x ∈ resolve (stubOwn N api) api n ns t ↔ x ∈ resolve (rtOwn N api) api n ns t := by
  cases hk : t.kind with
  | struct => rw [stub_resolve_struct N api n ns t hc hk hn x, rt_resolve_struct N api n ns t hc hk x]
  | union => exact union_resolve N api n ns t hc hk x

/-! ## Imports: every name an annotation uses is imported or defined -/

/-- **C15, imports.** For every API description and namespace, every name used in an annotation of
the stub is imported by the emitted import list (fixed imports, namespace imports, and the placeholder
filled with what was registered with the `ImportTracker` while emitting), defined in the stub, or a
builtin (`bool int float bytes str`). The only hypothesis is a well-formedness the frontend
establishes: a reference INTO the namespace itself (aliases resolved, inherited fields included) is to
a type it defines (`ownRefsDefined`). The namespace modules of all other classes the annotations
mention are imported - also those the spec text of the namespace never names (reached through the
target of a foreign alias or an inherited field): since the repair of
C15-stub-indirect-namespace-import the mapping callback for user-defined types registers them
(`imports_regression`; the theorem used to need `refsCovered`, which the frontend does not
guarantee). -/
theorem stub_imports_closed (N : Naming) (api : Api) (ns : Namespace) (m : ModDecl)
    (href : ownRefsDefined api ns = true) (h : stubNs N api ns = .ok m) :
    ∀ x ∈ m.annNames, x ∈ m.imported ∨ x ∈ m.defined ∨ x ∈ pyBuiltins := by
  unfold stubNs at h
  split at h
  · cases h
  · injection h with h
    subst h
    intro x hx
    have ha := body_avail N api ns (refsOK_of_covered api ns href) x hx
    simp only [ModDecl.imported, ModDecl.defined, List.flatMap_append, List.mem_append]
    rcases ha with a | a | ⟨a, b⟩ | a | ⟨t, ht, rfl⟩ | ⟨i, hi, rfl⟩
    · exact Or.inr (Or.inr a)
    · exact Or.inl (Or.inl (Or.inl (typing_imported _ _ x a)))
    · subst a; exact Or.inl (Or.inl (Or.inl (datetime_imported _ _ b)))
    · simp only [List.mem_cons, List.not_mem_nil, or_false] at a
      rcases a with rfl | rfl | rfl | rfl
      · exact Or.inl (Or.inl (Or.inr (by simp [Import.binds])))
      · exact Or.inl (Or.inl (Or.inr (by simp [Import.binds])))
      · exact Or.inr (Or.inl (by simp [stubBody, stubTypevars, ModItem.defines]))
      · exact Or.inr (Or.inl (by simp [stubBody, stubTypevars, ModItem.defines]))
    · refine Or.inr (Or.inl ?_)
      simp only [stubBody, List.flatMap_append, List.mem_append, flatW_fst, flatMap_flatMap']
      exact Or.inl (Or.inl (Or.inr (List.mem_flatMap.mpr ⟨t, ht, class_defined N api ns.name t⟩)))
    · have := nsRef_imported ns.imports (stubBody N api ns).2 i hi
      simp only [List.flatMap_append, List.mem_append] at this
      rcases this with this | this
      · exact Or.inl (Or.inl (Or.inl this))
      · exact Or.inl (Or.inr this)

/-! ## Regressions of D20 and of C15-stub-indirect-namespace-import -/

/-- alias names `fmt_class` changes (`AS` → `As`, `HTTPCode` → `HttpCode`, `HTTPUnion` → `HttpUnion`),
one it leaves alone, and an alias of a union -/
def d20Ns : Namespace :=
  { name := "n",
    types := [{ kind := .union, name := "U", fields := [⟨"a", .void, false⟩] }],
    aliases := [⟨"AS", .string⟩, ⟨"HTTPCode", .integer⟩, ⟨"Plain", .string⟩, ⟨"HTTPUnion", .user "n" "U"⟩] }
def d20Api : Api := ⟨[d20Ns]⟩

/-- D20 repaired: stub and runtime module both say `As_validator` / `HttpCode_validator` /
`HttpUnion_validator`, and (D39 repaired) the class alias of a struct or union is bound under
`fmt_class(alias.name)` on both sides (`HttpUnion = U`, the name its users refer to). -/
example :
    aliasNamesStable pyNaming d20Ns = false ∧
    (stubNs pyNaming d20Api d20Ns).map judgedNames =
      .ok [(.cls, "U"), (.validator, "U_validator"),
           (.validator, "As_validator"), (.validator, "HttpCode_validator"), (.validator, "Plain_validator"),
           (.validator, "HttpUnion_validator"), (.aliasName, "HttpUnion")] ∧
    (rtNs pyNaming d20Api d20Ns).map judgedNames = (stubNs pyNaming d20Api d20Ns).map judgedNames := by
  refine ⟨by decide, ?_, ?_⟩ <;> rfl

/-- namespace `a` uses the alias `b.Al`, whose target `c.Foo` lives in a third namespace; `a` imports
`b` only (all the frontend records: `a` never names `c`) -/
def chainC : Namespace := { name := "c", types := [{ kind := .struct, name := "Foo", fields := [⟨"z", .string, false⟩] }] }
def chainB : Namespace := { name := "b", imports := ["c"], aliases := [⟨"Al", .user "c" "Foo"⟩] }
def chainA : Namespace :=
  { name := "a", imports := ["b"],
    types := [{ kind := .struct, name := "S", fields := [⟨"x", .alias "b" "Al" (.user "c" "Foo"), false⟩] }] }
def chainApi : Api := ⟨[chainA, chainB, chainC]⟩

/-- Regression of C15-stub-indirect-namespace-import: the frontend's guarantee (`directCovered`) holds
in every namespace, `refsCovered` fails for `a` (its annotations mention `c.Foo`, its spec text
never names `c`), and the stub of `a` used to annotate with `c.Foo` without importing `c`. The
callback for user-defined types now registers `from <package> import c`: nothing is unresolved, and
the namespace imports of the stub are `c` (placeholder) and `b` (regular block). -/
theorem imports_regression :
    (chainApi.namespaces.all directCovered) = true ∧ chainsOK chainApi = true ∧
    refsCovered chainApi chainA = false ∧ ownRefsDefined chainApi chainA = true ∧
    (stubNs pyNaming chainApi chainA).map (fun m => (m.unresolved, m.imports.filter (fun i => match i with | .ns _ => true | _ => false))) =
      .ok ([], [.ns "c", .ns "b"]) := by
  refine ⟨by decide, by decide, by decide, by decide, ?_⟩
  rfl

/-- the same through a field inherited from a parent in another namespace: `a.S2 extends b.Base`,
`b.Base` has a field of type `List(c.Foo?)` -/
def inhB : Namespace :=
  { name := "b", imports := ["c"],
    types := [{ kind := .struct, name := "Base", fields := [⟨"w", .list (.nullable (.user "c" "Foo")), false⟩] }] }
def inhA : Namespace :=
  { name := "a", imports := ["b"], types := [{ kind := .struct, name := "S2", parent := some ("b", "Base"), fields := [⟨"y", .integer, false⟩] }] }
def inhApi : Api := ⟨[inhA, inhB, chainC]⟩

example : directCovered inhA = true ∧ refsCovered inhApi inhA = false ∧
    (stubNs pyNaming inhApi inhA).map (fun m => (m.unresolved, m.imports.contains (.ns "c"))) = .ok ([], true) := by
  refine ⟨by decide, by decide, ?_⟩
  rfl

/-! ## Non-vacuity: a description on which every hypothesis holds -/

def exCommon : Namespace :=
  { name := "common",
    types := [{ kind := .struct, name := "Base", fields := [⟨"id", .string, false⟩, ⟨"size", .integer, true⟩] },
              { kind := .union, name := "Mode",
                fields := [⟨"plain", .void, false⟩, ⟨"fancy", .user "common" "Base", false⟩,
                           ⟨"maybe", .nullable .timestamp, false⟩] }],
    aliases := [⟨"Ids", .list .string⟩, ⟨"BaseAlias", .user "common" "Base"⟩] }
def exFiles : Namespace :=
  { name := "files", imports := ["common"],
    types := [{ kind := .struct, name := "Arg", parent := some ("common", "Base"),
                fields := [⟨"mode", .user "common" "Mode", false⟩,
                           ⟨"tags", .map .string (.list .float), false⟩,
                           ⟨"other", .nullable (.alias "common" "BaseAlias" (.user "common" "Base")), false⟩] },
              { kind := .union, name := "More", parent := some ("common", "Mode"),
                fields := [⟨"extra", .user "files" "Arg", false⟩, ⟨"nothing", .void, false⟩] }],
    routes := [⟨"get", 1⟩, ⟨"get", 2⟩] }
def exApi : Api := ⟨[exCommon, exFiles]⟩

example : chainsOK exApi = true ∧ ownRefsDefined exApi exFiles = true ∧ ownRefsDefined exApi exCommon = true ∧
    refsCovered exApi exFiles = true := by decide

/-- the judged names of `files`, both sides -/
example : (stubNs pyNaming exApi exFiles).map judgedNames =
    .ok [(.cls, "Arg"), (.validator, "Arg_validator"), (.cls, "More"), (.validator, "More_validator"),
         (.route, "get"), (.route, "get_v2")] ∧
    (rtNs pyNaming exApi exFiles).map judgedNames = (stubNs pyNaming exApi exFiles).map judgedNames := by
  constructor <;> rfl

/-- the constructor of `Arg` takes the required fields of the whole chain first, then the optional ones -/
example : resolveCtor (fun ns t => (stubType pyNaming exApi ns t).1) exApi exApi.fuel "files" exFiles.types[0]! =
    some ["id", "mode", "tags", "size", "other"] := by rfl

/-- resolved members of the child union: its own tags and the parent's -/
example : (resolve (rtOwn pyNaming exApi) exApi exApi.fuel "files" exFiles.types[1]!) =
    [(.attr, "nothing"), (.classmethod, "extra"), (.method, "is_extra"), (.method, "is_nothing"),
     (.method, "get_extra"), (.attr, "nothing"),
     (.attr, "plain"), (.classmethod, "fancy"), (.classmethod, "maybe"), (.method, "is_plain"),
     (.method, "is_fancy"), (.method, "is_maybe"), (.method, "get_fancy"), (.method, "get_maybe"),
     (.attr, "plain")] := by rfl

/-- annotation of `other common.BaseAlias?` seen from `files`: `Optional[common.Base]` -/
example : (mapStoneType pyNaming "files" (.nullable (.alias "common" "BaseAlias" (.user "common" "Base")))).1 =
    .sub (.name "Optional") (.attr (.name "common") "Base") := by rfl

/-- the stub of `files` is closed; the placeholder imports exactly what was registered while emitting -/
example : (stubNs pyNaming exApi exFiles).map (fun m => (m.unresolved, m.imports.take 1)) =
    .ok ([], [.typing ["TypeVar", "Dict", "List", "Optional", "Type", "Text", "Callable"]]) := by rfl

/-- formatting: the names D20 is about, a reserved word, a versioned route -/
example : fmtClass pyNaming "AS" = "As" ∧ fmtClass pyNaming "HTTPCode" = "HttpCode" ∧
    fmtVar pyNaming "class" true = "class_" ∧ fmtFunc pyNaming "getFile_info" false 2 = "get_file_info_v2" ∧
    fmtNamespace "while" = "while_" := by decide

end StoneVerif.C15
