import StoneVerif.Lemmas.FeCompileLegalAccept
/-!
# C01 for the compile model: accepted = legal

`Legal rx fs` (Model/FeCompile.lean) is the conjunction of the rules of the language over the declarations of all
files, written without reference to the order of files, declarations or passes (names: `FeNames.NoClash`; imports;
references; aliases; structs and unions; enumerated subtypes; routes).  `compile` follows the passes of
`IRGenerator.generate_IR`.  `rx` says which patterns `re.compile` accepts; `nsLexical fs` says that namespace names
are identifiers (no `/`) -- a fact about the parser's output (token `ID`), not a rule.
-/
namespace StoneVerif.C01Compile
open StoneVerif.FeCompile

/-- **Never refused.** A set of spec files that violates no rule is compiled: no pass refuses it -- and none of
the model's recursion bounds is hit, no impossible state is reached (`outOfFuel`, `fuelAlias`, `fuelAncestors`,
`fuelImports`, `internal` do not occur on legal input). -/
theorem legal_accepted (rx : String → Bool) (fs : List File) (hl : nsLexical fs = true) (h : Legal rx fs = true) :
    ∃ api, compile rx fs = .ok api :=
  L.legal_compile_ok hl h

/-- **Names and imports, both ways.** The first two passes (registration with the canonical-name check; imports)
accept exactly the inputs whose names obey `FeNames.NoClash` and whose imports are not reflexive, name existing
namespaces and form no cycle. -/
theorem buildEnv_ok_iff (fs : List File) (hl : nsLexical fs = true) :
    isOk (buildEnv fs) = (namesLegal fs && importsLegal fs) :=
  L.buildEnv_ok_iff fs hl

end StoneVerif.C01Compile
