import StoneVerif.Lemmas.FeCompileRouteAttrs
import StoneVerif.Model.FeAttrVal
import StoneVerif.Props.C02Compile
/-!
# C01 for the compile model: accepted = legal

`Legal rx fs` (Model/FeCompile.lean) is the conjunction of the rules of the language over the declarations of all
files, written without reference to the order of files, declarations or passes (names: `FeNames.NoClash`; imports;
references; aliases; structs and unions; enumerated subtypes; routes; patches; applied annotations).  `compile` follows the passes of
`IRGenerator.generate_IR`.  `rx` says which patterns `re.compile` accepts; `nsLexical fs` says that namespace names
are identifiers (no `/`) -- a fact about the parser's output (token `ID`), not a rule; it is what makes the canonical
keys of C01's name model unambiguous (`FeNames.register_ok_iff_noclash`).
-/
namespace StoneVerif.C01Compile
open StoneVerif.FeCompile

/-- **Accepted = legal.** The model of the IR generator accepts a set of spec files exactly when the files obey every
rule: each check of each pass -- made in the order the passes run, against the aliases set and the types populated at
that moment -- is, taken together with the others, the order-free rule; and the rules leave nothing for a check to
trip over.  `vc` is the test of one route-attribute value against the type of its attribute: the statement holds for
every such test (`compile_ok_iff_legal_values` below instantiates it with C10's value checker). -/
theorem compile_ok_iff_legal (rx : String → Bool) (vc : ValCk) (fs : List File) (hl : nsLexical fs = true) :
    (∃ api, compileFull rx vc fs = .ok api) ↔ LegalFull rx vc fs = true :=
  L.compileFull_ok_iff_legalFull rx vc fs hl

/-- **Never refused.** A set of spec files that violates no rule is compiled: no pass refuses it -- and none of
the model's recursion bounds is hit, no impossible state is reached (`outOfFuel`, `fuelAlias`, `fuelAncestors`,
`fuelImports`, `internal` do not occur on legal input). -/
theorem legal_accepted (rx : String → Bool) (vc : ValCk) (fs : List File) (hl : nsLexical fs = true) (h : LegalFull rx vc fs = true) :
    ∃ api, compileFull rx vc fs = .ok api :=
  (compile_ok_iff_legal rx vc fs hl).mpr h

/-- **Every violation is reported.** A set of spec files that violates a rule -- any rule, anywhere, in any order of
files and declarations -- is refused. (WHICH error is raised when several rules are violated follows the order of
the passes; the correspondence suite compares the kinds on single violations.) -/
theorem violation_refused (rx : String → Bool) (vc : ValCk) (fs : List File) (hl : nsLexical fs = true) (h : LegalFull rx vc fs = false) :
    ∃ e, compileFull rx vc fs = .error e := by
  cases hc : compileFull rx vc fs with
  | error e => exact ⟨e, rfl⟩
  | ok api =>
    have := (compile_ok_iff_legal rx vc fs hl).mp ⟨api, hc⟩
    rw [h] at this
    cases this

/-- **Whatever is refused violates a rule** (`compile_error_sound`): an error of any kind -- the kinds of the
`InvalidSpec` sites, and the model's own `crash` / fuel / `internal` answers alike -- is only ever produced on input
that is not legal. -/
theorem compile_error_sound (rx : String → Bool) (vc : ValCk) (fs : List File) (hl : nsLexical fs = true) (e : Err)
    (h : compileFull rx vc fs = .error e) : LegalFull rx vc fs = false := by
  cases hL : LegalFull rx vc fs with
  | false => rfl
  | true =>
    obtain ⟨api, hapi⟩ := (compile_ok_iff_legal rx vc fs hl).mpr hL
    rw [h] at hapi
    cases hapi

/-- **Acceptance does not depend on the arrangement**: `Legal` mentions the files only through the declarations of
each namespace, the set of namespaces and C01's name rules; stated for two inputs that are both lexical and have the
same verdict of `Legal` this is `compile_ok_iff_legal` twice. -/
theorem acceptance_by_rules (rx : String → Bool) (vc : ValCk) (fs fs' : List File) (hl : nsLexical fs = true)
    (hl' : nsLexical fs' = true) (h : LegalFull rx vc fs = LegalFull rx vc fs') :
    (∃ api, compileFull rx vc fs = .ok api) ↔ (∃ api, compileFull rx vc fs' = .ok api) := by
  rw [compile_ok_iff_legal rx vc fs hl, compile_ok_iff_legal rx vc fs' hl', h]

/-- **Accepted = legal, values included.** With the value test `attrVal E C` (Model/FeAttrVal.lean: `<Type>.check` as
C10 models it, `IrCheck.check`, reached through aliases and `Nullable` the way `check_attr_repr` does) the value of a
route attribute is legal when it is a literal of the kind of the attribute's type inside all its bounds (integers in
the width and between `min_value` / `max_value`, no booleans for numbers, integers for floats only when the double is
exact, strings within the lengths and matching the whole pattern, timestamps that `strptime` reads with the format,
for a union the name of one of its tags without a value).  `E`, `C` are IrCheck's external calls -- float comparison,
`float(int)`, the `re` match, `strptime` -- the same on both sides: parameters, not hypotheses. -/
theorem compile_ok_iff_legal_values (rx : String → Bool) (E : StoneVerif.Rt.Ext) (C : StoneVerif.IrCheck.CExt)
    (fs : List File) (hl : nsLexical fs = true) :
    (∃ api, compileFull rx (attrVal E C) fs = .ok api) ↔ LegalFull rx (attrVal E C) fs = true :=
  compile_ok_iff_legal rx (attrVal E C) fs hl

/-- the same without the route-attribute stage: types, patches and applied annotations -/
theorem compile_ok_iff_legal_types (rx : String → Bool) (fs : List File) (hl : nsLexical fs = true) :
    (∃ api, compile rx fs = .ok api) ↔ Legal rx fs = true :=
  L.compile_ok_iff_legal_full rx fs hl

/-- what `compileFull` accepts, `compile` accepts with the same result: C02's theorems about the result apply -/
theorem compileFull_compile {rx vc fs api} (h : compileFull rx vc fs = .ok api) : compile rx fs = .ok api :=
  L.compileFull_compile h

/-- **Names and imports, both ways.** The first two passes (registration with the canonical-name check; imports)
accept exactly the inputs whose names obey `FeNames.NoClash` and whose imports are not reflexive, name existing
namespaces and form no cycle. -/
theorem buildEnv_ok_iff (fs : List File) (hl : nsLexical fs = true) :
    isOk (buildEnv fs) = (namesLegal fs && importsLegal fs) :=
  L.buildEnv_ok_iff fs hl

section Examples

def href (n : String) (nullable := false) : RefHead := { ns := none, name := n, kw := [], nullable := nullable }
def ref (n : String) (nullable := false) : TRef := .leaf (href n nullable) []
def one (ds : List Decl) : List File := [{ ns := "na", decls := ds }]
def errOf {α} : Except Err α → Option Err
  | .error e => some e
  | .ok _ => none
def rx1 : String → Bool := fun _ => true

/-- a legal input: accepted, and `Legal` -/
example : Legal rx1 StoneVerif.C02Compile.sample = true ∧ (compile rx1 StoneVerif.C02Compile.sample).toOption.isSome = true := by
  decide +kernel

/-- one illegal input per group of rules: refused with the kind of the violated rule, and not `Legal` -/
example : errOf (compile rx1 (one [.alias "A" (ref "String"), .type { name := "A", kind := .struct }])) = some .symbolDefined ∧
    Legal rx1 (one [.alias "A" (ref "String"), .type { name := "A", kind := .struct }]) = false := by decide +kernel

example : errOf (compile rx1 [{ ns := "na", decls := [.imp "nb"] }, { ns := "nb", decls := [.imp "na"] }]) = some .importCircular ∧
    Legal rx1 [{ ns := "na", decls := [.imp "nb"] }, { ns := "nb", decls := [.imp "na"] }] = false := by decide +kernel

example : errOf (compile rx1 (one [.type { name := "S", kind := .struct, fields := [{ name := "x", ty := some (ref "T") }] }]))
      = some .undefinedSymbol ∧
    Legal rx1 (one [.type { name := "S", kind := .struct, fields := [{ name := "x", ty := some (ref "T") }] }]) = false := by
  decide +kernel

example : errOf (compile rx1 (one [.type { name := "S", kind := .struct, fields := [{ name := "x", ty := some (ref "N" true) }] },
                                    .alias "N" (ref "String" true)])) = some .nullableNullable ∧
    Legal rx1 (one [.type { name := "S", kind := .struct, fields := [{ name := "x", ty := some (ref "N" true) }] },
                    .alias "N" (ref "String" true)]) = false := by decide +kernel

example : errOf (compile rx1 (one [.alias "A" (ref "B"), .alias "B" (.app1 (href "List") (ref "A"))])) = some .aliasCycle ∧
    Legal rx1 (one [.alias "A" (ref "B"), .alias "B" (.app1 (href "List") (ref "A"))]) = false := by decide +kernel

example : errOf (compile rx1 (one [.type { name := "S", kind := .struct, «extends» := some (ref "T") },
                                    .type { name := "T", kind := .struct, «extends» := some (ref "S") }])) = some .circular ∧
    Legal rx1 (one [.type { name := "S", kind := .struct, «extends» := some (ref "T") },
                    .type { name := "T", kind := .struct, «extends» := some (ref "S") }]) = false := by decide +kernel

example : errOf (compile rx1 (one [.type { name := "S", kind := .struct, «extends» := some (ref "P"),
                                            fields := [{ name := "x", ty := some (ref "Int32") }] },
                                    .type { name := "P", kind := .struct, fields := [{ name := "x", ty := some (ref "String") }] }]))
      = some .parentField ∧
    Legal rx1 (one [.type { name := "S", kind := .struct, «extends» := some (ref "P"),
                            fields := [{ name := "x", ty := some (ref "Int32") }] },
                    .type { name := "P", kind := .struct, fields := [{ name := "x", ty := some (ref "String") }] }]) = false := by
  decide +kernel

example : errOf (compile rx1 (one [.type { name := "P", kind := .union false, fields := [{ name := "a", ty := none }] },
                                    .type { name := "C", kind := .union true, «extends» := some (ref "P") }])) = some .closedExtendsOpen ∧
    Legal rx1 (one [.type { name := "P", kind := .union false, fields := [{ name := "a", ty := none }] },
                    .type { name := "C", kind := .union true, «extends» := some (ref "P") }]) = false := by decide +kernel

example : errOf (compile rx1 (one [.type { name := "S", kind := .struct,
                                            fields := [{ name := "x", ty := some (.app1 (href "List") (ref "String")), hasDefault := true }] }]))
      = some .defaultNotAllowed ∧
    Legal rx1 (one [.type { name := "S", kind := .struct,
                            fields := [{ name := "x", ty := some (.app1 (href "List") (ref "String")), hasDefault := true }] }]) = false := by
  decide +kernel

example : errOf (compile rx1 (one [.type { name := "R", kind := .struct, subtypes := some ([("a", ref "A")], false) },
                                    .type { name := "A", kind := .struct, «extends» := some (ref "R") },
                                    .type { name := "B", kind := .struct, «extends» := some (ref "R") }])) = some .missingSubtype ∧
    Legal rx1 (one [.type { name := "R", kind := .struct, subtypes := some ([("a", ref "A")], false) },
                    .type { name := "A", kind := .struct, «extends» := some (ref "R") },
                    .type { name := "B", kind := .struct, «extends» := some (ref "R") }]) = false := by decide +kernel

example : errOf (compile rx1 (one [.type { name := "S", kind := .struct, fields := [{ name := "x", ty := some (ref "String") }] },
                                    .patch { name := "S", kind := .struct, fields := [{ name := "x", ty := some (ref "Int32") }] }]))
      = some .patchFieldClash ∧
    Legal rx1 (one [.type { name := "S", kind := .struct, fields := [{ name := "x", ty := some (ref "String") }] },
                    .patch { name := "S", kind := .struct, fields := [{ name := "x", ty := some (ref "Int32") }] }]) = false := by
  decide +kernel

example : errOf (compile rx1 (one [.type { name := "S", kind := .union false },
                                    .patch { name := "S", kind := .union true, fields := [{ name := "a", ty := none }] }]))
      = some .patchMismatch ∧
    Legal rx1 (one [.type { name := "S", kind := .union false },
                    .patch { name := "S", kind := .union true, fields := [{ name := "a", ty := none }] }]) = false := by
  decide +kernel

example : errOf (compile rx1 (one [.annot "Dep" .deprecated, .annot "Pre" .preview,
      .type { name := "S", kind := .struct,
              fields := [{ name := "x", ty := some (ref "String"), annots := [⟨none, "Dep"⟩, ⟨none, "Pre"⟩] }] }]))
      = some .deprecatedPreview ∧
    Legal rx1 (one [.annot "Dep" .deprecated, .annot "Pre" .preview,
      .type { name := "S", kind := .struct,
              fields := [{ name := "x", ty := some (ref "String"), annots := [⟨none, "Dep"⟩, ⟨none, "Pre"⟩] }] }]) = false := by
  decide +kernel

example : errOf (compile rx1 (one [.annot "Blot" .redacted, .alias "A" (ref "String"),
      .type { name := "S", kind := .struct, fields := [{ name := "x", ty := some (ref "A"), annots := [⟨none, "Blot"⟩] }] }]))
      = some .redactorOnAliasRef ∧
    Legal rx1 (one [.annot "Blot" .redacted, .alias "A" (ref "String"),
      .type { name := "S", kind := .struct, fields := [{ name := "x", ty := some (ref "A"), annots := [⟨none, "Blot"⟩] }] }]) = false := by
  decide +kernel

/-- legal uses: a redactor on a string member, on an alias definition, Deprecated with Omitted -/
example : Legal rx1 (one [.annot "Blot" .redacted, .annot "Dep" .deprecated, .annot "Omi" .omitted,
      .alias "A" (ref "String"), .aliasAnnots "A" [⟨none, "Blot"⟩],
      .type { name := "S", kind := .struct,
              fields := [{ name := "x", ty := some (ref "String"), annots := [⟨none, "Dep"⟩, ⟨none, "Omi"⟩, ⟨none, "Blot"⟩] },
                         { name := "y", ty := some (.app1 (href "List") (ref "A")) }] }]) = true := by
  decide +kernel

example : errOf (compile rx1 (one [.route { name := "r", version := 1, arg := ref "Void", result := ref "Void",
                                             error := some (ref "Void"), deprecated := some (some ("s", 1)) }])) = some .undefinedRoute ∧
    Legal rx1 (one [.route { name := "r", version := 1, arg := ref "Void", result := ref "Void",
                             error := some (ref "Void"), deprecated := some (some ("s", 1)) }]) = false := by decide +kernel

/-! route attributes (every value passes: `vcT`) -/
def vcT : ValCk := fun _ _ _ _ _ _ => true
def cfg (fields : List AField) (more : List Decl := []) : File :=
  { ns := "stone_cfg", decls := .type { name := "Route", kind := .struct, fields := fields } :: more }
def rt (attrs : List (String × AVal)) : Decl :=
  .route { name := "r", version := 1, arg := ref "Void", result := ref "Void", error := some (ref "Void"), attrs := attrs }
def styleHost : List AField :=
  [{ name := "style", ty := some (ref "String") }, { name := "host", ty := some (ref "String" true) },
   { name := "auth", ty := some (ref "String"), hasDefault := true }]

example : LegalFull rx1 vcT (cfg styleHost :: one [rt [("style", .str "rpc")]]) = true ∧
    (compileFull rx1 vcT (cfg styleHost :: one [rt [("style", .str "rpc"), ("host", .null)]])).toOption.isSome = true := by
  decide +kernel

example : errOf (compileFull rx1 vcT (cfg styleHost :: one [rt []])) = some .attrMissing ∧
    LegalFull rx1 vcT (cfg styleHost :: one [rt []]) = false := by decide +kernel

example : errOf (compileFull rx1 vcT (cfg styleHost :: one [rt [("style", .str "rpc"), ("zzz", .int 1)]])) = some .attrUnknown ∧
    errOf (compileFull rx1 vcT (one [rt [("style", .str "rpc")]])) = some .attrUnknown ∧
    LegalFull rx1 vcT (one [rt [("style", .str "rpc")]]) = false := by decide +kernel

example : errOf (compileFull rx1 vcT [cfg styleHost [rt []]]) = some .cfgRoutes ∧
    errOf (compileFull rx1 vcT [cfg [] [.type { name := "Other", kind := .struct }]]) = some .cfgNotRoute ∧
    LegalFull rx1 vcT [cfg [] [.type { name := "Other", kind := .struct }]] = false := by decide +kernel

example : errOf (compileFull rx1 vcT
      (cfg [{ name := "l", ty := some (.app1 (href "List" true) (ref "String")) }] :: one [rt [("l", .str "a")]]))
      = some .attrNotSettable ∧
    (compileFull rx1 vcT
      (cfg [{ name := "l", ty := some (.app1 (href "List" true) (ref "String")) }] :: one [rt [("l", .null)]])).toOption.isSome
      = true := by decide +kernel

/-! values of route attributes, by C10's checker (the examples need none of its external calls except the pattern) -/
def extT : StoneVerif.Rt.Ext :=
  { fltLt := fun _ _ => false, fltIsNan := fun _ => false, fltIsInf := fun _ => false, fltOfInt := fun _ => none,
    patMatch := fun p s => p == s, b64enc := id, b64dec := fun _ => none, strftime := fun f _ => f,
    strptime := fun _ _ => none, md5 := id, reSearch := fun _ _ => none, strOfInt := fun _ => "", strOfFlt := fun _ => "" }
def cextT : StoneVerif.IrCheck.CExt := { intExact := fun _ => true, strptimeOk := fun f s => f == s }
def vcV : ValCk := attrVal extT cextT
def kwRef (n : String) (kw : List (String × StoneVerif.FeParams.Arg)) : TRef :=
  .leaf { ns := none, name := n, kw := kw, nullable := false } []
def modeCfg : List File :=
  [cfg [{ name := "mode", ty := some (ref "Mode") }, { name := "n", ty := some (kwRef "Int32" [("max_value", .int 9)]), hasDefault := true },
        { name := "s", ty := some (kwRef "String" [("max_length", .int 2)]), hasDefault := true }]
       [.type { name := "Mode", kind := .union false, fields := [{ name := "fast", ty := none }, { name := "big", ty := some (ref "String") }] }]]

-- `stone_cfg` may define only `Route`: the union lives elsewhere in real specs; here the rule itself is shown
example : errOf (compileFull rx1 vcV (modeCfg ++ one [rt [("mode", .tag "fast")]])) = some .cfgNotRoute := by decide +kernel

def modeRoute : TypeDecl :=
  { name := "Route", kind := .struct,
    fields := [{ name := "mode", ty := some (.leaf { ns := some "nb", name := "Mode", kw := [], nullable := false } []) },
               { name := "n", ty := some (kwRef "Int32" [("max_value", .int 9)]), hasDefault := true },
               { name := "s", ty := some (kwRef "String" [("max_length", .int 2)]), hasDefault := true }] }
def modeUnion : TypeDecl :=
  { name := "Mode", kind := .union false, fields := [{ name := "fast", ty := none }, { name := "big", ty := some (ref "String") }] }
def modeFiles : List File :=
  [{ ns := "stone_cfg", decls := [.imp "nb", .type modeRoute] }, { ns := "nb", decls := [.type modeUnion] }]

example : LegalFull rx1 vcV (modeFiles ++ one [rt [("mode", .tag "fast"), ("n", .int 9), ("s", .str "ab")]]) = true ∧
    LegalFull rx1 vcV (modeFiles ++ one [rt [("mode", .tag "other")]]) = true := by decide +kernel

example : errOf (compileFull rx1 vcV (modeFiles ++ one [rt [("mode", .tag "slow")]])) = some .attrValue ∧      -- unknown tag
    errOf (compileFull rx1 vcV (modeFiles ++ one [rt [("mode", .tag "big")]])) = some .attrValue ∧             -- a tag with a value
    errOf (compileFull rx1 vcV (modeFiles ++ one [rt [("mode", .str "fast")]])) = some .attrValue ∧            -- not a tag
    errOf (compileFull rx1 vcV (modeFiles ++ one [rt [("mode", .tag "fast"), ("n", .int 10)]])) = some .attrValue ∧
    errOf (compileFull rx1 vcV (modeFiles ++ one [rt [("mode", .tag "fast"), ("n", .bool true)]])) = some .attrValue ∧
    errOf (compileFull rx1 vcV (modeFiles ++ one [rt [("mode", .tag "fast"), ("n", .null)]])) = some .attrValue ∧
    errOf (compileFull rx1 vcV (modeFiles ++ one [rt [("mode", .tag "fast"), ("s", .str "abc")]])) = some .attrValue ∧
    LegalFull rx1 vcV (modeFiles ++ one [rt [("mode", .tag "fast"), ("s", .str "abc")]]) = false := by decide +kernel

end Examples

end StoneVerif.C01Compile
