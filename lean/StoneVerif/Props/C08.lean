import StoneVerif.Model.Rt.Spec
import StoneVerif.Model.Rt.Decode
import StoneVerif.Model.Rt.WF
import StoneVerif.Model.Rt.Ir
import StoneVerif.Model.Rt.SpecC08
import StoneVerif.Lemmas.RtValidate
/-! Property theorems for C08 (generated classes accept a value exactly when it satisfies the declared type). -/
set_option linter.unusedSimpArgs false
namespace StoneVerif.C08
open StoneVerif.Rt StoneVerif.Rt.V8

/-- The runtime validators and the compile-time types use the same integer and float limits, and they
are the limits of the declared widths. (Over the translator's output: editing `default_maximum` of
`Int32` in either module breaks this theorem.) -/
theorem bounds_tables :
    Tables.rtIntBounds = Tables.irIntBounds ∧ Tables.rtFloatBounds = Tables.irFloatBounds ∧
    Tables.rtIntBounds = [("Int32", (-(2:Int)^31, 2^31 - 1)), ("UInt32", (0, 2^32 - 1)),
                          ("Int64", (-(2:Int)^63, 2^63 - 1)), ("UInt64", (0, 2^64 - 1))] := by
  decide

/-! ## 1–3. `validate`: refusal is the validation error; acceptance is `satB`; the result is `normOf` -/

/-- Refusal by a validator is always `ValidationError` — whatever the type, whatever the value. -/
theorem validate_only_verr (E : Ext) (env : Env) (t : PTy) (v : PyVal) :
    ∀ e, validate E env t v ≠ .error (.crash e) := by
  intro e h
  rcases validate_spec E env t v with ⟨_, h2⟩ | ⟨_, h2⟩
  · rw [h] at h2; cases h2
  · rw [h] at h2; simp at h2

/-- A validator accepts a value exactly when the value satisfies the declared type. -/
theorem validate_iff_sat (E : Ext) (env : Env) (t : PTy) (v : PyVal) :
    (∃ v', validate E env t v = .ok v') ↔ satB E env t v = true := by
  rcases validate_spec E env t v with ⟨h1, h2⟩ | ⟨h1, h2⟩
  · simp [h1, h2]
  · obtain ⟨s, hs⟩ := h2.exists
    simp [h1, hs]

/-- What an accepting validator returns is the documented normalisation of the value. -/
theorem validate_norm {E : Ext} {env : Env} {t : PTy} {v v' : PyVal} (h : validate E env t v = .ok v') :
    v' = normOf E t v := by
  rcases validate_spec E env t v with ⟨_, h2⟩ | ⟨_, h2⟩
  · rw [h] at h2; cases h2; rfl
  · rw [h] at h2; simp at h2

/-- Validating the stored value again accepts it and changes nothing (the normalisations are idempotent). -/
theorem validate_idem {E : Ext} {env : Env} {t : PTy} {v v' : PyVal} (h : validate E env t v = .ok v') :
    validate E env t v' = .ok v' := by
  have hs : satB E env t v = true := (validate_iff_sat E env t v).1 ⟨v', h⟩
  have hv : v' = normOf E t v := validate_norm h
  obtain ⟨h1, h2⟩ := norm_sat E env t v hs
  rcases validate_spec E env t v' with ⟨_, b⟩ | ⟨a, _⟩
  · rw [b, hv, h2]
  · rw [hv, h1] at a; cases a

/-! ## 4. `validate_type_only` -/

/-- `validate_type_only` succeeds exactly on None-where-nullable or on the class relation. (For a
validator that is not of a user type the only way to succeed is None-where-nullable; `classSat` is
false there.) -/
theorem validateTypeOnly_iff (env : Env) (t : PTy) (v : PyVal) :
    validateTypeOnly env t v = .ok () ↔ (t.flags.nullable = true ∧ v = .none) ∨ classSat env t v = true := by
  have hnone : isNoneV v = true ↔ v = .none := by cases v <;> simp [isNoneV]
  have key : typeOnlyB env t v = true ↔ (t.flags.nullable = true ∧ v = .none) ∨ classSat env t v = true := by
    simp [typeOnlyB, hnone]
  rw [← key]
  rcases validateTypeOnly_eq env t v with ⟨a, b⟩ | ⟨a, _, b⟩ | ⟨a, _, b⟩
  · simp [a, b]
  · obtain ⟨m, hm⟩ := b.exists; simp [a, hm]
  · simp [a, b]

/-- the class relation spelled out: subclasses for structs (plain or enumerated), the class itself or
an ancestor's instance for unions -/
theorem classSat_struct (env : Env) (fl : Flags) (cls : String) (v : PyVal) :
    (classSat env (.struct fl cls) v = true ↔ ∃ c slots, v = .struct c slots ∧ env.structSubclass c cls = true) ∧
    (classSat env (.tree fl cls) v = true ↔ ∃ c slots, v = .struct c slots ∧ env.structSubclass c cls = true) := by
  cases v <;> simp [classSat]

theorem classSat_union (env : Env) (fl : Flags) (cls : String) (v : PyVal) :
    classSat env (.union fl cls) v = true ↔ ∃ c tag x, v = .union c tag x ∧ env.unionSubclass cls c = true := by
  cases v <;> simp [classSat, unionSat]

/-- For a struct / struct-tree / union validator the refusal is the validation error. -/
theorem validateTypeOnly_only_verr_of_user (env : Env) (t : PTy) (v : PyVal) (ht : isUserTyC08 t = true) :
    ∀ e, validateTypeOnly env t v ≠ .error (.crash e) := by
  intro e h
  rcases validateTypeOnly_good env t v ht with ⟨_, b⟩ | ⟨_, b⟩
  · rw [h] at b; cases b
  · rw [h] at b; simp at b

/-! ## 5. assignment to a field -/

/-- the acceptance condition of an assignment, spelled out -/
theorem fieldSat_iff (E : Ext) (env : Env) (f : FieldDef) (x : PyVal) :
    fieldSat E env f x = true ↔
      (f.attrNullable = true ∧ x = .none) ∨
      (f.attrUserDefined = true ∧ ((f.ty.flags.nullable = true ∧ x = .none) ∨ classSat env f.ty x = true)) ∨
      (f.attrUserDefined = false ∧ satB E env f.ty x = true) := by
  have hnone : isNoneV x = true ↔ x = .none := by cases x <;> simp [isNoneV]
  cases hU : f.attrUserDefined <;> simp [fieldSat, hU, typeOnlyB, hnone]

/-- `Attribute.__set__` succeeds exactly when: None into a nullable field, or (field of a user type)
the class relation holds, or (any other field) the value satisfies the field's type. -/
theorem attrSet_iff (E : Ext) (env : Env) (f : FieldDef) (slots : List (String × PyVal)) (x : PyVal) :
    (∃ s', attrSet E env f slots x = .ok s') ↔
      (f.attrNullable = true ∧ x = .none) ∨
      (f.attrUserDefined = true ∧ ((f.ty.flags.nullable = true ∧ x = .none) ∨ classSat env f.ty x = true)) ∨
      (f.attrUserDefined = false ∧ satB E env f.ty x = true) := by
  rw [← fieldSat_iff]
  rcases attrSet_spec E env f slots x with ⟨a, b⟩ | ⟨a, b⟩ | ⟨a, _, _, b⟩
  · simp [a, b]
  · obtain ⟨m, hm⟩ := b.exists; simp [a, hm]
  · simp [a, b]

/-- `setattr(obj, name, x)` on an instance of a registered class, for an existing field. -/
theorem setField_iff (E : Ext) (env : Env) (cls : String) (slots : List (String × PyVal)) (name : String) (x : PyVal)
    (s : StructDef) (f : FieldDef) (hs : env.struct? cls = some s) (hf : s.field? name = some f) :
    (∃ o', setField E env (.struct cls slots) name x = .ok o') ↔
      (f.attrNullable = true ∧ x = .none) ∨
      (f.attrUserDefined = true ∧ ((f.ty.flags.nullable = true ∧ x = .none) ∨ classSat env f.ty x = true)) ∨
      (f.attrUserDefined = false ∧ satB E env f.ty x = true) := by
  rw [← attrSet_iff E env f slots x]
  simp only [setField, hs, Option.bind_some, hf]
  cases attrSet E env f slots x <;> simp [Except.map]

/-- …and the refusal is the validation error, provided the `user_defined` flag of the attribute is
only set on fields whose validator is of a user type (which is how the generator sets it, see
`validatorOf_userDefined`). -/
theorem setField_only_verr (E : Ext) (env : Env) (cls : String) (slots : List (String × PyVal)) (name : String) (x : PyVal)
    (s : StructDef) (f : FieldDef) (hs : env.struct? cls = some s) (hf : s.field? name = some f)
    (hud : f.attrUserDefined = true → isUserTyC08 f.ty = true) :
    ∀ e, setField E env (.struct cls slots) name x ≠ .error (.crash e) := by
  intro e
  simp only [setField, hs, Option.bind_some, hf]
  rcases attrSet_spec E env f slots x with ⟨_, b⟩ | ⟨_, b⟩ | ⟨_, c, d, _⟩
  · simp [b, Except.map]
  · obtain ⟨m, hm⟩ := b.exists; simp [hm, Except.map]
  · rw [hud c] at d; cases d

/-- The same with the hypothesis as a checkable predicate of the environment (`attrFlagsOk`). -/
theorem setField_only_verr_of_flagsOk (E : Ext) (env : Env) (cls : String) (slots : List (String × PyVal)) (name : String)
    (x : PyVal) (s : StructDef) (f : FieldDef) (hs : env.struct? cls = some s) (hf : s.field? name = some f)
    (hok : attrFlagsOk env = true) :
    ∀ e, setField E env (.struct cls slots) name x ≠ .error (.crash e) := by
  apply setField_only_verr E env cls slots name x s f hs hf
  intro hu
  have hsm : s ∈ env.structs := List.mem_of_find?_eq_some hs
  have hfm : f ∈ s.allAttrs := List.mem_of_find?_eq_some hf
  simp only [attrFlagsOk, List.all_eq_true] at hok
  have := hok s hsm f hfm
  simpa [hu] using this

/-- The generator sets `user_defined=True` only where the validator it builds is of a user type. -/
theorem validatorOf_userDefined (ir : IrTy) (t : PTy) (h : validatorOf ir = some t)
    (hud : ir.isUserDefinedLit = true) : isUserTyC08 t = true := by
  cases ir with
  | struct cls sub => simp [validatorOf] at h; subst h; cases sub <;> rfl
  | union cls => simp [validatorOf] at h; subst h; rfl
  | nullable ir' =>
    cases ir' with
    | struct cls sub =>
      cases sub <;> simp [validatorOf, PTy.flags, PTy.withFlags] at h <;> subst h <;> rfl
    | union cls => simp [validatorOf, PTy.flags, PTy.withFlags] at h; subst h; rfl
    | _ => simp [IrTy.isUserDefinedLit] at hud
  | _ => simp [IrTy.isUserDefinedLit] at hud

/-! ## 6. an accepted value reads back -/

/-- After a successful assignment the field reads back what was assigned: the value itself for a
field of a user type, its documented normalisation otherwise (None for None into a nullable field —
both expressions are None then). Slot names of an instance are unique (`nodupS`; an instance's slots
are a Python `__slots__` mapping — `setField_slots_nodup` shows assignment preserves it). -/
theorem set_get (E : Ext) (env : Env) (cls : String) (slots : List (String × PyVal)) (name : String) (x : PyVal) (o' : PyVal)
    (s : StructDef) (f : FieldDef) (hs : env.struct? cls = some s) (hf : s.field? name = some f)
    (hnd : nodupS (slots.map (·.1)) = true)
    (h : setField E env (.struct cls slots) name x = .ok o') :
    getField env o' name = .ok (if f.attrUserDefined then x else normOf E f.ty x) := by
  simp only [setField, hs, Option.bind_some, hf] at h
  rcases attrSet_spec E env f slots x with ⟨_, b⟩ | ⟨_, b⟩ | ⟨_, _, _, b⟩
  · rw [b] at h
    simp [Except.map] at h
    subst h
    simp only [getField, hs, Option.bind_some, hf, attrGet_slotsAfter E f slots x hnd, storedOf]
  · obtain ⟨m, hm⟩ := b.exists; rw [hm] at h; simp [Except.map] at h
  · rw [b] at h; simp [Except.map] at h

/-- the three cases of `set_get` separately -/
theorem set_get_none (E : Ext) (env : Env) (cls : String) (slots : List (String × PyVal)) (name : String) (o' : PyVal)
    (s : StructDef) (f : FieldDef) (hs : env.struct? cls = some s) (hf : s.field? name = some f)
    (hnd : nodupS (slots.map (·.1)) = true)
    (h : setField E env (.struct cls slots) name .none = .ok o') :
    getField env o' name = .ok .none := by
  rw [set_get E env cls slots name .none o' s f hs hf hnd h]
  cases f.attrUserDefined <;> simp
  cases f.ty <;> simp [normOf]

/-- When the value is not None (or the field not nullable) uniqueness of slot names is not needed. -/
theorem set_get_of_set (E : Ext) (env : Env) (cls : String) (slots : List (String × PyVal)) (name : String) (x : PyVal) (o' : PyVal)
    (s : StructDef) (f : FieldDef) (hs : env.struct? cls = some s) (hf : s.field? name = some f)
    (hx : f.attrNullable = false ∨ x ≠ .none)
    (h : setField E env (.struct cls slots) name x = .ok o') :
    getField env o' name = .ok (if f.attrUserDefined then x else normOf E f.ty x) := by
  have hN : (f.attrNullable && isNoneV x) = false := by
    rcases hx with h1 | h1
    · simp [h1]
    · cases x <;> simp [isNoneV] at h1 ⊢
  simp only [setField, hs, Option.bind_some, hf] at h
  rcases attrSet_spec E env f slots x with ⟨_, b⟩ | ⟨_, b⟩ | ⟨_, _, _, b⟩
  · rw [b] at h
    simp [Except.map] at h
    subst h
    simp only [getField, hs, Option.bind_some, hf, attrGet_slotsAfter_set E f slots x hN, storedOf]
  · obtain ⟨m, hm⟩ := b.exists; rw [hm] at h; simp [Except.map] at h
  · rw [b] at h; simp [Except.map] at h

/-- Assignment keeps slot names unique. -/
theorem setField_slots_nodup (E : Ext) (env : Env) (cls : String) (slots : List (String × PyVal)) (name : String) (x : PyVal)
    (o' : PyVal) (hnd : nodupS (slots.map (·.1)) = true)
    (h : setField E env (.struct cls slots) name x = .ok o') :
    ∃ slots', o' = .struct cls slots' ∧ nodupS (slots'.map (·.1)) = true := by
  simp only [setField] at h
  cases hl : (env.struct? cls).bind (·.field? name) with
  | none => rw [hl] at h; simp [crash] at h
  | some f =>
    rw [hl] at h
    dsimp only at h
    rcases attrSet_spec E env f slots x with ⟨_, b⟩ | ⟨_, b⟩ | ⟨_, _, _, b⟩
    · rw [b] at h
      simp [Except.map] at h
      exact ⟨_, h.symm, nodupS_slotsAfter E f slots x hnd⟩
    · obtain ⟨m, hm⟩ := b.exists; rw [hm] at h; simp [Except.map] at h
    · rw [b] at h; simp [Except.map] at h

/-- Assignment to one field leaves every other field's reading unchanged. -/
theorem set_get_other (E : Ext) (env : Env) (cls : String) (slots : List (String × PyVal)) (name other : String) (x : PyVal) (o' : PyVal)
    (s : StructDef) (f g : FieldDef) (hs : env.struct? cls = some s) (hf : s.field? name = some f)
    (hg : s.field? other = some g) (hne : other ≠ name)
    (h : setField E env (.struct cls slots) name x = .ok o') :
    getField env o' other = getField env (.struct cls slots) other := by
  have hfn : f.name = name := by
    have := List.find?_some hf; simpa using this
  have hgn : g.name = other := by
    have := List.find?_some hg; simpa using this
  simp only [setField, hs, Option.bind_some, hf] at h
  rcases attrSet_spec E env f slots x with ⟨_, b⟩ | ⟨_, b⟩ | ⟨_, _, _, b⟩
  · rw [b] at h
    simp [Except.map] at h
    subst h
    simp only [getField, hs, Option.bind_some, hg, attrGet]
    rw [lookupSlot_slotsAfter_ne E f slots x g.name (by rw [hgn, hfn]; exact hne)]
  · obtain ⟨m, hm⟩ := b.exists; rw [hm] at h; simp [Except.map] at h
  · rw [b] at h; simp [Except.map] at h

/-! ## 7. constructing a union member -/

/-- the payload condition spelled out -/
theorem memberSat_iff (E : Ext) (env : Env) (t : PTy) (x : PyVal) :
    memberSat E env t x = true ↔
      if t.flags.nullable = false ∧ isVoidT t = true then x = .none
      else if t.flags.nullable = false ∧ isUserTyC08 t = true then classSat env t x = true
      else satB E env t x = true := by
  have hnone : isNoneV x = true ↔ x = .none := by cases x <;> simp [isNoneV]
  cases hn : t.flags.nullable <;> cases hv : isVoidT t <;> cases hu : isUserTyC08 t <;>
    simp [memberSat, hn, hv, hu, hnone, typeOnlyB]

/-- `Cls(tag, x)` of a registered union succeeds exactly when the tag is known and: a Void member gets
None; a member of a (non-nullable) struct or union type gets an instance of the right class; any
other member gets a value that satisfies its type. The result is the instance carrying `x`. -/
theorem mkUnion_iff (E : Ext) (env : Env) (cls tag : String) (x : PyVal) (u : UnionDef) (hu : env.union? cls = some u) :
    (∃ o, mkUnion E env cls tag x = .ok o) ↔
      ∃ t, u.ctorValidator tag = some t ∧
        (if t.flags.nullable = false ∧ isVoidT t = true then x = .none
         else if t.flags.nullable = false ∧ isUserTyC08 t = true then classSat env t x = true
         else satB E env t x = true) := by
  cases hc : u.ctorValidator tag with
  | none =>
    obtain ⟨m, hm⟩ := (mkUnion_none E env cls tag x u hu hc).exists
    simp [hm]
  | some t =>
    simp only [Option.some.injEq, exists_eq_left']
    rw [← memberSat_iff]
    rcases mkUnion_good E env cls tag x u hu t hc with ⟨a, b⟩ | ⟨a, b⟩
    · simp [a, b]
    · obtain ⟨m, hm⟩ := b.exists; simp [a, hm]

theorem mkUnion_result (E : Ext) (env : Env) (cls tag : String) (x : PyVal) (u : UnionDef) (hu : env.union? cls = some u)
    (o : PyVal) (h : mkUnion E env cls tag x = .ok o) : o = .union cls tag x := by
  cases hc : u.ctorValidator tag with
  | none =>
    obtain ⟨m, hm⟩ := (mkUnion_none E env cls tag x u hu hc).exists
    rw [hm] at h; cases h
  | some t =>
    rcases mkUnion_good E env cls tag x u hu t hc with ⟨_, b⟩ | ⟨_, b⟩
    · rw [b] at h; cases h; rfl
    · obtain ⟨m, hm⟩ := b.exists; rw [hm] at h; cases h

/-- Refusal by a union constructor is the validation error (unknown tag included). -/
theorem mkUnion_only_verr (E : Ext) (env : Env) (cls tag : String) (x : PyVal) (u : UnionDef) (hu : env.union? cls = some u) :
    ∀ e, mkUnion E env cls tag x ≠ .error (.crash e) := by
  intro e h
  cases hc : u.ctorValidator tag with
  | none =>
    have := mkUnion_none E env cls tag x u hu hc
    rw [h] at this; simp at this
  | some t =>
    rcases mkUnion_good E env cls tag x u hu t hc with ⟨_, b⟩ | ⟨_, b⟩
    · rw [h] at b; cases b
    · rw [h] at b; simp at b


/-! ## 8. the validator the generator builds for a declared numeric type -/

theorem validatorOf_int_bounds (cls : String) (mn mx : Option Int) (t : PTy)
    (h : validatorOf (.int cls mn mx) = some t) :
    ∃ dlo dhi, (cls, (dlo, dhi)) ∈ Tables.rtIntBounds ∧ t = .int {} cls (mn.getD dlo) (mx.getD dhi) := by
  simp only [validatorOf, intDefaults, Option.map_map, Option.map_eq_some_iff] at h
  obtain ⟨⟨c, dlo, dhi⟩, hfind, ht⟩ := h
  have hmem := List.mem_of_find?_eq_some hfind
  have hc := List.find?_some hfind
  simp at hc
  subst hc
  exact ⟨dlo, dhi, hmem, ht.symm⟩

theorem validatorOf_float_bounds (cls : String) (mn mx : Option FBits) (t : PTy)
    (h : validatorOf (.float cls mn mx) = some t) :
    ∃ dlo dhi, (cls, (dlo, dhi)) ∈ Tables.rtFloatBounds ∧
      t = .float {} cls (mn.or dlo) (mx.or dhi) := by
  simp only [validatorOf, floatDefaults, Option.map_map, Option.map_eq_some_iff] at h
  obtain ⟨⟨c, dlo, dhi⟩, hfind, ht⟩ := h
  have hmem := List.mem_of_find?_eq_some hfind
  have hc := List.find?_some hfind
  simp at hc
  subst hc
  refine ⟨dlo, dhi, hmem, ?_⟩
  rw [← ht]
  cases mn <;> cases mx <;> rfl

/-- `Int32(min_value=a)` gives the runtime validator with exactly `[a, 2^31 - 1]` -/
example (a : Int) : validatorOf (.int "Int32" (some a) none) = some (.int {} "Int32" a (2^31 - 1)) := by
  simp [validatorOf, intDefaults, Tables.rtIntBounds]

theorem satB_withFlags_prim (E : Ext) (env : Env) (t : PTy) (v : PyVal) (hp : isJsonPrimTy t = true)
    (hn : t.flags.nullable = false) : satB E env (t.withFlags {}) v = satB E env t v := by
  cases t <;> simp [isJsonPrimTy] at hp <;> simp only [PTy.flags] at hn <;>
    simp [satB, PTy.withFlags, PTy.flags, hn] <;> cases v <;> simp [validPrim]

theorem decode_primitive_ok (E : Ext) (env : Env) (perms : List String) (strict : Bool) (t : PTy) (j : JVal)
    (hp : isJsonPrimTy t = true) (hn : t.flags.nullable = false) (v' : PyVal)
    (h : validate E env (t.withFlags {}) (pyOfJson j) = .ok v') :
    jsonCompatObjDecode E env perms strict t j = .ok (pyOfJson j) := by
  cases t <;> simp [isJsonPrimTy] at hp <;> simp only [PTy.flags] at hn <;>
    simp [jsonCompatObjDecode, makeStoneFriendly, PTy.flags, hn, h]

theorem decode_primitive_err (E : Ext) (env : Env) (perms : List String) (strict : Bool) (t : PTy) (j : JVal)
    (hp : isJsonPrimTy t = true) (hn : t.flags.nullable = false) (e : Err)
    (h : validate E env (t.withFlags {}) (pyOfJson j) = .error e) :
    jsonCompatObjDecode E env perms strict t j = .error e := by
  cases t <;> simp [isJsonPrimTy] at hp <;> simp only [PTy.flags] at hn <;>
    simp [jsonCompatObjDecode, makeStoneFriendly, PTy.flags, hn, h]

/-- Decoding a JSON value at a (non-nullable) Boolean / integer / float / String type succeeds exactly
when the parsed value satisfies the type; the result is the parsed value itself. -/
theorem decode_primitive_iff (E : Ext) (env : Env) (perms : List String) (strict : Bool) (t : PTy) (j : JVal)
    (hp : isJsonPrimTy t = true) (hn : t.flags.nullable = false) :
    ((∃ v, jsonCompatObjDecode E env perms strict t j = .ok v) ↔ satB E env t (pyOfJson j) = true) ∧
    (∀ v, jsonCompatObjDecode E env perms strict t j = .ok v → v = pyOfJson j) ∧
    (∀ e, jsonCompatObjDecode E env perms strict t j ≠ .error (.crash e)) := by
  rw [← satB_withFlags_prim E env t (pyOfJson j) hp hn]
  rcases validate_spec E env (t.withFlags {}) (pyOfJson j) with ⟨a, b⟩ | ⟨a, b⟩
  · rw [decode_primitive_ok E env perms strict t j hp hn _ b]
    simp [a]
  · obtain ⟨m, hm⟩ := b.exists
    rw [decode_primitive_err E env perms strict t j hp hn _ hm]
    simp [a]


/-! ## Non-vacuity: a toy environment (one struct, one union) and a toy `Ext` -/

/-- a toy `Ext` for the examples: floats are their own bit pattern ordered as naturals, nothing is
NaN / inf, `float(n)` is `n` for naturals and overflows for negatives, a pattern matches only itself -/
def exE : Ext where
  fltLt a b := a < b
  fltIsNan _ := false
  fltIsInf _ := false
  fltOfInt n := if 0 ≤ n then some n.toNat else none
  patMatch p s := p == s
  b64enc h := h
  b64dec s := some (some s)
  strftime _ _ := ""
  strptime _ _ := none
  md5 s := s
  reSearch _ _ := none
  strOfInt _ := ""
  strOfFlt _ := ""

def exS : StructDef where
  cls := "ns.S"
  levels := [{ cls := "ns.S", fields := [
    { name := "n", ty := .int {} "Int32" (-5) 5, attrNullable := false, attrUserDefined := false, dflt := none, omitted := none },
    { name := "x", ty := .float { nullable := true } "Float64" none (some 10), attrNullable := true, attrUserDefined := false, dflt := none, omitted := none },
    { name := "u", ty := .union {} "ns.U", attrNullable := false, attrUserDefined := true, dflt := none, omitted := none },
    { name := "l", ty := .list {} (.float {} "Float64" none none) none (some 2), attrNullable := false, attrUserDefined := false, dflt := none, omitted := none }] }]
  subtypes := none
  catchAll := false

def exU : UnionDef where
  cls := "ns.U"
  levels := [{ cls := "ns.U", tags := [
    { name := "v", ty := .void {}, omitted := none },
    { name := "s", ty := .struct {} "ns.S", omitted := none },
    { name := "k", ty := .str {} (some 1) (some 3) (some "ab"), omitted := none }] }]
  catchAll := none

def exEnv : Env := { structs := [exS], unions := [exU] }

def exObj : PyVal := .struct "ns.S" [("n", .int 1), ("u", .union "ns.U" "v" .none), ("l", .list [])]


example : exEnv.struct? "ns.S" = some exS ∧ exEnv.union? "ns.U" = some exU := ⟨rfl, rfl⟩
example : attrFlagsOk exEnv = true := by decide

-- 1–3: acceptance, refusal, normalisation
example : satB exE exEnv (.struct {} "ns.S") exObj = true ∧                              -- all required fields readable
          satB exE exEnv (.struct {} "ns.S") (.struct "ns.S" []) = false ∧              -- required field `n` unset
          satB exE exEnv (.int {} "Int32" (-5) 5) (.int 6) = false ∧
          satB exE exEnv (.int {} "Int32" (-5) 5) (.bool true) = true ∧                 -- Python's bool is an int
          satB exE exEnv (.bool {}) (.int 1) = false ∧
          satB exE exEnv (.float {} "Float64" none (some 10)) (.int (-1)) = false ∧     -- `float(n)` fails in the toy Ext
          satB exE exEnv (.str {} (some 1) (some 3) (some "ab")) (.str "abc") = false ∧ -- whole-string pattern
          satB exE exEnv (.list {} (.float {} "Float64" none none) none (some 2)) (.tuple [.int 1, .bool true]) = true ∧
          satB exE exEnv (.list {} (.float {} "Float64" none none) none (some 2)) (.list [.flt 1, .flt 2, .flt 3]) = false ∧
          satB exE exEnv (.map {} (.str {} none none none) (.int {} "Int32" 0 9)) (.dict [(.str "a", .int 3)]) = true ∧
          satB exE exEnv (.map {} (.str {} none none none) (.int {} "Int32" 0 9)) (.dict [(.int 1, .int 3)]) = false ∧
          satB exE exEnv (.union { nullable := true } "ns.U") .none = true ∧
          satB exE exEnv (.union {} "ns.U") (.other "object") = false := by decide
example : validate exE exEnv (.list {} (.float {} "Float64" none none) none (some 2)) (.tuple [.int 1, .bool true])
            = .ok (.list [.flt 1, .flt 1]) := rfl
example : validate exE exEnv (.int {} "Int32" (-5) 5) (.int 6) = verr "not within range" := rfl
example : normOf exE (.map {} (.str {} none none none) (.list {} (.float {} "Float64" none none) none none))
            (.dict [(.str "a", .tuple [.int 2])]) = .dict [(.str "a", .list [.flt 2])] := rfl

-- 4: `validate_type_only`; the hypothesis of `validateTypeOnly_only_verr_of_user` is needed
example : validateTypeOnly exEnv (.struct {} "ns.S") (.struct "ns.S" []) = .ok () ∧       -- fields are not looked at
          validateTypeOnly exEnv (.union {} "ns.U") (.struct "ns.S" []) = verr "expected union type" ∧
          validateTypeOnly exEnv (.int {} "Int32" 0 1) (.int 0) = crash "AttributeError" := ⟨rfl, rfl, rfl⟩

-- 5–6: assignment and read-back through the three kinds of field
example : (exS.field? "l").map (fun f => (f.name, f.attrNullable, f.attrUserDefined)) = some ("l", false, false) := rfl
example : (setField exE exEnv exObj "l" (.tuple [.int 1, .bool true])).bind (getField exEnv · "l")
            = .ok (.list [.flt 1, .flt 1]) := rfl
example : (setField exE exEnv exObj "u" (.union "ns.U" "k" (.str "zzzz"))).bind (getField exEnv · "u")
            = .ok (.union "ns.U" "k" (.str "zzzz")) := rfl                                -- by class only: the payload is not looked at
example : setField exE exEnv exObj "u" (.other "object") = verr "expected union type" := rfl
example : setField exE exEnv exObj "n" (.int 9) = verr "not within range" := rfl
example : (setField exE exEnv (.struct "ns.S" [("x", .flt 3)]) "x" .none).bind (getField exEnv · "x") = .ok .none := rfl
example : (setField exE exEnv exObj "x" (.int 7)).bind (getField exEnv · "x") = .ok (.flt 7) := rfl
/-- `setField_only_verr` needs its hypothesis: a (never generated) field flagged `user_defined` with a
primitive validator makes assignment crash. -/
example : attrSet exE exEnv ⟨"z", .bool {}, false, true, none, none⟩ [] (.bool true) = crash "AttributeError" := rfl
/-- `set_get` needs unique slot names for the *unset*: with a duplicated slot the second one shows through. -/
example : (setField exE exEnv (.struct "ns.S" [("x", .flt 3), ("x", .flt 4)]) "x" .none).bind (getField exEnv · "x")
            = .ok (.flt 4) := rfl

-- the theorems instantiated: their hypotheses are satisfiable
example : ∃ o', setField exE exEnv exObj "n" (.int 2) = .ok o' :=
  (setField_iff exE exEnv "ns.S" _ "n" (.int 2) exS _ rfl rfl).2 (Or.inr (Or.inr ⟨rfl, by decide⟩))
example : ¬ ∃ o', setField exE exEnv exObj "u" (.struct "ns.S" []) = .ok o' := by
  intro h
  have := (setField_iff exE exEnv "ns.S" _ "u" _ exS ⟨"u", .union {} "ns.U", false, true, none, none⟩ rfl rfl).1 h
  simp [classSat, unionSat, PTy.flags] at this
example : ∀ e, setField exE exEnv exObj "u" (.int 3) ≠ .error (.crash e) :=
  setField_only_verr exE exEnv "ns.S" _ "u" (.int 3) exS _ rfl rfl (fun _ => rfl)
example (o' : PyVal) (h : setField exE exEnv exObj "l" (.tuple [.int 1]) = .ok o') :
    getField exEnv o' "l" = .ok (.list [.flt 1]) :=
  set_get exE exEnv "ns.S" _ "l" _ o' exS _ rfl rfl (by decide) h
example : ∃ o, mkUnion exE exEnv "ns.U" "k" (.str "ab") = .ok o :=
  (mkUnion_iff exE exEnv "ns.U" "k" (.str "ab") exU rfl).2
    ⟨.str {} (some 1) (some 3) (some "ab"), rfl, by simp [PTy.flags, isVoidT, isUserTyC08]; decide⟩

-- 7: union construction
example : mkUnion exE exEnv "ns.U" "v" .none = .ok (.union "ns.U" "v" .none) ∧
          mkUnion exE exEnv "ns.U" "v" (.int 5) = verr "void member must have None value" ∧
          mkUnion exE exEnv "ns.U" "nosuch" .none = verr "invalid tag" ∧
          mkUnion exE exEnv "ns.U" "s" (.struct "ns.S" []) = .ok (.union "ns.U" "s" (.struct "ns.S" [])) ∧   -- class only
          mkUnion exE exEnv "ns.U" "s" (.int 1) = verr "expected struct type" ∧
          mkUnion exE exEnv "ns.U" "k" (.str "ab") = .ok (.union "ns.U" "k" (.str "ab")) ∧
          mkUnion exE exEnv "ns.U" "k" (.str "abc") = verr "did not match pattern" := ⟨rfl, rfl, rfl, rfl, rfl, rfl, rfl⟩

-- 9: top-level primitive decode; a JSON integer at a float type is accepted and returned as parsed
example : jsonCompatObjDecode exE exEnv [] true (.int {} "Int32" (-5) 5) (.int 3) = .ok (.int 3) ∧
          jsonCompatObjDecode exE exEnv [] true (.int {} "Int32" (-5) 5) (.int 7) = verr "not within range" ∧
          jsonCompatObjDecode exE exEnv [] true (.int {} "Int32" (-5) 5) (.str "3") = verr "expected integer" ∧
          jsonCompatObjDecode exE exEnv [] true (.float {} "Float64" none none) (.int 3) = .ok (.int 3) := ⟨rfl, rfl, rfl, rfl⟩

end StoneVerif.C08
