import StoneVerif.Model.Rt.Spec
import StoneVerif.Model.Rt.Ir
import StoneVerif.Model.Rt.SpecC08
import StoneVerif.Lemmas.RtValidate
/-! Property theorems for C08 (generated classes accept a value exactly when it satisfies the declared type). -/
namespace StoneVerif.C08
open StoneVerif.Rt StoneVerif.Rt.V8

/-- The runtime validators and the compile-time types use the same integer and float limits, and they
are the limits of the declared widths. (Over the translator's output: editing `default_maximum` of
`Int32` in either module breaks this theorem.) -/
theorem bounds_tables :
    Tables.rtIntBounds = Tables.irIntBounds ∧ Tables.rtFloatBounds = Tables.irFloatBounds ∧
    Tables.rtIntBounds = [("Int32", (-(2:Int)^31, 2^31 - 1)), ("UInt32", (0, 2^32 - 1)),
                          ("Int64", (-(2:Int)^63, 2^63 - 1)), ("UInt64", (0, 2^64 - 1))] := by
  decide

/-! ## 1–3. `validate`: refusal is the validation error; acceptance is `satB`; the result is `normOf` -/

/-- Refusal by a validator is always `ValidationError` — whatever the type, whatever the value. -/
theorem validate_only_verr (E : Ext) (env : Env) (t : PTy) (v : PyVal) :
    ∀ e, validate E env t v ≠ .error (.crash e) := by
  intro e h
  rcases validate_spec E env t v with ⟨_, h2⟩ | ⟨_, h2⟩
  · rw [h] at h2; cases h2
  · rw [h] at h2; simp at h2

/-- A validator accepts a value exactly when the value satisfies the declared type. -/
theorem validate_iff_sat (E : Ext) (env : Env) (t : PTy) (v : PyVal) :
    (∃ v', validate E env t v = .ok v') ↔ satB E env t v = true := by
  rcases validate_spec E env t v with ⟨h1, h2⟩ | ⟨h1, h2⟩
  · simp [h1, h2]
  · obtain ⟨s, hs⟩ := h2.exists
    simp [h1, hs]

/-- What an accepting validator returns is the documented normalisation of the value. -/
theorem validate_norm {E : Ext} {env : Env} {t : PTy} {v v' : PyVal} (h : validate E env t v = .ok v') :
    v' = normOf E t v := by
  rcases validate_spec E env t v with ⟨_, h2⟩ | ⟨_, h2⟩
  · rw [h] at h2; cases h2; rfl
  · rw [h] at h2; simp at h2

end StoneVerif.C08
