import StoneVerif.Model.Rt.Spec
import StoneVerif.Model.Rt.Ir
/-! Property theorems for C08 (generated classes accept a value exactly when it satisfies the declared type). -/
namespace StoneVerif.C08
open StoneVerif.Rt

/-- The runtime validators and the compile-time types use the same integer and float limits, and they
are the limits of the declared widths. (Over the translator's output: editing `default_maximum` of
`Int32` in either module breaks this theorem.) -/
theorem bounds_tables :
    Tables.rtIntBounds = Tables.irIntBounds ∧ Tables.rtFloatBounds = Tables.irFloatBounds ∧
    Tables.rtIntBounds = [("Int32", (-(2:Int)^31, 2^31 - 1)), ("UInt32", (0, 2^32 - 1)),
                          ("Int64", (-(2:Int)^63, 2^63 - 1)), ("UInt64", (0, 2^64 - 1))] := by
  decide

end StoneVerif.C08
