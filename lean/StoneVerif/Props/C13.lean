import StoneVerif.Lemmas.RtPerms
/-!
Property theorems for C13: a field or tag omitted for caller class `c` is absent from every encoding
produced for a caller without `c`, cannot be supplied by such a caller in strict mode, and is present
for callers holding `c`; redaction replaces the clear text of every redacted field.
-/
namespace StoneVerif.C13
open StoneVerif.Rt

/-! ### Tiny concrete data for the non-vacuity examples -/
namespace Ex

/-- a dummy table of external calls (every call answers a constant) -/
def E0 : Ext :=
  { fltLt := fun _ _ => false, fltIsNan := fun _ => false, fltIsInf := fun _ => false,
    fltOfInt := fun _ => none, patMatch := fun _ _ => true, b64enc := fun _ => "", b64dec := fun _ => none,
    strftime := fun _ _ => "", strptime := fun _ _ => none, md5 := fun _ => "md5", reSearch := fun _ _ => none,
    strOfInt := fun _ => "", strOfFlt := fun _ => "" }

def fd (n : String) (o : Option String) : FieldDef :=
  { name := n, ty := .str {} none none none, attrNullable := false, attrUserDefined := false,
    dflt := none, omitted := o }

/-- Three-level chain: the grandparent and the child both omit a field for caller class "c", the
middle class omits nothing. -/
def s3 : StructDef :=
  { cls := "ns.C", subtypes := none, catchAll := false,
    levels := [ { cls := "ns.G", fields := [fd "a" none, fd "gs" (some "c")] },
                { cls := "ns.P", fields := [fd "b" none] },
                { cls := "ns.C", fields := [fd "d" none, fd "cs" (some "c")] } ] }

def td (n : String) (o : Option String) : TagDef := { name := n, ty := .void {}, omitted := o }

/-- Same shape for a union chain. -/
def u3 : UnionDef :=
  { cls := "ns.UC", catchAll := none,
    levels := [ { cls := "ns.UG", tags := [td "x" none, td "gx" (some "c")] },
                { cls := "ns.UP", tags := [td "y" none] },
                { cls := "ns.UC", tags := [td "z" none, td "cz" (some "c")] } ] }

end Ex

/-! ### 1. The generated per-caller tables hold exactly the declared members visible to the caller -/

/-- **Field tables.** For any inheritance chain and any caller, the table `encode_struct` /
`decode_struct` assemble from the generated `_all_fields_` and `_all_<p>_fields_` attributes (with
the assignment and attribute-inheritance semantics of the generated reflection code) has exactly
the members of the specification-level table: the fields declared along the chain that are public or
omitted for a caller class the caller holds. When the caller's permissions are listed without
repetition the two tables also have the same length, so nothing is listed twice. -/
theorem fieldsFor_perm (s : StructDef) (perms : List String) :
    (∀ f, f ∈ s.fieldsFor perms ↔ f ∈ s.fieldsSpec perms) ∧
    (nodupS perms = true → (s.fieldsFor perms).length = (s.fieldsSpec perms).length) :=
  ⟨mem_fieldsFor s perms, length_fieldsFor s perms⟩

/-- The table in closed form, order included: the public fields root first, then for each permission
of the caller (in the caller's order) the fields omitted for it, root first. -/
theorem fieldsFor_closed_form (s : StructDef) (perms : List String) :
    s.fieldsFor perms = s.allAttrs.filter (·.omitted == none) ++
      perms.flatMap fun p => s.allAttrs.filter (·.omitted == some p) :=
  fieldsFor_eq s perms

/-- Non-vacuity, on the shape of a past defect: grandparent and child omit for "c", the middle level
does not. The caller holding "c" sees both omitted fields, the caller without sees neither. -/
example : (Ex.s3.fieldsFor ["c"]).map (·.name) = ["a", "b", "d", "gs", "cs"] ∧
    (Ex.s3.fieldsSpec ["c"]).map (·.name) = ["a", "gs", "b", "d", "cs"] ∧
    (Ex.s3.fieldsFor []).map (·.name) = ["a", "b", "d"] ∧
    (Ex.s3.fieldsSpec []).map (·.name) = ["a", "b", "d"] ∧ nodupS ["c"] = true := by decide

/-- A field omitted for `c` is in the table of every caller holding `c`. -/
theorem field_in_table_with_perm (s : StructDef) (perms : List String) (f : FieldDef) (c : String)
    (hf : f ∈ s.allAttrs) (ho : f.omitted = some c) (hc : c ∈ perms) : f ∈ s.fieldsFor perms :=
  mem_fieldsFor_of_perm s perms f c hf ho hc

/-- Under unique field names (`StructDef.wf`), the name of a field omitted for `c` names no entry of
the table of a caller without `c`. -/
theorem field_not_in_table_without_perm (s : StructDef) (perms : List String) (f : FieldDef) (c : String)
    (hnd : nodupS (s.allAttrs.map (·.name)) = true)
    (hf : f ∈ s.allAttrs) (ho : f.omitted = some c) (hc : ¬ c ∈ perms) :
    ¬ f.name ∈ (s.fieldsFor perms).map (·.name) :=
  name_not_in_fieldsFor s perms f c hnd hf ho hc

example : nodupS (Ex.s3.allAttrs.map (·.name)) = true ∧ (Ex.s3.allAttrs.map (·.name)).contains "gs" = true ∧
    ¬ "c" ∈ ([] : List String) := by decide

/-- **Tag tables.** `_is_tag_present(tag, caller_permissions)` answers true exactly when the
specification shows the caller a tag of that name (declared along the chain, public or omitted for a
caller class the caller holds). -/
theorem tagPresent_perm (u : UnionDef) (tag : String) (perms : List String) :
    u.isTagPresent tag perms = true ↔ ∃ t ∈ u.tagsSpec perms, t.name = tag :=
  isTagPresent_iff u tag perms

example : Ex.u3.isTagPresent "gx" ["c"] = true ∧ Ex.u3.isTagPresent "cz" ["c"] = true ∧
    Ex.u3.isTagPresent "gx" [] = false ∧ Ex.u3.isTagPresent "cz" [] = false ∧
    Ex.u3.isTagPresent "y" [] = true := by decide

/-- Under unique tag names (`UnionDef.wf`) a tag omitted for `c` is not present for a caller without
`c`, and it is present for a caller holding `c`. -/
theorem tag_not_present_without_perm (u : UnionDef) (perms : List String) (t : TagDef) (c : String)
    (hnd : nodupS ((u.levels.flatMap (·.tags)).map (·.name)) = true)
    (ht : t ∈ u.levels.flatMap (·.tags)) (ho : t.omitted = some c) (hc : ¬ c ∈ perms) :
    u.isTagPresent t.name perms = false :=
  isTagPresent_false_of_omitted u perms t c hnd ht ho hc

theorem tag_present_with_perm (u : UnionDef) (perms : List String) (t : TagDef) (c : String)
    (ht : t ∈ u.levels.flatMap (·.tags)) (ho : t.omitted = some c) (hc : c ∈ perms) :
    u.isTagPresent t.name perms = true :=
  isTagPresent_of_perm u perms t c ht ho hc

example : nodupS ((Ex.u3.levels.flatMap (·.tags)).map (·.name)) = true := by decide

/-- `Union.__init__` finds a validator for every tag declared along the chain: `_tagmap` together
with the maps named by `_permissioned_tagmaps` cover every caller class that omits a member anywhere
in the chain. -/
theorem ctorValidator_finds_every_tag (u : UnionDef) (t : TagDef) (ht : t ∈ u.levels.flatMap (·.tags)) :
    (u.ctorValidator t.name).isSome = true :=
  ctorValidator_isSome u t ht

example : (Ex.u3.ctorValidator "gx").isSome = true ∧ (Ex.u3.ctorValidator "cz").isSome = true ∧
    (Ex.u3.ctorValidator "y").isSome = true ∧ (Ex.u3.ctorValidator "nope").isSome = false := by decide

end StoneVerif.C13
