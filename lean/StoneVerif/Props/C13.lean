import StoneVerif.Lemmas.RtPerms
/-!
Property theorems for C13: a field or tag omitted for caller class `c` is absent from every encoding
produced for a caller without `c`, cannot be supplied by such a caller in strict mode, and is present
for callers holding `c`; redaction replaces the clear text of every redacted field.
-/
namespace StoneVerif.C13
open StoneVerif.Rt StoneVerif.Rt.PermL

/-! ### Tiny concrete data for the non-vacuity examples -/
namespace Ex

/-- a dummy table of external calls (every call answers a constant) -/
def E0 : Ext :=
  { fltLt := fun _ _ => false, fltIsNan := fun _ => false, fltIsInf := fun _ => false,
    fltOfInt := fun _ => none, patMatch := fun _ _ => true, b64enc := fun _ => "", b64dec := fun _ => none,
    strftime := fun _ _ => "", strptime := fun _ _ => none, md5 := fun _ => "md5", reSearch := fun _ _ => none,
    strOfInt := fun _ => "", strOfFlt := fun _ => "" }

def fd (n : String) (o : Option String) : FieldDef :=
  { name := n, ty := .str {} none none none, attrNullable := false, attrUserDefined := false,
    dflt := none, omitted := o }

/-- Three-level chain: the grandparent and the child both omit a field for caller class "c", the
middle class omits nothing. -/
def s3 : StructDef :=
  { cls := "ns.C", subtypes := none, catchAll := false,
    levels := [ { cls := "ns.G", fields := [fd "a" none, fd "gs" (some "c")] },
                { cls := "ns.P", fields := [fd "b" none] },
                { cls := "ns.C", fields := [fd "d" none, fd "cs" (some "c")] } ] }

def td (n : String) (o : Option String) : TagDef := { name := n, ty := .void {}, omitted := o }

/-- Same shape for a union chain. -/
def u3 : UnionDef :=
  { cls := "ns.UC", catchAll := none,
    levels := [ { cls := "ns.UG", tags := [td "x" none, td "gx" (some "c")] },
                { cls := "ns.UP", tags := [td "y" none] },
                { cls := "ns.UC", tags := [td "z" none, td "cz" (some "c")] } ] }

/-- one plain struct with a public field and a field omitted for "c"; one union with a public tag, a
tag omitted for "c" and a public struct-valued tag -/
def env0 : Env :=
  { structs := [ { cls := "ns.S", subtypes := none, catchAll := false,
                   levels := [ { cls := "ns.S", fields := [fd "a" none, fd "sec" (some "c")] } ] },
                 { cls := "ns.R", subtypes := some [(["s"], "ns.RS", false)], catchAll := false,
                   levels := [ { cls := "ns.R", fields := [fd "r" none] } ] },
                 { cls := "ns.RS", subtypes := none, catchAll := false,
                   levels := [ { cls := "ns.R", fields := [fd "r" none] },
                               { cls := "ns.RS", fields := [fd "q" none, fd "rsec" (some "c")] } ] } ],
    unions := [ { cls := "ns.U", catchAll := none,
                  levels := [ { cls := "ns.U", tags := [td "pub" none, td "hid" (some "c"),
                    { name := "st", ty := .struct {} "ns.S", omitted := none }] } ] } ] }

/-- a struct with a public field and a public field carrying a redactor -/
def envT : Env :=
  { structs := [ { cls := "ns.T", subtypes := none, catchAll := false,
                   levels := [ { cls := "ns.T", fields := [fd "a" none,
                     { name := "pw", ty := .str { redactInner := some (.blot none) } none none none,
                       attrNullable := false, attrUserDefined := false, dflt := none, omitted := none }] } ] } ],
    unions := [] }

def sS : StructDef :=
  { cls := "ns.S", subtypes := none, catchAll := false,
    levels := [ { cls := "ns.S", fields := [fd "a" none, fd "sec" (some "c")] } ] }

def v0 : PyVal := .struct "ns.S" [("a", .str "x"), ("sec", .str "y")]
def vRS : PyVal := .struct "ns.RS" [("r", .str "x"), ("q", .str "y"), ("rsec", .str "z")]

def keysOf : R JVal → Option (List String)
  | .ok (.obj kvs) => some (kvs.map (·.1))
  | _ => none

mutual
/-- every string of a JSON document (keys and string values), in order: a decidable view of it -/
def leaves : JVal → List String
  | .str s => [s]
  | .arr xs => "[" :: leavesL xs
  | .obj kvs => "{" :: leavesK kvs
  | .null => ["null"]
  | _ => ["?"]
def leavesL : List JVal → List String
  | [] => ["]"]
  | x :: xs => leaves x ++ leavesL xs
def leavesK : List (String × JVal) → List String
  | [] => ["}"]
  | (k, x) :: rest => k :: leaves x ++ leavesK rest
end

def leavesR : R JVal → Option (List String)
  | .ok j => some (leaves j)
  | .error _ => none

def isVerrR {α} : R α → Bool
  | .error (.verr _) => true
  | _ => false

end Ex

/-! ### 1. The generated per-caller tables hold exactly the declared members visible to the caller -/

/-- **Field tables.** For any inheritance chain and any caller, the table `encode_struct` /
`decode_struct` assemble from the generated `_all_fields_` and `_all_<p>_fields_` attributes (with
the assignment and attribute-inheritance semantics of the generated reflection code) has exactly
the members of the specification-level table: the fields declared along the chain that are public or
omitted for a caller class the caller holds. When the caller's permissions are listed without
repetition the two tables also have the same length, so nothing is listed twice. -/
theorem fieldsFor_perm (s : StructDef) (perms : List String) :
    (∀ f, f ∈ s.fieldsFor perms ↔ f ∈ s.fieldsSpec perms) ∧
    (nodupS perms = true → (s.fieldsFor perms).length = (s.fieldsSpec perms).length) :=
  ⟨mem_fieldsFor s perms, length_fieldsFor s perms⟩

/-- The table in closed form, order included: the public fields root first, then for each permission
of the caller (in the caller's order) the fields omitted for it, root first. -/
theorem fieldsFor_closed_form (s : StructDef) (perms : List String) :
    s.fieldsFor perms = s.allAttrs.filter (·.omitted == none) ++
      perms.flatMap fun p => s.allAttrs.filter (·.omitted == some p) :=
  fieldsFor_eq s perms

/-- Non-vacuity, on the shape of a past defect: grandparent and child omit for "c", the middle level
does not. The caller holding "c" sees both omitted fields, the caller without sees neither. -/
example : (Ex.s3.fieldsFor ["c"]).map (·.name) = ["a", "b", "d", "gs", "cs"] ∧
    (Ex.s3.fieldsSpec ["c"]).map (·.name) = ["a", "gs", "b", "d", "cs"] ∧
    (Ex.s3.fieldsFor []).map (·.name) = ["a", "b", "d"] ∧
    (Ex.s3.fieldsSpec []).map (·.name) = ["a", "b", "d"] ∧ nodupS ["c"] = true := by decide

/-- A field omitted for `c` is in the table of every caller holding `c`. -/
theorem field_in_table_with_perm (s : StructDef) (perms : List String) (f : FieldDef) (c : String)
    (hf : f ∈ s.allAttrs) (ho : f.omitted = some c) (hc : c ∈ perms) : f ∈ s.fieldsFor perms :=
  mem_fieldsFor_of_perm s perms f c hf ho hc

/-- Under unique field names (`StructDef.wf`), the name of a field omitted for `c` names no entry of
the table of a caller without `c`. -/
theorem field_not_in_table_without_perm (s : StructDef) (perms : List String) (f : FieldDef) (c : String)
    (hnd : nodupS (s.allAttrs.map (·.name)) = true)
    (hf : f ∈ s.allAttrs) (ho : f.omitted = some c) (hc : ¬ c ∈ perms) :
    ¬ f.name ∈ (s.fieldsFor perms).map (·.name) :=
  name_not_in_fieldsFor s perms f c hnd hf ho hc

example : nodupS (Ex.s3.allAttrs.map (·.name)) = true ∧ (Ex.s3.allAttrs.map (·.name)).contains "gs" = true ∧
    ¬ "c" ∈ ([] : List String) := by decide

/-- **Tag tables.** `_is_tag_present(tag, caller_permissions)` answers true exactly when the
specification shows the caller a tag of that name (declared along the chain, public or omitted for a
caller class the caller holds). -/
theorem tagPresent_perm (u : UnionDef) (tag : String) (perms : List String) :
    u.isTagPresent tag perms = true ↔ ∃ t ∈ u.tagsSpec perms, t.name = tag :=
  isTagPresent_iff u tag perms

example : Ex.u3.isTagPresent "gx" ["c"] = true ∧ Ex.u3.isTagPresent "cz" ["c"] = true ∧
    Ex.u3.isTagPresent "gx" [] = false ∧ Ex.u3.isTagPresent "cz" [] = false ∧
    Ex.u3.isTagPresent "y" [] = true := by decide

/-- Under unique tag names (`UnionDef.wf`) a tag omitted for `c` is not present for a caller without
`c`, and it is present for a caller holding `c`. -/
theorem tag_not_present_without_perm (u : UnionDef) (perms : List String) (t : TagDef) (c : String)
    (hnd : nodupS ((u.levels.flatMap (·.tags)).map (·.name)) = true)
    (ht : t ∈ u.levels.flatMap (·.tags)) (ho : t.omitted = some c) (hc : ¬ c ∈ perms) :
    u.isTagPresent t.name perms = false :=
  isTagPresent_false_of_omitted u perms t c hnd ht ho hc

theorem tag_present_with_perm (u : UnionDef) (perms : List String) (t : TagDef) (c : String)
    (ht : t ∈ u.levels.flatMap (·.tags)) (ho : t.omitted = some c) (hc : c ∈ perms) :
    u.isTagPresent t.name perms = true :=
  isTagPresent_of_perm u perms t c ht ho hc

example : nodupS ((Ex.u3.levels.flatMap (·.tags)).map (·.name)) = true := by decide

/-- `Union.__init__` finds a validator for every tag declared along the chain: `_tagmap` together
with the maps named by `_permissioned_tagmaps` cover every caller class that omits a member anywhere
in the chain. -/
theorem ctorValidator_finds_every_tag (u : UnionDef) (t : TagDef) (ht : t ∈ u.levels.flatMap (·.tags)) :
    (u.ctorValidator t.name).isSome = true :=
  ctorValidator_isSome u t ht

example : (Ex.u3.ctorValidator "gx").isSome = true ∧ (Ex.u3.ctorValidator "cz").isSome = true ∧
    (Ex.u3.ctorValidator "y").isSome = true ∧ (Ex.u3.ctorValidator "nope").isSome = false := by decide

/-! ### 2. Omitted members are absent from encodings for callers without the permission

`encode` is one recursive function: every nested struct, list item, map value and union payload is
encoded by a recursive call of `encode` at the member's type, so the statements below, which are
quantified over every type position `t`/value `v`, hold for the object produced at every nesting
depth of an encoding. -/

/-- Every key of the object `encode` produces at a struct type names a field of the caller's table.
The side condition excludes the one way a JSON object can be produced without going through the
field table: the redaction short-cut applied to a Python `dict` that sits where a struct is expected
(an ill-typed value, which redaction does not validate; its keys are copied). -/
theorem struct_keys_in_table (E : Ext) (env : Env) (perms : List String) (redact norm : Bool) (fl : Flags)
    (cls : String) (v : PyVal) (kvs : List (String × JVal)) (s : StructDef)
    (hs : env.struct? cls = some s)
    (hv : redact = false ∨ ∀ d, v ≠ .dict d)
    (h : encode E env perms redact norm (.struct fl cls) v = .ok (.obj kvs)) :
    ∀ k ∈ kvs.map (·.1), k ∈ (s.fieldsFor perms).map (·.name) := by
  rcases encode_struct_inv h with ⟨hr, r, hrv⟩ | ⟨_, _, hj⟩ | ⟨c, slots, s', kvs', _, hs', ha, hj⟩
  · obtain ⟨d, hd⟩ := redactValue_obj_dict hrv
    rcases hv with hv | hv
    · rw [hr] at hv; cases hv
    · exact absurd hd (hv d)
  · cases hj
  · rw [hs] at hs'
    cases hs'
    cases hj
    exact assembleStruct_keys _ _ _ _ ha

/-- **Omitted fields are absent.** A field declared anywhere along the chain and omitted for a caller
class the caller does not hold is not a key of the object encoded at the struct type (unique field
names are part of `StructDef.wf`). Holds for every flag combination and with or without redaction. -/
theorem omitted_absent (E : Ext) (env : Env) (perms : List String) (redact norm : Bool) (fl : Flags)
    (cls : String) (v : PyVal) (kvs : List (String × JVal)) (s : StructDef) (f : FieldDef) (c : String)
    (hs : env.struct? cls = some s)
    (hnd : nodupS (s.allAttrs.map (·.name)) = true)
    (hf : f ∈ s.allAttrs) (ho : f.omitted = some c) (hc : ¬ c ∈ perms)
    (hv : redact = false ∨ ∀ d, v ≠ .dict d)
    (h : encode E env perms redact norm (.struct fl cls) v = .ok (.obj kvs)) :
    ¬ f.name ∈ kvs.map (·.1) := fun hk =>
  name_not_in_fieldsFor s perms f c hnd hf ho hc
    (struct_keys_in_table E env perms redact norm fl cls v kvs s hs hv h f.name hk)

/-- Non-vacuity: the caller without "c" gets only the public key, the caller with "c" gets both. -/
example : Ex.keysOf (encode Ex.E0 Ex.env0 [] false false (.struct {} "ns.S") Ex.v0) = some ["a"] ∧
    Ex.keysOf (encode Ex.E0 Ex.env0 ["c"] false false (.struct {} "ns.S") Ex.v0) = some ["a", "sec"] := by
  decide +kernel

/-- The excluded corner, shown to be real: with redaction requested and a redactor on the validator,
a `dict` placed where the struct is expected is not validated and its keys are copied (the values are
masked). This concerns ill-typed input only; the key is whatever the dict holds. -/
example : Ex.keysOf (encode Ex.E0 Ex.env0 [] true false (.struct { redactInner := some (.blot none) } "ns.S")
    (.dict [(.str "sec", .str "y")])) = some ["sec"] := by decide +kernel

/-- Enumerated-subtypes root: the object is `.tag` followed by fields of the table of the value's own
class for this caller. -/
theorem tree_keys_in_table (E : Ext) (env : Env) (perms : List String) (redact norm : Bool) (fl : Flags)
    (cls : String) (v : PyVal) (kvs : List (String × JVal))
    (hv : redact = false ∨ ∀ d, v ≠ .dict d)
    (h : encode E env perms redact norm (.tree fl cls) v = .ok (.obj kvs)) :
    ∃ c slots sd, v = .struct c slots ∧ env.struct? c = some sd ∧
      ∀ k ∈ kvs.map (·.1), k = ".tag" ∨ k ∈ (sd.fieldsFor perms).map (·.name) := by
  rcases encode_tree_inv h with ⟨hr, r, hrv⟩ | ⟨_, _, hj⟩ | ⟨c, slots, s, tag, sd, kvs', hvv, _, _, hsd, ha, hj⟩
  · obtain ⟨d, hd⟩ := redactValue_obj_dict hrv
    rcases hv with hv | hv
    · rw [hr] at hv; cases hv
    · exact absurd hd (hv d)
  · cases hj
  · refine ⟨c, slots, sd, hvv, hsd, ?_⟩
    cases hj
    intro k hk
    simp only [List.map_cons, List.mem_cons] at hk
    rcases hk with hk | hk
    · exact Or.inl hk
    · exact Or.inr (assembleStruct_keys _ _ _ _ ha k hk)

/-- Omitted fields are absent under an enumerated-subtypes root as well. -/
theorem omitted_absent_tree (E : Ext) (env : Env) (perms : List String) (redact norm : Bool) (fl : Flags)
    (cls c' : String) (slots : List (String × PyVal)) (kvs : List (String × JVal)) (sd : StructDef)
    (f : FieldDef) (c : String)
    (hsd : env.struct? c' = some sd)
    (hnd : nodupS (sd.allAttrs.map (·.name)) = true) (hdot : f.name ≠ ".tag")
    (hf : f ∈ sd.allAttrs) (ho : f.omitted = some c) (hc : ¬ c ∈ perms)
    (h : encode E env perms redact norm (.tree fl cls) (.struct c' slots) = .ok (.obj kvs)) :
    ¬ f.name ∈ kvs.map (·.1) := by
  intro hk
  obtain ⟨c2, slots2, sd2, hvv, hsd2, hkeys⟩ :=
    tree_keys_in_table E env perms redact norm fl cls _ kvs (Or.inr (fun d hd => by cases hd)) h
  cases hvv
  rw [hsd] at hsd2
  cases hsd2
  rcases hkeys f.name hk with h1 | h1
  · exact hdot h1
  · exact name_not_in_fieldsFor sd perms f c hnd hf ho hc h1

example : Ex.keysOf (encode Ex.E0 Ex.env0 [] false false (.tree {} "ns.R") Ex.vRS) = some [".tag", "r", "q"] ∧
    Ex.keysOf (encode Ex.E0 Ex.env0 ["c"] false false (.tree {} "ns.R") Ex.vRS) = some [".tag", "r", "q", "rsec"] := by
  decide +kernel

/-- Union values: the tag written under `.tag` is present for the caller, the member's type is that
of a tag the specification shows the caller, and every key is `.tag`, the tag itself, or (struct-valued
member, flattened) a field of the member struct's table for this caller. -/
theorem union_keys_in_table (E : Ext) (env : Env) (perms : List String) (redact norm : Bool) (fl : Flags)
    (cls c tag : String) (payload : PyVal) (kvs : List (String × JVal)) (u : UnionDef)
    (hu : env.union? cls = some u)
    (hv : redact = false ∨ ∀ d, payload ≠ .dict d)
    (h : encode E env perms redact norm (.union fl cls) (.union c tag payload) = .ok (.obj kvs)) :
    u.isTagPresent tag perms = true ∧
    (∃ t ∈ u.tagsSpec perms, t.name = tag ∧ u.valDataType tag perms = some t.ty) ∧
    ∀ k ∈ kvs.map (·.1), k = ".tag" ∨ k = tag ∨
      ∃ fl' sc sd, u.valDataType tag perms = some (.struct fl' sc) ∧ env.struct? sc = some sd ∧
        k ∈ (sd.fieldsFor perms).map (·.name) := by
  rcases encode_union_inv h with ⟨_, r, hrv⟩ | ⟨_, _, hj⟩ | ⟨c2, tag2, payload2, u2, ft, hvv, hu2, hpres, hft, hcases⟩
  · obtain ⟨d, hd⟩ := redactValue_obj_dict hrv
    cases hd
  · cases hj
  · cases hvv
    rw [hu] at hu2
    cases hu2
    refine ⟨hpres, ?_, ?_⟩
    · obtain ⟨t, ht, hn, hty⟩ := valDataType_spec u tag perms ft hft
      exact ⟨t, ht, hn, by rw [hft, hty]⟩
    · rcases hcases with hj | ⟨j', hj', ⟨fl', sc, kvs', hftS, hjo, hj⟩ | hj⟩
      · cases hj
        intro k hk
        simp at hk
        exact Or.inl hk
      · cases hj
        subst hftS hjo
        intro k hk
        simp only [List.map_cons, List.mem_cons] at hk
        rcases hk with hk | hk
        · exact Or.inl hk
        · right; right
          rcases encode_struct_inv hj' with ⟨hr, r, hrv⟩ | ⟨_, _, hjn⟩ | ⟨c3, slots, s', kvs3, _, hs', ha, hj3⟩
          · obtain ⟨d, hd⟩ := redactValue_obj_dict hrv
            rcases hv with hv | hv
            · rw [hr] at hv; cases hv
            · exact absurd hd (hv d)
          · cases hjn
          · cases hj3
            exact ⟨fl', sc, s', hft, hs', assembleStruct_keys _ _ _ _ ha k hk⟩
      · cases hj
        intro k hk
        simp at hk
        rcases hk with hk | hk
        · exact Or.inl hk
        · exact Or.inr (Or.inl hk)

example : Ex.keysOf (encode Ex.E0 Ex.env0 [] false false (.union {} "ns.U") (.union "ns.U" "st" Ex.v0))
      = some [".tag", "a"] ∧
    Ex.keysOf (encode Ex.E0 Ex.env0 ["c"] false false (.union {} "ns.U") (.union "ns.U" "st" Ex.v0))
      = some [".tag", "a", "sec"] := by decide +kernel

/-! ### 3. A union value whose tag the caller may not see is refused -/

/-- **Omitted tags are refused.** Encoding a union value whose tag is not present for the caller is a
validation error, whatever the payload, unless redaction replaces the whole value (then the output is
the mask or hash and the tag does not appear either, see `redacted_outer`). -/
theorem omitted_tag_refused (E : Ext) (env : Env) (perms : List String) (redact norm : Bool) (fl : Flags)
    (cls c tag : String) (payload : PyVal) (u : UnionDef)
    (hu : env.union? cls = some u) (hp : u.isTagPresent tag perms = false)
    (hnr : redact = false ∨ (fl.redactInner = none ∧ (fl.nullable = true → fl.redactOuter = none))) :
    ∃ hint, encode E env perms redact norm (.union fl cls) (.union c tag payload) = .error (.verr hint) :=
  encode_union_tag_absent E env perms redact norm fl cls c tag payload u hu hp hnr

/-- With unique tag names: a tag omitted for a caller class the caller does not hold is refused. -/
theorem omitted_tag_refused_of_omitted (E : Ext) (env : Env) (perms : List String) (redact norm : Bool)
    (fl : Flags) (cls c : String) (payload : PyVal) (u : UnionDef) (t : TagDef) (p : String)
    (hu : env.union? cls = some u)
    (hnd : nodupS ((u.levels.flatMap (·.tags)).map (·.name)) = true)
    (ht : t ∈ u.levels.flatMap (·.tags)) (ho : t.omitted = some p) (hc : ¬ p ∈ perms)
    (hnr : redact = false ∨ (fl.redactInner = none ∧ (fl.nullable = true → fl.redactOuter = none))) :
    ∃ hint, encode E env perms redact norm (.union fl cls) (.union c t.name payload) = .error (.verr hint) :=
  omitted_tag_refused E env perms redact norm fl cls c t.name payload u hu
    (isTagPresent_false_of_omitted u perms t p hnd ht ho hc) hnr

example : Ex.isVerrR (encode Ex.E0 Ex.env0 [] false false (.union {} "ns.U") (.union "ns.U" "hid" .none)) = true ∧
    Ex.keysOf (encode Ex.E0 Ex.env0 ["c"] false false (.union {} "ns.U") (.union "ns.U" "hid" .none))
      = some [".tag"] := by decide +kernel

/-! ### 4. Strict decoding refuses members the caller may not supply -/

/-- Strict `decode_struct`: an object member whose key is not a field of the caller's table (and does
not start with ".tag") is a validation error. -/
theorem unknown_rejected_strict (E : Ext) (env : Env) (perms : List String) (cls : String) (s : StructDef)
    (kvs : List (String × JVal)) (children : List (String × R PyVal)) (hs : env.struct? cls = some s)
    (k : String) (x : JVal) (hk : (k, x) ∈ kvs)
    (hnot : ¬ k ∈ (s.fieldsFor perms).map (·.name)) (htag : k.startsWith ".tag" = false) :
    finishStruct E env perms true cls kvs children = .error (.verr "unknown field") :=
  finishStruct_unknown E env perms cls s kvs children hs k x hk hnot htag

/-- **Omitted fields cannot be supplied in strict mode.** Decoding, at a struct type, an object that
has a member named like a field omitted for a caller class the caller does not hold is a validation
error. (`StructDef.wf` gives unique names and names that do not start with "."; `fl` arbitrary.) -/
theorem omitted_rejected_strict (E : Ext) (env : Env) (perms : List String) (fl : Flags) (cls : String)
    (s : StructDef) (kvs : List (String × JVal)) (f : FieldDef) (c : String) (x : JVal)
    (hs : env.struct? cls = some s)
    (hnd : nodupS (s.allAttrs.map (·.name)) = true) (hdot : f.name.startsWith "." = false)
    (hf : f ∈ s.allAttrs) (ho : f.omitted = some c) (hc : ¬ c ∈ perms)
    (hk : (f.name, x) ∈ kvs) :
    decode E env perms true (.struct fl cls) (.obj kvs) = .error (.verr "unknown field") := by
  rw [decode_struct_obj_eq]
  exact finishStruct_unknown E env perms cls s kvs _ hs f.name x hk
    (name_not_in_fieldsFor s perms f c hnd hf ho hc) (not_startsWith_tag_of_not_startsWith_dot _ hdot)

/-- the same from `StructDef.wf` -/
theorem omitted_rejected_strict_wf (E : Ext) (env : Env) (perms : List String) (fl : Flags) (cls : String)
    (s : StructDef) (kvs : List (String × JVal)) (f : FieldDef) (c : String) (x : JVal)
    (hs : env.struct? cls = some s) (hwf : s.wf env = true)
    (hf : f ∈ s.allAttrs) (ho : f.omitted = some c) (hc : ¬ c ∈ perms)
    (hk : (f.name, x) ∈ kvs) :
    decode E env perms true (.struct fl cls) (.obj kvs) = .error (.verr "unknown field") := by
  simp only [StructDef.wf, Bool.and_eq_true] at hwf
  have hnd := hwf.1.1.1.1.2
  have hall := hwf.1.1.1.2
  rw [List.all_eq_true] at hall
  have hfw := hall f hf
  simp only [Bool.and_eq_true, Bool.not_eq_true'] at hfw
  exact omitted_rejected_strict E env perms fl cls s kvs f c x hs hnd hfw.1 hf ho hc hk

example : Ex.isVerrR (decode Ex.E0 Ex.env0 [] true (.struct {} "ns.S")
      (.obj [("a", .str "x"), ("sec", .str "y")])) = true ∧
    Ex.isVerrR (decode Ex.E0 Ex.env0 ["c"] true (.struct {} "ns.S")
      (.obj [("a", .str "x"), ("sec", .str "y")])) = false ∧
    Ex.isVerrR (decode Ex.E0 Ex.env0 [] true (.struct {} "ns.S") (.obj [("a", .str "x")])) = false := by
  decide +kernel

example : Ex.sS.wf Ex.env0 = true ∧ Ex.env0.struct? "ns.S" = some Ex.sS := by
  constructor
  · decide +kernel
  · rfl

/-- **Omitted tags cannot be supplied in strict mode.** Decoding, at a union type, the short form
`"tag"` or the object form `{".tag": "tag", ...}` of a tag that is not present for the caller is a
validation error. -/
theorem omitted_tag_rejected_strict (E : Ext) (env : Env) (perms : List String) (fl : Flags) (cls tag : String)
    (u : UnionDef) (hu : env.union? cls = some u) (hp : u.isTagPresent tag perms = false) :
    decode E env perms true (.union fl cls) (.str tag) = .error (.verr "unknown tag") ∧
    ∀ kvs, jsonLookup ".tag" kvs = some (.str tag) →
      decode E env perms true (.union fl cls) (.obj kvs) = .error (.verr "unknown tag") :=
  ⟨decode_union_str_absent E env perms fl cls tag u hu hp,
   fun kvs ht => decode_union_obj_absent E env perms fl cls tag kvs u hu ht hp⟩

/-- with unique tag names, for a tag omitted for a caller class the caller does not hold -/
theorem omitted_tag_rejected_strict_of_omitted (E : Ext) (env : Env) (perms : List String) (fl : Flags)
    (cls : String) (u : UnionDef) (t : TagDef) (p : String) (hu : env.union? cls = some u)
    (hnd : nodupS ((u.levels.flatMap (·.tags)).map (·.name)) = true)
    (ht : t ∈ u.levels.flatMap (·.tags)) (ho : t.omitted = some p) (hc : ¬ p ∈ perms) :
    decode E env perms true (.union fl cls) (.str t.name) = .error (.verr "unknown tag") :=
  (omitted_tag_rejected_strict E env perms fl cls t.name u hu
    (isTagPresent_false_of_omitted u perms t p hnd ht ho hc)).1

example : Ex.isVerrR (decode Ex.E0 Ex.env0 [] true (.union {} "ns.U") (.str "hid")) = true ∧
    Ex.isVerrR (decode Ex.E0 Ex.env0 [] true (.union {} "ns.U") (.obj [(".tag", .str "hid")])) = true ∧
    Ex.isVerrR (decode Ex.E0 Ex.env0 ["c"] true (.union {} "ns.U") (.str "hid")) = false ∧
    Ex.isVerrR (decode Ex.E0 Ex.env0 [] true (.union {} "ns.U") (.str "pub")) = false := by decide +kernel

/-! ### 5. Omitted members are present for callers holding the permission -/

/-- **Present with the permission.** If the caller holds `c`, a field omitted for `c` whose slot is
set to a value other than None is a key of the object encoded at the struct type. -/
theorem present_with_perm (E : Ext) (env : Env) (perms : List String) (redact norm : Bool) (fl : Flags)
    (cls c' : String) (slots : List (String × PyVal)) (kvs : List (String × JVal)) (s : StructDef)
    (f : FieldDef) (c : String) (x : PyVal)
    (hs : env.struct? cls = some s)
    (hf : f ∈ s.allAttrs) (ho : f.omitted = some c) (hc : c ∈ perms)
    (hx : lookupSlot f.name slots = some x) (hnn : isNone x = false)
    (h : encode E env perms redact norm (.struct fl cls) (.struct c' slots) = .ok (.obj kvs)) :
    f.name ∈ kvs.map (·.1) := by
  have hft := mem_fieldsFor_of_perm s perms f c hf ho hc
  rcases encode_struct_inv h with ⟨_, r, hrv⟩ | ⟨_, _, hj⟩ | ⟨c3, slots3, s', kvs3, hvv, hs', ha, hj⟩
  · obtain ⟨d, hd⟩ := redactValue_obj_dict hrv
    cases hd
  · cases hj
  · cases hvv
    cases hj
    rw [hs] at hs'
    cases hs'
    exact assembleStruct_has_key _ _ _ _ ha f hft
      (lookupEnc_encodeSlots_isSome E env perms redact _ _ f hft x hx hnn)

/-- the same under an enumerated-subtypes root -/
theorem present_with_perm_tree (E : Ext) (env : Env) (perms : List String) (redact norm : Bool) (fl : Flags)
    (cls c' : String) (slots : List (String × PyVal)) (kvs : List (String × JVal)) (sd : StructDef)
    (f : FieldDef) (c : String) (x : PyVal)
    (hsd : env.struct? c' = some sd)
    (hf : f ∈ sd.allAttrs) (ho : f.omitted = some c) (hc : c ∈ perms)
    (hx : lookupSlot f.name slots = some x) (hnn : isNone x = false)
    (h : encode E env perms redact norm (.tree fl cls) (.struct c' slots) = .ok (.obj kvs)) :
    f.name ∈ kvs.map (·.1) := by
  have hft := mem_fieldsFor_of_perm sd perms f c hf ho hc
  rcases encode_tree_inv h with ⟨_, r, hrv⟩ | ⟨_, _, hj⟩ | ⟨c3, slots3, s, tag, sd', kvs3, hvv, _, _, hsd', ha, hj⟩
  · obtain ⟨d, hd⟩ := redactValue_obj_dict hrv
    cases hd
  · cases hj
  · cases hvv
    cases hj
    rw [hsd] at hsd'
    cases hsd'
    simp only [List.map_cons, List.mem_cons]
    exact Or.inr (assembleStruct_has_key _ _ _ _ ha f hft
      (lookupEnc_encodeSlots_isSome E env perms redact _ _ f hft x hx hnn))

/-- Non-vacuity is the second halves of the examples in section 2 ("sec" / "rsec" are keys for the
caller holding "c"); the hypotheses on the slot: -/
example : lookupSlot "sec" [("a", PyVal.str "x"), ("sec", .str "y")] = some (.str "y") ∧
    isNone (.str "y") = false := ⟨by simp [lookupSlot], rfl⟩

/-! ### 6. Redaction

Fields, list items and map values are all encoded by recursive calls of `encode` at the member's
validator, and a redactor (given directly or through an alias) sits in the flags of that validator,
so the statements below, quantified over every type `t` and value `v`, apply to every position of an
encoding at any nesting depth. -/

/-- **Redaction on the outermost validator object.** With redaction requested, when the outermost
validator object carries a redactor (the `Nullable` wrapper when there is one, else the object
itself) the result of `encode` *is* the redaction of the value: nothing is validated and no
clear-text branch is taken. -/
theorem redacted_outer (E : Ext) (env : Env) (perms : List String) (norm : Bool) (t : PTy) (v : PyVal)
    (r : Redactor)
    (hr : (t.flags.nullable = true ∧ t.flags.redactOuter = some r) ∨
          (t.flags.nullable = false ∧ t.flags.redactInner = some r)) :
    encode E env perms true norm t v = redactValue E r v := by
  apply encode_redact_outer
  rcases hr with ⟨hn, h⟩ | ⟨hn, h⟩ <;> simp [PTy.outerRedactor, hn, h]

/-- **Redactor on the object wrapped by a Nullable.** A value other than None that passes the
Nullable validation is replaced by its redaction. -/
theorem redacted_inner (E : Ext) (env : Env) (perms : List String) (norm : Bool) (t : PTy) (v w : PyVal)
    (r : Redactor) (hn : t.flags.nullable = true) (ho : t.flags.redactOuter = none)
    (hi : t.flags.redactInner = some r) (hv : isNone v = false) (hval : validate E env t v = .ok w) :
    encode E env perms true norm t v = redactValue E r v :=
  encode_redact_inner E env perms norm t v w r hn ho hi hv hval

/-- **No clear-text path.** Whatever the value, at a type carrying a redactor (on the wrapper or on the
wrapped object) `encode` with redaction requested yields the redaction of the value, `null` for None,
or the validation error of the Nullable wrapper: the clear-text branches are unreachable. -/
theorem redacted_never_clear (E : Ext) (env : Env) (perms : List String) (norm : Bool) (t : PTy) (v : PyVal)
    (r : Redactor) (hr : t.topRedactor = some r) :
    encode E env perms true norm t v = redactValue E r v ∨
    (isNone v = true ∧ encode E env perms true norm t v = .ok .null) ∨
    ∃ e, validate E env t v = .error e ∧ encode E env perms true norm t v = .error e :=
  encode_redact_top E env perms norm t v r hr

/-- the clear text "hunter2" is replaced: mask for blot, `E.md5` of it for hash (here the constant "md5") -/
example :
    Ex.leavesR (encode Ex.E0 Ex.env0 [] true false (.str { redactInner := some (.blot none) } none none none)
      (.str "hunter2")) = some ["********"] ∧
    Ex.leavesR (encode Ex.E0 Ex.env0 [] true false
      (.str { nullable := true, redactOuter := some (.hash none) } none none none) (.str "hunter2")) = some ["md5"] ∧
    Ex.leavesR (encode Ex.E0 Ex.env0 [] true false
      (.str { nullable := true, redactInner := some (.blot none) } none none none) (.str "hunter2"))
      = some ["********"] ∧
    Ex.leavesR (encode Ex.E0 Ex.env0 [] false false (.str { redactInner := some (.blot none) } none none none)
      (.str "hunter2")) = some ["hunter2"] := by decide +kernel

/-- **Redacted struct fields.** In the object encoded for a struct value with redaction requested, the
JSON stored under the name of a field whose validator carries a redactor is the redaction of the
value of that slot. -/
theorem redacted_field (E : Ext) (env : Env) (perms : List String) (norm : Bool) (fl : Flags)
    (cls c' : String) (slots : List (String × PyVal)) (kvs : List (String × JVal)) (s : StructDef)
    (hs : env.struct? cls = some s)
    (h : encode E env perms true norm (.struct fl cls) (.struct c' slots) = .ok (.obj kvs))
    (k : String) (j : JVal) (hkj : (k, j) ∈ kvs) (r : Redactor)
    (hr : ∀ g ∈ s.fieldsFor perms, g.name = k → g.ty.topRedactor = some r) :
    ∃ x, (k, x) ∈ slots ∧ redactValue E r x = .ok j := by
  rcases encode_struct_inv h with ⟨_, r', hrv⟩ | ⟨_, _, hj⟩ | ⟨c3, slots3, s', kvs3, hvv, hs', ha, hj⟩
  · obtain ⟨d, hd⟩ := redactValue_obj_dict hrv
    cases hd
  · cases hj
  · cases hvv
    cases hj
    rw [hs] at hs'
    cases hs'
    exact redacted_field_entry E env perms _ _ _ ha k j hkj r hr

/-- **Redacted list items.** When the item validator carries a redactor on its outermost object, the
encoded items are the redactions of the items, one for one. -/
theorem redacted_list_items (E : Ext) (env : Env) (perms : List String) (item : PTy) (r : Redactor)
    (hr : item.outerRedactor = some r) (xs : List PyVal) :
    encodeList E env perms true item xs = xs.mapM (redactValue E r) :=
  encodeList_redacted E env perms item r hr xs

/-- **Redacted map values.** When the value validator carries a redactor on its outermost object,
every value of the encoded map is the redaction of a value of the dictionary. -/
theorem redacted_map_values (E : Ext) (env : Env) (perms : List String) (kt vt : PTy) (r : Redactor)
    (hr : vt.outerRedactor = some r) (kvs : List (PyVal × PyVal)) (out : List (String × JVal))
    (h : encodeDict E env perms true kt vt kvs = .ok out) :
    out.length = kvs.length ∧ ∀ kj ∈ out, ∃ kx ∈ kvs, redactValue E r kx.2 = .ok kj.2 :=
  encodeDict_values_redacted E env perms kt vt r hr kvs out h

/-- a list of lists of redacted strings, and a map with redacted values, inside out -/
example :
    Ex.leavesR (encode Ex.E0 Ex.env0 [] true false
      (.list {} (.list {} (.str { redactInner := some (.blot none) } none none none) none none) none none)
      (.list [.list [.str "s1", .str "s2"], .list []]))
      = some ["[", "[", "********", "********", "]", "[", "]", "]"] ∧
    Ex.leavesR (encode Ex.E0 Ex.env0 [] true false
      (.map {} (.str {} none none none) (.str { redactInner := some (.hash none) } none none none))
      (.dict [(.str "k", .str "s1")]))
      = some ["{", "k", "md5", "}"] := by decide +kernel

/-- a struct with a redacted field: the field's value is masked, its neighbour is not -/
example :
    Ex.leavesR (encode Ex.E0 Ex.envT [] true false (.struct {} "ns.T")
      (.struct "ns.T" [("a", .str "x"), ("pw", .str "hunter2")]))
      = some ["{", "a", "x", "pw", "********", "}"] := by decide +kernel

/-- **What the redaction is, `BlotRedactor` without a regex**: the mask, whatever the value; a list
becomes a list of masks of the same length, a string-keyed dict keeps its keys and masks every
value. -/
theorem redactValue_blot_noregex (E : Ext) (v : PyVal) :
    (∀ xs, v = .list xs → redactValue E (.blot none) v = .ok (.arr (List.replicate xs.length blotMask))) ∧
    (∀ kvs out, v = .dict kvs → redactValue E (.blot none) v = .ok out →
        ∃ o, out = .obj o ∧ o.length = kvs.length ∧ ∀ kj ∈ o, kj.2 = blotMask ∧ ∃ x, (PyVal.str kj.1, x) ∈ kvs) ∧
    ((∀ xs, v ≠ .list xs) → (∀ kvs, v ≠ .dict kvs) → redactValue E (.blot none) v = .ok blotMask) := by
  refine ⟨?_, ?_, ?_⟩
  · rintro xs rfl
    simp only [redactValue, Except.ok.injEq, JVal.arr.injEq]
    induction xs with
    | nil => rfl
    | cons x xs ih => simp [List.replicate_succ, redactApply_blot_none, ih]
  · rintro kvs out rfl h
    simp only [redactValue] at h
    cases hd : redactDict E (.blot none) kvs with
    | error e => simp [hd, Except.map] at h
    | ok o =>
      simp only [hd, Except.map, Except.ok.injEq] at h
      obtain ⟨hl, hv⟩ := redactDict_values E _ kvs o hd
      refine ⟨o, h.symm, hl, ?_⟩
      intro kj hkj
      obtain ⟨x, hx, he⟩ := hv kj hkj
      exact ⟨by rw [he, redactApply_blot_none], x, hx⟩
  · intro hl hd
    unfold redactValue
    split
    · exact absurd rfl (hl _)
    · exact absurd rfl (hd _)
    · rw [redactApply_blot_none]

example : blotMask = .str "********" := rfl

/-- `BlotRedactor` with a regex on a string: the groups `re.search` returns joined by "***" when the
regex is non-empty and matches, the mask otherwise. The clear text enters only through `E.reSearch`. -/
theorem redactApply_blot_regex (E : Ext) (re s : String) :
    redactApply E (.blot (some re)) (.str s) =
      if re = "" then blotMask else
      match E.reSearch re s with
      | some gs => .str (joinStars gs)
      | none => blotMask := by
  by_cases h : re = ""
  · simp [redactApply, redactMatches, h, blotMask]
  · simp only [redactApply, redactMatches, h, if_false, beq_iff_eq]
    cases E.reSearch re s <;> rfl

/-- anything but a string is masked whatever the regex -/
theorem redactApply_blot_nonstring (E : Ext) (re : Option String) (v : PyVal) (hv : ∀ s, v ≠ .str s) :
    redactApply E (.blot re) v = blotMask := by
  cases re with
  | none => exact redactApply_blot_none E v
  | some re =>
    cases v <;> first | exact absurd rfl (hv _) | rfl

/-- **`HashRedactor` without a regex** on a string is the hash of it: the clear text enters only
through `E.md5`. Numbers and booleans are hashed through their `str()`, anything else becomes null. -/
theorem redactApply_hash_noregex (E : Ext) (s : String) :
    redactApply E (.hash none) (.str s) = .str (E.md5 s) := by
  simp [redactApply, redactMatches]

theorem redactApply_hash_noregex_other (E : Ext) (v : PyVal) :
    redactApply E (.hash none) v = (match v with
      | .str s => .str (E.md5 s)
      | .int n => .str (E.md5 (E.strOfInt n))
      | .bool b => .str (E.md5 (if b then "True" else "False"))
      | .flt x => .str (E.md5 (E.strOfFlt x))
      | _ => .null) := by
  cases v <;> simp [redactApply, redactMatches]

/-- `HashRedactor` with a regex on a string: the hash, followed by the matched groups in parentheses
when the regex is non-empty and matches. -/
theorem redactApply_hash_regex (E : Ext) (re s : String) :
    redactApply E (.hash (some re)) (.str s) =
      if re = "" then .str (E.md5 s) else
      match E.reSearch re s with
      | some gs => .str (E.md5 s ++ " (" ++ joinStars gs ++ ")")
      | none => .str (E.md5 s) := by
  by_cases h : re = ""
  · simp [redactApply, redactMatches, h]
  · simp only [redactApply, redactMatches, h, if_false, beq_iff_eq, Option.map_some]
    cases E.reSearch re s <;> rfl

/-- a matching regex keeps the groups only -/
example : Ex.leaves (redactApply { Ex.E0 with reSearch := fun _ _ => some ["ab", "yz"] }
    (.blot (some "(..).*(..)")) (.str "abcdxyz")) = ["ab***yz"] := by decide +kernel

/-! ### 7. The redaction branch does not crash -/

/-- On values whose dictionaries are string-keyed (all that the model covers) the redaction of a value
is a JSON value, never an escaping exception. -/
theorem redaction_no_crash (E : Ext) (r : Redactor) (v : PyVal) (h : stringKeyed v = true) :
    ∃ j, redactValue E r v = .ok j :=
  redactValue_ok_of_stringKeyed E r v h

/-- so at a type with a redactor on its outermost validator object, `encode` with redaction requested
succeeds on every string-keyed value -/
theorem redacted_outer_ok (E : Ext) (env : Env) (perms : List String) (norm : Bool) (t : PTy) (v : PyVal)
    (r : Redactor) (hr : t.outerRedactor = some r) (h : stringKeyed v = true) :
    ∃ j, encode E env perms true norm t v = .ok j := by
  rw [encode_redact_outer E env perms norm t v r hr]
  exact redactValue_ok_of_stringKeyed E r v h

example : stringKeyed (.dict [(.str "k", .int 1)]) = true ∧ stringKeyed (.dict [(.int 1, .int 1)]) = false ∧
    stringKeyed (.list [.dict [(.int 1, .int 1)]]) = true := by decide

/-! ### 8. Redactors given through an alias reach the validator the encoder consults

`validatorOf` models `generate_validator_constructor`: the validator object built for a declared type.
An alias annotated with a redactor puts it on the outermost object of the alias's validator, so the
theorems of section 6 apply to every position whose declared type is (a list of / a map to / a
Nullable of) such an alias. -/

/-- a value whose declared type is an alias with a redactor is replaced by its redaction -/
theorem alias_redacted (E : Ext) (env : Env) (perms : List String) (norm : Bool) (n : String) (r : Redactor)
    (t : IrTy) (T : PTy) (v : PyVal) (h : validatorOf (.alias n (some r) t) = some T) :
    encode E env perms true norm T v = redactValue E r v :=
  encode_redact_outer E env perms norm T v r (validatorOf_alias_outer n r t T h)

/-- an alias of an alias adds nothing: the inner alias's redactor stays -/
theorem alias_of_alias (n : String) (t : IrTy) : validatorOf (.alias n none t) = validatorOf t := by
  simp only [validatorOf]
  cases validatorOf t <;> rfl

/-- `Nullable(alias)`: the redactor sits on the wrapped object, nothing on the wrapper, and
`redacted_inner` / `redacted_never_clear` apply -/
theorem nullable_alias_redacted (n : String) (r : Redactor) (t : IrTy) (T : PTy)
    (h : validatorOf (.nullable (.alias n (some r) t)) = some T) :
    T.flags.nullable = true ∧ T.flags.redactOuter = none ∧ T.flags.redactInner = some r ∧
      T.topRedactor = some r :=
  validatorOf_nullable_alias_top n r t T h

/-- `List(alias)`: every item is replaced by its redaction -/
theorem list_of_alias_redacted (E : Ext) (env : Env) (perms : List String) (n : String) (r : Redactor)
    (t : IrTy) (a b : Option Nat) (T : PTy) (h : validatorOf (.list (.alias n (some r) t) a b) = some T) :
    ∃ item, T = .list {} item a b ∧
      ∀ xs, encodeList E env perms true item xs = xs.mapM (redactValue E r) := by
  obtain ⟨item, hT, hr⟩ := validatorOf_list_alias n r t a b T h
  exact ⟨item, hT, encodeList_redacted E env perms item r hr⟩

/-- `Map(k, alias)`: every value is replaced by its redaction -/
theorem map_of_alias_redacted (E : Ext) (env : Env) (perms : List String) (n : String) (r : Redactor)
    (k t : IrTy) (T : PTy) (h : validatorOf (.map k (.alias n (some r) t)) = some T) :
    ∃ kt vt, T = .map {} kt vt ∧ ∀ kvs out, encodeDict E env perms true kt vt kvs = .ok out →
      out.length = kvs.length ∧ ∀ kj ∈ out, ∃ kx ∈ kvs, redactValue E r kx.2 = .ok kj.2 := by
  obtain ⟨kt, vt, hT, hr⟩ := validatorOf_map_alias n r k t T h
  exact ⟨kt, vt, hT, fun kvs out => encodeDict_values_redacted E env perms kt vt r hr kvs out⟩

example : (validatorOf (.alias "Secret" (some (.blot none)) (.str none none none))).map (·.outerRedactor)
      = some (some (.blot none)) ∧
    (validatorOf (.nullable (.alias "Secret" (some (.blot none)) (.str none none none)))).map (·.topRedactor)
      = some (some (.blot none)) ∧
    (validatorOf (.list (.alias "Outer" none (.alias "Secret" (some (.hash none)) (.str none none none))) none none)).isSome
      = true := by decide

end StoneVerif.C13
