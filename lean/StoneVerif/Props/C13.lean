import StoneVerif.Lemmas.RtPerms
/-!
Property theorems for C13: a field or tag omitted for caller class `c` is absent from every encoding
produced for a caller without `c`, cannot be supplied by such a caller in strict mode, and is present
for callers holding `c`; redaction replaces the clear text of every redacted field.
-/
namespace StoneVerif.C13
open StoneVerif.Rt

/-! ### Tiny concrete data for the non-vacuity examples -/
namespace Ex

/-- a dummy table of external calls (every call answers a constant) -/
def E0 : Ext :=
  { fltLt := fun _ _ => false, fltIsNan := fun _ => false, fltIsInf := fun _ => false,
    fltOfInt := fun _ => none, patMatch := fun _ _ => true, b64enc := fun _ => "", b64dec := fun _ => none,
    strftime := fun _ _ => "", strptime := fun _ _ => none, md5 := fun _ => "md5", reSearch := fun _ _ => none,
    strOfInt := fun _ => "", strOfFlt := fun _ => "" }

def fd (n : String) (o : Option String) : FieldDef :=
  { name := n, ty := .str {} none none none, attrNullable := false, attrUserDefined := false,
    dflt := none, omitted := o }

/-- Three-level chain: the grandparent and the child both omit a field for caller class "c", the
middle class omits nothing. -/
def s3 : StructDef :=
  { cls := "ns.C", subtypes := none, catchAll := false,
    levels := [ { cls := "ns.G", fields := [fd "a" none, fd "gs" (some "c")] },
                { cls := "ns.P", fields := [fd "b" none] },
                { cls := "ns.C", fields := [fd "d" none, fd "cs" (some "c")] } ] }

def td (n : String) (o : Option String) : TagDef := { name := n, ty := .void {}, omitted := o }

/-- Same shape for a union chain. -/
def u3 : UnionDef :=
  { cls := "ns.UC", catchAll := none,
    levels := [ { cls := "ns.UG", tags := [td "x" none, td "gx" (some "c")] },
                { cls := "ns.UP", tags := [td "y" none] },
                { cls := "ns.UC", tags := [td "z" none, td "cz" (some "c")] } ] }

/-- one plain struct with a public field and a field omitted for "c"; one union with a public tag, a
tag omitted for "c" and a public struct-valued tag -/
def env0 : Env :=
  { structs := [ { cls := "ns.S", subtypes := none, catchAll := false,
                   levels := [ { cls := "ns.S", fields := [fd "a" none, fd "sec" (some "c")] } ] },
                 { cls := "ns.R", subtypes := some [(["s"], "ns.RS", false)], catchAll := false,
                   levels := [ { cls := "ns.R", fields := [fd "r" none] } ] },
                 { cls := "ns.RS", subtypes := none, catchAll := false,
                   levels := [ { cls := "ns.R", fields := [fd "r" none] },
                               { cls := "ns.RS", fields := [fd "q" none, fd "rsec" (some "c")] } ] } ],
    unions := [ { cls := "ns.U", catchAll := none,
                  levels := [ { cls := "ns.U", tags := [td "pub" none, td "hid" (some "c"),
                    { name := "st", ty := .struct {} "ns.S", omitted := none }] } ] } ] }

def sS : StructDef :=
  { cls := "ns.S", subtypes := none, catchAll := false,
    levels := [ { cls := "ns.S", fields := [fd "a" none, fd "sec" (some "c")] } ] }

def v0 : PyVal := .struct "ns.S" [("a", .str "x"), ("sec", .str "y")]
def vRS : PyVal := .struct "ns.RS" [("r", .str "x"), ("q", .str "y"), ("rsec", .str "z")]

def keysOf : R JVal → Option (List String)
  | .ok (.obj kvs) => some (kvs.map (·.1))
  | _ => none

def isVerrR {α} : R α → Bool
  | .error (.verr _) => true
  | _ => false

end Ex

/-! ### 1. The generated per-caller tables hold exactly the declared members visible to the caller -/

/-- **Field tables.** For any inheritance chain and any caller, the table `encode_struct` /
`decode_struct` assemble from the generated `_all_fields_` and `_all_<p>_fields_` attributes (with
the assignment and attribute-inheritance semantics of the generated reflection code) has exactly
the members of the specification-level table: the fields declared along the chain that are public or
omitted for a caller class the caller holds. When the caller's permissions are listed without
repetition the two tables also have the same length, so nothing is listed twice. -/
theorem fieldsFor_perm (s : StructDef) (perms : List String) :
    (∀ f, f ∈ s.fieldsFor perms ↔ f ∈ s.fieldsSpec perms) ∧
    (nodupS perms = true → (s.fieldsFor perms).length = (s.fieldsSpec perms).length) :=
  ⟨mem_fieldsFor s perms, length_fieldsFor s perms⟩

/-- The table in closed form, order included: the public fields root first, then for each permission
of the caller (in the caller's order) the fields omitted for it, root first. -/
theorem fieldsFor_closed_form (s : StructDef) (perms : List String) :
    s.fieldsFor perms = s.allAttrs.filter (·.omitted == none) ++
      perms.flatMap fun p => s.allAttrs.filter (·.omitted == some p) :=
  fieldsFor_eq s perms

/-- Non-vacuity, on the shape of a past defect: grandparent and child omit for "c", the middle level
does not. The caller holding "c" sees both omitted fields, the caller without sees neither. -/
example : (Ex.s3.fieldsFor ["c"]).map (·.name) = ["a", "b", "d", "gs", "cs"] ∧
    (Ex.s3.fieldsSpec ["c"]).map (·.name) = ["a", "gs", "b", "d", "cs"] ∧
    (Ex.s3.fieldsFor []).map (·.name) = ["a", "b", "d"] ∧
    (Ex.s3.fieldsSpec []).map (·.name) = ["a", "b", "d"] ∧ nodupS ["c"] = true := by decide

/-- A field omitted for `c` is in the table of every caller holding `c`. -/
theorem field_in_table_with_perm (s : StructDef) (perms : List String) (f : FieldDef) (c : String)
    (hf : f ∈ s.allAttrs) (ho : f.omitted = some c) (hc : c ∈ perms) : f ∈ s.fieldsFor perms :=
  mem_fieldsFor_of_perm s perms f c hf ho hc

/-- Under unique field names (`StructDef.wf`), the name of a field omitted for `c` names no entry of
the table of a caller without `c`. -/
theorem field_not_in_table_without_perm (s : StructDef) (perms : List String) (f : FieldDef) (c : String)
    (hnd : nodupS (s.allAttrs.map (·.name)) = true)
    (hf : f ∈ s.allAttrs) (ho : f.omitted = some c) (hc : ¬ c ∈ perms) :
    ¬ f.name ∈ (s.fieldsFor perms).map (·.name) :=
  name_not_in_fieldsFor s perms f c hnd hf ho hc

example : nodupS (Ex.s3.allAttrs.map (·.name)) = true ∧ (Ex.s3.allAttrs.map (·.name)).contains "gs" = true ∧
    ¬ "c" ∈ ([] : List String) := by decide

/-- **Tag tables.** `_is_tag_present(tag, caller_permissions)` answers true exactly when the
specification shows the caller a tag of that name (declared along the chain, public or omitted for a
caller class the caller holds). -/
theorem tagPresent_perm (u : UnionDef) (tag : String) (perms : List String) :
    u.isTagPresent tag perms = true ↔ ∃ t ∈ u.tagsSpec perms, t.name = tag :=
  isTagPresent_iff u tag perms

example : Ex.u3.isTagPresent "gx" ["c"] = true ∧ Ex.u3.isTagPresent "cz" ["c"] = true ∧
    Ex.u3.isTagPresent "gx" [] = false ∧ Ex.u3.isTagPresent "cz" [] = false ∧
    Ex.u3.isTagPresent "y" [] = true := by decide

/-- Under unique tag names (`UnionDef.wf`) a tag omitted for `c` is not present for a caller without
`c`, and it is present for a caller holding `c`. -/
theorem tag_not_present_without_perm (u : UnionDef) (perms : List String) (t : TagDef) (c : String)
    (hnd : nodupS ((u.levels.flatMap (·.tags)).map (·.name)) = true)
    (ht : t ∈ u.levels.flatMap (·.tags)) (ho : t.omitted = some c) (hc : ¬ c ∈ perms) :
    u.isTagPresent t.name perms = false :=
  isTagPresent_false_of_omitted u perms t c hnd ht ho hc

theorem tag_present_with_perm (u : UnionDef) (perms : List String) (t : TagDef) (c : String)
    (ht : t ∈ u.levels.flatMap (·.tags)) (ho : t.omitted = some c) (hc : c ∈ perms) :
    u.isTagPresent t.name perms = true :=
  isTagPresent_of_perm u perms t c ht ho hc

example : nodupS ((Ex.u3.levels.flatMap (·.tags)).map (·.name)) = true := by decide

/-- `Union.__init__` finds a validator for every tag declared along the chain: `_tagmap` together
with the maps named by `_permissioned_tagmaps` cover every caller class that omits a member anywhere
in the chain. -/
theorem ctorValidator_finds_every_tag (u : UnionDef) (t : TagDef) (ht : t ∈ u.levels.flatMap (·.tags)) :
    (u.ctorValidator t.name).isSome = true :=
  ctorValidator_isSome u t ht

example : (Ex.u3.ctorValidator "gx").isSome = true ∧ (Ex.u3.ctorValidator "cz").isSome = true ∧
    (Ex.u3.ctorValidator "y").isSome = true ∧ (Ex.u3.ctorValidator "nope").isSome = false := by decide

/-! ### 2. Omitted members are absent from encodings for callers without the permission

`encode` is one recursive function: every nested struct, list item, map value and union payload is
encoded by a recursive call of `encode` at the member's type, so the statements below, which are
quantified over every type position `t`/value `v`, hold for the object produced at every nesting
depth of an encoding. -/

/-- Every key of the object `encode` produces at a struct type names a field of the caller's table.
The side condition excludes the one way a JSON object can be produced without going through the
field table: the redaction short-cut applied to a Python `dict` that sits where a struct is expected
(an ill-typed value, which redaction does not validate; its keys are copied). -/
theorem struct_keys_in_table (E : Ext) (env : Env) (perms : List String) (redact norm : Bool) (fl : Flags)
    (cls : String) (v : PyVal) (kvs : List (String × JVal)) (s : StructDef)
    (hs : env.struct? cls = some s)
    (hv : redact = false ∨ ∀ d, v ≠ .dict d)
    (h : encode E env perms redact norm (.struct fl cls) v = .ok (.obj kvs)) :
    ∀ k ∈ kvs.map (·.1), k ∈ (s.fieldsFor perms).map (·.name) := by
  rcases encode_struct_inv h with ⟨hr, r, hrv⟩ | ⟨_, _, hj⟩ | ⟨c, slots, s', kvs', _, hs', ha, hj⟩
  · obtain ⟨d, hd⟩ := redactValue_obj_dict hrv
    rcases hv with hv | hv
    · rw [hr] at hv; cases hv
    · exact absurd hd (hv d)
  · cases hj
  · rw [hs] at hs'
    cases hs'
    cases hj
    exact assembleStruct_keys _ _ _ _ ha

/-- **Omitted fields are absent.** A field declared anywhere along the chain and omitted for a caller
class the caller does not hold is not a key of the object encoded at the struct type (unique field
names are part of `StructDef.wf`). Holds for every flag combination and with or without redaction. -/
theorem omitted_absent (E : Ext) (env : Env) (perms : List String) (redact norm : Bool) (fl : Flags)
    (cls : String) (v : PyVal) (kvs : List (String × JVal)) (s : StructDef) (f : FieldDef) (c : String)
    (hs : env.struct? cls = some s)
    (hnd : nodupS (s.allAttrs.map (·.name)) = true)
    (hf : f ∈ s.allAttrs) (ho : f.omitted = some c) (hc : ¬ c ∈ perms)
    (hv : redact = false ∨ ∀ d, v ≠ .dict d)
    (h : encode E env perms redact norm (.struct fl cls) v = .ok (.obj kvs)) :
    ¬ f.name ∈ kvs.map (·.1) := fun hk =>
  name_not_in_fieldsFor s perms f c hnd hf ho hc
    (struct_keys_in_table E env perms redact norm fl cls v kvs s hs hv h f.name hk)

/-- Non-vacuity: the caller without "c" gets only the public key, the caller with "c" gets both. -/
example : Ex.keysOf (encode Ex.E0 Ex.env0 [] false false (.struct {} "ns.S") Ex.v0) = some ["a"] ∧
    Ex.keysOf (encode Ex.E0 Ex.env0 ["c"] false false (.struct {} "ns.S") Ex.v0) = some ["a", "sec"] := by
  decide +kernel

/-- The excluded corner, shown to be real: with redaction requested and a redactor on the validator,
a `dict` placed where the struct is expected is not validated and its keys are copied (the values are
masked). This concerns ill-typed input only; the key is whatever the dict holds. -/
example : Ex.keysOf (encode Ex.E0 Ex.env0 [] true false (.struct { redactInner := some (.blot none) } "ns.S")
    (.dict [(.str "sec", .str "y")])) = some ["sec"] := by decide +kernel

/-- Enumerated-subtypes root: the object is `.tag` followed by fields of the table of the value's own
class for this caller. -/
theorem tree_keys_in_table (E : Ext) (env : Env) (perms : List String) (redact norm : Bool) (fl : Flags)
    (cls : String) (v : PyVal) (kvs : List (String × JVal))
    (hv : redact = false ∨ ∀ d, v ≠ .dict d)
    (h : encode E env perms redact norm (.tree fl cls) v = .ok (.obj kvs)) :
    ∃ c slots sd, v = .struct c slots ∧ env.struct? c = some sd ∧
      ∀ k ∈ kvs.map (·.1), k = ".tag" ∨ k ∈ (sd.fieldsFor perms).map (·.name) := by
  rcases encode_tree_inv h with ⟨hr, r, hrv⟩ | ⟨_, _, hj⟩ | ⟨c, slots, s, tag, sd, kvs', hvv, _, _, hsd, ha, hj⟩
  · obtain ⟨d, hd⟩ := redactValue_obj_dict hrv
    rcases hv with hv | hv
    · rw [hr] at hv; cases hv
    · exact absurd hd (hv d)
  · cases hj
  · refine ⟨c, slots, sd, hvv, hsd, ?_⟩
    cases hj
    intro k hk
    simp only [List.map_cons, List.mem_cons] at hk
    rcases hk with hk | hk
    · exact Or.inl hk
    · exact Or.inr (assembleStruct_keys _ _ _ _ ha k hk)

/-- Omitted fields are absent under an enumerated-subtypes root as well. -/
theorem omitted_absent_tree (E : Ext) (env : Env) (perms : List String) (redact norm : Bool) (fl : Flags)
    (cls c' : String) (slots : List (String × PyVal)) (kvs : List (String × JVal)) (sd : StructDef)
    (f : FieldDef) (c : String)
    (hsd : env.struct? c' = some sd)
    (hnd : nodupS (sd.allAttrs.map (·.name)) = true) (hdot : f.name ≠ ".tag")
    (hf : f ∈ sd.allAttrs) (ho : f.omitted = some c) (hc : ¬ c ∈ perms)
    (h : encode E env perms redact norm (.tree fl cls) (.struct c' slots) = .ok (.obj kvs)) :
    ¬ f.name ∈ kvs.map (·.1) := by
  intro hk
  obtain ⟨c2, slots2, sd2, hvv, hsd2, hkeys⟩ :=
    tree_keys_in_table E env perms redact norm fl cls _ kvs (Or.inr (fun d hd => by cases hd)) h
  cases hvv
  rw [hsd] at hsd2
  cases hsd2
  rcases hkeys f.name hk with h1 | h1
  · exact hdot h1
  · exact name_not_in_fieldsFor sd perms f c hnd hf ho hc h1

example : Ex.keysOf (encode Ex.E0 Ex.env0 [] false false (.tree {} "ns.R") Ex.vRS) = some [".tag", "r", "q"] ∧
    Ex.keysOf (encode Ex.E0 Ex.env0 ["c"] false false (.tree {} "ns.R") Ex.vRS) = some [".tag", "r", "q", "rsec"] := by
  decide +kernel

/-- Union values: the tag written under `.tag` is present for the caller, the member's type is that
of a tag the specification shows the caller, and every key is `.tag`, the tag itself, or (struct-valued
member, flattened) a field of the member struct's table for this caller. -/
theorem union_keys_in_table (E : Ext) (env : Env) (perms : List String) (redact norm : Bool) (fl : Flags)
    (cls c tag : String) (payload : PyVal) (kvs : List (String × JVal)) (u : UnionDef)
    (hu : env.union? cls = some u)
    (hv : redact = false ∨ ∀ d, payload ≠ .dict d)
    (h : encode E env perms redact norm (.union fl cls) (.union c tag payload) = .ok (.obj kvs)) :
    u.isTagPresent tag perms = true ∧
    (∃ t ∈ u.tagsSpec perms, t.name = tag ∧ u.valDataType tag perms = some t.ty) ∧
    ∀ k ∈ kvs.map (·.1), k = ".tag" ∨ k = tag ∨
      ∃ fl' sc sd, u.valDataType tag perms = some (.struct fl' sc) ∧ env.struct? sc = some sd ∧
        k ∈ (sd.fieldsFor perms).map (·.name) := by
  rcases encode_union_inv h with ⟨_, r, hrv⟩ | ⟨_, _, hj⟩ | ⟨c2, tag2, payload2, u2, ft, hvv, hu2, hpres, hft, hcases⟩
  · obtain ⟨d, hd⟩ := redactValue_obj_dict hrv
    cases hd
  · cases hj
  · cases hvv
    rw [hu] at hu2
    cases hu2
    refine ⟨hpres, ?_, ?_⟩
    · obtain ⟨t, ht, hn, hty⟩ := valDataType_spec u tag perms ft hft
      exact ⟨t, ht, hn, by rw [hft, hty]⟩
    · rcases hcases with hj | ⟨j', hj', ⟨fl', sc, kvs', hftS, hjo, hj⟩ | hj⟩
      · cases hj
        intro k hk
        simp at hk
        exact Or.inl hk
      · cases hj
        subst hftS hjo
        intro k hk
        simp only [List.map_cons, List.mem_cons] at hk
        rcases hk with hk | hk
        · exact Or.inl hk
        · right; right
          rcases encode_struct_inv hj' with ⟨hr, r, hrv⟩ | ⟨_, _, hjn⟩ | ⟨c3, slots, s', kvs3, _, hs', ha, hj3⟩
          · obtain ⟨d, hd⟩ := redactValue_obj_dict hrv
            rcases hv with hv | hv
            · rw [hr] at hv; cases hv
            · exact absurd hd (hv d)
          · cases hjn
          · cases hj3
            exact ⟨fl', sc, s', hft, hs', assembleStruct_keys _ _ _ _ ha k hk⟩
      · cases hj
        intro k hk
        simp at hk
        rcases hk with hk | hk
        · exact Or.inl hk
        · exact Or.inr (Or.inl hk)

example : Ex.keysOf (encode Ex.E0 Ex.env0 [] false false (.union {} "ns.U") (.union "ns.U" "st" Ex.v0))
      = some [".tag", "a"] ∧
    Ex.keysOf (encode Ex.E0 Ex.env0 ["c"] false false (.union {} "ns.U") (.union "ns.U" "st" Ex.v0))
      = some [".tag", "a", "sec"] := by decide +kernel

/-! ### 3. A union value whose tag the caller may not see is refused -/

/-- **Omitted tags are refused.** Encoding a union value whose tag is not present for the caller is a
validation error, whatever the payload, unless redaction replaces the whole value (then the output is
the mask or hash and the tag does not appear either, see `redacted_outer`). -/
theorem omitted_tag_refused (E : Ext) (env : Env) (perms : List String) (redact norm : Bool) (fl : Flags)
    (cls c tag : String) (payload : PyVal) (u : UnionDef)
    (hu : env.union? cls = some u) (hp : u.isTagPresent tag perms = false)
    (hnr : redact = false ∨ (fl.redactInner = none ∧ (fl.nullable = true → fl.redactOuter = none))) :
    ∃ hint, encode E env perms redact norm (.union fl cls) (.union c tag payload) = .error (.verr hint) :=
  encode_union_tag_absent E env perms redact norm fl cls c tag payload u hu hp hnr

/-- With unique tag names: a tag omitted for a caller class the caller does not hold is refused. -/
theorem omitted_tag_refused_of_omitted (E : Ext) (env : Env) (perms : List String) (redact norm : Bool)
    (fl : Flags) (cls c : String) (payload : PyVal) (u : UnionDef) (t : TagDef) (p : String)
    (hu : env.union? cls = some u)
    (hnd : nodupS ((u.levels.flatMap (·.tags)).map (·.name)) = true)
    (ht : t ∈ u.levels.flatMap (·.tags)) (ho : t.omitted = some p) (hc : ¬ p ∈ perms)
    (hnr : redact = false ∨ (fl.redactInner = none ∧ (fl.nullable = true → fl.redactOuter = none))) :
    ∃ hint, encode E env perms redact norm (.union fl cls) (.union c t.name payload) = .error (.verr hint) :=
  omitted_tag_refused E env perms redact norm fl cls c t.name payload u hu
    (isTagPresent_false_of_omitted u perms t p hnd ht ho hc) hnr

example : Ex.isVerrR (encode Ex.E0 Ex.env0 [] false false (.union {} "ns.U") (.union "ns.U" "hid" .none)) = true ∧
    Ex.keysOf (encode Ex.E0 Ex.env0 ["c"] false false (.union {} "ns.U") (.union "ns.U" "hid" .none))
      = some [".tag"] := by decide +kernel

/-! ### 4. Strict decoding refuses members the caller may not supply -/

/-- Strict `decode_struct`: an object member whose key is not a field of the caller's table (and does
not start with ".tag") is a validation error. -/
theorem unknown_rejected_strict (E : Ext) (env : Env) (perms : List String) (cls : String) (s : StructDef)
    (kvs : List (String × JVal)) (children : List (String × R PyVal)) (hs : env.struct? cls = some s)
    (k : String) (x : JVal) (hk : (k, x) ∈ kvs)
    (hnot : ¬ k ∈ (s.fieldsFor perms).map (·.name)) (htag : k.startsWith ".tag" = false) :
    finishStruct E env perms true cls kvs children = .error (.verr "unknown field") :=
  finishStruct_unknown E env perms cls s kvs children hs k x hk hnot htag

/-- **Omitted fields cannot be supplied in strict mode.** Decoding, at a struct type, an object that
has a member named like a field omitted for a caller class the caller does not hold is a validation
error. (`StructDef.wf` gives unique names and names that do not start with "."; `fl` arbitrary.) -/
theorem omitted_rejected_strict (E : Ext) (env : Env) (perms : List String) (fl : Flags) (cls : String)
    (s : StructDef) (kvs : List (String × JVal)) (f : FieldDef) (c : String) (x : JVal)
    (hs : env.struct? cls = some s)
    (hnd : nodupS (s.allAttrs.map (·.name)) = true) (hdot : f.name.startsWith "." = false)
    (hf : f ∈ s.allAttrs) (ho : f.omitted = some c) (hc : ¬ c ∈ perms)
    (hk : (f.name, x) ∈ kvs) :
    decode E env perms true (.struct fl cls) (.obj kvs) = .error (.verr "unknown field") := by
  rw [decode_struct_obj]
  exact finishStruct_unknown E env perms cls s kvs _ hs f.name x hk
    (name_not_in_fieldsFor s perms f c hnd hf ho hc) (not_startsWith_tag_of_not_startsWith_dot _ hdot)

/-- the same from `StructDef.wf` -/
theorem omitted_rejected_strict_wf (E : Ext) (env : Env) (perms : List String) (fl : Flags) (cls : String)
    (s : StructDef) (kvs : List (String × JVal)) (f : FieldDef) (c : String) (x : JVal)
    (hs : env.struct? cls = some s) (hwf : s.wf env = true)
    (hf : f ∈ s.allAttrs) (ho : f.omitted = some c) (hc : ¬ c ∈ perms)
    (hk : (f.name, x) ∈ kvs) :
    decode E env perms true (.struct fl cls) (.obj kvs) = .error (.verr "unknown field") := by
  simp only [StructDef.wf, Bool.and_eq_true] at hwf
  have hnd := hwf.1.1.1.1.2
  have hall := hwf.1.1.1.2
  rw [List.all_eq_true] at hall
  have hfw := hall f hf
  simp only [Bool.and_eq_true, Bool.not_eq_true'] at hfw
  exact omitted_rejected_strict E env perms fl cls s kvs f c x hs hnd hfw.1 hf ho hc hk

example : Ex.isVerrR (decode Ex.E0 Ex.env0 [] true (.struct {} "ns.S")
      (.obj [("a", .str "x"), ("sec", .str "y")])) = true ∧
    Ex.isVerrR (decode Ex.E0 Ex.env0 ["c"] true (.struct {} "ns.S")
      (.obj [("a", .str "x"), ("sec", .str "y")])) = false ∧
    Ex.isVerrR (decode Ex.E0 Ex.env0 [] true (.struct {} "ns.S") (.obj [("a", .str "x")])) = false := by
  decide +kernel

example : Ex.sS.wf Ex.env0 = true ∧ Ex.env0.struct? "ns.S" = some Ex.sS := by
  constructor
  · decide +kernel
  · rfl

/-! ### 5. Omitted members are present for callers holding the permission -/

/-- **Present with the permission.** If the caller holds `c`, a field omitted for `c` whose slot is
set to a value other than None is a key of the object encoded at the struct type. -/
theorem present_with_perm (E : Ext) (env : Env) (perms : List String) (redact norm : Bool) (fl : Flags)
    (cls c' : String) (slots : List (String × PyVal)) (kvs : List (String × JVal)) (s : StructDef)
    (f : FieldDef) (c : String) (x : PyVal)
    (hs : env.struct? cls = some s)
    (hf : f ∈ s.allAttrs) (ho : f.omitted = some c) (hc : c ∈ perms)
    (hx : lookupSlot f.name slots = some x) (hnn : isNone x = false)
    (h : encode E env perms redact norm (.struct fl cls) (.struct c' slots) = .ok (.obj kvs)) :
    f.name ∈ kvs.map (·.1) := by
  have hft := mem_fieldsFor_of_perm s perms f c hf ho hc
  rcases encode_struct_inv h with ⟨_, r, hrv⟩ | ⟨_, _, hj⟩ | ⟨c3, slots3, s', kvs3, hvv, hs', ha, hj⟩
  · obtain ⟨d, hd⟩ := redactValue_obj_dict hrv
    cases hd
  · cases hj
  · cases hvv
    cases hj
    rw [hs] at hs'
    cases hs'
    exact assembleStruct_has_key _ _ _ _ ha f hft
      (lookupEnc_encodeSlots_isSome E env perms redact _ _ f hft x hx hnn)

/-- the same under an enumerated-subtypes root -/
theorem present_with_perm_tree (E : Ext) (env : Env) (perms : List String) (redact norm : Bool) (fl : Flags)
    (cls c' : String) (slots : List (String × PyVal)) (kvs : List (String × JVal)) (sd : StructDef)
    (f : FieldDef) (c : String) (x : PyVal)
    (hsd : env.struct? c' = some sd)
    (hf : f ∈ sd.allAttrs) (ho : f.omitted = some c) (hc : c ∈ perms)
    (hx : lookupSlot f.name slots = some x) (hnn : isNone x = false)
    (h : encode E env perms redact norm (.tree fl cls) (.struct c' slots) = .ok (.obj kvs)) :
    f.name ∈ kvs.map (·.1) := by
  have hft := mem_fieldsFor_of_perm sd perms f c hf ho hc
  rcases encode_tree_inv h with ⟨_, r, hrv⟩ | ⟨_, _, hj⟩ | ⟨c3, slots3, s, tag, sd', kvs3, hvv, _, _, hsd', ha, hj⟩
  · obtain ⟨d, hd⟩ := redactValue_obj_dict hrv
    cases hd
  · cases hj
  · cases hvv
    cases hj
    rw [hsd] at hsd'
    cases hsd'
    simp only [List.map_cons, List.mem_cons]
    exact Or.inr (assembleStruct_has_key _ _ _ _ ha f hft
      (lookupEnc_encodeSlots_isSome E env perms redact _ _ f hft x hx hnn))

/-- Non-vacuity is the second halves of the examples in section 2 ("sec" / "rsec" are keys for the
caller holding "c"); the hypotheses on the slot: -/
example : lookupSlot "sec" [("a", PyVal.str "x"), ("sec", .str "y")] = some (.str "y") ∧
    isNone (.str "y") = false := ⟨by simp [lookupSlot], rfl⟩

end StoneVerif.C13
