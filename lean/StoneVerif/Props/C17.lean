import StoneVerif.Lemmas.DeclSwift3
/-!
C17 -- the Swift and Objective-C backends: what is declared, exactly once, and every user-type name that is used is
declared.

The theorems are about `StoneVerif.DeclSwift` (Model/DeclSwift.lean), the declaration-level model of
`swift_types`, `swift_types --objc`, `swift_client`, `swift_client --objc`, `obj_c_types`, `obj_c_client`; the model is
tied to the Python by the `decl.swift.*` correspondence suites (every naming function, every type mapper, the
declaration lists of the six invocations on generated specs).

* `*_refs_closed` (one per type mapper, by induction on the type expression): a mapper names no user type outside
  `userTypes t`;
* `refs_mentioned`: every user-type reference of every declaration of every backend names a type that the API
  description mentions (a field type along the parent chain, a parent, an enumerated subtype, a route type, a tag
  default);
* `refs_closed`: with the closure invariant `ApiWF` every such reference is the name of a declaration of the Swift
  (resp. Objective-C) type backends -- "uses no user-type name that it does not declare";
* `covers` / `decl_once`: every namespace, struct, union, field, tag, serializer and route object has its declaration
  in the type backends, and exactly one when the naming scheme is injective on the API (`nameInjective`, decidable);
* `decl_unique`: under `nameInjective` no declaration of any of the six outputs is repeated.

Partial (see the notes beside the theorems): lexical well-formedness of the emitted text is not a theorem (scanned
on every emitted file by the harness); `itemKeys` lists the items of the three type backends -- for the client
backends the per-route coverage is `route_covered_swiftClient_partial`; the bodies of `.m` files are not modelled.
-/
namespace StoneVerif.C17
open StoneVerif StoneVerif.DeclSwift

/-! ## The literal tables and format strings the model was written from -/

theorem tables_pinned :
    Tables.swiftFmtTypeStrings = ["{}.{}", "<{}>", "<{}, {}>", "?"] ∧
    Tables.swiftFmtObjcTypeStrings = ["DBX{}{}", "<{}>", "<String, {}>", "?"] ∧
    Tables.swiftFmtSerialTypeStrings = ["{}.{}Serializer", "<{}>", "<{}, {}>", "NullableSerializer"] ∧
    Tables.swiftFmtSerialObjStrings =
      ["{}.{}Serializer()", "({})", "({})", "(\"{}\")", "Serialization._{}", "NullableSerializer({})"] ∧
    Tables.swiftFmtFuncStrings = ["{}_v{}"] ∧
    Tables.swiftFormatCamelcaseStrings = ["", "_"] ∧
    Tables.objcFmtCamelStrings = ["", "_", "d", "D"] ∧
    Tables.objcFmtClassPrefixStrings = ["DB{}{}"] ∧
    Tables.objcFmtEnumNameStrings = ["DB{}{}{}"] ∧
    Tables.objcFmtTypeStrings = ["{}", "{} *", "<{}>", "<{}> *", "<NSString *, {}>", "<NSString *, {}> *", "nullable "] ∧
    Tables.objcFmtSerialClassStrings = ["{}Serializer"] ∧
    Tables.objcFmtRouteObjClassStrings = ["DB{}RouteObjects"] ∧
    Tables.objcFmtRoutesClassStrings = ["noauth", "user", "DB{}{}AuthRoutes"] ∧
    Tables.objcFmtRouteVarStrings = ["DB{}{}", "{}V{}"] ∧
    Tables.objcFmtRouteFuncStrings = ["{}V{}"] ∧
    Tables.objcReservedPrefixes = ["copy", "new"] ∧
    Tables.swiftSplitWordsCapitalizationRe = "^[a-z0-9]+|[A-Z][a-z0-9]+|[A-Z]+(?=[A-Z][a-z0-9])|[A-Z]+$" ∧
    Tables.swiftSplitWordsDashesRe = "[-_/]+" := by decide

/-- the primitive tables cover the same IR classes, and every generated Swift name for a primitive is one word -/
theorem tables_consistent :
    Tables.swiftTypeTable.map (·.1) = Tables.swiftObjcTypeTable.map (·.1) ∧
    Tables.swiftTypeTable.map (·.1) = Tables.swiftSerialTypeTable.map (·.1) ∧
    Tables.swiftTypeTable.map (·.1) = Tables.objcPrimitiveTable.map (·.1) ∧
    (Tables.objcSerialTable.map (·.1)).all (Tables.objcPrimitiveTable.map (·.1)).contains = true ∧
    (Tables.swiftTypeTable.map (·.1)).contains "User" = false ∧
    (Tables.swiftTypeTable.map (·.1)).contains "Alias" = false := by decide

/-! ## The type mappers name only user types of the type they format -/

theorem swType_refs_closed (t : Ty) : ∀ r ∈ (swType t).refs, ∀ q, r.typeQ? = some q → q ∈ t.userTypes :=
  swType_refs t

theorem swObjcType_refs_closed (t : Ty) (allowNullable : Bool) :
    ∀ r ∈ (swObjcType t allowNullable).refs, ∀ q, r.typeQ? = some q → q ∈ t.userTypes :=
  swObjcType_refs t allowNullable

theorem swSerialType_refs_closed (t : Ty) : ∀ r ∈ (swSerialType t).refs, ∀ q, r.typeQ? = some q → q ∈ t.userTypes :=
  swSerialType_refs t

theorem swSerialObj_refs_closed (t : Ty) : ∀ r ∈ (swSerialObj t).refs, ∀ q, r.typeQ? = some q → q ∈ t.userTypes :=
  swSerialObj_refs t

theorem ocType_refs_closed (t : Ty) (tag hasDefault noPtr isProp : Bool) :
    ∀ r ∈ (ocType t tag hasDefault noPtr isProp).refs, ∀ q, r.typeQ? = some q → q ∈ t.userTypes :=
  ocType_refs t tag hasDefault noPtr isProp

theorem ocClassType_refs_closed (t : Ty) (suppressPtr : Bool) :
    ∀ r ∈ (ocClassType t suppressPtr).refs, ∀ q, r.typeQ? = some q → q ∈ t.userTypes :=
  ocClassType_refs t suppressPtr

theorem ocSerialObj_refs_closed (t : Ty) : ∀ r ∈ (ocSerialObj t).refs, ∀ q, r.typeQ? = some q → q ∈ t.userTypes :=
  ocSerialObj_refs t

theorem ocValidator_refs_closed (t : Ty) : ∀ r ∈ (ocValidator t).refs, r.typeQ? = none :=
  tableOr_refs _ t _

/-- a name that no declaration stands behind (`TRef.raw`) is printed only for an alias that survived
`remove_aliases_from_api`: without aliases every reference of `fmt_type` is a user-type reference -/
theorem swType_no_raw (t : Ty) (h : t.hasAlias = false) : ∀ r ∈ (swType t).refs, ∃ q, r = .swType q := by
  have lit_refs : ∀ (tbl : List (String × String)) (t : Ty) (f : String → String), t.hasAlias = false →
      (∀ q, t ≠ .alias q) → (tableOr tbl t f).refs = [] := by
    intro tbl t f _ hne
    unfold tableOr
    split
    · rfl
    · split
      · exact absurd rfl (hne _)
      · rfl
  induction t with
  | prim c => intro r hr; simp [swType, lit_refs _ _ _ h (by intro q; simp)] at hr
  | ts f => intro r hr; simp [swType, lit_refs _ _ _ h (by intro q; simp)] at hr
  | alias q0 => simp [Ty.hasAlias] at h
  | user q0 => intro r hr; simp [swType, TExpr.refs] at hr; exact ⟨q0, hr⟩
  | list e ih =>
    intro r hr; simp [swType, refs_cat, TExpr.refs] at hr; exact ih (by simpa [Ty.hasAlias] using h) r hr
  | map k v ihk ihv =>
    intro r hr
    simp [Ty.hasAlias] at h
    simp [swType, refs_cat, TExpr.refs] at hr
    rcases hr with hr | hr
    · exact ihk h.1 r hr
    · exact ihv h.2 r hr
  | nullable t ih =>
    intro r hr
    by_cases hn : ∃ t1, t = .nullable t1
    · obtain ⟨t1, rfl⟩ := hn
      rw [swType.eq_1, refs_cat] at hr
      have hz : (tableOr Tables.swiftTypeTable t1.nullable swClass).refs = [] :=
        lit_refs _ _ _ (by simpa [Ty.hasAlias] using h) (by intro q hq; cases hq)
      simp [TExpr.refs, hz] at hr
    · rw [swType.eq_2 _ (fun t1 h => hn ⟨t1, h⟩), refs_cat] at hr
      simp only [TExpr.refs, List.append_nil] at hr
      exact ih (by simpa [Ty.hasAlias] using h) r hr

/-! ## Declarations -/

/-- every user-type reference of every declaration, in each of the six outputs, names a type that the API description
mentions -/
theorem refs_mentioned (b : Backend) (api : Api) (o : Options) :
    ∀ d ∈ declsOf b api o, ∀ r ∈ d.refs, ∀ q, r.typeQ? = some q → q ∈ mentioned api :=
  declsOf_AllM b api o

/-- "uses no user-type name that it does not declare": with the closure invariant of an accepted specification every
user-type reference (Swift `Ns.T`, `Ns.TSerializer`, `DBXNsT`; Objective-C `DBNST`, `DBNSTSerializer`) of every
declaration is the name of a declaration of the type backends of the same language -/
theorem refs_closed (b : Backend) (api : Api) (o : Options) (wf : ApiWF api) :
    ∀ d ∈ declsOf b api o, ∀ r ∈ d.refs, ∀ k, r.typeQ?.isSome → r.target? = some k →
      k ∈ (swiftUniverse api ++ objcUniverse api).map Decl.nkey := by
  intro d hd r hr k hq hk
  obtain ⟨q, hq⟩ := Option.isSome_iff_exists.mp hq
  have hm := refs_mentioned b api o d hd r hr q hq
  have hdecl := wf q hm
  obtain ⟨t, ht⟩ := Option.isSome_iff_exists.mp hdecl
  simp only [swiftUniverse, objcUniverse, List.map_append, List.mem_append]
  cases r <;> simp [TRef.typeQ?] at hq <;> subst hq <;> simp [TRef.target?] at hk <;> subst hk
  · exact Or.inl (Or.inl (swiftTypes_declares ht).1)
  · exact Or.inl (Or.inl (swiftTypes_declares ht).2)
  · exact Or.inl (Or.inr (swiftTypesObjc_declares ht))
  · exact Or.inr (objcTypes_declares ht).1
  · exact Or.inr (objcTypes_declares ht).2

/-- coverage: every namespace, struct, union, field, tag, serializer and route object of the API has its declaration
in the output of the type backends -/
theorem covers (b : Backend) (api : Api) (o : Options) :
    ∀ k ∈ itemKeys b api, k ∈ (declsOf b api o).map Decl.key :=
  DeclSwift.covers b api o

/-- each item is declared exactly once when the naming scheme is injective on the names of the API -/
theorem decl_once (b : Backend) (api : Api) (o : Options) (inj : nameInjective b api o) :
    ∀ k ∈ itemKeys b api, ((declsOf b api o).filter fun d => decide (d.key = k)).length = 1 :=
  fun k hk => count_one_of_nodup Decl.key _ k inj (covers b api o k hk)

/-- under `nameInjective` no declaration of the output (whatever the backend) is repeated -/
theorem decl_unique (b : Backend) (api : Api) (o : Options) (inj : nameInjective b api o) :
    ∀ d ∈ declsOf b api o, ((declsOf b api o).filter fun d' => decide (d'.key = d.key)).length = 1 :=
  fun d hd => count_one_of_nodup Decl.key _ d.key inj (List.mem_map_of_mem hd)

/-- coverage for the Swift client: every route that is valid for the auth type has its function in the routes class
of its namespace (one per client-argument variant of its style).
PARTIAL: `itemKeys` (and with it `decl_once`) lists the items of the three type backends only. For the client backends
"exactly once" means once per (route, client-argument variant) -- overloads share the function name -- which is
checked on the real output by the declaration scanner (expected multiplicities) but not stated as a theorem; the
Objective-C client methods (`obj_c_client`) and the request wrapper classes are covered by the correspondence suite
only. -/
theorem route_covered_swiftClient_partial (api : Api) (o : Options) :
    ∀ ns ∈ api.nss, ∀ r ∈ validRoutes o ns, o.variants r.style ≠ [] →
      ("", "func", [swRoutesClassName ns.name (isApp o)], swFunc r.name r.version) ∈
        (swiftClientDecls api o).map Decl.key := by
  intro ns hns r hr hv
  obtain ⟨v, hvm⟩ := List.exists_mem_of_ne_nil _ hv
  have hne : (validRoutes o ns).isEmpty = false := by
    cases h : validRoutes o ns with
    | nil => simp [h] at hr
    | cons a b => rfl
  have hf : ("", "func", [swRoutesClassName ns.name (isApp o)], swFunc r.name r.version) ∈
      (swClientFuncs api o ns).map Decl.key := by
    simp only [swClientFuncs, List.map_flatMap, List.map_map, List.mem_flatMap, List.mem_map]
    exact ⟨r, hr, v, hvm, by simp [Decl.key]⟩
  obtain ⟨d, hd, hk⟩ := List.mem_map.mp hf
  refine List.mem_map.mpr ⟨d, ?_, hk⟩
  simp only [swiftClientDecls, List.mem_append, List.mem_flatMap]
  refine Or.inl (Or.inl ⟨ns, hns, ?_⟩)
  simp only [swClientNsDecls, hne, Bool.false_eq_true, ↓reduceIte, List.mem_cons]
  exact Or.inr hd

/-- an invocation either stops with the explicit error or declares `declsOf` -/
theorem decls_eq (b : Backend) (api : Api) (o : Options) :
    decls b api o = (match crash b api o with
      | some e => .error e
      | none => .ok (declsOf b api o)) := rfl

/-- `swift_types` has no input on which the model stops -/
theorem swiftTypes_total (api : Api) (o : Options) : decls .swiftTypes api o = .ok (swiftTypesDecls api) := rfl

/-- neither has `swift_types --objc` (it had one, D18, until `ObjcTypes.jinja` read the value type of a map) -/
theorem swiftTypesObjc_total (api : Api) (o : Options) :
    decls .swiftTypesObjc api o = .ok (swiftTypesObjcDecls api) := rfl

/-! ## Non-vacuity: a sample API on which the hypotheses hold and the conclusions say something -/

/-- two namespaces; inheritance with enumerated subtypes, a cross-namespace reference, a nullable list, a map, a
union with a foreign payload and a tag default, three routes (one in a second version) -/
def sampleApi : Api :=
  { nss := [
    { name := "common",
      types := [
        .struct { name := "Account", fields := [⟨"account_id", .prim "String", false, none⟩,
                                                 ⟨"reason", .user ⟨"common", "Reason"⟩, true, some (⟨"common", "Reason"⟩, "other")⟩] },
        .union { name := "Reason", fields := [⟨"bad_thing", .prim "Void", false, none⟩,
                                               ⟨"worse_thing", .prim "Int64", false, none⟩,
                                               ⟨"other", .prim "Void", false, none⟩] } ] },
    { name := "files",
      types := [
        .struct { name := "Metadata", fields := [⟨"name", .prim "String", false, none⟩],
                  subtypes := some [("file", ⟨"files", "FileMetadata"⟩), ("folder", ⟨"files", "FolderMetadata"⟩)],
                  catchAll := true },
        .struct { name := "FileMetadata", parent := some ⟨"files", "Metadata"⟩,
                  fields := [⟨"size", .prim "UInt64", true, none⟩,
                             ⟨"owner", .nullable (.user ⟨"common", "Account"⟩), false, none⟩,
                             ⟨"tags", .list (.nullable (.prim "String")), false, none⟩] },
        .struct { name := "FolderMetadata", parent := some ⟨"files", "Metadata"⟩,
                  fields := [⟨"children", .list (.user ⟨"files", "Metadata"⟩), false, none⟩,
                             ⟨"props", .map (.prim "String") (.user ⟨"common", "Account"⟩), false, none⟩] },
        .union { name := "LookupError", fields := [⟨"not_found", .prim "Void", false, none⟩,
                                                    ⟨"denied", .user ⟨"common", "Reason"⟩, false, none⟩,
                                                    ⟨"other", .prim "Void", false, none⟩] } ],
      routes := [
        { name := "get_metadata", arg := .user ⟨"files", "FileMetadata"⟩, result := .user ⟨"files", "Metadata"⟩,
          error := .user ⟨"files", "LookupError"⟩, style := some "rpc", auth := some "user" },
        { name := "get_metadata", version := 2, arg := .user ⟨"files", "FileMetadata"⟩,
          result := .user ⟨"files", "FolderMetadata"⟩, style := some "download", auth := some "app, user" },
        { name := "upload", result := .user ⟨"files", "FileMetadata"⟩, error := .user ⟨"files", "LookupError"⟩,
          deprecated := true, style := some "upload", auth := some "user" } ] } ] }

def sampleOpts : Options :=
  { className := "ApiClientBase", transport := "ApiTransportClient", moduleName := "ApiBase", auth := none,
    clientArgs := [("upload", [{ reqKey := "upload", extra := [("input", ".data(input)", "Data")] }]),
                   ("download", [{ reqKey := "download_file", extra := [("destination", "destination", "URL")] },
                                 { reqKey := "download_memory" }])],
    styleToRequest := [("rpc", "RpcRequest"), ("upload", "UploadRequest"), ("download_file", "DownloadRequestFile"),
                       ("download_memory", "DownloadRequestMemory")] }

/-- a small API for the quadratic `Nodup` checks (the kernel compares strings byte by byte) -/
def miniApi : Api :=
  { nss := [
    { name := "files",
      types := [
        .struct { name := "Entry", fields := [⟨"path_lower", .prim "String", false, none⟩,
                                               ⟨"kind", .user ⟨"files", "EntryKind"⟩, true, some (⟨"files", "EntryKind"⟩, "file")⟩] },
        .union { name := "EntryKind", fields := [⟨"file", .prim "Void", false, none⟩,
                                                  ⟨"folder", .prim "Int64", false, none⟩] } ],
      routes := [
        { name := "get_entry", arg := .user ⟨"files", "Entry"⟩, result := .user ⟨"files", "Entry"⟩,
          error := .user ⟨"files", "EntryKind"⟩, style := some "rpc", auth := some "user" },
        { name := "get_entry", version := 2, arg := .user ⟨"files", "Entry"⟩, style := some "upload",
          auth := some "user" } ] } ] }

example : ApiWF sampleApi := by decide +kernel
example : (mentioned sampleApi).length = 23 := by decide +kernel
example : ApiWF miniApi := by decide +kernel
example : nameInjective .swiftTypes miniApi sampleOpts := by decide +kernel
example : nameInjective .swiftTypesObjc miniApi sampleOpts := by decide +kernel
example : nameInjective .objcTypes miniApi sampleOpts := by decide +kernel
example : nameInjective .swiftClient miniApi sampleOpts := by decide +kernel
example : (validRoutes sampleOpts (miniApi.nss.headD default)).length = 2 ∧ sampleOpts.variants (some "upload") ≠ [] := by
  decide +kernel
example : (itemKeys .swiftTypes miniApi).length = 11 := by decide +kernel
example : (itemKeys .swiftTypes sampleApi).length = 31 := by decide +kernel
example : (itemKeys .objcTypes sampleApi).length = 44 := by decide +kernel
example : crash .swiftTypesObjc sampleApi sampleOpts = none := by decide +kernel
example : crash .swiftClientObjc sampleApi sampleOpts = none := by decide +kernel

/-- the references of the Swift class of `FileMetadata`: its parent, the foreign `Account` of a nullable field and of
the inherited initialiser, nothing else -/
example : ((swiftTypesDecls sampleApi).filter fun d => d.name == "FileMetadata").map (fun d => d.refs.map TRef.text) =
    [["Files.Metadata", "Common.Account", "Common.Account"]] := by decide +kernel

example : (swType (.map (.prim "String") (.list (.nullable (.user ⟨"team_log", "HTTPCode"⟩))))).render =
    "Dictionary<String, Array<TeamLog.HttpCode?>>" := by decide +kernel
example : (swObjcType (.list (.nullable (.user ⟨"files", "Metadata"⟩)))).render = "Array<DBXFilesMetadata>" := by decide +kernel
example : (swSerialObj (.nullable (.list (.ts "%Y-%m-%d")))).render =
    "NullableSerializer(ArraySerializer(NSDateSerializer(\"%Y-%m-%d\")))" := by decide +kernel
example : (ocType (.map (.prim "String") (.nullable (.user ⟨"files", "copy_ref"⟩))) true true).render =
    "nullable NSDictionary<NSString *, DBFILESDCopyRef *> *" := by decide +kernel

/-! ## Where Python raises: explicit error results -/

/-- D18 (repaired): a `Map` field whose value type enumerates subtypes used to stop `swift_types --objc`
(`ObjcTypes.jinja` read `field.data_type.data_type` of a `Map`); kept as a regression witness: it completes, and the
wrapper of the holder names the wrapper of the value type -/
def d18Api : Api :=
  { nss := [{ name := "files",
              types := [.struct { name := "Base", subtypes := some [("leaf", ⟨"files", "Leaf"⟩)] },
                        .struct { name := "Leaf", parent := some ⟨"files", "Base"⟩ },
                        .struct { name := "Holder",
                                  fields := [⟨"by_name", .map (.prim "String") (.user ⟨"files", "Base"⟩), false, none⟩] }] }] }

example : crash .swiftTypesObjc d18Api sampleOpts = none := by decide +kernel
example : ((swiftTypesObjcDecls d18Api).filter fun d => d.name == "DBXFilesHolder").map (fun d => d.refs.map TRef.text) =
    [["Files.Holder", "DBXFilesBase", "DBXFilesBase"]] := by decide +kernel
example : crash .swiftTypes d18Api sampleOpts = none := by decide +kernel
example : ApiWF d18Api := by decide +kernel

/-! ## Where the naming schemes are NOT injective (`nameInjective` is a genuine hypothesis) -/

/-- names that differ only in case / underscores collapse -/
example : swVar "foo_bar" = swVar "fooBar" := by decide +kernel
example : ocVar "foo_bar" = ocVar "fooBar" := by decide +kernel
/-- a route `get_file` in version 2 and a route `get_file_v2` -/
example : swFunc "get_file" 2 = swFunc "get_file_v2" 1 := by decide +kernel
/-- flat Objective-C compatible names: `DBX` + namespace + type is a concatenation -/
example : (TRef.swWrap ⟨"foo", "BarBaz"⟩).text = (TRef.swWrap ⟨"foo_bar", "Baz"⟩).text := by decide +kernel
/-- the wrapper class of a union tag and the wrapper of a type called <Union><Tag> -/
example : (TRef.swTag ⟨"files", "Status"⟩ "error").text = (TRef.swWrap ⟨"files", "StatusError"⟩).text := by decide +kernel
/-- a union tag called `tag`: the enum constant is the name of the enum type itself -/
example : (TRef.ocTagConst ⟨"files", "Status"⟩ "tag").text = (TRef.ocTagEnum ⟨"files", "Status"⟩).text := by decide +kernel

def dupFieldsApi : Api :=
  { nss := [{ name := "files", types := [.struct { name := "S", fields := [⟨"foo_bar", .prim "String", false, none⟩,
                                                                           ⟨"fooBar", .prim "String", false, none⟩] }] }] }

example : ¬ nameInjective .swiftTypes dupFieldsApi sampleOpts := by decide +kernel
example : ¬ nameInjective .objcTypes dupFieldsApi sampleOpts := by decide +kernel

/-- without the closure invariant the conclusion of `refs_closed` fails: a field of an unregistered type -/
def openApi : Api :=
  { nss := [{ name := "files", types := [.struct { name := "S", fields := [⟨"x", .user ⟨"gone", "T"⟩, false, none⟩] }] }] }

example : ¬ ApiWF openApi := by decide +kernel
example : ("", ["Gone"], "T") ∉ (swiftUniverse openApi ++ objcUniverse openApi).map Decl.nkey := by decide +kernel

end StoneVerif.C17
