import StoneVerif.Model.IrCheck
import StoneVerif.Lemmas.IrCheck
import StoneVerif.Lemmas.IrCheckNoCrash
import StoneVerif.Lemmas.IrCheckExamplesEnc
import StoneVerif.Lemmas.IrCheckExamplesNull
/-! Property theorems for C10 (accepted defaults and computed examples are valid for the generated classes).

`Model/IrCheck.lean` is the compile-time side (`_create_struct_field`, `_populate_field_defaults`,
`data_types.<Type>.check` / `.check_example`, the reference-free part of `_compute_example*`,
`_generate_python_value`); `Model/Rt/*` is the runtime of the generated classes.  `E : Ext` are the
external calls both sides make (float arithmetic, the runtime's whole-string pattern match), `C : CExt`
the ones only the compiler makes (`re.match` = prefix match, `strptime`). -/
set_option linter.unusedSimpArgs false
set_option linter.unusedVariables false
namespace StoneVerif.C10
open StoneVerif.Rt StoneVerif.IrCheck

/-! ## 1. width limits -/

/-- The compile-time types and the runtime validators use the same width limits (over the translator's
output: editing `maximum` of `Int32` in stone/ir/data_types.py, or `default_maximum` in
stone_validators.py, breaks this theorem), so the model's compile-time lookup and the lookup
`validatorOf` makes for the generated validator give the same bounds. -/
theorem default_bounds_agree :
    Tables.irIntBounds = Tables.rtIntBounds ∧ Tables.irFloatBounds = Tables.rtFloatBounds ∧
    (∀ cls, irIntBounds cls = intDefaults cls) ∧ (∀ cls, irFloatBounds cls = floatDefaults cls) :=
  ⟨by decide, by decide, irIntBounds_eq, irFloatBounds_eq⟩

/-! ## 2. an accepted default is accepted by the generated class

Full statement (FALSE of the model and of the code, see the three witnesses below):

    theorem default_valid (hd : fieldDefault E C us t lit = .ok d) (hvt : validatorOf t = some vt)
        (hv : pyOfStored us t d = some v) : ∃ v', validate E env vt v = .ok v' ∧ acceptedAs E v v'

It needs the exclusion of Timestamp and Bytes, whose default stays the text of the literal while the
runtime wants a datetime / bytes object. (It used to need a law relating the compile-time pattern test to
the runtime one as well: `String.check` tested a prefix match, D12; since the repair it uses `fullmatch`,
the test the generated validator makes, and the model asks the same external call `E.patMatch`.) -/

/-- Every default the compiler accepts for a field whose type involves no Timestamp / Bytes is accepted by
the validator the generated class has for the field, and comes back unchanged (a number in a float
position as the float of that number).
`unionsAgree` (checked by the driver on every real environment): the classes of each union chain exist. -/
theorem default_valid_partial (E : Ext) (C : CExt) (us : List CUnion) (env : Env) (hU : unionsAgree us env = true)
    (t : IrTy) (lit d : Lit) (vt : PTy) (v : PyVal)
    (hts : noTextual t = true)
    (hd : fieldDefault E C us t lit = .ok d) (hvt : validatorOf t = some vt) (hv : pyOfStored us t d = some v) :
    ∃ v', validate E env vt v = .ok v' ∧ acceptedAs E v v' :=
  check_valid E C us env hU t d vt v hts (fieldDefault_check hd) hvt hv

/-- The special case of types that carry no pattern (kept under its name; before the repair of `String.check` it was
the part that held without an assumption on the external calls). -/
theorem default_valid_nopattern (E : Ext) (C : CExt) (us : List CUnion) (env : Env) (hU : unionsAgree us env = true)
    (t : IrTy) (lit d : Lit) (vt : PTy) (v : PyVal)
    (hts : noTextual t = true) (hnp : patternOf t = none)
    (hd : fieldDefault E C us t lit = .ok d) (hvt : validatorOf t = some vt) (hv : pyOfStored us t d = some v) :
    ∃ v', validate E env vt v = .ok v' ∧ acceptedAs E v v' :=
  default_valid_partial E C us env hU t lit d vt v hts hd hvt hv

/-- The check the compiler runs is the one the property speaks of: `checkDefault` succeeds exactly when
`fieldDefault` stores something. -/
theorem checkDefault_iff (E : Ext) (C : CExt) (us : List CUnion) (t : IrTy) (lit : Lit) :
    checkDefault E C us t lit = .ok () ↔ ∃ d, fieldDefault E C us t lit = .ok d := by
  unfold checkDefault
  cases fieldDefault E C us t lit <;> simp [Except.map]

/-- The float coercion of `_populate_field_defaults`: whatever literal is written for a field that is
literally Float32 / Float64, the stored default is a float (so the generated class holds a float). Only
numbers are coerced: a string, `null` or a tag is refused by `check` (it used to reach `float()`). -/
theorem default_float_coerced (E : Ext) (C : CExt) (us : List CUnion) (cls : String) (mn mx : Option FBits) (lit d : Lit)
    (hd : fieldDefault E C us (.float cls mn mx) lit = .ok d) : ∃ x, d = .flt x := by
  obtain ⟨hco, hck, _⟩ := fieldDefault_ok hd
  cases lit with
  | flt x => simp [coerceDefault] at hco; exact ⟨x, hco.symm⟩
  | int n =>
    simp only [coerceDefault] at hco
    cases hx : E.fltOfInt n with
    | none => simp [hx] at hco
    | some x => simp [hx] at hco; exact ⟨x, hco.symm⟩
  | bool b =>
    simp only [coerceDefault] at hco
    cases hx : E.fltOfInt (if b = true then 1 else 0) with
    | none => simp [hx] at hco
    | some x => simp [hx] at hco; exact ⟨x, hco.symm⟩
  | null => simp [coerceDefault] at hco; subst hco; simp [check] at hck
  | str s => simp [coerceDefault] at hco; subst hco; simp [check] at hck
  | tagref g => simp [coerceDefault] at hco; subst hco; simp [check] at hck

/-! ### the compile-time checks end in acceptance or in a spec error

Before the frontend repairs (notes/c03_fix_notes.md) these were FALSE of the model and of the code (TypeError from
`float(None)` / `float(TagRef)` and from formatting the `max_value` message, OverflowError from `float(10**400)`,
NotImplementedError from `List/Map/Struct.check`, AssertionError from `Union.check`, ValueError from
`Map.check_example`, TypeError from `ex_val.update(None)`); the model answered `crash` there and the correspondence
suites compared the exception class. `tyKnown` (evaluated by the driver on every real input: the class names of the
type are in the translator's tables / the API) only excludes names no compiler run produces. -/

/-- `f T = lit` is accepted or is an InvalidSpec, for every type and every literal. -/
theorem checkDefault_no_crash (E : Ext) (C : CExt) (us : List CUnion) (t : IrTy) (lit : Lit) (hk : tyKnown us t = true) :
    ∀ exc, checkDefault E C us t lit ≠ .error (.crash exc) := by
  intro exc h
  unfold checkDefault at h
  exact noCrash_map _ (fieldDefault_noCrash E C us t lit hk) exc h

/-- Refusals that used to be crashes: a default on a List / Map / struct field (also behind aliases), and a
literal that is not a tag on a union field. -/
theorem default_refused_composite (E : Ext) (C : CExt) (us : List CUnion) (t : IrTy) (lit : Lit)
    (h : defaultable (unwrapAll t) = false) : ∃ m, fieldDefault E C us t lit = .error (.invalid m) := by
  cases t
  case void => exact ⟨_, rfl⟩
  case nullable => exact ⟨_, rfl⟩
  all_goals
    simp only [fieldDefault, populateDefault, h]
    repeat (first | exact ⟨_, rfl⟩ | split)

/-- A field that carries a default is neither Void nor nullable, also not through aliases (repairs f0802b6, 981a08f:
`alias V = Void` / `f V = null` and `alias N = Int32?` / `f N = 5` are spec errors), and behind its aliases it is a
primitive or a union. -/
theorem default_type_shape (E : Ext) (C : CExt) (us : List CUnion) (t : IrTy) (lit d : Lit)
    (h : fieldDefault E C us t lit = .ok d) :
    isVoidLit (unwrapAliases t) = false ∧ (unwrapAliases t).isNullableLit = false ∧ defaultable (unwrapAll t) = true := by
  obtain ⟨_, _, _, h1, h2, h3⟩ := fieldDefault_ok h
  exact ⟨h3, h1, h2⟩

theorem default_union_literal_refused (E : Ext) (C : CExt) (us : List CUnion) (cls : String) (lit : Lit)
    (h : ∀ tag, lit ≠ .tagref tag) : ∃ m, fieldDefault E C us (.union cls) lit = .error (.invalid m) := by
  cases lit <;> first | exact absurd rfl (h _) | exact ⟨_, rfl⟩

/-- `check_example` of every member and `_add_example` of a struct / `_add_example` + `_compute_example` of a
union end in acceptance or in a spec error, for every example value (lists, maps, references, literals). -/
theorem example_check_no_crash (E : Ext) (C : CExt) (us : List CUnion) (ex : List (String × ExVal)) :
    (∀ (cs : CStruct), (∀ f ∈ cs.allFields, tyKnown us f.ty = true) →
      ∀ exc, addStructExample E C us cs ex ≠ .error (.crash exc)) ∧
    (∀ (cu : CUnion), (∀ t ∈ cu.allTags, tyKnown us t.ty = true) →
      ∀ exc, unionExample E C us cu ex ≠ .error (.crash exc)) :=
  ⟨fun cs hk => addStructExample_noCrash E C us cs ex hk, fun cu hk => unionExample_noCrash E C us cu ex hk⟩

/-! ### concrete external calls for the witnesses and examples

`patMatch` gives the answers of `re` on the inputs the examples use (`\A(?:a)\Z` does not match "ab"). -/

def exE : Ext where
  fltLt a b := a < b            -- adequate for the non-negative floats of the examples
  fltIsNan _ := false
  fltIsInf _ := false
  fltOfInt n := if n = 1 then some 4607182418800017408 else if n = 0 then some 0 else none
  patMatch p s := (p == "a" && s == "a") || (p == "[a-z]{2}" && s == "ab")
  b64enc h := h
  b64dec s := some (some s)
  strftime _ _ := ""
  strptime _ _ := none
  md5 s := s
  reSearch _ _ := none
  strOfInt _ := ""
  strOfFlt _ := ""

def exC : CExt where
  intExact n := n == 0 || n == 1 || n == 7
  strptimeOk f s := f == "%Y" && s == "2020"

def emptyEnv : Env := { structs := [], unions := [] }

/-- Regression (formerly the witness D12): `f String(pattern="a") = "ab"` used to be accepted at compile time (prefix
match) while the generated class refuses the value (whole-string match). Both sides now ask the same question and the
compiler refuses the default. -/
theorem default_pattern_witness :
    fieldDefault exE exC [] (.str none none (some "a")) (.str "ab") = invalid "did not match pattern" ∧
    fieldDefault exE exC [] (.str none none (some "a")) (.str "a") = .ok (.str "a") ∧
    validatorOf (.str none none (some "a")) = some (.str {} none none (some "a")) ∧
    validate exE emptyEnv (.str {} none none (some "a")) (.str "ab") = verr "did not match pattern" ∧
    exE.patMatch "a" "ab" = false := by
  exact ⟨rfl, rfl, rfl, rfl, by decide⟩

/-- A Timestamp default is accepted (the text parses with the format) and stays text; the generated class
wants a datetime and refuses it. -/
theorem default_timestamp_witness :
    fieldDefault exE exC [] (.ts "%Y") (.str "2020") = .ok (.str "2020") ∧
    pyOfStored [] (.ts "%Y") (.str "2020") = some (.str "2020") ∧
    validatorOf (.ts "%Y") = some (.ts {} "%Y") ∧
    validate exE emptyEnv (.ts {} "%Y") (.str "2020") = verr "expected timestamp" := by
  exact ⟨rfl, rfl, rfl, rfl⟩

/-- A Bytes default is accepted (any text) and stays text; the generated class wants bytes and refuses it. -/
theorem default_bytes_witness :
    fieldDefault exE exC [] .bytes (.str "abc") = .ok (.str "abc") ∧
    pyOfStored [] .bytes (.str "abc") = some (.str "abc") ∧
    validatorOf .bytes = some (.bytes {}) ∧
    validate exE emptyEnv (.bytes {}) (.str "abc") = verr "expected bytes" := by
  exact ⟨rfl, rfl, rfl, rfl⟩

/-! ### non-vacuity: boundary literals, ints for floats, patterns that are matched whole -/

example : fieldDefault exE exC [] (.int "Int32" none none) (.int 2147483647) = .ok (.int 2147483647) ∧
    fieldDefault exE exC [] (.int "Int32" none none) (.int 2147483648) = invalid "not within range" ∧
    fieldDefault exE exC [] (.int "Int32" none (some 5)) (.int 6) = invalid "greater than max_value" ∧
    fieldDefault exE exC [] (.int "UInt64" none none) (.bool true) = invalid "boolean is not a valid integer" ∧
    fieldDefault exE exC [] (.float "Float64" none none) (.bool true) = invalid "boolean is not a valid real number" := by
  exact ⟨rfl, rfl, rfl, rfl, rfl⟩

example : fieldDefault exE exC [] (.float "Float64" none none) (.int 1) = .ok (.flt 4607182418800017408) ∧
    fieldDefault exE exC [] (.alias "ns.F" none (.float "Float64" none none)) (.int 1) = .ok (.int 1) ∧
    fieldDefault exE exC [] (.float "Float64" none none) .null = invalid "not a valid real number" ∧
    fieldDefault exE exC [] (.float "Float64" none none) (.str "1.5") = invalid "not a valid real number" ∧
    -- (`exE.fltOfInt` answers for 0 and 1 only: 7 stands for an integer `float()` overflows on, 9 for one
    -- that `float()` rounds: `exC.intExact 9 = false`)
    fieldDefault exE exC [] (.float "Float64" none none) (.int 7) = invalid "too large for float" ∧
    fieldDefault { exE with fltOfInt := fun _ => some 0 } exC [] (.float "Float64" none none) (.int 9) =
      invalid "cannot be represented as a float exactly" ∧
    fieldDefault exE exC [] (.float "Float64" none (some 0)) (.int 1) = invalid "greater than max_value" ∧
    fieldDefault exE exC [] (.nullable (.int "Int32" none none)) (.int 1) =
      invalid "Field cannot be a nullable type and have a default specified" ∧
    fieldDefault exE exC [] (.list .bool none none) .null =
      invalid "Field cannot have a default: only fields of a primitive or union type can" ∧
    fieldDefault exE exC [] (.alias "ns.L" none (.map (.str none none none) .bool)) .null =
      invalid "Field cannot have a default: only fields of a primitive or union type can" ∧
    fieldDefault exE exC [] (.alias "ns.V" none .void) .null = invalid "Struct field cannot have a Void type" := by
  exact ⟨rfl, rfl, rfl, rfl, rfl, rfl, rfl, rfl, rfl, rfl, rfl⟩

/-- a pattern that is matched whole -/
example : ∃ v', validate exE emptyEnv (.str {} none none (some "[a-z]{2}")) (.str "ab") = .ok v' ∧ acceptedAs exE (.str "ab") v' :=
  default_valid_partial exE exC [] emptyEnv (by decide) (.str none none (some "[a-z]{2}")) (.str "ab") (.str "ab") _ _
    (by decide) rfl rfl rfl

/-! ## 3. reading a defaulted field that was never set -/

/-- `Attribute.__get__`: an unset field that is not nullable reads as its default. -/
theorem default_read (env : Env) (cls name : String) (slots : List (String × PyVal)) (f : FieldDef) (d : PyVal)
    (hf : (env.struct? cls).bind (·.field? name) = some f)
    (hd : f.dflt = some d) (hnn : f.attrNullable = false) (hu : lookupSlot f.name slots = none) :
    getField env (.struct cls slots) name = .ok d := by
  simp [getField, hf, attrGet, hu, hnn, hd]

/-- For the attribute python_types generates from a field whose default the compiler accepted: the
attribute is not nullable (a default on a nullable field is refused), its `default` is the declared
default (`_generate_python_value`), and reading the unset field of any instance returns exactly it. -/
theorem default_read_generated (E : Ext) (C : CExt) (us : List CUnion) (cf : CField) (lit d : Lit) (fd : FieldDef)
    (env : Env) (cls : String) (slots : List (String × PyVal))
    (hacc : fieldDefault E C us cf.ty lit = .ok d) (hcf : cf.dflt = some d) (hfd : fieldDefOfC us cf = some fd)
    (hf : (env.struct? cls).bind (·.field? cf.name) = some fd) (hu : lookupSlot cf.name slots = none) :
    ∃ v, pyOfStored us cf.ty d = some v ∧ fd.dflt = some v ∧ fd.attrNullable = false ∧
      getField env (.struct cls slots) cf.name = .ok v := by
  obtain ⟨vt, _, hname, _, hnull, _, _, hdf⟩ := fieldDefOfC_inv hfd
  simp only [hcf] at hdf
  obtain ⟨v, hp, hdv⟩ := hdf
  have hnn : fd.attrNullable = false := by rw [hnull]; exact fieldDefault_not_nullable hacc
  exact ⟨v, hp, hdv, hnn, default_read env cls cf.name slots fd v hf hdv hnn (by rw [hname]; exact hu)⟩

/-! ## 4. tag defaults: a ready union instance -/

/-- A tag default the compiler accepts is the ready instance `<Declaring class>('<tag>')` — an instance of
the field's union class or of the ancestor that declares the tag — and the field's validator accepts it
by `validate_type_only` (what assignment runs for a union-typed field) and by `validate`. -/
theorem default_tag_valid (E : Ext) (C : CExt) (us : List CUnion) (env : Env) (hU : unionsAgree us env = true)
    (cls : String) (lit d : Lit) (v : PyVal)
    (hd : fieldDefault E C us (.union cls) lit = .ok d) (hv : pyOfStored us (.union cls) d = some v) :
    (∃ c tag, d = .tagref tag ∧ v = .union c tag .none ∧ unionTypeOk env cls v = true) ∧
    validateTypeOnly env (.union {} cls) v = .ok () ∧ validate E env (.union {} cls) v = .ok v := by
  have hc := fieldDefault_check hd
  obtain ⟨h1, h2⟩ := check_union_valid E C us env hU cls d v hc hv
  refine ⟨?_, h2, h1⟩
  cases d <;> simp [check] at hc
  rename_i tag
  obtain ⟨c, u, dc, hc', hu, hdc, rfl⟩ := pyOfStored_tagref hv
  simp [unionOfTy] at hc'; subst hc'
  exact ⟨dc, tag, rfl, rfl, tag_instance_typeOk hU hu hdc⟩

/-! ## 5. assigning the default back -/

/-- `setattr(obj, f, Cls.f.default)` is accepted for the attribute generated from an accepted default
(same two hypotheses as `default_valid_partial`); what is stored is the default (a number in a float
position as the float). -/
theorem default_assign_partial (E : Ext) (C : CExt) (us : List CUnion) (env : Env) (hU : unionsAgree us env = true)
    (cf : CField) (lit d : Lit) (fd : FieldDef) (slots : List (String × PyVal))
    (hts : noTextual cf.ty = true)
    (hacc : fieldDefault E C us cf.ty lit = .ok d) (hcf : cf.dflt = some d) (hfd : fieldDefOfC us cf = some fd) :
    ∃ v v', fd.dflt = some v ∧ attrSet E env fd slots v = .ok (setSlot fd.name v' slots) ∧ acceptedAs E v v' := by
  obtain ⟨vt, hvt, hname, hty, hnull, hud, _, hdf⟩ := fieldDefOfC_inv hfd
  simp only [hcf] at hdf
  obtain ⟨v, hp, hdv⟩ := hdf
  have hnn : fd.attrNullable = false := by rw [hnull]; exact fieldDefault_not_nullable hacc
  have hc := fieldDefault_check hacc
  cases hu : cf.ty.isUserDefinedLit with
  | true =>
    obtain ⟨cls, hcls⟩ := check_userDefined_union hc (fieldDefault_not_nullable hacc) hu
    rw [hcls] at hc hp hvt
    simp [validatorOf] at hvt
    obtain ⟨_, h2⟩ := check_union_valid E C us env hU cls d v hc hp
    refine ⟨v, v, hdv, ?_, Or.inl rfl⟩
    simp [attrSet, hnn, hud, hu, hty, ← hvt, h2, bind, Except.bind, pure, Except.pure]
  | false =>
    obtain ⟨v', h1, h2⟩ := check_valid E C us env hU cf.ty d vt v hts hc hvt hp
    refine ⟨v, v', hdv, ?_, h2⟩
    simp [attrSet, hnn, hud, hu, hty, h1, bind, Except.bind, pure, Except.pure]

/-! ### non-vacuity: a tag inherited from the parent union, read and assigned through the generated tables -/

def exUnions : List CUnion :=
  [ { cls := "ns.Color", chain := [("ns.Color", [{ name := "red", ty := .void }, { name := "green", ty := .int "Int32" none none }])],
      catchAll := some "other" },
    { cls := "ns.Tint", chain := [("ns.Color", [{ name := "red", ty := .void }, { name := "green", ty := .int "Int32" none none }]),
                                  ("ns.Tint", [{ name := "pale", ty := .void }])], catchAll := some "other" } ]

def exApi : CApi :=
  { structs := [ { cls := "ns.S", chain := [("ns.S", [{ name := "f", ty := .union "ns.Tint", dflt := some (.tagref "red") },
                                                      { name := "n", ty := .float "Float64" none none, dflt := some (.flt 0) }])] } ],
    unions := exUnions }

def exEnv : Env := (envOfC exApi).getD emptyEnv

example : (envOfC exApi).isSome = true ∧ unionsAgree exUnions exEnv = true := by decide

example : fieldDefault exE exC exUnions (.union "ns.Tint") (.tagref "red") = .ok (.tagref "red") ∧
    fieldDefault exE exC exUnions (.union "ns.Tint") (.tagref "green") = invalid "invalid reference to non-void option" ∧
    fieldDefault exE exC exUnions (.union "ns.Tint") (.tagref "nosuch") = invalid "invalid reference to unknown tag" ∧
    fieldDefault exE exC exUnions (.union "ns.Tint") (.int 1) = invalid "not a valid union tag" ∧
    -- the ready instance belongs to the class that declares the tag (the parent)
    pyOfStored exUnions (.union "ns.Tint") (.tagref "red") = some (.union "ns.Color" "red" .none) ∧
    pyOfStored exUnions (.union "ns.Tint") (.tagref "pale") = some (.union "ns.Tint" "pale" .none) :=
  ⟨rfl, rfl, rfl, rfl, rfl, rfl⟩

example : getField exEnv (.struct "ns.S" []) "f" = .ok (.union "ns.Color" "red" .none) ∧
    getField exEnv (.struct "ns.S" []) "n" = .ok (.flt 0) ∧
    (setField exE exEnv (.struct "ns.S" []) "f" (.union "ns.Color" "red" .none)).bind (getField exEnv · "f")
      = .ok (.union "ns.Color" "red" .none) :=
  ⟨rfl, rfl, rfl⟩

/-! ## 6. computed examples decode strictly and encode back

Full statement (FALSE today, witnesses in corpus/C10 and listed in KNOWN_FINDINGS: D12 pattern prefix, D13 Bytes
that is not base64, non-canonical Timestamp / Bytes text, `true` for a number, an integer that is not a float, a
struct member of a union reached through an alias; an example that explicitly writes a catch-all tag is, like the
implicit example of a catch-all tag, not judged):

    theorem example_roundtrip (h : compile fs = .ok api) (hex : ex ∈ examplesOf api T) (hx : ¬ ex.isCatchAllImplicit) :
        ∃ v, jsonCompatObjDecode E env [] true (tyOf T) ex.value = .ok v ∧
             jsonCompatObjEncode E env [] false (tyOf T) v = .ok ex.value        -- as JSON documents

Proved: the reference-free ("flat") part over scalar members, and `tag = null` for a nullable struct member of a
union. Not modelled (covered by the direct oracle of
harness/suites/defaults_examples.py on every label of every generated spec): references to other examples
(so every struct- or union-typed member), lists and maps, Timestamp / Bytes, aliases as member types, structs
with enumerated subtypes, members omitted for a caller class. -/

/-- The example document the compiler computes for a struct (any inheritance chain) from a reference-free
example over scalar fields — members written in the example, `null` members left out, defaults filled in, in
`all_fields` order — is accepted by `json_compat_obj_decode(strict=True)`, and `json_compat_obj_encode` of the
decoded instance gives back exactly the members of the document (in declaration order: a permutation).
Hypotheses beyond acceptance by the compiler: the pattern law `hpat` (false of the real external calls: D12)
and exact literal kinds `hexact` (`true` for an Int32 or `1` for a Float64 re-encode as a different JSON token). -/
theorem example_roundtrip_partial (E : Ext) (C : CExt) (us : List CUnion) (env : Env) (cs : CStruct) (sd : StructDef)
    (ex : List (String × ExVal))
    (hwf : envWF env = true) (hchain : envWFX env = true) (hsub : cs.subtypes = none)
    (hsd : structDefOfC us cs = some sd) (henv : env.struct? cs.cls = some sd)
    (hscalar : ∀ f ∈ cs.allFields, scalarTy f.ty = true)
    (hpub : ∀ f ∈ cs.allFields, f.omitted = none)
    (hnd : (cs.allFields.map (·.name)).Nodup)
    (hdef : ∀ f ∈ cs.allFields, ∀ d, f.dflt = some d → ∃ lit, fieldDefault E C us f.ty lit = .ok d)
    (hexact : ∀ f ∈ cs.allFields, (∀ l, exLookup f.name ex = some (.lit l) → exactKind f.ty l = true) ∧
      (∀ d, exLookup f.name ex = none → f.dflt = some d → exactKind f.ty d = true))
    (hadd : addStructExample E C us cs ex = .ok ()) :
    ∃ kvs v kvs', structExampleDoc cs ex = some (.obj kvs) ∧
      jsonCompatObjDecode E env [] true (.struct {} cs.cls) (.obj kvs) = .ok v ∧
      jsonCompatObjEncode E env [] false (.struct {} cs.cls) v = .ok (.obj kvs') ∧ kvs'.Perm kvs :=
  example_roundtrip_encode_partial E C us env cs sd ex hwf hchain hsub hsd henv hscalar hpub hnd hdef hexact hadd

/-- The same against the specification-level wire form (json_serializer.rst as a function), with the decoded
instance shown valid and in normal form — no well-formedness assumption on the rest of the environment. -/
theorem example_roundtrip_wire_partial (E : Ext) (C : CExt) (us : List CUnion) (env : Env) (cs : CStruct) (sd : StructDef)
    (ex : List (String × ExVal))
    (hsd : structDefOfC us cs = some sd) (henv : env.struct? cs.cls = some sd)
    (hscalar : ∀ f ∈ cs.allFields, scalarTy f.ty = true)
    (hpub : ∀ f ∈ cs.allFields, f.omitted = none)
    (hnd : (cs.allFields.map (·.name)).Nodup)
    (hdef : ∀ f ∈ cs.allFields, ∀ d, f.dflt = some d → ∃ lit, fieldDefault E C us f.ty lit = .ok d)
    (hexact : ∀ f ∈ cs.allFields, (∀ l, exLookup f.name ex = some (.lit l) → exactKind f.ty l = true) ∧
      (∀ d, exLookup f.name ex = none → f.dflt = some d → exactKind f.ty d = true))
    (hadd : addStructExample E C us cs ex = .ok ()) :
    ∃ kvs slots, structExampleDoc cs ex = some (.obj kvs) ∧
      decode E env [] true (.struct {} cs.cls) (.obj kvs) = .ok (.struct cs.cls slots) ∧
      jsonCompatObjDecode E env [] true (.struct {} cs.cls) (.obj kvs) = .ok (.struct cs.cls slots) ∧
      (∃ kvs', wire E env (.struct {} cs.cls) (.struct cs.cls slots) = .obj kvs' ∧ kvs'.Perm kvs) ∧
      normalB env (.struct {} cs.cls) (.struct cs.cls slots) = true ∧
      (cs.cls ∈ cs.chain.map (·.1) → validB E env (.struct {} cs.cls) (.struct cs.cls slots) = true) :=
  IrCheck.example_roundtrip_partial E C us env cs sd ex hsd henv hscalar hpub hnd hdef hexact hadd

/-- Union examples with exactly one tag whose type is Void or scalar (the tag is not the catch-all): the
computed document `{".tag": t}` / `{".tag": t, t: value}` decodes strictly and encodes back to itself. -/
theorem example_union_roundtrip_partial (E : Ext) (C : CExt) (us : List CUnion) (env : Env) (cu : CUnion) (ud : UnionDef)
    (tag : String) (v : ExVal) (t : CTag)
    (hwf : envWF env = true) (hchain : envWFX env = true)
    (hud : unionDefOfC cu = some ud) (henv : env.union? cu.cls = some ud)
    (hpub : ∀ t ∈ cu.allTags, t.omitted = none) (hnd : (cu.allTags.map (·.name)).Nodup)
    (ht : cu.allTags.find? (·.name == tag) = some t)
    (hty : t.ty = .void ∨ scalarTy t.ty = true)
    (hca : some tag ≠ cu.catchAll) (htne : tag ≠ ".tag")
    (hexact : scalarTy t.ty = true → ∀ l, v = .lit l → exactKind t.ty l = true)
    (hadd : addUnionExample E C us cu [(tag, v)] = .ok ()) :
    ∃ doc u, unionExampleDoc cu [(tag, v)] = some doc ∧
      jsonCompatObjDecode E env [] true (.union {} cu.cls) doc = .ok u ∧
      jsonCompatObjEncode E env [] false (.union {} cu.cls) u = .ok doc :=
  example_union_roundtrip_encode_partial E C us env cu ud tag v t hwf hchain hud henv hpub hnd ht hty hca htne hexact hadd

/-- A union example `tag = null` for a member of nullable struct type (`t S2?`) — a TypeError in
`Union._compute_example` until repair 00ddb10 — is accepted without further hypotheses, its document is the tag
alone, and that document decodes strictly and encodes back to itself. -/
theorem example_union_null_struct_roundtrip (E : Ext) (C : CExt) (us : List CUnion) (env : Env) (cu : CUnion) (ud : UnionDef)
    (tag : String) (t : CTag) (c : String)
    (hwf : envWF env = true) (hchain : envWFX env = true)
    (hud : unionDefOfC cu = some ud) (henv : env.union? cu.cls = some ud)
    (hpub : ∀ t ∈ cu.allTags, t.omitted = none) (hnd : (cu.allTags.map (·.name)).Nodup)
    (ht : cu.allTags.find? (·.name == tag) = some t)
    (hty : t.ty = .nullable (.struct c false))
    (hca : some tag ≠ cu.catchAll) (htne : tag ≠ ".tag") :
    ∃ doc u, unionExample E C us cu [(tag, .lit .null)] = .ok (some doc) ∧ doc = .obj [(".tag", .str tag)] ∧
      jsonCompatObjDecode E env [] true (.union {} cu.cls) doc = .ok u ∧
      jsonCompatObjEncode E env [] false (.union {} cu.cls) u = .ok doc :=
  example_union_null_struct_roundtrip_encode E C us env cu ud tag t c hwf hchain hud henv hpub hnd ht hty hca htne

/-- non-vacuity: `struct Pt { x Int32 }`, `union Shape { dot Pt?; other* }`, example `dot = null`, in the generated tables -/
example : ∃ doc u, unionExample rtE rtC [] rtShape [("dot", .lit .null)] = .ok (some doc) ∧ doc = .obj [(".tag", .str "dot")] ∧
    jsonCompatObjDecode rtE rtNullEnv [] true (.union {} rtShape.cls) doc = .ok u ∧
    jsonCompatObjEncode rtE rtNullEnv [] false (.union {} rtShape.cls) u = .ok doc := by
  obtain ⟨ud, hud, henv⟩ := envOfC_union rtNullEnv_eq (by decide) (cu := rtShape) (by simp [rtNullApi])
  exact example_union_null_struct_roundtrip rtE rtC [] rtNullEnv rtShape ud "dot"
    { name := "dot", ty := .nullable (.struct "ns.Pt" false) } "ns.Pt" rtNullEnv_wf.2.1 rtNullEnv_wf.2.2 hud henv
    (by decide) (by decide) rfl rfl (by decide) (by decide)

/-- The class tables the theorems above speak of are the ones `envOfC` generates for the API. -/
theorem example_env_generated {api : CApi} {env : Env} (h : envOfC api = some env) :
    (∀ cs ∈ api.structs, (api.structs.map (·.cls)).Nodup →
      ∃ sd, structDefOfC api.unions cs = some sd ∧ env.struct? cs.cls = some sd) ∧
    (∀ cu ∈ api.unions, (api.unions.map (·.cls)).Nodup →
      ∃ ud, unionDefOfC cu = some ud ∧ env.union? cu.cls = some ud) :=
  ⟨fun cs hcs hnd => envOfC_struct h hnd hcs, fun cu hcu hnd => envOfC_union h hnd hcu⟩

/-! ### non-vacuity and the two excluded shapes as witnesses

`rtItem` (Lemmas/IrCheckExamples.lean): `struct Base { id Int64; note String? }`,
`struct Item extends Base { flag Boolean = false; name String(pattern="[a-z]{2}"); score Float64; n UInt32? }`
with the example `name = "ab"; id = 7; score = 2.5; note = null`. -/

example : ∃ kvs v kvs', structExampleDoc rtItem rtEx = some (.obj kvs) ∧
    jsonCompatObjDecode rtE rtApiEnv [] true (.struct {} rtItem.cls) (.obj kvs) = .ok v ∧
    jsonCompatObjEncode rtE rtApiEnv [] false (.struct {} rtItem.cls) v = .ok (.obj kvs') ∧ kvs'.Perm kvs := by
  obtain ⟨sd, hsd, henv⟩ := envOfC_struct rtApiEnv_eq (by decide) (cs := rtItem) (by simp [rtApi])
  have hf : (rtItem.allFields.all fun f => scalarTy f.ty && f.omitted.isNone && dfltOK rtE rtC rtApi.unions f && exactOK rtEx f) = true := rfl
  rw [List.all_eq_true] at hf
  have hf' : ∀ f ∈ rtItem.allFields, scalarTy f.ty = true ∧ f.omitted = none ∧ dfltOK rtE rtC rtApi.unions f = true ∧ exactOK rtEx f = true := by
    intro f h
    have := hf f h
    simp only [Bool.and_eq_true, Option.isNone_iff_eq_none] at this
    exact ⟨this.1.1.1, this.1.1.2, this.1.2, this.2⟩
  exact example_roundtrip_partial rtE rtC rtApi.unions rtApiEnv rtItem sd rtEx rtApiEnv_wf.2.1 rtApiEnv_wf.2.2 rfl
    hsd henv (fun f hfm => (hf' f hfm).1) (fun f hfm => (hf' f hfm).2.1) (by decide)
    (fun f hfm => hdef_of_dfltOK (hf' f hfm).2.2.1) (fun f hfm => hexact_of_exactOK (hf' f hfm).2.2.2) rfl

/-- The document is in `all_fields` order (required `id`, `name`, `score`, then the default of `flag`; no key
for the null `note` and the absent `n`), the encoder answers in declaration order: a genuine permutation. -/
example :
    structExampleDoc rtItem rtEx = some (.obj [("id", .int 7), ("name", .str "ab"), ("score", .flt 4609434218613702656),
      ("flag", .bool false)]) ∧
    wire rtE rtEnv (.struct {} "ns.Item")
        (.struct "ns.Item" [("id", .int 7), ("flag", .bool false), ("name", .str "ab"), ("score", .flt 4609434218613702656)]) =
      .obj [("id", .int 7), ("flag", .bool false), ("name", .str "ab"), ("score", .flt 4609434218613702656)] :=
  ⟨rfl, rfl⟩

/-- Regression (formerly the witness that `hexact` is needed for booleans): `k = true` for `k Int32` used to be accepted by
the compiler; the strict decoder takes the document and the instance encodes as `{"k": 1}` — not the document. Since the
repair of `_BoundedInteger.check` / `_BoundedFloat.check` the compiler refuses the example (no document is computed). -/
theorem example_bool_for_int_witness :
    addStructExample rtE rtC [] rtB [("k", .lit (.bool true))] =
      .error (.invalid "Bad example for field: boolean is not a valid integer") ∧
    decode rtE rtBEnv [] true (.struct {} "ns.B") (.obj [("k", .bool true)]) = .ok (.struct "ns.B" [("k", .bool true)]) ∧
    wire rtE rtBEnv (.struct {} "ns.B") (.struct "ns.B" [("k", .bool true)]) = .obj [("k", .int 1)] :=
  ⟨rfl, rfl, rfl⟩

end StoneVerif.C10
