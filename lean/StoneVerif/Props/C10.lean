import StoneVerif.Model.IrCheck
import StoneVerif.Lemmas.IrCheck
/-! Property theorems for C10 (accepted defaults and computed examples are valid for the generated classes).

`Model/IrCheck.lean` is the compile-time side (`_create_struct_field`, `_populate_field_defaults`,
`data_types.<Type>.check` / `.check_example`, the reference-free part of `_compute_example*`,
`_generate_python_value`); `Model/Rt/*` is the runtime of the generated classes.  `E : Ext` are the
external calls both sides make (float arithmetic, the runtime's whole-string pattern match), `C : CExt`
the ones only the compiler makes (`re.match` = prefix match, `float(str)`, `strptime`). -/
set_option linter.unusedSimpArgs false
set_option linter.unusedVariables false
namespace StoneVerif.C10
open StoneVerif.Rt StoneVerif.IrCheck

/-! ## 1. width limits -/

/-- The compile-time types and the runtime validators use the same width limits (over the translator's
output: editing `maximum` of `Int32` in stone/ir/data_types.py, or `default_maximum` in
stone_validators.py, breaks this theorem), so the model's compile-time lookup and the lookup
`validatorOf` makes for the generated validator give the same bounds. -/
theorem default_bounds_agree :
    Tables.irIntBounds = Tables.rtIntBounds ∧ Tables.irFloatBounds = Tables.rtFloatBounds ∧
    (∀ cls, irIntBounds cls = intDefaults cls) ∧ (∀ cls, irFloatBounds cls = floatDefaults cls) :=
  ⟨by decide, by decide, irIntBounds_eq, irFloatBounds_eq⟩

/-! ## 2. an accepted default is accepted by the generated class

Full statement (FALSE of the model and of the code, see the three witnesses below):

    theorem default_valid (hd : fieldDefault E C us t lit = .ok d) (hvt : validatorOf t = some vt)
        (hv : pyOfStored us t d = some v) : ∃ v', validate E env vt v = .ok v' ∧ acceptedAs E v v'

It needs (a) a law relating the compile-time pattern test to the runtime one — `re.match(p, s)` is a
prefix match, the runtime anchors the pattern at both ends, so the law does not hold of the real
external calls (D12) — and (b) the exclusion of Timestamp and Bytes, whose default stays the text of the
literal while the runtime wants a datetime / bytes object. -/

/-- Every default the compiler accepts for a field whose type involves no Timestamp / Bytes is accepted by
the validator the generated class has for the field, and comes back unchanged (a number in a float
position as the float of that number) — provided the compile-time pattern test implies the runtime one.
`unionsAgree` (checked by the driver on every real environment): the classes of each union chain exist. -/
theorem default_valid_partial (E : Ext) (C : CExt) (us : List CUnion) (env : Env) (hU : unionsAgree us env = true)
    (t : IrTy) (lit d : Lit) (vt : PTy) (v : PyVal)
    (hts : noTextual t = true)
    (hpat : ∀ p s, patternOf t = some p → C.prefixMatch p s = true → E.patMatch p s = true)
    (hd : fieldDefault E C us t lit = .ok d) (hvt : validatorOf t = some vt) (hv : pyOfStored us t d = some v) :
    ∃ v', validate E env vt v = .ok v' ∧ acceptedAs E v v' :=
  check_valid E C us env hU t d vt v hts hpat (fieldDefault_check hd) hvt hv

/-- Without any assumption on the external calls: every type that carries no pattern (Boolean, the integer
and float types with their limits, String with length bounds, unions, aliases of those). -/
theorem default_valid_nopattern (E : Ext) (C : CExt) (us : List CUnion) (env : Env) (hU : unionsAgree us env = true)
    (t : IrTy) (lit d : Lit) (vt : PTy) (v : PyVal)
    (hts : noTextual t = true) (hnp : patternOf t = none)
    (hd : fieldDefault E C us t lit = .ok d) (hvt : validatorOf t = some vt) (hv : pyOfStored us t d = some v) :
    ∃ v', validate E env vt v = .ok v' ∧ acceptedAs E v v' :=
  default_valid_partial E C us env hU t lit d vt v hts (by intro p s h; simp [hnp] at h) hd hvt hv

/-- The check the compiler runs is the one the property speaks of: `checkDefault` succeeds exactly when
`fieldDefault` stores something. -/
theorem checkDefault_iff (E : Ext) (C : CExt) (us : List CUnion) (t : IrTy) (lit : Lit) :
    checkDefault E C us t lit = .ok () ↔ ∃ d, fieldDefault E C us t lit = .ok d := by
  unfold checkDefault
  cases fieldDefault E C us t lit <;> simp [Except.map]

/-- The float coercion of `_populate_field_defaults`: whatever literal is written for a field that is
literally Float32 / Float64, the stored default is a float (so the generated class holds a float). -/
theorem default_float_coerced (E : Ext) (C : CExt) (us : List CUnion) (cls : String) (mn mx : Option FBits) (lit d : Lit)
    (hd : fieldDefault E C us (.float cls mn mx) lit = .ok d) : ∃ x, d = .flt x := by
  simp only [fieldDefault] at hd
  cases lit with
  | null => simp [ccrash] at hd
  | tagref _ => simp [ccrash] at hd
  | flt x => exact ⟨x, (match_check_ok hd).2.symm⟩
  | int n =>
    cases hx : E.fltOfInt n with
    | none => simp [hx, ccrash] at hd
    | some x => simp only [hx] at hd; exact ⟨x, (match_check_ok hd).2.symm⟩
  | bool b =>
    cases hx : E.fltOfInt (if b = true then 1 else 0) with
    | none => simp [hx, ccrash] at hd
    | some x => simp only [hx] at hd; exact ⟨x, (match_check_ok hd).2.symm⟩
  | str s =>
    cases hx : C.fltOfStr s with
    | none => simp [hx, invalid] at hd
    | some x => simp only [hx] at hd; exact ⟨x, (match_check_ok hd).2.symm⟩

/-! ### concrete external calls for the witnesses and examples

`patMatch` / `prefixMatch` are the answers of `re` on the inputs the witnesses use
(`\A(?:a)\Z` does not match "ab", `re.match("a", "ab")` does; "[a-z]{2}" against "abc" likewise). -/

def exE : Ext where
  fltLt a b := a < b            -- adequate for the non-negative floats of the examples
  fltIsNan _ := false
  fltIsInf _ := false
  fltOfInt n := if n = 1 then some 4607182418800017408 else if n = 0 then some 0 else none
  patMatch p s := (p == "a" && s == "a") || (p == "[a-z]{2}" && s == "ab")
  b64enc h := h
  b64dec s := some (some s)
  strftime _ _ := ""
  strptime _ _ := none
  md5 s := s
  reSearch _ _ := none
  strOfInt _ := ""
  strOfFlt _ := ""

def exC : CExt where
  prefixMatch p s := (p == "a" && (s == "a" || s == "ab")) || (p == "[a-z]{2}" && (s == "ab" || s == "abc"))
  fltOfStr _ := none
  strptimeOk f s := f == "%Y" && s == "2020"

def emptyEnv : Env := { structs := [], unions := [] }

/-- D12: `f String(pattern="a") = "ab"` is accepted at compile time (prefix match) and the generated class
refuses its own default (whole-string match). The hypothesis `hpat` of `default_valid_partial` fails for it. -/
theorem default_pattern_witness :
    fieldDefault exE exC [] (.str none none (some "a")) (.str "ab") = .ok (.str "ab") ∧
    pyOfStored [] (.str none none (some "a")) (.str "ab") = some (.str "ab") ∧
    validatorOf (.str none none (some "a")) = some (.str {} none none (some "a")) ∧
    validate exE emptyEnv (.str {} none none (some "a")) (.str "ab") = verr "did not match pattern" ∧
    exC.prefixMatch "a" "ab" = true ∧ exE.patMatch "a" "ab" = false := by
  exact ⟨rfl, rfl, rfl, rfl, by decide, by decide⟩

/-- A Timestamp default is accepted (the text parses with the format) and stays text; the generated class
wants a datetime and refuses it. -/
theorem default_timestamp_witness :
    fieldDefault exE exC [] (.ts "%Y") (.str "2020") = .ok (.str "2020") ∧
    pyOfStored [] (.ts "%Y") (.str "2020") = some (.str "2020") ∧
    validatorOf (.ts "%Y") = some (.ts {} "%Y") ∧
    validate exE emptyEnv (.ts {} "%Y") (.str "2020") = verr "expected timestamp" := by
  exact ⟨rfl, rfl, rfl, rfl⟩

/-- A Bytes default is accepted (any text) and stays text; the generated class wants bytes and refuses it. -/
theorem default_bytes_witness :
    fieldDefault exE exC [] .bytes (.str "abc") = .ok (.str "abc") ∧
    pyOfStored [] .bytes (.str "abc") = some (.str "abc") ∧
    validatorOf .bytes = some (.bytes {}) ∧
    validate exE emptyEnv (.bytes {}) (.str "abc") = verr "expected bytes" := by
  exact ⟨rfl, rfl, rfl, rfl⟩

/-! ### non-vacuity: boundary literals, ints for floats, patterns that are matched whole -/

example : fieldDefault exE exC [] (.int "Int32" none none) (.int 2147483647) = .ok (.int 2147483647) ∧
    fieldDefault exE exC [] (.int "Int32" none none) (.int 2147483648) = invalid "not within range" ∧
    fieldDefault exE exC [] (.int "Int32" none (some 5)) (.int 6) = invalid "greater than max_value" ∧
    fieldDefault exE exC [] (.int "UInt64" none none) (.bool true) = .ok (.bool true) := by
  exact ⟨rfl, rfl, rfl, rfl⟩

example : fieldDefault exE exC [] (.float "Float64" none none) (.int 1) = .ok (.flt 4607182418800017408) ∧
    fieldDefault exE exC [] (.alias "ns.F" none (.float "Float64" none none)) (.int 1) = .ok (.int 1) ∧
    fieldDefault exE exC [] (.float "Float64" none none) .null = ccrash "TypeError" ∧
    fieldDefault exE exC [] (.nullable (.int "Int32" none none)) (.int 1) =
      invalid "Field cannot be a nullable type and have a default specified" ∧
    fieldDefault exE exC [] (.list .bool none none) .null = ccrash "NotImplementedError" := by
  exact ⟨rfl, rfl, rfl, rfl, rfl⟩

/-- a compiler whose pattern test is the runtime's (what repairing D12 gives): the law holds -/
def anchoredC : CExt := { exC with prefixMatch := exE.patMatch }

example : ∃ v', validate exE emptyEnv (.str {} none none (some "[a-z]{2}")) (.str "ab") = .ok v' ∧ acceptedAs exE (.str "ab") v' :=
  default_valid_partial exE anchoredC [] emptyEnv (by decide) (.str none none (some "[a-z]{2}")) (.str "ab") (.str "ab") _ _
    (by decide) (fun _ _ _ h => h) rfl rfl rfl

/-! ## 3. reading a defaulted field that was never set -/

/-- `Attribute.__get__`: an unset field that is not nullable reads as its default. -/
theorem default_read (env : Env) (cls name : String) (slots : List (String × PyVal)) (f : FieldDef) (d : PyVal)
    (hf : (env.struct? cls).bind (·.field? name) = some f)
    (hd : f.dflt = some d) (hnn : f.attrNullable = false) (hu : lookupSlot f.name slots = none) :
    getField env (.struct cls slots) name = .ok d := by
  simp [getField, hf, attrGet, hu, hnn, hd]

/-- For the attribute python_types generates from a field whose default the compiler accepted: the
attribute is not nullable (a default on a nullable field is refused), its `default` is the declared
default (`_generate_python_value`), and reading the unset field of any instance returns exactly it. -/
theorem default_read_generated (E : Ext) (C : CExt) (us : List CUnion) (cf : CField) (lit d : Lit) (fd : FieldDef)
    (env : Env) (cls : String) (slots : List (String × PyVal))
    (hacc : fieldDefault E C us cf.ty lit = .ok d) (hcf : cf.dflt = some d) (hfd : fieldDefOfC us cf = some fd)
    (hf : (env.struct? cls).bind (·.field? cf.name) = some fd) (hu : lookupSlot cf.name slots = none) :
    ∃ v, pyOfStored us cf.ty d = some v ∧ fd.dflt = some v ∧ fd.attrNullable = false ∧
      getField env (.struct cls slots) cf.name = .ok v := by
  obtain ⟨vt, _, hname, _, hnull, _, _, hdf⟩ := fieldDefOfC_inv hfd
  simp only [hcf] at hdf
  obtain ⟨v, hp, hdv⟩ := hdf
  have hnn : fd.attrNullable = false := by rw [hnull]; exact fieldDefault_not_nullable hacc
  exact ⟨v, hp, hdv, hnn, default_read env cls cf.name slots fd v hf hdv hnn (by rw [hname]; exact hu)⟩

/-! ## 4. tag defaults: a ready union instance -/

/-- A tag default the compiler accepts is the ready instance `<Declaring class>('<tag>')` — an instance of
the field's union class or of the ancestor that declares the tag — and the field's validator accepts it
by `validate_type_only` (what assignment runs for a union-typed field) and by `validate`. -/
theorem default_tag_valid (E : Ext) (C : CExt) (us : List CUnion) (env : Env) (hU : unionsAgree us env = true)
    (cls : String) (lit d : Lit) (v : PyVal)
    (hd : fieldDefault E C us (.union cls) lit = .ok d) (hv : pyOfStored us (.union cls) d = some v) :
    (∃ c tag, d = .tagref tag ∧ v = .union c tag .none ∧ unionTypeOk env cls v = true) ∧
    validateTypeOnly env (.union {} cls) v = .ok () ∧ validate E env (.union {} cls) v = .ok v := by
  have hc := fieldDefault_check hd
  obtain ⟨h1, h2⟩ := check_union_valid E C us env hU cls d v hc hv
  refine ⟨?_, h2, h1⟩
  cases d <;> simp [check] at hc
  rename_i tag
  obtain ⟨c, u, dc, hc', hu, hdc, rfl⟩ := pyOfStored_tagref hv
  simp [unionOfTy] at hc'; subst hc'
  exact ⟨dc, tag, rfl, rfl, tag_instance_typeOk hU hu hdc⟩

/-! ## 5. assigning the default back -/

/-- `setattr(obj, f, Cls.f.default)` is accepted for the attribute generated from an accepted default
(same two hypotheses as `default_valid_partial`); what is stored is the default (a number in a float
position as the float). -/
theorem default_assign_partial (E : Ext) (C : CExt) (us : List CUnion) (env : Env) (hU : unionsAgree us env = true)
    (cf : CField) (lit d : Lit) (fd : FieldDef) (slots : List (String × PyVal))
    (hts : noTextual cf.ty = true)
    (hpat : ∀ p s, patternOf cf.ty = some p → C.prefixMatch p s = true → E.patMatch p s = true)
    (hacc : fieldDefault E C us cf.ty lit = .ok d) (hcf : cf.dflt = some d) (hfd : fieldDefOfC us cf = some fd) :
    ∃ v v', fd.dflt = some v ∧ attrSet E env fd slots v = .ok (setSlot fd.name v' slots) ∧ acceptedAs E v v' := by
  obtain ⟨vt, hvt, hname, hty, hnull, hud, _, hdf⟩ := fieldDefOfC_inv hfd
  simp only [hcf] at hdf
  obtain ⟨v, hp, hdv⟩ := hdf
  have hnn : fd.attrNullable = false := by rw [hnull]; exact fieldDefault_not_nullable hacc
  have hc := fieldDefault_check hacc
  cases hu : cf.ty.isUserDefinedLit with
  | true =>
    obtain ⟨cls, hcls⟩ := check_userDefined_union hc (fieldDefault_not_nullable hacc) hu
    rw [hcls] at hc hp hvt
    simp [validatorOf] at hvt
    obtain ⟨_, h2⟩ := check_union_valid E C us env hU cls d v hc hp
    refine ⟨v, v, hdv, ?_, Or.inl rfl⟩
    simp [attrSet, hnn, hud, hu, hty, ← hvt, h2, bind, Except.bind, pure, Except.pure]
  | false =>
    obtain ⟨v', h1, h2⟩ := check_valid E C us env hU cf.ty d vt v hts hpat hc hvt hp
    refine ⟨v, v', hdv, ?_, h2⟩
    simp [attrSet, hnn, hud, hu, hty, h1, bind, Except.bind, pure, Except.pure]

/-! ### non-vacuity: a tag inherited from the parent union, read and assigned through the generated tables -/

def exUnions : List CUnion :=
  [ { cls := "ns.Color", chain := [("ns.Color", [{ name := "red", ty := .void }, { name := "green", ty := .int "Int32" none none }])],
      catchAll := some "other" },
    { cls := "ns.Tint", chain := [("ns.Color", [{ name := "red", ty := .void }, { name := "green", ty := .int "Int32" none none }]),
                                  ("ns.Tint", [{ name := "pale", ty := .void }])], catchAll := some "other" } ]

def exApi : CApi :=
  { structs := [ { cls := "ns.S", chain := [("ns.S", [{ name := "f", ty := .union "ns.Tint", dflt := some (.tagref "red") },
                                                      { name := "n", ty := .float "Float64" none none, dflt := some (.flt 0) }])] } ],
    unions := exUnions }

def exEnv : Env := (envOfC exApi).getD emptyEnv

example : (envOfC exApi).isSome = true ∧ unionsAgree exUnions exEnv = true := by decide

example : fieldDefault exE exC exUnions (.union "ns.Tint") (.tagref "red") = .ok (.tagref "red") ∧
    fieldDefault exE exC exUnions (.union "ns.Tint") (.tagref "green") = invalid "invalid reference to non-void option" ∧
    fieldDefault exE exC exUnions (.union "ns.Tint") (.tagref "nosuch") = invalid "invalid reference to unknown tag" ∧
    fieldDefault exE exC exUnions (.union "ns.Tint") (.int 1) = ccrash "AssertionError" ∧
    -- the ready instance belongs to the class that declares the tag (the parent)
    pyOfStored exUnions (.union "ns.Tint") (.tagref "red") = some (.union "ns.Color" "red" .none) ∧
    pyOfStored exUnions (.union "ns.Tint") (.tagref "pale") = some (.union "ns.Tint" "pale" .none) :=
  ⟨rfl, rfl, rfl, rfl, rfl, rfl⟩

example : getField exEnv (.struct "ns.S" []) "f" = .ok (.union "ns.Color" "red" .none) ∧
    getField exEnv (.struct "ns.S" []) "n" = .ok (.flt 0) ∧
    (setField exE exEnv (.struct "ns.S" []) "f" (.union "ns.Color" "red" .none)).bind (getField exEnv · "f")
      = .ok (.union "ns.Color" "red" .none) :=
  ⟨rfl, rfl, rfl⟩

end StoneVerif.C10
