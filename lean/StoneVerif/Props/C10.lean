import StoneVerif.Model.IrCheck
import StoneVerif.Lemmas.IrCheck
/-! Property theorems for C10 (accepted defaults and computed examples are valid for the generated classes). -/
set_option linter.unusedSimpArgs false
namespace StoneVerif.C10
open StoneVerif.Rt StoneVerif.IrCheck

/-- The compile-time types and the runtime validators use the same width limits (over the translator's
output: editing `maximum` of `Int32` in stone/ir/data_types.py, or `default_maximum` in
stone_validators.py, breaks this theorem), so the model's compile-time lookup and the lookup
`validatorOf` makes for the generated validator give the same bounds. -/
theorem default_bounds_agree :
    Tables.irIntBounds = Tables.rtIntBounds ∧ Tables.irFloatBounds = Tables.rtFloatBounds ∧
    (∀ cls, irIntBounds cls = intDefaults cls) ∧ (∀ cls, irFloatBounds cls = floatDefaults cls) := by
  have h1 : Tables.irIntBounds = Tables.rtIntBounds := by decide
  have h2 : Tables.irFloatBounds = Tables.rtFloatBounds := by decide
  refine ⟨h1, h2, ?_, ?_⟩
  · intro cls; simp [irIntBounds, intDefaults, h1]
  · intro cls; simp [irFloatBounds, floatDefaults, h2]

end StoneVerif.C10
