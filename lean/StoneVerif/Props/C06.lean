import StoneVerif.Lemmas.RtDecode
import StoneVerif.Lemmas.RtDecodeSound3
/-!
Property theorems for C06: the JSON decoder returns a value valid for the type or raises its
validation error (`Err.verr`); nothing else escapes (`Err.crash`); every documented form is accepted
and every documented defect of a document is rejected.

All statements are about `decode` / `jsonCompatObjDecode` of `Model/Rt/Decode.lean`, for every table of
external calls `E`, every environment, every caller (`perms`) and both modes (`strict`), unless a
hypothesis says otherwise.
-/
namespace StoneVerif.C06
open StoneVerif.Rt StoneVerif.Rt.DecL

/-- "the decoder raised its validation error" -/
def Rejected (r : R PyVal) : Prop := ∃ m, r = .error (.verr m)

/-! ## 1. The rejection family -/

/-! ### 1a. Wrong JSON kind -/

/-- A list type accepts only arrays (and `null` when nullable). -/
theorem decode_rejects_wrong_kind_list (E : Ext) (env : Env) (perms : List String) (strict : Bool)
    (fl : Flags) (item : PTy) (a b : Option Nat) (j : JVal)
    (h : ∀ xs, j ≠ .arr xs) (hn : fl.nullable = false ∨ j ≠ .null) :
    Rejected (decode E env perms strict (.list fl item a b) j) := by
  unfold Rejected decode
  cases j <;> simp_all [PTy.flags, verr]

/-- A map type accepts only objects (and `null` when nullable). -/
theorem decode_rejects_wrong_kind_map (E : Ext) (env : Env) (perms : List String) (strict : Bool)
    (fl : Flags) (kt vt : PTy) (j : JVal)
    (h : ∀ kvs, j ≠ .obj kvs) (hn : fl.nullable = false ∨ j ≠ .null) :
    Rejected (decode E env perms strict (.map fl kt vt) j) := by
  unfold Rejected decode
  cases j <;> simp_all [PTy.flags, verr]

/-- A struct type refuses every document that is neither an object nor `null`. -/
theorem decode_rejects_wrong_kind_struct (E : Ext) (env : Env) (perms : List String) (strict : Bool)
    (fl : Flags) (cls : String) (j : JVal)
    (h : ∀ kvs, j ≠ .obj kvs) (hn : j ≠ .null) :
    Rejected (decode E env perms strict (.struct fl cls) j) := by
  unfold Rejected decode
  cases j <;> simp_all [PTy.flags, verr]

/-- `null` for a struct type that is not nullable and has a required field is refused as well. -/
theorem decode_rejects_null_struct (E : Ext) (env : Env) (perms : List String) (strict : Bool)
    (fl : Flags) (cls : String) (hn : fl.nullable = false)
    (hd : hasDefault env (.struct {} cls) = false) :
    Rejected (decode E env perms strict (.struct fl cls) .null) := by
  unfold Rejected decode
  simp [PTy.flags, verr, hn, PTy.withFlags, hd]

/-- A struct with enumerated subtypes refuses every non-object (formerly a `TypeError`, defect D8). -/
theorem decode_rejects_wrong_kind_tree (E : Ext) (env : Env) (perms : List String) (strict : Bool)
    (fl : Flags) (cls : String) (j : JVal)
    (h : ∀ kvs, j ≠ .obj kvs) (hn : fl.nullable = false ∨ j ≠ .null) :
    Rejected (decode E env perms strict (.tree fl cls) j) := by
  unfold Rejected decode
  cases j <;> simp_all [PTy.flags, verr]

/-- A union type refuses everything that is neither a string nor an object. -/
theorem decode_rejects_wrong_kind_union (E : Ext) (env : Env) (perms : List String) (strict : Bool)
    (fl : Flags) (cls : String) (u : UnionDef) (j : JVal) (hu : env.union? cls = some u)
    (hs : ∀ s, j ≠ .str s) (ho : ∀ kvs, j ≠ .obj kvs) (hn : fl.nullable = false ∨ j ≠ .null) :
    Rejected (decode E env perms strict (.union fl cls) j) := by
  unfold Rejected decode
  cases j <;> simp_all [PTy.flags, verr]

/-! ### 1b. The `.tag` member -/

theorem decode_rejects_missing_tag_union (E : Ext) (env : Env) (perms : List String) (strict : Bool)
    (fl : Flags) (cls : String) (u : UnionDef) (kvs : List (String × JVal)) (hu : env.union? cls = some u)
    (h : jsonLookup ".tag" kvs = none) :
    Rejected (decode E env perms strict (.union fl cls) (.obj kvs)) := by
  unfold Rejected decode
  simp [hu, h, verr]

theorem decode_rejects_missing_tag_tree (E : Ext) (env : Env) (perms : List String) (strict : Bool)
    (fl : Flags) (cls : String) (kvs : List (String × JVal))
    (h : jsonLookup ".tag" kvs = none) :
    Rejected (decode E env perms strict (.tree fl cls) (.obj kvs)) := by
  unfold Rejected decode
  simp [h, verr]

/-- a `.tag` that is not a string -/
theorem decode_rejects_nonstring_tag_union (E : Ext) (env : Env) (perms : List String) (strict : Bool)
    (fl : Flags) (cls : String) (u : UnionDef) (kvs : List (String × JVal)) (x : JVal)
    (hu : env.union? cls = some u) (h : jsonLookup ".tag" kvs = some x) (hx : ∀ s, x ≠ .str s) :
    Rejected (decode E env perms strict (.union fl cls) (.obj kvs)) := by
  unfold Rejected decode
  cases x <;> simp_all [verr]

theorem decode_rejects_nonstring_tag_tree (E : Ext) (env : Env) (perms : List String) (strict : Bool)
    (fl : Flags) (cls : String) (kvs : List (String × JVal)) (x : JVal)
    (h : jsonLookup ".tag" kvs = some x) (hx : ∀ s, x ≠ .str s) :
    Rejected (decode E env perms strict (.tree fl cls) (.obj kvs)) := by
  unfold Rejected decode
  cases x <;> simp_all [verr]

/-! ### 1c. Unknown tags, the catch-all tag -/

/-- Closed union (no catch-all): a tag the caller cannot see is refused in both modes, in the object
form … -/
theorem decode_rejects_unknown_tag_closed (E : Ext) (env : Env) (perms : List String) (strict : Bool)
    (fl : Flags) (cls : String) (u : UnionDef) (kvs : List (String × JVal)) (tag : String)
    (hu : env.union? cls = some u) (hc : u.catchAll = none)
    (ht : jsonLookup ".tag" kvs = some (.str tag)) (hp : u.isTagPresent tag perms = false) :
    Rejected (decode E env perms strict (.union fl cls) (.obj kvs)) := by
  unfold Rejected decode
  simp [hu, ht, hp, hc, verr]

/-- … and in the bare-string form. -/
theorem decode_rejects_unknown_tag_closed_str (E : Ext) (env : Env) (perms : List String) (strict : Bool)
    (fl : Flags) (cls : String) (u : UnionDef) (tag : String)
    (hu : env.union? cls = some u) (hc : u.catchAll = none) (hp : u.isTagPresent tag perms = false) :
    Rejected (decode E env perms strict (.union fl cls) (.str tag)) := by
  unfold Rejected decode
  simp [hu, hp, hc, verr]

/-- Strict mode: an unknown tag is refused even when the union has a catch-all. -/
theorem decode_rejects_strict_unknown_tag (E : Ext) (env : Env) (perms : List String)
    (fl : Flags) (cls : String) (u : UnionDef) (kvs : List (String × JVal)) (tag : String)
    (hu : env.union? cls = some u)
    (ht : jsonLookup ".tag" kvs = some (.str tag)) (hp : u.isTagPresent tag perms = false) :
    Rejected (decode E env perms true (.union fl cls) (.obj kvs)) := by
  unfold Rejected decode
  simp [hu, ht, hp, verr]

theorem decode_rejects_strict_unknown_tag_str (E : Ext) (env : Env) (perms : List String)
    (fl : Flags) (cls : String) (u : UnionDef) (tag : String)
    (hu : env.union? cls = some u) (hp : u.isTagPresent tag perms = false) :
    Rejected (decode E env perms true (.union fl cls) (.str tag)) := by
  unfold Rejected decode
  simp [hu, hp, verr]

/-- Naming the catch-all tag itself is refused (both modes), object form. -/
theorem decode_rejects_catch_all_tag (E : Ext) (env : Env) (perms : List String) (strict : Bool)
    (fl : Flags) (cls : String) (u : UnionDef) (kvs : List (String × JVal)) (tag : String)
    (hu : env.union? cls = some u) (hc : u.catchAll = some tag)
    (ht : jsonLookup ".tag" kvs = some (.str tag)) (hp : u.isTagPresent tag perms = true) :
    Rejected (decode E env perms strict (.union fl cls) (.obj kvs)) := by
  unfold Rejected decode
  simp [hu, ht, hp, hc, verr]

/-- Naming the catch-all tag itself is refused (both modes), bare-string form. -/
theorem decode_rejects_catch_all_tag_str (E : Ext) (env : Env) (perms : List String) (strict : Bool)
    (fl : Flags) (cls : String) (u : UnionDef) (tag : String)
    (hu : env.union? cls = some u) (hc : u.catchAll = some tag)
    (hp : u.isTagPresent tag perms = true) :
    Rejected (decode E env perms strict (.union fl cls) (.str tag)) := by
  have hv := valDataType_isSome_of_present u tag perms hp
  obtain ⟨ft, hft⟩ := Option.isSome_iff_exists.mp hv
  unfold Rejected decode
  simp only [hu, hp, hft, hc]
  by_cases hvn : (isVoidTy ft || ft.flags.nullable) = true
  · simp [hvn, verr]
  · simp [hvn, verr]

/-! ### 1d. Unknown subtypes of a struct with enumerated subtypes -/

theorem decode_rejects_strict_unknown_subtype (E : Ext) (env : Env) (perms : List String)
    (fl : Flags) (cls : String) (s : StructDef) (kvs : List (String × JVal)) (tag : String)
    (hs : env.struct? cls = some s) (ht : jsonLookup ".tag" kvs = some (.str tag))
    (hf : (s.subtypes.getD []).find? (fun (tags, _, _) => tags == [tag]) = none) :
    Rejected (decode E env perms true (.tree fl cls) (.obj kvs)) := by
  unfold Rejected decode
  simp only [ht, hs, hf]
  simp [verr]

/-- without a catch-all the unknown subtype is refused in lenient mode too -/
theorem decode_rejects_unknown_subtype_closed (E : Ext) (env : Env) (perms : List String) (strict : Bool)
    (fl : Flags) (cls : String) (s : StructDef) (kvs : List (String × JVal)) (tag : String)
    (hs : env.struct? cls = some s) (ht : jsonLookup ".tag" kvs = some (.str tag))
    (hc : s.catchAll = false)
    (hf : (s.subtypes.getD []).find? (fun (tags, _, _) => tags == [tag]) = none) :
    Rejected (decode E env perms strict (.tree fl cls) (.obj kvs)) := by
  unfold Rejected decode
  simp only [ht, hs, hf]
  cases strict <;> simp [verr, hc]

/-- a tag that names an inner node of the subtype tree (not a leaf) is refused -/
theorem decode_rejects_nonleaf_subtype (E : Ext) (env : Env) (perms : List String) (strict : Bool)
    (fl : Flags) (cls : String) (s : StructDef) (kvs : List (String × JVal)) (tag : String)
    (tags : List String) (sc : String)
    (hs : env.struct? cls = some s) (ht : jsonLookup ".tag" kvs = some (.str tag))
    (hf : (s.subtypes.getD []).find? (fun (tags, _, _) => tags == [tag]) = some (tags, sc, true)) :
    Rejected (decode E env perms strict (.tree fl cls) (.obj kvs)) := by
  unfold Rejected decode
  simp only [ht, hs, hf]
  simp [verr]

/-! ### 1e. Strict mode: unknown fields -/

/-- `decode_struct` in strict mode refuses an object with a member whose key is not a field of the caller's
table (members starting with `.tag` are the union / subtype discriminator and are skipped by the check). -/
theorem finishStruct_rejects_strict_unknown_field (E : Ext) (env : Env) (perms : List String)
    (cls : String) (s : StructDef) (kvs : List (String × JVal)) (children : List (String × R PyVal))
    (k : String) (x : JVal)
    (hs : env.struct? cls = some s) (hm : (k, x) ∈ kvs)
    (hk : ((s.fieldsFor perms).map (·.name)).contains k = false) (ht : k.startsWith ".tag" = false) :
    Rejected (finishStruct E env perms true cls kvs children) := by
  unfold Rejected finishStruct
  have : kvs.any (fun (k, _) => !((s.fieldsFor perms).map (·.name)).contains k && !k.startsWith ".tag") = true :=
    List.any_eq_true.mpr ⟨(k, x), hm, by simp only [hk, ht]; rfl⟩
  simp only [hs, this]
  simp [verr]

theorem decode_rejects_strict_unknown_field (E : Ext) (env : Env) (perms : List String)
    (fl : Flags) (cls : String) (s : StructDef) (kvs : List (String × JVal)) (k : String) (x : JVal)
    (hs : env.struct? cls = some s) (hm : (k, x) ∈ kvs)
    (hk : ((s.fieldsFor perms).map (·.name)).contains k = false) (ht : k.startsWith ".tag" = false) :
    Rejected (decode E env perms true (.struct fl cls) (.obj kvs)) := by
  rw [decode_struct_obj]
  exact finishStruct_rejects_strict_unknown_field E env perms cls s kvs _ k x hs hm hk ht

/-! ### 1f. Missing required fields -/

/-- After the table loop, a field that cannot be read (`hasattr` false: not stored, attribute not nullable, no
default) makes `decode_struct` raise its validation error. -/
theorem finishStruct_rejects_missing_required (E : Ext) (env : Env) (perms : List String) (strict : Bool)
    (cls : String) (s : StructDef) (kvs : List (String × JVal)) (children : List (String × R PyVal))
    (slots : List (String × PyVal)) (f : FieldDef)
    (hs : env.struct? cls = some s)
    (hfin : finishFields E env (s.fieldsFor perms) children [] = .ok slots)
    (hf : f ∈ s.fieldsFor perms) (hh : attrHas f slots = false) :
    Rejected (finishStruct E env perms strict cls kvs children) := by
  unfold Rejected finishStruct
  simp only [hs]
  split
  · exact ⟨_, rfl⟩
  · simp only [hfin]
    have : (s.fieldsFor perms).all (fun f => attrHas f slots) = false := by
      rw [List.all_eq_false]; exact ⟨f, hf, by simp [hh]⟩
    simp [this, verr]

/-- The concrete form: the object has no member `f.name`, and `f` is required (attribute not nullable, no
default value, validator without implicit default). Then the document is never accepted … -/
theorem decode_never_accepts_missing_required (E : Ext) (env : Env) (perms : List String) (strict : Bool)
    (fl : Flags) (cls : String) (s : StructDef) (kvs : List (String × JVal)) (f : FieldDef)
    (hs : env.struct? cls = some s) (hf : f ∈ s.fieldsFor perms)
    (huniq : nodupS ((s.fieldsFor perms).map (·.name)) = true)
    (hnn : f.attrNullable = false) (hnd : f.dflt = none) (hd : hasDefault env f.ty = false)
    (hk : jsonLookup f.name kvs = none) :
    ∀ v, decode E env perms strict (.struct fl cls) (.obj kvs) ≠ .ok v := by
  intro v hv
  rw [decode_struct_obj] at hv
  unfold finishStruct at hv
  simp only [hs] at hv
  split at hv
  · cases hv
  · split at hv
    · cases hv
    · rename_i slots hfin
      have hnone : lookupSlot f.name slots = none := by
        refine finishFields_slot_none E env f.name _ _ [] slots ?_ rfl hfin
        intro g hg hn
        have : g = f := nodupS_names_unique (·.name) _ huniq g f hg hf hn
        subst this
        exact ⟨childLookup_decodeMembers_none E env perms strict _ _ kvs hk, hd⟩
      have hh : attrHas f slots = false := by simp [attrHas, attrGet, hnone, hnn, hnd]
      have : (s.fieldsFor perms).all (fun f => attrHas f slots) = false := by
        rw [List.all_eq_false]; exact ⟨f, hf, by simp [hh]⟩
      simp [this, verr] at hv

/-- … and when the members that are there decode and assign, what is raised is the validation error. -/
theorem decode_rejects_missing_required (E : Ext) (env : Env) (perms : List String) (strict : Bool)
    (fl : Flags) (cls : String) (s : StructDef) (kvs : List (String × JVal)) (f : FieldDef)
    (slots : List (String × PyVal))
    (hs : env.struct? cls = some s) (hf : f ∈ s.fieldsFor perms)
    (huniq : nodupS ((s.fieldsFor perms).map (·.name)) = true)
    (hnn : f.attrNullable = false) (hnd : f.dflt = none) (hd : hasDefault env f.ty = false)
    (hk : jsonLookup f.name kvs = none)
    (hfin : finishFields E env (s.fieldsFor perms)
      (decodeMembers E env perms strict (memberTable env perms strict (.struct fl cls) kvs) kvs) [] = .ok slots) :
    Rejected (decode E env perms strict (.struct fl cls) (.obj kvs)) := by
  rw [decode_struct_obj]
  refine finishStruct_rejects_missing_required E env perms strict cls s kvs _ slots f hs hfin hf ?_
  have hnone : lookupSlot f.name slots = none := by
    refine finishFields_slot_none E env f.name _ _ [] slots ?_ rfl hfin
    intro g hg hn
    have : g = f := nodupS_names_unique (·.name) _ huniq g f hg hf hn
    subst this
    exact ⟨childLookup_decodeMembers_none E env perms strict _ _ kvs hk, hd⟩
  simp [attrHas, attrGet, hnone, hnn, hnd]

/-! ### 1g. Values of the wrong kind or outside the declared bounds -/

/-- Boolean, integer, float and string validators: `make_stone_friendly` passes the JSON value through. -/
def isPlainPrim : PTy → Bool
  | .bool _ | .int .. | .float .. | .str .. => true
  | _ => false

/-- At the entry point a primitive type (other than Timestamp / Bytes / Void, which are converted) accepts a
document exactly when `validate` accepts the Python object `json.loads` produced for it. -/
theorem jsonCompatObjDecode_prim (E : Ext) (env : Env) (perms : List String) (strict : Bool) (t : PTy) (j : JVal)
    (hn : t.flags.nullable = false)
    (hp : isPlainPrim t = true) :
    jsonCompatObjDecode E env perms strict t j =
      match validate E env (t.withFlags {}) (pyOfJson j) with
      | .error e => .error e
      | .ok _ => .ok (pyOfJson j) := by
  cases t <;> simp only [isPlainPrim, Bool.false_eq_true] at hp <;>
    (simp only [PTy.flags] at hn; simp only [jsonCompatObjDecode, makeStoneFriendly, PTy.flags, hn];
     simp only [Bool.not_false, Bool.and_self, if_true];
     generalize validate E env _ (pyOfJson j) = r; cases r <;> rfl)

theorem decode_rejects_out_of_bounds_int (E : Ext) (env : Env) (perms : List String) (strict : Bool)
    (fl : Flags) (c : String) (lo hi n : Int) (hn : fl.nullable = false) (h : n < lo ∨ hi < n) :
    Rejected (jsonCompatObjDecode E env perms strict (.int fl c lo hi) (.int n)) := by
  rw [jsonCompatObjDecode_prim E env perms strict (.int fl c lo hi) _ hn rfl]
  have : ¬ (lo ≤ n ∧ n ≤ hi) := by omega
  simp [validate, PTy.withFlags, PTy.flags, pyOfJson, intOf, this, verr, Rejected]

theorem decode_rejects_string_too_long (E : Ext) (env : Env) (perms : List String) (strict : Bool)
    (fl : Flags) (minLen : Option Nat) (m : Nat) (pat : Option String) (s : String)
    (hn : fl.nullable = false) (h : m < s.length) :
    Rejected (jsonCompatObjDecode E env perms strict (.str fl minLen (some m) pat) (.str s)) := by
  rw [jsonCompatObjDecode_prim E env perms strict (.str fl minLen (some m) pat) _ hn rfl]
  have : ¬ (s.length ≤ m) := by omega
  simp [validate, PTy.withFlags, PTy.flags, pyOfJson, geOpt, this, verr, Rejected]

theorem decode_rejects_string_too_short (E : Ext) (env : Env) (perms : List String) (strict : Bool)
    (fl : Flags) (m : Nat) (maxLen : Option Nat) (pat : Option String) (s : String)
    (hn : fl.nullable = false) (h : s.length < m) :
    Rejected (jsonCompatObjDecode E env perms strict (.str fl (some m) maxLen pat) (.str s)) := by
  rw [jsonCompatObjDecode_prim E env perms strict (.str fl (some m) maxLen pat) _ hn rfl]
  have : ¬ (m ≤ s.length) := by omega
  simp only [validate, PTy.withFlags, PTy.flags, pyOfJson, Rejected]
  by_cases hg : geOpt maxLen s.length = true <;> simp [hg, leOpt, this, verr]

theorem decode_rejects_pattern_mismatch (E : Ext) (env : Env) (perms : List String) (strict : Bool)
    (fl : Flags) (minLen maxLen : Option Nat) (p : String) (s : String)
    (hn : fl.nullable = false) (hp : p ≠ "") (h : E.patMatch p s = false) :
    Rejected (jsonCompatObjDecode E env perms strict (.str fl minLen maxLen (some p)) (.str s)) := by
  rw [jsonCompatObjDecode_prim E env perms strict (.str fl minLen maxLen (some p)) _ hn rfl]
  simp only [validate, PTy.withFlags, PTy.flags, pyOfJson, Rejected]
  by_cases hg : geOpt maxLen s.length = true <;> by_cases hl : leOpt minLen s.length = true <;>
    simp [hg, hl, hp, h, verr]

/-- wrong JSON kind for a primitive: anything but a string for String, anything but true/false for Boolean,
anything but an integer (or, as in Python, a boolean) for an integer type -/
theorem decode_rejects_wrong_kind_string (E : Ext) (env : Env) (perms : List String) (strict : Bool)
    (fl : Flags) (minLen maxLen : Option Nat) (pat : Option String) (j : JVal)
    (hn : fl.nullable = false) (h : ∀ s, j ≠ .str s) :
    Rejected (jsonCompatObjDecode E env perms strict (.str fl minLen maxLen pat) j) := by
  rw [jsonCompatObjDecode_prim E env perms strict (.str fl minLen maxLen pat) _ hn rfl]
  cases j <;> simp_all [validate, PTy.withFlags, PTy.flags, pyOfJson, verr, Rejected]

theorem decode_rejects_wrong_kind_bool (E : Ext) (env : Env) (perms : List String) (strict : Bool)
    (fl : Flags) (j : JVal) (hn : fl.nullable = false) (h : ∀ b, j ≠ .bool b) :
    Rejected (jsonCompatObjDecode E env perms strict (.bool fl) j) := by
  rw [jsonCompatObjDecode_prim E env perms strict (.bool fl) _ hn rfl]
  cases j <;> simp_all [validate, PTy.withFlags, PTy.flags, pyOfJson, verr, Rejected]

theorem decode_rejects_wrong_kind_int (E : Ext) (env : Env) (perms : List String) (strict : Bool)
    (fl : Flags) (c : String) (lo hi : Int) (j : JVal) (hn : fl.nullable = false)
    (h : ∀ n, j ≠ .int n) (hb : ∀ b, j ≠ .bool b) :
    Rejected (jsonCompatObjDecode E env perms strict (.int fl c lo hi) j) := by
  rw [jsonCompatObjDecode_prim E env perms strict (.int fl c lo hi) _ hn rfl]
  cases j <;> simp_all [validate, PTy.withFlags, PTy.flags, pyOfJson, intOf, verr, Rejected]

/-- Timestamp and Bytes take strings only -/
theorem decode_rejects_wrong_kind_ts_bytes (E : Ext) (env : Env) (perms : List String) (strict : Bool)
    (fl : Flags) (fmt : String) (j : JVal) (hn : fl.nullable = false) (h : ∀ s, j ≠ .str s) :
    Rejected (jsonCompatObjDecode E env perms strict (.ts fl fmt) j) ∧
    Rejected (jsonCompatObjDecode E env perms strict (.bytes fl) j) := by
  constructor <;> cases j <;> simp_all [jsonCompatObjDecode, makeStoneFriendly, PTy.flags, verr, Rejected]

/-- Struct fields: when the members before `f` (in table order) decode and assign, and the member for `f`
decodes to a value `Attribute.__set__` refuses, the struct is refused with that error. -/
theorem finishFields_rejects_bad_member (E : Ext) (env : Env) (children : List (String × R PyVal))
    (pre post : List FieldDef) (f : FieldDef) (s0 s1 : List (String × PyVal)) (v : PyVal) (e : Err)
    (hpre : finishFields E env pre children s0 = .ok s1)
    (hc : childLookup f.name children = some (.ok v))
    (ha : attrSet E env f s1 v = .error e) :
    finishFields E env (pre ++ f :: post) children s0 = .error e := by
  rw [finishFields_append_ok E env children _ pre s0 s1 hpre, finishFields_cons]
  simp [hc, ha]

theorem finishStruct_rejects_bad_member (E : Ext) (env : Env) (perms : List String) (strict : Bool)
    (cls : String) (s : StructDef) (kvs : List (String × JVal)) (children : List (String × R PyVal))
    (pre post : List FieldDef) (f : FieldDef) (s1 : List (String × PyVal)) (v : PyVal) (m : String)
    (hs : env.struct? cls = some s) (htab : s.fieldsFor perms = pre ++ f :: post)
    (hpre : finishFields E env pre children [] = .ok s1)
    (hc : childLookup f.name children = some (.ok v))
    (ha : attrSet E env f s1 v = .error (.verr m)) :
    Rejected (finishStruct E env perms strict cls kvs children) := by
  unfold Rejected finishStruct
  simp only [hs]
  split
  · exact ⟨_, rfl⟩
  · rw [htab, finishFields_rejects_bad_member E env children pre post f [] s1 v _ hpre hc ha]
    exact ⟨_, rfl⟩

/-- `Attribute.__set__` of an integer field refuses an integer outside the declared range … -/
theorem attrSet_rejects_out_of_bounds_int (E : Ext) (env : Env) (f : FieldDef) (slots : List (String × PyVal))
    (fl : Flags) (c : String) (lo hi n : Int)
    (hty : f.ty = .int fl c lo hi) (hu : f.attrUserDefined = false) (h : n < lo ∨ hi < n) :
    ∃ m, attrSet E env f slots (.int n) = .error (.verr m) := by
  have : ¬ (lo ≤ n ∧ n ≤ hi) := by omega
  simp [attrSet_eq, isNoneV, hu, hty, validate, PTy.flags, intOf, this, verr, Except.map]

/-- … and a string field refuses a non-string and a string that is too long. -/
theorem attrSet_rejects_bad_string (E : Ext) (env : Env) (f : FieldDef) (slots : List (String × PyVal))
    (fl : Flags) (minLen : Option Nat) (m : Nat) (pat : Option String) (x : PyVal)
    (hty : f.ty = .str fl minLen (some m) pat) (hu : f.attrUserDefined = false)
    (hx : x ≠ .none) (h : ∀ s, x = .str s → m < s.length) :
    ∃ msg, attrSet E env f slots x = .error (.verr msg) := by
  cases x <;> simp_all [attrSet_eq, isNoneV, validate, PTy.flags, verr, Except.map, geOpt]

/-! ## 2. The forms the serializer specification declares valid -/

/-- The bare-string form of a Void tag: `"tag"` decodes to the union value `cls.tag`. -/
theorem decode_accepts_bare_void_tag (E : Ext) (env : Env) (perms : List String) (strict : Bool)
    (fl : Flags) (cls : String) (u : UnionDef) (tag : String) (ft : PTy) (vfl : Flags)
    (hu : env.union? cls = some u) (hp : u.isTagPresent tag perms = true)
    (hv : u.valDataType tag perms = some ft) (hvoid : isVoidTy ft = true)
    (hc : u.catchAll ≠ some tag)
    (hctor : u.ctorValidator tag = some (.void vfl)) (hvn : vfl.nullable = false) :
    decode E env perms strict (.union fl cls) (.str tag) = .ok (.union cls tag .none) := by
  unfold decode
  have hc' : (some tag == u.catchAll) = false := by
    cases hca : u.catchAll with
    | none => rfl
    | some c => simp only [hca] at hc; simpa using fun h => hc (by rw [h])
  simp [hu, hp, hv, hvoid, hc', mkUnion, hctor, PTy.flags, hvn]

/-- The tag-only form of a nullable member: `{".tag": "tag"}` decodes to `cls.tag(None)`. -/
theorem decode_accepts_tag_only_nullable (E : Ext) (env : Env) (perms : List String) (strict : Bool)
    (fl : Flags) (cls : String) (u : UnionDef) (tag : String) (ft vt : PTy)
    (hu : env.union? cls = some u) (hp : u.isTagPresent tag perms = true)
    (hv : u.valDataType tag perms = some ft) (hvoid : isVoidTy ft = false) (hn : ft.flags.nullable = true)
    (hc : u.catchAll ≠ some tag) (htag : tag ≠ ".tag")
    (hctor : u.ctorValidator tag = some vt) (hvn : vt.flags.nullable = true) :
    decode E env perms strict (.union fl cls) (.obj [(".tag", .str tag)]) = .ok (.union cls tag .none) := by
  have hc' : (some tag == u.catchAll) = false := by
    cases hca : u.catchAll with
    | none => rfl
    | some c => simp only [hca] at hc; simpa using fun h => hc (by rw [h])
  have hmk : mkUnion E env cls tag .none = .ok (.union cls tag .none) := by
    simp [mkUnion, hu, hctor, hvn, validate_nullable_none E env vt hvn, bind, Except.bind, pure, Except.pure]
  have htag' : (".tag" == tag) = false := by simpa using fun h => htag h.symm
  have hj : jsonLookup tag [(".tag", JVal.str tag)] = none := by simp [jsonLookup, htag']
  have hcl := childLookup_decodeMembers_none E env perms strict
      (memberTable env perms strict (.union fl cls) [(".tag", JVal.str tag)]) tag _ hj
  unfold decode
  by_cases hps : isPlainStruct ft = true
  · simp [hu, jsonLookup, hp, hc', hv, hvoid, hn, hps, hmk]
  · simp [hu, jsonLookup, hp, hc', hv, hvoid, hn, hps, hmk, hcl, Ne.symm htag]

/-- An explicit `null` member for a field with a nullable validator is treated exactly as if the member were
absent (whatever else the document contains, in both modes, for every caller). -/
theorem decode_accepts_explicit_null_field (E : Ext) (env : Env) (perms : List String) (strict : Bool)
    (fl : Flags) (cls : String) (s : StructDef) (pre post : List (String × JVal)) (f : FieldDef)
    (hs : env.struct? cls = some s) (hf : f ∈ s.fieldsFor perms)
    (hnull : ∀ g ∈ s.fieldsFor perms, g.name = f.name → g.ty.flags.nullable = true)
    (hpost : jsonLookup f.name post = none) :
    decode E env perms strict (.struct fl cls) (.obj (pre ++ (f.name, .null) :: post)) =
    decode E env perms strict (.struct fl cls) (.obj (pre ++ post)) :=
  decode_struct_null_member E env perms strict fl cls s pre post f hs hf hnull hpost

/-- Omitted optional fields: a struct all of whose fields (as the caller sees them) are optional accepts the
empty object; every field then reads as None or as its default. -/
theorem decode_accepts_omitted_optional (E : Ext) (env : Env) (perms : List String) (strict : Bool)
    (fl : Flags) (cls : String) (s : StructDef)
    (hs : env.struct? cls = some s)
    (huniq : nodupS ((s.fieldsFor perms).map (·.name)) = true)
    (hopt : ∀ f ∈ s.fieldsFor perms, f.optional env = true) :
    ∃ slots, decode E env perms strict (.struct fl cls) (.obj []) = .ok (.struct cls slots) ∧
      ∀ f ∈ s.fieldsFor perms, attrHas f slots = true := by
  obtain ⟨slots, hfin, hall, _⟩ := finishFields_all_optional E env (s.fieldsFor perms) [] huniq hopt
  refine ⟨slots, ?_, hall⟩
  rw [decode_struct_obj]
  unfold finishStruct
  have : (s.fieldsFor perms).all (fun f => attrHas f slots) = true := List.all_eq_true.mpr hall
  simp [hs, decodeMembers, hfin, this]

/-- One optional field at a time: a field without a member in the document that has a default value (and whose
validator has no implicit default) is skipped by the table loop, and reads as its default afterwards. -/
theorem finishFields_skips_defaulted (E : Ext) (env : Env) (f : FieldDef) (rest : List FieldDef)
    (children : List (String × R PyVal)) (slots : List (String × PyVal))
    (hc : childLookup f.name children = none) (hd : hasDefault env f.ty = false) :
    finishFields E env (f :: rest) children slots = finishFields E env rest children slots := by
  rw [finishFields_cons]; simp [hc, hd]

theorem attrHas_of_default (f : FieldDef) (slots : List (String × PyVal)) (h : f.dflt.isSome = true) :
    attrHas f slots = true := by
  simp only [attrHas, attrGet]
  cases lookupSlot f.name slots with
  | some v => rfl
  | none => cases f.attrNullable <;> simp [h]

/-! ## 3. No other exception escapes -/

/-- For every environment an accepted spec can produce (`envWF`, checked by the driver on every environment the
harness sends; `fieldFlagsWF`: the `bb.Attribute` flags agree with the validator objects), every validator
whose classes exist (`tyWF`), every caller, both modes and EVERY document — whatever its shape — the decoder
raises nothing but its validation error: no `KeyError`, `TypeError`, `AttributeError`, `NameError` …
(`Err.crash`) escapes. -/
theorem decode_no_crash (E : Ext) (env : Env) (perms : List String) (strict : Bool) (t : PTy) (j : JVal)
    (hwf : envWF env = true) (hff : fieldFlagsWF env = true) (ht : tyWF env t = true) :
    ∀ e, decode E env perms strict t j ≠ .error (.crash e) :=
  decode_nc E env perms strict hwf hff j t ht

/-- The same for the entry point `json_compat_obj_decode`. -/
theorem jsonCompatObjDecode_no_crash (E : Ext) (env : Env) (perms : List String) (strict : Bool) (t : PTy)
    (j : JVal) (hwf : envWF env = true) (hff : fieldFlagsWF env = true) (ht : tyWF env t = true) :
    ∀ e, jsonCompatObjDecode E env perms strict t j ≠ .error (.crash e) := by
  have hd := decode_nc E env perms strict hwf hff j t ht
  unfold jsonCompatObjDecode
  cases t <;> simp only [] <;> repeat' split
  all_goals first
    | exact makeStoneFriendly_nc E env perms strict true _ j
    | exact validate_nc E env _ _
    | exact NoCrash.ok _
    | (rename_i e he; intro e' h; exact hd e' (by rw [he]; cases h; rfl))

/-- Without `fieldFlagsWF` the statement is false of the model: a field flagged `user_defined` whose validator is
a primitive makes `Attribute.__set__` call a method the validator does not have. (No generated module has such a
field; the harness evaluates `fieldFlagsWF` on every environment it builds from real specs.) -/
example :
    let f : FieldDef := ⟨"a", .bool {}, false, true, none, none⟩
    let env : Env := ⟨[⟨"ns.S", [⟨"ns.S", [f]⟩], none, false⟩], []⟩
    envWF env = true ∧ fieldFlagsWF env = false ∧
    ∀ E, decode E env [] false (.struct {} "ns.S") (.obj [("a", .bool true)]) = crash "AttributeError" :=
  ⟨by decide +kernel, by decide +kernel, fun _ => rfl⟩

/-! ## Non-vacuity: a small environment on which every hypothesis above is met -/

/-- external calls: any table will do (the theorems hold for every `Ext`) -/
def E0 : Ext where
  fltLt _ _ := false
  fltIsNan _ := false
  fltIsInf _ := false
  fltOfInt _ := some 0
  patMatch _ _ := true
  b64enc s := s
  b64dec s := some (some s)
  strftime _ _ := ""
  strptime _ _ := some 0
  md5 s := s
  reSearch _ _ := none
  strOfInt _ := ""
  strOfFlt _ := ""

def fA : FieldDef := ⟨"a", .int {} "Int32" (-5) 5, false, false, none, none⟩                      -- a Int32(min=-5,max=5)
def fB : FieldDef := ⟨"b", .str { nullable := true } none (some 3) none, true, false, none, none⟩  -- b String(max_length=3)?
def fC : FieldDef := ⟨"c", .bool {}, false, false, some (.bool true), none⟩                        -- c Boolean = true
def fH : FieldDef := ⟨"h", .str {} none none none, false, false, none, some "internal"⟩            -- h String, omitted for "internal"
def fN : FieldDef := ⟨"n", .str {} none none none, false, false, none, none⟩
def sS : StructDef := ⟨"ns.S", [⟨"ns.S", [fA, fB, fC, fH]⟩], none, false⟩
def sO : StructDef := ⟨"ns.O", [⟨"ns.O", [fB, fC]⟩], none, false⟩                                  -- all fields optional
def sR : StructDef := ⟨"ns.R", [⟨"ns.R", [fA]⟩], some [(["file"], "ns.F", false), (["dir"], "ns.D", true)], true⟩
def sF : StructDef := ⟨"ns.F", [⟨"ns.R", [fA]⟩, ⟨"ns.F", [fN]⟩], none, false⟩
def sD : StructDef := ⟨"ns.D", [⟨"ns.R", [fA]⟩, ⟨"ns.D", []⟩], some [], false⟩
def uU : UnionDef := ⟨"ns.U", [⟨"ns.U", [⟨"v", .void {}, none⟩, ⟨"n", .str { nullable := true } none none none, none⟩,
    ⟨"s", .struct {} "ns.S", none⟩, ⟨"p", .void {}, some "internal"⟩, ⟨"other", .void {}, none⟩]⟩], some "other"⟩
def uC : UnionDef := ⟨"ns.C", [⟨"ns.C", [⟨"x", .void {}, none⟩, ⟨"i", .int {} "Int32" 0 9, none⟩]⟩], none⟩
def env0 : Env := ⟨[sS, sO, sR, sF, sD], [uU, uC]⟩

example : envWF env0 = true ∧ fieldFlagsWF env0 = true := by decide +kernel

/-- closed union: unknown tag refused in lenient mode; open union: lenient falls back to the catch-all, strict refuses -/
example : env0.union? "ns.C" = some uC ∧ uC.catchAll = none ∧ uC.isTagPresent "zz" [] = false ∧
    env0.union? "ns.U" = some uU ∧ uU.isTagPresent "zz" [] = false ∧ uU.isTagPresent "p" [] = false ∧
    uU.isTagPresent "p" ["internal"] = true :=
  ⟨rfl, rfl, by decide +kernel, rfl, by decide +kernel, by decide +kernel, by decide +kernel⟩
example : decode E0 env0 [] false (.union {} "ns.U") (.str "zz") = .ok (.union "ns.U" "other" .none) ∧
    decode E0 env0 [] true (.union {} "ns.U") (.str "zz") = verr "unknown tag" ∧
    decode E0 env0 [] false (.union {} "ns.C") (.obj [(".tag", .str "zz")]) = verr "unknown tag" :=
  ⟨rfl, rfl, rfl⟩
/-- the catch-all tag itself -/
example : uU.catchAll = some "other" ∧ uU.isTagPresent "other" [] = true := by decide +kernel
example : Rejected (decode E0 env0 [] false (.union {} "ns.U") (.str "other")) ∧
    Rejected (decode E0 env0 [] false (.union {} "ns.U") (.obj [(".tag", .str "other")])) :=
  ⟨decode_rejects_catch_all_tag_str _ _ _ _ _ _ uU _ rfl rfl (by decide +kernel),
   decode_rejects_catch_all_tag _ _ _ _ _ _ uU _ "other" rfl rfl rfl (by decide +kernel)⟩

/-- subtypes: unknown tag in strict mode; lenient mode on a catch-all root returns the base struct; inner node -/
example : env0.struct? "ns.R" = some sR ∧
    (sR.subtypes.getD []).find? (fun (tags, _, _) => tags == ["zip"]) = none ∧
    (sR.subtypes.getD []).find? (fun (tags, _, _) => tags == ["dir"]) = some (["dir"], "ns.D", true) := ⟨rfl, rfl, rfl⟩
example : decode E0 env0 [] true (.tree {} "ns.R") (.obj [(".tag", .str "zip"), ("a", .int 1)]) = verr "unknown subtype" ∧
    decode E0 env0 [] false (.tree {} "ns.R") (.obj [(".tag", .str "zip"), ("a", .int 1)]) = .ok (.struct "ns.R" [("a", .int 1)]) ∧
    decode E0 env0 [] false (.tree {} "ns.R") (.obj [(".tag", .str "file"), ("a", .int 1), ("n", .str "x")]) =
      .ok (.struct "ns.F" [("a", .int 1), ("n", .str "x")]) ∧
    Rejected (decode E0 env0 [] false (.tree {} "ns.R") (.obj [(".tag", .str "dir"), ("a", .int 1)])) :=
  ⟨rfl, rfl, rfl, _, rfl⟩

/-- strict unknown field (also: the field omitted for a caller class the caller does not hold) -/
example : env0.struct? "ns.S" = some sS ∧ ((sS.fieldsFor []).map (·.name)).contains "zz" = false ∧
    ((sS.fieldsFor []).map (·.name)).contains "h" = false ∧ ((sS.fieldsFor ["internal"]).map (·.name)).contains "h" = true ∧
    "zz".startsWith ".tag" = false := ⟨rfl, by decide +kernel, by decide +kernel, by decide +kernel, by decide +kernel⟩
example : decode E0 env0 [] true (.struct {} "ns.S") (.obj [("a", .int 1), ("zz", .null)]) = verr "unknown field" ∧
    decode E0 env0 [] false (.struct {} "ns.S") (.obj [("a", .int 1), ("zz", .null)]) = .ok (.struct "ns.S" [("a", .int 1)]) ∧
    decode E0 env0 [] true (.struct {} "ns.S") (.obj [("a", .int 1), ("h", .str "x")]) = verr "unknown field" :=
  ⟨rfl, rfl, rfl⟩

/-- missing required field `a` -/
example : fA ∈ sS.fieldsFor [] ∧ nodupS ((sS.fieldsFor []).map (·.name)) = true ∧ fA.attrNullable = false ∧
    fA.dflt = none ∧ hasDefault env0 fA.ty = false ∧ jsonLookup fA.name [("b", .str "x")] = none := by
  refine ⟨?_, by decide +kernel, rfl, rfl, by decide +kernel, by decide +kernel⟩
  show fA ∈ [fA, fB, fC]
  exact List.mem_cons_self
example : decode E0 env0 [] false (.struct {} "ns.S") (.obj [("b", .str "x")]) = verr "missing required field" := rfl

/-- out of bounds / wrong kind, top level and in a field -/
example : Rejected (jsonCompatObjDecode E0 env0 [] false (.int {} "Int32" (-5) 5) (.int 6)) :=
  decode_rejects_out_of_bounds_int _ _ _ _ _ _ _ _ _ rfl (by decide)
example : decode E0 env0 [] false (.struct {} "ns.S") (.obj [("a", .int 6)]) = verr "not within range" ∧
    decode E0 env0 [] false (.struct {} "ns.S") (.obj [("a", .str "1")]) = verr "expected integer" ∧
    decode E0 env0 [] false (.struct {} "ns.S") (.obj [("a", .int 1), ("b", .str "long")]) = verr "too long" :=
  ⟨rfl, rfl, rfl⟩

/-- the must-accept forms -/
example : decode E0 env0 [] true (.union {} "ns.U") (.str "v") = .ok (.union "ns.U" "v" .none) :=
  decode_accepts_bare_void_tag _ _ _ _ _ _ uU _ (.void {}) {} rfl (by decide +kernel) rfl rfl
    (by decide +kernel) rfl rfl
example : decode E0 env0 [] true (.union {} "ns.U") (.obj [(".tag", .str "n")]) = .ok (.union "ns.U" "n" .none) :=
  decode_accepts_tag_only_nullable _ _ _ _ _ _ uU _ (.str { nullable := true } none none none) (.str { nullable := true } none none none)
    rfl (by decide +kernel) rfl rfl rfl (by decide +kernel) (by decide +kernel) rfl rfl
example : decode E0 env0 [] true (.struct {} "ns.S") (.obj [("a", .int 1), ("b", .null), ("c", .bool false)]) =
    decode E0 env0 [] true (.struct {} "ns.S") (.obj [("a", .int 1), ("c", .bool false)]) ∧
    decode E0 env0 [] true (.struct {} "ns.S") (.obj [("a", .int 1), ("c", .bool false)]) =
      .ok (.struct "ns.S" [("a", .int 1), ("c", .bool false)]) := ⟨rfl, rfl⟩
example : nodupS ((sO.fieldsFor []).map (·.name)) = true ∧ (sO.fieldsFor []).all (·.optional env0) = true := by
  decide +kernel
example : decode E0 env0 [] true (.struct {} "ns.O") (.obj []) = .ok (.struct "ns.O" []) := rfl

/-- `decode_no_crash` on `env0`: documents of the shapes that used to escape with other exceptions (a non-object
for a struct with enumerated subtypes; a number where a union is expected; a list where a struct is) are refused
with the validation error. -/
example : tyWF env0 (.tree {} "ns.R") = true ∧ tyWF env0 (.union {} "ns.U") = true ∧
    tyWF env0 (.map {} (.str {} none none none) (.list {} (.struct {} "ns.S") none none)) = true := by decide +kernel
example : decode E0 env0 [] false (.tree {} "ns.R") (.arr []) = verr "expected object" ∧
    decode E0 env0 [] false (.union {} "ns.U") (.int 3) = verr "expected string or object" ∧
    decode E0 env0 [] false (.map {} (.str {} none none none) (.list {} (.struct {} "ns.S") none none))
      (.obj [("k", .arr [.arr []])]) = verr "expected object" := ⟨rfl, rfl, rfl⟩

/-! ## 4. What is returned is valid for the type -/

/-
The statement at full strength,

    theorem decode_sound : envWF env → fieldFlagsWF env → tyWF env t →
        decode E env perms strict t j = .ok v → validB E env t v = true

is FALSE of the model (and of the Python it mirrors) in three ways; each has a witness below.
 (a) `decode` (the helper) does not validate primitives, lists or maps itself: the enclosing assignment,
     constructor or the entry point does. So the statement is about `jsonCompatObjDecode` at any type, and about
     `decode` at struct / enumerated-subtypes / union types.
 (b) lenient mode, enumerated-subtypes root with a catch-all, unknown `.tag`: the decoder returns an instance of
     the root class; clause `(leafTag? env cls c).isSome` of `validB` at `.tree` fails (by design: the valid
     value there is the base struct).
 (c) a caller holding a permission decodes a tag omitted for that caller class: clause `publicTag?` of `validB`
     at `.union` fails (`validB` is the validity of the permission-less view).
 The proved statements exclude exactly (b) and (c).

 A fourth way, (d), was a genuine defect and has been REPAIRED in stone_validators.py (`StructTree.has_default()`
 is now `False`; the model's `hasDefault` mirrors it): a struct field whose type is an enumerated-subtypes root
 with no required field, absent from the document, used to be filled with `Root()` (`has_default()` /
 `get_default()` inherited from `bv.Struct`), which is not an instance of any leaf. The document is now refused
 with "missing required field" (example on `env1` at the end), and the former hypothesis `noDefaultedTrees env`
 of the theorems below is gone (it holds of every environment: `noDefaultedTrees_holds`).
-/

/-- `json_compat_obj_decode`, any well-formed type: what is returned is valid for the type (`validB`: deep
validity, required fields present, union payloads valid). Hypotheses: strict mode or no catch-all trees (b);
every tag the caller sees is public, e.g. `perms = []` (c). -/
theorem decode_sound_partial (E : Ext) (env : Env) (perms : List String) (strict : Bool) (t : PTy) (j : JVal)
    (v : PyVal) (hwf : envWF env = true) (hff : fieldFlagsWF env = true) (ht : tyWF env t = true)
    (hcat : strict = true ∨ noCatchAllTrees env = true)
    (hvis : visibleTagsPublic env perms = true)
    (h : jsonCompatObjDecode E env perms strict t j = .ok v) : validB E env t v = true :=
  jsonCompatObjDecode_valid E env perms strict hwf hff hcat hvis t j v ht h

/-- The recursive helper at user-defined types (struct, enumerated subtypes, union — at any nesting depth, since
`decode` is one recursive function): what is returned is valid for the type. -/
theorem decode_sound_user_partial (E : Ext) (env : Env) (perms : List String) (strict : Bool) (t : PTy) (j : JVal)
    (v : PyVal) (hwf : envWF env = true) (hff : fieldFlagsWF env = true) (ht : tyWF env t = true)
    (hu : isUserTy t = true)
    (hcat : strict = true ∨ noCatchAllTrees env = true)
    (hvis : visibleTagsPublic env perms = true)
    (h : decode E env perms strict t j = .ok v) : validB E env t v = true :=
  (Pre_user E env t v hu).mp (decode_pre E env perms strict hwf hff hcat hvis j t ht v h)

/-- For the caller without permissions the second hypothesis is free. -/
theorem visibleTagsPublic_nil (env : Env) : visibleTagsPublic env [] = true := by
  simp only [visibleTagsPublic, List.all_eq_true]
  intro u _ t _
  cases t.omitted <;> simp

/-- Either outcome: a valid value or the validation error (C06's first sentence, with 3.). -/
theorem decode_valid_or_rejected (E : Ext) (env : Env) (perms : List String) (strict : Bool) (t : PTy) (j : JVal)
    (hwf : envWF env = true) (hff : fieldFlagsWF env = true) (ht : tyWF env t = true)
    (hcat : strict = true ∨ noCatchAllTrees env = true)
    (hvis : visibleTagsPublic env perms = true) :
    (∃ v, jsonCompatObjDecode E env perms strict t j = .ok v ∧ validB E env t v = true) ∨
    Rejected (jsonCompatObjDecode E env perms strict t j) := by
  cases h : jsonCompatObjDecode E env perms strict t j with
  | ok v => exact Or.inl ⟨v, rfl, decode_sound_partial E env perms strict t j v hwf hff ht hcat hvis h⟩
  | error e =>
    cases e with
    | verr m => exact Or.inr ⟨m, rfl⟩
    | crash c => exact absurd h (jsonCompatObjDecode_no_crash E env perms strict t j hwf hff ht c)

/-- non-vacuity on `env0` (which has a catch-all tree, so: strict mode) -/
example : visibleTagsPublic env0 [] = true ∧ noCatchAllTrees env0 = false := by
  decide +kernel
example :
    (match jsonCompatObjDecode E0 env0 [] true (.map {} (.str {} none none none) (.union {} "ns.U"))
      (.obj [("k", .obj [(".tag", .str "s"), ("a", .int 2), ("b", .str "xy")]), ("l", .str "v")]) with
     | .ok (.dict [(.str "k", .union "ns.U" "s" (.struct "ns.S" [("a", .int 2), ("b", .str "xy")])),
                   (.str "l", .union "ns.U" "v" .none)]) => true
     | _ => false) = true := by decide +kernel

/-- witness (a): the helper alone does not validate a primitive; the entry point does -/
example : decode E0 env0 [] true (.int {} "Int32" (-5) 5) (.int 99) = .ok (.int 99) ∧
    validB E0 env0 (.int {} "Int32" (-5) 5) (.int 99) = false ∧
    jsonCompatObjDecode E0 env0 [] true (.int {} "Int32" (-5) 5) (.int 99) = verr "not within range" :=
  ⟨rfl, by decide +kernel, rfl⟩

/-- witness (b): lenient mode, catch-all root `ns.R`, unknown subtype -/
example : decode E0 env0 [] false (.tree {} "ns.R") (.obj [(".tag", .str "zip"), ("a", .int 1)]) =
      .ok (.struct "ns.R" [("a", .int 1)]) ∧
    validB E0 env0 (.tree {} "ns.R") (.struct "ns.R" [("a", .int 1)]) = false ∧
    leafTag? env0 "ns.R" "ns.R" = none := ⟨rfl, by decide +kernel, by decide +kernel⟩

/-- witness (c): the caller holds "internal" and names the tag `p` omitted for "internal" -/
example : decode E0 env0 ["internal"] true (.union {} "ns.U") (.str "p") = .ok (.union "ns.U" "p" .none) ∧
    validB E0 env0 (.union {} "ns.U") (.union "ns.U" "p" .none) = false ∧
    visibleTagsPublic env0 ["internal"] = false := ⟨rfl, by decide +kernel, by decide +kernel⟩

/-- former witness (d), now the repaired behaviour: `struct T { r R2 }`, `R2` an enumerated-subtypes root (closed)
whose only field is optional. `r` absent from the document used to decode to `T(r=R2())` (invalid: `R2()` is no leaf);
since `StructTree.has_default()` is `False` the document is refused, in both modes, and through the entry point. -/
def fA2 : FieldDef := ⟨"a", .int { nullable := true } "Int32" (-5) 5, true, false, none, none⟩
def env1 : Env := ⟨[⟨"ns.R2", [⟨"ns.R2", [fA2]⟩], some [(["f"], "ns.F2", false)], false⟩,
    ⟨"ns.F2", [⟨"ns.R2", [fA2]⟩, ⟨"ns.F2", [fN]⟩], none, false⟩,
    ⟨"ns.T", [⟨"ns.T", [⟨"r", .tree {} "ns.R2", false, true, none, none⟩]⟩], none, false⟩], []⟩
example : envWF env1 = true ∧ fieldFlagsWF env1 = true ∧ noCatchAllTrees env1 = true := by decide +kernel
/-- the root has no required field (as a plain struct type it would have the implicit default), yet as a tree it has none -/
example : hasDefault env1 (.struct {} "ns.R2") = true ∧ hasDefault env1 (.tree {} "ns.R2") = false ∧
    hasDefault env1 (.tree { nullable := true } "ns.R2") = true := by decide +kernel
example : decode E0 env1 [] true (.struct {} "ns.T") (.obj []) = verr "missing required field" ∧
    decode E0 env1 [] false (.struct {} "ns.T") (.obj []) = verr "missing required field" ∧
    jsonCompatObjDecode E0 env1 [] true (.struct {} "ns.T") (.obj []) = verr "missing required field" ∧
    (∀ v, decode E0 env1 [] true (.struct {} "ns.T") (.obj []) ≠ .ok v) ∧
    -- the value formerly returned is (still) not valid for the type
    validB E0 env1 (.struct {} "ns.T") (.struct "ns.T" [("r", .struct "ns.R2" [])]) = false ∧
    -- the root written out without `.tag` is refused as before; a leaf is accepted and valid
    (∃ m, decode E0 env1 [] true (.struct {} "ns.T") (.obj [("r", .obj [])]) = .error (.verr m)) ∧
    (match decode E0 env1 [] true (.struct {} "ns.T") (.obj [("r", .obj [(".tag", .str "f"), ("n", .str "x")])]) with
     | .ok (.struct "ns.T" [("r", .struct "ns.F2" [("n", .str "x")])]) => true
     | _ => false) = true ∧
    validB E0 env1 (.struct {} "ns.T") (.struct "ns.T" [("r", .struct "ns.F2" [("n", .str "x")])]) = true :=
  ⟨rfl, rfl, rfl, fun _ h => (by cases h), by decide +kernel, ⟨_, rfl⟩, by decide +kernel, by decide +kernel⟩
/-- the dropped hypothesis is a theorem now -/
example (env : Env) : noDefaultedTrees env = true := noDefaultedTrees_holds env

end StoneVerif.C06
