import StoneVerif.Gen.Tables
import StoneVerif.Model.Lex
import StoneVerif.Model.Stdin
import StoneVerif.Lemmas.Lex
import StoneVerif.Lemmas.Stdin
import StoneVerif.Model.DocTrim
import StoneVerif.Lemmas.DocTrim
/-!
Property theorems for C11 (layout and delivery do not change the meaning), parts A and C: what is *proved*.

* line-level lexer model (`Model/Lex.lean`, tied to stone/frontend/lexer.py by the `fe.lex` suite):
  `dent_canonical`, `dent_insensitive_many`, `dent_insensitive_lines`, `dent_insensitive` (blank, space-only and
  comment-only lines anywhere outside string literals, inside parentheses included), `head_indent_needed` (the one
  hypothesis is necessary: the real lexer never checks the first line), `trailing_ws`, `paren_break`,
  `paren_break_two`, `dent_balanced`, `dent_balanced_counts`, tables `lexer_layout_table`, `newline_grammar_table`
* stdin splitter model (`Model/Stdin.lean`, stone/cli.py): `stdin_split`, `stdin_split_names`,
  `stdin_split_preamble`, `stdin_split_string`, `stdin_split_regression` (D14 repaired), `stdin_split_witness`
  (what still cuts a text: a doc-string line beginning with the word), table `stdin_split_table`
* documentation-string rule of the parser (`Model/DocTrim.lean`, stone/frontend/parser.py `p_docstring_string`):
  `doc_trailing_ws`, `doc_trailing_ws_text` (white space appended to any lines of a doc text is not seen),
  `doc_clean_lines`, `doc_clean_no_trailing`, `doc_clean_idem`, `doc_last_line_only_witness` (trimming only the end
  of the text is not enough), table `docstring_rule_table`

File order, definition order and splitting (part B of the check) are NOT theorems here: they are tested on the
real compiler and the real backends by harness/suites/layout.py.
-/
namespace StoneVerif.C11
open StoneVerif.Lex

/-! ## The literals the models were written from -/

/-- indentation unit (`% 4`, `// 4`, `* 4`), the continuation rule (`indent_delta == 1`), the lexer states, the
ignored characters, the newline / comment / parenthesis / string rules, the token types the end-of-input branch
looks at. -/
theorem lexer_layout_table :
    Tables.lexIndentLiterals = [indentUnit, indentUnit, indentUnit] ∧
    Tables.lexContinuationDeltas = [1] ∧
    Tables.lexStates = [("WSIGNORE", "inclusive")] ∧
    Tables.lexIgnore = " \t" ∧
    Tables.lexLayoutRules =
      [("t_LPAR", "\\("), ("t_RPAR", "\\)"), ("t_ANY_STRING", "\\\"([^\\\\\"]|(\\\\.))*\\\""),
       ("t_INITIAL_comment", "[#][^\\n]*\\n+"), ("t_WSIGNORE_comment", "[#][^\\n]*\\n+"),
       ("t_INITIAL_NEWLINE", "\\n+"), ("t_WSIGNORE_NEWLINE", "\\n+")] ∧
    Tables.lexFlushLastTokenTypes = ["NEWLINE", "LINE"] := by decide

/-- The grammar mentions the terminal `NEWLINE` only inside `NL`, a non-empty run of them, and a specification may
begin and continue with `NL`: this is what `norm` (collapse runs, drop a leading run) stands for. -/
theorem newline_grammar_table :
    Tables.parserNewlineProductions = ["NL : NEWLINE", "NL : NL NEWLINE"] ∧
    Tables.parserSpecNLProductions = ["spec : NL", "spec : spec NL"] := by decide

/-! ## Blank lines, space-only lines, comment-only lines -/

/-- The tokens as the parser reads them (`norm`) and the recorded layout errors depend on the significant lines only,
provided the first significant line is not indented. -/
theorem dent_canonical (ls : List Line) (h : HeadOK ls) :
    norm (lex ls).toks = norm (lex (strip ls)).toks ∧ (lex ls).errs = (lex (strip ls)).errs :=
  lex_strip ls h

/-- Two inputs with the same significant lines (any number of blank / space-only / comment-only lines, at any
indentation, inserted or removed at any line boundaries - between continuation lines of a parenthesised group
included) are the same to the parser. -/
theorem dent_insensitive_many (ls₁ ls₂ : List Line) (hs : strip ls₁ = strip ls₂) (h : HeadOK ls₁) :
    norm (lex ls₁).toks = norm (lex ls₂).toks ∧ (lex ls₁).errs = (lex ls₂).errs := by
  have h2 : HeadOK ls₂ := by
    have := (headOK_strip ls₁).2 h
    rw [hs] at this
    exact (headOK_strip ls₂).1 this
  obtain ⟨a1, a2⟩ := lex_strip ls₁ h
  obtain ⟨b1, b2⟩ := lex_strip ls₂ h2
  rw [a1, a2, b1, b2, hs]
  exact ⟨rfl, rfl⟩

theorem strip_insert (pre ins post : List Line) (hins : ∀ l ∈ ins, l.isBlank = true) :
    strip (pre ++ ins ++ post) = strip (pre ++ post) := by
  have : strip ins = [] := by
    simp only [strip, List.filter_eq_nil_iff]
    intro l hl
    have := hins l hl
    simpa [Line.isBlank] using this
  simp only [strip, List.filter_append] at this ⊢
  simp [this]

/-- insertion at one boundary, logical lines -/
theorem dent_insensitive_lines (pre ins post : List Line) (hins : ∀ l ∈ ins, l.isBlank = true)
    (h : HeadOK (pre ++ post)) :
    norm (lex (pre ++ ins ++ post)).toks = norm (lex (pre ++ post)).toks ∧
    (lex (pre ++ ins ++ post)).errs = (lex (pre ++ post)).errs := by
  have hs := strip_insert pre ins post hins
  have h' : HeadOK (pre ++ ins ++ post) := by
    have := (headOK_strip (pre ++ post)).2 h
    rw [← hs] at this
    exact (headOK_strip _).1 this
  exact dent_insensitive_many _ _ hs h'

/-- **dent_insensitive**, on physical lines: inserting any number of blank, space-only or comment-only lines (any
indentation, tabs included) at any boundary that is not inside a string literal - inside parenthesised groups
included - changes neither the token stream the parser reads nor the recorded errors. -/
theorem dent_insensitive (pre ins post : List PLine)
    (hclosed : openAfter false pre = false)
    (hins : ∀ p ∈ ins, p.openStr = false ∧ p.line.isBlank = true)
    (h : HeadOK (join (pre ++ post))) :
    norm (lexP (pre ++ ins ++ post)).toks = norm (lexP (pre ++ post)).toks ∧
    (lexP (pre ++ ins ++ post)).errs = (lexP (pre ++ post)).errs := by
  have h1 : join (pre ++ ins ++ post) = join pre ++ ins.map (·.line) ++ join post := by
    rw [List.append_assoc, join_append pre _ hclosed, join_closed_append ins post (fun p hp => (hins p hp).1),
      List.append_assoc]
  have h2 : join (pre ++ post) = join pre ++ join post := join_append pre post hclosed
  unfold lexP
  rw [h1, h2]
  rw [h2] at h
  exact dent_insensitive_lines (join pre) (ins.map (·.line)) (join post)
    (by intro l hl; simp only [List.mem_map] at hl; obtain ⟨p, hp, rfl⟩ := hl; exact (hins p hp).2) h

/-- The hypothesis on the first significant line cannot be dropped: the real lexer never looks at the indentation
of the first line of a file (nor at the line after a comment on line 1), so `"    a"` has no `INDENT` while a blank
line in front of it produces one (experiment: `'    a\n'` vs `'\n    a\n'` in harness/suites/fe_lex.py HAND). -/
theorem head_indent_needed :
    (lex [⟨4, .sig [.other 0] .none⟩]).toks = [.tk (.other 0), .newline] ∧
    (lex [⟨0, .empty⟩, ⟨4, .sig [.other 0] .none⟩]).toks =
      [.newline, .indent, .tk (.other 0), .newline, .dedent] ∧
    (lex [⟨0, .comment true⟩, ⟨4, .sig [.other 0] .none⟩]).toks = [.tk (.other 0), .newline] ∧
    (lex [⟨0, .comment true⟩, ⟨0, .comment true⟩, ⟨4, .sig [.other 0] .none⟩]).toks =
      [.indent, .tk (.other 0), .newline, .dedent] := by decide

/- non-vacuity: `a(b,` / `c)` / `    d` with a comment after the first line, an empty and a space-only line
inside the parentheses and a tab-indented comment before the block: raw streams differ, normalised ones agree -/
example :
    let a : Line := ⟨0, .sig [.other 0, .lpar, .other 1] .comment⟩
    let c : Line := ⟨4, .sig [.other 2, .rpar] .none⟩
    let d : Line := ⟨4, .sig [.other 3] .none⟩
    let noisy := [a, ⟨2, .comment true⟩, ⟨0, .empty⟩, ⟨3, .spaces⟩, c, ⟨1, .comment false⟩, ⟨7, .spaces⟩, d]
    (lex noisy).toks ≠ (lex [a, c, d]).toks ∧ norm (lex noisy).toks = norm (lex [a, c, d]).toks ∧
    norm (lex [a, c, d]).toks =
      [.tk (.other 0), .tk .lpar, .tk (.other 1), .tk (.other 2), .tk .rpar, .newline, .indent, .tk (.other 3),
       .newline, .dedent] := by decide

example : HeadOK [⟨3, .comment true⟩, ⟨0, .sig [.other 0] .none⟩, ⟨4, .sig [.other 1] .none⟩] := by
  intro s hs
  simp [strip, Body.isSig] at hs
  subst hs; rfl

/-! ## Trailing blanks and comments -/

/-- **trailing_ws**: whatever follows the last token of a significant line - nothing, blanks, a comment - the
tokens and the errors are the same (the newline rule and the partial-line branch of the comment rule coincide,
in `INITIAL` and inside parentheses). -/
theorem trailing_ws (w : Line → Trail) (ls : List Line) :
    lex (ls.map fun l => l.withTrail (w l)) = lex ls := by
  simp [lex, run, runL_map_withTrail]

example : lex [⟨0, .sig [.other 0, .lpar] .comment⟩, ⟨4, .sig [.rpar] .spaces⟩, ⟨4, .sig [.other 1] .comment⟩]
    = lex [⟨0, .sig [.other 0, .lpar] .none⟩, ⟨4, .sig [.rpar] .none⟩, ⟨4, .sig [.other 1] .none⟩] := by decide

/-! ## Continuation lines -/

/-- the lexer state when it reaches a significant line `l` that follows the lines `pre` -/
def stateBefore (pre : List Line) (l : Line) : Res := runL (some l) true 0 0 pre

/-- one break: the first part must end inside parentheses, the continuation line must be indented exactly one
level more than the *current block level* (not: than the line that opened the parenthesis) -/
theorem paren_break_two (pre post : List Line) (i : Nat) (t1 t2 : List Tk) (tr1 tr2 : Trail)
    (hopen : (emitToks (stateBefore pre ⟨i, .sig t1 tr1⟩).depth t1).2.2 ≠ 0) :
    lex (pre ++ ⟨i, .sig t1 tr1⟩ :: ⟨indentUnit * ((stateBefore pre ⟨i, .sig t1 tr1⟩).cur + 1), .sig t2 tr2⟩ :: post)
      = lex (pre ++ ⟨i, .sig (t1 ++ t2) tr2⟩ :: post) := by
  have hk : (some (⟨i, .sig t1 tr1⟩ : Line)).map lkey = (some (⟨i, .sig (t1 ++ t2) tr2⟩ : Line)).map lkey := by
    simp [lkey, Body.isSig]
  simp only [lex, run, stateBefore] at hopen ⊢
  rw [runL_append, runL_append]
  simp only [lookahead, Body.isEmpty, Bool.false_eq_true, if_false, Option.some_or]
  rw [← runL_congr_tn hk]
  rw [runL_break2 none _ _ _ i t1 tr1 t2 tr2 post hopen]

/-- **paren_break**: a parenthesised group written on one line, or broken after any tokens that leave a
parenthesis open, each continuation line at one level above the current block level, with any trailing blanks or
comments on the broken lines: same tokens, same errors. -/
theorem paren_break (pre post : List Line) (i : Nat) (t1 : List Tk) (tr1 : Trail) (chunks : List (List Tk × Trail))
    (hopen : OpenAt (stateBefore pre ⟨i, .sig t1 tr1⟩).depth t1 chunks) :
    lex (pre ++ ⟨i, .sig t1 tr1⟩ :: (contLines (stateBefore pre ⟨i, .sig t1 tr1⟩).cur chunks ++ post))
      = lex (pre ++ oneLine i t1 tr1 chunks :: post) := by
  have hk : (some (⟨i, .sig t1 tr1⟩ : Line)).map lkey = (some (oneLine i t1 tr1 chunks)).map lkey := by
    simp [lkey, oneLine, Body.isSig]
  simp only [lex, run, stateBefore] at hopen ⊢
  rw [runL_append, runL_append]
  have e1 : lookahead (⟨i, .sig t1 tr1⟩ :: (contLines (runL (some ⟨i, .sig t1 tr1⟩) true 0 0 pre).cur chunks ++ post))
      = some ⟨i, .sig t1 tr1⟩ := by simp [lookahead, Body.isEmpty]
  have e2 : lookahead (oneLine i t1 tr1 chunks :: post) = some (oneLine i t1 tr1 chunks) := by
    simp [lookahead, oneLine, Body.isEmpty]
  rw [e1, e2]
  simp only [Option.some_or]
  rw [← runL_congr_tn hk]
  rw [runL_break none _ _ _ i chunks t1 tr1 post hopen]

/- non-vacuity: inside a block at level 1, `f List(String,` / `min_items=1` / `)` against the one-line form; and the
same broken at the *wrong* indentation (level of the opening line) is an error -/
example : OpenAt 0 [.other 1, .lpar, .other 2] [([.other 3], .spaces), ([.rpar], .none)] := by
  simp [OpenAt, emitToks]

example :
    let pre : List Line := [⟨0, .sig [.other 0] .none⟩]
    let first : Line := ⟨4, .sig [.other 1, .lpar, .other 2] .comment⟩
    (stateBefore pre first).cur = 1 ∧ (stateBefore pre first).depth = 0 ∧
    lex (pre ++ first :: (contLines 1 [([.other 3], .spaces), ([.rpar], .none)] ++ [⟨4, .sig [.other 4] .none⟩]))
      = lex (pre ++ [⟨4, .sig [.other 1, .lpar, .other 2, .other 3, .rpar] .none⟩, ⟨4, .sig [.other 4] .none⟩]) ∧
    (lex (pre ++ [first, ⟨4, .sig [.other 3, .rpar] .none⟩])).errs = [.contIndent] := by decide

/-! ## INDENT / DEDENT balance -/

/-- **dent_balanced**: on every input (malformed ones included) the block level computed from the emitted `INDENT`
/ `DEDENT` tokens never drops below zero and is zero at the end. -/
theorem dent_balanced (ls : List Line) : scan 0 (lex ls).toks = some 0 := scan_lex ls

/-- the same in counts: as many `DEDENT`s as `INDENT`s, and never more `DEDENT`s than `INDENT`s in a prefix -/
theorem dent_balanced_counts (ls : List Line) :
    (lex ls).toks.count .indent = (lex ls).toks.count .dedent ∧
    ∀ k, ((lex ls).toks.take k).count .dedent ≤ ((lex ls).toks.take k).count .indent := by
  have h := scan_lex ls
  refine ⟨by have := scan_count 0 0 _ h; omega, ?_⟩
  intro k
  have h' : scan 0 ((lex ls).toks.take k ++ (lex ls).toks.drop k) = some 0 := by rw [List.take_append_drop]; exact h
  obtain ⟨c, hc⟩ := scan_prefix 0 0 _ _ h'
  have := scan_count 0 c _ hc
  omega

example : (lex [⟨0, .sig [.other 0] .none⟩, ⟨8, .sig [.other 1, .lpar] .none⟩, ⟨3, .sig [.rpar, .rpar] .none⟩,
      ⟨4, .sig [.other 2] .none⟩]).toks.count .indent = 2 := by decide

/-! ## Standard input -/
open StoneVerif.Stdin

/-- the pattern and the literals of the stdin branch of `stone.cli.main` -/
theorem stdin_split_table :
    Tables.stdinSplitSeparators = ["(?m)^(?=" ++ String.ofList kw ++ "\\b)"] ∧
    Tables.stdinSplitLiterals = ["stdin.1", "stdin.1", "stdin.%s"] := by decide

/-- **stdin_split**: texts that each begin with `namespace` followed by a non-word character (or nothing), have no
other line beginning that way and end with a newline: cutting their concatenation gives the texts back, in order.
`w` is Python's `\w`, left arbitrary.  (An identifier, a documentation string or a comment containing the word
`namespace` does not matter any more: see `stdin_split_regression`.) -/
theorem stdin_split (w : Char → Bool) (ts : List (List Char)) (hne : ts ≠ []) (h : ∀ t ∈ ts, Good w t) :
    (splitStdinW w ts.flatten).map Prod.snd = ts := by
  cases ts with
  | nil => exact absurd rfl hne
  | cons t1 rest => simpa using (splitStdinW_flatten w [] t1 rest rfl rfl h).1

/-- ... under the names `stdin.1`, `stdin.2`, ... -/
theorem stdin_split_names (w : Char → Bool) (ts : List (List Char)) (hne : ts ≠ []) (h : ∀ t ∈ ts, Good w t) :
    (splitStdinW w ts.flatten).map Prod.fst = List.range' 1 ts.length := by
  cases ts with
  | nil => exact absurd rfl hne
  | cons t1 rest => simpa using (splitStdinW_flatten w [] t1 rest rfl rfl h).2

/-- text in front of the first `namespace` line (comments, blank lines: no line of it begins with the keyword, it is
empty or ends with a newline) stays with the first spec -/
theorem stdin_split_preamble (w : Char → Bool) (p t1 : List Char) (rest : List (List Char))
    (hp0 : starts w true p = 0) (hpnl : Stdin.endsNL p = true) (h : ∀ t ∈ t1 :: rest, Good w t) :
    (splitStdinW w (p ++ (t1 :: rest).flatten)).map Prod.snd = (p ++ t1) :: rest :=
  (splitStdinW_flatten w p t1 rest hp0 hpnl h).1

/-- the same on `String`s, as `stone.cli.main` hands them to `specs_to_ir` -/
theorem stdin_split_string (ts : List String) (hne : ts ≠ []) (h : ∀ t ∈ ts, Good asciiWord t.toList) :
    (splitStdin (String.join ts)).map Prod.snd = ts := by
  have h' : ∀ t ∈ ts.map String.toList, Good asciiWord t := by
    intro t ht
    simp only [List.mem_map] at ht
    obtain ⟨s, hs, rfl⟩ := ht
    exact h s hs
  have := stdin_split asciiWord (ts.map String.toList) (by simpa using hne) h'
  unfold splitStdin splitStdinL
  rw [toList_join, List.map_map]
  have e : (Prod.snd ∘ fun p : Nat × List Char => ("stdin." ++ toString p.1, String.ofList p.2))
      = String.ofList ∘ Prod.snd := by funext p; rfl
  rw [e, ← List.map_map, this, List.map_map]
  simp [Function.comp_def]

example : Good asciiWord "namespace a\nstruct S\n    namespace_id String\n    \"namespace of things\"\n".toList :=
  ⟨by decide, by decide, by decide⟩

example : (splitStdin "# two specs\nnamespace a\nstruct S\n    f String\nnamespace b\nimport a\n")
    = [("stdin.1", "# two specs\nnamespace a\nstruct S\n    f String\n"), ("stdin.2", "namespace b\nimport a\n")] := by
  decide

/-- a legal specification (it compiles from a file: checked by the harness on the real compiler) in which the
substring `namespace` also occurs inside an identifier: the witness of defect D14 -/
def witness : String := "namespace a\nstruct S\n    namespace_id String\n"

/-- **stdin_split_regression** (defect D14, repaired in the repository by commit de8ede2): the old code cut at every
occurrence of the substring and handed `"namespace a\nstruct S\n    "` and `"namespace_id String\n"` to the
compiler; the code modelled here keeps the text, and a documentation string that mentions the word, in one piece. -/
theorem stdin_split_regression :
    splitStdin witness = [("stdin.1", witness)] ∧
    splitStdin "namespace a\n    \"The namespace of things.\"\n"
      = [("stdin.1", "namespace a\n    \"The namespace of things.\"\n")] := by decide

/-- what remains (by design of the repair): a *line* that begins with the keyword starts a new spec, so a text is
still cut if a line of a multi-line documentation string begins with the word `namespace` -/
theorem stdin_split_witness :
    (splitStdin "namespace a\n    \"Types of this\nnamespace and others.\"\n").map Prod.snd
      = ["namespace a\n    \"Types of this\n", "namespace and others.\"\n"] := by decide

/-! ## Documentation strings: white space at the end of a line of a doc text (part D) -/
section DocTrim
open StoneVerif.DocTrim

/-- the rule `docstring : STRING` and its one statement, which `DocTrim.docClean` follows -/
theorem docstring_rule_table :
    Tables.parserDocstringProduction = "docstring : STRING" ∧
    Tables.parserDocstringStatements =
      ["p[0] = '\\n'.join([line.rstrip() for line in p[1].split('\\n')])"] := by decide

/-- **doc_trailing_ws**: a doc text given by its lines (`ls`, none contains a newline); `ws[k]` - any white space that
is not a line break - is appended to line `k`, for every `k` at once.  The parser's rule gives the same text. -/
theorem doc_trailing_ws (ls ws : List (List Char)) (hne : ls ≠ []) (hl : ∀ l ∈ ls, '\n' ∉ l)
    (hw : ∀ w ∈ ws, blankTail w = true) :
    docClean (joinNL (addTrail ls ws)) = docClean (joinNL ls) := by
  unfold docClean
  rw [split_join _ (addTrail_ne_nil ls ws hne) (addTrail_no_nl ls ws hl hw), split_join ls hne hl,
    map_rstrip_addTrail ls ws hw]

/-- ... for EVERY text `s` (its lines are `s.split('\n')`) -/
theorem doc_trailing_ws_text (s : List Char) (ws : List (List Char)) (hw : ∀ w ∈ ws, blankTail w = true) :
    docClean (joinNL (addTrail (splitNL s) ws)) = docClean s := by
  have h := doc_trailing_ws (splitNL s) ws (splitNL_ne_nil s) (splitNL_no_nl s) hw
  rwa [join_split] at h

/-- the lines of the result are the stripped lines of the text ... -/
theorem doc_clean_lines (s : List Char) : splitNL (docClean s) = (splitNL s).map rstrip := by
  unfold docClean
  apply split_join
  · simpa using splitNL_ne_nil s
  · intro l hl
    obtain ⟨l0, h0, rfl⟩ := List.mem_map.mp hl
    exact fun hm => splitNL_no_nl s l0 h0 (rstrip_sub l0 _ hm)

/-- ... none of which ends in white space ... -/
theorem doc_clean_no_trailing (s : List Char) (l : List Char) (hl : l ∈ splitNL (docClean s)) (c : Char)
    (hc : l.getLast? = some c) : isSpace c = false := by
  rw [doc_clean_lines] at hl
  obtain ⟨l0, _, rfl⟩ := List.mem_map.mp hl
  exact rstrip_getLast l0 c hc

/-- ... and the rule is idempotent -/
theorem doc_clean_idem (s : List Char) : docClean (docClean s) = docClean (s) := by
  have h := doc_clean_lines s
  show joinNL ((splitNL (docClean s)).map rstrip) = docClean s
  rw [h, List.map_map]
  have : (rstrip ∘ rstrip) = rstrip := funext fun l => rstrip_idem l
  rw [this]; rfl

example : docCleanS "A note.  \nSecond line.\t\n   \nNew paragraph. " = "A note.\nSecond line.\n\nNew paragraph." := by
  decide

example : docClean (joinNL (addTrail ["ab".toList, [], "cd".toList] ["  ".toList, "\t ".toList]))
    = docClean "ab\n\ncd".toList := by decide

example : blankTail " \t 　\r".toList = true ∧ blankTail " \n".toList = false ∧ blankTail "x".toList = false := by
  decide

/-- trimming only the end of the whole text (what a `$` without MULTILINE does) is a different function: the white
space of interior lines stays, and with it the paragraph break is lost downstream -/
theorem doc_last_line_only_witness :
    rstrip "a  \n  \nb ".toList = "a  \n  \nb".toList ∧ docClean "a  \n  \nb ".toList = "a\n\nb".toList := by decide

end DocTrim

end StoneVerif.C11
