import StoneVerif.Lemmas.DeclJs
/-!
C16 — the JavaScript and TypeScript backends declare every type once, at the mapped types, and refer only to
names that are declared, builtin or imported.

All statements are about the declaration-level model of Model/DeclJs.lean (tied to stone/backends/js_*.py and
tsd_*.py by the translator tables and by the differential suites of harness/suites/decl_js.py). `ApiWF` is the
closure invariant of the frontend (C02) in the form the generators rely on; it is evaluated by the compiled model
on every API the harness generates. Completion without exception and the lexical shape of the emitted text are
observed by testing, not proved (see `js_client_completes_iff` / `js_types_completes_iff` for what the model says
about completion).
-/
namespace StoneVerif.C16
open StoneVerif.DeclJs

/-- the closure invariant of a compiled API (namespaces distinct, types registered where they live, every
reachable user type registered and visible, parents registered, route attributes total) -/
def ApiWF (api : Api) : Prop := apiWF api = true

/-! ## Tables of the code under test -/

/-- every name the two `_base_type_table`s (and the `.get` defaults) can produce is a builtin of the target
language or `Timestamp`, which both type backends declare; an edit of a table entry to an undeclared name breaks
this theorem -/
theorem base_names_resolve :
    (∀ p ∈ Tables.jsBaseTypeTable, p.2 ∈ jsBuiltins ∨ p.2 = "Timestamp")
    ∧ (∀ p ∈ Tables.tsdBaseTypeTable, p.2 ∈ tsBuiltins ∨ p.2 = "Timestamp")
    ∧ (∀ s ∈ Tables.jsBaseTypeDefault, s ∈ jsBuiltins) ∧ (∀ s ∈ Tables.tsdBaseTypeDefault, s ∈ tsBuiltins) := by
  decide

/-- the format strings the model was written from -/
theorem tables_pinned :
    Tables.jsUrlStrings = ["{}/{}_v{}", "{}/{}"]
    ∧ Tables.jsFuncStrings = ["V{}"] ∧ Tables.tsdFuncStrings = ["V{}"]
    ∧ Tables.tsdReferenceStrings = ["Reference"]
    ∧ Tables.jsTypeNameStrings = ["{}{}", "Object", ".<", ">"]
    ∧ Tables.tsdTypeNameStrings = ["{}.{}", "Object", "<", ">", "string", "{{[key: {}]: {}}}"]
    ∧ Tables.jsUnionStrings = ["(", "|", ")"] ∧ Tables.tsdUnionStrings = ["|"]
    ∧ Tables.jsErrorTypeStrings = ["", "{}.<{}>", "", "Error"] ∧ Tables.tsdErrorTypeStrings = ["", "{}<{}>", "", "Error"]
    ∧ Tables.tsdTimestampDefinition = ["type Timestamp = string;"]
    ∧ Tables.jsClientCallStrings = ["routes.%s = function (arg, options) {", "routes.%s = function (arg) {",
        "routes.%s = function (options) {", "routes.%s = function () {",
        "return this.request('{}', arg, {}{});", "return this.request('{}', null, {}{});",
        "return this.request(\"{}\", arg{});", "return this.request(\"{}\", null{});"]
    ∧ Tables.splitWordsRegexes = [("_split_words_capitalization_re",
          "^[a-z0-9]+|[A-Z][a-z0-9]+|[A-Z]+(?=[A-Z][a-z0-9])|[A-Z]+$"), ("_split_words_dashes_re", "[-_/]+")] := by
  decide

/-! ## The type mappers only mention what they may print -/

/-- `js_helpers.fmt_type`: every identifier is a builtin, `Timestamp`, or the JSDoc name of a struct / union that
is reachable from the formatted type (`printed`: the type itself, list items, enumerated subtypes) -/
theorem js_refs_sub (api : Api) (t : IrTy) : ∀ r ∈ (jsFmtType api t).refs,
    r.ns = none ∧ (r.name ∈ jsBuiltins ∨ r.name = "Timestamp" ∨ ∃ q, URef.ty q ∈ printed api t ∧ r = jsName q) :=
  js_refs api t

/-- `tsd_helpers.fmt_type` (`poly = true`) and `fmt_type_name` (`poly = false`): every identifier is a builtin,
`Timestamp`, or the (possibly qualified) name / polymorphic reference name of a reachable user type -/
theorem tsd_refs_sub (api : Api) (inside : Option String) (t : IrTy) (poly : Bool) :
    ∀ r ∈ (tsdFmt api inside poly t).refs,
      (r.ns = none ∧ (r.name ∈ tsBuiltins ∨ r.name = "Timestamp")) ∨ ∃ u ∈ printed api t, r = tsdOut inside u :=
  tsd_refs api inside t poly

/-- what can be printed is reachable (`userTypes` also follows alias targets) -/
theorem printed_sub (api : Api) (t : IrTy) : ∀ u ∈ printed api t, u ∈ userTypes api t :=
  printed_sub_userTypes api t

/-! ## refs_closed -/

/-- tsd_types, single file or one file per namespace: every identifier in a type position of every declaration is
a TypeScript builtin, a type parameter, declared in the same namespace or at the top of the same file, a name of
a sibling namespace of the same file, or a name of a namespace imported into that file -/
theorem refs_closed_tsd_types {opts : Opts} {api : Api} {out : TypesOut} (wf : ApiWF api)
    (h : tsdTypes opts api = .ok out) : ∀ d ∈ out.decls, ∀ r ∈ d.refs, resolvesTs out d r :=
  tsd_types_resolves ⟨wf, (tsdTypes_ok h).1, (tsdTypes_ok h).2⟩

/-- js_types: every identifier of every `@typedef` is a JSDoc builtin, a `@template` parameter or a typedef of the
output -/
theorem refs_closed_js_types {opts : Opts} {api : Api} {ds : List Decl} (wf : ApiWF api)
    (h : jsTypes opts api = .ok ds) : ∀ d ∈ ds, ∀ r ∈ d.refs, resolvesJs ds d.tparams r :=
  js_types_resolves wf h

theorem jsRoute_types {opts : Opts} {api : Api} {ns : String} {rt : RouteD} {f : FnDecl}
    (h : jsRoute opts api ns rt = .ok f) :
    f.resultTy = jsFmtType api rt.result ∧ f.errorTy = jsFmtType api rt.error
      ∧ f.argTy = (if rt.arg = .prim .void then none else some (jsFmtType api rt.arg))
      ∧ f.name = fmtFunc (ns ++ "_" ++ rt.name) rt.version := by
  unfold jsRoute at h
  simp only at h
  split at h
  · split at h
    · simp at h
    · split at h <;> (simp at h; subst h; exact ⟨rfl, rfl, rfl, rfl⟩)
  · split at h <;> (simp at h; subst h; exact ⟨rfl, rfl, rfl, rfl⟩)

/-- the JSDoc types js_client writes into `@arg` / `@returns` are declared by the js_types output of the same API -/
theorem refs_closed_js_client {opts o2 : Opts} {api : Api} {fns : List FnDecl} {ds : List Decl} (wf : ApiWF api)
    (hc : jsClient opts api = .ok fns) (ht : jsTypes o2 api = .ok ds) :
    ∀ f ∈ fns, ∀ t ∈ f.argTy.toList ++ [f.resultTy, f.errorTy], ∀ r ∈ t.refs, resolvesJs ds [] r := by
  intro f hf t htm r hr
  have hE : Except.ok f ∈ jsClientE opts api := (mem_of_seqE hc f).mp hf
  obtain ⟨n, hn, hE⟩ := List.mem_flatMap.mp hE
  split at hE
  · simp at hE
  · obtain ⟨rt, hrt, hEq⟩ := List.mem_map.mp hE
    have nf := wf_ns wf hn
    obtain ⟨h1, h2, h3⟩ := mem_typeExprs_route hrt
    have key : ∀ x ∈ [rt.arg, rt.result, rt.error], ∀ r ∈ (jsFmtType api x).refs, resolvesJs ds [] r := by
      intro x hx
      have hxm : x ∈ typeExprsOf n := by
        simp at hx; rcases hx with rfl | rfl | rfl <;> assumption
      exact js_resolve_fmt ht x (fun u hu => (nf.exprs x hxm).1 u (printed_sub_userTypes api x u hu)) []
    have hshape := jsRoute_types hEq
    obtain ⟨hr1, hr2, hr3, _⟩ := hshape
    simp only [List.mem_append, Option.mem_toList, List.mem_cons, List.mem_nil_iff, or_false] at htm
    rcases htm with htm | rfl | rfl
    · rw [hr3] at htm
      split at htm
      · simp at htm
      · simp at htm; subst htm
        exact key rt.arg (by simp) r hr
    · rw [hr1] at hr; exact key rt.result (by simp) r hr
    · rw [hr2] at hr; exact key rt.error (by simp) r hr

/-- tsd_client (types are written without an enclosing namespace): every identifier in a method signature is a
builtin, or `ns.X` with `X` declared in namespace `ns` of the single-file tsd_types output of the same API and, under
`--import-namespaces`, `ns` among the imported names — or it is the bare `Timestamp`.

PARTIAL: the last disjunct is not closed. Without `--import-namespaces` the bare `Timestamp` is the ambient top-level
declaration of the tsd_types file (`timestamp_ambient`); with it, nothing imports or declares `Timestamp` in the
client file (the real backend has the same gap: reported by the harness as a finding). -/
theorem refs_closed_tsd_client_partial {opts o2 : Opts} {api : Api} {co : ClientOut} {out : TypesOut} {f : String}
    (wf : ApiWF api) (hc : tsdClient opts api = .ok co) (ho2 : o2.filename = some f)
    (ht : tsdTypes o2 api = .ok out) :
    ∀ m ∈ co.methods, ∀ t ∈ m.argTy.toList ++ [m.resultTy, m.errorTy], ∀ r ∈ t.refs,
      (r.ns = none ∧ r.name ∈ tsBuiltins)
      ∨ (∃ ns, r.ns = some ns ∧ declaredAt out.decls f (some ns) r.name
          ∧ (opts.importNamespaces = true → ns ∈ co.imports))
      ∨ r = ⟨none, "Timestamp"⟩ := by
  intro m hm t htm r hr
  have c : Ctx o2 api out := ⟨wf, (tsdTypes_ok ht).1, (tsdTypes_ok ht).2⟩
  unfold tsdClient at hc
  cases hs : seqE (tsdClientE api) with
  | error e => rw [hs] at hc; simp at hc
  | ok ms =>
    rw [hs] at hc; simp at hc; subst hc
    have hE : Except.ok m ∈ tsdClientE api := (mem_of_seqE hs m).mp hm
    obtain ⟨n, hn, hE⟩ := List.mem_flatMap.mp hE
    split at hE
    · simp at hE
    · obtain ⟨rt, hrt, hEq⟩ := List.mem_map.mp hE
      simp at hEq; subst hEq
      have nf := wf_ns wf hn
      obtain ⟨h1, h2, h3⟩ := mem_typeExprs_route hrt
      have key : ∀ x ∈ typeExprsOf n, ∀ r ∈ (tsdFmt api none true x).refs,
          (r.ns = none ∧ r.name ∈ tsBuiltins)
          ∨ (∃ ns, r.ns = some ns ∧ declaredAt out.decls f (some ns) r.name
              ∧ (opts.importNamespaces = true → ns ∈ (if opts.importNamespaces then
                    (api.namespaces.filter hasTypes).map (·.name) else [])))
          ∨ r = ⟨none, "Timestamp"⟩ := by
        intro x hx r hr
        rcases tsd_refs api none x true r hr with ⟨hn1, hb | hb⟩ | ⟨u, hu, rfl⟩
        · exact Or.inl ⟨hn1, hb⟩
        · refine Or.inr (Or.inr ?_)
          cases r; simp at hn1 hb; simp [hn1, hb]
        · refine Or.inr (Or.inl ⟨u.q.ns, tsdOut_ns_other (by simp), ?_, ?_⟩)
          · have hok := (nf.exprs x hx).1 u (printed_sub_userTypes api x u hu)
            have := declared_uref c u hok
            rw [fileOf_single ho2] at this
            rw [tsdOut_name]; exact this
          · intro himp
            simp only [himp, if_true, List.mem_map, List.mem_filter]
            have hok := (nf.exprs x hx).1 u (printed_sub_userTypes api x u hu)
            -- the namespace that registers the type has types
            have : ∃ n' ∈ api.namespaces, n'.name = u.q.ns ∧ hasTypes n' = true := by
              cases u with
              | ty q =>
                simp only [urefOk, decide_eq_true_eq] at hok
                obtain ⟨n', hn', d, hd, rfl⟩ := mem_dataQNames hok
                exact ⟨n', hn', ((wf_ns wf hn').homeData _ hd).symm, hasTypes_of_data hd⟩
              | al q =>
                simp only [urefOk, decide_eq_true_eq] at hok
                obtain ⟨n', hn', a, ha, rfl⟩ := mem_aliasQNames hok
                exact ⟨n', hn', ((wf_ns wf hn').homeAlias _ ha).symm, hasTypes_of_alias ha⟩
              | poly q =>
                simp only [urefOk, treeMember] at hok
                cases hf : findStruct api q with
                | none => rw [hf] at hok; simp at hok
                | some s =>
                  obtain ⟨hs, rfl⟩ := findStruct_some hf
                  obtain ⟨n', hn', hd⟩ := mem_structs hs
                  exact ⟨n', hn', ((wf_ns wf hn').homeData _ hd).symm, hasTypes_of_data hd⟩
            obtain ⟨n', hn', hname, hty⟩ := this
            exact ⟨n', ⟨hn', hty⟩, hname⟩
      simp only [tsdRoute, List.mem_append, Option.mem_toList, List.mem_cons, List.mem_nil_iff, or_false] at htm
      rcases htm with htm | rfl | rfl
      · split at htm
        · simp at htm
        · simp at htm; subst htm; exact key _ h1 r hr
      · exact key _ h2 r hr
      · exact key _ h3 r hr

/-- without `--import-namespaces` the bare `Timestamp` of a client signature is the top-level declaration of the
single-file tsd_types output (whenever that file exists) -/
theorem timestamp_ambient {o2 : Opts} {api : Api} {out : TypesOut} {f : String} (ho2 : o2.filename = some f)
    (ht : tsdTypes o2 api = .ok out) {n : NamespaceD} (hn : n ∈ api.namespaces) (hty : hasTypes n = true) :
    declaredAt out.decls f none "Timestamp" := by
  refine ⟨tsdTimestamp f none, ?_, rfl, rfl, rfl⟩
  apply (mem_of_seqE (tsdTypes_ok ht).1 _).mpr
  have := mem_E_of_head (opts := o2) hn hty (d := tsdTimestamp f none)
    (by unfold tsdFileHead; rw [fileOf_single ho2]; exact List.mem_append_right _ (by simp [ho2]))
  exact this

/-! ## decl_once and coverage -/

/-- tsd_types declares every struct and union exactly once: in the whole output exactly one declaration sits in the
namespace of the type and carries its name. `tsdNamesInjective`: the generated `XReference` / `UnionTag` interface
names do not collide with type names of the namespace (a hypothesis on the API, counted by the harness). -/
theorem decl_once_tsd_types {opts : Opts} {api : Api} {out : TypesOut} (wf : ApiWF api)
    (h : tsdTypes opts api = .ok out) (hinj : tsdNamesInjective opts api) {n : NamespaceD}
    (hn : n ∈ api.namespaces) {dt : DataType} (hdt : dt ∈ n.dataTypes) :
    out.decls.countP (fun d => decide (d.scope = some n.name ∧ d.name = dt.q.name)) = 1 :=
  tsd_count_one ⟨wf, (tsdTypes_ok h).1, (tsdTypes_ok h).2⟩ hinj hn (hasTypes_of_data hdt) (mem_tsdNames_data hdt)

/-- ... and every alias -/
theorem decl_once_tsd_types_alias {opts : Opts} {api : Api} {out : TypesOut} (wf : ApiWF api)
    (h : tsdTypes opts api = .ok out) (hinj : tsdNamesInjective opts api) {n : NamespaceD}
    (hn : n ∈ api.namespaces) {a : AliasD} (ha : a ∈ n.aliases) :
    out.decls.countP (fun d => decide (d.scope = some n.name ∧ d.name = a.q.name)) = 1 :=
  tsd_count_one ⟨wf, (tsdTypes_ok h).1, (tsdTypes_ok h).2⟩ hinj hn (hasTypes_of_alias ha) (mem_tsdNames_alias ha)

/-- js_types: the typedef names of the output are exactly the header names followed by `fmt_pascal(ns + name)` of
every struct and union, in order; hence, when those names are distinct, every struct and union is declared exactly
once (and no alias is) -/
theorem decl_once_js_types {opts : Opts} {api : Api} {ds : List Decl} (h : jsTypes opts api = .ok ds)
    (hinj : jsNamesInjective api) :
    ds.map (·.name) = jsNamesList api
    ∧ ∀ q ∈ api.dataQNames, (ds.map (·.name)).count (jsName q).name = 1 := by
  have hn := js_names_eq h
  refine ⟨hn, fun q hq => ?_⟩
  rw [hn, List.Nodup.count hinj]
  have : (jsName q).name ∈ jsNamesList api := by
    obtain ⟨n, hn', dt, hdt, rfl⟩ := mem_dataQNames hq
    unfold jsNamesList
    exact List.mem_append_right _ (List.mem_flatMap.mpr ⟨n, hn', List.mem_map.mpr ⟨dt, hdt, rfl⟩⟩)
  simp [this]

/-- tsd_types: the interface of a struct extends its parent and has one member per own field, in order, at the
mapped type (`tsField`) -/
theorem tsd_struct_covered {opts : Opts} {api : Api} {out : TypesOut} (wf : ApiWF api)
    (h : tsdTypes opts api = .ok out) {n : NamespaceD} (hn : n ∈ api.namespaces) {s : StructD}
    (hs : DataType.struct s ∈ n.dataTypes) :
    ∃ d ∈ out.decls, d.file = fileOf opts n.name ∧ d.scope = some n.name ∧ d.name = s.q.name
      ∧ d.kind = .interface ∧ d.ext = (s.parent.map (tsdName (some n.name))).toList
      ∧ d.members = s.fields.map (tsField api n.name) := by
  have c : Ctx opts api out := ⟨wf, (tsdTypes_ok h).1, (tsdTypes_ok h).2⟩
  have hh : s.q.ns = n.name := (wf_ns wf hn).homeData _ hs
  have hty := hasTypes_of_data hs
  have : ∃ d, Except.ok d ∈ tsdStructDecls api (fileOf opts n.name) s ∧ d.file = fileOf opts n.name
      ∧ d.scope = some s.q.ns ∧ d.name = s.q.name ∧ d.kind = .interface
      ∧ d.ext = (s.parent.map (tsdName (some s.q.ns))).toList ∧ d.members = s.fields.map (tsField api s.q.ns) := by
    simp only [tsdStructDecls]
    exact ⟨_, List.mem_cons_self, rfl, rfl, rfl, rfl, rfl, rfl⟩
  obtain ⟨d, hd, h1, h2, h3, h4, h5, h6⟩ := this
  rw [hh] at h2 h5 h6
  exact ⟨d, c.mem (mem_E_of_ns hn hty (mem_nsE_struct hty hs hd)), h1, h2, h3, h4, h5, h6⟩

/-- the right-hand side of a TypeScript union type: the alternatives, `never` when there are none -/
def unionRhs (alts : List Ref) : TExpr := if alts.isEmpty then bare "never" else .union alts

/-- tsd_types: every own tag of a union has its variant interface (`'.tag': 'name'`, the value at the mapped type
or `extends` the struct), and the union type lists the parent and all variants (`never` when there is neither) -/
theorem tsd_union_covered {opts : Opts} {api : Api} {out : TypesOut} (wf : ApiWF api)
    (h : tsdTypes opts api = .ok out) {n : NamespaceD} (hn : n ∈ api.namespaces) {u : UnionD}
    (hu : DataType.union u ∈ n.dataTypes) :
    (∃ d ∈ out.decls, d.scope = some n.name ∧ d.name = u.q.name ∧ d.kind = .typeAlias
        ∧ d.rhs = some (unionRhs ((u.parent.map (tsdName (some n.name))).toList
            ++ u.tags.map (fun t => ⟨none, variantName u t⟩))))
    ∧ ∀ t ∈ u.tags, ∃ d ∈ out.decls, d.scope = some n.name ∧ d.name = variantName u t ∧ d.kind = .interface
        ∧ (⟨".tag", .lits [t.name], false⟩ : Member) ∈ d.members
        ∧ (t.ty = .prim .void ∨
            (if isPlainStruct api t.ty then d.ext = (tsdFmt api (some n.name) true t.ty).refs
             else (⟨t.name, tsdFmt api (some n.name) true t.ty, false⟩ : Member) ∈ d.members)) := by
  have c : Ctx opts api out := ⟨wf, (tsdTypes_ok h).1, (tsdTypes_ok h).2⟩
  have hh : u.q.ns = n.name := (wf_ns wf hn).homeData _ hu
  have hty := hasTypes_of_data hu
  constructor
  · have : ∃ d ∈ tsdUnionDecls api (fileOf opts n.name) u, d.scope = some u.q.ns ∧ d.name = u.q.name
        ∧ d.kind = .typeAlias ∧ d.rhs = some (unionRhs ((u.parent.map (tsdName (some u.q.ns))).toList
            ++ u.tags.map (fun t => ⟨none, variantName u t⟩))) := by
      simp only [tsdUnionDecls, unionRhs]
      exact ⟨_, List.mem_append_right _ (List.mem_singleton.mpr rfl), rfl, rfl, rfl, rfl⟩
    obtain ⟨d, hd, h1, h2, h3, h4⟩ := this
    rw [hh] at h1 h4
    exact ⟨d, c.mem (mem_E_of_ns hn hty (mem_nsE_union hty hu hd)), h1, h2, h3, h4⟩
  · intro t ht
    have : ∃ d ∈ tsdUnionDecls api (fileOf opts n.name) u, d.scope = some u.q.ns ∧ d.name = variantName u t
        ∧ d.kind = .interface ∧ (⟨".tag", .lits [t.name], false⟩ : Member) ∈ d.members
        ∧ (t.ty = .prim .void ∨
            (if isPlainStruct api t.ty then d.ext = (tsdFmt api (some u.q.ns) true t.ty).refs
             else (⟨t.name, tsdFmt api (some u.q.ns) true t.ty, false⟩ : Member) ∈ d.members)) := by
      simp only [tsdUnionDecls]
      refine ⟨_, List.mem_append_left _ (List.mem_map.mpr ⟨t, ht, rfl⟩), rfl, rfl, rfl, by simp, ?_⟩
      by_cases hv : t.ty = .prim .void
      · exact Or.inl hv
      · right
        by_cases hp : isPlainStruct api t.ty = true <;> simp [hp, hv]
    obtain ⟨d, hd, h1, h2, h3, h4, h5⟩ := this
    rw [hh] at h1 h5
    exact ⟨d, c.mem (mem_E_of_ns hn hty (mem_nsE_union hty hu hd)), h1, h2, h3, h4, h5⟩

/-- tsd_types: an alias is a type alias whose right-hand side is `fmt_type_name` of its target -/
theorem tsd_alias_covered {opts : Opts} {api : Api} {out : TypesOut} (wf : ApiWF api)
    (h : tsdTypes opts api = .ok out) {n : NamespaceD} (hn : n ∈ api.namespaces) {a : AliasD} (ha : a ∈ n.aliases) :
    ∃ d ∈ out.decls, d.scope = some n.name ∧ d.name = a.q.name ∧ d.kind = .typeAlias
      ∧ d.rhs = some (tsdFmt api (some n.name) false a.target) := by
  have c : Ctx opts api out := ⟨wf, (tsdTypes_ok h).1, (tsdTypes_ok h).2⟩
  have hh : a.q.ns = n.name := (wf_ns wf hn).homeAlias _ ha
  have hty := hasTypes_of_alias ha
  exact ⟨_, c.mem (mem_E_of_ns hn hty (mem_nsE_alias hty ha)), by simp [tsdAliasDecl, hh], rfl, rfl,
    by simp [tsdAliasDecl, hh]⟩

/-- js_types: the typedef of a struct has one property per field of the struct and of all its ancestors
(`structAllFields`), at the mapped type (`jsField`) -/
theorem js_struct_covered {opts : Opts} {api : Api} {ds : List Decl} (h : jsTypes opts api = .ok ds)
    {n : NamespaceD} (hn : n ∈ api.namespaces) {s : StructD} (hs : DataType.struct s ∈ n.dataTypes) :
    ∃ d ∈ ds, d.name = (jsName s.q).name ∧ d.kind = .typedef
      ∧ ∀ f ∈ structAllFields api (api.structs.length + 1) s, jsField api f ∈ d.members := by
  have hm := jsTypesE_data (opts := opts) hn hs
  simp only at hm
  cases hd : jsStructDecl api opts.out s with
  | error e => rw [hd] at hm; exact absurd hm (no_error_of_seqE h e)
  | ok d =>
    rw [hd] at hm
    refine ⟨d, (mem_of_seqE h d).mpr hm, jsStructDecl_name hd, ?_⟩
    unfold jsStructDecl at hd
    split at hd
    · simp at hd
    · simp at hd; subst hd
      exact ⟨rfl, fun f hf => List.mem_append_right _ (List.mem_map.mpr ⟨f, hf, rfl⟩)⟩

/-- the fields of every ancestor are among `structAllFields` (required ones first, as `Struct.all_fields`) -/
theorem all_fields_chain (api : Api) (fuel : Nat) (s : StructD) (f : FieldD) :
    f ∈ structAllFields api fuel s ↔ f ∈ chainFields api fuel s := by
  simp only [structAllFields, List.mem_append, List.mem_filter]
  constructor
  · rintro (h | h) <;> exact h.1
  · intro h
    cases ho : f.isOptional <;> simp [h, ho]

/-- js_types: the typedef of a union has an optional property per non-void tag of the union and of all its
ancestors at the mapped type, and - unless the union has no tag at all - a `.tag` property listing every tag -/
theorem js_union_covered {opts : Opts} {api : Api} {ds : List Decl} (h : jsTypes opts api = .ok ds)
    {n : NamespaceD} (hn : n ∈ api.namespaces) {u : UnionD} (hu : DataType.union u ∈ n.dataTypes) :
    ∃ d ∈ ds, d.name = (jsName u.q).name ∧ d.kind = .typedef
      ∧ ((unionAllTags api (api.unions.length + 1) u).isEmpty = false →
          (⟨".tag", .lits ((unionAllTags api (api.unions.length + 1) u).map (·.name)), false⟩ : Member) ∈ d.members)
      ∧ ∀ t ∈ unionAllTags api (api.unions.length + 1) u, (unwrapAll t.ty).1 ≠ .prim .void →
          (⟨t.name, jsFmtType api (unwrapAll t.ty).1, true⟩ : Member) ∈ d.members := by
  have hm := jsTypesE_data (opts := opts) hn hu
  simp only at hm
  cases hd : jsUnionDecl api opts.out u with
  | error e => rw [hd] at hm; exact absurd hm (no_error_of_seqE h e)
  | ok d =>
    rw [hd] at hm
    refine ⟨d, (mem_of_seqE h d).mpr hm, jsUnionDecl_name hd, ?_⟩
    simp only [jsUnionDecl, Except.ok.injEq] at hd
    subst hd
    refine ⟨rfl, fun hne => by simp [hne], fun t ht hv => ?_⟩
    refine List.mem_append_left _ (List.mem_filterMap.mpr ⟨t, ht, ?_⟩)
    simp [hv]

/-! ## Optional markers -/

/-- `unwrap` reports a nullable exactly when the type, seen through aliases, is `T?` -/
theorem unwrapAll_nullable (t : IrTy) : (unwrapAll t).2 = isNullable t := by
  induction t with
  | nullable t _ => simp [unwrapAll, isNullable]
  | alias q t ih => simpa [unwrapAll, isNullable] using ih
  | _ => simp [unwrapAll, isNullable]

/-- JSDoc marks a field optional exactly when it is nullable (the type, seen through aliases, is `T?`) -/
theorem jsdoc_optional_iff (api : Api) (f : FieldD) : (jsField api f).optional = isNullable f.ty := by
  simp [jsField, unwrapAll_nullable]

/-- TypeScript marks a field optional exactly when it is nullable (also behind aliases) or defaulted.
(Until the repair of `_generate_struct_type` this held only for fields whose type is not an alias of a nullable
type: `unwrap_nullable` alone does not look through aliases.) -/
theorem ts_optional_iff (api : Api) (ns : String) (f : FieldD) :
    (tsField api ns f).optional = (isNullable f.ty || f.hasDefault) := by
  cases hf : f.ty <;> simp [tsField, unwrapNullable, unwrapAll_nullable, hf, isNullable]

/-- regression (the former gap `alias NS = String?` / `f NS`): both generators mark the field optional, and the
TypeScript annotation keeps the alias name -/
example (api : Api) :
    let f : FieldD := ⟨"f", .alias ⟨"a", "NS"⟩ (.nullable (.prim .string)), false⟩
    isNullable f.ty = true ∧ (tsField api "a" f).optional = true ∧ (jsField api f).optional = true
      ∧ (tsField api "a" f).ty = tsdFmt api (some "a") true f.ty := by
  simp [isNullable, tsField, jsField, unwrapNullable, unwrapAll]

/-! ## Routes -/

/-- `fmt_obj` refuses exactly the values `json.dumps` cannot serialise -/
def supported : AttrVal → Bool
  | .unsupported _ => false
  | _ => true

/-- js_client: when it completes, the function of a route version is named `fmt_func(ns + '_' + route, version)`,
takes `arg` unless the argument type is Void (and `options` under --request-options), and calls
`this.request(url, arg | null, attribute values in schema order [, options])` with url `ns/route` or `ns/route_vN` -/
theorem js_route_call {opts : Opts} {api : Api} {ns : String} {r : RouteD} {f : FnDecl}
    (hattrs : ∀ a ∈ api.routeSchema, (r.attrs.lookup a).isSome = true)
    (h : jsRoute opts api ns r = .ok f) :
    f.name = fmtFunc (ns ++ "_" ++ r.name) r.version
    ∧ f.url = (if r.version = 1 then ns ++ "/" ++ r.name else ns ++ "/" ++ r.name ++ "_v" ++ toString r.version)
    ∧ f.params = (if r.arg = .prim .void then [] else ["arg"]) ++ (if opts.requestOptions then ["options"] else [])
    ∧ f.call = routeCallSpec opts api.routeSchema r := by
  have hurl : jsFmtUrl ns r.name r.version
      = (if r.version = 1 then ns ++ "/" ++ r.name else ns ++ "/" ++ r.name ++ "_v" ++ toString r.version) := by
    unfold jsFmtUrl; by_cases hv : r.version = 1 <;> simp [hv]
  have hmap : ∀ (l : List String) (out : List CallArg), (∀ a ∈ l, (r.attrs.lookup a).isSome = true) →
      l.mapM (attrArg r) = .ok out →
      out = l.map (fun f => CallArg.attr ((r.attrs.lookup f).getD .null)) := by
    intro l
    induction l with
    | nil => intro out _ h; simp [List.mapM_nil, pure, Except.pure] at h; simp [h]
    | cons a as ih =>
      intro out hall h
      rw [List.mapM_cons] at h
      cases hl : r.attrs.lookup a with
      | none => have := hall a List.mem_cons_self; rw [hl] at this; simp at this
      | some v =>
        have ha : attrArg r a = fmtObj v := by simp [attrArg, hl]
        rw [ha] at h
        cases hv : fmtObj v with
        | error e => simp [hv, bind, Except.bind] at h
        | ok ca =>
          cases hrest : as.mapM (attrArg r) with
          | error e => simp [hv, hrest, bind, Except.bind] at h
          | ok rest =>
            simp [hv, hrest, bind, Except.bind, pure, Except.pure] at h
            subst h
            have hca : ca = CallArg.attr v := by
              cases v <;> simp [fmtObj] at hv <;> exact hv.symm
            simp [hl, hca, ih rest (fun b hb => hall b (List.mem_cons_of_mem _ hb)) hrest]
  unfold jsRoute at h
  simp only at h
  split at h
  · rename_i hschema
    split at h
    · simp at h
    · rename_i additional hadd
      have hadd' := hmap _ _ hattrs hadd
      split at h <;> rename_i hvoid
      · simp at h; subst h
        have hv : ¬ r.arg = .prim .void := by simpa using hvoid
        refine ⟨rfl, hurl, ?_, ?_⟩
        · by_cases ho : opts.requestOptions = true <;> simp [hv, ho]
        · simp [routeCallSpec, hv, hadd']
      · simp at h; subst h
        have hv : r.arg = .prim .void := by simpa using hvoid
        refine ⟨rfl, hurl, ?_, ?_⟩
        · by_cases ho : opts.requestOptions = true <;> simp [hv, ho]
        · simp [routeCallSpec, hv, hadd']
  · rename_i hschema
    have hs : api.routeSchema = [] := by
      cases hrs : api.routeSchema with
      | nil => rfl
      | cons _ _ => rw [hrs] at hschema; simp at hschema
    split at h <;> rename_i hvoid
    · simp at h; subst h
      have hv : ¬ r.arg = .prim .void := by simpa using hvoid
      refine ⟨rfl, hurl, ?_, ?_⟩
      · by_cases ho : opts.requestOptions = true <;> simp [hv, ho]
      · simp [routeCallSpec, hv, hs]
    · simp at h; subst h
      have hv : r.arg = .prim .void := by simpa using hvoid
      refine ⟨rfl, hurl, ?_, ?_⟩
      · by_cases ho : opts.requestOptions = true <;> simp [hv, ho]
      · simp [routeCallSpec, hv, hs]

/-- js_client emits one function per route version, in order -/
theorem js_client_one_fn_per_route {opts : Opts} {api : Api} {fns : List FnDecl} (h : jsClient opts api = .ok fns) :
    fns.map (·.name) = routeNamesList api := by
  have hE := seqE_ok h
  have hname : ∀ (ns : String) (r : RouteD) (f : FnDecl), jsRoute opts api ns r = .ok f →
      f.name = fmtFunc (ns ++ "_" ++ r.name) r.version := fun _ _ _ hf => (jsRoute_types hf).2.2.2
  have hok : ∀ (g : Except String FnDecl → Option String),
      (g = fun e => match e with | .ok f => some f.name | .error _ => none) →
      (fns.map Except.ok).filterMap g = fns.map (·.name) := by
    intro g hg; subst hg
    rw [List.filterMap_map]
    exact filterMap_eq_map_of _ _ fns (fun _ _ => rfl)
  rw [← hok _ rfl, ← hE]
  unfold jsClientE routeNamesList
  apply filterMap_flatMap_of
  intro n hn
  split
  · rename_i hc
    exfalso
    have : Except.error "RuntimeError: There is a name conflict" ∈ jsClientE opts api := by
      unfold jsClientE
      exact List.mem_flatMap.mpr ⟨n, hn, by simp [hc]⟩
    exact no_error_of_seqE h _ this
  · rw [List.filterMap_map]
    apply filterMap_eq_map_of
    intro r hr
    have hm : jsRoute opts api n.name r ∈ jsClientE opts api := by
      unfold jsClientE
      refine List.mem_flatMap.mpr ⟨n, hn, ?_⟩
      rename_i hc
      simp only [hc, Bool.false_eq_true, if_false]
      exact List.mem_map.mpr ⟨r, hr, rfl⟩
    simp only [Function.comp]
    cases hd : jsRoute opts api n.name r with
    | error e => rw [hd] at hm; exact absurd hm (no_error_of_seqE h e)
    | ok f => simp [hname _ _ _ hd]

/-- what the model says about completion of js_client: it completes exactly when no namespace has two routes with
the same `fmt_func` name and every attribute value of every route is JSON-serialisable (a union tag, a Bytes or a
Timestamp attribute value is not: the real backend raises TypeError in `fmt_obj`) -/
theorem js_client_completes_iff {opts : Opts} {api : Api}
    (hattrs : ∀ n ∈ api.namespaces, ∀ r ∈ n.routes, ∀ a ∈ api.routeSchema, (r.attrs.lookup a).isSome = true) :
    (∃ fns, jsClient opts api = .ok fns) ↔
      ∀ n ∈ api.namespaces, routeNamesConflict n = false ∧
        ∀ r ∈ n.routes, ∀ a ∈ api.routeSchema, ∀ v, r.attrs.lookup a = some v → supported v = true := by
  have hroute : ∀ (ns : String) (r : RouteD), (∀ a ∈ api.routeSchema, (r.attrs.lookup a).isSome = true) →
      ((∃ f, jsRoute opts api ns r = .ok f) ↔
        ∀ a ∈ api.routeSchema, ∀ v, r.attrs.lookup a = some v → supported v = true) := by
    intro ns r hall
    have hmapM : ∀ (l : List String), (∀ a ∈ l, (r.attrs.lookup a).isSome = true) →
        ((∃ out, l.mapM (attrArg r) = Except.ok out) ↔
          ∀ a ∈ l, ∀ v, r.attrs.lookup a = some v → supported v = true) := by
      intro l
      induction l with
      | nil => intro _; simp [List.mapM_nil, pure, Except.pure]
      | cons a as ih =>
        intro hall
        have iha := ih (fun b hb => hall b (List.mem_cons_of_mem _ hb))
        rw [List.mapM_cons]
        cases hl : r.attrs.lookup a with
        | none => have := hall a List.mem_cons_self; rw [hl] at this; simp at this
        | some v =>
          have ha : attrArg r a = fmtObj v := by simp [attrArg, hl]
          rw [ha]
          cases v with
          | unsupported ty =>
            constructor
            · rintro ⟨_, h⟩; simp [fmtObj, bind, Except.bind] at h
            · intro h; have := h a List.mem_cons_self _ hl; simp [supported] at this
          | _ =>
            constructor
            · rintro ⟨out, h⟩
              cases hrest : as.mapM (attrArg r) with
              | error e => simp [fmtObj, hrest, bind, Except.bind] at h
              | ok rest =>
                intro b hb w hw
                rcases List.mem_cons.mp hb with rfl | hb
                · rw [hl] at hw; simp at hw; subst hw; rfl
                · exact iha.mp ⟨rest, hrest⟩ b hb w hw
            · intro h
              obtain ⟨rest, hrest⟩ := iha.mpr (fun b hb => h b (List.mem_cons_of_mem _ hb))
              simp only [fmtObj, hrest, bind, Except.bind, pure, Except.pure]
              exact ⟨_, rfl⟩
    unfold jsRoute
    simp only
    split
    · rename_i hs
      rw [← hmapM _ hall]
      constructor
      · rintro ⟨f, hf⟩
        split at hf
        · simp at hf
        · rename_i out hout; exact ⟨out, hout⟩
      · rintro ⟨out, hout⟩
        by_cases hv : (!decide (r.arg = .prim .void)) = true <;> simp [hout, hv]
    · rename_i hs
      have : api.routeSchema = [] := by
        cases hrs : api.routeSchema with
        | nil => rfl
        | cons _ _ => rw [hrs] at hs; simp at hs
      rw [this]
      simp only [List.not_mem_nil, false_imp_iff, implies_true, iff_true]
      split <;> exact ⟨_, rfl⟩
  constructor
  · rintro ⟨fns, h⟩ n hn
    have hnc : routeNamesConflict n = false := by
      cases hc : routeNamesConflict n with
      | false => rfl
      | true =>
        exfalso
        have : Except.error "RuntimeError: There is a name conflict" ∈ jsClientE opts api :=
          List.mem_flatMap.mpr ⟨n, hn, by simp [hc]⟩
        exact no_error_of_seqE h _ this
    refine ⟨hnc, fun r hr => (hroute n.name r (hattrs n hn r hr)).mp ?_⟩
    have hm : jsRoute opts api n.name r ∈ jsClientE opts api :=
      List.mem_flatMap.mpr ⟨n, hn, by simp only [hnc, Bool.false_eq_true, if_false]; exact List.mem_map.mpr ⟨r, hr, rfl⟩⟩
    cases hd : jsRoute opts api n.name r with
    | error e => rw [hd] at hm; exact absurd hm (no_error_of_seqE h e)
    | ok f => exact ⟨f, rfl⟩
  · intro h
    have hall : ∀ e ∈ jsClientE opts api, ∃ f, e = Except.ok f := by
      intro e he
      obtain ⟨n, hn, he⟩ := List.mem_flatMap.mp he
      simp only [(h n hn).1, Bool.false_eq_true, if_false] at he
      obtain ⟨r, hr, rfl⟩ := List.mem_map.mp he
      exact (hroute n.name r (hattrs n hn r hr)).mpr ((h n hn).2 r hr)
    have hseq : ∀ (l : List (Except String FnDecl)), (∀ e ∈ l, ∃ f, e = Except.ok f) → ∃ fs, seqE l = .ok fs := by
      intro l
      induction l with
      | nil => intro _; exact ⟨[], rfl⟩
      | cons e es ih =>
        intro hl
        obtain ⟨f, rfl⟩ := hl e List.mem_cons_self
        obtain ⟨fs, hfs⟩ := ih (fun x hx => hl x (List.mem_cons_of_mem _ hx))
        exact ⟨f :: fs, by simp [seqE, hfs]⟩
    exact hseq _ hall

/-- js_types completes exactly when the tag paths of the enumerated-subtypes trees are found; a union never stops it
(until the repair of `_generate_union` a union without tags did: `fmt_jsdoc_union([])` raised IndexError) -/
theorem js_types_completes_iff {opts : Opts} {api : Api} :
    (∃ ds, jsTypes opts api = .ok ds) ↔
      (∀ n ∈ api.namespaces, ∀ dt ∈ n.dataTypes,
        match dt with
        | .struct s => ∀ e, tagMember api s ≠ .error e
        | .union _ => True) := by
  have hseq : ∀ (l : List (Except String Decl)), (∃ fs, seqE l = .ok fs) ↔ (∀ e ∈ l, ∃ f, e = Except.ok f) := by
    intro l
    induction l with
    | nil => simp [seqE]
    | cons e es ih =>
      cases e with
      | error x =>
        simp only [seqE, List.mem_cons, forall_eq_or_imp]
        constructor
        · rintro ⟨_, h⟩; simp at h
        · rintro ⟨⟨_, h⟩, _⟩; simp at h
      | ok a =>
        simp only [seqE, List.mem_cons, forall_eq_or_imp]
        constructor
        · rintro ⟨fs, h⟩
          cases hes : seqE es with
          | error x => rw [hes] at h; simp at h
          | ok as => exact ⟨⟨a, rfl⟩, ih.mp ⟨as, hes⟩⟩
        · rintro ⟨_, h⟩
          obtain ⟨as, has⟩ := ih.mpr h
          exact ⟨a :: as, by rw [has]⟩
  unfold jsTypes
  rw [hseq, jsTypesE_eq]
  constructor
  · intro h n hn dt hdt
    have := h (jsDataE opts api dt)
      (List.mem_append_right _ (List.mem_flatMap.mpr ⟨n, hn, List.mem_map.mpr ⟨dt, hdt, rfl⟩⟩))
    obtain ⟨d, hd⟩ := this
    cases dt with
    | struct s =>
      intro e he
      simp [jsDataE, jsStructDecl, he] at hd
    | union u => trivial
  · intro h e he
    rcases List.mem_append.mp he with he | he
    · obtain ⟨d, _, rfl⟩ := List.mem_map.mp he; exact ⟨d, rfl⟩
    · obtain ⟨n, hn, he⟩ := List.mem_flatMap.mp he
      obtain ⟨dt, hdt, rfl⟩ := List.mem_map.mp he
      have := h n hn dt hdt
      cases dt with
      | struct s =>
        simp only at this
        simp only [jsDataE, jsStructDecl]
        cases htm : tagMember api s with
        | error x => exact absurd htm (this x)
        | ok o => exact ⟨_, rfl⟩
      | union u =>
        simp only [jsDataE, jsUnionDecl]
        exact ⟨_, rfl⟩

/-- tsd_client declares one method per route version: named like the js_client function, with `arg: fmt_type(arg)`
unless the argument is Void, result type `fmt_type(result)` (inside `Promise<..>` / the response wrapper) and error
type `fmt_type(error)` (documented inside `Error<..>` / the error wrapper) -/
theorem tsd_client_method {opts : Opts} {api : Api} {co : ClientOut} (h : tsdClient opts api = .ok co) :
    co.methods = api.namespaces.flatMap (fun n => n.routes.map (tsdRoute api n.name))
    ∧ (co.methods.map (·.name) = routeNamesList api)
    ∧ ∀ n ∈ api.namespaces, ∀ r ∈ n.routes,
        let m := tsdRoute api n.name r
        m.name = fmtFunc (n.name ++ "_" ++ r.name) r.version
        ∧ m.argTy = (if r.arg = .prim .void then none else some (tsdFmt api none true r.arg))
        ∧ m.resultTy = tsdFmt api none true r.result ∧ m.errorTy = tsdFmt api none true r.error := by
  unfold tsdClient at h
  cases hs : seqE (tsdClientE api) with
  | error e => rw [hs] at h; simp at h
  | ok ms =>
    rw [hs] at h; simp at h; subst h
    have hE := seqE_ok hs
    have hmeth : ms = api.namespaces.flatMap (fun n => n.routes.map (tsdRoute api n.name)) := by
      have h1 : (ms.map Except.ok).filterMap (fun (e : Except String FnDecl) => match e with | .ok f => some f | .error _ => none) = ms := by
        rw [List.filterMap_map]
        have := filterMap_eq_map_of ((fun (e : Except String FnDecl) => match e with | .ok f => some f | .error _ => none)
          ∘ Except.ok) id ms (fun _ _ => rfl)
        rw [this]; simp
      rw [← h1, ← hE]
      unfold tsdClientE
      apply filterMap_flatMap_of
      intro n hn
      split
      · rename_i hc
        exfalso
        have : Except.error "RuntimeError: There is a name conflict" ∈ tsdClientE api :=
          List.mem_flatMap.mpr ⟨n, hn, by simp [hc]⟩
        exact no_error_of_seqE hs _ this
      · rw [List.filterMap_map]
        exact filterMap_eq_map_of _ _ _ (fun _ _ => rfl)
    refine ⟨hmeth, ?_, fun n hn r hr => ⟨rfl, rfl, rfl, rfl⟩⟩
    simp only [hmeth, routeNamesList, List.map_flatMap, List.map_map]
    rfl

/-! ## Non-vacuity -/

/-- a two-namespace API: an enumerated-subtypes tree with a catch-all root, a union with inherited tags, an alias,
a cross-namespace field and two route versions -/
def demoApi : Api :=
  let root : QName := ⟨"base", "Root"⟩
  let leaf : QName := ⟨"base", "Leaf"⟩
  { routeSchema := ["host"],
    namespaces := [
      { name := "base", imports := [], routes := [],
        aliases := [⟨⟨"base", "Roots"⟩, .list (.struct root)⟩],
        dataTypes := [
          .struct ⟨leaf, some root, [⟨"peers", .list (.struct root), false⟩, ⟨"n", .nullable (.prim .int32), false⟩],
                   [], false⟩,
          .struct ⟨root, none, [⟨"id", .prim .string, true⟩], [("leaf", leaf)], true⟩,
          .union ⟨⟨"base", "Choice"⟩, none, [⟨"none", .prim .void⟩, ⟨"one", .struct leaf⟩, ⟨"when", .prim .timestamp⟩]⟩] },
      { name := "use", imports := ["base"], aliases := [],
        dataTypes := [.struct ⟨⟨"use", "Holder"⟩, none, [⟨"r", .struct root, false⟩,
                        ⟨"a", .alias ⟨"base", "Roots"⟩ (.list (.struct root)), false⟩], [], false⟩],
        routes := [⟨"get", 1, .struct ⟨"use", "Holder"⟩, .struct root, .union ⟨"base", "Choice"⟩, [("host", .str "api")]⟩,
                   ⟨"get", 2, .prim .void, .prim .void, .prim .void, [("host", .null)]⟩] }] }

example : ApiWF demoApi := by unfold ApiWF; decide
example : tsdNamesInjective {} demoApi ∧ jsNamesInjective demoApi ∧ routeNamesInjective demoApi := by
  refine ⟨?_, ?_, ?_⟩
  · intro n hn; revert n; decide
  · unfold jsNamesInjective; decide
  · unfold routeNamesInjective; decide
example : ∃ out, tsdTypes {} demoApi = .ok out ∧ out.decls.length = 16 ∧ out.imports = [("use.d.ts", "base")] := by
  refine ⟨_, rfl, ?_, ?_⟩ <;> decide
example : ∃ out, tsdTypes { filename := some "t.d.ts" } demoApi = .ok out ∧ out.decls.length = 13 :=
  ⟨_, rfl, by decide⟩
example : renderTs (tsdFmt demoApi (some "use") true (.struct ⟨"base", "Root"⟩)) = "base.LeafReference|base.RootReference" := by
  decide
example : renderJs (jsFmtType demoApi (.list (.struct ⟨"base", "Root"⟩))) = "Array.<(BaseLeaf|BaseRoot)>" := by decide
example : ∃ fns, jsClient { requestOptions := true } demoApi = .ok fns ∧ fns.map (·.name) = ["useGet", "useGetV2"]
    ∧ fns.map (·.url) = ["use/get", "use/get_v2"]
    ∧ fns.map (·.call) = [[.arg, .attr (.str "api"), .options], [.null, .attr .null, .options]] :=
  ⟨_, rfl, by decide, by decide, by decide⟩
/-- a union-typed attribute value makes js_client fail, as the real backend does -/
example : jsRoute {} demoApi "use" ⟨"r", 1, .prim .void, .prim .void, .prim .void, [("host", .unsupported "TagRef")]⟩
    = .error "TypeError: Object of type TagRef is not JSON serializable" := by rfl
/-- regression (formerly the IndexError of `fmt_jsdoc_union([])`): a union without tags gets a typedef without a
`.tag` property, and its TypeScript declaration is `type E = never` -/
example : jsUnionDecl demoApi "t.js" ⟨⟨"base", "E"⟩, none, []⟩
    = .ok { file := "t.js", scope := none, kind := .typedef, name := "BaseE", rhs := some (bare "Object"),
            members := [] } := by
  rfl
example : (tsdUnionDecls demoApi "t.d.ts" ⟨⟨"base", "E"⟩, none, []⟩).map (·.rhs) = [some (bare "never")] := by
  decide +kernel

end StoneVerif.C16
