import StoneVerif.Gen.Tables
import StoneVerif.Model.Fmt
import StoneVerif.Model.Path
import StoneVerif.Model.Emit
import StoneVerif.Model.Wrap
import StoneVerif.Model.Manifest
import StoneVerif.Lemmas.Fmt
import StoneVerif.Lemmas.Path
import StoneVerif.Lemmas.Emit
import StoneVerif.Lemmas.Wrap
import StoneVerif.Lemmas.Manifest
/-!
Property theorems for C18: backends write only inside the output folder, verbatim, as the manifest says.

* paths:     `contained_iff_prefix`, `relative_ok_no_escape`, `containment_test_table`
* text:      `format_escape`, `format_segments`, `escape_table`, `escape_eq_table`,
             `emit_lines`, `indent_restored`, `indent_step_table`, `wrap_words`, `wrap_defaults_table`
* manifest:  `refused_before_write`, `validation_mode_independent`, `manifest_creates_no_file`,
             `manifest_eq_real`, `effect_order_table`
-/
namespace StoneVerif.C18
open StoneVerif.Fmt

deriving instance DecidableEq for Except

/-! ## Text reaches the file verbatim -/

/-- Raw text emitted through `emit_raw` survives `output_buffer_to_string` byte for byte,
whatever braces or format-like sequences it contains, and consumes no placeholder. -/
theorem format_escape (named) (pos) (s : List Char) : pyFormat named pos (escape s) = some s := by
  induction s with
  | nil => simp [escape, pyFormat]
  | cons c cs ih =>
    by_cases h1 : c = '{'
    · subst h1; simp [escape, pyFormat, ih]
    · by_cases h2 : c = '}'
      · subst h2; simp [escape, pyFormat, ih]
      · rw [escape]
        · rw [pyFormat]
          · simp [ih]
          all_goals simp_all
        all_goals simp_all

/-- A buffer built from escaped raw segments and placeholder fields formats to the concatenation of the
raw texts and the registered placeholder texts (`expand`); it fails exactly when a placeholder was
never registered. -/
theorem format_segments (named) (pos) (segs : List Seg)
    (h : ∀ n, Seg.field n ∈ segs → validName n = true) :
    pyFormat named pos (renderSegs segs) = expand named pos segs :=
  pyFormat_renderSegs named pos segs h

example : pyFormat [("x".toList, "{X}".toList)] ["%s".toList]
    (renderSegs [.lit "a{0}b}".toList, .field [], .field "x".toList, .lit "{{x}}\n".toList])
    = some "a{0}b}%s{X}{{x}}\n".toList := by
  rw [format_segments _ _ _ (by intro n hn; simp at hn; rcases hn with rfl | rfl <;> decide)]
  decide

/-- The replacement chain of `emit_raw`, as extracted from the source. -/
theorem escape_table : Tables.emitRawReplacements = [("{", "{{"), ("}", "}}")] := by decide

/-- `s.replace(a, b)` for a one-character pattern -/
def replaceChar (a : Char) (b : List Char) : List Char → List Char
  | [] => []
  | c :: cs => if c = a then b ++ replaceChar a b cs else c :: replaceChar a b cs

/-- apply a `.replace(a, b)` chain (one-character patterns only) in order -/
def applyTable : List (String × String) → List Char → Option (List Char)
  | [], s => some s
  | (a, b) :: rest, s =>
    match a.toList with
    | [c] => applyTable rest (replaceChar c b.toList s)
    | _ => none

/-- The model's `escape` is the replacement chain found in the source. -/
theorem escape_eq_table (s : List Char) : applyTable Tables.emitRawReplacements s = some (escape s) := by
  rw [escape_table]
  simp only [applyTable, String.toList]
  show some (replaceChar '}' ['}', '}'] (replaceChar '{' ['{', '{'] s)) = some (escape s)
  congr 1
  induction s with
  | nil => rfl
  | cons c cs ih =>
    by_cases h1 : c = '{'
    · subst h1; simp [replaceChar, escape, ih]
    · by_cases h2 : c = '}'
      · subst h2; simp [replaceChar, escape, ih]
      · rw [escape]
        · simp [replaceChar, h1, h2, ih]
        all_goals simp_all

/-! ## Emit machine = reference pretty-printer -/
open StoneVerif.Emit in
/-- For every script, running the emit machine on a fresh backend and formatting the buffer gives exactly
the reference pretty-printer's text: every emitted line = indentation of the enclosing indent / block /
list contexts ++ text ++ "\n" (a bare newline for an empty text), raw and wrapped text verbatim,
placeholders replaced by their registered text; the machine fails (assertion, `KeyError`/`IndexError`
of `str.format`, `ValueError` of `textwrap`) exactly when the reference rejects the script. -/
theorem emit_lines (tabs : Bool) (script : List Op) :
    (runScript tabs script).toOption = refText tabs script := by
  have hs := runList_spec tabs script St.init
  unfold runScript refText wellFormed
  cases hok : opsOk tabs St.init.ind script with
  | false =>
    obtain ⟨e, he⟩ := hs.2 hok
    have : (ctxOkList script && (piecesList tabs 0 script).all pieceOk) = false := hok
    rw [he, this]; rfl
  | true =>
    have : (ctxOkList script && (piecesList tabs 0 script).all pieceOk) = true := hok
    rw [hs.1 hok, this]
    simp only [if_true]
    show (bufferToString _).toOption = _
    unfold bufferToString
    have hvalid : ∀ n, Seg.field n ∈ (piecesList tabs 0 script).map (pieceSeg tabs) → validName n = true := by
      intro n hn
      simp only [List.mem_map] at hn
      obtain ⟨p, hp, hpe⟩ := hn
      have hall : (piecesList tabs 0 script).all pieceOk = true := by
        simp only [Bool.and_eq_true] at this; exact this.2
      have := List.all_eq_true.1 hall p hp
      cases p with
      | line i t => simp [pieceSeg] at hpe
      | raw t => simp [pieceSeg] at hpe
      | field m => simp [pieceSeg] at hpe; subst hpe; simpa [pieceOk] using this
    have hfmt := format_segments (namedOfList script) (posOfList script) _ hvalid
    have hout : (res tabs St.init (piecesList tabs St.init.ind script) (posOfList script) (namedOfList script)).out.flatten
        = renderSegs ((piecesList tabs 0 script).map (pieceSeg tabs)) := by
      have henc : enc tabs = fun x => encodeSeg (pieceSeg tabs x) := rfl
      simp [res, St.init, renderSegs, henc, List.map_map, Function.comp_def]
    have hnamed : (res tabs St.init (piecesList tabs St.init.ind script) (posOfList script) (namedOfList script)).named
        = namedOfList script := by simp [res, St.init]
    have hpos : (res tabs St.init (piecesList tabs St.init.ind script) (posOfList script) (namedOfList script)).pos
        = posOfList script := by simp [res, St.init]
    rw [hout, hnamed, hpos, hfmt]
    cases expand (namedOfList script) (posOfList script) ((piecesList tabs 0 script).map (pieceSeg tabs)) <;> rfl

open StoneVerif.Emit in
/-- Every context manager restores the indentation it found: after any successfully executed list of
operations (with arbitrarily nested `indent` / `block` / multi-line lists) `cur_indent` is what it was. -/
theorem indent_restored (tabs : Bool) (st st' : St) (ops : List Op) (h : runList tabs st ops = .ok st') :
    st'.ind = st.ind := by
  have hs := runList_spec tabs ops st
  cases hok : opsOk tabs st.ind ops with
  | false => obtain ⟨e, he⟩ := hs.2 hok; rw [he] at h; cases h
  | true => rw [hs.1 hok] at h; cases h; rfl

open StoneVerif.Emit in
/-- non-vacuity: a nested script with braces, a placeholder and a block, evaluated through the theorem -/
example : (runScript false
      [.addNamed "n".toList "{}".toList,
       .block "if (x)".toList [] (some "{".toList) (some "}".toList) none false
         [.emit "a{0} = {b};".toList, .indent (some 2) [.emit [], .emit "y".toList], .placeholder "n".toList,
          .emitRaw "\n".toList],
       .mlist ["p".toList, "q".toList, "r".toList] "f".toList ";".toList "(".toList ")".toList true ",".toList false]).toOption
    = some "if (x) {\n    a{0} = {b};\n\n      y\n{}\n}\nf(p,\n  q,\n  r);\n".toList := by
  rw [emit_lines]; decide

open StoneVerif.Emit in
/-- non-vacuity of the refusal side: a newline inside `emit` is an error in both -/
example : (runScript true [.emit "a\nb".toList]).toOption = none := by
  rw [emit_lines]; decide

open StoneVerif.Emit in
/-- `indent_step()` in the source: one tab or four spaces. -/
theorem indent_step_table :
    indentStep true = Tables.indentStepTabs ∧ indentStep false = Tables.indentStepSpaces ∧
    Tables.indentStepTest = "self.tabs_for_indents" := by decide

/-! ## Wrapped text keeps every word, in order, behind its prefix -/
open StoneVerif.Wrap in
/-- `textwrap.fill` as called by `emit_wrapped_text` (no long-word breaking, no hyphen breaking): the output
is a sequence of lines `indent ++ body`; the words (`str.split()`) of the bodies, concatenated in order,
are exactly the words of the input; the first line carries `initial_indent`, every other line
`subsequent_indent`. -/
theorem wrap_words (width : Int) (ini sub s : Str) (hw : 0 < width) :
    ∃ body : List (Str × Str),
      fill width ini sub s = .ok (joinLines (body.map fun l => l.1 ++ l.2)) ∧
      body.flatMap (fun l => words l.2) = words s ∧
      (∀ hd tl, body = hd :: tl → hd.1 = ini ∧ ∀ l ∈ tl, l.1 = sub) := by
  refine ⟨(wrapLoop width ini sub false (chunks (munge s))).map (fun l => (l.1, l.2.flatten)), ?_, ?_, ?_⟩
  · have : ¬ width ≤ 0 := by omega
    simp [fill, wrap, this, Except.map, List.map_map, Function.comp_def]
  · have hg := chunks_good (munge s)
    have hspec := wrapLoop_spec width ini sub _ false (chunks (munge s)) (Nat.le_refl _) hg
    rw [List.flatMap_map]
    have h1 : (wrapLoop width ini sub false (chunks (munge s))).flatMap (fun l => words l.2.flatten)
        = (wrapLoop width ini sub false (chunks (munge s))).flatMap (fun l => F l.2) := by
      apply flatMap_congr'
      intro l hl
      exact words_flatten l.2 (hspec.1 l hl)
    rw [h1, hspec.2, ← words_flatten _ hg, chunks_flatten, words_munge]
  · intro hd tl e
    have hi := (wrapLoop_indents width ini sub _ false (chunks (munge s)) (Nat.le_refl _)).2 rfl
    cases hwl : wrapLoop width ini sub false (chunks (munge s)) with
    | nil => rw [hwl] at e; simp at e
    | cons a as =>
      rw [hwl] at e
      simp at e
      obtain ⟨rfl, rfl⟩ := e
      have := hi a as hwl
      refine ⟨this.1, ?_⟩
      intro l hl
      simp at hl
      obtain ⟨x, y, hxy, rfl⟩ := hl
      exact this.2 (x, y) hxy

open StoneVerif.Wrap in
/-- non-vacuity: the specification vocabulary on a concrete text -/
example : words "  the quick\tbrown fox \n".toList = ["the".toList, "quick".toList, "brown".toList, "fox".toList] := by
  decide

/-- Defaults of `emit_wrapped_text` in the source: width 80, words are never broken. -/
theorem wrap_defaults_table :
    Tables.wrapDefaultWidth = 80 ∧ Tables.wrapDefaultBreakLongWords = false ∧
    Tables.wrapDefaultBreakOnHyphens = false := by decide

/-! ## Paths cannot escape the output folder -/
open StoneVerif.Path in
/-- `_relative_output_path` accepts a path iff the normalised component list of the output root is a
prefix of the normalised component list of the target (both directions: nothing escapes, nothing inside
is refused). `cwd` is `os.getcwd()`, an absolute path. -/
theorem contained_iff_prefix (cwd root p : Str) (hcwd : isAbs cwd = true) :
    (∃ r, relativeOutputPath cwd root p = .ok r) ↔ absComps cwd root <+: absComps cwd p := by
  rw [relativeOutputPath_spec cwd root p hcwd]
  by_cases h : absComps cwd root <+: absComps cwd p <;> simp [h]

open StoneVerif.Path StoneVerif.Manifest in
/-- An accepted request yields a relative path that is not absolute, does not begin with a parent
segment, consists of proper names only (no empty, `.` or `..` segment), and leads from the root to the
target. -/
theorem relative_ok_no_escape (cwd root p r : Str) (hcwd : isAbs cwd = true)
    (h : relativeOutputPath cwd root p = .ok r) :
    isAbs r = false ∧ escapes r = false ∧ (∀ c ∈ compsOfRel r, Proper c) ∧
      absComps cwd p = absComps cwd root ++ compsOfRel r := by
  have hc := accepted_comps cwd root p r hcwd h
  have hesc : escapes r = false := by
    simp only [relativeOutputPath] at h
    split at h
    · cases h
    · next rel _ =>
      split at h
      · cases h
      · next hne => cases h; simpa using hne
  refine ⟨?_, hesc, ?_, hc.2⟩
  · unfold escapes at hesc
    simp only [Bool.or_eq_false_iff] at hesc
    exact hesc.2
  · intro c hcm
    exact absComps_proper cwd p hcwd c (by rw [hc.2]; simp [hcm])

open StoneVerif.Path in
/-- non-vacuity: `..` inside the folder is accepted, `..` out of it and absolute paths are refused,
a name that merely starts with two dots is fine -/
example :
    relativeOutputPath "/w".toList "out".toList "out/a/../b/c.py".toList = .ok "b/c.py".toList ∧
    relativeOutputPath "/w".toList "out".toList "out/../x".toList = .error () ∧
    relativeOutputPath "/w".toList "out".toList "/etc/passwd".toList = .error () ∧
    relativeOutputPath "/w".toList "out".toList "out/..x".toList = .ok "..x".toList ∧
    relativeOutputPath "/w".toList "../out".toList "out/x".toList = .error () := by decide

/-- The three-way test of `_relative_output_path` in the source is the one `Path.escapes` models, and the
function returns the relative path with `os.sep` replaced by '/' (the identity on POSIX). -/
theorem containment_test_table :
    Tables.relativeOutputPathTests =
      ["relative_path==os.pardir", "relative_path.startswith(os.pardir+os.sep)", "os.path.isabs(relative_path)"] ∧
    Tables.relativeOutputPathReturn = ["relative_path.replace(os.sep,'/')"] := by decide

/-! ## Refusal precedes every effect; the manifest run equals the real run -/
open StoneVerif.Manifest in
/-- A request whose validation fails leaves the files and the log untouched, in either mode
(`out` and `copy` leave the whole state untouched; the Swift writer may have created the output folder
itself before validating). -/
theorem refused_before_write (m : Bool) (cfg : Cfg) (st st' : RunState) (op : Op)
    (h : step m cfg st op = (st', some .refused)) :
    st'.fs.files = st.fs.files ∧ st'.log = st.log ∧
      ((∀ c f, op ≠ .swiftWrite c f) → st' = st) := by
  cases op with
  | out rel ap c =>
    have := commit_refused m cfg st st' _ _ _ _ h
    subst this; exact ⟨rfl, rfl, fun _ => rfl⟩
  | copy s c d =>
    have := commit_refused m cfg st st' _ _ _ _ h
    subst this; exact ⟨rfl, rfl, fun _ => rfl⟩
  | swiftWrite c f =>
    have := commit_refused m cfg _ st' _ _ _ _ h
    subst this; exact ⟨rfl, rfl, fun hne => absurd rfl (hne c f)⟩

open StoneVerif.Manifest StoneVerif.Path in
/-- Whether a request is refused does not depend on the mode or on the file system: both modes run the
same `_validate_output_path` first. -/
theorem validation_mode_independent (cfg : Cfg) (st₁ st₂ : RunState) (p : Str) (mk ap : Bool) (c : Str) :
    ((commit true cfg st₁ p mk ap c).2 = some .refused ↔ relativeOutputPath cfg.cwd cfg.root p = .error ()) ∧
    ((commit false cfg st₂ p mk ap c).2 = some .refused ↔ relativeOutputPath cfg.cwd cfg.root p = .error ()) := by
  constructor
  · unfold commit
    cases hv : relativeOutputPath cfg.cwd cfg.root p with
    | error e => simp
    | ok r => simp
  · unfold commit
    cases hv : relativeOutputPath cfg.cwd cfg.root p with
    | error e => simp
    | ok r =>
      simp only [Bool.false_eq_true, if_false]
      split
      · next e he => have := writeFile_err _ _ _ _ _ he; subst this; simp
      · simp

open StoneVerif.Manifest in
/-- A manifest run creates, changes and deletes no file, whatever the operations and however it ends. -/
theorem manifest_creates_no_file (cfg : Cfg) (ops : List Op) (fs₀ : FS) :
    (manifestRun cfg ops fs₀).1.fs.files = fs₀.files :=
  run_manifest_files cfg ops _

open StoneVerif.Manifest StoneVerif.Path in
/-- If the real run of a list of write requests completes, the manifest run with the same arguments
completes too and reports (`OutputManifest.outputs()`: sorted, duplicate-free) exactly the relative names
of the files the real run wrote; those are exactly the new files in the real file system, all below the
output root; and the manifest run changed no file.

Hypothesis `hcopy`: every `copy_to_path` destination is a directory that exists before the run (how the
built-in backends call it). Without it the two modes can disagree (see the `example` below): in manifest
mode a directory that a *real* `output_to_relative_path` would have created does not exist, so
`os.path.isdir(dst)` differs. -/
theorem manifest_eq_real (cfg : Cfg) (hcwd : isAbs cfg.cwd = true) (ops : List Op) (fs₀ : FS) (stR : RunState)
    (hcopy : CopyIntoExisting cfg fs₀.dirs ops)
    (hreal : realRun cfg ops fs₀ = (stR, none)) :
    ∃ stM, manifestRun cfg ops fs₀ = (stM, none) ∧
      OutputManifest.outputs ⟨stM.log⟩ = sortDedup stR.log ∧
      (∀ r, r ∈ OutputManifest.outputs ⟨stM.log⟩ ↔ r ∈ stR.log) ∧
      (∀ r ∈ stR.log, absComps cfg.cwd cfg.root ++ compsOfRel r ∈ keys stR.fs) ∧
      (∀ k ∈ keys stR.fs, k ∈ keys fs₀ ∨ ∃ r ∈ stR.log, k = absComps cfg.cwd cfg.root ++ compsOfRel r) ∧
      stM.fs.files = fs₀.files := by
  obtain ⟨stM, hm, hlog⟩ := run_pair cfg fs₀.dirs ops { fs := fs₀, log := [] } { fs := fs₀, log := [] } stR hcopy rfl
    (fun d hd => hd) (fun d hd => hd) hreal
  have hinv := run_real_inv cfg hcwd (keys fs₀) ops { fs := fs₀, log := [] } stR
    ⟨by simp, fun k hk => Or.inl hk⟩ hreal
  refine ⟨stM, hm, ?_, ?_, hinv.1, hinv.2, ?_⟩
  · simp [OutputManifest.outputs, hlog]
  · intro r; simp [OutputManifest.outputs, mem_sortDedup, hlog]
  · have := manifest_creates_no_file cfg ops fs₀
    unfold manifestRun at this
    rw [hm] at this; exact this

open StoneVerif.Manifest in
/-- non-vacuity of `manifest_eq_real` and of `refused_before_write`: a python_types-like run, then an
escaping request -/
example :
    let cfg : Cfg := { cwd := "/w".toList, root := "out".toList }
    let fs₀ : FS := { files := [], dirs := [["w".toList], ["w".toList, "out".toList]] }
    let ops := [Op.out "__init__.py".toList true "".toList, .out "ns/a.py".toList false "x".toList,
                .copy "Base.swift".toList "b".toList "out".toList, .swiftWrite "s".toList "S.swift".toList,
                .out "ns/../ns/a.py".toList false "y".toList]
    (realRun cfg ops fs₀).2 = none ∧
    OutputManifest.outputs ⟨(manifestRun cfg ops fs₀).1.log⟩ =
      ["Base.swift".toList, "S.swift".toList, "__init__.py".toList, "ns/a.py".toList] ∧
    keys (realRun cfg ops fs₀).1.fs =
      [["w", "out", "__init__.py"], ["w", "out", "ns", "a.py"], ["w", "out", "Base.swift"], ["w", "out", "S.swift"]].map
        (·.map String.toList) ∧
    (realRun cfg (ops ++ [.out "../evil".toList false "z".toList]) fs₀).2 = some .refused ∧
    keys (realRun cfg (ops ++ [.out "../evil".toList false "z".toList]) fs₀).1.fs = keys (realRun cfg ops fs₀).1.fs := by
  decide

open StoneVerif.Manifest in
/-- The hypothesis of `manifest_eq_real` is needed: copying into a directory that only a real
`output_to_relative_path` creates makes the manifest (`sub`) differ from the real run (`sub/f.h`).
No built-in backend does this. -/
example :
    let cfg : Cfg := { cwd := "/w".toList, root := "out".toList }
    let fs₀ : FS := { files := [], dirs := [["w".toList], ["w".toList, "out".toList]] }
    let ops := [Op.out "sub/a.txt".toList false "x".toList, .copy "f.h".toList "b".toList "out/sub".toList]
    (realRun cfg ops fs₀).1.log = ["sub/a.txt".toList, "sub/f.h".toList] ∧
    (manifestRun cfg ops fs₀).1.log = ["sub/a.txt".toList, "sub".toList] := by
  decide

/-- Order of validation, recording and file-system calls in the three writers of the source:
validation precedes recording precedes every write; only the Swift writer creates the output folder
itself before validating. -/
theorem effect_order_table :
    Tables.outputToRelativePathCalls = ["_validate_output_path", "_record_output_path", "makedirs", "open", "write"] ∧
    Tables.copyToPathCalls = ["_validate_output_path", "_record_output_path", "copy"] ∧
    Tables.swiftWriteCalls = ["mkdir", "_validate_output_path", "_record_output_path", "open", "write"] := by decide

end StoneVerif.C18
