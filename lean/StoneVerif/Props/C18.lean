import StoneVerif.Model.Fmt
/-! Property theorems for C18 (backends write verbatim, inside the output folder). -/
namespace StoneVerif.C18
open StoneVerif.Fmt

/-- Raw text emitted through `emit_raw` survives `output_buffer_to_string` byte for byte,
whatever braces or format-like sequences it contains, and consumes no placeholder. -/
theorem format_escape (named) (pos) (s : List Char) : pyFormat named pos (escape s) = some s := by
  induction s with
  | nil => simp [escape, pyFormat]
  | cons c cs ih =>
    by_cases h1 : c = '{'
    · subst h1; simp [escape, pyFormat, ih]
    · by_cases h2 : c = '}'
      · subst h2; simp [escape, pyFormat, ih]
      · rw [escape]
        · rw [pyFormat]
          · simp [ih]
          all_goals simp_all
        all_goals simp_all

end StoneVerif.C18
