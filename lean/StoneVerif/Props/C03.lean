import StoneVerif.Lemmas.FeParams
import StoneVerif.Lemmas.FeNames
/-!
# C03 — arbitrary text ends in an API description or a spec error: the proved part

The statement for whole specs and arbitrary text is covered by crash fuzzing of the real `specs_to_ir`
(`harness/suites/fe_fuzz.py`, the injections of C01) and is labelled testing.  Proved here: the crash layer of the two
component models (`FeParams.instantiate`, `FeNames.register`), which make Python's partiality explicit (`FeErr.crash`,
`Err.crash`).  Both are total Lean functions: termination is by construction.
-/
namespace StoneVerif.C03
open StoneVerif.FeParams StoneVerif.FeNames

/-- Outside the one known site (a list length that is not a number), type instantiation ends in a type or in the
spec error. Missing for full strength: `hitsListLengthCrash` (see `crash_list_min_items_str`). -/
theorem instantiate_no_crash_partial (rx : String → Bool) (k : TyKind) (pos : List Arg) (kw : List (String × Arg))
    (h : hitsListLengthCrash k kw = false) : ∀ e, instantiate rx k pos kw ≠ .error (.crash e) :=
  FeParams.instantiate_no_crash_partial rx k pos kw h

theorem resolveBuiltin_no_crash_partial (rx : String → Bool) (k : TyKind) (pos : List Arg) (kw : List (String × Arg))
    (nullable : Bool) (h : hitsListLengthCrash k kw = false) :
    ∀ e, resolveBuiltin rx k pos kw nullable ≠ .error (.crash e) :=
  FeParams.resolveBuiltin_no_crash_partial rx k pos kw nullable h

/-- The only exception that can escape type instantiation is the `TypeError` of `List.__init__`. -/
theorem instantiate_crash_is_list_typeError (rx : String → Bool) (k : TyKind) (pos : List Arg)
    (kw : List (String × Arg)) (e : PyExc) (h : instantiate rx k pos kw = .error (.crash e)) :
    e = .typeError ∧ k = .list :=
  FeParams.instantiate_crash_typeError rx k pos kw e h

/-- `List(String, min_items="a")`: `"a" < 0` raises `TypeError`, which `_instantiate_data_type` does not catch. -/
theorem crash_list_min_items_str :
    instantiate (fun _ => true) .list [.ty true] [("min_items", .str "a")] = .error (.crash .typeError) :=
  FeParams.crash_list_min_items_str

/-- The full-strength statement FAILS on today's code. -/
theorem instantiate_no_crash_fails :
    ¬ ∀ (rx : String → Bool) (k : TyKind) (pos : List Arg) (kw : List (String × Arg)) (e : PyExc),
      instantiate rx k pos kw ≠ .error (.crash e) :=
  FeParams.instantiate_no_crash_fails

example : hitsListLengthCrash .list [("min_items", .int 1), ("max_items", .float (.fin 3 2))] = false := by decide

/-- Name registration ends in a state or in the spec error when no definition carries a built-in type name, none is
an annotation, and no exact (namespace, name) is defined twice unless by routes. Missing for full strength: the three
sites below. -/
theorem register_no_crash_partial (fs : List File) (h : CrashFree fs) : ∀ e, register fs ≠ .error (.crash e) :=
  FeNames.register_no_crash_partial fs h

/-- a clash that involves an annotation: `_get_user_friendly_item_type_as_string` asserts -/
theorem crash_annotation_clash :
    register [⟨"a".toList, [⟨.annotation, "Foo".toList⟩, ⟨.type, "foo".toList⟩]⟩] = .error (.crash .assertionError) :=
  FeNames.crash_annotation_clash

/-- `struct String`: the "already defined" message reads `_ast_node` of a class -/
theorem crash_builtin_redefined :
    register [⟨"a".toList, [⟨.type, "String".toList⟩]⟩] = .error (.crash .attributeError) :=
  FeNames.crash_builtin_redefined

theorem register_no_crash_fails : ¬ ∀ fs e, register fs ≠ .error (.crash e) := FeNames.register_no_crash_fails

example : CrashFree FeNames.exampleFiles := by decide

end StoneVerif.C03
