import StoneVerif.Lemmas.FeParams
import StoneVerif.Lemmas.FeNames
/-!
# C03 — arbitrary text ends in an API description or a spec error: the proved part

The statement for whole specs and arbitrary text is covered by crash fuzzing of the real `specs_to_ir`
(`harness/suites/fe_fuzz.py`, the injections of C01) and is labelled testing.  Proved here: the crash layer of the two
component models (`FeParams.instantiate`, `FeNames.register`), which make Python's partiality explicit (`FeErr.crash`,
`Err.crash`).  Both are total Lean functions: termination is by construction.

Both statements are full strength since the crash sites the first version of the models mirrored (`List(T,
min_items="a")`; a name clash that involves an annotation; a definition named like a built-in type, a route or an
annotation type) were repaired in the code: the former witnesses are kept as regression statements of the new
behaviour.
-/
namespace StoneVerif.C03
open StoneVerif.FeParams StoneVerif.FeNames

/-- Type instantiation (`_instantiate_data_type` + the `__init__` checks) ends in a type or in the spec error, for
every built-in type and every argument list. -/
theorem instantiate_no_crash (rx : String → Bool) (k : TyKind) (pos : List Arg) (kw : List (String × Arg)) :
    ∀ e, instantiate rx k pos kw ≠ .error (.crash e) :=
  FeParams.instantiate_no_crash rx k pos kw

/-- The same for a whole reference `K(args)` / `K(args)?`. -/
theorem resolveBuiltin_no_crash (rx : String → Bool) (k : TyKind) (pos : List Arg) (kw : List (String × Arg))
    (nullable : Bool) : ∀ e, resolveBuiltin rx k pos kw nullable ≠ .error (.crash e) :=
  FeParams.resolveBuiltin_no_crash rx k pos kw nullable

/-- Repaired: `List(String, min_items="a")`, `min_items=null`, `max_items=Int32` (were `TypeError`s from `<`). -/
theorem list_min_items_str_refused :
    instantiate (fun _ => true) .list [.ty true] [("min_items", .str "a")] = .error (.specerr .badArgument) ∧
    instantiate (fun _ => true) .list [.ty true] [("min_items", .null)] = .error (.specerr .badArgument) ∧
    instantiate (fun _ => true) .list [.ty true] [("max_items", .ty false)] = .error (.specerr .badArgument) :=
  FeParams.list_min_items_str_refused

/-- non-vacuity: the model of the constructor call can fail (a call with the wrong number of arguments is a
`TypeError`); `instantiate_no_crash` says the bookkeeping in front of the call excludes it -/
example : construct (fun _ => true) .list [] [] = .error (.crash .typeError) := by decide

/-- Name registration ends in a state or in the spec error, for every list of files. -/
theorem register_no_crash (fs : List File) : ∀ e, register fs ≠ .error (.crash e) :=
  FeNames.register_no_crash fs

/-- non-vacuity: the model can fail (`min` of an empty `at_version`), from a state the pass never builds -/
example : addItem { env := [(("a".toList, "r".toList), .routes [])] } "a".toList ⟨.type, "r".toList⟩
    = .error (.crash .valueError) := rfl

/-- Repaired: a clash that involves an annotation (was `AssertionError`). -/
theorem annotation_clash_refused :
    register [⟨"a".toList, [⟨.annotation, "Foo".toList⟩, ⟨.type, "foo".toList⟩]⟩] = .error (.specerr .nameConflict) :=
  FeNames.annotation_clash_refused

/-- Repaired: `struct String` (was `AttributeError`: the message read `_ast_node` of a class). -/
theorem builtin_redefined_refused :
    register [⟨"a".toList, [⟨.type, "String".toList⟩]⟩] = .error (.specerr .symbolDefined) :=
  FeNames.builtin_redefined_refused.1

/-- Repaired: `route r` then `struct r`; `annotation_type T` then `struct T` (were `AttributeError`s). -/
theorem taken_name_refused :
    register [⟨"a".toList, [⟨.route 1, "r".toList⟩, ⟨.type, "r".toList⟩]⟩] = .error (.specerr .symbolDefined) ∧
    register [⟨"a".toList, [⟨.annotationType, "T".toList⟩, ⟨.type, "T".toList⟩]⟩] = .error (.specerr .symbolDefined) :=
  ⟨FeNames.route_then_type_refused, FeNames.annotation_type_then_same_name_refused⟩

end StoneVerif.C03
