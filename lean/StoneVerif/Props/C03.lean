import StoneVerif.Lemmas.FeParams
import StoneVerif.Lemmas.FeNames
import StoneVerif.Lemmas.CliReport
/-!
# C03 — arbitrary text ends in an API description or a spec error: the proved part

The statement for whole specs and arbitrary text is covered by crash fuzzing of the real `specs_to_ir`
(`harness/suites/fe_fuzz.py`, the injections of C01) and is labelled testing.  Proved here: the crash layer of the two
component models (`FeParams.instantiate`, `FeNames.register`), which make Python's partiality explicit (`FeErr.crash`,
`Err.crash`).  Both are total Lean functions: termination is by construction.

Both statements are full strength since the crash sites the first version of the models mirrored (`List(T,
min_items="a")`; a name clash that involves an annotation; a definition named like a built-in type, a route or an
annotation type) were repaired in the code: the former witnesses are kept as regression statements of the new
behaviour.

The last sentence of the property ("the command line always answers a bad spec with `path:line: error: message`") is
proved for the format operation that the `except InvalidSpec` handler of `stone.cli.main` holds - the translator copies
it from the handler as data, `Model/CliReport.lean` interprets Python's `str.format` / `%` on it with their partiality
explicit - for every value the three fields of an `InvalidSpec` can take (`cli_answers_spec_error`).  That the handler
is reached with exactly those values is tested (`fe.report`), not proved.
-/
namespace StoneVerif.C03
open StoneVerif.FeParams StoneVerif.FeNames

/-- Type instantiation (`_instantiate_data_type` + the `__init__` checks) ends in a type or in the spec error, for
every built-in type and every argument list. -/
theorem instantiate_no_crash (rx : String → Bool) (k : TyKind) (pos : List Arg) (kw : List (String × Arg)) :
    ∀ e, instantiate rx k pos kw ≠ .error (.crash e) :=
  FeParams.instantiate_no_crash rx k pos kw

/-- The same for a whole reference `K(args)` / `K(args)?`. -/
theorem resolveBuiltin_no_crash (rx : String → Bool) (k : TyKind) (pos : List Arg) (kw : List (String × Arg))
    (nullable : Bool) : ∀ e, resolveBuiltin rx k pos kw nullable ≠ .error (.crash e) :=
  FeParams.resolveBuiltin_no_crash rx k pos kw nullable

/-- Repaired: `List(String, min_items="a")`, `min_items=null`, `max_items=Int32` (were `TypeError`s from `<`). -/
theorem list_min_items_str_refused :
    instantiate (fun _ => true) .list [.ty true] [("min_items", .str "a")] = .error (.specerr .badArgument) ∧
    instantiate (fun _ => true) .list [.ty true] [("min_items", .null)] = .error (.specerr .badArgument) ∧
    instantiate (fun _ => true) .list [.ty true] [("max_items", .ty false)] = .error (.specerr .badArgument) :=
  FeParams.list_min_items_str_refused

/-- non-vacuity: the model of the constructor call can fail (a call with the wrong number of arguments is a
`TypeError`); `instantiate_no_crash` says the bookkeeping in front of the call excludes it -/
example : construct (fun _ => true) .list [] [] = .error (.crash .typeError) := by decide

/-- Name registration ends in a state or in the spec error, for every list of files. -/
theorem register_no_crash (fs : List File) : ∀ e, register fs ≠ .error (.crash e) :=
  FeNames.register_no_crash fs

/-- non-vacuity: the model can fail (`min` of an empty `at_version`), from a state the pass never builds -/
example : addItem { env := [(("a".toList, "r".toList), .routes [])] } "a".toList ⟨.type, "r".toList⟩
    = .error (.crash .valueError) := rfl

/-- Repaired: a clash that involves an annotation (was `AssertionError`). -/
theorem annotation_clash_refused :
    register [⟨"a".toList, [⟨.annotation, "Foo".toList⟩, ⟨.type, "foo".toList⟩]⟩] = .error (.specerr .nameConflict) :=
  FeNames.annotation_clash_refused

/-- Repaired: `struct String` (was `AttributeError`: the message read `_ast_node` of a class). -/
theorem builtin_redefined_refused :
    register [⟨"a".toList, [⟨.type, "String".toList⟩]⟩] = .error (.specerr .symbolDefined) :=
  FeNames.builtin_redefined_refused.1

/-- Repaired: `route r` then `struct r`; `annotation_type T` then `struct T` (were `AttributeError`s). -/
theorem taken_name_refused :
    register [⟨"a".toList, [⟨.route 1, "r".toList⟩, ⟨.type, "r".toList⟩]⟩] = .error (.specerr .symbolDefined) ∧
    register [⟨"a".toList, [⟨.annotationType, "T".toList⟩, ⟨.type, "T".toList⟩]⟩] = .error (.specerr .symbolDefined) :=
  ⟨FeNames.route_then_type_refused, FeNames.annotation_type_then_same_name_refused⟩

/-! ## The command line's answer to a spec error -/

/-- For every `InvalidSpec` - with or without a path, with or without a line - the format operation of the handler in
`stone.cli.main` (`Tables.cliSpecErrorStyle / Template / Fields`) raises nothing and yields `path:line: error: message`. -/
theorem cli_answers_spec_error (e : CliReport.SpecErr) :
    ∃ out, CliReport.cliAnswer e = .ok out ∧ CliReport.Answers out e := by
  refine ⟨_, CliReport.cliAnswer_eq e, CliReport.pyStr (CliReport.pathVal e), CliReport.pyStr (CliReport.lineVal e), rfl, ?_, ?_⟩
  · intro p hp; simp [CliReport.pathVal, hp]
  · intro l hl; simp [CliReport.lineVal, hl, CliReport.pyStr]

/-- ... in particular no exception escapes the handler, whatever the fields hold. -/
theorem cli_answer_no_crash (e : CliReport.SpecErr) : ∀ x, CliReport.cliAnswer e ≠ .error (.crash x) := by
  intro x h
  rw [CliReport.cliAnswer_eq] at h
  cases h

/-- the answer goes to stderr and the handler ends with `sys.exit(1)` -/
theorem cli_spec_error_status : Tables.cliSpecErrorExit = 1 ∧ Tables.cliSpecErrorStream = "sys.stderr" := by
  decide +kernel

/-- Why `str.format` with `{}` fields is safe here whatever the template: it does not look at the kind of a value
(whether it raises depends on the template and the number of arguments only), so a line or a path that is `None`
cannot make a difference. -/
theorem format_style_kind_blind (t : List Char) (as bs : List CliReport.PyVal) (h : as.length = bs.length) :
    (CliReport.runFormat t as).isOk = (CliReport.runFormat t bs).isOk :=
  CliReport.runFormat_kind_blind t as bs h

/-- non-vacuity: errors without a line (the text ends where the grammar needs more), without line and path (nesting
beyond the recursion limit) and with both -/
example : CliReport.cliAnswer ⟨some "a.stone".toList, none, "Unexpected end of file.".toList⟩
    = .ok "a.stone:None: error: Unexpected end of file.".toList := by decide +kernel
example : CliReport.cliAnswer ⟨none, none, "The specs nest too deeply.".toList⟩
    = .ok "None:None: error: The specs nest too deeply.".toList := by decide +kernel
example : CliReport.cliAnswer ⟨some "a.stone".toList, some 3, "Symbol 'X' is undefined.".toList⟩
    = .ok "a.stone:3: error: Symbol 'X' is undefined.".toList := by decide +kernel

/-- the model can fail: the `%` operation is not kind blind - `%d` of a line that is `None` is a TypeError, and
`cli_answers_spec_error` would be false of a handler that holds it -/
example : CliReport.run "percent" "%s:%d: error: %s".toList [.str "a.stone".toList, .none, .str "m".toList]
    = .error (.crash .typeError) := by decide +kernel
example : CliReport.run "percent" "%s:%d: error: %s".toList [.str "a".toList, .int 3, .str "m".toList]
    = .ok "a:3: error: m".toList := by decide +kernel
example : CliReport.run "format" "{}:{}: error: {}".toList [.str "a".toList, .none] = .error (.crash .indexError) := by
  decide +kernel

end StoneVerif.C03
