import StoneVerif.Model.FeParams
/-!
# Type instantiation (Model/FeParams): accepted = legal outside four holes; the only crash is `List` lengths

* `legal_accepted`: a legal argument list (`legalArgs`, from the "Basic Types" table) is never refused (full strength).
* `ok_imp_legal_partial`, `instantiate_ok_iff_legal_partial`, `resolveBuiltin_ok_iff_legalRef_partial`:
  conversely an accepted argument list is legal -- *partial*: inputs that hit one of the four holes
  (`hitsHole`: a literal as `List` / `Map` element type, a float as `List` length, a falsy non-string `String`
  pattern, a bound beyond the other end of the width) are excluded; `hole_*` show that each hole is real and
  `instantiate_ok_iff_legal_fails` that the unrestricted equivalence is false.
* `instantiate_crash_typeError`, `instantiate_no_crash_partial`: the only exception other than `InvalidSpec` is the
  `TypeError` of `List.__init__` on a non-numeric `min_items` / `max_items` (`hitsListLengthCrash`) -- *partial*:
  those inputs are excluded; `crash_*` are witnesses and `instantiate_no_crash_fails` the negated full statement.
* `initSig_table`, `builtinTypes_table`, `intLimits_table`, `floatLimits_table`, `optional_matches_signature`,
  `required_matches_signature`: the extracted tables are what the proofs assume.
-/
namespace StoneVerif.FeParams

deriving instance DecidableEq for Except

/-! ## Table pins -/

theorem builtinTypes_table : Tables.feBuiltinTypes = TyKind.all.map TyKind.pyName := by decide

/-- every entry of `Tables.feInitSigs` (the `__init__` signatures in stone/ir/data_types.py) -/
theorem initSig_table : TyKind.all.map (fun k => (k.pyName, initSig k)) = Tables.feInitSigs := by decide

theorem intLimits_table :
    [TyKind.int32, .uint32, .int64, .uint64].map (fun k => (k.pyName, intLimits k)) = Tables.irIntBounds := by decide

/-- `Float32` is limited to ±3.40282e38 (the doubles nearest to that literal), `Float64` is not limited -/
theorem floatLimits_table :
    floatLimits .float32 = (some (.fin (-340282000000000014192072600942972764160) 1),
      some (.fin 340282000000000014192072600942972764160 1)) ∧
    floatLimits .float64 = (none, none) ∧
    Tables.irFloatBounds.map (·.1) = [TyKind.float32.pyName, TyKind.float64.pyName] := by decide

/-! ## `Except` plumbing -/

theorem bind_ok_iff {ε α β} (x : Except ε α) (f : α → Except ε β) (b : β) :
    (x >>= f) = .ok b ↔ ∃ a, x = .ok a ∧ f a = .ok b := by
  cases x <;> simp [bind, Except.bind]

@[local simp] theorem ok_bind {ε α β} (a : α) (f : α → Except ε β) : (Except.ok a >>= f) = f a := rfl

theorem bind_error_iff {ε α β} (x : Except ε α) (f : α → Except ε β) (e : ε) :
    (x >>= f) = .error e ↔ x = .error e ∨ ∃ a, x = .ok a ∧ f a = .error e := by
  cases x <;> simp [bind, Except.bind]

/-! ## Positional / keyword bookkeeping -/

/-- the keyword loop, as a `List.all` -/
def kwOk (names : List String) (numReq : Nat) (key : String) : Bool :=
  match names.idxOf? key with
  | some i => decide (numReq ≤ i)
  | none => false

theorem checkKw_none_iff (names numReq kw) :
    checkKw names numReq kw = none ↔ kw.all (fun p => kwOk names numReq p.1) = true := by
  induction kw with
  | nil => simp [checkKw]
  | cons p rest ih =>
    obtain ⟨key, a⟩ := p
    simp only [checkKw, List.all_cons, Bool.and_eq_true, kwOk]
    cases h : names.idxOf? key with
    | none => simp
    | some i =>
      by_cases hi : i < numReq
      · simp [hi]; omega
      · simp [hi, ih, kwOk]; omega

theorem initSig_eq (k : TyKind) : initSig k = match k with
  | .bytes | .boolean | .void => ([], 0)
  | .float32 | .float64 | .int32 | .int64 | .uint32 | .uint64 => (["min_value", "max_value"], 2)
  | .list => (["data_type", "min_items", "max_items"], 2)
  | .map => (["key_data_type", "value_data_type"], 0)
  | .string => (["min_length", "max_length", "pattern"], 3)
  | .timestamp => (["fmt"], 0) := by
  cases k <;> rfl

theorem kwOk_optional (k : TyKind) (key : String) :
    kwOk (initSig k).1 ((initSig k).1.length - (initSig k).2) key = ((optional k).lookup key).isSome := by
  rw [initSig_eq]
  cases k <;> simp [List.lookup, kwOk, optional, List.idxOf?_cons]
  all_goals grind

theorem required_matches_signature (k : TyKind) :
    (required k).length = (initSig k).1.length - (initSig k).2 := by
  cases k <;> rfl

/-- the optional arguments of the specification table are exactly the parameters with a default, in order
(all 13 kinds; `Timestamp`'s `fmt`, `List`'s `data_type`, `Map`'s two types have no default) -/
theorem optional_matches_signature (k : TyKind) :
    (optional k).map (·.1) = (initSig k).1.drop ((initSig k).1.length - (initSig k).2) := by
  cases k <;> rfl

/-- the bookkeeping part of `_instantiate_data_type` in terms of the specification tables -/
theorem instantiate_eq (rx k pos kw) :
    instantiate rx k pos kw =
      if nodupKeys kw = false then .error (.specerr .dupKeyword)
      else if (required k).length > pos.length then .error (.specerr .missingPositional)
      else if (required k).length < pos.length then .error (.specerr .tooManyPositional)
      else match checkKw (initSig k).1 (required k).length kw with
        | some r => .error (.specerr r)
        | none => construct rx k pos kw := by
  simp only [instantiate, required_matches_signature]
  cases nodupKeys kw
  · simp
  · simp only [Bool.not_true, Bool.false_eq_true, if_false, gt_iff_lt]
    split
    · rfl
    split
    · rfl
    cases checkKw (initSig k).1 ((initSig k).1.length - (initSig k).2) kw <;> rfl

def kwAllOptional (k : TyKind) (kw : List (String × Arg)) : Bool :=
  kw.all (fun p => ((optional k).lookup p.1).isSome)

theorem checkKw_none_iff_optional (k kw) :
    checkKw (initSig k).1 (required k).length kw = none ↔ kwAllOptional k kw = true := by
  rw [checkKw_none_iff, required_matches_signature, kwAllOptional]
  simp only [kwOk_optional]

theorem instantiate_of_wf {rx k pos kw} (h1 : nodupKeys kw = true) (h2 : pos.length = (required k).length)
    (h3 : kwAllOptional k kw = true) : instantiate rx k pos kw = construct rx k pos kw := by
  rw [instantiate_eq, (checkKw_none_iff_optional k kw).2 h3]
  simp [h1, h2]

theorem instantiate_not_specerr {rx k pos kw} {r : Except FeErr TyVal}
    (h : instantiate rx k pos kw = r) (hr : ∀ e, r ≠ .error (.specerr e)) :
    nodupKeys kw = true ∧ pos.length = (required k).length ∧ kwAllOptional k kw = true ∧
      construct rx k pos kw = r := by
  rw [instantiate_eq] at h
  split at h
  · exact absurd h.symm (hr _)
  split at h
  · exact absurd h.symm (hr _)
  split at h
  · exact absurd h.symm (hr _)
  split at h
  · exact absurd h.symm (hr _)
  · rename_i h1 h2 h3 _ h4
    refine ⟨by simpa using h1, by omega, (checkKw_none_iff_optional k kw).1 h4, h⟩

theorem allAdmit_length {rx ks as} (h : allAdmit rx ks as = true) : as.length = ks.length := by
  induction ks generalizing as with
  | nil => cases as <;> simp_all [allAdmit]
  | cons k ks ih =>
    cases as with
    | nil => simp [allAdmit] at h
    | cons a as => simp [allAdmit] at h; simp [ih h.2]


theorem allAdmit_nil_iff {rx as} : allAdmit rx [] as = true ↔ as = [] := by
  cases as <;> simp [allAdmit]

theorem allAdmit_cons_iff {rx k ks as} :
    allAdmit rx (k :: ks) as = true ↔ ∃ a rest, as = a :: rest ∧ k.admits rx a = true ∧ allAdmit rx ks rest = true := by
  cases as with
  | nil => simp [allAdmit]
  | cons a as => simp [allAdmit]; grind

theorem admits_intBound_iff {rx k a} : (ArgKind.intBound k).admits rx a = true ↔
    ∃ v, a.integral? = some v ∧ (intLimits k).1 ≤ v ∧ v ≤ (intLimits k).2 := by
  cases h : a.integral? <;> simp [ArgKind.admits, h]

@[local simp] theorem intBound_none {m l} : intBound m l none = .ok none := rfl

theorem intBound_min_some_ok_iff {lo a r} : intBound true lo (some a) = .ok r ↔
    ∃ v, a.integral? = some v ∧ lo ≤ v ∧ r = some v := by
  cases h : a.integral? <;> simp [intBound, h, bad]
  split <;> simp <;> grind

theorem intBound_max_some_ok_iff {hi a r} : intBound false hi (some a) = .ok r ↔
    ∃ v, a.integral? = some v ∧ v ≤ hi ∧ r = some v := by
  cases h : a.integral? <;> simp [intBound, h, bad]
  split <;> simp <;> grind

/-- Python `float(a)` of a numeric argument (`none`: not a number, or `OverflowError`) -/
def convF (a : Arg) : Option FVal :=
  match a.num? with
  | some (.f x) => some x
  | some (.i i) => floatOfInt i
  | none => none

theorem admits_realBound_iff {rx k a} : (ArgKind.realBound k).admits rx a = true ↔
    ∃ x, convF a = some x ∧ withinF (floatLimits k) x = true := by
  simp only [ArgKind.admits, convF]
  cases h : a.num? with
  | none => simp
  | some n =>
    cases n with
    | f x => simp
    | i i => cases h2 : floatOfInt i <;> simp [h2]

theorem withinF_iff {lim x} : withinF lim x = true ↔
    (∀ l, lim.1 = some l → x.lt l = false) ∧ (∀ h, lim.2 = some h → h.lt x = false) := by
  obtain ⟨lo, hi⟩ := lim
  cases lo <;> cases hi <;> simp [withinF]

@[local simp] theorem floatBound_none {m l} : floatBound m l none = .ok none := rfl

theorem floatBound_min_some_ok_iff {lim a r} : floatBound true lim (some a) = .ok r ↔
    ∃ x, convF a = some x ∧ (∀ l, lim = some l → x.lt l = false) ∧ r = some x := by
  simp only [floatBound, convF]
  cases h : a.num? with
  | none => simp [bad]
  | some n =>
    cases n with
    | f x => cases lim <;> simp [bad] <;> grind
    | i i => cases h2 : floatOfInt i <;> cases lim <;> simp [bad] <;> grind

theorem floatBound_max_some_ok_iff {lim a r} : floatBound false lim (some a) = .ok r ↔
    ∃ x, convF a = some x ∧ (∀ l, lim = some l → l.lt x = false) ∧ r = some x := by
  simp only [floatBound, convF]
  cases h : a.num? with
  | none => simp [bad]
  | some n =>
    cases n with
    | f x => cases lim <;> simp [bad] <;> grind
    | i i => cases h2 : floatOfInt i <;> cases lim <;> simp [bad] <;> grind

theorem admits_length_iff {rx l a} : (ArgKind.length l).admits rx a = true ↔
    ∃ v, a.integral? = some v ∧ l ≤ v := by
  cases h : a.integral? <;> simp [ArgKind.admits, h]

@[local simp] theorem lenBound_none {l} : lenBound l none = .ok none := rfl

theorem lenBound_some_ok_iff {l a r} : lenBound l (some a) = .ok r ↔
    ∃ v, a.integral? = some v ∧ l ≤ v ∧ r = some v := by
  cases h : a.integral? <;> simp [lenBound, h, bad]
  split <;> simp <;> grind

theorem admits_regex_iff {rx a} : ArgKind.regex.admits rx a = true ↔ ∃ s, a = .str s ∧ rx s = true := by
  cases a <;> simp [ArgKind.admits]

@[local simp] theorem patternArg_none {rx} : patternArg rx none = .ok none := rfl

theorem patternArg_some_ok_iff {rx p r} : patternArg rx (some p) = .ok r ↔
    r = some p ∧ (p.truthy = false ∨ ∃ s, p = .str s ∧ rx s = true) := by
  simp only [patternArg]
  cases ht : p.truthy
  · simp; grind
  · cases p <;> simp [bad]
    split <;> simp <;> grind

theorem integral_num {a : Arg} {v : Int} (h : a.integral? = some v) : a.num? = some (.i v) ∧ a.truthy = (v != 0) := by
  cases a <;> simp_all [Arg.integral?, Arg.num?, Arg.truthy]
  all_goals grind

@[local simp] theorem Num.lt_i_i (a b : Int) : Num.lt (.i a) (.i b) = decide (a < b) := by
  simp [Num.lt, Num.toF, FVal.lt]

theorem pyLt_ok_iff {a b r} : pyLt a b = .ok r ↔ ∃ x y, a.num? = some x ∧ b.num? = some y ∧ r = x.lt y := by
  unfold pyLt
  cases a.num? <;> cases b.num? <;> simp
  exact eq_comm

theorem pyLt_error_iff {a b e} : pyLt a b = .error e ↔ (a.num? = none ∨ b.num? = none) ∧ e = .crash .typeError := by
  unfold pyLt
  cases a.num? <;> cases b.num? <;> simp <;> exact eq_comm

@[local simp] theorem itemsBound_none {l} : itemsBound l none = .ok () := rfl

theorem itemsBound_some_ok_iff {l a} : itemsBound l (some a) = .ok () ↔
    ∃ n, a.num? = some n ∧ n.lt (.i l) = false := by
  simp only [itemsBound, bind_ok_iff, pyLt_ok_iff]
  constructor
  · rintro ⟨lt, ⟨x, y, hx, hy, rfl⟩, h⟩
    simp [Arg.num?] at hy
    subst hy
    refine ⟨x, hx, ?_⟩
    cases hlt : x.lt (.i l) <;> simp_all [bad]
  · rintro ⟨n, hn, h⟩
    exact ⟨false, ⟨n, .i l, hn, rfl, h.symm⟩, by simp⟩

/-! ## legal implies accepted -/

example : legalArgs (fun _ => true) .list [.ty false] [("min_items", .int 1), ("max_items", .int 1)] = true := by
  decide

/-- A legal argument list is never refused. (`_hrx` is not needed for this direction.) -/
theorem legal_accepted (rx : String → Bool) (_hrx : rx "" = true) (k pos kw)
    (h : legalArgs rx k pos kw = true) : ∃ t, instantiate rx k pos kw = .ok t := by
  simp only [legalArgs, Bool.and_eq_true] at h
  obtain ⟨⟨⟨⟨h1, h2⟩, h3⟩, h4⟩, h5⟩ := h
  rw [instantiate_of_wf h1 (allAdmit_length h2) h3]
  cases k
  case bytes | boolean | void =>
    simp only [required, allAdmit_nil_iff] at h2
    subst h2
    simp [construct]
  case int32 | int64 | uint32 | uint64 =>
    simp only [required, allAdmit_nil_iff] at h2
    subst h2
    simp only [optional, List.all_cons, List.all_nil, Bool.and_true, Bool.and_eq_true] at h4
    obtain ⟨h4a, h4b⟩ := h4
    simp only [construct]
    generalize List.lookup "min_value" kw = omin at *
    generalize List.lookup "max_value" kw = omax at *
    cases omin <;> cases omax <;>
      simp_all [bind_ok_iff, admits_intBound_iff, intBound_min_some_ok_iff, intBound_max_some_ok_iff] <;> grind
  case float32 | float64 =>
    simp only [required, allAdmit_nil_iff] at h2
    subst h2
    simp only [optional, List.all_cons, List.all_nil, Bool.and_true, Bool.and_eq_true] at h4
    obtain ⟨h4a, h4b⟩ := h4
    simp only [construct]
    generalize List.lookup "min_value" kw = omin at *
    generalize List.lookup "max_value" kw = omax at *
    cases omin <;> cases omax <;>
      simp_all [bind_ok_iff, admits_realBound_iff, floatBound_min_some_ok_iff, floatBound_max_some_ok_iff,
        withinF_iff] <;> grind
  case timestamp =>
    simp only [required, allAdmit_cons_iff, allAdmit_nil_iff] at h2
    obtain ⟨a, _, rfl, ha, rfl⟩ := h2
    cases a <;> simp_all [construct, ArgKind.admits, Arg.isStr]
  case map =>
    simp only [required, allAdmit_cons_iff, allAdmit_nil_iff] at h2
    obtain ⟨a, _, rfl, ha, b, _, rfl, hb, rfl⟩ := h2
    simp only [ArgKind.admits, beq_iff_eq] at ha
    subst ha
    simp [construct]
  case string =>
    simp only [required, allAdmit_nil_iff] at h2
    subst h2
    simp only [optional, List.all_cons, List.all_nil, Bool.and_true, Bool.and_eq_true] at h4
    obtain ⟨h4a, h4b, h4c⟩ := h4
    simp only [construct, lengthsOrdered] at h5 ⊢
    generalize List.lookup "min_length" kw = omin at *
    generalize List.lookup "max_length" kw = omax at *
    generalize List.lookup "pattern" kw = opat at *
    have hmn : ∃ mn, lenBound 0 omin = .ok mn ∧ mn = omin.bind Arg.integral? := by
      cases omin <;> simp_all [lenBound_some_ok_iff, admits_length_iff] <;> grind
    have hmx : ∃ mx, lenBound 1 omax = .ok mx ∧ mx = omax.bind Arg.integral? := by
      cases omax <;> simp_all [lenBound_some_ok_iff, admits_length_iff] <;> grind
    have hp : ∃ p, patternArg rx opat = .ok p := by
      cases opat <;> simp_all [patternArg_some_ok_iff, admits_regex_iff] <;> grind
    obtain ⟨mn, e1, rfl⟩ := hmn
    obtain ⟨mx, e2, rfl⟩ := hmx
    obtain ⟨p, e3⟩ := hp
    rw [e1, e2]
    simp only [ok_bind, e3]
    have hc : (optIntTruthy (omin.bind Arg.integral?) && optIntTruthy (omax.bind Arg.integral?) &&
        decide ((omax.bind Arg.integral?).getD 0 < (omin.bind Arg.integral?).getD 0)) = false := by
      cases ha : omin.bind Arg.integral? <;> cases hb : omax.bind Arg.integral? <;>
        simp_all [optIntTruthy]
    simp [hc]
  case list =>
    simp only [required, allAdmit_cons_iff, allAdmit_nil_iff] at h2
    obtain ⟨a, _, rfl, ha, rfl⟩ := h2
    simp only [optional, List.all_cons, List.all_nil, Bool.and_true, Bool.and_eq_true] at h4
    obtain ⟨h4a, h4b⟩ := h4
    simp only [construct, lengthsOrdered] at h5 ⊢
    generalize List.lookup "min_items" kw = omin at *
    generalize List.lookup "max_items" kw = omax at *
    have hmn : itemsBound 0 omin = .ok () := by
      cases omin with
      | none => rfl
      | some a =>
        obtain ⟨v, hv, hle⟩ := admits_length_iff.1 h4a
        exact itemsBound_some_ok_iff.2 ⟨.i v, (integral_num hv).1, by simp; omega⟩
    have hmx : itemsBound 1 omax = .ok () := by
      cases omax with
      | none => rfl
      | some a =>
        obtain ⟨v, hv, hle⟩ := admits_length_iff.1 h4b
        exact itemsBound_some_ok_iff.2 ⟨.i v, (integral_num hv).1, by simp; omega⟩
    rw [hmn, hmx]
    simp only [ok_bind]
    cases omin with
    | none => simp [optTruthy]
    | some a =>
      cases omax with
      | none => simp [optTruthy]
      | some b =>
        obtain ⟨va, hva, hla⟩ := admits_length_iff.1 h4a
        obtain ⟨vb, hvb, hlb⟩ := admits_length_iff.1 h4b
        have hlt : pyLt b a = .ok false :=
          pyLt_ok_iff.2 ⟨.i vb, .i va, (integral_num hvb).1, (integral_num hva).1, by
            simp [hva, hvb] at h5 ⊢; omega⟩
        simp only [Option.getD_some, hlt, ok_bind]
        split <;> simp

theorem length_eq_two {α} {l : List α} (h : l.length = 0 + 1 + 1) : ∃ a b, l = [a, b] := by
  match l, h with
  | [a, b], _ => exact ⟨a, b, rfl⟩

theorem string_ok_facts {rx : String → Bool} {kw t} (hrx : rx "" = true)
    (hc : construct rx .string [] kw = .ok t) (hh : holeFalsyPattern .string kw = false) :
    (∀ a, kw.lookup "min_length" = some a → (ArgKind.length 0).admits rx a = true) ∧
    (∀ a, kw.lookup "max_length" = some a → (ArgKind.length 1).admits rx a = true) ∧
    (∀ a, kw.lookup "pattern" = some a → ArgKind.regex.admits rx a = true) ∧
    lengthsOrdered kw "min_length" "max_length" = true := by
  simp only [construct, bind_ok_iff] at hc
  obtain ⟨mn, hmn, mx, hmx, hc⟩ := hc
  split at hc
  · simp [bad] at hc
  rename_i hcond
  simp only [bind_ok_iff] at hc
  obtain ⟨p, hp, -⟩ := hc
  simp only [holeFalsyPattern, beq_self_eq_true, Bool.true_and] at hh
  simp only [lengthsOrdered]
  generalize List.lookup "min_length" kw = omin at *
  generalize List.lookup "max_length" kw = omax at *
  generalize List.lookup "pattern" kw = opat at *
  refine ⟨?_, ?_, ?_, ?_⟩
  · rintro a rfl
    obtain ⟨v, hv, hle, -⟩ := lenBound_some_ok_iff.1 hmn
    exact admits_length_iff.2 ⟨v, hv, hle⟩
  · rintro a rfl
    obtain ⟨v, hv, hle, -⟩ := lenBound_some_ok_iff.1 hmx
    exact admits_length_iff.2 ⟨v, hv, hle⟩
  · rintro a rfl
    obtain ⟨-, hp⟩ := patternArg_some_ok_iff.1 hp
    rcases hp with hf | ⟨s, rfl, hs⟩
    · cases a <;> simp_all [Arg.truthy, Arg.isStr, ArgKind.admits]
    · simp [ArgKind.admits, hs]
  · cases omin with
    | none => simp
    | some a =>
      cases omax with
      | none => cases a.integral? <;> simp
      | some b =>
        obtain ⟨v, hv, hle, rfl⟩ := lenBound_some_ok_iff.1 hmn
        obtain ⟨w, hw, hle', rfl⟩ := lenBound_some_ok_iff.1 hmx
        simp [optIntTruthy] at hcond
        simp [hv, hw]
        omega

theorem num_integral {a : Arg} {n : Num} (hn : a.num? = some n)
    (hi : (a.num?.isSome && a.integral?.isNone) = false) : ∃ v, a.integral? = some v ∧ n = .i v := by
  cases a <;> simp_all [Arg.integral?, Arg.num?]

theorem list_len_admits {rx : String → Bool} {l : Int} {x : Arg} (hb : itemsBound l (some x) = .ok ())
    (hi : (x.num?.isSome && x.integral?.isNone) = false) : (ArgKind.length l).admits rx x = true := by
  obtain ⟨n, hn, hlt⟩ := itemsBound_some_ok_iff.1 hb
  obtain ⟨v, hv, rfl⟩ := num_integral hn hi
  exact admits_length_iff.2 ⟨v, hv, by simpa using hlt⟩

theorem list_ok_facts {rx : String → Bool} {a kw t}
    (hc : construct rx .list [a] kw = .ok t) (hh : holeFloatLength .list kw = false) :
    (∀ x, kw.lookup "min_items" = some x → (ArgKind.length 0).admits rx x = true) ∧
    (∀ x, kw.lookup "max_items" = some x → (ArgKind.length 1).admits rx x = true) ∧
    lengthsOrdered kw "min_items" "max_items" = true := by
  simp only [construct, bind_ok_iff] at hc
  obtain ⟨_, hmn, _, hmx, hc⟩ := hc
  simp only [holeFloatLength, beq_self_eq_true, Bool.true_and, List.any_cons, List.any_nil, Bool.or_false,
    Bool.or_eq_false_iff] at hh
  obtain ⟨hh1, hh2⟩ := hh
  simp only [lengthsOrdered]
  generalize List.lookup "min_items" kw = omin at *
  generalize List.lookup "max_items" kw = omax at *
  have f1 : ∀ x, omin = some x → (ArgKind.length 0).admits rx x = true := by
    rintro x rfl
    exact list_len_admits hmn hh1
  have f2 : ∀ x, omax = some x → (ArgKind.length 1).admits rx x = true := by
    rintro x rfl
    exact list_len_admits hmx hh2
  refine ⟨f1, f2, ?_⟩
  cases omin with
  | none => simp
  | some x =>
    cases omax with
    | none => cases x.integral? <;> simp
    | some y =>
      obtain ⟨v, hv, hle⟩ := admits_length_iff.1 (f1 x rfl)
      obtain ⟨w, hw, hle'⟩ := admits_length_iff.1 (f2 y rfl)
      simp only [Option.bind_some, hv, hw, decide_eq_true_eq]
      by_cases hv0 : v = 0
      · omega
      · have t1 : x.truthy = true := by simp [(integral_num hv).2, hv0]
        have t2 : y.truthy = true := by simp [(integral_num hw).2]; omega
        simp only [optTruthy, t1, t2, Bool.and_self, if_true, Option.getD_some, bind_ok_iff, pyLt_ok_iff] at hc
        obtain ⟨lt, ⟨n, m, hn, hm, rfl⟩, hc⟩ := hc
        rw [(integral_num hv).1] at hm
        rw [(integral_num hw).1] at hn
        cases hn; cases hm
        split at hc
        · simp [bad] at hc
        · rename_i hlt
          simpa using hlt

/-! ## accepted implies legal, outside the holes -/

/-- An accepted argument list is legal. Partial: argument lists that hit one of the four holes (`hitsHole`) are
excluded -- there the implementation accepts illegal arguments (`hole_*` below). `hrx`: the empty pattern, which
`String.__init__` never compiles (`if pattern:`), is a regular expression. -/
theorem ok_imp_legal_partial (rx : String → Bool) (hrx : rx "" = true) (k pos kw)
    (hh : hitsHole k pos kw = false) (t) (h : instantiate rx k pos kw = .ok t) :
    legalArgs rx k pos kw = true := by
  obtain ⟨h1, h2, h3, hc⟩ := instantiate_not_specerr h (by simp)
  simp only [hitsHole, Bool.or_eq_false_iff] at hh
  obtain ⟨⟨⟨hh1, hh2⟩, hh3⟩, hh4⟩ := hh
  simp only [legalArgs, Bool.and_eq_true]
  refine ⟨⟨⟨⟨h1, ?_⟩, h3⟩, ?_⟩, ?_⟩
  all_goals cases k
  case refine_1.bytes | refine_1.boolean | refine_1.void | refine_1.int32 | refine_1.int64 | refine_1.uint32
      | refine_1.uint64 | refine_1.float32 | refine_1.float64 | refine_1.string =>
    simp only [required, List.length_nil, List.length_eq_zero_iff] at h2
    subst h2
    rfl
  case refine_3.bytes | refine_3.boolean | refine_3.void | refine_3.int32 | refine_3.int64 | refine_3.uint32
      | refine_3.uint64 | refine_3.float32 | refine_3.float64 | refine_3.timestamp | refine_3.map => rfl
  case refine_2.bytes | refine_2.boolean | refine_2.void | refine_2.timestamp | refine_2.map => rfl
  case refine_1.timestamp =>
    obtain ⟨a, rfl⟩ := List.length_eq_one_iff.1 h2
    cases a <;> simp_all [construct, allAdmit, required, ArgKind.admits, Arg.isStr, bad]
  case refine_1.map =>
    obtain ⟨a, b, rfl⟩ := length_eq_two h2
    simp only [holeElemNotType, Bool.not_eq_false'] at hh1
    rcases a with _ | _ | _ | _ | _ | (_ | _) <;>
      simp_all [construct, allAdmit, required, ArgKind.admits, bad]
  case refine_1.list =>
    obtain ⟨a, rfl⟩ := List.length_eq_one_iff.1 h2
    simp only [holeElemNotType, Bool.not_eq_false'] at hh1
    simp [allAdmit, required, ArgKind.admits, hh1]
  case refine_2.int32 | refine_2.int64 | refine_2.uint32 | refine_2.uint64 =>
    simp only [required, List.length_nil, List.length_eq_zero_iff] at h2
    subst h2
    simp only [construct, bind_ok_iff] at hc
    obtain ⟨lo, hlo, hi, hhi, -⟩ := hc
    simp only [holeFarSide, Bool.or_eq_false_iff] at hh4
    simp only [optional, List.all_cons, List.all_nil, Bool.and_true, Bool.and_eq_true]
    generalize List.lookup "min_value" kw = omin at *
    generalize List.lookup "max_value" kw = omax at *
    cases omin <;> cases omax <;>
      simp_all [admits_intBound_iff, intBound_min_some_ok_iff, intBound_max_some_ok_iff] <;> grind
  case refine_2.float32 | refine_2.float64 =>
    simp only [required, List.length_nil, List.length_eq_zero_iff] at h2
    subst h2
    simp only [construct, bind_ok_iff] at hc
    obtain ⟨lo, hlo, hi, hhi, -⟩ := hc
    simp only [holeFarSide, Bool.or_eq_false_iff] at hh4
    simp only [optional, List.all_cons, List.all_nil, Bool.and_true, Bool.and_eq_true]
    generalize List.lookup "min_value" kw = omin at *
    generalize List.lookup "max_value" kw = omax at *
    constructor
    · cases omin with
      | none => rfl
      | some a =>
        obtain ⟨x, hx, hl, -⟩ := floatBound_min_some_ok_iff.1 hlo
        have hh := hh4.1
        refine admits_realBound_iff.2 ⟨x, hx, withinF_iff.2 ⟨hl, ?_⟩⟩
        intro h' hh'
        unfold convF at hx
        rcases hn : a.num? with _ | (i | y) <;> simp_all
    · cases omax with
      | none => rfl
      | some a =>
        obtain ⟨x, hx, hl, -⟩ := floatBound_max_some_ok_iff.1 hhi
        have hh := hh4.2
        refine admits_realBound_iff.2 ⟨x, hx, withinF_iff.2 ⟨?_, hl⟩⟩
        intro h' hh'
        unfold convF at hx
        rcases hn : a.num? with _ | (i | y) <;> simp_all
  case refine_2.string =>
    simp only [required, List.length_nil, List.length_eq_zero_iff] at h2
    subst h2
    obtain ⟨f1, f2, f3, -⟩ := string_ok_facts hrx hc hh3
    simp only [optional, List.all_cons, List.all_nil, Bool.and_true, Bool.and_eq_true]
    generalize List.lookup "min_length" kw = omin at *
    generalize List.lookup "max_length" kw = omax at *
    generalize List.lookup "pattern" kw = opat at *
    cases omin <;> cases omax <;> cases opat <;> simp_all
  case refine_3.string =>
    simp only [required, List.length_nil, List.length_eq_zero_iff] at h2
    subst h2
    exact (string_ok_facts hrx hc hh3).2.2.2
  case refine_2.list =>
    obtain ⟨a, rfl⟩ := List.length_eq_one_iff.1 h2
    obtain ⟨f1, f2, -⟩ := list_ok_facts hc hh2
    simp only [optional, List.all_cons, List.all_nil, Bool.and_true, Bool.and_eq_true]
    generalize List.lookup "min_items" kw = omin at *
    generalize List.lookup "max_items" kw = omax at *
    cases omin <;> cases omax <;> simp_all
  case refine_3.list =>
    obtain ⟨a, rfl⟩ := List.length_eq_one_iff.1 h2
    exact (list_ok_facts hc hh2).2.2

example : hitsHole .string [] [("min_length", .int 1), ("max_length", .int 5)] = false ∧
    legalArgs (fun _ => true) .string [] [("min_length", .int 1), ("max_length", .int 5)] = true := by decide

/-- accepted = legal. Partial: outside the four holes only (`instantiate_ok_iff_legal_fails`). -/
theorem instantiate_ok_iff_legal_partial (rx : String → Bool) (hrx : rx "" = true) (k pos kw)
    (hh : hitsHole k pos kw = false) :
    (∃ t, instantiate rx k pos kw = .ok t) ↔ legalArgs rx k pos kw = true :=
  ⟨fun ⟨t, h⟩ => ok_imp_legal_partial rx hrx k pos kw hh t h, legal_accepted rx hrx k pos kw⟩

/-- the same for a reference `K(args)` / `K(args)?` (`Void?` refused). Partial: outside the four holes only. -/
theorem resolveBuiltin_ok_iff_legalRef_partial (rx : String → Bool) (hrx : rx "" = true) (k pos kw)
    (nullable : Bool) (hh : hitsHole k pos kw = false) :
    (∃ r, resolveBuiltin rx k pos kw nullable = .ok r) ↔ legalRef rx k pos kw nullable = true := by
  unfold resolveBuiltin legalRef
  cases hv : (k == TyKind.void && nullable)
  · cases nullable <;> simp [bind_ok_iff, ← instantiate_ok_iff_legal_partial rx hrx k pos kw hh]
  · simp

example : hitsHole .list [.ty false] [("min_items", .bool false)] = false ∧
    legalRef (fun _ => true) .list [.ty false] [("min_items", .bool false)] true = true := by decide

/-! ## The four holes are real: accepted although illegal -/

section holes
local notation "anyRx" => (fun _ : String => true)

/-- H1, `List(3)` -/
theorem hole_list_literal :
    instantiate anyRx .list [.int 3] [] = .ok (.list (.int 3) none none) ∧
    legalArgs anyRx .list [.int 3] [] = false := by decide

/-- H1, `Map(String, 3)` -/
theorem hole_map_value_literal :
    instantiate anyRx .map [.ty true, .int 3] [] = .ok (.map (.ty true) (.int 3)) ∧
    legalArgs anyRx .map [.ty true, .int 3] [] = false := by decide

/-- H2, `List(String, min_items=1.5)` -/
theorem hole_list_float_length :
    instantiate anyRx .list [.ty true] [("min_items", .float (.fin 3 2))] =
      .ok (.list (.ty true) (some (.float (.fin 3 2))) none) ∧
    legalArgs anyRx .list [.ty true] [("min_items", .float (.fin 3 2))] = false := by decide

/-- H3, `String(pattern=0)` -/
theorem hole_string_falsy_pattern :
    instantiate anyRx .string [] [("pattern", .int 0)] = .ok (.string none none (some (.int 0))) ∧
    legalArgs anyRx .string [] [("pattern", .int 0)] = false := by decide

/-- H4, `Int32(min_value=2147483648)` -/
theorem hole_int_min_above_maximum :
    instantiate anyRx .int32 [] [("min_value", .int 2147483648)] = .ok (.int .int32 (some 2147483648) none) ∧
    legalArgs anyRx .int32 [] [("min_value", .int 2147483648)] = false := by decide

/-- H4, `UInt32(max_value=-1)` -/
theorem hole_uint_max_below_minimum :
    instantiate anyRx .uint32 [] [("max_value", .int (-1))] = .ok (.int .uint32 none (some (-1))) ∧
    legalArgs anyRx .uint32 [] [("max_value", .int (-1))] = false := by decide

/-- H4, `Float32(min_value=1e39)` -/
theorem hole_float32_min_above_maximum :
    instantiate anyRx .float32 [] [("min_value", .float (.fin (10 ^ 39) 1))] =
      .ok (.float .float32 (some (.fin (10 ^ 39) 1)) none) ∧
    legalArgs anyRx .float32 [] [("min_value", .float (.fin (10 ^ 39) 1))] = false := by decide

/-- each witness lies in the hole it is named after -/
theorem hole_witnesses_hit :
    holeElemNotType .list [.int 3] = true ∧ holeElemNotType .map [.ty true, .int 3] = true ∧
    holeFloatLength .list [("min_items", .float (.fin 3 2))] = true ∧
    holeFalsyPattern .string [("pattern", .int 0)] = true ∧
    holeFarSide .int32 [("min_value", .int 2147483648)] = true ∧
    holeFarSide .uint32 [("max_value", .int (-1))] = true ∧
    holeFarSide .float32 [("min_value", .float (.fin (10 ^ 39) 1))] = true := by decide

end holes

/-- the equivalence without the hole exclusion is false (`List(3)`) -/
theorem instantiate_ok_iff_legal_fails :
    ¬ ∀ (rx : String → Bool) k pos kw, ((∃ t, instantiate rx k pos kw = .ok t) ↔ legalArgs rx k pos kw = true) := by
  intro h
  have h1 := (h (fun _ => true) .list [.int 3] []).1 ⟨_, hole_list_literal.1⟩
  rw [hole_list_literal.2] at h1
  cases h1

/-! ## Crash layer -/

@[local simp] theorem bad_ne_crash {α e} : (bad : Except FeErr α) ≠ .error (.crash e) := by simp [bad]

@[local simp] theorem ite_bad_ne_crash {α} {c : Prop} [Decidable c] {x : α} {e} :
    (if c then (bad : Except FeErr α) else .ok x) ≠ .error (.crash e) := by
  by_cases c <;> simp [*]

@[local simp] theorem intBound_ne_crash {m l oa e} : intBound m l oa ≠ .error (.crash e) := by
  cases oa with
  | none => simp
  | some a =>
    simp only [intBound]
    cases a.integral? <;> simp

@[local simp] theorem floatBound_ne_crash {m l oa e} : floatBound m l oa ≠ .error (.crash e) := by
  cases oa with
  | none => simp
  | some a =>
    simp only [floatBound]
    rcases a.num? with _ | (i | x) <;> simp
    · cases floatOfInt i <;> cases l <;> simp
    · cases l <;> simp

@[local simp] theorem lenBound_ne_crash {l oa e} : lenBound l oa ≠ .error (.crash e) := by
  cases oa with
  | none => simp
  | some a =>
    simp only [lenBound]
    cases a.integral? <;> simp

@[local simp] theorem patternArg_ne_crash {rx oa e} : patternArg rx oa ≠ .error (.crash e) := by
  cases oa with
  | none => simp
  | some a =>
    simp only [patternArg]
    split
    · simp
    · cases a <;> simp
      split <;> simp

theorem itemsBound_crash {l oa e} (h : itemsBound l oa = .error (.crash e)) :
    e = .typeError ∧ ∃ a, oa = some a ∧ a.num? = none := by
  cases oa with
  | none => simp at h
  | some a =>
    simp only [itemsBound, bind_error_iff, pyLt_error_iff, pyLt_ok_iff] at h
    rcases h with ⟨h, he⟩ | ⟨lt, -, h⟩
    · simp only [Arg.num?, reduceCtorEq, or_false] at h
      cases he
      exact ⟨rfl, a, rfl, h⟩
    · split at h <;> simp [bad] at h

/-- every crash of the constructor call (after the positional bookkeeping) is the `TypeError` of `List.__init__` -/
theorem construct_crash {rx k pos kw e} (h2 : pos.length = (required k).length)
    (hc : construct rx k pos kw = .error (.crash e)) :
    e = .typeError ∧ k = .list ∧ hitsListLengthCrash k kw = true := by
  cases k
  case bytes | boolean | void | int32 | int64 | uint32 | uint64 | float32 | float64 =>
    simp only [required, List.length_nil, List.length_eq_zero_iff] at h2
    subst h2
    simp [construct, bind_error_iff] at hc
  case string =>
    simp only [required, List.length_nil, List.length_eq_zero_iff] at h2
    subst h2
    simp only [construct, bind_error_iff, lenBound_ne_crash, false_or] at hc
    obtain ⟨_, -, _, -, hc⟩ := hc
    split at hc
    · simp [bad] at hc
    · simp [bind_error_iff] at hc
  case timestamp =>
    obtain ⟨a, rfl⟩ := List.length_eq_one_iff.1 h2
    cases a <;> simp [construct, bad] at hc
  case map =>
    obtain ⟨a, b, rfl⟩ := length_eq_two h2
    rcases a with _ | _ | _ | _ | _ | (_ | _) <;> simp [construct, bad] at hc
  case list =>
    obtain ⟨a, rfl⟩ := List.length_eq_one_iff.1 h2
    simp only [construct, bind_error_iff] at hc
    simp only [hitsListLengthCrash, beq_self_eq_true, Bool.true_and, List.any_cons, List.any_nil, Bool.or_false,
      Bool.or_eq_true]
    generalize List.lookup "min_items" kw = omin at *
    generalize List.lookup "max_items" kw = omax at *
    rcases hc with hc | ⟨_, hmn, hc | ⟨_, hmx, hc⟩⟩
    · obtain ⟨rfl, x, rfl, hx⟩ := itemsBound_crash hc
      simp [hx]
    · obtain ⟨rfl, x, rfl, hx⟩ := itemsBound_crash hc
      simp [hx]
    · split at hc
      · rename_i ht
        cases omin with
        | none => simp [optTruthy] at ht
        | some x =>
          cases omax with
          | none => simp [optTruthy] at ht
          | some y =>
            simp only [Option.getD_some, bind_error_iff, pyLt_error_iff, pyLt_ok_iff] at hc
            rcases hc with ⟨hn, he⟩ | ⟨lt, -, hc⟩
            · cases he
              rcases hn with hn | hn <;> simp [hn]
            · split at hc <;> simp [bad] at hc
      · simp at hc

/-- Whatever is raised besides `InvalidSpec` is a `TypeError`, and only from `List`. -/
theorem instantiate_crash_typeError (rx : String → Bool) (k pos kw e)
    (h : instantiate rx k pos kw = .error (.crash e)) : e = .typeError ∧ k = .list := by
  obtain ⟨-, h2, -, hc⟩ := instantiate_not_specerr h (by simp)
  exact ⟨(construct_crash h2 hc).1, (construct_crash h2 hc).2.1⟩

/-- Only `InvalidSpec` escapes. Partial: `List` with a non-numeric `min_items` / `max_items`
(`hitsListLengthCrash`) is excluded -- there `<` raises `TypeError` (`crash_*` below). -/
theorem instantiate_no_crash_partial (rx : String → Bool) (k pos kw)
    (h : hitsListLengthCrash k kw = false) : ∀ e, instantiate rx k pos kw ≠ .error (.crash e) := by
  intro e he
  obtain ⟨-, h2, -, hc⟩ := instantiate_not_specerr he (by simp)
  simp [(construct_crash h2 hc).2.2] at h

/-- `List(String, min_items="a")` -/
theorem crash_list_min_items_str :
    instantiate (fun _ => true) .list [.ty true] [("min_items", .str "a")] = .error (.crash .typeError) := by decide

/-- `List(String, min_items=null)` -/
theorem crash_list_min_items_null :
    instantiate (fun _ => true) .list [.ty true] [("min_items", .null)] = .error (.crash .typeError) := by decide

/-- `List(String, max_items=Int32)` -/
theorem crash_list_max_items_type :
    instantiate (fun _ => true) .list [.ty true] [("max_items", .ty false)] = .error (.crash .typeError) := by decide

/-- "nothing but `InvalidSpec` escapes" is false for type instantiation -/
theorem instantiate_no_crash_fails :
    ¬ ∀ (rx : String → Bool) k pos kw e, instantiate rx k pos kw ≠ .error (.crash e) :=
  fun h => h _ _ _ _ _ crash_list_min_items_str

example : hitsListLengthCrash .list [("min_items", .int 1), ("max_items", .float (.fin 5 2))] = false := by decide

/-- the same for a reference. Partial: same exclusion. -/
theorem resolveBuiltin_no_crash_partial (rx : String → Bool) (k pos kw) (nullable : Bool)
    (h : hitsListLengthCrash k kw = false) : ∀ e, resolveBuiltin rx k pos kw nullable ≠ .error (.crash e) := by
  intro e
  simp only [resolveBuiltin]
  split
  · simp
  · simp [bind_error_iff, instantiate_no_crash_partial rx k pos kw h]

end StoneVerif.FeParams
