import StoneVerif.Model.FeParams
/-!
# Type instantiation (Model/FeParams): accepted = legal; nothing but the spec error escapes

* `legal_accepted`, `ok_imp_legal`, `instantiate_ok_iff_legal`, `resolveBuiltin_ok_iff_legalRef` (full strength): an
  argument list is accepted exactly when it is legal by the "Basic Types" table (`legalArgs`), for all thirteen
  built-in types.  The holes earlier versions of the code had (a literal as `List` / `Map` element type, a
  non-integral `List` length, a falsy non-string `String` pattern, a bound beyond the other end of the width) are
  closed; the former witnesses are regression statements of the new behaviour (`*_refused`).
* `instantiate_no_crash`, `resolveBuiltin_no_crash` (full strength): type instantiation ends in a type or in the
  spec error; in particular the constructor is never called with the wrong number of arguments.
* `initSig_table`, `builtinTypes_table`, `intLimits_table`, `floatLimits_table`, `optional_matches_signature`,
  `required_matches_signature`: the extracted tables are what the proofs assume.
-/
namespace StoneVerif.FeParams

deriving instance DecidableEq for Except

/-! ## Table pins -/

theorem builtinTypes_table : Tables.feBuiltinTypes = TyKind.all.map TyKind.pyName := by decide

/-- every entry of `Tables.feInitSigs` (the `__init__` signatures in stone/ir/data_types.py) -/
theorem initSig_table : TyKind.all.map (fun k => (k.pyName, initSig k)) = Tables.feInitSigs := by decide

theorem intLimits_table :
    [TyKind.int32, .uint32, .int64, .uint64].map (fun k => (k.pyName, intLimits k)) = Tables.irIntBounds := by decide

/-- `Float32` is limited to ±3.40282e38 (the doubles nearest to that literal), `Float64` is not limited -/
theorem floatLimits_table :
    floatLimits .float32 = (some (.fin (-340282000000000014192072600942972764160) 1),
      some (.fin 340282000000000014192072600942972764160 1)) ∧
    floatLimits .float64 = (none, none) ∧
    Tables.irFloatBounds.map (·.1) = [TyKind.float32.pyName, TyKind.float64.pyName] := by decide

/-! ## `Except` plumbing -/

theorem bind_ok_iff {ε α β} (x : Except ε α) (f : α → Except ε β) (b : β) :
    (x >>= f) = .ok b ↔ ∃ a, x = .ok a ∧ f a = .ok b := by
  cases x <;> simp [bind, Except.bind]

@[local simp] theorem ok_bind {ε α β} (a : α) (f : α → Except ε β) : (Except.ok a >>= f) = f a := rfl

theorem bind_error_iff {ε α β} (x : Except ε α) (f : α → Except ε β) (e : ε) :
    (x >>= f) = .error e ↔ x = .error e ∨ ∃ a, x = .ok a ∧ f a = .error e := by
  cases x <;> simp [bind, Except.bind]

/-! ## Positional / keyword bookkeeping -/

/-- the keyword loop, as a `List.all` -/
def kwOk (names : List String) (numReq : Nat) (key : String) : Bool :=
  match names.idxOf? key with
  | some i => decide (numReq ≤ i)
  | none => false

theorem checkKw_none_iff (names numReq kw) :
    checkKw names numReq kw = none ↔ kw.all (fun p => kwOk names numReq p.1) = true := by
  induction kw with
  | nil => simp [checkKw]
  | cons p rest ih =>
    obtain ⟨key, a⟩ := p
    simp only [checkKw, List.all_cons, Bool.and_eq_true, kwOk]
    cases h : names.idxOf? key with
    | none => simp
    | some i =>
      by_cases hi : i < numReq
      · simp [hi]; omega
      · simp [hi, ih, kwOk]; omega

theorem initSig_eq (k : TyKind) : initSig k = match k with
  | .bytes | .boolean | .void => ([], 0)
  | .float32 | .float64 | .int32 | .int64 | .uint32 | .uint64 => (["min_value", "max_value"], 2)
  | .list => (["data_type", "min_items", "max_items"], 2)
  | .map => (["key_data_type", "value_data_type"], 0)
  | .string => (["min_length", "max_length", "pattern"], 3)
  | .timestamp => (["fmt"], 0) := by
  cases k <;> rfl

theorem kwOk_optional (k : TyKind) (key : String) :
    kwOk (initSig k).1 ((initSig k).1.length - (initSig k).2) key = ((optional k).lookup key).isSome := by
  rw [initSig_eq]
  cases k <;> simp [List.lookup, kwOk, optional, List.idxOf?_cons]
  all_goals grind

theorem required_matches_signature (k : TyKind) :
    (required k).length = (initSig k).1.length - (initSig k).2 := by
  cases k <;> rfl

/-- the optional arguments of the specification table are exactly the parameters with a default, in order
(all 13 kinds; `Timestamp`'s `fmt`, `List`'s `data_type`, `Map`'s two types have no default) -/
theorem optional_matches_signature (k : TyKind) :
    (optional k).map (·.1) = (initSig k).1.drop ((initSig k).1.length - (initSig k).2) := by
  cases k <;> rfl

/-- the bookkeeping part of `_instantiate_data_type` in terms of the specification tables -/
theorem instantiate_eq (rx k pos kw) :
    instantiate rx k pos kw =
      if nodupKeys kw = false then .error (.specerr .dupKeyword)
      else if (required k).length > pos.length then .error (.specerr .missingPositional)
      else if (required k).length < pos.length then .error (.specerr .tooManyPositional)
      else match checkKw (initSig k).1 (required k).length kw with
        | some r => .error (.specerr r)
        | none => construct rx k pos kw := by
  simp only [instantiate, required_matches_signature]
  cases nodupKeys kw
  · simp
  · simp only [Bool.not_true, Bool.false_eq_true, if_false, gt_iff_lt]
    split
    · rfl
    split
    · rfl
    cases checkKw (initSig k).1 ((initSig k).1.length - (initSig k).2) kw <;> rfl

def kwAllOptional (k : TyKind) (kw : List (String × Arg)) : Bool :=
  kw.all (fun p => ((optional k).lookup p.1).isSome)

theorem checkKw_none_iff_optional (k kw) :
    checkKw (initSig k).1 (required k).length kw = none ↔ kwAllOptional k kw = true := by
  rw [checkKw_none_iff, required_matches_signature, kwAllOptional]
  simp only [kwOk_optional]

theorem instantiate_of_wf {rx k pos kw} (h1 : nodupKeys kw = true) (h2 : pos.length = (required k).length)
    (h3 : kwAllOptional k kw = true) : instantiate rx k pos kw = construct rx k pos kw := by
  rw [instantiate_eq, (checkKw_none_iff_optional k kw).2 h3]
  simp [h1, h2]

theorem instantiate_not_specerr {rx k pos kw} {r : Except FeErr TyVal}
    (h : instantiate rx k pos kw = r) (hr : ∀ e, r ≠ .error (.specerr e)) :
    nodupKeys kw = true ∧ pos.length = (required k).length ∧ kwAllOptional k kw = true ∧
      construct rx k pos kw = r := by
  rw [instantiate_eq] at h
  split at h
  · exact absurd h.symm (hr _)
  split at h
  · exact absurd h.symm (hr _)
  split at h
  · exact absurd h.symm (hr _)
  split at h
  · exact absurd h.symm (hr _)
  · rename_i h1 h2 h3 _ h4
    refine ⟨by simpa using h1, by omega, (checkKw_none_iff_optional k kw).1 h4, h⟩

theorem allAdmit_length {rx ks as} (h : allAdmit rx ks as = true) : as.length = ks.length := by
  induction ks generalizing as with
  | nil => cases as <;> simp_all [allAdmit]
  | cons k ks ih =>
    cases as with
    | nil => simp [allAdmit] at h
    | cons a as => simp [allAdmit] at h; simp [ih h.2]


theorem allAdmit_nil_iff {rx as} : allAdmit rx [] as = true ↔ as = [] := by
  cases as <;> simp [allAdmit]

theorem allAdmit_cons_iff {rx k ks as} :
    allAdmit rx (k :: ks) as = true ↔ ∃ a rest, as = a :: rest ∧ k.admits rx a = true ∧ allAdmit rx ks rest = true := by
  cases as with
  | nil => simp [allAdmit]
  | cons a as => simp [allAdmit]; grind

theorem admits_intBound_iff {rx k a} : (ArgKind.intBound k).admits rx a = true ↔
    ∃ v, a.integral? = some v ∧ (intLimits k).1 ≤ v ∧ v ≤ (intLimits k).2 := by
  cases h : a.integral? <;> simp [ArgKind.admits, h]

@[local simp] theorem intBound_none {l} : intBound l none = .ok none := rfl

theorem intBound_some_ok_iff {lim a r} : intBound lim (some a) = .ok r ↔
    ∃ v, a.integral? = some v ∧ lim.1 ≤ v ∧ v ≤ lim.2 ∧ r = some v := by
  cases h : a.integral? <;> simp [intBound, h, bad]
  split <;> simp <;> grind

/-- Python `float(a)` of a numeric argument (`none`: not a number, or `OverflowError`) -/
def convF (a : Arg) : Option FVal :=
  match a.num? with
  | some (.f x) => some x
  | some (.i i) => floatOfInt i
  | none => none

theorem admits_realBound_iff {rx k a} : (ArgKind.realBound k).admits rx a = true ↔
    ∃ x, convF a = some x ∧ withinF (floatLimits k) x = true := by
  simp only [ArgKind.admits, convF]
  cases h : a.num? with
  | none => simp
  | some n =>
    cases n with
    | f x => simp
    | i i => cases h2 : floatOfInt i <;> simp [h2]

theorem withinF_iff {lim x} : withinF lim x = true ↔
    (∀ l, lim.1 = some l → x.lt l = false) ∧ (∀ h, lim.2 = some h → h.lt x = false) := by
  obtain ⟨lo, hi⟩ := lim
  cases lo <;> cases hi <;> simp [withinF]

@[local simp] theorem floatBound_none {l} : floatBound l none = .ok none := rfl

theorem outsideF_eq {lim x} : outsideF lim x = !withinF lim x := by
  obtain ⟨lo, hi⟩ := lim
  cases lo <;> cases hi <;> simp [outsideF, withinF, Bool.not_and]

theorem within_ite_ok_iff {lim y} {r : Option FVal} :
    (if outsideF lim y = true then (bad : Except FeErr (Option FVal)) else .ok (some y)) = .ok r ↔
      withinF lim y = true ∧ r = some y := by
  rw [outsideF_eq]
  cases hw : withinF lim y
  · simp [bad]
  · simp only [Bool.not_true, Bool.false_eq_true, if_false, Except.ok.injEq, true_and]
    exact eq_comm

theorem floatBound_some_ok_iff {lim a r} : floatBound lim (some a) = .ok r ↔
    ∃ x, convF a = some x ∧ withinF lim x = true ∧ r = some x := by
  cases hn : a.num? with
  | none => simp [floatBound, convF, hn, bad]
  | some n =>
    cases n with
    | f x =>
      simp only [floatBound, convF, hn, within_ite_ok_iff]
      exact ⟨fun ⟨hw, hr⟩ => ⟨x, rfl, hw, hr⟩, fun ⟨y, hy, hw, hr⟩ => by cases hy; exact ⟨hw, hr⟩⟩
    | i i =>
      cases h2 : floatOfInt i with
      | none => simp [floatBound, convF, hn, h2, bad]
      | some y =>
        simp only [floatBound, convF, hn, h2, within_ite_ok_iff]
        exact ⟨fun ⟨hw, hr⟩ => ⟨y, rfl, hw, hr⟩, fun ⟨z, hz, hw, hr⟩ => by cases hz; exact ⟨hw, hr⟩⟩

/-- an optional argument is absent or of its kind -/
def optAdmits (rx : String → Bool) (kd : ArgKind) : Option Arg → Bool
  | some a => kd.admits rx a
  | none => true

theorem intBound_ok_of_optAdmits {rx k o} (h : optAdmits rx (.intBound k) o = true) :
    ∃ r, intBound (intLimits k) o = .ok r := by
  cases o with
  | none => exact ⟨none, rfl⟩
  | some a =>
    have h' : (ArgKind.intBound k).admits rx a = true := h
    obtain ⟨v, hv, h1, h2⟩ := admits_intBound_iff.1 h'
    exact ⟨some v, intBound_some_ok_iff.2 ⟨v, hv, h1, h2, rfl⟩⟩

theorem floatBound_ok_of_optAdmits {rx k o} (h : optAdmits rx (.realBound k) o = true) :
    ∃ r, floatBound (floatLimits k) o = .ok r := by
  cases o with
  | none => exact ⟨none, rfl⟩
  | some a =>
    have h' : (ArgKind.realBound k).admits rx a = true := h
    obtain ⟨x, hx, hw⟩ := admits_realBound_iff.1 h'
    exact ⟨some x, floatBound_some_ok_iff.2 ⟨x, hx, hw, rfl⟩⟩

theorem admits_of_intBound_ok {rx k a r} (h : intBound (intLimits k) (some a) = .ok r) :
    (ArgKind.intBound k).admits rx a = true := by
  obtain ⟨v, hv, h1, h2, -⟩ := intBound_some_ok_iff.1 h
  exact admits_intBound_iff.2 ⟨v, hv, h1, h2⟩

theorem admits_of_floatBound_ok {rx k a r} (h : floatBound (floatLimits k) (some a) = .ok r) :
    (ArgKind.realBound k).admits rx a = true := by
  obtain ⟨x, hx, hw, -⟩ := floatBound_some_ok_iff.1 h
  exact admits_realBound_iff.2 ⟨x, hx, hw⟩

theorem admits_length_iff {rx l a} : (ArgKind.length l).admits rx a = true ↔
    ∃ v, a.integral? = some v ∧ l ≤ v := by
  cases h : a.integral? <;> simp [ArgKind.admits, h]

@[local simp] theorem lenBound_none {l} : lenBound l none = .ok none := rfl

theorem lenBound_some_ok_iff {l a r} : lenBound l (some a) = .ok r ↔
    ∃ v, a.integral? = some v ∧ l ≤ v ∧ r = some v := by
  cases h : a.integral? <;> simp [lenBound, h, bad]
  split <;> simp <;> grind

theorem admits_regex_iff {rx a} : ArgKind.regex.admits rx a = true ↔ ∃ s, a = .str s ∧ rx s = true := by
  cases a <;> simp [ArgKind.admits]

@[local simp] theorem patternArg_none {rx} : patternArg rx none = .ok none := rfl

theorem patternArg_some_ok_iff {rx p r} : patternArg rx (some p) = .ok r ↔
    r = some p ∧ ∃ s, p = .str s ∧ rx s = true := by
  simp only [patternArg]
  cases p <;> simp [bad]
  split <;> simp <;> grind

/-! ## legal implies accepted -/

example : legalArgs (fun _ => true) .list [.ty false] [("min_items", .int 1), ("max_items", .int 1)] = true := by
  decide

/-- A legal argument list is never refused. -/
theorem legal_accepted (rx : String → Bool) (k pos kw)
    (h : legalArgs rx k pos kw = true) : ∃ t, instantiate rx k pos kw = .ok t := by
  simp only [legalArgs, Bool.and_eq_true] at h
  obtain ⟨⟨⟨⟨h1, h2⟩, h3⟩, h4⟩, h5⟩ := h
  rw [instantiate_of_wf h1 (allAdmit_length h2) h3]
  cases k
  case bytes | boolean | void =>
    simp only [required, allAdmit_nil_iff] at h2
    subst h2
    simp [construct]
  case int32 | int64 | uint32 | uint64 =>
    simp only [required, allAdmit_nil_iff] at h2
    subst h2
    simp only [optional, List.all_cons, List.all_nil, Bool.and_true, Bool.and_eq_true] at h4
    obtain ⟨h4a, h4b⟩ := h4
    simp only [construct]
    generalize List.lookup "min_value" kw = omin at *
    generalize List.lookup "max_value" kw = omax at *
    obtain ⟨lo, hlo⟩ := intBound_ok_of_optAdmits (rx := rx) (o := omin) (by cases omin <;> exact h4a)
    obtain ⟨hi, hhi⟩ := intBound_ok_of_optAdmits (rx := rx) (o := omax) (by cases omax <;> exact h4b)
    simp [hlo, hhi]
  case float32 | float64 =>
    simp only [required, allAdmit_nil_iff] at h2
    subst h2
    simp only [optional, List.all_cons, List.all_nil, Bool.and_true, Bool.and_eq_true] at h4
    obtain ⟨h4a, h4b⟩ := h4
    simp only [construct]
    generalize List.lookup "min_value" kw = omin at *
    generalize List.lookup "max_value" kw = omax at *
    obtain ⟨lo, hlo⟩ := floatBound_ok_of_optAdmits (rx := rx) (o := omin) (by cases omin <;> exact h4a)
    obtain ⟨hi, hhi⟩ := floatBound_ok_of_optAdmits (rx := rx) (o := omax) (by cases omax <;> exact h4b)
    simp [hlo, hhi]
  case timestamp =>
    simp only [required, allAdmit_cons_iff, allAdmit_nil_iff] at h2
    obtain ⟨a, _, rfl, ha, rfl⟩ := h2
    cases a <;> simp_all [construct, ArgKind.admits, Arg.isStr]
  case map =>
    simp only [required, allAdmit_cons_iff, allAdmit_nil_iff] at h2
    obtain ⟨a, _, rfl, ha, b, _, rfl, hb, rfl⟩ := h2
    simp only [ArgKind.admits, beq_iff_eq] at ha hb
    subst ha
    simp [construct, hb]
  case string =>
    simp only [required, allAdmit_nil_iff] at h2
    subst h2
    simp only [optional, List.all_cons, List.all_nil, Bool.and_true, Bool.and_eq_true] at h4
    obtain ⟨h4a, h4b, h4c⟩ := h4
    simp only [construct, lengthsOrdered] at h5 ⊢
    generalize List.lookup "min_length" kw = omin at *
    generalize List.lookup "max_length" kw = omax at *
    generalize List.lookup "pattern" kw = opat at *
    have hmn : ∃ mn, lenBound 0 omin = .ok mn ∧ mn = omin.bind Arg.integral? := by
      cases omin <;> simp_all [lenBound_some_ok_iff, admits_length_iff] <;> grind
    have hmx : ∃ mx, lenBound 1 omax = .ok mx ∧ mx = omax.bind Arg.integral? := by
      cases omax <;> simp_all [lenBound_some_ok_iff, admits_length_iff] <;> grind
    have hp : ∃ p, patternArg rx opat = .ok p := by
      cases opat <;> simp_all [patternArg_some_ok_iff, admits_regex_iff] <;> grind
    obtain ⟨mn, e1, rfl⟩ := hmn
    obtain ⟨mx, e2, rfl⟩ := hmx
    obtain ⟨p, e3⟩ := hp
    rw [e1, e2]
    simp only [ok_bind, e3]
    have hc : (optIntTruthy (omin.bind Arg.integral?) && optIntTruthy (omax.bind Arg.integral?) &&
        decide ((omax.bind Arg.integral?).getD 0 < (omin.bind Arg.integral?).getD 0)) = false := by
      cases ha : omin.bind Arg.integral? <;> cases hb : omax.bind Arg.integral? <;>
        simp_all [optIntTruthy]
    simp [hc]
  case list =>
    simp only [required, allAdmit_cons_iff, allAdmit_nil_iff] at h2
    obtain ⟨a, _, rfl, ha, rfl⟩ := h2
    simp only [ArgKind.admits] at ha
    simp only [optional, List.all_cons, List.all_nil, Bool.and_true, Bool.and_eq_true] at h4
    obtain ⟨h4a, h4b⟩ := h4
    simp only [construct, lengthsOrdered, ha, Bool.not_true, Bool.false_eq_true, if_false] at h5 ⊢
    generalize List.lookup "min_items" kw = omin at *
    generalize List.lookup "max_items" kw = omax at *
    have hmn : ∃ mn, lenBound 0 omin = .ok mn ∧ mn = omin.bind Arg.integral? := by
      cases omin <;> simp_all [lenBound_some_ok_iff, admits_length_iff] <;> grind
    have hmx : ∃ mx, lenBound 1 omax = .ok mx ∧ mx = omax.bind Arg.integral? := by
      cases omax <;> simp_all [lenBound_some_ok_iff, admits_length_iff] <;> grind
    obtain ⟨mn, e1, rfl⟩ := hmn
    obtain ⟨mx, e2, rfl⟩ := hmx
    rw [e1, e2]
    simp only [ok_bind]
    have hc : (optIntTruthy (omin.bind Arg.integral?) && optIntTruthy (omax.bind Arg.integral?) &&
        decide ((omax.bind Arg.integral?).getD 0 < (omin.bind Arg.integral?).getD 0)) = false := by
      cases ha : omin.bind Arg.integral? <;> cases hb : omax.bind Arg.integral? <;>
        simp_all [optIntTruthy]
    simp [hc]

theorem length_eq_two {α} {l : List α} (h : l.length = 0 + 1 + 1) : ∃ a b, l = [a, b] := by
  match l, h with
  | [a, b], _ => exact ⟨a, b, rfl⟩

theorem string_ok_facts {rx : String → Bool} {kw t} (hc : construct rx .string [] kw = .ok t) :
    (∀ a, kw.lookup "min_length" = some a → (ArgKind.length 0).admits rx a = true) ∧
    (∀ a, kw.lookup "max_length" = some a → (ArgKind.length 1).admits rx a = true) ∧
    (∀ a, kw.lookup "pattern" = some a → ArgKind.regex.admits rx a = true) ∧
    lengthsOrdered kw "min_length" "max_length" = true := by
  simp only [construct, bind_ok_iff] at hc
  obtain ⟨mn, hmn, mx, hmx, hc⟩ := hc
  split at hc
  · simp [bad] at hc
  rename_i hcond
  simp only [bind_ok_iff] at hc
  obtain ⟨p, hp, -⟩ := hc
  simp only [lengthsOrdered]
  generalize List.lookup "min_length" kw = omin at *
  generalize List.lookup "max_length" kw = omax at *
  generalize List.lookup "pattern" kw = opat at *
  refine ⟨?_, ?_, ?_, ?_⟩
  · rintro a rfl
    obtain ⟨v, hv, hle, -⟩ := lenBound_some_ok_iff.1 hmn
    exact admits_length_iff.2 ⟨v, hv, hle⟩
  · rintro a rfl
    obtain ⟨v, hv, hle, -⟩ := lenBound_some_ok_iff.1 hmx
    exact admits_length_iff.2 ⟨v, hv, hle⟩
  · rintro a rfl
    obtain ⟨-, s, rfl, hs⟩ := patternArg_some_ok_iff.1 hp
    simp [ArgKind.admits, hs]
  · cases omin with
    | none => simp
    | some a =>
      cases omax with
      | none => cases a.integral? <;> simp
      | some b =>
        obtain ⟨v, hv, hle, rfl⟩ := lenBound_some_ok_iff.1 hmn
        obtain ⟨w, hw, hle', rfl⟩ := lenBound_some_ok_iff.1 hmx
        simp [optIntTruthy] at hcond
        simp [hv, hw]
        omega

theorem list_ok_facts {rx : String → Bool} {a kw t} (hc : construct rx .list [a] kw = .ok t) :
    a.isTy = true ∧
    (∀ x, kw.lookup "min_items" = some x → (ArgKind.length 0).admits rx x = true) ∧
    (∀ x, kw.lookup "max_items" = some x → (ArgKind.length 1).admits rx x = true) ∧
    lengthsOrdered kw "min_items" "max_items" = true := by
  simp only [construct] at hc
  split at hc
  · simp [bad] at hc
  rename_i hty
  simp only [bind_ok_iff] at hc
  obtain ⟨mn, hmn, mx, hmx, hc⟩ := hc
  split at hc
  · simp [bad] at hc
  rename_i hcond
  simp only [lengthsOrdered]
  generalize List.lookup "min_items" kw = omin at *
  generalize List.lookup "max_items" kw = omax at *
  refine ⟨by simpa using hty, ?_, ?_, ?_⟩
  · rintro x rfl
    obtain ⟨v, hv, hle, -⟩ := lenBound_some_ok_iff.1 hmn
    exact admits_length_iff.2 ⟨v, hv, hle⟩
  · rintro x rfl
    obtain ⟨v, hv, hle, -⟩ := lenBound_some_ok_iff.1 hmx
    exact admits_length_iff.2 ⟨v, hv, hle⟩
  · cases omin with
    | none => simp
    | some x =>
      cases omax with
      | none => cases x.integral? <;> simp
      | some y =>
        obtain ⟨v, hv, hle, rfl⟩ := lenBound_some_ok_iff.1 hmn
        obtain ⟨w, hw, hle', rfl⟩ := lenBound_some_ok_iff.1 hmx
        simp [optIntTruthy] at hcond
        simp [hv, hw]
        omega

/-! ## accepted implies legal -/

/-- An accepted argument list is legal (full strength). -/
theorem ok_imp_legal (rx : String → Bool) (k pos kw) (t) (h : instantiate rx k pos kw = .ok t) :
    legalArgs rx k pos kw = true := by
  obtain ⟨h1, h2, h3, hc⟩ := instantiate_not_specerr h (by simp)
  simp only [legalArgs, Bool.and_eq_true]
  refine ⟨⟨⟨⟨h1, ?_⟩, h3⟩, ?_⟩, ?_⟩
  all_goals cases k
  case refine_1.bytes | refine_1.boolean | refine_1.void | refine_1.int32 | refine_1.int64 | refine_1.uint32
      | refine_1.uint64 | refine_1.float32 | refine_1.float64 | refine_1.string =>
    simp only [required, List.length_nil, List.length_eq_zero_iff] at h2
    subst h2
    rfl
  case refine_3.bytes | refine_3.boolean | refine_3.void | refine_3.int32 | refine_3.int64 | refine_3.uint32
      | refine_3.uint64 | refine_3.float32 | refine_3.float64 | refine_3.timestamp | refine_3.map => rfl
  case refine_2.bytes | refine_2.boolean | refine_2.void | refine_2.timestamp | refine_2.map => rfl
  case refine_1.timestamp =>
    obtain ⟨a, rfl⟩ := List.length_eq_one_iff.1 h2
    cases a <;> simp_all [construct, allAdmit, required, ArgKind.admits, Arg.isStr, bad]
  case refine_1.map =>
    obtain ⟨a, b, rfl⟩ := length_eq_two h2
    rcases a with _ | _ | _ | _ | _ | (_ | _) <;>
      simp_all [construct, allAdmit, required, ArgKind.admits, bad]
    cases hb : b.isTy <;> simp_all
  case refine_1.list =>
    obtain ⟨a, rfl⟩ := List.length_eq_one_iff.1 h2
    simp [allAdmit, required, ArgKind.admits, (list_ok_facts hc).1]
  case refine_2.int32 | refine_2.int64 | refine_2.uint32 | refine_2.uint64 =>
    simp only [required, List.length_nil, List.length_eq_zero_iff] at h2
    subst h2
    simp only [construct, bind_ok_iff] at hc
    obtain ⟨lo, hlo, hi, hhi, -⟩ := hc
    simp only [optional, List.all_cons, List.all_nil, Bool.and_true, Bool.and_eq_true]
    generalize List.lookup "min_value" kw = omin at *
    generalize List.lookup "max_value" kw = omax at *
    refine ⟨?_, ?_⟩
    · cases omin with
      | none => rfl
      | some a => exact admits_of_intBound_ok hlo
    · cases omax with
      | none => rfl
      | some a => exact admits_of_intBound_ok hhi
  case refine_2.float32 | refine_2.float64 =>
    simp only [required, List.length_nil, List.length_eq_zero_iff] at h2
    subst h2
    simp only [construct, bind_ok_iff] at hc
    obtain ⟨lo, hlo, hi, hhi, -⟩ := hc
    simp only [optional, List.all_cons, List.all_nil, Bool.and_true, Bool.and_eq_true]
    generalize List.lookup "min_value" kw = omin at *
    generalize List.lookup "max_value" kw = omax at *
    refine ⟨?_, ?_⟩
    · cases omin with
      | none => rfl
      | some a => exact admits_of_floatBound_ok hlo
    · cases omax with
      | none => rfl
      | some a => exact admits_of_floatBound_ok hhi
  case refine_2.string =>
    simp only [required, List.length_nil, List.length_eq_zero_iff] at h2
    subst h2
    obtain ⟨f1, f2, f3, -⟩ := string_ok_facts hc
    simp only [optional, List.all_cons, List.all_nil, Bool.and_true, Bool.and_eq_true]
    generalize List.lookup "min_length" kw = omin at *
    generalize List.lookup "max_length" kw = omax at *
    generalize List.lookup "pattern" kw = opat at *
    cases omin <;> cases omax <;> cases opat <;> simp_all
  case refine_3.string =>
    simp only [required, List.length_nil, List.length_eq_zero_iff] at h2
    subst h2
    exact (string_ok_facts hc).2.2.2
  case refine_2.list =>
    obtain ⟨a, rfl⟩ := List.length_eq_one_iff.1 h2
    obtain ⟨-, f1, f2, -⟩ := list_ok_facts hc
    simp only [optional, List.all_cons, List.all_nil, Bool.and_true, Bool.and_eq_true]
    generalize List.lookup "min_items" kw = omin at *
    generalize List.lookup "max_items" kw = omax at *
    cases omin <;> cases omax <;> simp_all
  case refine_3.list =>
    obtain ⟨a, rfl⟩ := List.length_eq_one_iff.1 h2
    exact (list_ok_facts hc).2.2.2

example : legalArgs (fun _ => true) .string [] [("min_length", .int 1), ("max_length", .int 5)] = true := by decide

/-- **C01 (full strength).** accepted = legal, for every built-in type and every argument list. -/
theorem instantiate_ok_iff_legal (rx : String → Bool) (k pos kw) :
    (∃ t, instantiate rx k pos kw = .ok t) ↔ legalArgs rx k pos kw = true :=
  ⟨fun ⟨t, h⟩ => ok_imp_legal rx k pos kw t h, legal_accepted rx k pos kw⟩

/-- the same for a reference `K(args)` / `K(args)?` (`Void?` refused) -/
theorem resolveBuiltin_ok_iff_legalRef (rx : String → Bool) (k pos kw) (nullable : Bool) :
    (∃ r, resolveBuiltin rx k pos kw nullable = .ok r) ↔ legalRef rx k pos kw nullable = true := by
  unfold resolveBuiltin legalRef
  cases hv : (k == TyKind.void && nullable)
  · cases nullable <;> simp [bind_ok_iff, ← instantiate_ok_iff_legal rx k pos kw]
  · simp

example : legalRef (fun _ => true) .list [.ty false] [("min_items", .bool false)] true = true := by decide

/-! ## Regression: the repaired holes and the repaired crash site are spec errors now -/

section regression
local notation "anyRx" => (fun _ : String => true)

/-- `String(pattern=0)`, `pattern=false`, `pattern=0.0` (were accepted: `if pattern:`) -/
theorem string_falsy_pattern_refused :
    instantiate anyRx .string [] [("pattern", .int 0)] = .error (.specerr .badArgument) ∧
    instantiate anyRx .string [] [("pattern", .bool false)] = .error (.specerr .badArgument) ∧
    instantiate anyRx .string [] [("pattern", .float (.fin 0 1))] = .error (.specerr .badArgument) := by decide

/-- `String(pattern="")` stays legal and accepted when the empty pattern compiles -/
example : instantiate anyRx .string [] [("pattern", .str "")] = .ok (.string none none (some (.str ""))) ∧
    legalArgs anyRx .string [] [("pattern", .str "")] = true := by decide

/-- `Int32(min_value=2147483648)` (was accepted) -/
theorem int_min_above_maximum_refused :
    instantiate anyRx .int32 [] [("min_value", .int 2147483648)] = .error (.specerr .badArgument) := by decide

/-- `UInt32(max_value=-1)` (was accepted) -/
theorem uint_max_below_minimum_refused :
    instantiate anyRx .uint32 [] [("max_value", .int (-1))] = .error (.specerr .badArgument) := by decide

/-- `Float32(min_value=1e39)`, `Float32(max_value=-1e39)` (were accepted) -/
theorem float32_bound_beyond_far_end_refused :
    instantiate anyRx .float32 [] [("min_value", .float (.fin (10 ^ 39) 1))] = .error (.specerr .badArgument) ∧
    instantiate anyRx .float32 [] [("max_value", .float (.fin (-(10 ^ 39)) 1))] = .error (.specerr .badArgument) := by
  decide

/-- the widest legal bounds are still accepted -/
example : instantiate anyRx .int32 [] [("min_value", .int (-2147483648)), ("max_value", .int 2147483647)]
    = .ok (.int .int32 (some (-2147483648)) (some 2147483647)) := by decide

/-- `List(3)` (was accepted) -/
theorem list_literal_refused :
    instantiate anyRx .list [.int 3] [] = .error (.specerr .badArgument) := by decide

/-- `Map(String, 3)` (was accepted) -/
theorem map_value_literal_refused :
    instantiate anyRx .map [.ty true, .int 3] [] = .error (.specerr .badArgument) := by decide

/-- `List(String, min_items=1.5)` (was accepted) -/
theorem list_float_length_refused :
    instantiate anyRx .list [.ty true] [("min_items", .float (.fin 3 2))] = .error (.specerr .badArgument) := by
  decide

/-- `List(String, min_items="a")`, `min_items=null`, `max_items=Int32` (were `TypeError`s) -/
theorem list_min_items_str_refused :
    instantiate anyRx .list [.ty true] [("min_items", .str "a")] = .error (.specerr .badArgument) ∧
    instantiate anyRx .list [.ty true] [("min_items", .null)] = .error (.specerr .badArgument) ∧
    instantiate anyRx .list [.ty true] [("max_items", .ty false)] = .error (.specerr .badArgument) := by decide

/-- booleans still pass as lengths, as for `String` (not judged: the language reference is silent) -/
example : instantiate anyRx .list [.ty true] [("min_items", .bool true)] = .ok (.list (.ty true) (some 1) none) := by
  decide

end regression

/-! ## Crash layer -/

@[local simp] theorem bad_ne_crash {α e} : (bad : Except FeErr α) ≠ .error (.crash e) := by simp [bad]

@[local simp] theorem ite_bad_ne_crash {α} {c : Prop} [Decidable c] {x : α} {e} :
    (if c then (bad : Except FeErr α) else .ok x) ≠ .error (.crash e) := by
  by_cases c <;> simp [*]

@[local simp] theorem intBound_ne_crash {l oa e} : intBound l oa ≠ .error (.crash e) := by
  cases oa with
  | none => simp
  | some a =>
    simp only [intBound]
    cases a.integral? <;> simp

@[local simp] theorem floatBound_ne_crash {l oa e} : floatBound l oa ≠ .error (.crash e) := by
  cases oa with
  | none => simp
  | some a =>
    simp only [floatBound]
    rcases a.num? with _ | (i | x) <;> simp
    · cases floatOfInt i <;> simp

@[local simp] theorem lenBound_ne_crash {l oa e} : lenBound l oa ≠ .error (.crash e) := by
  cases oa with
  | none => simp
  | some a =>
    simp only [lenBound]
    cases a.integral? <;> simp

@[local simp] theorem patternArg_ne_crash {rx oa e} : patternArg rx oa ≠ .error (.crash e) := by
  cases oa with
  | none => simp
  | some a =>
    simp only [patternArg]
    cases a <;> simp
    split <;> simp

/-- the constructor call, once the number of positional arguments is right, raises nothing but `ParameterError` -/
theorem construct_no_crash {rx k pos kw e} (h2 : pos.length = (required k).length) :
    construct rx k pos kw ≠ .error (.crash e) := by
  intro hc
  cases k
  case bytes | boolean | void | int32 | int64 | uint32 | uint64 | float32 | float64 =>
    simp only [required, List.length_nil, List.length_eq_zero_iff] at h2
    subst h2
    simp [construct, bind_error_iff] at hc
  case string =>
    simp only [required, List.length_nil, List.length_eq_zero_iff] at h2
    subst h2
    simp only [construct, bind_error_iff, lenBound_ne_crash, false_or] at hc
    obtain ⟨_, -, _, -, hc⟩ := hc
    split at hc
    · simp [bad] at hc
    · simp [bind_error_iff] at hc
  case timestamp =>
    obtain ⟨a, rfl⟩ := List.length_eq_one_iff.1 h2
    cases a <;> simp [construct, bad] at hc
  case map =>
    obtain ⟨a, b, rfl⟩ := length_eq_two h2
    rcases a with _ | _ | _ | _ | _ | (_ | _) <;> simp [construct, bad] at hc
    split at hc <;> simp at hc
  case list =>
    obtain ⟨a, rfl⟩ := List.length_eq_one_iff.1 h2
    simp only [construct] at hc
    split at hc
    · simp [bad] at hc
    simp only [bind_error_iff, lenBound_ne_crash, false_or] at hc
    obtain ⟨_, -, _, -, hc⟩ := hc
    split at hc <;> simp [bad] at hc

/-- **C03 (full strength).** Only `InvalidSpec` escapes type instantiation: for every built-in type and every
argument list the result is a type or the spec error.  (The model's only non-spec error is the `TypeError` of calling
a constructor with the wrong number of arguments; the bookkeeping of `_instantiate_data_type` excludes it.) -/
theorem instantiate_no_crash (rx : String → Bool) (k pos kw) : ∀ e, instantiate rx k pos kw ≠ .error (.crash e) := by
  intro e he
  obtain ⟨-, h2, -, hc⟩ := instantiate_not_specerr he (by simp)
  exact construct_no_crash h2 hc

/-- without the positional bookkeeping the constructor call does fail otherwise (`List()`): the theorem above is
not about a model that cannot crash -/
example : construct (fun _ => true) .list [] [] = .error (.crash .typeError) := by decide

/-- the same for a reference `K(args)` / `K(args)?` -/
theorem resolveBuiltin_no_crash (rx : String → Bool) (k pos kw) (nullable : Bool) :
    ∀ e, resolveBuiltin rx k pos kw nullable ≠ .error (.crash e) := by
  intro e
  simp only [resolveBuiltin]
  split
  · simp
  · simp [bind_error_iff, instantiate_no_crash rx k pos kw]

end StoneVerif.FeParams
