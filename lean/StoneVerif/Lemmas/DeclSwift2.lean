import StoneVerif.Lemmas.DeclSwift
/-! Helper lemmas for Props/C17.lean, part 2: the client backends and the Objective-C type backend. -/
namespace StoneVerif.DeclSwift

theorem validRoutes_sub {o : Options} {ns : Namespace} {r : Route} (h : r ∈ validRoutes o ns) : r ∈ ns.routes := by
  unfold validRoutes at h; exact (List.mem_filter.mp h).1

/-! #### swift_client -/

theorem swRouteArgRefs_AllM {api : Api} {ns : Namespace} {r : Route} (hns : ns ∈ api.nss) (hr : r ∈ ns.routes) :
    AllM api (swRouteArgRefs api ns.name r) := by
  obtain ⟨ha, _, _⟩ := route_ty_mentioned hns hr
  unfold swRouteArgRefs
  split
  · next q hq =>
    split
    · next s hs =>
      obtain ⟨ns', hns', _, htm, _⟩ := find?_sound hs
      exact AllM_fieldRefs swType_refs fun f hf q' hq' => structAllFields_mentioned hns' htm hf hq'
    · exact AllM_of_refOK (hq ▸ ha) (swType_refs _)
  · split
    · exact AllM_nil _
    · exact AllM_of_refOK ha (swType_refs _)

theorem swClientFuncs_AllM {api : Api} {o : Options} {ns : Namespace} (hns : ns ∈ api.nss) :
    ∀ d ∈ swClientFuncs api o ns, AllM api d.refs := by
  intro d hd
  simp only [swClientFuncs, List.mem_flatMap, List.mem_map] at hd
  obtain ⟨r, hr, _, _, rfl⟩ := hd
  have hr' := validRoutes_sub hr
  obtain ⟨ha, hres, he⟩ := route_ty_mentioned hns hr'
  refine AllM_append (AllM_append (AllM_append (AllM_append (swRouteArgRefs_AllM hns hr') ?_) ?_) ?_) ?_
  · exact AllM_of_refOK hres (swSerialType_refs _)
  · exact AllM_of_refOK he (swSerialType_refs _)
  · exact AllM_cons (fun q hq => by simp [TRef.typeQ?] at hq) (AllM_nil _)
  · split
    · exact AllM_of_refOK ha (swType_refs _)
    · exact AllM_nil _

theorem AllM_flatMap_refs {api : Api} {ds : List Decl} (h : ∀ d ∈ ds, AllM api d.refs) :
    AllM api (ds.flatMap (·.refs)) := AllM_flatMap h

theorem swClientCommon_AllM (api : Api) (o : Options) (b : Bool) : ∀ d ∈ swClientCommon api o b, AllM api d.refs := by
  have hm : ∀ d ∈ (api.nss.filter fun ns => !(validRoutes o ns).isEmpty).map (fun ns =>
      ({ unit := "", kind := "var", scope := [(if b then "DBX" else "") ++ o.className], name := swVar ns.name,
         refs := [if b then TRef.swRoutesObjc ns.name (isApp o) else TRef.swRoutes ns.name (isApp o)] } : Decl)),
      AllM api d.refs := by
    intro d hd
    obtain ⟨ns, _, rfl⟩ := List.mem_map.mp hd
    refine AllM_cons ?_ (AllM_nil _)
    intro q hq
    cases b <;> simp [TRef.typeQ?] at hq
  intro d hd
  simp only [swClientCommon, List.mem_cons] at hd
  rcases hd with rfl | hd
  · exact AllM_flatMap_refs hm
  · exact hm d hd

theorem bgRoutes_mem {api : Api} {o : Options} {p : Namespace × Route} (h : p ∈ bgRoutes o api) :
    p.1 ∈ api.nss ∧ p.2 ∈ p.1.routes := by
  simp only [bgRoutes, List.mem_flatMap, List.mem_map, List.mem_filter] at h
  obtain ⟨ns, hns, r, ⟨hr, _⟩, rfl⟩ := h
  exact ⟨hns, validRoutes_sub hr⟩

theorem swRequestBox_AllM (api : Api) (o : Options) : ∀ d ∈ swRequestBox api o, AllM api d.refs := by
  intro d hd
  unfold swRequestBox at hd
  simp only [] at hd
  split at hd
  · simp at hd
  · have hc : ∀ d ∈ (bgRoutes o api).map (fun (p : Namespace × Route) =>
        ({ unit := "", kind := "case", scope := [o.className ++ "RequestBox"],
           name := p.1.name ++ "_" ++ swFunc p.2.name p.2.version,
           refs := (swSerialType p.2.result).refs ++ (swSerialType p.2.error).refs } : Decl)), AllM api d.refs := by
      intro d hd
      obtain ⟨p, hp, rfl⟩ := List.mem_map.mp hd
      obtain ⟨hns, hr⟩ := bgRoutes_mem hp
      obtain ⟨_, hres, he⟩ := route_ty_mentioned hns hr
      exact AllM_append (AllM_of_refOK hres (swSerialType_refs _)) (AllM_of_refOK he (swSerialType_refs _))
    simp only [List.mem_append, List.mem_cons, List.not_mem_nil, or_false] at hd
    rcases hd with (rfl | hd) | rfl
    · exact AllM_flatMap_refs hc
    · exact hc d hd
    · exact AllM_map_nontype fun p => rfl

theorem swiftClientDecls_AllM (api : Api) (o : Options) : ∀ d ∈ swiftClientDecls api o, AllM api d.refs := by
  intro d hd
  simp only [swiftClientDecls, List.mem_append, List.mem_flatMap] at hd
  rcases hd with (⟨ns, hns, hd⟩ | hd) | hd
  · unfold swClientNsDecls at hd
    split at hd
    · simp at hd
    · simp only [List.mem_cons] at hd
      rcases hd with rfl | hd
      · exact AllM_flatMap_refs (swClientFuncs_AllM hns)
      · exact swClientFuncs_AllM hns d hd
  · exact swClientCommon_AllM api o false d hd
  · exact swRequestBox_AllM api o d hd

/-! #### swift_client --objc -/

theorem swObjcRouteArgRefs_AllM {api : Api} {ns : Namespace} {r : Route} (hns : ns ∈ api.nss) (hr : r ∈ ns.routes)
    (b : Bool) : AllM api (swObjcRouteArgRefs api r b) := by
  obtain ⟨ha, _, _⟩ := route_ty_mentioned hns hr
  unfold swObjcRouteArgRefs
  split
  · next q hq =>
    split
    · next s hs =>
      obtain ⟨ns', hns', _, htm, _⟩ := find?_sound hs
      exact AllM_fieldRefs (fun t => swObjcType_refs t true) fun f hf q' hq' =>
        structAllFields_mentioned hns' htm (List.mem_filter.mp hf).1 hq'
    · exact AllM_of_refOK (hq ▸ ha) (swObjcType_refs _ _)
  · split
    · exact AllM_nil _
    · exact AllM_of_refOK ha (swObjcType_refs _ _)

theorem swClientObjcFuncs_AllM {api : Api} {o : Options} {ns : Namespace} (hns : ns ∈ api.nss) :
    ∀ d ∈ swClientObjcFuncs api o ns, AllM api d.refs := by
  intro d hd
  simp only [swClientObjcFuncs, List.mem_flatMap, List.mem_filter] at hd
  obtain ⟨r, ⟨hr, _⟩, v, _, hd⟩ := hd
  have hr' := validRoutes_sub hr
  have one : ∀ b, AllM api (swObjcRouteArgRefs api r b ++ [TRef.swReq ns.name r.name r.version (o.request r v)]) :=
    fun b => AllM_append (swObjcRouteArgRefs_AllM hns hr' b)
      (AllM_cons (fun q hq => by simp [TRef.typeQ?] at hq) (AllM_nil _))
  split at hd
  · simp only [List.mem_cons, List.not_mem_nil, or_false] at hd
    rcases hd with rfl | rfl <;> exact one _
  · simp only [List.mem_cons, List.not_mem_nil, or_false] at hd
    subst hd; exact one _

theorem dedupLast_sub (l : List (String × Decl)) : ∀ p ∈ dedupLast l, p ∈ l := by
  induction l with
  | nil => simp [dedupLast]
  | cons a rest ih =>
    intro p hp
    unfold dedupLast at hp
    split at hp
    · exact List.mem_cons_of_mem _ (ih p hp)
    · rcases List.mem_cons.mp hp with h | h
      · simp [h]
      · exact List.mem_cons_of_mem _ (ih p h)

theorem swReqClassRefs_AllM {api : Api} {ns : Namespace} {r : Route} (hns : ns ∈ api.nss) (hr : r ∈ ns.routes) :
    AllM api (swReqClassRefs r) := by
  obtain ⟨_, hres, he⟩ := route_ty_mentioned hns hr
  unfold swReqClassRefs
  refine AllM_append (AllM_append (AllM_append (AllM_of_refOK hres (swSerialType_refs _))
    (AllM_of_refOK he (swSerialType_refs _))) ?_) ?_
  · split
    · next q hq =>
      refine AllM_cons ?_ (AllM_nil _)
      intro q' hq'
      simp [TRef.typeQ?] at hq'
      subst hq'
      exact he _ (by simp [hq, Ty.userTypes])
    · exact AllM_nil _
  · split
    · exact AllM_nil _
    · exact AllM_of_refOK hres (swObjcType_refs _ _)

theorem swReqDecls_AllM {api : Api} {o : Options} {ns : Namespace} (hns : ns ∈ api.nss) :
    ∀ d ∈ swReqDecls o ns, AllM api d.refs := by
  intro d hd
  simp only [swReqDecls, List.mem_filter, List.mem_map] at hd
  obtain ⟨⟨p, hp, rfl⟩, _⟩ := hd
  have := dedupLast_sub _ p hp
  simp only [List.mem_map, List.mem_flatMap] at this
  obtain ⟨⟨n, r⟩, ⟨r', hr', v, _, hnr⟩, rfl⟩ := this
  simp at hnr
  obtain ⟨_, rfl⟩ := hnr
  exact swReqClassRefs_AllM hns hr'

theorem swRequestBoxObjc_AllM (api : Api) (o : Options) : ∀ d ∈ swRequestBoxObjc api o, AllM api d.refs := by
  intro d hd
  unfold swRequestBoxObjc at hd
  simp only [] at hd
  split at hd
  · simp at hd
  · simp only [List.mem_cons, List.not_mem_nil, or_false] at hd
    subst hd
    exact AllM_map_nontype fun p => rfl

theorem swiftClientObjcDecls_AllM (api : Api) (o : Options) : ∀ d ∈ swiftClientObjcDecls api o, AllM api d.refs := by
  intro d hd
  simp only [swiftClientObjcDecls, List.mem_append, List.mem_flatMap] at hd
  rcases hd with (⟨ns, hns, hd⟩ | hd) | hd
  · unfold swClientObjcNsDecls at hd
    split at hd
    · simp at hd
    · simp only [List.mem_cons, List.mem_append] at hd
      rcases hd with (rfl | hd) | hd
      · exact AllM_cons (fun q hq => by simp [TRef.typeQ?] at hq) (AllM_flatMap_refs (swClientObjcFuncs_AllM hns))
      · exact swClientObjcFuncs_AllM hns d hd
      · exact swReqDecls_AllM hns d hd
  · exact swClientCommon_AllM api o true d hd
  · exact swRequestBoxObjc_AllM api o d hd

/-! #### obj_c_types -/

theorem serializerDecls_AllM {api : Api} {q : QName} (hq : q ∈ mentioned api) : ∀ d ∈ serializerDecls q, AllM api d.refs := by
  intro d hd
  simp only [serializerDecls, List.mem_cons, List.not_mem_nil, or_false] at hd
  rcases hd with rfl | rfl | rfl | rfl | rfl
  · exact AllM_cons (one_type_mentioned hq (Or.inl rfl)) (AllM_nil _)
  · exact AllM_cons (one_type_mentioned hq (Or.inl rfl)) (AllM_nil _)
  · exact AllM_cons (one_type_mentioned hq (Or.inl rfl)) (AllM_nil _)
  · exact AllM_nil _
  · exact AllM_nil _

theorem ocStructDecls_AllM {api : Api} {ns : Namespace} {s : StructT} (hns : ns ∈ api.nss)
    (ht : UserT.struct s ∈ ns.types) : ∀ d ∈ ocStructDecls api ns.name s, AllM api d.refs := by
  have haf : ∀ f ∈ structAllFields api ns.name s, ∀ q ∈ f.ty.userTypes, q ∈ mentioned api :=
    fun f hf q hq => structAllFields_mentioned hns ht hf hq
  have hown : ∀ f ∈ s.fields, ∀ q ∈ f.ty.userTypes, q ∈ mentioned api :=
    fun f hf q hq => field_mentioned hns ht (by simpa [UserT.fields] using hf) hq
  have hself : (⟨ns.name, s.name⟩ : QName) ∈ mentioned api := self_mentioned hns ht
  have hprop : ∀ f ∈ s.fields, AllM api (ocType f.ty true false false true).refs :=
    fun f hf => AllM_of_refOK (hown f hf) (ocType_refs _ _ _ _ _)
  have hfull : AllM api ((structAllFields api ns.name s).flatMap fun f => (ocType f.ty true f.hasDefault).refs) :=
    AllM_flatMap fun f hf => AllM_of_refOK (haf f hf) (ocType_refs _ _ _ _ _)
  intro d hd
  simp only [ocStructDecls, List.mem_cons, List.mem_append, List.mem_map, List.not_mem_nil, or_false] at hd
  rcases hd with ((((rfl | ⟨f, hf, rfl⟩) | rfl) | hd) | hd) | hd
  · refine AllM_append (AllM_append ?_ ?_) hfull
    · split
      · exact AllM_nil _
      · next p hp =>
        exact AllM_cons (one_type_mentioned (parent_mentioned hns ht (by simpa [UserT.parent] using hp)) (Or.inl rfl)) (AllM_nil _)
    · apply AllM_flatMap
      intro d hd
      obtain ⟨f, hf, rfl⟩ := List.mem_map.mp hd
      exact hprop f hf
  · exact hprop f hf
  · exact hfull
  · split at hd
    · simp only [List.mem_cons, List.not_mem_nil, or_false] at hd
      subst hd
      exact AllM_flatMap fun f hf => AllM_of_refOK (haf f (List.mem_filter.mp hf).1) (ocType_refs _ _ _ _ _)
    · simp at hd
  · split at hd
    · simp only [List.mem_cons, List.not_mem_nil, or_false] at hd
      subst hd; exact AllM_nil _
    · simp at hd
  · exact serializerDecls_AllM hself d hd

theorem ocUnionDecls_AllM {api : Api} {ns : Namespace} {u : UnionT} (hns : ns ∈ api.nss)
    (ht : UserT.union u ∈ ns.types) : ∀ d ∈ ocUnionDecls api ns.name u, AllM api d.refs := by
  have haf : ∀ f ∈ unionAllFields api ns.name u, ∀ q ∈ f.ty.userTypes, q ∈ mentioned api :=
    fun f hf q hq => unionAllFields_mentioned hns ht hf hq
  have hself : (⟨ns.name, u.name⟩ : QName) ∈ mentioned api := self_mentioned hns ht
  have hprop : ∀ f ∈ (unionAllFields api ns.name u).filter (! ·.ty.isVoid), AllM api (ocType f.ty true false false true).refs :=
    fun f hf => AllM_of_refOK (haf f (List.mem_filter.mp hf).1) (ocType_refs _ _ _ _ _)
  intro d hd
  simp only [ocUnionDecls, List.mem_cons, List.mem_append, List.mem_map, List.not_mem_nil, or_false] at hd
  rcases hd with (((((((rfl | rfl | ⟨f, _, rfl⟩) | rfl) | ⟨f, hf, rfl⟩) | ⟨f, hf, rfl⟩) | rfl) | ⟨f, _, rfl⟩) | rfl) | hd
  · refine AllM_cons (fun q hq => by simp [TRef.typeQ?] at hq) (AllM_append (AllM_map_nontype fun f => rfl) ?_)
    apply AllM_flatMap
    intro d hd
    obtain ⟨f, hf, rfl⟩ := List.mem_map.mp hd
    exact hprop f hf
  · exact AllM_map_nontype fun f => rfl
  · exact AllM_nil _
  · exact AllM_cons (fun q hq => by simp [TRef.typeQ?] at hq) (AllM_nil _)
  · exact hprop f hf
  · split
    · exact AllM_nil _
    · exact AllM_of_refOK (haf f hf) (ocType_refs _ _ _ _ _)
  · exact AllM_nil _
  · exact AllM_nil _
  · exact AllM_nil _
  · exact serializerDecls_AllM hself d hd

theorem ocRouteObjRefs_AllM {api : Api} {ns : Namespace} {r : Route} (hns : ns ∈ api.nss) (hr : r ∈ ns.routes) :
    AllM api (ocRouteObjRefs r) := by
  obtain ⟨_, hres, he⟩ := route_ty_mentioned hns hr
  unfold ocRouteObjRefs
  refine AllM_append (AllM_append (AllM_append ?_ ?_) ?_) ?_
  · split
    · exact AllM_nil _
    · exact AllM_of_refOK hres (ocClassType_refs _ _)
  · split
    · exact AllM_nil _
    · exact AllM_of_refOK he (ocClassType_refs _ _)
  · split
    · exact AllM_of_refOK hres (ocSerCallRefs_ok _)
    · exact AllM_nil _
  · split
    · exact AllM_of_refOK hres (ocSerCallRefs_ok _)
    · exact AllM_nil _

theorem ocRouteObjDecls_AllM {api : Api} {ns : Namespace} (hns : ns ∈ api.nss) :
    ∀ d ∈ ocRouteObjDecls ns, AllM api d.refs := by
  intro d hd
  unfold ocRouteObjDecls at hd
  split at hd
  · simp at hd
  · simp only [List.mem_append, List.mem_cons, List.mem_flatMap, List.not_mem_nil, or_false] at hd
    rcases hd with (rfl | rfl) | ⟨r, hr, rfl | rfl | rfl⟩
    · exact AllM_map_nontype fun r => rfl
    · exact AllM_nil _
    · exact AllM_nil _
    · exact AllM_nil _
    · exact ocRouteObjRefs_AllM hns hr

theorem objcTypesDecls_AllM (api : Api) : ∀ d ∈ objcTypesDecls api, AllM api d.refs := by
  intro d hd
  simp only [objcTypesDecls, List.mem_flatMap, List.mem_append] at hd
  obtain ⟨ns, hns, hd⟩ := hd
  rcases hd with ⟨t, ht, hd⟩ | hd
  · cases t with
    | struct s => exact ocStructDecls_AllM hns ht d hd
    | union u => exact ocUnionDecls_AllM hns ht d hd
  · exact ocRouteObjDecls_AllM hns d hd

/-! #### obj_c_client -/

theorem ocRouteArgs_AllM {api : Api} {ns : Namespace} {r : Route} (hns : ns ∈ api.nss) (hr : r ∈ ns.routes) (b : Bool) :
    AllM api ((ocRouteArgs api r b).flatMap (·.2.refs)) := by
  obtain ⟨ha, _, _⟩ := route_ty_mentioned hns hr
  unfold ocRouteArgs
  split
  · next q hq =>
    split
    · next s hs =>
      obtain ⟨ns', hns', _, htm, _⟩ := find?_sound hs
      apply AllM_flatMap
      intro p hp
      obtain ⟨f, hf, rfl⟩ := List.mem_map.mp hp
      exact AllM_of_refOK (fun q' hq' => structAllFields_mentioned hns' htm (List.mem_filter.mp hf).1 hq') (ocType_refs _ _ _ _ _)
    · next u hu =>
      split
      · exact AllM_nil _
      · simp only [List.flatMap_cons, List.flatMap_nil, List.append_nil]
        exact AllM_of_refOK ha (ocType_refs _ _ _ _ _)
    · exact AllM_nil _
  · exact AllM_nil _

theorem ocClientMethods_AllM {api : Api} {o : Options} {auth : String} {ns : Namespace} (hns : ns ∈ api.nss) :
    ∀ d ∈ ocClientMethods api o auth ns, AllM api d.refs := by
  intro d hd
  simp only [ocClientMethods, List.mem_flatMap, List.mem_filter] at hd
  obtain ⟨r, ⟨hr, _⟩, v, _, hd⟩ := hd
  obtain ⟨_, hres, he⟩ := route_ty_mentioned hns hr
  have hret : AllM api ((if r.result.isVoid then [] else (ocType r.result).refs) ++
      (if r.error.isVoid then [] else (ocType r.error).refs)) := by
    refine AllM_append ?_ ?_
    · split
      · exact AllM_nil _
      · exact AllM_of_refOK hres (ocType_refs _ _ _ _ _)
    · split
      · exact AllM_nil _
      · exact AllM_of_refOK he (ocType_refs _ _ _ _ _)
  split at hd
  · simp only [List.mem_cons, List.not_mem_nil, or_false] at hd
    rcases hd with rfl | rfl <;> exact AllM_append hret (ocRouteArgs_AllM hns hr _)
  · simp only [List.mem_cons, List.not_mem_nil, or_false] at hd
    subst hd; exact AllM_append hret (ocRouteArgs_AllM hns hr _)

theorem objcClientDecls_AllM (api : Api) (o : Options) : ∀ d ∈ objcClientDecls api o, AllM api d.refs := by
  have hp : ∀ d ∈ (api.nss.filter fun ns => !(ns.routes.filter (ocShould (o.auth.getD "None"))).isEmpty).map (fun ns =>
      ({ unit := "h", kind := "property", scope := [o.className], name := ocVar ns.name ++ "Routes",
         refs := [TRef.ocRoutes ns.name (o.auth.getD "None")] } : Decl)), AllM api d.refs := by
    intro d hd
    obtain ⟨ns, _, rfl⟩ := List.mem_map.mp hd
    exact AllM_cons (fun q hq => by simp [TRef.typeQ?] at hq) (AllM_nil _)
  intro d hd
  simp only [objcClientDecls, List.mem_append, List.mem_flatMap, List.mem_cons, List.not_mem_nil, or_false] at hd
  rcases hd with ((⟨ns, hns, hd⟩ | rfl) | hd) | rfl | rfl
  · unfold ocClientNsDecls at hd
    split at hd
    · simp at hd
    · simp only [List.mem_append, List.mem_cons, List.not_mem_nil, or_false] at hd
      rcases hd with (rfl | rfl | rfl | rfl) | hd
      · exact AllM_flatMap_refs (ocClientMethods_AllM hns)
      · exact AllM_nil _
      · exact AllM_nil _
      · exact AllM_nil _
      · exact ocClientMethods_AllM hns d hd
  · exact AllM_flatMap_refs hp
  · exact hp d hd
  · exact AllM_nil _
  · exact AllM_nil _

/-- every user-type reference of every declaration of every backend names a mentioned type -/
theorem declsOf_AllM (b : Backend) (api : Api) (o : Options) : ∀ d ∈ declsOf b api o, AllM api d.refs := by
  cases b
  · exact swiftTypesDecls_AllM api
  · exact swiftTypesObjcDecls_AllM api
  · exact swiftClientDecls_AllM api o
  · exact swiftClientObjcDecls_AllM api o
  · exact objcTypesDecls_AllM api
  · exact objcClientDecls_AllM api o

end StoneVerif.DeclSwift
