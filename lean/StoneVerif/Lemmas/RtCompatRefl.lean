import StoneVerif.Lemmas.RtCompatTags
/-!
Helper lemmas for C07, part 16: `subB` is reflexive — an environment is an older version of itself under the identity
correspondence.
-/
namespace StoneVerif.Rt.Compat
open StoneVerif.Rt

theorem idOf_mem_struct {env : Env} {c : String} {s : StructDef} (h : env.struct? c = some s) : (c, c) ∈ Rho.idOf env := by
  obtain ⟨hm, hc⟩ := struct?_mem h
  simp only [Rho.idOf, List.mem_append, List.mem_map]
  exact .inl ⟨s, hm, by rw [hc]⟩

theorem idOf_mem_union {env : Env} {c : String} {u : UnionDef} (h : env.union? c = some u) : (c, c) ∈ Rho.idOf env := by
  obtain ⟨hm, hc⟩ := union?_mem h
  simp only [Rho.idOf, List.mem_append, List.mem_map]
  exact .inr ⟨u, hm, by rw [hc]⟩

theorem idOf_diag {env : Env} {p : String × String} (h : p ∈ Rho.idOf env) : p.1 = p.2 := by
  simp only [Rho.idOf, List.mem_append, List.mem_map] at h
  rcases h with ⟨s, _, rfl⟩ | ⟨u, _, rfl⟩ <;> rfl

theorem idOf_wf (env : Env) : (Rho.idOf env).wf = true := by
  simp only [Rho.wf, List.all_eq_true]
  intro p hp q hq
  rw [← idOf_diag hp, ← idOf_diag hq]
  simp

theorem tySub_refl {env : Env} : ∀ (t : PTy), tyWF env t = true → tySub (Rho.idOf env) t t = true := by
  intro t
  induction t with
  | list fl item a b ih =>
    intro h
    simp only [tyWF] at h
    simp [tySub, ih h]
  | map fl k v ihk ihv =>
    intro h
    simp only [tyWF, Bool.and_eq_true] at h
    have hk : tyWF env k = true := by cases k <;> simp_all [tyWF]
    simp [tySub, ihk hk, ihv h.2]
  | struct fl c =>
    intro h
    obtain ⟨s, hs⟩ := tyWF_struct h
    simp [tySub, Rho.rel_iff.mpr (idOf_mem_struct hs)]
  | tree fl c =>
    intro h
    obtain ⟨s, hs⟩ := tyWF_tree h
    simp [tySub, Rho.rel_iff.mpr (idOf_mem_struct hs)]
  | union fl c =>
    intro h
    obtain ⟨u, hu⟩ := tyWF_union h
    simp [tySub, Rho.rel_iff.mpr (idOf_mem_union hu)]
  | _ => intro _; simp [tySub]

theorem structSub_refl {env : Env} (hwf : envWF env = true) {c : String} {s : StructDef} (hs : env.struct? c = some s) :
    structSub (Rho.idOf env) env env c c = true := by
  have hw := struct_wf hwf hs
  have hnd := struct_nodup hw
  unfold structSub
  simp only [hs, Bool.and_eq_true, List.all_eq_true]
  refine ⟨⟨?_, ?_⟩, ?_⟩
  · intro f hf
    rw [find_name_of_mem hnd hf]
    have hty : tyWF env f.ty = true := by
      have := hw
      simp only [StructDef.wf, Bool.and_eq_true, List.all_eq_true] at this
      exact (this.1.1.2 f hf).1
    simp [fieldSub, tySub_refl f.ty hty]
  · intro g hg
    simp [find_name_of_mem hnd hg]
  · cases hsub : s.subtypes with
    | none => rfl
    | some xa =>
      simp only [Bool.and_eq_true, beq_self_eq_true, List.all_eq_true, true_and]
      have hfind : ∀ e ∈ xa, findSub e.1 xa = some e := by
        intro e he
        cases hf : findSub e.1 xa with
        | none => exact absurd rfl (findSub_none' hf e he)
        | some e' =>
          obtain ⟨hm', ht'⟩ := findSub_some' hf
          have hw' := hw
          simp only [StructDef.wf, hsub, Bool.and_eq_true] at hw'
          have hnd2 := (nodupS_iff _).mp hw'.2.2
          have := names_inj_of_nodup (fun (e : SubEntry) => String.intercalate "\x00" e.1) hnd2 e' hm' e he
            (by show String.intercalate "\x00" e'.1 = String.intercalate "\x00" e.1; rw [ht'])
          rw [this]
      refine ⟨?_, ?_⟩
      · intro e he
        rw [hfind e he]
        have : e ∈ s.subtypes.getD [] := by rw [hsub]; exact he
        obtain ⟨d, hd, _⟩ := subtype_entry_wf hw this
        simp [Rho.rel_iff.mpr (idOf_mem_struct hd)]
      · rw [Bool.or_eq_true, List.all_eq_true]
        right
        intro e he
        rw [hfind e he]; rfl
where
  findSub_none' {tags : List String} {xs : List SubEntry} (h : findSub tags xs = none) : ∀ e ∈ xs, e.1 ≠ tags := by
    unfold findSub at h
    intro e he
    have := List.find?_eq_none.mp h e he
    simpa using this
  findSub_some' {tags : List String} {xs : List SubEntry} {e : SubEntry} (h : findSub tags xs = some e) :
      e ∈ xs ∧ e.1 = tags := by
    unfold findSub at h
    exact ⟨List.mem_of_find?_eq_some h, by simpa using List.find?_some h⟩

theorem findTag_self {l : List TagDef} (hnd : nodupS (l.map (·.name)) = true) {t : TagDef} (ht : t ∈ l) :
    findTag t.name l = some t :=
  findTag_of_mem ((nodupS_iff _).mp hnd) ht

theorem unionSub_refl {env : Env} (hwf : envWF env = true) {c : String} {u : UnionDef} (hu : env.union? c = some u) :
    unionSub (Rho.idOf env) env env c c = true := by
  have hw := union_wf hwf hu
  have hnd := union_tags_nodup hw
  unfold unionSub
  simp only [hu, Bool.and_eq_true, beq_self_eq_true, List.all_eq_true, true_and]
  refine ⟨?_, ?_⟩
  · intro t ht
    rw [findTag_self hnd ht]
    have hty : tyWF env t.ty = true := by
      have := hw
      simp only [UnionDef.wf, Bool.and_eq_true, List.all_eq_true] at this
      exact (this.1.1.2 t ht).2
    simp [tySub_refl t.ty hty]
  · simp only [Bool.or_eq_true, List.all_eq_true]
    right
    intro t ht
    rw [findTag_self hnd ht]; rfl

theorem compatEnv_refl {env : Env} (hwf : envWF env = true) : compatEnv (Rho.idOf env) env env = true := by
  simp only [compatEnv, Bool.and_eq_true, idOf_wf, List.all_eq_true, true_and]
  intro p hp
  have hd := idOf_diag hp
  obtain ⟨a, b⟩ := p
  simp only at hd
  subst hd
  simp only [pairOk, Bool.and_eq_true, Bool.or_eq_true]
  have hcls : (env.struct? a).isSome = true ∨ (env.union? a).isSome = true := by
    simp only [Rho.idOf, List.mem_append, List.mem_map, Prod.mk.injEq] at hp
    rcases hp with ⟨s, hs, h1, _⟩ | ⟨u, hu, h1, _⟩
    · left
      simp only [Env.struct?]
      cases hf : env.structs.find? (·.cls == a) with
      | some _ => rfl
      | none =>
        have := List.find?_eq_none.mp hf s hs
        simp [h1] at this
    · right
      simp only [Env.union?]
      cases hf : env.unions.find? (·.cls == a) with
      | some _ => rfl
      | none =>
        have := List.find?_eq_none.mp hf u hu
        simp [h1] at this
  refine ⟨⟨hcls, ?_⟩, ?_⟩
  · cases hs : env.struct? a with
    | none => simp
    | some s => right; exact structSub_refl hwf hs
  · cases hu : env.union? a with
    | none => simp
    | some u => right; exact unionSub_refl hwf hu

end StoneVerif.Rt.Compat
