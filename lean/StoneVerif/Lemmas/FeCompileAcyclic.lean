import StoneVerif.Lemmas.FeCompileEq
set_option linter.unusedSimpArgs false
/-!
Acyclicity of what pass 3 of the compileCore model builds.

* parents: the table of populated types is topologically ordered -- a type is entered after its parent (`Topo`), which
  is what the depth-first population with the visiting set `_resolution_in_progress` guarantees;
* aliases: the targets set so far never contain a cycle through aliases / List / Map / Nullable (`Acyc`): the search of
  `Alias.set_attributes` runs before every new target is entered, and a target, once set, never changes.
-/
namespace StoneVerif.FeCompile

/-- transitive closure -/
inductive Path (R : Key → Key → Prop) : Key → Key → Prop
  | single {a b} : R a b → Path R a b
  | cons {a b c} : R a b → Path R b c → Path R a c

/-- `b` is the parent of `a` -/
def Api.parentEdge (api : Api) (a b : Key) : Prop := (api.type? a).bind (·.parent) = some b

/-- the target of alias `a` mentions alias `b` (directly or inside List / Map / Nullable) -/
def Api.aliasEdge (api : Api) (a b : Key) : Prop := ∃ t, api.alias? a = some t ∧ b ∈ t.aliases

namespace L

/-- reflexive-transitive closure -/
inductive Reach (R : Key → Key → Prop) : Key → Key → Prop
  | refl {a} : Reach R a a
  | cons {a b c} : R a b → Reach R b c → Reach R a c

theorem Reach.trans {R a b c} (h1 : Reach R a b) (h2 : Reach R b c) : Reach R a c := by
  induction h1 with
  | refl => exact h2
  | cons hr _ ih => exact .cons hr (ih h2)

theorem path_toReach {R a b} (h : Path R a b) : Reach R a b := by
  induction h with
  | single hr => exact .cons hr .refl
  | cons hr _ ih => exact .cons hr ih

theorem path_of_edge_reach {R a b c} (he : R a b) (h : Reach R b c) : Path R a c := by
  induction h generalizing a with
  | refl => exact .single he
  | cons hr _ ih => exact .cons he (ih hr)

theorem path_append_reach {R a b c} (h1 : Path R a b) (h2 : Reach R b c) : Path R a c := by
  induction h1 with
  | single hr => exact path_of_edge_reach hr h2
  | cons hr _ ih => exact .cons hr (ih h2)

theorem path_mono {R S : Key → Key → Prop} (h : ∀ a b, R a b → S a b) {a b} (p : Path R a b) : Path S a b := by
  induction p with
  | single hr => exact .single (h _ _ hr)
  | cons hr _ ih => exact .cons (h _ _ hr) ih

/-! ## parents -/

def edgeP (done : List (Key × CType)) (a b : Key) : Prop := (done.lookup a).bind (·.parent) = some b

def Topo : List (Key × CType) → Prop
  | [] => True
  | (k, c) :: rest => (∀ p, c.parent = some p → (rest.lookup p).isSome) ∧ rest.lookup k = none ∧ Topo rest

/-- position counted from the end of the first entry under `k` (0 = absent) -/
def rank : List (Key × CType) → Key → Nat
  | [], _ => 0
  | (k, _) :: rest, x => if x == k then rest.length + 1 else rank rest x

theorem rank_le : ∀ (l : List (Key × CType)) (x : Key), rank l x ≤ l.length
  | [], _ => by simp [rank]
  | (k, _) :: rest, x => by
    simp only [rank, List.length_cons]
    split
    · omega
    · have := rank_le rest x; omega

theorem Topo.edge_target : ∀ {l : List (Key × CType)}, Topo l → ∀ {a b}, edgeP l a b → (l.lookup b).isSome
  | [], _, a, b, h => by simp [edgeP] at h
  | (k, c) :: rest, ht, a, b, h => by
    obtain ⟨hp, hk, hrest⟩ := ht
    unfold edgeP at h
    rw [List.lookup_cons] at h
    have key : (rest.lookup b).isSome := by
      split at h
      · exact hp b (by simpa using h)
      · exact hrest.edge_target (a := a) h
    exact lookup_isSome_cons key

theorem Topo.rank_lt : ∀ {l : List (Key × CType)}, Topo l → ∀ {a b}, edgeP l a b → rank l b < rank l a
  | [], _, a, b, h => by simp [edgeP] at h
  | (k, c) :: rest, ht, a, b, h => by
    obtain ⟨hp, hk, hrest⟩ := ht
    unfold edgeP at h
    rw [List.lookup_cons] at h
    split at h
    · rename_i hak
      have hb := hp b (by simpa using h)
      have hbk : (b == k) = false := by
        rw [beq_eq_false_iff_ne]
        rintro rfl
        rw [hk] at hb; cases hb
      simp only [rank, hak, hbk, ↓reduceIte, Bool.false_eq_true]
      have := rank_le rest b
      omega
    · rename_i hak
      have hb := hrest.edge_target (a := a) h
      have hbk : (b == k) = false := by
        rw [beq_eq_false_iff_ne]
        rintro rfl
        rw [hk] at hb; cases hb
      have hak' : (a == k) = false := by simpa using hak
      simp only [rank, hak', hbk, Bool.false_eq_true, ↓reduceIte]
      exact hrest.rank_lt h

theorem Topo.acyclic {l : List (Key × CType)} (ht : Topo l) (k : Key) : ¬ Path (edgeP l) k k := by
  have : ∀ {a b}, Path (edgeP l) a b → rank l b < rank l a := by
    intro a b p
    induction p with
    | single hr => exact ht.rank_lt hr
    | cons hr _ ih => have := ht.rank_lt hr; omega
  intro p
  have := this p
  omega

theorem setAttributes_spec {fu st key c st'} (h : setAttributes fu st key c = .ok st') :
    st'.done = (key, c) :: st.done ∧ st'.aliases = st.aliases := by
  rw [setAttributes_ok h]; exact ⟨rfl, rfl⟩

theorem structParentOpt_user {E pty p} (h : structParentOpt E pty = .ok (some p)) : pty = some (.user p) := by
  cases pty with
  | none => simp [structParentOpt] at h
  | some t =>
    simp only [structParentOpt] at h
    split at h
    · rename_i k hk
      cases h
      rw [(structParent_ok hk).1]
    · cases h

theorem unionParentOpt_user {E pty parent p} (h : unionParentOpt E pty = .ok parent) (hp : parent.map (·.1) = some p) :
    pty = some (.user p) := by
  cases pty with
  | none => simp [unionParentOpt] at h; subst h; simp at hp
  | some t =>
    simp only [unionParentOpt] at h
    split at h
    · rename_i q hk
      cases h
      obtain ⟨qk, qc⟩ := q
      simp at hp
      subst hp
      rw [(unionParent_ok hk).1]
    · cases h

theorem populateStep_spec {rx E st1 key d pty st'} (h : populateStep rx E st1 key d pty = .ok st') :
    ∃ c, st'.done = (key, c) :: st1.done ∧ st'.aliases = st1.aliases ∧ ∀ p, c.parent = some p → pty = some (.user p) := by
  unfold populateStep at h
  split at h
  · split at h
    · cases h
    · rename_i parent hpar
      split at h
      · cases h
      · obtain ⟨h1, h2⟩ := setAttributes_spec h
        refine ⟨_, h1, h2, ?_⟩
        intro p hp
        simp only at hp
        subst hp
        exact structParentOpt_user hpar
  · split at h
    · cases h
    · rename_i parent hpar
      split at h
      · cases h
      · split at h
        · cases h
        · obtain ⟨h1, h2⟩ := setAttributes_spec h
          refine ⟨_, h1, h2, ?_⟩
          intro p hp
          exact unionParentOpt_user hpar (by simpa [unionCType] using hp)

theorem lookup_append_none {α β} [BEq α] [LawfulBEq α] {l1 l2 : List (α × β)} {k : α} :
    (l1 ++ l2).lookup k = none ↔ l1.lookup k = none ∧ l2.lookup k = none := by
  induction l1 with
  | nil => simp
  | cons p l ih =>
    obtain ⟨a, b⟩ := p
    simp only [List.cons_append, List.lookup_cons]
    split
    · simp
    · exact ih

theorem lookup_none_of_not_mem {α β} [BEq α] [LawfulBEq α] {l : List (α × β)} {k : α} (h : k ∉ l.map (·.1)) :
    l.lookup k = none := by
  induction l with
  | nil => rfl
  | cons p l ih =>
    obtain ⟨a, b⟩ := p
    simp only [List.map_cons, List.mem_cons, not_or] at h
    rw [List.lookup_cons]
    have : (k == a) = false := by simpa using h.1
    simp [this, ih h.2]

theorem wrapNull_user {fu A b t p} (h : wrapNull fu A b t = .ok (.user p)) : t = .user p := by
  have := wrapNull_ok h
  cases b with
  | true => simp at this
  | false => simpa using this.symm

/-- depth-first population keeps the table topologically ordered; it only enters `key` and types outside `prog` -/
theorem populate_topo {rx E} : ∀ (fuel : Nat) {prog st key d st'}, Topo st.done → key ∈ prog →
    st.done.lookup key = none → populate rx E fuel prog st key d = .ok st' →
    Topo st'.done ∧ st'.aliases = st.aliases ∧ (st'.done.lookup key).isSome ∧
      ∃ ext, st'.done = ext ++ st.done ∧ ∀ x, x ∈ ext.map (·.1) → x = key ∨ x ∉ prog
  | 0, _, _, _, _, _, _, _, _, h => by simp [populate] at h
  | fuel + 1, prog, st, key, d, st', ht, hkp, hkn, h => by
    simp only [populate] at h
    split at h
    · obtain ⟨c, h1, h2, h3⟩ := populateStep_spec h
      refine ⟨?_, h2, by simp [h1, List.lookup_cons], [(key, c)], by simp [h1], by simp⟩
      rw [h1]
      simp only [Topo]
      exact ⟨fun p hp => (by cases (h3 p hp)), hkn, ht⟩
    · rename_i r hext
      split at h
      · cases h
      · rename_i t hrt
        split at h
        · cases h
        · rename_i st1 hst1
          split at h
          · cases h
          · rename_i t' ht'
            -- the state after the parent was made sure of
            have hmid : Topo st1.done ∧ st1.aliases = st.aliases ∧ st1.done.lookup key = none ∧
                (∀ p, t = .user p → (st1.done.lookup p).isSome) ∧
                ∃ ext, st1.done = ext ++ st.done ∧ ∀ x, x ∈ ext.map (·.1) → x ≠ key ∧ x ∉ prog := by
              split at hst1
              · rename_i k
                split at hst1
                · rename_i hdone
                  cases hst1
                  exact ⟨ht, rfl, hkn, fun p hp => by cases hp; exact hdone, [], by simp, by simp⟩
                · rename_i hnd
                  split at hst1
                  · cases hst1
                  · rename_i hnp
                    split at hst1
                    · rename_i d' hd'
                      have hkn' : st.done.lookup k = none := by
                        cases hl : st.done.lookup k with
                        | none => rfl
                        | some v => simp [hl] at hnd
                      obtain ⟨ht1, ha1, hs1, ext, he1, he2⟩ :=
                        populate_topo fuel ht (List.mem_cons_self) hkn' hst1
                      have hne : k ≠ key := by
                        rintro rfl
                        exact hnp (by simpa using hkp)
                      have hext : ∀ x, x ∈ ext.map (·.1) → x ≠ key ∧ x ∉ prog := by
                        intro x hx
                        rcases he2 x hx with rfl | hx'
                        · exact ⟨hne, by simpa using hnp⟩
                        · simp only [List.mem_cons, not_or] at hx'
                          exact ⟨fun he => hx'.2 (he ▸ hkp), hx'.2⟩
                      refine ⟨ht1, ha1, ?_, fun p hp => by cases hp; exact hs1, ext, he1, hext⟩
                      rw [he1, lookup_append_none]
                      exact ⟨lookup_none_of_not_mem (fun hm => (hext key hm).1 rfl), hkn⟩
                    · cases hst1
              · rename_i hnu
                cases hst1
                exact ⟨ht, rfl, hkn, fun p hp => absurd hp (hnu p), [], by simp, by simp⟩
            obtain ⟨ht1, ha1, hk1, hpar, ext, he1, he2⟩ := hmid
            obtain ⟨c, h1, h2, h3⟩ := populateStep_spec h
            simp only at h1 h2
            refine ⟨?_, by rw [h2, ha1], by simp [h1, List.lookup_cons], (key, c) :: ext, by simp [h1, he1], ?_⟩
            · rw [h1]
              simp only [Topo]
              refine ⟨?_, hk1, ht1⟩
              intro p hp
              have := h3 p hp
              simp only [Option.some.injEq] at this
              subst this
              exact hpar p (wrapNull_user ht')
            · intro x hx
              simp only [List.map_cons, List.mem_cons] at hx
              rcases hx with rfl | hx
              · exact Or.inl rfl
              · exact Or.inr (he2 x hx).2

/-! ## aliases -/

def edgeA (A : AliasMap) (a b : Key) : Prop := ∃ t, A.lookup a = some t ∧ b ∈ t.aliases

def Acyc (A : AliasMap) : Prop := ∀ k, ¬ Path (edgeA A) k k

theorem anyTri_no {α} {f : α → Tri} : ∀ {l : List α}, anyTri f l = .no → ∀ x, x ∈ l → f x = .no
  | [], _, x, hx => by simp at hx
  | y :: l, h, x, hx => by
    simp only [anyTri] at h
    split at h
    · cases h
    · rename_i hy
      simp only [List.mem_cons] at hx
      rcases hx with rfl | hx
      · exact hy
      · exact anyTri_no h x hx
    · split at h <;> cases h

/-- the search of `Alias.set_attributes` answers `no` only when `self` is not reachable -/
theorem reachK_sound {A : AliasMap} {self} : ∀ (f : Nat) {k}, search (aliasSucc (lookOf A)) self f k = .no →
    ¬ Reach (edgeA A) k self
  | 0, k, h => by simp [search] at h
  | f + 1, k, h => by
    simp only [search] at h
    split at h
    · cases h
    · rename_i hne
      have hne' : k ≠ self := by simpa using hne
      intro hr
      cases hr with
      | refl => exact hne' rfl
      | cons he hrest =>
        obtain ⟨t, hl, hm⟩ := he
        have hs : aliasSucc (lookOf A) k = t.aliases := by simp [aliasSucc, lookOf, hl]
        rw [hs] at h
        exact reachK_sound f (anyTri_no h _ hm) hrest

/-- entering a target under `self` from whose mentions `self` is not reachable creates no cycle -/
theorem Acyc.push {A : AliasMap} {self : Key} {t : Ty} (hA : Acyc A)
    (hno : ∀ m, m ∈ t.aliases → ¬ Reach (edgeA A) m self) : Acyc ((self, t) :: A) := by
  -- edges of nodes other than `self` are unchanged
  have hold : ∀ {x y}, x ≠ self → edgeA ((self, t) :: A) x y → edgeA A x y := by
    intro x y hx ⟨t', hl, hm⟩
    rw [List.lookup_cons] at hl
    have : (x == self) = false := by simpa using hx
    rw [this] at hl
    exact ⟨t', hl, hm⟩
  have hself : ∀ {y}, edgeA ((self, t) :: A) self y → y ∈ t.aliases := by
    intro y ⟨t', hl, hm⟩
    rw [List.lookup_cons] at hl
    simp at hl
    subst hl
    exact hm
  -- R1: reaching `self` in the new graph is reaching it in the old one
  have r1' : ∀ {x z}, Reach (edgeA ((self, t) :: A)) x z → z = self → Reach (edgeA A) x self := by
    intro x z hr
    induction hr with
    | refl => intro hz; subst hz; exact .refl
    | @cons a b c he _ ih =>
      intro hz
      by_cases ha : a = self
      · subst ha; exact .refl
      · exact .cons (hold ha he) (ih hz)
  have r1 : ∀ {x}, Reach (edgeA ((self, t) :: A)) x self → Reach (edgeA A) x self := fun hr => r1' hr rfl
  -- R3: a path of the new graph is a path of the old one or goes through `self`
  have r3 : ∀ {x z}, Path (edgeA ((self, t) :: A)) x z →
      Path (edgeA A) x z ∨ (Reach (edgeA ((self, t) :: A)) x self ∧ Path (edgeA ((self, t) :: A)) self z) := by
    intro x z p
    induction p with
    | @single a b he =>
      by_cases ha : a = self
      · subst ha; exact Or.inr ⟨.refl, .single he⟩
      · exact Or.inl (.single (hold ha he))
    | @cons a b c he p' ih =>
      by_cases ha : a = self
      · subst ha; exact Or.inr ⟨.refl, .cons he p'⟩
      · rcases ih with ih | ⟨ih1, ih2⟩
        · exact Or.inl (.cons (hold ha he) ih)
        · exact Or.inr ⟨.cons he ih1, ih2⟩
  intro k p
  rcases r3 p with p' | ⟨hr, p'⟩
  · exact hA k p'
  · -- a cycle through `self`: self → m →* self
    have pc : Path (edgeA ((self, t) :: A)) self self := path_append_reach p' hr
    cases pc with
    | single he => exact hno _ (hself he) .refl
    | cons he prest => exact hno _ (hself he) (r1 (path_toReach prest))

theorem setAlias_acyc {rx E st ns name r st'} (hA : Acyc st.aliases) (h : setAlias rx E st ns name r = .ok st') :
    Acyc st'.aliases ∧ st'.done = st.done := by
  unfold setAlias at h
  split at h
  · cases h
  · rename_i t _
    split at h
    · cases h
    · cases h
    · rename_i hno
      cases h
      exact ⟨hA.push (fun m hm => reachK_sound _ (anyTri_no hno m hm)), rfl⟩

theorem setAliases_acyc {rx E ns} : ∀ {as : List (String × TRef)} {st st'}, Acyc st.aliases →
    setAliases rx E st ns as = .ok st' → Acyc st'.aliases ∧ st'.done = st.done
  | [], st, st', hA, h => by simp only [setAliases] at h; cases h; exact ⟨hA, rfl⟩
  | (n, r) :: as, st, st', hA, h => by
    simp only [setAliases] at h
    split at h
    · cases h
    · rename_i st1 h1
      obtain ⟨hA1, hd1⟩ := setAlias_acyc hA h1
      obtain ⟨hA2, hd2⟩ := setAliases_acyc hA1 h
      exact ⟨hA2, by rw [hd2, hd1]⟩

theorem populateAll_topo {rx E ns} : ∀ {ds : List TypeDecl} {st st'}, Topo st.done →
    populateAll rx E st ns ds = .ok st' → Topo st'.done ∧ st'.aliases = st.aliases
  | [], st, st', ht, h => by simp only [populateAll] at h; cases h; exact ⟨ht, rfl⟩
  | d :: ds, st, st', ht, h => by
    simp only [populateAll] at h
    split at h
    · exact populateAll_topo ht h
    · rename_i hnd
      split at h
      · cases h
      · rename_i st1 h1
        have hkn : st.done.lookup (ns, d.name) = none := by
          cases hl : st.done.lookup (ns, d.name) with
          | none => rfl
          | some v => simp [hl] at hnd
        obtain ⟨ht1, ha1, _, _⟩ := populate_topo _ ht (List.mem_singleton.mpr rfl) hkn h1
        obtain ⟨ht2, ha2⟩ := populateAll_topo ht1 h
        exact ⟨ht2, by rw [ha2, ha1]⟩

theorem pass3Nss_acyc {rx E} : ∀ {nss : List String} {st st'}, Topo st.done → Acyc st.aliases →
    pass3Nss rx E st nss = .ok st' → Topo st'.done ∧ Acyc st'.aliases
  | [], st, st', ht, hA, h => by simp only [pass3Nss] at h; cases h; exact ⟨ht, hA⟩
  | ns :: nss, st, st', ht, hA, h => by
    simp only [pass3Nss] at h
    split at h
    · cases h
    · rename_i st1 h1
      split at h
      · cases h
      · rename_i st2 h2
        obtain ⟨hA1, hd1⟩ := setAliases_acyc hA h1
        obtain ⟨ht2, ha2⟩ := populateAll_topo (by rw [hd1]; exact ht) h2
        exact pass3Nss_acyc ht2 (by rw [ha2]; exact hA1) h

theorem pass3_acyc {rx E st} (h : pass3 rx E = .ok st) : Topo st.done ∧ Acyc st.aliases := by
  unfold pass3 at h
  split at h
  · cases h
  · rename_i st0 h0
    split at h
    · cases h
    · cases h
      refine pass3Nss_acyc (st := {}) trivial ?_ h0
      intro k p
      cases p with
      | single he => obtain ⟨_, hl, _⟩ := he; simp at hl
      | cons he _ => obtain ⟨_, hl, _⟩ := he; simp at hl

/-! ## from the tables to the Api -/

theorem typesOut_lookup {st ns} : ∀ {tds : List TypeDecl} {types}, typesOut st ns tds = .ok types →
    ∀ n c, types.lookup n = some c → st.done.lookup (ns, n) = some c
  | [], types, h, n, c, hl => by simp only [typesOut] at h; cases h; simp at hl
  | d :: tds, types, h, n, c, hl => by
    simp only [typesOut] at h
    split at h
    · cases h
    · rename_i c0 hc0
      split at h
      · cases h
      · rename_i cs hcs
        cases h
        rw [List.lookup_cons] at hl
        split at hl
        · rename_i hn
          cases hl
          rw [beq_iff_eq] at hn
          subst hn
          exact hc0
        · exact typesOut_lookup hcs n c hl

theorem aliasesOut_lookup {st ns} : ∀ {as : List (String × TRef)} {out}, aliasesOut st ns as = .ok out →
    ∀ n t, out.lookup n = some t → st.aliases.lookup (ns, n) = some t
  | [], out, h, n, t, hl => by simp only [aliasesOut] at h; cases h; simp at hl
  | (a, r) :: as, out, h, n, t, hl => by
    simp only [aliasesOut] at h
    split at h
    · cases h
    · rename_i t0 ht0
      split at h
      · cases h
      · rename_i ts hts
        cases h
        rw [List.lookup_cons] at hl
        split at hl
        · rename_i hn
          cases hl
          rw [beq_iff_eq] at hn
          subst hn
          exact ht0
        · exact aliasesOut_lookup hts n t hl

theorem assemble_mem {E st en} : ∀ {L : List (String × List CRoute)} {outs}, assemble E st en L = .ok outs →
    ∀ o, o ∈ outs → typesOut st o.name (typeDecls (declsOf E.files o.name)) = .ok o.types ∧
      aliasesOut st o.name (aliasDecls (declsOf E.files o.name)) = .ok o.aliases
  | [], outs, h, o, ho => by simp only [assemble] at h; cases h; simp at ho
  | (ns, routes) :: L, outs, h, o, ho => by
    simp only [assemble] at h
    split at h
    · cases h
    · rename_i types htypes
      split at h
      · cases h
      · rename_i aliases haliases
        split at h
        · cases h
        · rename_i outs' houts
          cases h
          simp only [List.mem_cons] at ho
          rcases ho with rfl | ho
          · exact ⟨htypes, haliases⟩
          · exact assemble_mem houts o ho

/-- the tables behind a compiled Api -/
theorem compile_tables {rx fs api} (h : compileCore rx fs = .ok api) :
    ∃ st : St, Topo st.done ∧ Acyc st.aliases ∧
      (∀ k c, api.type? k = some c → st.done.lookup k = some c) ∧
      (∀ k t, api.alias? k = some t → st.aliases.lookup k = some t) := by
  unfold compileCore at h
  split at h
  · cases h
  · rename_i E _
    unfold compileEnv at h
    split at h
    · cases h
    · rename_i st hst
      split at h
      · cases h
      · split at h
        · cases h
        · rename_i en _
          split at h
          · cases h
          · rename_i routes _
            split at h
            · cases h
            · rename_i nss hnss
              cases h
              obtain ⟨ht, hA⟩ := pass3_acyc hst
              have hfind : ∀ {n : String} {o : NsOut}, nss.find? (fun x => x.name == n) = some o → o ∈ nss ∧ o.name = n := by
                intro n o hf
                exact ⟨List.mem_of_find?_eq_some hf, by simpa using List.find?_some hf⟩
              refine ⟨st, ht, hA, ?_, ?_⟩
              · intro k c hk
                unfold Api.type? Api.ns? at hk
                simp only at hk
                cases hf : nss.find? (fun x => x.name == k.1) with
                | none => simp [hf] at hk
                | some o =>
                  simp [hf] at hk
                  obtain ⟨hm, hn⟩ := hfind hf
                  have := typesOut_lookup (assemble_mem hnss o hm).1 k.2 c hk
                  rw [hn] at this
                  exact this
              · intro k t hk
                unfold Api.alias? Api.ns? at hk
                simp only at hk
                cases hf : nss.find? (fun x => x.name == k.1) with
                | none => simp [hf] at hk
                | some o =>
                  simp [hf] at hk
                  obtain ⟨hm, hn⟩ := hfind hf
                  have := aliasesOut_lookup (assemble_mem hnss o hm).2 k.2 t hk
                  rw [hn] at this
                  exact this

theorem compile_acyclic {rx fs api} (h : compileCore rx fs = .ok api) :
    (∀ k, ¬ Path api.parentEdge k k) ∧ (∀ k, ¬ Path api.aliasEdge k k) := by
  obtain ⟨st, ht, hA, htype, halias⟩ := compile_tables h
  refine ⟨fun k p => ht.acyclic k (path_mono ?_ p), fun k p => hA k (path_mono ?_ p)⟩
  · intro a b he
    unfold Api.parentEdge at he
    unfold edgeP
    cases hc : api.type? a with
    | none => simp [hc] at he
    | some c => simp [hc] at he; simp [htype a c hc, he]
  · intro a b ⟨t, ht', hm⟩
    exact ⟨t, halias a t ht', hm⟩

end L
end StoneVerif.FeCompile
