import StoneVerif.Lemmas.DeclPyBody
namespace StoneVerif.DeclPy

/-! ## Loading a module -/

theorem lookup_pyModules {api : Api} (hapi : apiWF api = true) {ns : Namespace} (hns : ns ∈ api.namespaces) :
    (pyModules api).lookup (modName ns) = some (pyTypesStmts api ns) := by
  have hnd := (nodup_names_of_apiWF hapi).2
  unfold pyModules
  suffices H : ∀ (l : List Namespace), (l.map modName).Nodup → ns ∈ l →
      (l.map fun ns => (fmtNamespace ns.name, pyTypesStmts api ns)).lookup (modName ns)
        = some (pyTypesStmts api ns) from H _ hnd hns
  intro l
  induction l with
  | nil => intro _ h; simp at h
  | cons x xs ih =>
    intro hnd hmem
    simp only [List.map_cons, List.nodup_cons] at hnd
    simp only [List.map_cons, List.lookup_cons]
    rcases List.mem_cons.mp hmem with rfl | hmem
    · simp [modName]
    · have hne : (modName ns == fmtNamespace x.name) = false := by
        simp only [beq_eq_false_iff_ne, ne_eq]
        intro h
        exact hnd.1 (List.mem_map.mpr ⟨ns, hmem, h⟩)
      simp only [hne]
      exact ih hnd.2 hmem

theorem all_notImp_of_noGlobal {l : List Stmt} (hl : l.all noGlobal = true) : l.all (fun s => !s.isImp) = true := by
  rw [List.all_eq_true] at hl ⊢
  intro s hs
  have := hl s hs
  cases s <;> simp_all [noGlobal, Stmt.isImp]

theorem body_noimp (api : Api) (ns : Namespace) : ∀ s ∈ bodyStmts api ns, s.isImp = false := by
  have h : (bodyStmts api ns).all (fun s => !s.isImp) = true := by
    simp only [bodyStmts, List.all_append, Bool.and_eq_true]
    refine ⟨?_, ?_, ?_, ?_, ?_, ?_⟩
    · simp [annStmts, annTypeStmts, List.all_flatMap, Stmt.isImp]
    · simp only [classStmts, List.all_flatMap]
      rw [List.all_eq_true]
      intro d _; split <;> simp [structClassStmts, unionClassStmts, Stmt.isImp]
    · simp only [aliasSection, List.all_flatMap]
      rw [List.all_eq_true]
      intro a _
      simp only [aliasStmts, List.all_append, Bool.and_eq_true]
      refine ⟨⟨by simp [Stmt.isImp], by split <;> simp [Stmt.isImp]⟩, ?_⟩
      split
      · split <;> simp [Stmt.isImp]
      · rfl
    · simp only [reflStmts, List.all_flatMap]
      rw [List.all_eq_true]
      intro d _
      split
      · exact all_notImp_of_noGlobal (structRefl_noGlobal api ns.name d)
      · exact all_notImp_of_noGlobal (unionRefl_noGlobal api ns.name d)
    · simp only [defaultSection, List.all_flatMap]
      rw [List.all_eq_true]
      intro d _
      split
      · exact all_notImp_of_noGlobal (defaults_noGlobal ns.name d)
      · rfl
    · simp [routeStmts, List.all_append, List.all_map, Stmt.isImp, Function.comp_def]
  rw [List.all_eq_true] at h
  intro s hs
  simpa using h s hs

/-- modules among `l` not yet in `sys.modules` -/
def unstartedIn (l : List Name) (st : St) : Nat := (l.filter fun m => !st.started.contains m).length

theorem unstartedIn_mono {st st' : St} (h : ∀ m ∈ st.started, m ∈ st'.started) :
    ∀ (l : List Name), unstartedIn l st' ≤ unstartedIn l st
  | [] => by simp [unstartedIn]
  | x :: xs => by
    have ih := unstartedIn_mono h xs
    simp only [unstartedIn, List.filter_cons] at ih ⊢
    by_cases h1 : st'.started.contains x = true
    · simp only [h1, Bool.not_true, Bool.false_eq_true, if_false]
      split
      · simp only [List.length_cons]; omega
      · exact ih
    · have h1' : st'.started.contains x = false := by simpa using h1
      have h2 : st.started.contains x = false := by
        cases h2 : st.started.contains x with
        | false => rfl
        | true =>
          have := h x (by simpa using h2)
          simp only [List.contains_eq_mem, decide_eq_false_iff_not] at h1'
          exact absurd this h1'
      simp only [h1', h2, Bool.not_false, if_true, List.length_cons]
      omega

theorem unstartedIn_lt {st st' : St} {m : Name} (hnot : m ∉ st.started) (hin : m ∈ st'.started)
    (h : ∀ m ∈ st.started, m ∈ st'.started) : ∀ (l : List Name), m ∈ l → unstartedIn l st' < unstartedIn l st
  | [], hm => by simp at hm
  | x :: xs, hm => by
    have hmono := unstartedIn_mono h xs
    simp only [unstartedIn, List.filter_cons] at hmono ⊢
    by_cases hx : x = m
    · subst hx
      have h1 : st'.started.contains x = true := by simpa using hin
      have h2 : st.started.contains x = false := by simpa using hnot
      simp only [h1, h2, Bool.not_true, Bool.false_eq_true, if_false, Bool.not_false, if_true, List.length_cons]
      omega
    · have hm' : m ∈ xs := by
        rcases List.mem_cons.mp hm with h | h
        · exact absurd h.symm hx
        · exact h
      have ih := unstartedIn_lt hnot hin h xs hm'
      simp only [unstartedIn] at ih
      by_cases h1 : st'.started.contains x = true
      · simp only [h1, Bool.not_true, Bool.false_eq_true, if_false]
        split
        · simp only [List.length_cons]; omega
        · exact ih
      · have h1' : st'.started.contains x = false := by simpa using h1
        have h2 : st.started.contains x = false := by
          cases h2 : st.started.contains x with
          | false => rfl
          | true =>
            have := h x (by simpa using h2)
            simp only [List.contains_eq_mem, decide_eq_false_iff_not] at h1'
            exact absurd this h1'
        simp only [h1', h2, Bool.not_false, if_true, List.length_cons]
        omega

/-- modules of the package not yet in `sys.modules` -/
def unstarted (api : Api) (st : St) : Nat := unstartedIn (api.namespaces.map modName) st

end StoneVerif.DeclPy
