import StoneVerif.Lemmas.RtDecodeSound2
/-! Soundness of the RT decoder, part 3: the entry point `json_compat_obj_decode`. -/
namespace StoneVerif.Rt.DecL

theorem validPrim_withFlags (E : Ext) (t : PTy) (fl : Flags) (v : PyVal) :
    validPrim E (t.withFlags fl) v = validPrim E t v := by
  cases t <;> cases v <;> rfl

theorem isPrimTy_withFlags (t : PTy) (fl : Flags) : isPrimTy (t.withFlags fl) = isPrimTy t := by
  cases t <;> rfl

/-- the entry point's conversion + validation of a primitive yields a valid value -/
theorem makeStoneFriendly_sound (E : Ext) (env : Env) (perms : List String) (strict : Bool) (t : PTy) (j : JVal)
    (v : PyVal) (hp : isPrimTy t = true)
    (h : makeStoneFriendly E env perms strict true t j = .ok v) : validB E env t v = true := by
  rw [validB_prim E env t v hp]
  have key : validPrim E t v = true := by
    cases t <;> simp only [isPrimTy, Bool.false_eq_true] at hp
    case ts fl fmt =>
      simp only [makeStoneFriendly] at h
      repeat' split at h
      all_goals first
        | (simp [verr] at h; done)
        | (cases h; rfl)
    case bytes fl =>
      simp only [makeStoneFriendly] at h
      repeat' split at h
      all_goals first
        | (simp [verr] at h; done)
        | (cases h; rfl)
    case void fl =>
      simp only [makeStoneFriendly] at h
      repeat' split at h
      all_goals first
        | (simp [verr] at h; done)
        | (cases h; rfl)
    all_goals
      simp only [makeStoneFriendly, if_true] at h
      split at h
      · cases h
      · rename_i x' hv
        cases h
        have hs := (validate_sound E env _ (pyOfJson j) x' (by simp [Pre, PTy.withFlags]) hv).1
        rw [validB_prim E env _ _ (by rfl)] at hs
        simp only [PTy.withFlags, PTy.flags, Bool.false_and, Bool.false_or] at hs
        rw [← hs]
        cases (pyOfJson j) <;> rfl
  simp [key]


/-- `json_compat_obj_decode` returns a valid value -/
theorem jsonCompatObjDecode_valid (E : Ext) (env : Env) (perms : List String) (strict : Bool)
    (hwf : envWF env = true) (hff : fieldFlagsWF env = true)
    (hcat : strict = true ∨ noCatchAllTrees env = true)
    (hvis : visibleTagsPublic env perms = true)
    (t : PTy) (j : JVal) (v : PyVal) (ht : tyWF env t = true)
    (h : jsonCompatObjDecode E env perms strict t j = .ok v) : validB E env t v = true := by
  have hpre := decode_pre E env perms strict hwf hff hcat hvis j t ht
  unfold jsonCompatObjDecode at h
  by_cases hn : t.flags.nullable = true
  · -- Nullable(...): decoded, then validated as a whole
    simp only [hn, Bool.not_true, Bool.false_and, Bool.false_eq_true, if_false, Bool.true_or, if_true] at h
    split at h
    · cases h
    · rename_i v0 hd
      exact (validate_sound E env t v0 v (hpre v0 hd) h).2
  · have hn' : t.flags.nullable = false := by simpa using hn
    cases t <;> simp only [PTy.flags] at hn' <;>
      simp only [PTy.flags, hn', Bool.not_false, Bool.true_and, Bool.false_or, if_true, Bool.false_eq_true,
        if_false] at h
    case list fl item a b =>
      split at h
      · cases h
      · rename_i v0 hd
        exact (validate_sound E env _ v0 v (hpre v0 hd) h).2
    case map fl kt vt =>
      split at h
      · cases h
      · rename_i v0 hd
        exact (validate_sound E env _ v0 v (hpre v0 hd) h).2
    case struct fl c =>
      split at h
      · cases h
      · rename_i v0 hd; cases h; exact hpre v hd
    case tree fl c =>
      split at h
      · cases h
      · rename_i v0 hd; cases h; exact hpre v hd
    case union fl c =>
      split at h
      · cases h
      · rename_i v0 hd; cases h; exact hpre v hd
    all_goals exact makeStoneFriendly_sound E env perms strict _ j v rfl h

end StoneVerif.Rt.DecL
