import StoneVerif.Lemmas.DeclPyReflStructC
namespace StoneVerif.DeclPy

/-- part C: the enumerated-subtypes tables -/
theorem sSubs_ok {api : Api} (hapi : apiWF api = true) {ns : Namespace} (hns : ns ∈ api.namespaces) {st : St}
    (hwf : StWF st) (hctx : Ctx api st ns) (hcls : ∀ d ∈ ns.types, ClassOK api st ns d)
    (hals : ∀ a ∈ ns.aliases, AliasOK api st ns a)
    {pre : List DataType} {d : DataType} (hd : d ∈ ns.types) (htw : typeWF api ns pre d = true) :
    ∃ st', Steps st (modName ns) (sSubs ns.name d) st' := by
  by_cases hsub : d.hasSubtypes = true
  · simp only [sSubs, hsub, if_true]
    have hok := hcls d hd
    have hcA : ClsAt st (modName ns) (fmtClass d.name) (clsId ns.name d.name) := hok.clsAt
    have rC : ∀ st', Le st st' → Ready st' (modName ns) (here (fmtClass d.name)) :=
      fun st' hle => ready_cls (hle.glob _ _ _ hcA.glob)
    have rV : ∀ r ∈ d.subtypes.flatMap (fun (sns, sn) => tyRefs ns.name (.user sns sn)), Ready st (modName ns) r := by
      intro r hr
      obtain ⟨⟨sns, sn⟩, hmem, hr⟩ := List.mem_flatMap.mp hr
      obtain ⟨rfl, s, hs, hsn⟩ := typeWF_subtype_mem hapi hns htw hmem
      simp only [tyRefs, List.mem_singleton] at hr; subst hr
      obtain ⟨v, hv⟩ := isSome_get (hcls s hs).validator
      rw [hsn] at hv
      exact ⟨v, resolves_qual hapi hctx (fun _ => hv) (fun h => absurd rfl h),
        fun a ha => by rw [qual_attr] at ha; exact absurd ha (by simp)⟩
    have rCls : ∀ r ∈ d.subtypes.map (fun (_, sn) => here (fmtClass sn)), Ready st (modName ns) r := by
      intro r hr
      obtain ⟨⟨sns, sn⟩, hmem, rfl⟩ := List.mem_map.mp hr
      obtain ⟨_, s, hs, hsn⟩ := typeWF_subtype_mem hapi hns htw hmem
      have := (hcls s hs).glob
      rw [hsn] at this
      exact ready_cls this
    obtain ⟨st1, hs1, _⟩ := assign_on_class (a := "_tag_to_subtype_")
      (uses := here (fmtClass d.name) :: d.subtypes.flatMap fun (sns, sn) => tyRefs ns.name (.user sns sn)) hwf hcA
      (fun r hr => by
        rcases List.mem_cons.mp hr with rfl | hr
        · exact rC st (Le.refl _)
        · exact rV r hr)
    obtain ⟨st2, hs2, _⟩ := assign_on_class (a := "_pytype_to_tag_and_subtype_")
      (uses := here (fmtClass d.name) :: (d.subtypes.map fun (_, sn) => here (fmtClass sn))
        ++ d.subtypes.flatMap fun (sns, sn) => tyRefs ns.name (.user sns sn)) hs1.wf (hcA.mono hs1.le)
      (fun r hr => by
        simp only [List.cons_append, List.mem_cons, List.mem_append] at hr
        rcases hr with rfl | hr | hr
        · exact rC st1 hs1.le
        · exact (rCls r hr).mono hs1.le
        · exact (rV r hr).mono hs1.le)
    have hle2 := hs1.le.trans hs2.le
    obtain ⟨st3, hs3, _⟩ := assign_on_class (a := "_is_catch_all_") (uses := [here (fmtClass d.name)]) hs2.wf (hcA.mono hle2)
      (fun r hr => by simp only [List.mem_singleton] at hr; subst hr; exact rC st2 hle2)
    exact ⟨st3, hs1.cons (hs2.cons hs3)⟩
  · simp only [sSubs, hsub, Bool.false_eq_true, if_false]
    exact ⟨st, Steps.nil hwf⟩

/-- the reflection block of a struct -/
theorem struct_refl_item {api : Api} (hapi : apiWF api = true) {ns : Namespace} (hns : ns ∈ api.namespaces)
    {st : St} (hwf : StWF st) (hctx : Ctx api st ns) (hcls : ∀ d ∈ ns.types, ClassOK api st ns d)
    (hals : ∀ a ∈ ns.aliases, AliasOK api st ns a) {pre post : List DataType} {d : DataType}
    (hsplit : ns.types = pre ++ d :: post) (hprer : ∀ y ∈ pre, ReflOK api st ns y) (hs : d.isStruct = true) :
    ∃ st', Steps st (modName ns) (structReflStmts api ns.name d) st' ∧ ReflOK api st' ns d := by
  have hd : d ∈ ns.types := by rw [hsplit]; simp
  have htw := typeWF_at hapi hns hsplit
  rw [structRefl_eq]
  -- A
  obtain ⟨stA, hsA, hA⟩ := sFieldVals_ok hapi hns hwf hctx hcls hals hd htw hs
  -- B
  have hngB : ((sCallers api d).flatMap (sCallerBody api ns.name d)).flatMap Stmt.globals = [] := by
    apply flatMap_globals_of_noGlobal
    have := structRefl_noGlobal api ns.name d
    rw [structRefl_eq, List.all_append, List.all_append, Bool.and_eq_true, Bool.and_eq_true] at this
    exact this.1.2
  obtain ⟨stB, hsB, hB⟩ := steps_flatMap' (α := Option Name) (sCallerBody api ns.name d) (modName ns)
    (fun st => Ctx api st ns ∧ (∀ d ∈ ns.types, ClassOK api st ns d) ∧ (∀ y ∈ pre, ReflOK api st ns y)
      ∧ ∀ f ∈ d.fields, HasA st (clsId ns.name d.name) (fmtVar f.name ++ ".validator"))
    (fun oc st => HasA st (clsId ns.name d.name) ("_all" ++ callerPrefix oc ++ "_field_names_")
      ∧ HasA st (clsId ns.name d.name) ("_all" ++ callerPrefix oc ++ "_fields_")
      ∧ (isTreeMember api d = true → (oc = none ∨ ∃ x, oc = some x ∧ x ∈ d.ownCallers) →
          HasA st (clsId ns.name d.name) (callerPrefix oc ++ "_field_names_")))
    (fun hle h => ⟨h.1.mono hle, fun d hd => (h.2.1 d hd).mono hle, fun y hy => (h.2.2.1 y hy).mono hle,
      fun f hf => hle.hasA (h.2.2.2 f hf)⟩)
    (fun hle h => ⟨hle.hasA h.1, hle.hasA h.2.1, fun h1 h2 => hle.hasA (h.2.2 h1 h2)⟩)
    (sCallers api d)
    (by
      intro pre' oc post' hsp st hwf ⟨hctx, hcls, hprer, hA⟩ _ _
      exact sCallerBody_ok hapi hns hwf hctx hcls hsplit hprer hs hA (by rw [hsp]; simp))
    (by rw [hngB]; exact List.nodup_nil) stA hsA.wf
    ⟨hctx.mono hsA.le, fun d hd => (hcls d hd).mono hsA.le, fun y hy => (hprer y hy).mono hsA.le, hA⟩
    (by rw [hngB]; intro n hn; simp at hn)
  have hleB := hsA.le.trans hsB.le
  -- C
  obtain ⟨stC, hsC⟩ := sSubs_ok hapi hns hsB.wf (hctx.mono hleB) (fun d hd => (hcls d hd).mono hleB)
    (fun a ha => (hals a ha).mono hleB) hd htw
  refine ⟨stC, (hsA.append hsB).append hsC, ?_, ?_, fun h => by rw [hs] at h; exact absurd h (by simp)⟩
  · intro _ oc hcaller
    have hmem : oc ∈ sCallers api d := by
      rw [mem_sCallers]
      rcases hcaller with h | ⟨x, rfl, hx⟩
      · exact Or.inl h
      · refine Or.inr ⟨x, rfl, ?_⟩
        rcases hx with hx | hx
        · exact Or.inl hx
        · exact Or.inr (mem_dedup.mpr hx)
    exact ⟨hsC.le.hasA (hB oc hmem).1, hsC.le.hasA (hB oc hmem).2.1⟩
  · intro _ hsub oc hown
    have hmem : oc ∈ sCallers api d := by
      rw [mem_sCallers]
      rcases hown with h | ⟨x, rfl, hx⟩
      · exact Or.inl h
      · exact Or.inr ⟨x, rfl, Or.inl hx⟩
    have htree : isTreeMember api d = true := by simp [isTreeMember, hsub]
    exact hsC.le.hasA ((hB oc hmem).2.2 htree hown)

end StoneVerif.DeclPy
