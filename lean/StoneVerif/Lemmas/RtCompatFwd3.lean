import StoneVerif.Lemmas.RtCompatFwd2
/-!
Helper lemmas for C07, part 8: unions — the lenient decoder of the older spec on a document the newer spec's decoder
accepts: unknown tags fall to the catch-all, payloads of tags that are Void in the older spec are ignored, everything
else is decoded member by member.
-/
namespace StoneVerif.Rt.Compat
open StoneVerif.Rt

theorem isVoidTy_eq (t : PTy) : isVoidTy t = isVoidT t := by cases t <;> rfl

theorem view_union (ρ : Rho) (A : Env) (fl : Flags) (cls c tag : String) (p : PyVal) :
    view ρ A (.union fl cls) (.union c tag p) =
      match publicTag? A cls tag with
      | some td => if isVoidT td.ty then .union cls tag .none else .union cls tag (view ρ A td.ty p)
      | none => .union cls ((catchAllOf A cls).getD tag) .none := by
  conv => lhs; unfold view
  simp only []
  cases publicTag? A cls tag <;> rfl

theorem view_union_known (ρ : Rho) (A : Env) (fl : Flags) {cls tag : String} {td : TagDef} (c : String) (p : PyVal)
    (h : publicTag? A cls tag = some td) :
    view ρ A (.union fl cls) (.union c tag p) =
      if isVoidT td.ty then .union cls tag .none else .union cls tag (view ρ A td.ty p) := by
  rw [view_union, h]

theorem view_union_unknown (ρ : Rho) (A : Env) (fl : Flags) {cls tag : String} (c : String) (p : PyVal)
    (h : publicTag? A cls tag = none) :
    view ρ A (.union fl cls) (.union c tag p) = .union cls ((catchAllOf A cls).getD tag) .none := by
  rw [view_union, h]

theorem of_ite_verr {c : Prop} [Decidable c] {s : String} {x : R PyVal} {w : PyVal}
    (h : (if c then verr s else x) = .ok w) : ¬c ∧ x = .ok w := by
  by_cases hc : c <;> simp_all [verr]

theorem view_withFlags (ρ : Rho) (A : Env) (t : PTy) (fl : Flags) (v : PyVal) :
    view ρ A (t.withFlags fl) v = view ρ A t v := by
  cases v <;> cases t <;> (unfold view; rfl)

theorem tyWF_withFlags {env : Env} {t : PTy} (h : tyWF env t = true) (hv : isVoidT t = false) :
    tyWF env (t.withFlags {}) = true := by
  cases t <;> simp_all [tyWF, PTy.withFlags, isVoidT]

theorem mkUnion_shape (E : Ext) {env : Env} {cls tag : String} {x w : PyVal} (h : mkUnion E env cls tag x = .ok w) :
    ∃ p, w = .union cls tag p := by
  cases hu : env.union? cls with
  | none => simp [mkUnion, hu, crash] at h
  | some u =>
    cases hc : u.ctorValidator tag with
    | none => simp [mkUnion, hu, hc, verr] at h
    | some t =>
      rw [mkUnion_eq E env cls tag x hu hc] at h
      by_cases h1 : (!t.flags.nullable && isVoidT t) = true
      · simp only [h1, if_true] at h
        by_cases hx : isNoneV x = true
        · simp only [hx, if_true, Except.ok.injEq] at h; exact ⟨_, h.symm⟩
        · simp [hx, verr] at h
      · simp only [h1, Bool.false_eq_true, if_false] at h
        by_cases h2 : (!t.flags.nullable && isUserT t) = true
        · simp only [h2, if_true] at h
          cases hv : validateTypeOnly env t x with
          | error e => simp [hv, Except.map] at h
          | ok u' => simp only [hv, Except.map, Except.ok.injEq] at h; exact ⟨_, h.symm⟩
        · simp only [h2, Bool.false_eq_true, if_false] at h
          cases hv : validate E env t x with
          | error e => simp [hv, Except.map] at h
          | ok u' => simp only [hv, Except.map, Except.ok.injEq] at h; exact ⟨_, h.symm⟩

/-- the lenient fall-back of A for a tag it does not list -/
theorem decode_union_catchAll (E : Ext) {ρ : Rho} {A B : Env} (cx : Ctx ρ A B) {c c' : String} {ua : UnionDef}
    (hua : A.union? c = some ua) {ca : String} (hca : catchAllOf A c = some ca) :
    mkUnion E A c ((ua.catchAll).getD "") .none = .ok (.union c ca .none) := by
  have : ua.catchAll = some ca := by simpa [catchAllOf, hua] using hca
  obtain ⟨td, htd, fl, hty, _⟩ := catchAll_tag cx.wfA hca
  rw [this]
  exact mkUnion_void E cx.wfA hua htd (by simp [hty, isVoidT])

/-! ### `decode_union` / `decode_union_dict`, one equation per case (caller without permissions) -/

section unfold
variable (E : Ext) {env : Env} (hwf : envWF env = true) (strict : Bool) (fl : Flags) {cls : String} {u : UnionDef}
  (hu : env.union? cls = some u)
include hwf hu

theorem decode_union_str_unknown {tag : String} (ht : publicTag? env cls tag = none) :
    decode E env [] strict (.union fl cls) (.str tag) =
      if !strict && u.catchAll.isSome then mkUnion E env cls (u.catchAll.getD "") .none else verr "unknown tag" := by
  unfold decode
  simp [PTy.flags, hu, (tag_lookup hwf hu tag).1, ht]

theorem decode_union_str_known {tag : String} {td : TagDef} (ht : publicTag? env cls tag = some td) :
    decode E env [] strict (.union fl cls) (.str tag) =
      if !(isVoidT td.ty || td.ty.flags.nullable) then verr "expected object, got symbol"
      else if some tag == u.catchAll then verr "unexpected use of the catch-all tag"
      else mkUnion E env cls tag .none := by
  unfold decode
  simp [PTy.flags, hu, (tag_lookup hwf hu tag).1, (tag_lookup hwf hu tag).2, ht, isVoidTy_eq]

theorem decode_union_obj_unknown {kvs : List (String × JVal)} {tag : String} (hk : jsonLookup ".tag" kvs = some (.str tag))
    (ht : publicTag? env cls tag = none) :
    decode E env [] strict (.union fl cls) (.obj kvs) =
      if !strict && u.catchAll.isSome then mkUnion E env cls (u.catchAll.getD "") .none else verr "unknown tag" := by
  unfold decode
  simp [PTy.flags, hu, hk, (tag_lookup hwf hu tag).1, ht]

theorem decode_union_obj_catchAll {kvs : List (String × JVal)} {tag : String} (hk : jsonLookup ".tag" kvs = some (.str tag))
    {td : TagDef} (ht : publicTag? env cls tag = some td) (hc : (some tag == u.catchAll) = true) :
    decode E env [] strict (.union fl cls) (.obj kvs) = verr "unexpected use of the catch-all tag" := by
  unfold decode
  simp [PTy.flags, hu, hk, (tag_lookup hwf hu tag).1, ht, hc]

theorem decode_union_obj_void {kvs : List (String × JVal)} {tag : String} (hk : jsonLookup ".tag" kvs = some (.str tag))
    {td : TagDef} (ht : publicTag? env cls tag = some td) (hc : (some tag == u.catchAll) = false)
    (hv : isVoidT td.ty = true) :
    decode E env [] strict (.union fl cls) (.obj kvs) =
      if strict && ((match jsonLookup tag kvs with | some .null | none => false | some _ => true) ||
          kvs.any fun (k, _) => k != tag && k != ".tag") then verr "unexpected key / expected null"
      else mkUnion E env cls tag .none := by
  unfold decode
  simp only [PTy.flags, hu, hk, (tag_lookup hwf hu tag).1, (tag_lookup hwf hu tag).2, ht, hc, isVoidTy_eq, hv,
    Bool.and_false, Bool.false_eq_true, if_false, Option.isSome_some, Bool.not_true, Option.map_some, if_true]
  rfl

theorem decode_union_obj_struct {kvs : List (String × JVal)} {tag : String} (hk : jsonLookup ".tag" kvs = some (.str tag))
    {td : TagDef} (ht : publicTag? env cls tag = some td) (hc : (some tag == u.catchAll) = false)
    {sfl : Flags} {sc : String} (hq : td.ty = .struct sfl sc) :
    decode E env [] strict (.union fl cls) (.obj kvs) =
      if sfl.nullable && kvs.length == 1 then mkUnion E env cls tag .none
      else match finishStruct E env [] strict sc kvs (decodeMembers E env [] strict (structTable env sc) kvs) with
        | .ok v => mkUnion E env cls tag v
        | .error e => .error e := by
  obtain ⟨tn, tty, tom⟩ := td
  simp only at hq
  subst hq
  have hmt : memberTable env [] strict (.union fl cls) kvs = structTable env sc := by
    simp only [memberTable, hk, hu, (tag_lookup hwf hu tag).1, (tag_lookup hwf hu tag).2, ht, isPlainStruct,
      memberTable.memberTableStruct, Option.isSome_some, Bool.not_true, Bool.false_eq_true, if_false, Option.map_some, if_true]
    cases hsc : env.struct? sc <;> simp [structTable, publicFields, hsc, fieldsFor_nil]
  unfold decode
  simp only [PTy.flags, hu, hk, (tag_lookup hwf hu tag).1, (tag_lookup hwf hu tag).2, ht, hc, isVoidTy_eq, isVoidT,
    isPlainStruct, hmt, Bool.and_false, Bool.false_eq_true, if_false, Option.isSome_some, Bool.not_true, Option.map_some, if_true]
  rfl

/-- the payload slot of a tag whose value sits under the tag's name -/
def payloadOf (r : Option (R PyVal)) (hasKey nullable : Bool) : R PyVal :=
  match r with
  | some r => r
  | none => if hasKey then crash "Unreachable" else if nullable then .ok .none else verr "missing tag key"

theorem decode_union_obj_nested {kvs : List (String × JVal)} {tag : String} (hk : jsonLookup ".tag" kvs = some (.str tag))
    {td : TagDef} (ht : publicTag? env cls tag = some td) (hc : (some tag == u.catchAll) = false)
    (hv : isVoidT td.ty = false) (hp : isPlainStruct td.ty = false) :
    decode E env [] strict (.union fl cls) (.obj kvs) =
      match payloadOf (childLookup tag (decodeMembers E env [] strict [(tag, td.ty.withFlags {})] kvs))
          (jsonLookup tag kvs).isSome td.ty.flags.nullable with
      | .error e => .error e
      | .ok v => if kvs.any fun (k, _) => k != tag && k != ".tag" then verr "unexpected key" else mkUnion E env cls tag v := by
  have hmt : memberTable env [] strict (.union fl cls) kvs = [(tag, td.ty.withFlags {})] := by
    simp [memberTable, hk, hu, (tag_lookup hwf hu tag).1, (tag_lookup hwf hu tag).2, ht, hp]
  unfold decode
  simp only [PTy.flags, hu, hk, (tag_lookup hwf hu tag).1, (tag_lookup hwf hu tag).2, ht, hc, isVoidTy_eq, hv, hp, hmt,
    Bool.and_false, Bool.false_eq_true, if_false, Option.isSome_some, Bool.not_true, Option.map_some, if_true, payloadOf]
  rfl

end unfold

/-! ### the union cases of the simulation -/

section sim
variable (E : Ext) {ρ : Rho} {A B : Env} (cx : Ctx ρ A B) {c c' : String} {ua ub : UnionDef}
  (hua : A.union? c = some ua) (hub : B.union? c' = some ub) (hcaEq : ua.catchAll = ub.catchAll)
include cx hua hub hcaEq

/-- neither side lists the tag: both fall back to the (same) catch-all -/
theorem union_fallback_both (f : Flags) (sB : Bool) (w : PyVal)
    (h : (if !sB && ub.catchAll.isSome then mkUnion E B c' (ub.catchAll.getD "") .none else verr "unknown tag") = .ok w) :
    (if !false && ua.catchAll.isSome then mkUnion E A c (ua.catchAll.getD "") .none else verr "unknown tag") =
      .ok (view ρ A (.union f c) w) := by
  have hcaA : catchAllOf A c = ua.catchAll := by simp [catchAllOf, hua]
  have hcaB : catchAllOf B c' = ub.catchAll := by simp [catchAllOf, hub]
  by_cases hcs : (!sB && ub.catchAll.isSome) = true
  · simp only [hcs, if_true] at h
    simp only [Bool.and_eq_true, Bool.not_eq_true'] at hcs
    obtain ⟨caB, hcaB'⟩ := Option.isSome_iff_exists.mp hcs.2
    obtain ⟨td, htd, fl, hty, _⟩ := catchAll_tag cx.wfB (hcaB.trans hcaB')
    rw [hcaB', Option.getD_some, mkUnion_void E cx.wfB hub htd (by simp [hty, isVoidT])] at h
    cases h
    have hcaA' : catchAllOf A c = some caB := by rw [hcaA, hcaEq, hcaB']
    obtain ⟨tdA, htdA, flA, htyA, _⟩ := catchAll_tag cx.wfA hcaA'
    simp only [Bool.not_false, Bool.true_and, hcaEq, hcs.2, if_true]
    rw [← hcaEq, decode_union_catchAll E cx (c' := c') hua hcaA', view_union_known ρ A f _ _ htdA]
    simp [htyA, isVoidT]
  · simp [hcs, verr] at h

/-- B lists the tag, A does not: A falls back to its catch-all, which is the A-view of whatever B built -/
theorem union_fallback_A (f : Flags) {tag : String} (htA : publicTag? A c tag = none) (hsome : (catchAllOf A c).isSome = true)
    (p : PyVal) :
    (if !false && ua.catchAll.isSome then mkUnion E A c (ua.catchAll.getD "") .none else verr "unknown tag") =
      .ok (view ρ A (.union f c) (.union c' tag p)) := by
  have hcaA : catchAllOf A c = ua.catchAll := by simp [catchAllOf, hua]
  obtain ⟨ca, hca⟩ := Option.isSome_iff_exists.mp hsome
  rw [hcaA] at hsome
  simp only [Bool.not_false, Bool.true_and, hsome, if_true]
  rw [decode_union_catchAll E cx (c' := c') hua hca, view_union_unknown ρ A f _ _ htA, hca]
  rfl

end sim

/-! ### documents without anything unknown, at a union -/

theorem knownDoc_union_str (A : Env) (fl : Flags) (c tag : String) :
    knownDoc A (.union fl c) (.str tag) = (publicTag? A c tag).isSome := by
  unfold knownDoc; rfl

theorem isVoidT_union (fl : Flags) (c : String) : isVoidT (.union fl c) = false := rfl

theorem knownDoc_union_unknown (A : Env) (fl : Flags) (c : String) {kvs : List (String × JVal)} {tag : String}
    (hk : jsonLookup ".tag" kvs = some (.str tag)) (ht : publicTag? A c tag = none) :
    knownDoc A (.union fl c) (.obj kvs) = false := by
  unfold knownDoc
  simp only [isVoidT_union, Bool.false_eq_true, if_false, hk, ht]

theorem knownDoc_union_void (A : Env) (fl : Flags) (c : String) {kvs : List (String × JVal)} {tag : String} {td : TagDef}
    (hk : jsonLookup ".tag" kvs = some (.str tag)) (ht : publicTag? A c tag = some td) (hv : isVoidT td.ty = true) :
    knownDoc A (.union fl c) (.obj kvs) =
      kvs.all fun kx => kx.1 == ".tag" || (kx.1 == tag && (match kx.2 with | .null => true | _ => false)) := by
  unfold knownDoc
  simp only [isVoidT_union, Bool.false_eq_true, if_false, hk, ht, hv, if_true]
  rfl

theorem knownDoc_union_struct (A : Env) (fl : Flags) (c : String) {kvs : List (String × JVal)} {tag : String} {td : TagDef}
    (hk : jsonLookup ".tag" kvs = some (.str tag)) (ht : publicTag? A c tag = some td) {sfl : Flags} {sc : String}
    (hq : td.ty = .struct sfl sc) :
    knownDoc A (.union fl c) (.obj kvs) = knownMembers A (structTable A sc) kvs := by
  have hv : isVoidT td.ty = false := by rw [hq]; rfl
  unfold knownDoc
  simp only [isVoidT_union, Bool.false_eq_true, if_false, hk, ht, hv]
  rw [hq]

theorem knownDoc_union_nested (A : Env) (fl : Flags) (c : String) {kvs : List (String × JVal)} {tag : String} {td : TagDef}
    (hk : jsonLookup ".tag" kvs = some (.str tag)) (ht : publicTag? A c tag = some td)
    (hv : isVoidT td.ty = false) (hp : isPlainStruct td.ty = false) :
    knownDoc A (.union fl c) (.obj kvs) = knownMembers A [(tag, td.ty.withFlags {})] kvs := by
  unfold knownDoc
  simp only [isVoidT_union, Bool.false_eq_true, if_false, hk, ht, hv]
  cases hq : td.ty <;> simp_all [isPlainStruct]

/-- only the discriminator, or the tag's own key with `null`: the strict check of a Void tag passes -/
theorem void_strict_ok (tag : String) (htag : tag ≠ ".tag") : ∀ (kvs : List (String × JVal)),
    (kvs.all fun kx => kx.1 == ".tag" || (kx.1 == tag && (match kx.2 with | .null => true | _ => false))) = true →
    ((match jsonLookup tag kvs with | some .null | none => false | some _ => true) ||
      kvs.any fun (k, _) => k != tag && k != ".tag") = false
  | [], _ => rfl
  | (k, x) :: rest, h => by
    simp only [List.all_cons, Bool.and_eq_true] at h
    have ih := void_strict_ok tag htag rest h.2
    simp only [Bool.or_eq_false_iff] at ih
    by_cases hk : k = tag
    · subst hk
      have hx : x = .null := by
        have h1 := h.1
        have : (k == ".tag") = false := by simpa using htag
        simp only [this, Bool.false_or, beq_self_eq_true, Bool.true_and] at h1
        cases x <;> simp_all
      subst hx
      simp [jsonLookup, ih.2]
    · have hne : (k == tag) = false := by simpa using hk
      have hdot : k = ".tag" := by
        have h1 := h.1
        simpa [hne] using h1
      subst hdot
      simp only [jsonLookup, hne]
      simp [ih.1, ih.2]

theorem publicTag_ne_dotTag {env : Env} (hwf : envWF env = true) {cls tag : String} {td : TagDef}
    (h : publicTag? env cls tag = some td) : tag ≠ ".tag" := by
  unfold publicTag? at h
  cases hu : env.union? cls with
  | none => simp [hu] at h
  | some u =>
    simp only [hu] at h
    obtain ⟨hm, hn⟩ := findTag_some_mem h
    have hw := union_wf hwf hu
    simp only [UnionDef.wf, Bool.and_eq_true, List.all_eq_true] at hw
    rw [tagsSpec_nil] at hm
    have := (hw.1.1.2 td (List.mem_filter.mp hm).1).1.1
    intro hc
    rw [← hn] at hc
    rw [hc] at this
    simp at this

theorem decode_union_sub (E : Ext) {ρ : Rho} {A B : Env} (cx : Ctx ρ A B) {f g : Flags} {c c' : String}
    (hr : ρ.rel c c' = true) {ua : UnionDef} (hua : A.union? c = some ua) (j : JVal) (sA sB : Bool) (w : PyVal)
    (hnn : (g.nullable && isNullJ j) = false)
    (hIH : ∀ kvs, j = .obj kvs → MembersIH E ρ A B sA sB kvs)
    (hk : sA = true → knownDoc A (.union f c) j = true)
    (h : decode E B [] sB (.union g c') j = .ok w) :
    decode E A [] sA (.union f c) j = .ok (view ρ A (.union f c) w) := by
  obtain ⟨ub, hub, hcaEq, _, _⟩ := unionSub_inv (compat_union cx.compat hr hua) hua
  have hT := tagsRel cx hr hua
  have hcaA : catchAllOf A c = ua.catchAll := by simp [catchAllOf, hua]
  have hnotA : ∀ tag, publicTag? B c' tag = none → publicTag? A c tag = none := by
    intro tag htB
    cases htA : publicTag? A c tag with
    | none => rfl
    | some tdA =>
      obtain ⟨tdB, h1, _⟩ := hT.known tag tdA htA
      rw [htB] at h1; cases h1
  cases j with
  | str tag =>
    rw [knownDoc_union_str] at hk
    cases htB : publicTag? B c' tag with
    | none =>
      have htA := hnotA tag htB
      have hsA : sA = false := by
        cases sA with
        | false => rfl
        | true => have := hk rfl; simp [htA] at this
      subst hsA
      rw [decode_union_str_unknown E cx.wfB sB g hub htB] at h
      rw [decode_union_str_unknown E cx.wfA false f hua htA]
      exact union_fallback_both E cx hua hub hcaEq f sB w h
    | some tdB =>
      rw [decode_union_str_known E cx.wfB sB g hub htB] at h
      by_cases hvn : (!(isVoidT tdB.ty || tdB.ty.flags.nullable)) = true
      · simp [hvn, verr] at h
      · by_cases hnc : (some tag == ub.catchAll) = true
        · simp [hvn, hnc, verr] at h
        · simp only [hvn, hnc, Bool.false_eq_true, if_false] at h
          simp only [Bool.not_eq_true, Bool.not_eq_false', Bool.or_eq_true] at hvn
          simp only [Bool.not_eq_true] at hnc
          obtain ⟨p, hw⟩ := mkUnion_shape E h
          subst hw
          cases htA : publicTag? A c tag with
          | none =>
            have hsA : sA = false := by
              cases sA with
              | false => rfl
              | true => have := hk rfl; simp [htA] at this
            subst hsA
            rw [decode_union_str_unknown E cx.wfA false f hua htA]
            exact union_fallback_A E cx hua hub hcaEq f htA (hT.fresh tag tdB htA htB) p
          | some tdA =>
            rw [decode_union_str_known E cx.wfA sA f hua htA, hcaEq, hnc]
            obtain ⟨tdB', h1, hty⟩ := hT.known tag tdA htA
            rw [htB] at h1; cases h1
            rcases hty with hty | ⟨hvoid, _⟩
            · have hn := tySub_nullable hty
              have hvd := tySub_isVoid hty
              have hp : p = .none := by
                rcases hvn with hv | hv
                · rw [mkUnion_void E cx.wfB hub htB hv] at h; cases h; rfl
                · rw [mkUnion_none_nullable E cx.wfB hub htB hv] at h; cases h; rfl
              subst hp
              rw [view_union_known ρ A f _ _ htA, view_none, hvd, hn]
              rcases hvn with hv | hv
              · rw [mkUnion_void E cx.wfA hua htA (hvd ▸ hv)]; simp [hv]
              · rw [mkUnion_none_nullable E cx.wfA hua htA (hn ▸ hv)]
                simp only [hv, Bool.or_true, Bool.not_true, Bool.false_eq_true, if_false]
                split <;> rfl
            · rw [mkUnion_void E cx.wfA hua htA hvoid, view_union_known ρ A f _ _ htA]
              simp [hvoid]
  | obj kvs =>
    have hIH' := hIH kvs rfl
    cases ht : jsonLookup ".tag" kvs with
    | none => unfold decode at h; simp [ht, hub, PTy.flags, verr] at h
    | some tv =>
      cases tv with
      | str tag =>
        cases htB : publicTag? B c' tag with
        | none =>
          have htA := hnotA tag htB
          have hsA : sA = false := by
            cases sA with
            | false => rfl
            | true => have := hk rfl; simp [knownDoc_union_unknown A f c ht htA] at this
          subst hsA
          rw [decode_union_obj_unknown E cx.wfB sB g hub ht htB] at h
          rw [decode_union_obj_unknown E cx.wfA false f hua ht htA]
          exact union_fallback_both E cx hua hub hcaEq f sB w h
        | some tdB =>
          by_cases hnc : (some tag == ub.catchAll) = true
          · rw [decode_union_obj_catchAll E cx.wfB sB g hub ht htB hnc] at h
            simp [verr] at h
          · simp only [Bool.not_eq_true] at hnc
            have hncA : (some tag == ua.catchAll) = false := by rw [hcaEq]; exact hnc
            -- whatever B builds carries the tag
            have hshape : ∃ p, w = .union c' tag p := by
              by_cases hv : isVoidT tdB.ty = true
              · rw [decode_union_obj_void E cx.wfB sB g hub ht htB hnc hv] at h
                exact mkUnion_shape E (of_ite_verr h).2
              · simp only [Bool.not_eq_true] at hv
                by_cases hp : isPlainStruct tdB.ty = true
                · cases hq : tdB.ty <;> simp [hq, isPlainStruct] at hp
                  rw [decode_union_obj_struct E cx.wfB sB g hub ht htB hnc hq] at h
                  split at h
                  · exact mkUnion_shape E h
                  · split at h
                    · exact mkUnion_shape E h
                    · cases h
                · simp only [Bool.not_eq_true] at hp
                  rw [decode_union_obj_nested E cx.wfB sB g hub ht htB hnc hv hp] at h
                  split at h
                  · cases h
                  · split at h
                    · cases h
                    · exact mkUnion_shape E h
            cases htA : publicTag? A c tag with
            | none =>
              have hsA : sA = false := by
                cases sA with
                | false => rfl
                | true => have := hk rfl; simp [knownDoc_union_unknown A f c ht htA] at this
              subst hsA
              obtain ⟨p, hw⟩ := hshape
              subst hw
              rw [decode_union_obj_unknown E cx.wfA false f hua ht htA]
              exact union_fallback_A E cx hua hub hcaEq f htA (hT.fresh tag tdB htA htB) p
            | some tdA =>
              obtain ⟨tdB', h1, hty⟩ := hT.known tag tdA htA
              rw [htB] at h1; cases h1
              -- the strict check of a Void tag of A, when A is strict
              have hvoidA : isVoidT tdA.ty = true →
                  decode E A [] sA (.union f c) (.obj kvs) = mkUnion E A c tag .none := by
                intro hvA
                rw [decode_union_obj_void E cx.wfA sA f hua ht htA hncA hvA]
                cases sA with
                | false => simp
                | true =>
                  have := hk rfl
                  rw [knownDoc_union_void A f c ht htA hvA] at this
                  simp [void_strict_ok tag (publicTag_ne_dotTag cx.wfA htA) kvs this]
              rcases hty with hty | ⟨hvoid, _⟩
              · have hn := tySub_nullable hty
                have hvd := tySub_isVoid hty
                have hwA := (publicTag_tyWF cx.wfA htA).1
                by_cases hv : isVoidT tdB.ty = true
                · -- Void on both sides
                  rw [decode_union_obj_void E cx.wfB sB g hub ht htB hnc hv] at h
                  rw [hvoidA (hvd ▸ hv)]
                  have h := (of_ite_verr h).2
                  rw [mkUnion_void E cx.wfB hub htB hv] at h
                  cases h
                  rw [view_union_known ρ A f _ _ htA]
                  simp [hvd, hv, mkUnion_void E cx.wfA hua htA (hvd ▸ hv)]
                · simp only [Bool.not_eq_true] at hv
                  have hvA : isVoidT tdA.ty = false := hvd ▸ hv
                  by_cases hp : isPlainStruct tdB.ty = true
                  · -- ordinary struct member: flattened next to the tag
                    cases hqB : tdB.ty <;> simp [hqB, isPlainStruct] at hp
                    rename_i gB scB
                    cases hqA : tdA.ty <;> simp [hqA, hqB, tySub] at hty
                    rename_i fA scA
                    rw [decode_union_obj_struct E cx.wfB sB g hub ht htB hnc hqB] at h
                    rw [decode_union_obj_struct E cx.wfA sA f hua ht htA hncA hqA, hty.1]
                    rw [knownDoc_union_struct A f c ht htA hqA] at hk
                    have htySub : tySub ρ tdA.ty tdB.ty = true := by rw [hqA, hqB]; simp [tySub, hty]
                    by_cases hlen : (gB.nullable && kvs.length == 1) = true
                    · simp only [hlen, if_true] at h ⊢
                      have hnB : tdB.ty.flags.nullable = true := by
                        simp only [Bool.and_eq_true] at hlen; simp [hqB, PTy.flags, hlen.1]
                      rw [mkUnion_none_nullable E cx.wfB hub htB hnB] at h
                      cases h
                      rw [mkUnion_none_nullable E cx.wfA hua htA (hn ▸ hnB), view_union_known ρ A f _ _ htA]
                      simp [hvA, view_none]
                    · simp only [hlen, Bool.false_eq_true, if_false] at h ⊢
                      obtain ⟨sa', hsa'⟩ : ∃ sa', A.struct? scA = some sa' := tyWF_struct (hqA ▸ hwA)
                      obtain ⟨sb', hsb'⟩ := struct_related cx hty.2 hsa'
                      have hrel := fieldsRel_public cx.compat cx.wfA cx.wfB hty.2 hsa'
                      cases hfin : finishStruct E B [] sB scB kvs (decodeMembers E B [] sB (structTable B scB) kvs) with
                      | error e => simp [hfin] at h
                      | ok v =>
                        simp only [hfin] at h
                        obtain ⟨slotsB, hvw, hA⟩ := finishStruct_sub E cx hsa' hsb' hrel.common kvs
                          (children_struct cx hIH' hk hrel.common) sA sB v hk hfin
                        obtain ⟨hw, hmk⟩ := mkUnion_sub E cx hua hub htA htB htySub v w h
                        rw [hA]
                        simp only []
                        rw [hqA, hvw, view_struct_struct] at hmk
                        rw [hmk, hw, view_union_known ρ A f _ _ htA, hqA, hvw, view_struct_struct]
                        simp [isVoidT]
                  · -- every other kind of member: nested under the tag's name
                    simp only [Bool.not_eq_true] at hp
                    have hpA : isPlainStruct tdA.ty = false := by
                      cases hqA : tdA.ty <;> cases hqB : tdB.ty <;> simp_all [tySub, isPlainStruct]
                    rw [decode_union_obj_nested E cx.wfB sB g hub ht htB hnc hv hp] at h
                    rw [decode_union_obj_nested E cx.wfA sA f hua ht htA hncA hvA hpA]
                    rw [knownDoc_union_nested A f c ht htA hvA hpA] at hk
                    have hcr := hIH' [(tag, tdA.ty.withFlags {})] [(tag, tdB.ty.withFlags {})] tag
                      (tdA.ty.withFlags {}) (tdB.ty.withFlags {}) hk (by simp) (by simp) (tySub_withFlags hty)
                      (tyWF_withFlags hwA hvA)
                    unfold ChildRel at hcr
                    cases hpl : payloadOf (childLookup tag (decodeMembers E B [] sB [(tag, tdB.ty.withFlags {})] kvs))
                        (jsonLookup tag kvs).isSome tdB.ty.flags.nullable with
                    | error e => simp [hpl] at h
                    | ok v =>
                      simp only [hpl] at h
                      have hplA : payloadOf (childLookup tag (decodeMembers E A [] sA [(tag, tdA.ty.withFlags {})] kvs))
                          (jsonLookup tag kvs).isSome tdA.ty.flags.nullable = .ok (view ρ A tdA.ty v) := by
                        unfold payloadOf at hpl ⊢
                        cases hcl : childLookup tag (decodeMembers E B [] sB [(tag, tdB.ty.withFlags {})] kvs) with
                        | some r =>
                          simp only [hcl] at hpl hcr
                          subst hpl
                          simp only [] at hcr
                          rw [hcr, view_withFlags]
                        | none =>
                          simp only [hcl] at hpl hcr
                          rw [hcr, hn]
                          simp only []
                          split at hpl
                          · cases hpl
                          · rename_i hk'
                            simp only [hk', Bool.false_eq_true, if_false]
                            split at hpl
                            · rename_i hnl
                              cases hpl
                              simp [hnl, view_none]
                            · cases hpl
                      rw [hplA]
                      simp only []
                      split at h
                      · cases h
                      · rename_i hany
                        obtain ⟨hw, hmk⟩ := mkUnion_sub E cx hua hub htA htB hty v w h
                        simp only [hany, Bool.false_eq_true, if_false]
                        rw [hmk, hw, view_union_known ρ A f _ _ htA]
                        simp [hvA]
              · -- Void in A, typed in B: A ignores whatever else the object holds (when lenient), or finds it bare
                obtain ⟨p, hw⟩ := hshape
                subst hw
                rw [hvoidA hvoid]
                rw [mkUnion_void E cx.wfA hua htA hvoid, view_union_known ρ A f _ _ htA]
                simp [hvoid]
      | _ => unfold decode at h; simp [ht, hub, PTy.flags, verr] at h
  | null => unfold decode at h; simp [hub, PTy.flags, verr, isNullJ] at h hnn; simp [hnn] at h
  | _ => unfold decode at h; simp [hub, PTy.flags, verr] at h

end StoneVerif.Rt.Compat
