import StoneVerif.Lemmas.RtCompatWire
/-!
Helper lemmas for C07, part 17: on the wire form of a good value of the older spec, the message-level `nvrDoc` says what
the value-level `noVoidToRequired` says.  Same induction as part 16.
-/
namespace StoneVerif.Rt.Compat
open StoneVerif.Rt
open StoneVerif.Rt.RoundTrip (Good good_induct isLeaf slotImage)

theorem noVoidToRequired_none (ρ : Rho) (A B : Env) (t : PTy) : noVoidToRequired ρ A B t .none = true := by
  unfold noVoidToRequired; rfl

theorem noVoidToRequired_leaf (ρ : Rho) (A B : Env) (t : PTy) {v : PyVal} (hl : isLeaf v = true) :
    noVoidToRequired ρ A B t v = true := by
  cases v <;> simp [isLeaf] at hl <;> (unfold noVoidToRequired; rfl)

theorem voidToRequired_nonvoid (ρ : Rho) {A : Env} (B : Env) {cls tag : String} {td : TagDef}
    (htd : publicTag? A cls tag = some td) (hv : isVoidT td.ty = false) : voidToRequired ρ A B cls tag = false := by
  simp [voidToRequired, htd, hv]

theorem noVoidToRequired_union (ρ : Rho) {A : Env} (B : Env) (fl : Flags) {cls tag : String} (c : String) (payload : PyVal)
    {td : TagDef} (htd : publicTag? A cls tag = some td) :
    noVoidToRequired ρ A B (.union fl cls) (.union c tag payload) =
      if isVoidT td.ty = true then !voidToRequired ρ A B cls tag else noVoidToRequired ρ A B td.ty payload := by
  rw [noVoidToRequired]
  simp only [htd]
  by_cases hv : isVoidT td.ty = true
  · simp only [hv, if_true, voidToRequired, htd, Bool.true_and]
    cases (ρ.toB cls).bind fun cb => publicTag? B cb tag <;> simp
  · simp only [hv, if_false]
    simp

theorem nvrMembers_tag_cons {ρ : Rho} {A B : Env} {fields : List FieldDef} (h : ∀ f ∈ fields, f.name ≠ ".tag") (x : JVal)
    (rest : List (String × JVal)) :
    nvrMembers ρ A B (tableOf fields) ((".tag", x) :: rest) = nvrMembers ρ A B (tableOf fields) rest := by
  simp only [nvrMembers, tableOf_find_tag h, Bool.true_and]

/-- the members of a struct instance against its slots -/
theorem nvrMembers_pick {E : Ext} {ρ : Rho} {A B : Env} {fields : List FieldDef} {slots : List (String × PyVal)}
    (hnds : (slots.map (·.1)).Nodup)
    (ih : ∀ k x f, (k, x) ∈ slots → fields.find? (·.name == k) = some f →
      nvrDoc ρ A B f.ty (wire E A f.ty x) = noVoidToRequired ρ A B f.ty x) :
    nvrMembers ρ A B (tableOf fields) (pick fields (wireSlots E A fields slots)) = nvSlots ρ A B fields slots := by
  rw [Bool.eq_iff_iff, nvrMembers_iff, nvSlots_iff]
  constructor
  · rintro h ⟨k, x⟩ hx
    simp only
    cases hf : fields.find? (·.name == k) with
    | none => rfl
    | some f =>
      simp only
      by_cases hn : isNoneV x = true
      · cases x <;> simp [isNoneV] at hn
        exact noVoidToRequired_none ρ A B _
      · have := h _ (pick_wire_mem (E := E) (A := A) hnds hx hf (by simpa using hn))
        simp only [tableOf_find, hf, Option.map_some] at this
        rw [← ih k x f hx hf]; exact this
  · rintro h ⟨k, j⟩ hkj
    obtain ⟨f, x, hf, hx, _, rfl⟩ := mem_pick_wire hnds hkj
    simp only [tableOf_find, hf, Option.map_some]
    have := h _ hx
    simp only [hf] at this
    rw [ih k x f hx hf]; exact this

theorem nvrDoc_wire_leaf {E : Ext} (ρ : Rho) {A : Env} (B : Env) (t : PTy) (v : PyVal) (g : Good E A t v)
    (hl : isLeaf v = true) : nvrDoc ρ A B t (wire E A t v) = noVoidToRequired ρ A B t v := by
  rw [noVoidToRequired_leaf ρ A B t hl]
  have h1 := g.valid
  cases v <;> simp [isLeaf] at hl <;> cases t <;>
    simp [validB, validPrim, isNoneV, PTy.flags, wire] at h1 ⊢ <;> (unfold nvrDoc; rfl)

theorem nvrDoc_wire_union {E : Ext} (ρ : Rho) {A : Env} (B : Env) (hwf : envWF A = true) {fl : Flags} {cls c tag : String}
    {payload : PyVal} {td : TagDef} (htd : publicTag? A cls tag = some td) (gp : Good E A td.ty payload)
    (ihp : nvrDoc ρ A B td.ty (wire E A td.ty payload) = noVoidToRequired ρ A B td.ty payload) :
    nvrDoc ρ A B (.union fl cls) (wire E A (.union fl cls) (.union c tag payload)) =
      noVoidToRequired ρ A B (.union fl cls) (.union c tag payload) := by
  have htag : tag ≠ ".tag" := RoundTrip.ne_tag_of_not_dot (RoundTrip.publicTag_facts hwf htd).2.1
  have htag' : (tag == ".tag") = false := by simpa using htag
  rw [RoundTrip.wire_union E A htd, noVoidToRequired_union ρ B fl c payload htd]
  by_cases h1 : (isVoidT td.ty || isNoneV payload) = true
  · rw [if_pos h1]
    by_cases hv : isVoidT td.ty = true
    · rw [nvrDoc_union_void ρ A B fl cls (jsonLookup_tag_cons _ _) htd hv, if_pos hv]
    · rw [if_neg hv]
      have hv : isVoidT td.ty = false := by simpa using hv
      have hpn : payload = .none := by
        simp only [hv, Bool.false_or] at h1
        cases payload <;> simp [isNoneV] at h1
        rfl
      subst hpn
      rw [noVoidToRequired_none]
      by_cases hp : isPlainStruct td.ty = true
      · cases htt : td.ty <;> simp [htt, isPlainStruct] at hp
        rw [nvrDoc_union_struct ρ A B fl cls (jsonLookup_tag_cons _ _) htd htt, structTable_tableOf,
          nvrMembers_tag_cons (publicFields_ne_tag hwf _), voidToRequired_nonvoid ρ B htd hv]
        rfl
      · have hp : isPlainStruct td.ty = false := by simpa using hp
        rw [nvrDoc_union_nested ρ A B fl cls (jsonLookup_tag_cons _ _) htd hv hp, voidToRequired_nonvoid ρ B htd hv]
        simp [nvrMembers, htag']
  · rw [if_neg h1]
    simp only [Bool.or_eq_true, not_or, Bool.not_eq_true] at h1
    have hvv : ¬ isVoidT td.ty = true := by simp [h1.1]
    rw [if_neg hvv]
    by_cases hp : isPlainStruct td.ty = true
    · rw [if_pos hp]
      cases htt : td.ty <;> simp [htt, isPlainStruct] at hp
      rename_i sfl sc
      rw [htt] at gp ihp
      obtain ⟨slots, rfl⟩ := RoundTrip.good_at_struct_inv gp h1.2
      simp only [wire] at ihp ⊢
      rw [nvrDoc_struct_obj] at ihp
      rw [nvrDoc_union_struct ρ A B fl cls (jsonLookup_tag_cons _ _) htd htt, structTable_tableOf,
        nvrMembers_tag_cons (publicFields_ne_tag hwf _), voidToRequired_nonvoid ρ B htd h1.1]
      rw [structTable_tableOf] at ihp
      simpa using ihp
    · rw [if_neg hp]
      have hp : isPlainStruct td.ty = false := by simpa using hp
      rw [nvrDoc_union_nested ρ A B fl cls (jsonLookup_tag_cons _ _) htd h1.1 hp, voidToRequired_nonvoid ρ B htd h1.1]
      simp [nvrMembers, htag', nvrDoc_withFlags, ihp]

/-- the message-level predicate on the wire form is the value-level predicate -/
theorem nvrDoc_wire {E : Ext} (ρ : Rho) {A : Env} (B : Env) (hwf : envWF A = true) (t : PTy) (v : PyVal)
    (h : Good E A t v) : nvrDoc ρ A B t (wire E A t v) = noVoidToRequired ρ A B t v := by
  refine good_induct hwf (fun t v => nvrDoc ρ A B t (wire E A t v) = noVoidToRequired ρ A B t v)
    (nvrDoc_wire_leaf ρ B) ?_ ?_ ?_ ?_ ?_ t v h
  · intro fl item mn mx xs _ ih
    rw [noVoidToRequired]
    simp only [wire]
    rw [nvrDoc_list_arr]
    have : ∀ ys : List PyVal, (∀ x ∈ ys, nvrDoc ρ A B item (wire E A item x) = noVoidToRequired ρ A B item x) →
        nvrList ρ A B item (wireList E A item ys) = nvList ρ A B item ys := by
      intro ys
      induction ys with
      | nil => intro _; simp [wireList, nvrList, nvList]
      | cons y ys ihy =>
        intro hy
        simp only [wireList, nvrList, nvList]
        rw [hy y List.mem_cons_self, ihy fun x hx => hy x (List.mem_cons_of_mem _ hx)]
    exact this xs fun x hx => (ih x hx).2
  · intro fl kt vt kvs _ ih
    rw [noVoidToRequired]
    simp only [wire]
    rw [nvrDoc_map_obj]
    have : ∀ ys : List (PyVal × PyVal),
        (∀ kx ∈ ys, (∃ s, kx.1 = .str s) ∧ nvrDoc ρ A B vt (wire E A vt kx.2) = noVoidToRequired ρ A B vt kx.2) →
        nvrVals ρ A B vt (wireDict E A vt ys) = nvDict ρ A B vt ys := by
      intro ys
      induction ys with
      | nil => intro _; simp [wireDict, nvrVals, nvDict]
      | cons y ys ihy =>
        intro hy
        obtain ⟨k, x⟩ := y
        obtain ⟨⟨s, hs⟩, hx⟩ := hy _ List.mem_cons_self
        simp only at hs hx
        subst hs
        simp only [wireDict, nvrVals, nvDict]
        rw [hx, ihy fun kx hkx => hy kx (List.mem_cons_of_mem _ hkx)]
    exact this kvs fun kx hkx => ⟨(ih kx hkx).1, (ih kx hkx).2.2.2⟩
  · intro fl cls slots g ih
    obtain ⟨s, hs, hall, hnds⟩ := RoundTrip.good_struct_inv g
    rw [noVoidToRequired]
    simp only [wire]
    rw [nvrDoc_struct_obj, structTable_tableOf]
    exact nvrMembers_pick hnds fun k x f hx hf => (ih k x f hx hf).2
  · intro fl cls c slots g ih
    obtain ⟨s, d, tag, hs, hd, _, hleaf, hall, hnds⟩ := RoundTrip.good_tree_inv g
    rw [noVoidToRequired]
    simp only [wire, hleaf]
    rw [nvrDoc_tree_obj ρ A B fl cls _ (jsonLookup_tag_cons _ _) hs, findSub_leaf hwf hs hleaf]
    simp only
    rw [structTable_tableOf, nvrMembers_tag_cons (publicFields_ne_tag hwf _)]
    exact nvrMembers_pick hnds fun k x f hx hf => (ih k x f hx hf).2
  · intro fl cls c tag payload td g htd gp ihp
    exact nvrDoc_wire_union ρ B hwf htd gp ihp

end StoneVerif.Rt.Compat
