import StoneVerif.Lemmas.RtCompatBwd2
import StoneVerif.Lemmas.RtCompatFwd2
/-!
Helper lemmas for C07, part 12 (backward direction): `decode_struct` of the newer spec on a document written under the
older one — common fields are decoded pairwise, new fields find no member and stay unset.
-/
namespace StoneVerif.Rt.Compat
open StoneVerif.Rt

theorem storeVal_lift (E : Ext) {ρ : Rho} {A B : Env} (cx : Ctx ρ A B) {f g : FieldDef} (hsub : fieldSub ρ f g = true)
    (hw : tyWF A f.ty = true) (x : PyVal) (o : Option PyVal) (h : storeVal E A f x = .ok o) :
    storeVal E B g (lift ρ B g.ty x) = .ok (o.map (lift ρ B g.ty)) := by
  obtain ⟨hty, _, hnul, hud, _⟩ := fieldSub_parts hsub
  unfold storeVal at h ⊢
  rw [isNoneV_lift, ← hnul, ← hud]
  by_cases h1 : (f.attrNullable && isNoneV x) = true
  · simp only [h1, if_true, Except.ok.injEq] at h ⊢
    subst h; rfl
  · simp only [h1, Bool.false_eq_true, if_false] at h ⊢
    by_cases h2 : f.attrUserDefined = true
    · simp only [h2, if_true] at h ⊢
      cases hv : validateTypeOnly A f.ty x with
      | error e => simp [hv, Except.map] at h
      | ok u =>
        simp only [hv, Except.map, Except.ok.injEq] at h
        subst h
        simp [validateTypeOnly_lift cx hty hw x hv, Except.map]
    · simp only [h2, Bool.false_eq_true, if_false] at h ⊢
      cases hv : validate E A f.ty x with
      | error e => simp [hv, Except.map] at h
      | ok x' =>
        simp only [hv, Except.map, Except.ok.injEq] at h
        subst h
        simp [validate_lift E cx x f.ty g.ty x' hty hw hv, Except.map]

/-- the decoded member of name `name`: whatever A decoded, B decoded the same value seen under B (at type `tB`) -/
def ChildRelB (ρ : Rho) (B : Env) (cA cB : List (String × R PyVal)) (name : String) (tB : PTy) : Prop :=
  match childLookup name cA with
  | some (.ok x) => childLookup name cB = some (.ok (lift ρ B tB x))
  | some (.error _) => True
  | none => childLookup name cB = none

theorem lift_getDefault {ρ : Rho} {A B : Env} (cx : Ctx ρ A B) {tA tB : PTy} (h : tySub ρ tA tB = true) :
    lift ρ B tB (getDefault tA) = getDefault tB := by
  have hn := tySub_nullable h
  unfold getDefault
  rw [hn]
  split
  · rw [lift_none]
  · cases tA <;> cases tB <;> simp only [tySub, Bool.false_eq_true, Bool.and_eq_true, beq_iff_eq] at h <;>
      try (rw [lift_none])
    case struct.struct f c g c' =>
      simp [lift_struct_struct, liftSlots, orderSlots_nil]
    case tree.tree f c g c' =>
      simp [lift_tree_struct, liftSlots, orderSlots_nil, treeClassB_root (compatEnv_wf cx.compat) B h.2]

theorem fieldStep_lift (E : Ext) {ρ : Rho} {A B : Env} (cx : Ctx ρ A B) {f g : FieldDef} (hsub : fieldSub ρ f g = true)
    (hw : tyWF A f.ty = true) {cA cB : List (String × R PyVal)} (hch : ChildRelB ρ B cA cB g.name g.ty)
    (o : Option PyVal) (h : fieldStep E A cA f = .ok o) :
    fieldStep E B cB g = .ok (o.map (lift ρ B g.ty)) := by
  have hname := fieldSub_name hsub
  have hty := (fieldSub_parts hsub).1
  unfold fieldStep at h ⊢
  unfold ChildRelB at hch
  rw [← hname] at hch ⊢
  cases hc : childLookup f.name cA with
  | none =>
    simp only [hc] at h hch
    rw [hch]
    simp only [← hasDefault_sub cx hty hw]
    by_cases hd : hasDefault A f.ty = true
    · simp only [hd, if_true] at h ⊢
      rw [← lift_getDefault cx hty]
      exact storeVal_lift E cx hsub hw _ o h
    · simp only [hd, Bool.false_eq_true, if_false, Except.ok.injEq] at h ⊢
      subst h; rfl
  | some r =>
    cases r with
    | error e => simp [hc] at h
    | ok x =>
      simp only [hc] at h hch
      rw [hch]
      exact storeVal_lift E cx hsub hw x o h

/-- a field only the newer spec has, with no member in the document: nothing is stored -/
theorem fieldStep_new (E : Ext) {B : Env} {g : FieldDef} (hnew : newFieldOk B g = true)
    {cB : List (String × R PyVal)} (hc : childLookup g.name cB = none) :
    fieldStep E B cB g = .ok none := by
  unfold fieldStep
  simp only [hc]
  simp only [newFieldOk, Bool.or_eq_true, Bool.and_eq_true, Bool.not_eq_true'] at hnew
  rcases hnew with ⟨h1, h2⟩ | ⟨_, h2⟩
  · have hd : hasDefault B g.ty = true := by simp [hasDefault, h2]
    have hg : getDefault g.ty = .none := by simp [getDefault, h2]
    simp [hd, hg, storeVal, h1, isNoneV]
  · simp [h2]

/-! ### documents in encoder form -/

/-- every member is in A's table or is the discriminator: B's strict check passes too -/
theorem tightMembers_strict_okB (A B : Env) (a b : String)
    (hnames : ∀ n, n ∈ (publicFields A a).map (·.name) → n ∈ (publicFields B b).map (·.name)) :
    ∀ (kvs : List (String × JVal)), tightMembers A (structTable A a) kvs = true →
    kvs.any (fun kx => !((publicFields B b).map (·.name)).contains kx.1 && !kx.1.startsWith ".tag") = false
  | [], _ => rfl
  | (k, x) :: rest, h => by
    simp only [tightMembers, Bool.and_eq_true] at h
    have ih := tightMembers_strict_okB A B a b hnames rest h.2
    simp only [List.any_cons, ih, Bool.or_false]
    have h1 := h.1
    unfold structTable at h1
    cases hf : ((publicFields A a).map fun f => (f.name, f.ty)).find? (·.1 == k) with
    | some p =>
      have : ((publicFields A a).map (·.name)).contains k = true := by
        rw [← table_contains, hf]; rfl
      have hmem := hnames k (by simpa using this)
      have hc : ((publicFields B b).map (·.name)).contains k = true := by
        rw [List.contains_eq_mem]; exact decide_eq_true hmem
      rw [hc]; rfl
    | none =>
      simp only [hf, beq_iff_eq] at h1
      subst h1
      simp

theorem tightMembers_known (A : Env) (tbl : List (String × PTy)) : ∀ (kvs : List (String × JVal)),
    tightMembers A tbl kvs = true → ∀ k x, (k, x) ∈ kvs → (tbl.find? (·.1 == k)).isSome = true ∨ k = ".tag"
  | [], _, _, _, hm => by cases hm
  | (k0, x0) :: rest, h, k, x, hm => by
    simp only [tightMembers, Bool.and_eq_true] at h
    rcases List.mem_cons.mp hm with heq | hm'
    · have hk : k = k0 := by cases heq; rfl
      subst hk
      cases hf : tbl.find? (·.1 == k) with
      | some p => exact .inl rfl
      | none =>
        have h1 := h.1
        simp only [hf, beq_iff_eq] at h1
        exact .inr h1
    · exact tightMembers_known A tbl rest h.2 k x hm'

theorem childLookup_none_of_absent (E : Ext) (env : Env) (strict : Bool) (tbl : List (String × PTy)) (k : String) :
    ∀ (kvs : List (String × JVal)), (∀ x, (k, x) ∉ kvs) → childLookup k (decodeMembers E env [] strict tbl kvs) = none
  | [], _ => rfl
  | (k0, x0) :: rest, h => by
    have ih := childLookup_none_of_absent E env strict tbl k rest (fun x hx => h x (List.mem_cons_of_mem _ hx))
    have hne : (k0 == k) = false := by
      simpa using fun heq => h x0 (by rw [← heq]; exact List.mem_cons_self)
    simp only [decodeMembers]
    split <;> simp [childLookup, hne, ih]

/-- `finishStruct` of B on a document in A's encoder form -/
theorem finishStruct_bwd (E : Ext) {ρ : Rho} {A B : Env} (cx : Ctx ρ A B) {a b : String} {sa sb : StructDef}
    (hsa : A.struct? a = some sa) (hsb : B.struct? b = some sb)
    (hrel : FieldsRel ρ B (publicFields A a) (publicFields B b))
    (kvs : List (String × JVal)) {cA cB : List (String × R PyVal)}
    (hch : ∀ f ∈ publicFields A a, ∀ g ∈ publicFields B b, fieldSub ρ f g = true → ChildRelB ρ B cA cB g.name g.ty)
    (hnewc : ∀ g ∈ publicFields B b, (∀ f ∈ publicFields A a, f.name ≠ g.name) → childLookup g.name cB = none)
    (sA sB : Bool) (w : PyVal)
    (hk : tightMembers A (structTable A a) kvs = true)
    (h : finishStruct E A [] sA a kvs cA = .ok w) :
    ∃ slotsA, w = .struct a slotsA ∧
      finishStruct E B [] sB b kvs cB =
        .ok (.struct b (orderSlots (publicFields B b) (liftSlots ρ B (publicFields B b) slotsA))) := by
  rw [finishStruct_eq E A cx.wfA sA hsa] at h
  rw [finishStruct_eq E B cx.wfB sB hsb]
  have hnames : ∀ n, n ∈ (publicFields A a).map (·.name) → n ∈ (publicFields B b).map (·.name) := by
    intro n hn
    obtain ⟨f, hf, rfl⟩ := List.mem_map.mp hn
    obtain ⟨g, hg, hsub⟩ := hrel.common f hf
    exact List.mem_map.mpr ⟨g, hg, (fieldSub_name hsub).symm⟩
  have hstrict : (sB && kvs.any (fun kx => !((publicFields B b).map (·.name)).contains kx.1 && !kx.1.startsWith ".tag")) = false := by
    rw [tightMembers_strict_okB A B a b hnames kvs hk]; simp
  split at h
  · cases h
  · cases hrun : runFields E A cA (publicFields A a) with
    | error e => simp [hrun] at h
    | ok slotsA =>
      simp only [hrun] at h
      split at h
      · rename_i hall
        cases h
        refine ⟨slotsA, rfl, ?_⟩
        have hsteps := runFields_steps E A cA _ slotsA hrun hrel.nodupA
        have hB : ∀ g ∈ publicFields B b, fieldStep E B cB g =
            .ok ((lookupSlot g.name slotsA).map (lift ρ B g.ty)) := by
          intro g hg
          rcases fieldsRel_partner hrel hg with ⟨f, hf, hsub⟩ | ⟨hno, hnew⟩
          · have := fieldStep_lift E cx hsub (publicFields_tyWF cx.wfA hf) (hch f hf g hg hsub) _ (hsteps f hf)
            rw [← fieldSub_name hsub]; exact this
          · have hnone : lookupSlot g.name slotsA = none := by
              apply runFields_keys E A cA g.name _ slotsA hrun
              intro hm
              obtain ⟨f, hf, hn⟩ := List.mem_map.mp hm
              exact hno f hf hn
            rw [hnone]
            exact fieldStep_new E hnew (hnewc g hg hno)
        have hrunB := runFields_of_steps E B cB (fun g => (lookupSlot g.name slotsA).map (lift ρ B g.ty)) _ hB
        have hslots : (publicFields B b).filterMap (fun g => ((lookupSlot g.name slotsA).map (lift ρ B g.ty)).map fun y => (g.name, y)) =
            orderSlots (publicFields B b) (liftSlots ρ B (publicFields B b) slotsA) := by
          unfold orderSlots
          apply filterMap_congr'
          intro g hg
          rw [lookupSlot_liftSlots, find_name_of_mem hrel.nodupB hg]
        simp only [hstrict, Bool.false_eq_true, if_false, hrunB, hslots]
        have hallB := fieldsOk_lift hrel hrel.nodupB (fun g' hg' => List.mem_map.mpr ⟨g', hg', rfl⟩) slotsA hall
        simp [hallB]
      · cases h

end StoneVerif.Rt.Compat
