import StoneVerif.Model.IrCheck
/-! Helper lemmas for C10 (compile-time checks of defaults and examples vs the runtime model). -/
set_option linter.unusedSimpArgs false
namespace StoneVerif.IrCheck
open StoneVerif.Rt

end StoneVerif.IrCheck
