import StoneVerif.Model.IrCheck
/-! Helper lemmas for C10 (compile-time checks of defaults and examples vs the runtime model). -/
set_option linter.unusedSimpArgs false
set_option linter.unusedVariables false
namespace StoneVerif.IrCheck
open StoneVerif.Rt

/-! ## validators and flags -/

/-- values a default can be: not a list, tuple or dict -/
def LeafV (v : PyVal) : Prop := (∀ xs, v ≠ .list xs) ∧ (∀ xs, v ≠ .tuple xs) ∧ (∀ xs, v ≠ .dict xs)

theorem leafV_none : LeafV .none := ⟨by simp, by simp, by simp⟩
theorem leafV_bool (b) : LeafV (.bool b) := ⟨by simp, by simp, by simp⟩
theorem leafV_int (n) : LeafV (.int n) := ⟨by simp, by simp, by simp⟩
theorem leafV_flt (x) : LeafV (.flt x) := ⟨by simp, by simp, by simp⟩
theorem leafV_str (s) : LeafV (.str s) := ⟨by simp, by simp, by simp⟩
theorem leafV_union (c t p) : LeafV (.union c t p) := ⟨by simp, by simp, by simp⟩

/-- On leaf values a validator looks at its flags only through `nullable`. -/
theorem validate_withFlags (E : Ext) (env : Env) (t : PTy) (fl : Flags) (v : PyVal) (hv : LeafV v)
    (hfl : fl.nullable = t.flags.nullable) : validate E env (t.withFlags fl) v = validate E env t v := by
  obtain ⟨h1, h2, h3⟩ := hv
  cases v <;> simp at h1 h2 h3 <;> cases t <;> simp only [PTy.flags] at hfl <;>
    simp [validate, PTy.withFlags, PTy.flags, hfl]

theorem flags_withFlags (t : PTy) (fl : Flags) : (t.withFlags fl).flags = fl := by
  cases t <;> rfl

theorem setRedact_nullable (r : Option Redactor) (t : PTy) : (setRedact r t).flags.nullable = t.flags.nullable := by
  cases r with
  | none => rfl
  | some r =>
    simp only [setRedact]
    split <;> simp [flags_withFlags, *]

theorem withFlags_withFlags (t : PTy) (a b : Flags) : (t.withFlags a).withFlags b = t.withFlags b := by
  cases t <;> rfl

theorem withFlags_self (t : PTy) : t.withFlags t.flags = t := by
  cases t <;> rfl

theorem validate_setRedact (E : Ext) (env : Env) (r : Option Redactor) (t : PTy) (v : PyVal) (hv : LeafV v) :
    validate E env (setRedact r t) v = validate E env t v := by
  cases r with
  | none => rfl
  | some r =>
    simp only [setRedact]
    split
    · exact validate_withFlags E env t _ v hv (by simp [*])
    · rename_i h
      exact validate_withFlags E env t _ v hv (by simp at h; simp [h])

/-- a nullable validator accepts None -/
theorem validate_nullable_none (E : Ext) (env : Env) (t : PTy) (h : t.flags.nullable = true) :
    validate E env t .none = .ok .none := by
  cases t <;> simp only [PTy.flags] at h <;> simp [validate, PTy.flags, h]

/-- a nullable validator treats a value other than None like the wrapped validator -/
theorem validate_nullable_some (E : Ext) (env : Env) (t : PTy) (fl : Flags) (v : PyVal) (hv : LeafV v) (hn : v ≠ .none) :
    validate E env (t.withFlags fl) v = validate E env (t.withFlags {}) v := by
  obtain ⟨h1, h2, h3⟩ := hv
  cases v <;> simp at h1 h2 h3 hn <;> cases t <;> simp [validate, PTy.withFlags, PTy.flags]

/-! ## results of the compile-time checks -/

@[simp] theorem ite_error_eq_ok {α} {c : Prop} [Decidable c] {e : CheckErr} {x : CR α} {a : α} :
    ((if c then Except.error e else x) = Except.ok a) ↔ (¬c ∧ x = Except.ok a) := by
  by_cases h : c <;> simp [h]

@[simp] theorem invalid_ne_ok {α} (h : String) (a : α) : (invalid h : CR α) ≠ .ok a := by simp [invalid]
@[simp] theorem ccrash_ne_ok {α} (h : String) (a : α) : (ccrash h : CR α) ≠ .ok a := by simp [ccrash]

/-! ## the width tables -/

theorem irIntBounds_eq (cls : String) : irIntBounds cls = intDefaults cls := by
  have h : Tables.irIntBounds = Tables.rtIntBounds := by decide
  simp [irIntBounds, intDefaults, h]

theorem irFloatBounds_eq (cls : String) : irFloatBounds cls = floatDefaults cls := by
  have h : Tables.irFloatBounds = Tables.rtFloatBounds := by decide
  simp [irFloatBounds, floatDefaults, h]

/-! ## one type at a time: what `check` accepts, the generated validator accepts -/

theorem check_bool_valid (E : Ext) (C : CExt) (us : List CUnion) (env : Env) (lit : Lit) (v : PyVal)
    (hc : check E C us .bool lit = .ok ()) (hp : pyOfStored us .bool lit = some v) :
    validate E env (.bool {}) v = .ok v := by
  cases lit <;> simp [check, invalid] at hc
  simp [pyOfStored] at hp
  subst hp
  simp [validate, PTy.flags]

theorem checkIntVal_ok {cls : String} {mn mx : Option Int} {n : Int} (h : checkIntVal cls mn mx n = .ok ()) :
    ∃ lo hi, intDefaults cls = some (lo, hi) ∧ mn.getD lo ≤ n ∧ n ≤ mx.getD hi := by
  unfold checkIntVal at h
  rw [irIntBounds_eq] at h
  cases hb : intDefaults cls with
  | none => simp [hb, ccrash] at h
  | some b =>
    obtain ⟨lo, hi⟩ := b
    simp only [hb] at h
    refine ⟨lo, hi, rfl, ?_⟩
    cases mn <;> cases mx <;> simp [invalid] at h ⊢ <;> omega

theorem check_int_valid (E : Ext) (C : CExt) (us : List CUnion) (env : Env) (cls : String) (mn mx : Option Int)
    (lit : Lit) (vt : PTy) (v : PyVal)
    (hc : check E C us (.int cls mn mx) lit = .ok ()) (hv : validatorOf (.int cls mn mx) = some vt)
    (hp : pyOfStored us (.int cls mn mx) lit = some v) :
    validate E env vt v = .ok v := by
  cases lit <;> simp [check, invalid] at hc
  · rename_i n
    obtain ⟨lo, hi, hb, h1, h2⟩ := checkIntVal_ok hc
    simp [pyOfStored] at hp
    subst hp
    simp [validatorOf, hb] at hv
    subst hv
    simp [validate, PTy.flags, intOf, h1, h2]

/-- what `_BoundedFloat.check` establishes, in the form the generated validator tests it -/
theorem checkFloatVal_ok {E : Ext} {cls : String} {mn mx : Option FBits} {x : FBits}
    (h : checkFloatVal E cls mn mx x = .ok ()) :
    ∃ tlo thi, floatDefaults cls = some (tlo, thi) ∧ E.fltIsNan x = false ∧ E.fltIsInf x = false ∧
      (match (match mn with | some m => some m | none => tlo) with | some l => E.fltLt x l | none => false) = false ∧
      (match (match mx with | some m => some m | none => thi) with | some u => E.fltLt u x | none => false) = false := by
  unfold checkFloatVal at h
  rw [irFloatBounds_eq] at h
  cases hb : floatDefaults cls with
  | none => simp [hb, invalid, ccrash] at h
  | some b =>
    obtain ⟨tlo, thi⟩ := b
    simp only [hb] at h
    refine ⟨tlo, thi, rfl, ?_⟩
    cases mn <;> cases mx <;> cases tlo <;> cases thi <;> simp_all [invalid, ccrash]

theorem validate_float_ok (E : Ext) (env : Env) (cls : String) (lo hi : Option FBits) (v : PyVal) (x : FBits)
    (hf : fltOf E v = some (some x)) (hnan : E.fltIsNan x = false) (hinf : E.fltIsInf x = false)
    (hlo : (match lo with | some l => E.fltLt x l | none => false) = false)
    (hhi : (match hi with | some u => E.fltLt u x | none => false) = false) :
    validate E env (.float {} cls lo hi) v = .ok (.flt x) := by
  cases v <;> simp [fltOf] at hf <;> cases lo <;> cases hi <;> simp_all [validate, PTy.flags, fltOf]

theorem check_float_valid (E : Ext) (C : CExt) (us : List CUnion) (env : Env) (cls : String) (mn mx : Option FBits)
    (lit : Lit) (vt : PTy) (v : PyVal)
    (hc : check E C us (.float cls mn mx) lit = .ok ()) (hv : validatorOf (.float cls mn mx) = some vt)
    (hp : pyOfStored us (.float cls mn mx) lit = some v) :
    ∃ x, fltOf E v = some (some x) ∧ validate E env vt v = .ok (.flt x) := by
  cases lit <;> simp [check, invalid] at hc
  · -- integer literal
    rename_i n
    cases hx : E.fltOfInt n with
    | none => simp [hx] at hc
    | some x =>
      simp only [hx] at hc
      split at hc
      case isFalse => simp [invalid] at hc
      obtain ⟨tlo, thi, hb, h1, h2, h3, h4⟩ := checkFloatVal_ok hc
      simp [pyOfStored] at hp
      subst hp
      simp [validatorOf, hb] at hv
      subst hv
      refine ⟨x, by simp [fltOf, hx], ?_⟩
      exact validate_float_ok E env cls _ _ _ x (by simp [fltOf, hx]) h1 h2 h3 h4
  · -- float literal
    rename_i x
    obtain ⟨tlo, thi, hb, h1, h2, h3, h4⟩ := checkFloatVal_ok hc
    simp [pyOfStored] at hp
    subst hp
    simp [validatorOf, hb] at hv
    subst hv
    refine ⟨x, by simp [fltOf], ?_⟩
    exact validate_float_ok E env cls _ _ _ x (by simp [fltOf]) h1 h2 h3 h4

theorem check_str_valid (E : Ext) (C : CExt) (us : List CUnion) (env : Env) (a b : Option Nat) (p : Option String)
    (lit : Lit) (v : PyVal)
    (hc : check E C us (.str a b p) lit = .ok ()) (hp : pyOfStored us (.str a b p) lit = some v) :
    validate E env (.str {} a b p) v = .ok v := by
  cases lit <;> simp only [check] at hc <;> (try simp at hc)
  rename_i s
  simp [pyOfStored] at hp
  subst hp
  cases hge : geOpt b s.length <;> cases hle : leOpt a s.length <;> simp [hge, hle] at hc
  cases p with
  | none => simp [validate, PTy.flags, hge, hle]
  | some q =>
    simp at hc
    simp [validate, PTy.flags, hge, hle]
    intro hq hm
    have := hc hq
    simp [this] at hm

theorem check_void_valid (E : Ext) (C : CExt) (us : List CUnion) (env : Env) (lit : Lit) (v : PyVal)
    (hc : check E C us .void lit = .ok ()) (hp : pyOfStored us .void lit = some v) :
    validate E env (.void {}) v = .ok v := by
  cases lit <;> simp [check] at hc
  simp [pyOfStored] at hp
  subst hp
  simp [validate, PTy.flags]

/-! ## tag defaults -/

theorem declClass_mem {u : CUnion} {tag d : String} (h : u.declClass tag = some d) : d ∈ u.chain.map (·.1) := by
  unfold CUnion.declClass at h
  cases hf : u.chain.find? (fun x => x.2.any (·.name == tag)) with
  | none => simp [hf] at h
  | some e =>
    simp [hf] at h
    subst h
    exact List.mem_map.2 ⟨e, List.mem_of_find?_eq_some hf, rfl⟩

/-- the ready instance `<Declaring class>('<tag>')` is an instance the field's union validator accepts -/
theorem tag_instance_typeOk {us : List CUnion} {env : Env} (hU : unionsAgree us env = true) {cls tag d : String} {u : CUnion}
    (hu : us.find? (·.cls == cls) = some u) (hd : u.declClass tag = some d) :
    unionTypeOk env cls (.union d tag .none) = true := by
  have hmem : u ∈ us := List.mem_of_find?_eq_some hu
  have hcls : u.cls = cls := by
    have := List.find?_some hu
    simpa using this
  have hag := (List.all_eq_true.1 hU) u hmem
  simp only [hcls] at hag
  cases he : env.union? cls with
  | none => simp [he] at hag
  | some ud =>
    simp [he] at hag
    simp [unionTypeOk, Env.unionSubclass, he, UnionDef.ancestors, hag]
    have := declClass_mem hd
    simpa using this

theorem check_union_valid (E : Ext) (C : CExt) (us : List CUnion) (env : Env) (hU : unionsAgree us env = true)
    (cls : String) (lit : Lit) (v : PyVal)
    (hc : check E C us (.union cls) lit = .ok ()) (hp : pyOfStored us (.union cls) lit = some v) :
    validate E env (.union {} cls) v = .ok v ∧ validateTypeOnly env (.union {} cls) v = .ok () := by
  cases lit <;> simp [check] at hc
  rename_i tag
  cases hu : us.find? (·.cls == cls) with
  | none => simp [pyOfStored, unionOfTy, hu] at hp
  | some u =>
    cases hd : u.declClass tag with
    | none => simp [pyOfStored, unionOfTy, hu, hd] at hp
    | some d =>
      simp [pyOfStored, unionOfTy, hu, hd] at hp
      subst hp
      have hok := tag_instance_typeOk hU hu hd
      simp [validate, validateTypeOnly, PTy.flags, hok]

/-! ## every type -/

theorem pyOfStored_tagref {us : List CUnion} {t : IrTy} {tag : String} {v : PyVal} (h : pyOfStored us t (.tagref tag) = some v) :
    ∃ c u d, unionOfTy t = some c ∧ us.find? (·.cls == c) = some u ∧ u.declClass tag = some d ∧ v = .union d tag .none := by
  simp only [pyOfStored] at h
  cases hc : unionOfTy t with
  | none => simp [hc] at h
  | some c =>
    simp only [hc] at h
    cases hu : us.find? (·.cls == c) with
    | none => simp [hu] at h
    | some u =>
      cases hd : u.declClass tag with
      | none => simp [hu, hd] at h
      | some d =>
        simp [hu, hd] at h
        exact ⟨c, u, d, rfl, hu, hd, h.symm⟩

theorem pyOfStored_leaf {us : List CUnion} {t : IrTy} {lit : Lit} {v : PyVal} (h : pyOfStored us t lit = some v) : LeafV v := by
  cases lit <;> (try simp [pyOfStored] at h)
  · subst h; exact leafV_none
  · subst h; exact leafV_bool _
  · subst h; exact leafV_int _
  · subst h; exact leafV_flt _
  · subst h; exact leafV_str _
  · obtain ⟨c, u, d, _, _, _, rfl⟩ := pyOfStored_tagref h
    exact leafV_union _ _ _

theorem pyOfStored_alias {us : List CUnion} {n : String} {r : Option Redactor} {t : IrTy} {lit : Lit} :
    pyOfStored us (.alias n r t) lit = pyOfStored us t lit := by
  cases lit <;> simp [pyOfStored, unionOfTy]

theorem pyOfStored_none_iff {us : List CUnion} {t : IrTy} {lit : Lit} (h : pyOfStored us t lit = some .none) : lit = .null := by
  cases lit <;> (try simp [pyOfStored] at h ⊢)
  obtain ⟨c, u, d, _, _, _, h⟩ := pyOfStored_tagref h
  cases h

/-- a literal that is not a tag reference is the same Python value whatever the type -/
theorem pyOfStored_nontag {us : List CUnion} {t t' : IrTy} {lit : Lit} (h : ∀ tag, lit ≠ .tagref tag) :
    pyOfStored us t lit = pyOfStored us t' lit := by
  cases lit <;> simp [pyOfStored] at h ⊢

theorem acceptedAs_refl (E : Ext) (v : PyVal) : acceptedAs E v v := Or.inl rfl

/-- Every literal that `data_type.check` accepts is a value the validator generated for that type accepts
(and returns unchanged, a number in a float position as the float), provided the type involves no
Timestamp / Bytes (the compile-time pattern test is the runtime one since the repair of String.check). -/
theorem check_valid (E : Ext) (C : CExt) (us : List CUnion) (env : Env) (hU : unionsAgree us env = true) :
    ∀ (t : IrTy) (lit : Lit) (vt : PTy) (v : PyVal),
      noTextual t = true →
      check E C us t lit = .ok () → validatorOf t = some vt → pyOfStored us t lit = some v →
      ∃ v', validate E env vt v = .ok v' ∧ acceptedAs E v v' := by
  intro t
  induction t with
  | bool =>
    intro lit vt v _ hc hv hp
    simp [validatorOf] at hv; subst hv
    exact ⟨v, check_bool_valid E C us env lit v hc hp, acceptedAs_refl E v⟩
  | int cls mn mx =>
    intro lit vt v _ hc hv hp
    exact ⟨v, check_int_valid E C us env cls mn mx lit vt v hc hv hp, acceptedAs_refl E v⟩
  | float cls mn mx =>
    intro lit vt v _ hc hv hp
    obtain ⟨x, hx, hval⟩ := check_float_valid E C us env cls mn mx lit vt v hc hv hp
    exact ⟨.flt x, hval, Or.inr ⟨x, hx, rfl⟩⟩
  | str a b p =>
    intro lit vt v _ hc hv hp
    simp [validatorOf] at hv; subst hv
    exact ⟨v, check_str_valid E C us env a b p lit v hc hp, acceptedAs_refl E v⟩
  | bytes => intro lit vt v hn; simp [noTextual] at hn
  | ts f => intro lit vt v hn; simp [noTextual] at hn
  | void =>
    intro lit vt v _ hc hv hp
    simp [validatorOf] at hv; subst hv
    exact ⟨v, check_void_valid E C us env lit v hc hp, acceptedAs_refl E v⟩
  | list t a b _ => intro lit vt v _ hc; simp [check] at hc
  | map k w _ _ => intro lit vt v _ hc; simp [check] at hc
  | struct c s => intro lit vt v _ hc; simp [check] at hc
  | union cls =>
    intro lit vt v _ hc hv hp
    simp [validatorOf] at hv; subst hv
    exact ⟨v, (check_union_valid E C us env hU cls lit v hc hp).1, acceptedAs_refl E v⟩
  | nullable t ih =>
    intro lit vt v hn hc hv hp
    -- the validator: the inner one with the nullable flag
    simp only [validatorOf] at hv
    cases hvt : validatorOf t with
    | none => simp [hvt] at hv
    | some vt0 =>
      simp only [hvt] at hv
      have hvt' : vt = vt0.withFlags { vt0.flags with nullable := true } := by
        split at hv
        · cases hv
        · split at hv
          · cases hv
          · cases hv; rfl
      subst hvt'
      by_cases hnull : lit = .null
      · subst hnull
        simp [pyOfStored] at hp; subst hp
        exact ⟨.none, validate_nullable_none E env _ (by simp [flags_withFlags]), acceptedAs_refl E _⟩
      · have hc' : check E C us t lit = .ok () := by
          cases lit <;> simp [check] at hc hnull ⊢ <;> exact hc
        have hnt : ∀ tag, lit ≠ .tagref tag := by
          intro tag h; subst h; simp [pyOfStored, unionOfTy] at hp
        have hp' : pyOfStored us t lit = some v := by rw [← hp]; exact pyOfStored_nontag hnt
        obtain ⟨v', h1, h2⟩ := ih lit vt0 v (by simpa [noTextual] using hn) hc' hvt hp'
        have hleaf := pyOfStored_leaf hp
        have hvn : v ≠ .none := by
          intro h; subst h; exact hnull (pyOfStored_none_iff hp)
        refine ⟨v', ?_, h2⟩
        rw [validate_nullable_some E env vt0 _ v hleaf hvn, ← validate_nullable_some E env vt0 vt0.flags v hleaf hvn,
          withFlags_self]
        exact h1
  | alias n r t ih =>
    intro lit vt v hn hc hv hp
    simp only [validatorOf] at hv
    cases hvt : validatorOf t with
    | none => simp [hvt] at hv
    | some vt0 =>
      simp [hvt] at hv; subst hv
      rw [pyOfStored_alias] at hp
      obtain ⟨v', h1, h2⟩ := ih lit vt0 v (by simpa [noTextual] using hn) (by simpa [check] using hc) hvt hp
      exact ⟨v', by rw [validate_setRedact E env r vt0 v (pyOfStored_leaf hp)]; exact h1, h2⟩

/-! ## from `fieldDefault` to `check` -/

theorem match_check_ok {r : CR Unit} {l d : Lit}
    (h : r.map (fun _ => l) = .ok d) : r = .ok () ∧ l = d := by
  cases r with
  | error e => simp [Except.map] at h
  | ok u => cases u; simp [Except.map] at h; exact ⟨rfl, h⟩

/-- the literal passed `data_type.check` as written; the stored value (the literal, or the float an integer
literal converts to) passes it too -/
theorem check_coerced {E : Ext} {C : CExt} {us : List CUnion} {t : IrTy} {lit d : Lit}
    (hc : check E C us t lit = .ok ()) (hd : coerceDefault E t lit = .ok d) : check E C us t d = .ok () := by
  cases t <;> cases lit <;> simp [coerceDefault] at hd <;> (try (subst hd; exact hc))
  all_goals simp [check, invalid] at hc
  · -- `f Float = n`: the converted number is the one `check` has tested
    rename_i cls mn mx n
    cases hx : E.fltOfInt n with
    | none => simp [hx, invalid] at hd
    | some x =>
      simp [hx] at hd hc
      subst hd
      split at hc
      · simpa [check] using hc
      · simp [invalid] at hc

/-- what an accepted default went through: the coercion, `data_type.check` of the stored value, and the three
refusals (nullable, alias of nullable, not a primitive / union) -/
theorem fieldDefault_ok {E : Ext} {C : CExt} {us : List CUnion} {t : IrTy} {lit d : Lit}
    (h : fieldDefault E C us t lit = .ok d) :
    coerceDefault E t lit = .ok d ∧ check E C us t d = .ok () ∧ t.isNullableLit = false ∧
      (unwrapAliases t).isNullableLit = false ∧ defaultable (unwrapAll t) = true ∧ isVoidLit (unwrapAliases t) = false := by
  have key : ∀ (t : IrTy), t.isNullableLit = false → populateDefault E C us t lit = .ok d →
      coerceDefault E t lit = .ok d ∧ check E C us t d = .ok () ∧ t.isNullableLit = false ∧
        (unwrapAliases t).isNullableLit = false ∧ defaultable (unwrapAll t) = true ∧ isVoidLit (unwrapAliases t) = false := by
    intro t hn h
    unfold populateDefault at h
    split at h
    · simp [invalid] at h
    · rename_i h0
      split at h
      · simp [invalid] at h
      · rename_i h1
        split at h
        · simp [invalid] at h
        · rename_i h2
          cases hc : check E C us t lit with
          | error e => simp [hc] at h
          | ok u =>
            cases u
            simp only [hc] at h
            exact ⟨h, check_coerced hc h, hn, by simpa using h1, by simpa using h2, by simpa using h0⟩
  cases t
  case void => simp [fieldDefault, invalid] at h
  case nullable => simp [fieldDefault, invalid] at h
  all_goals exact key _ rfl (by simpa only [fieldDefault] using h)

/-- the stored default passed `data_type.check` -/
theorem fieldDefault_check {E : Ext} {C : CExt} {us : List CUnion} {t : IrTy} {lit d : Lit}
    (h : fieldDefault E C us t lit = .ok d) : check E C us t d = .ok () := (fieldDefault_ok h).2.1

/-- a field that carries a default is not nullable (neither literally nor through aliases) and not Void -/
theorem fieldDefault_not_nullable {E : Ext} {C : CExt} {us : List CUnion} {t : IrTy} {lit d : Lit}
    (h : fieldDefault E C us t lit = .ok d) : t.isNullableLit = false := (fieldDefault_ok h).2.2.1

/-! ## `validate_type_only` and assignment -/

theorem validateTypeOnly_union_setRedact (env : Env) (r : Option Redactor) (cls : String) (v : PyVal) :
    validateTypeOnly env (setRedact r (.union {} cls)) v = validateTypeOnly env (.union {} cls) v := by
  cases r with
  | none => rfl
  | some r => simp [setRedact, PTy.flags, PTy.withFlags, validateTypeOnly]

/-! ## the generated field table -/

theorem fieldDefOfC_inv {us : List CUnion} {cf : CField} {fd : FieldDef} (h : fieldDefOfC us cf = some fd) :
    ∃ vt, validatorOf cf.ty = some vt ∧ fd.name = cf.name ∧ fd.ty = vt ∧ fd.attrNullable = cf.ty.isNullableLit ∧
      fd.attrUserDefined = cf.ty.isUserDefinedLit ∧ fd.omitted = cf.omitted ∧
      (match cf.dflt with
       | none => fd.dflt = none
       | some l => ∃ v, pyOfStored us cf.ty l = some v ∧ fd.dflt = some v) := by
  unfold fieldDefOfC at h
  cases hvt : validatorOf cf.ty with
  | none => simp [hvt] at h
  | some vt =>
    cases hd : cf.dflt with
    | none =>
      simp [hvt, hd] at h
      subst h
      exact ⟨vt, rfl, rfl, rfl, rfl, rfl, rfl, by simp⟩
    | some l =>
      cases hp : pyOfStored us cf.ty l with
      | none => simp [hvt, hd, hp] at h
      | some v =>
        simp [hvt, hd, hp] at h
        subst h
        exact ⟨vt, rfl, rfl, rfl, rfl, rfl, rfl, ⟨v, hp, rfl⟩⟩

/-- the only user-defined field type a default can be given to is a union written directly -/
theorem check_userDefined_union {E : Ext} {C : CExt} {us : List CUnion} {t : IrTy} {d : Lit}
    (hc : check E C us t d = .ok ()) (hnn : t.isNullableLit = false) (hu : t.isUserDefinedLit = true) :
    ∃ cls, t = .union cls := by
  cases t <;> simp [IrTy.isUserDefinedLit, IrTy.isNullableLit, check] at hu hnn hc ⊢

end StoneVerif.IrCheck
