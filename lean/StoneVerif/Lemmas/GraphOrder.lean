import StoneVerif.Lemmas.GraphFilter
/-! Lemmas about `linAdd` / `linAll` (the shared shape of `linearize_data_types` and `linearize_aliases`),
`normalize` and `filterFields`. -/
namespace StoneVerif.Graph

variable {g : Graph} {self : String} {link : Node → Option Id}

/-! ## `linAdd` -/

/-- the shape of a successful call -/
theorem linAdd_cases {f : Nat} {id : Id} {out r : List Id} (h : linAdd g self link (f + 1) id out = .ok r) :
    (id ∈ out ∧ r = out) ∨
    (id ∉ out ∧ ∃ nd, g.node? id = some nd ∧
      ((nd.ns ≠ self ∧ r = out) ∨
       (nd.ns = self ∧ link nd = none ∧ r = out ++ [id]) ∨
       (nd.ns = self ∧ ∃ p rp, link nd = some p ∧ linAdd g self link f p out = .ok rp ∧ r = rp ++ [id]))) := by
  simp only [linAdd] at h
  split at h
  · rename_i hc
    exact Or.inl ⟨by simpa using hc, by cases h; rfl⟩
  · rename_i hc
    refine Or.inr ⟨by simpa using hc, ?_⟩
    split at h
    · simp at h
    · rename_i nd hnd
      refine ⟨nd, hnd, ?_⟩
      split at h
      · rename_i hns
        exact Or.inl ⟨by simpa using hns, by cases h; rfl⟩
      · rename_i hns
        have hns' : nd.ns = self := by simpa using hns
        split at h
        · rename_i p hp
          split at h
          · simp at h
          · rename_i rp hrp
            exact Or.inr (Or.inr ⟨hns', p, rp, hp, hrp, by cases h; rfl⟩)
        · rename_i hp
          exact Or.inr (Or.inl ⟨hns', hp, by cases h; rfl⟩)

/-- the result does not depend on the fuel, as long as the fuel suffices -/
theorem linAdd_det {f1 f2 : Nat} {id : Id} {out r1 r2 : List Id}
    (h1 : linAdd g self link f1 id out = .ok r1) (h2 : linAdd g self link f2 id out = .ok r2) : r1 = r2 := by
  induction f1 generalizing f2 id r1 r2 with
  | zero => simp [linAdd] at h1
  | succ f1 ih =>
    cases f2 with
    | zero => simp [linAdd] at h2
    | succ f2 =>
      rcases linAdd_cases h1 with ⟨a1, rfl⟩ | ⟨a1, nd1, hn1, hr1⟩
      · rcases linAdd_cases h2 with ⟨_, rfl⟩ | ⟨a2, _⟩
        · rfl
        · exact absurd a1 a2
      · rcases linAdd_cases h2 with ⟨a2, _⟩ | ⟨_, nd2, hn2, hr2⟩
        · exact absurd a2 a1
        · rw [hn1] at hn2; cases hn2
          rcases hr1 with ⟨b1, rfl⟩ | ⟨b1, c1, rfl⟩ | ⟨b1, p1, rp1, c1, d1, rfl⟩
          · rcases hr2 with ⟨_, rfl⟩ | ⟨b2, _⟩ | ⟨b2, _⟩
            · rfl
            · exact absurd b2 b1
            · exact absurd b2 b1
          · rcases hr2 with ⟨b2, _⟩ | ⟨_, _, rfl⟩ | ⟨_, p2, rp2, c2, _⟩
            · exact absurd b1 b2
            · rfl
            · rw [c1] at c2; cases c2
          · rcases hr2 with ⟨b2, _⟩ | ⟨_, c2, _⟩ | ⟨_, p2, rp2, c2, d2, rfl⟩
            · exact absurd b1 b2
            · rw [c1] at c2; cases c2
            · rw [c1] at c2; cases c2
              rw [ih d1 d2]

/-- the result extends `out`; everything new was itself the argument of a successful call (with no more
fuel) whose result is no longer than this one -/
theorem linAdd_new {f : Nat} {id : Id} {out r : List Id} (h : linAdd g self link f id out = .ok r) :
    (∃ extra, r = out ++ extra) ∧
    ∀ y ∈ r, y ∉ out → ∃ f' ry, f' ≤ f ∧ linAdd g self link f' y out = .ok ry ∧ ry.length ≤ r.length := by
  induction f generalizing id r with
  | zero => simp [linAdd] at h
  | succ f ih =>
    rcases linAdd_cases h with ⟨_, rfl⟩ | ⟨hid, nd, hnd, ⟨_, rfl⟩ | ⟨_, _, rfl⟩ | ⟨_, p, rp, hp, hrp, rfl⟩⟩
    · exact ⟨⟨[], by simp⟩, fun y hy hn => absurd hy hn⟩
    · exact ⟨⟨[], by simp⟩, fun y hy hn => absurd hy hn⟩
    · refine ⟨⟨[id], rfl⟩, ?_⟩
      intro y hy hn
      rcases List.mem_append.1 hy with hy | hy
      · exact absurd hy hn
      · have : y = id := by simpa using hy
        subst this
        exact ⟨f + 1, _, Nat.le_refl _, h, Nat.le_refl _⟩
    · obtain ⟨⟨extra, he⟩, hnew⟩ := ih hrp
      refine ⟨⟨extra ++ [id], by rw [he]; simp⟩, ?_⟩
      intro y hy hn
      rcases List.mem_append.1 hy with hy | hy
      · obtain ⟨f', ry, hf', hry, hlen⟩ := hnew y hy hn
        exact ⟨f', ry, Nat.le_succ_of_le hf', hry, by simp; omega⟩
      · have : y = id := by simpa using hy
        subst this
        exact ⟨f + 1, _, Nat.le_refl _, h, Nat.le_refl _⟩

/-- a successful call never finds its own argument among what the call on its link added -/
theorem linAdd_not_in_sub {f : Nat} {id p : Id} {out rp r : List Id} (hid : id ∉ out)
    (h : linAdd g self link (f + 1) id out = .ok r) (hr : r = rp ++ [id])
    (hrp : linAdd g self link f p out = .ok rp) : id ∉ rp := by
  intro hmem
  obtain ⟨f', ry, _, hry, hlen⟩ := (linAdd_new hrp).2 id hmem hid
  have := linAdd_det hry h
  rw [this, hr] at hlen
  simp at hlen
  omega

/-- `p` precedes `t` in `l` -/
def Before (l : List Id) (p t : Id) : Prop := List.Sublist [p, t] l

theorem Before.append_right {l : List Id} {p t : Id} (h : Before l p t) (m : List Id) : Before (l ++ m) p t :=
  List.Sublist.trans h (List.sublist_append_left l m)

theorem before_snoc {l : List Id} {p t : Id} (h : p ∈ l) : Before (l ++ [t]) p t := by
  have h1 : List.Sublist [p] l := List.singleton_sublist.2 h
  exact List.Sublist.append h1 (List.Sublist.refl [t])

/-- every listed item whose link stays in the namespace comes after its link -/
def LinkFirst (g : Graph) (self : String) (link : Node → Option Id) (l : List Id) : Prop :=
  ∀ t ∈ l, ∀ nd, g.node? t = some nd → ∀ p, link nd = some p → ∀ np, g.node? p = some np → np.ns = self →
    Before l p t

/-- the invariants of `add_data_type` / `add_alias` -/
theorem linAdd_inv {f : Nat} {id : Id} {out r : List Id} (h : linAdd g self link f id out = .ok r)
    (C : Id → Prop) (hC : ∀ a nd p np, C a → g.node? a = some nd → link nd = some p → g.node? p = some np →
      np.ns = self → C p)
    (hid : C id) (hnd : out.Nodup) (hsub : ∀ x ∈ out, C x) (hlf : LinkFirst g self link out) :
    r.Nodup ∧ (∀ x ∈ r, C x) ∧ LinkFirst g self link r ∧ (∀ x ∈ out, x ∈ r) ∧
      (∀ nd, g.node? id = some nd → nd.ns = self → id ∈ r) := by
  induction f generalizing id r with
  | zero => simp [linAdd] at h
  | succ f ih =>
    rcases linAdd_cases h with ⟨hin, rfl⟩ | ⟨hnin, nd, hnode, ⟨hns, rfl⟩ | ⟨hns, hl, rfl⟩ | ⟨hns, p, rp, hp, hrp, rfl⟩⟩
    · exact ⟨hnd, hsub, hlf, fun x hx => hx, fun _ _ _ => hin⟩
    · refine ⟨hnd, hsub, hlf, fun x hx => hx, ?_⟩
      intro nd' hnd' hns'
      rw [hnode] at hnd'; cases hnd'
      exact absurd hns' hns
    · refine ⟨?_, ?_, ?_, ?_, ?_⟩
      · rw [List.nodup_append]
        refine ⟨hnd, by simp, ?_⟩
        intro a ha b hb
        have : b = id := by simpa using hb
        subst this
        intro hab; subst hab; exact hnin ha
      · intro x hx
        rcases List.mem_append.1 hx with hx | hx
        · exact hsub x hx
        · have : x = id := by simpa using hx
          subst this; exact hid
      · intro t ht ndt hndt p hp np hnp hnps
        rcases List.mem_append.1 ht with ht | ht
        · exact (hlf t ht ndt hndt p hp np hnp hnps).append_right _
        · have : t = id := by simpa using ht
          subst this
          rw [hnode] at hndt; cases hndt
          rw [hl] at hp; cases hp
      · intro x hx; exact List.mem_append_left _ hx
      · intro _ _ _; simp
    · -- the link is followed first
      have hCp : ∀ np, g.node? p = some np → np.ns = self → C p := fun np hnp hnps =>
        hC id nd p np hid hnode hp hnp hnps
      -- the call on `p`: either `p` is a node of this namespace (then `C p`), or nothing is added
      have hsubcall : rp.Nodup ∧ (∀ x ∈ rp, C x) ∧ LinkFirst g self link rp ∧ (∀ x ∈ out, x ∈ rp) ∧
          (∀ np, g.node? p = some np → np.ns = self → p ∈ rp) := by
        cases f with
        | zero => simp [linAdd] at hrp
        | succ f' =>
          rcases linAdd_cases hrp with ⟨hin, rfl⟩ | ⟨hpn, np, hnp, hrest⟩
          · exact ⟨hnd, hsub, hlf, fun x hx => hx, fun _ _ _ => hin⟩
          · by_cases hnps : np.ns = self
            · exact ih hrp (hCp np hnp hnps)
            · rcases hrest with ⟨_, rfl⟩ | ⟨h1, _⟩ | ⟨h1, _⟩
              · refine ⟨hnd, hsub, hlf, fun x hx => hx, ?_⟩
                intro np' hnp' hns'
                rw [hnp] at hnp'; cases hnp'
                exact absurd hns' hnps
              · exact absurd h1 hnps
              · exact absurd h1 hnps
      obtain ⟨s1, s2, s3, s4, s5⟩ := hsubcall
      have hnotin : id ∉ rp := linAdd_not_in_sub hnin h rfl hrp
      refine ⟨?_, ?_, ?_, ?_, ?_⟩
      · rw [List.nodup_append]
        refine ⟨s1, by simp, ?_⟩
        intro a ha b hb
        have : b = id := by simpa using hb
        subst this
        intro hab; subst hab; exact hnotin ha
      · intro x hx
        rcases List.mem_append.1 hx with hx | hx
        · exact s2 x hx
        · have : x = id := by simpa using hx
          subst this; exact hid
      · intro t ht ndt hndt q hq nq hnq hnqs
        rcases List.mem_append.1 ht with ht | ht
        · exact (s3 t ht ndt hndt q hq nq hnq hnqs).append_right _
        · have : t = id := by simpa using ht
          subst this
          rw [hnode] at hndt; cases hndt
          rw [hp] at hq; cases hq
          exact before_snoc (s5 nq hnq hnqs)
      · intro x hx; exact List.mem_append_left _ (s4 x hx)
      · intro _ _ _; simp

/-- the loop over the list of the namespace -/
theorem linAll_inv {ids out r : List Id} (h : linAll g self link ids out = .ok r)
    (C : Id → Prop) (hC : ∀ a nd p np, C a → g.node? a = some nd → link nd = some p → g.node? p = some np →
      np.ns = self → C p)
    (hids : ∀ x ∈ ids, C x) (hnd : out.Nodup) (hsub : ∀ x ∈ out, C x) (hlf : LinkFirst g self link out) :
    r.Nodup ∧ (∀ x ∈ r, C x) ∧ LinkFirst g self link r ∧ (∀ x ∈ out, x ∈ r) ∧
      (∀ x ∈ ids, ∀ nd, g.node? x = some nd → nd.ns = self → x ∈ r) := by
  induction ids generalizing out with
  | nil =>
    simp only [linAll] at h
    cases h
    exact ⟨hnd, hsub, hlf, fun x hx => hx, fun x hx => by cases hx⟩
  | cons id rest ih =>
    simp only [linAll] at h
    split at h
    · simp at h
    · rename_i out' hout'
      obtain ⟨a1, a2, a3, a4, a5⟩ := linAdd_inv hout' C hC (hids id (List.mem_cons_self ..)) hnd hsub hlf
      obtain ⟨b1, b2, b3, b4, b5⟩ := ih h (fun x hx => hids x (List.mem_cons_of_mem _ hx)) a1 a2 a3
      refine ⟨b1, b2, b3, fun x hx => b4 x (a4 x hx), ?_⟩
      intro x hx nd hnd' hns
      rcases List.mem_cons.1 hx with rfl | hx
      · exact b4 _ (a5 nd hnd' hns)
      · exact b5 x hx nd hnd' hns

/-- `linAll` from the empty list: a duplicate-free list of exactly the listed items, links first -/
theorem linAll_perm {ids r : List Id} (h : linAll g self link ids [] = .ok r) (hnd : ids.Nodup)
    (hown : ∀ x ∈ ids, ∃ nd, g.node? x = some nd ∧ nd.ns = self)
    (hclosed : ∀ a nd p np, a ∈ ids → g.node? a = some nd → link nd = some p → g.node? p = some np →
      np.ns = self → p ∈ ids) :
    r.Perm ids ∧ LinkFirst g self link r := by
  obtain ⟨h1, h2, h3, _, h5⟩ := linAll_inv h (· ∈ ids) hclosed (fun x hx => hx) List.nodup_nil
    (fun x hx => by cases hx) (fun t ht => by cases ht)
  refine ⟨(List.perm_ext_iff_of_nodup h1 hnd).2 ?_, h3⟩
  intro a
  constructor
  · exact h2 a
  · intro ha
    obtain ⟨nd, hnd', hns⟩ := hown a ha
    exact h5 a ha nd hnd' hns

/-- acyclicity as a rank function: the walk along the links terminates within the fuel -/
theorem linAdd_total (rank : Id → Nat) (hrank : ∀ a nd p, g.node? a = some nd → link nd = some p → rank p < rank a)
    (hnodes : ∀ a nd p, g.node? a = some nd → link nd = some p → ∃ np, g.node? p = some np)
    {f : Nat} {id : Id} (hf : rank id < f) (hid : ∃ nd, g.node? id = some nd) (out : List Id) :
    ∃ r, linAdd g self link f id out = .ok r := by
  induction f generalizing id with
  | zero => omega
  | succ f ih =>
    obtain ⟨nd, hnd⟩ := hid
    simp only [linAdd, hnd]
    split
    · exact ⟨_, rfl⟩
    · split
      · exact ⟨_, rfl⟩
      · split
        · rename_i p hp
          have hr := hrank id nd p hnd hp
          obtain ⟨r, hr'⟩ := ih (id := p) (by omega) (hnodes id nd p hnd hp)
          rw [hr']
          exact ⟨_, rfl⟩
        · exact ⟨_, rfl⟩

theorem linAll_total (rank : Id → Nat) (hrank : ∀ a nd p, g.node? a = some nd → link nd = some p → rank p < rank a)
    (hnodes : ∀ a nd p, g.node? a = some nd → link nd = some p → ∃ np, g.node? p = some np)
    {ids : List Id} (hb : ∀ x ∈ ids, rank x < g.chainFuel) (hids : ∀ x ∈ ids, ∃ nd, g.node? x = some nd)
    (out : List Id) : ∃ r, linAll g self link ids out = .ok r := by
  induction ids generalizing out with
  | nil => exact ⟨out, rfl⟩
  | cons id rest ih =>
    obtain ⟨o, ho⟩ := linAdd_total (self := self) rank hrank hnodes (hb id (List.mem_cons_self ..))
      (hids id (List.mem_cons_self ..)) out
    simp only [linAll, ho]
    exact ih (fun x hx => hb x (List.mem_cons_of_mem _ hx)) (fun x hx => hids x (List.mem_cons_of_mem _ hx)) o

/-! ## `normalize` -/

theorem leStr_trans (a b c : String) : leStr a b = true → leStr b c = true → leStr a c = true := by
  simp only [leStr, decide_eq_true_eq]
  exact String.le_trans

theorem leStr_total (a b : String) : (leStr a b || leStr b a) = true := by
  simp only [leStr, Bool.or_eq_true, decide_eq_true_eq]
  exact String.le_total a b

theorem str_trichotomy (a b : String) : a < b ∨ a = b ∨ b < a := by
  by_cases h1 : a < b
  · exact Or.inl h1
  · by_cases h2 : b < a
    · exact Or.inr (Or.inr h2)
    · exact Or.inr (Or.inl (String.le_antisymm (String.not_lt.1 h2) (String.not_lt.1 h1)))

theorem leRoute_iff (g : Graph) (a b : Id) :
    leRoute g a b = true ↔ (g.nameOf a < g.nameOf b ∨ (g.nameOf a = g.nameOf b ∧ g.versionOf a ≤ g.versionOf b)) := by
  simp [leRoute]

theorem leRoute_trans (g : Graph) (a b c : Id) : leRoute g a b = true → leRoute g b c = true → leRoute g a c = true := by
  simp only [leRoute_iff]
  rintro (h1 | ⟨h1, h1'⟩) (h2 | ⟨h2, h2'⟩)
  · exact Or.inl (String.lt_trans h1 h2)
  · exact Or.inl (h2 ▸ h1)
  · exact Or.inl (h1 ▸ h2)
  · exact Or.inr ⟨h1.trans h2, Nat.le_trans h1' h2'⟩

theorem leRoute_total (g : Graph) (a b : Id) : (leRoute g a b || leRoute g b a) = true := by
  simp only [Bool.or_eq_true, leRoute_iff]
  rcases str_trichotomy (g.nameOf a) (g.nameOf b) with h | h | h
  · exact Or.inl (Or.inl h)
  · rcases Nat.le_total (g.versionOf a) (g.versionOf b) with h' | h'
    · exact Or.inl (Or.inr ⟨h, h'⟩)
    · exact Or.inr (Or.inr ⟨h.symm, h'⟩)
  · exact Or.inr (Or.inl h)

/-! ## `all_fields` -/

theorem filterFields_chain {p : Field → Bool} {fuel : Nat} {id : Id} {l : List (Id × Field)}
    (h : filterFields g p fuel id = .ok l) : ∃ c, chainUp g fuel id = .ok c ∧ l = chainFields p c := by
  induction fuel generalizing id l with
  | zero => simp [filterFields] at h
  | succ fuel ih =>
    simp only [filterFields] at h
    simp only [chainUp]
    cases hnd : g.node? id with
    | none => simp [hnd] at h
    | some nd =>
      simp only [hnd] at h ⊢
      cases hq : nd.parent with
      | none =>
        simp only [hq] at h ⊢
        cases h
        exact ⟨_, rfl, by simp [chainFields]⟩
      | some q =>
        simp only [hq] at h ⊢
        cases hup : filterFields g p fuel q with
        | error e => simp [hup] at h
        | ok up =>
          simp only [hup] at h
          obtain ⟨c, hc, hl⟩ := ih hup
          simp only [hc]
          refine ⟨_, rfl, ?_⟩
          cases h
          simp [chainFields, hl]

theorem filter_split_perm {α : Type} (p : α → Bool) (l : List α) :
    (l.filter (fun x => !p x) ++ l.filter p).Perm l := by
  induction l with
  | nil => simp
  | cons a l ih =>
    cases hp : p a
    · simp only [List.filter_cons, hp, Bool.not_false, ↓reduceIte, Bool.false_eq_true, List.cons_append]
      exact List.Perm.cons a ih
    · simp only [List.filter_cons, hp, Bool.not_true, Bool.false_eq_true, ↓reduceIte]
      exact (List.perm_middle).trans (List.Perm.cons a ih)

theorem chainFields_split_perm (p : Field → Bool) (c : List (Id × Node)) :
    (chainFields (fun f => !p f) c ++ chainFields p c).Perm (chainFields (fun _ => true) c) := by
  induction c with
  | nil => simp [chainFields]
  | cons x c ih =>
    simp only [chainFields, List.flatMap_cons] at ih ⊢
    have h1 : ((x.2.fields.filter (fun f => !p f)).map (fun f => (x.1, f))
        ++ (x.2.fields.filter p).map (fun f => (x.1, f))).Perm
        ((x.2.fields.filter (fun _ => true)).map (fun f => (x.1, f))) := by
      rw [← List.map_append]
      apply List.Perm.map
      have : x.2.fields.filter (fun _ => true) = x.2.fields := by simp
      rw [this]
      exact filter_split_perm p x.2.fields
    -- (A ++ X) ++ (B ++ Y) ~ (A ++ B) ++ (X ++ Y)
    refine List.Perm.trans ?_ (List.Perm.append h1 ih)
    simp only [List.append_assoc]
    apply List.Perm.append_left
    rw [← List.append_assoc, ← List.append_assoc]
    apply List.Perm.append_right
    exact List.perm_append_comm

end StoneVerif.Graph
