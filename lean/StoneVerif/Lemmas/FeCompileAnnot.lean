import StoneVerif.Lemmas.FeCompilePatch
import StoneVerif.Lemmas.FeCompileOrder
set_option linter.unusedSimpArgs false
/-!
The annotation stage of the compile model tests exactly the annotation rules: what it looks things up with -- the
environment, the compiled aliases and types -- are the specification-level maps.  With that, `compile`, `denote` and
`Legal` of the whole language (patches merged, annotations applied) inherit the theorems of the core.
-/
namespace StoneVerif.FeCompile.L
open StoneVerif.FeCompile
open StoneVerif.FeParams (TyKind)

/-! ## what an applied annotation names -/

theorem annotDef_eq {E fs} (hE : EnvOK2 E fs) (ns name : String) :
    annotDefS fs ns name = (E.items.lookup (ns, name)).bind annShape := by
  unfold annotDefS
  cases hl : E.items.lookup (ns, name) with
  | some i =>
    cases i with
    | annot k =>
      have hm := hE.inv2.annotMem ns name k hl
      have hd : Decl.annot name k ∈ declsOf fs ns := mem_declsOf.mpr hm
      cases hh : ((declsOf fs ns).filterMap fun d => match d with
          | .annot n k => if n == name then some k else none
          | _ => none).head? with
      | none =>
        rw [List.head?_eq_none_iff, List.filterMap_eq_nil_iff] at hh
        have := hh _ hd
        simp at this
      | some k' =>
        have hmem := List.mem_of_head? hh
        rw [List.mem_filterMap] at hmem
        obtain ⟨d, hdm, hdk⟩ := hmem
        cases d <;> simp at hdk
        rename_i n' k''
        obtain ⟨rfl, rfl⟩ := hdk
        have := hE.inv2.annotFound ns n' k'' (mem_declsOf.mp hdm)
        rw [hl] at this
        cases this
        rfl
    | type _ | «alias» _ | routes _ | other =>
      simp only [Option.bind_some, annShape]
      rw [List.head?_eq_none_iff, List.filterMap_eq_nil_iff]
      intro d hd
      cases d <;> simp
      rename_i n' k'
      intro hn
      subst hn
      have := hE.inv2.annotFound ns n' k' (mem_declsOf.mp hd)
      rw [hl] at this
      cases this
  | none =>
    simp only [Option.bind_none]
    rw [List.head?_eq_none_iff, List.filterMap_eq_nil_iff]
    intro d hd
    cases d <;> simp
    rename_i n' k'
    intro hn
    subst hn
    have := hE.inv2.annotFound ns n' k' (mem_declsOf.mp hd)
    rw [hl] at this
    cases this

theorem lookup_found {E fs} (hE : EnvOK2 E fs) (ens name : String) :
    (match E.lookup ens name with
     | none => Except.error Err.annotNotExist
     | some e => Except.ok (annKindOf e)) =
    (if imported fs ens name then Except.ok none
     else if !known fs ens name then .error .annotNotExist
     else .ok (annotDefS fs ens name)) := by
  have hk := hE.known_eq ens name
  rw [annotDef_eq hE]
  unfold Env.lookup at hk ⊢
  rw [hE.ok.imported_iff] at hk ⊢
  cases hi : imported fs ens name with
  | true => simp [annKindOf]
  | false =>
    simp only [hi, Bool.false_eq_true, ↓reduceIte] at hk ⊢
    unfold lookupSym at hk ⊢
    cases hl : E.items.lookup (ens, name) with
    | some i =>
      rw [hl] at hk
      simp only [Option.isSome_some] at hk
      simp only [← hk, Bool.not_true, Bool.false_eq_true, ↓reduceIte, Option.bind_some]
      cases i <;> rfl
    | none =>
      rw [hl] at hk
      simp only at hk ⊢
      cases hb : TyKind.ofName? name with
      | none => simp [hb] at hk; simp [← hk]
      | some k => simp [hb] at hk; simp [← hk, annKindOf]

theorem raE_eq {E fs} (hE : EnvOK2 E fs) : raE E = raS fs := by
  funext cur a
  unfold raE resolveAnnot headLookup raS
  simp only
  cases hq : a.ns with
  | none =>
    simp only
    have := lookup_found hE cur a.name
    cases hl : E.lookup cur a.name with
    | none => rw [hl] at this; simp only at this ⊢; exact this
    | some e => rw [hl] at this; simp only at this ⊢; exact this
  | some q =>
    simp only
    have hk := hE.known_eq cur q
    cases hl : E.lookup cur q with
    | none =>
      rw [hl] at hk
      have himp : imported fs cur q = false := by
        cases hh : imported fs cur q with
        | false => rfl
        | true => unfold known at hk; simp [hh] at hk
      simp [himp, ← hk]
    | some e =>
      rw [hl] at hk
      cases e with
      | ns t =>
        obtain ⟨hc, rfl⟩ := lookup_ns hl
        rw [hE.ok.imported_iff] at hc
        simp only [hc, ↓reduceIte]
        have := lookup_found hE t a.name
        cases hl2 : E.lookup t a.name with
        | none => rw [hl2] at this; simp only at this ⊢; exact this
        | some e2 => rw [hl2] at this; simp only at this ⊢; exact this
      | builtin _ | item _ =>
        have himp : imported fs cur q = false := by
          cases hh : imported fs cur q with
          | false => rfl
          | true =>
            have : E.lookup cur q = some (.ns q) := by
              unfold Env.lookup; rw [hE.ok.imported_iff, hh]; rfl
            rw [hl] at this; cases this
        simp [himp, ← hk]

/-! ## the compiled aliases and types are the denoted ones -/

theorem alias?_eq {rx E fs api} (hE : EnvOK E fs) (h : denoteCore rx fs = some api) :
    (fun k => api.alias? k) = aliasS rx fs := by
  funext k
  obtain ⟨ns, n⟩ := k
  apply option_ext
  intro t
  rw [alias?_iff hE h]
  unfold aliasS
  constructor
  · rintro ⟨r, hm, hd⟩
    have hl := hE.lookup_decl hm (n := n) rfl
    simp only [itemOf] at hl
    obtain ⟨d', hf, hd'⟩ := hE.findDef_of_lookup hl (Or.inr ⟨r, rfl⟩)
    cases d' <;> simp [itemOf] at hd'
    subst hd'
    simp [hf, hd]
  · intro hs
    simp only at hs
    cases hf : findDef fs ns n with
    | none => simp [hf] at hs
    | some d =>
      rcases findDef_named hf with ⟨td, rfl, _⟩ | ⟨r, rfl⟩
      · simp [hf] at hs
      · simp only [hf] at hs
        exact ⟨r, (findDef_mem hf).1, hs⟩

theorem type?_eq {rx E fs api} (hE : EnvOK E fs) (h : denoteCore rx fs = some api) :
    (fun k => api.type? k) = typeS rx fs := by
  funext k
  obtain ⟨ns, n⟩ := k
  apply option_ext
  intro c
  rw [type?_iff hE h]
  unfold typeS
  constructor
  · rintro ⟨d, hm, hn, hd⟩
    have hl := hE.lookup_decl hm (n := n) (by simp [declName, hn])
    simp only [itemOf] at hl
    obtain ⟨d', hf, hd'⟩ := hE.findDef_of_lookup hl (Or.inl ⟨d, rfl⟩)
    cases d' <;> simp [itemOf] at hd'
    subst hd'
    simp [hf, hd]
  · intro hs
    simp only at hs
    cases hf : findDef fs ns n with
    | none => simp [hf] at hs
    | some d =>
      rcases findDef_named hf with ⟨td, rfl, hn⟩ | ⟨r, rfl⟩
      · simp only [hf] at hs
        exact ⟨td, (findDef_mem hf).1, hn, hs⟩
      · simp [hf] at hs

theorem firstErr_isOk {α} (g : α → Except Err Unit) : ∀ l : List α, isOk (firstErr g l) = l.all fun x => isOk (g x)
  | [] => rfl
  | x :: l => by
    simp only [firstErr, List.all_cons]
    cases hx : g x with
    | error e => simp [isOk]
    | ok u =>
      cases u
      simp only [isOk, Bool.true_and]
      exact firstErr_isOk g l

/-- **annotations.** the stage accepts exactly what obeys the annotation rules -/
theorem annots_ok_iff {rx E fs api} (hE : EnvOK2 E fs) (h : compileCore rx fs = .ok api) :
    isOk (checkAnnots E fs api) = annotsLegal rx fs := by
  have hd := compile_denote h
  unfold checkAnnots checkAnnotsG annotsLegal
  rw [firstErr_isOk, raE_eq hE, alias?_eq hE.ok hd, type?_eq hE.ok hd, aliasFuel_eq hE.ok]

/-! ## `compile`, `denote`, `Legal` of the whole language -/

theorem compile_parts {rx fs api} (h : compile rx fs = .ok api) :
    compileCore rx (mergeFiles fs) = .ok api ∧ ∃ E E', buildEnv fs = .ok E ∧ checkPatches E [] (patchesOf fs) = .ok () ∧
      buildEnv (mergeFiles fs) = .ok E' ∧ checkAnnots E' (mergeFiles fs) api = .ok () := by
  unfold compile at h
  split at h
  · cases h
  · rename_i E hE
    split at h
    · cases h
    · rename_i hp
      split at h
      · cases h
      · rename_i api' hc
        split at h
        · cases h
        · rename_i E' hE'
          split at h
          · cases h
          · rename_i ha
            cases h
            exact ⟨hc, E, E', hE, hp, hE', ha⟩

theorem compile_core {rx fs api} (h : compile rx fs = .ok api) : compileCore rx (mergeFiles fs) = .ok api :=
  (compile_parts h).1

/-- **accepted = legal**, patches and applied annotations included -/
theorem compile_ok_iff_legal_full (rx : String → Bool) (fs : List File) (hl : nsLexical fs = true) :
    (∃ api, compile rx fs = .ok api) ↔ Legal rx fs = true := by
  have hlm : nsLexical (mergeFiles fs) = true := by rw [nsLexical_merge]; exact hl
  unfold Legal
  rw [Bool.and_eq_true, Bool.and_eq_true]
  constructor
  · rintro ⟨api, h⟩
    obtain ⟨hcore, E, E', hE, hp, hE', ha⟩ := compile_parts h
    have hL := (compile_ok_iff_legal rx (mergeFiles fs) hlm).mp ⟨api, hcore⟩
    refine ⟨⟨?_, hL⟩, ?_⟩
    · rw [← patches_ok_iff (buildEnv_ok2 hE), hp]; rfl
    · rw [← annots_ok_iff (buildEnv_ok2 hE') hcore, ha]; rfl
  · rintro ⟨⟨hp, hL⟩, ha⟩
    obtain ⟨api, hapi⟩ := (compile_ok_iff_legal rx (mergeFiles fs) hlm).mpr hL
    obtain ⟨hn, hi⟩ := LegalCore_names hL
    have hbm := buildEnv_ok_iff (mergeFiles fs) hlm
    rw [hn, hi] at hbm
    rw [namesLegal_merge] at hn
    rw [importsLegal_merge] at hi
    have hb := buildEnv_ok_iff fs hl
    rw [hn, hi] at hb
    cases hE : buildEnv fs with
    | error e => rw [hE] at hb; cases hb
    | ok E =>
      cases hE' : buildEnv (mergeFiles fs) with
      | error e => rw [hE'] at hbm; cases hbm
      | ok E' =>
        have hc := patches_ok_iff (buildEnv_ok2 hE)
        rw [hp] at hc
        have hann := annots_ok_iff (buildEnv_ok2 hE') hapi
        rw [ha] at hann
        refine ⟨api, ?_⟩
        unfold compile
        simp only [hE]
        cases hcp : checkPatches E [] (patchesOf fs) with
        | error e => rw [hcp] at hc; cases hc
        | ok u =>
          cases u
          simp only [hapi, hE']
          cases hca : checkAnnots E' (mergeFiles fs) api with
          | error e => rw [hca] at hann; cases hann
          | ok u => cases u; rfl

end StoneVerif.FeCompile.L
