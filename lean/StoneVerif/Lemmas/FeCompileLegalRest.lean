import StoneVerif.Lemmas.FeCompileLegalPass3
set_option linter.unusedSimpArgs false
/-!
LegalCore declarations go through passes 4 - 6 and the assembly: once pass 3 has filled the tables, they ARE the
specification-level maps, and every later test is the corresponding clause of `LegalCore`.
-/
namespace StoneVerif.FeCompile.L
open StoneVerif.FeCompile
open StoneVerif.FeParams (TyKind)

/-- what is known of the state after pass 3 on legal input -/
structure Final (rx : String → Bool) (E : Env) (fs : List File) (st : St) : Prop where
  inv : Inv rx E fs st
  complete : Complete fs E.nss st

theorem Final.lookEq {rx E fs st} (hE : EnvOK2 E fs) (hF : Final rx E fs st) : lookOf st.aliases = aliasS rx fs := by
  funext k
  have hA := hF.inv.below hE.ok
  cases hs : aliasS rx fs k with
  | some t =>
    unfold aliasS at hs
    cases hf : findDef fs k.1 k.2 with
    | none => simp [hf] at hs
    | some d =>
      rcases findDef_named hf with ⟨td, rfl, _⟩ | ⟨r, rfl⟩
      · simp [hf] at hs
      · obtain ⟨hmem, _⟩ := findDef_mem hf
        have hns : k.1 ∈ E.nss := by rw [hE.ok.nss]; exact ns_of_decl hmem
        have := (hF.complete k.1 hns).2 k.2 r (mem_aliasDecls.mpr hmem)
        cases hl : st.aliases.lookup (k.1, k.2) with
        | none => rw [hl] at this; cases this
        | some t' =>
          have h2 := hA (k.1, k.2) t' hl
          have h3 : aliasS rx fs k = some t := by unfold aliasS; rw [hf]; simpa [hf] using hs
          have hk : (k.1, k.2) = k := rfl
          rw [hk] at h2 hl
          rw [h2] at h3
          unfold lookOf
          rw [hl, h3]
  | none =>
    unfold lookOf
    cases hl : st.aliases.lookup k with
    | none => rfl
    | some t => rw [hA k t hl] at hs; cases hs

theorem Final.typesEq {rx E fs st} (hE : EnvOK2 E fs) (hF : Final rx E fs st) : typesOf st.done = typeS rx fs := by
  funext k
  cases hs : typeS rx fs k with
  | some c =>
    have hs' := hs
    unfold typeS at hs
    cases hf : findDef fs k.1 k.2 with
    | none => simp [hf] at hs
    | some d =>
      rcases findDef_named hf with ⟨td, rfl, hn⟩ | ⟨r, rfl⟩
      · obtain ⟨hmem, _⟩ := findDef_mem hf
        have hns : k.1 ∈ E.nss := by rw [hE.ok.nss]; exact ns_of_decl hmem
        have := (hF.complete k.1 hns).1 td (mem_typeDecls.mpr hmem)
        rw [hn] at this
        have hk : (k.1, k.2) = k := rfl
        rw [hk] at this
        unfold typesOf
        cases hl : st.done.lookup k with
        | none => rw [hl] at this; cases this
        | some c' =>
          have := hF.inv.typesBelow hE.ok hl
          rw [hs'] at this
          rw [this]
      · simp [hf] at hs
  | none =>
    unfold typesOf
    cases hl : st.done.lookup k with
    | none => rfl
    | some c => rw [hF.inv.typesBelow hE.ok hl] at hs; cases hs

theorem Final.parentEq {rx E fs st} (hE : EnvOK2 E fs) (hF : Final rx E fs st) :
    parentIn st.done = fun k => (typeS rx fs k).bind (·.parent) := by
  have := hF.typesEq hE
  funext k
  have hk := congrFun this k
  unfold typesOf at hk
  unfold parentIn
  rw [hk]

theorem Final.lookupDecl {rx E fs st} (hE : EnvOK2 E fs) (hF : Final rx E fs st) {ns d}
    (hns : ns ∈ E.nss) (hd : d ∈ typeDecls (declsOf fs ns)) :
    ∃ c, st.done.lookup (ns, d.name) = some c ∧ denoteType rx fs ns d = some c := by
  have := (hF.complete ns hns).1 d hd
  cases hl : st.done.lookup (ns, d.name) with
  | none => rw [hl] at this; cases this
  | some c =>
    refine ⟨c, rfl, ?_⟩
    have h1 := hF.inv.typesBelow hE.ok hl
    rw [typeS_of_lookup hE.ok (hE.ok.lookup_type hd)] at h1
    exact h1

theorem legal_of_typeDecl {rx fs} (hL : DeclsLegal rx fs) {ns d} (hd : d ∈ typeDecls (declsOf fs ns)) :
    typeLegal rx fs ns d = true := by
  have : (ns, Decl.type d) ∈ allPairs fs := by rw [allPairs_eq]; exact mem_declsOf.mp (mem_typeDecls.mp hd)
  exact hL _ this

/-! ## pass 4 -/

theorem defaultFields_ok {E A} : ∀ {l : List CField}, (∀ f, f ∈ l → isOk (defaultField E A f) = true) →
    defaultFields E A l = .ok ()
  | [], _ => rfl
  | f :: l, h => by
    simp only [defaultFields]
    have := h f List.mem_cons_self
    cases hd : defaultField E A f with
    | error e => rw [hd] at this; cases this
    | ok u => exact defaultFields_ok (fun f' hf' => h f' (List.mem_cons_of_mem _ hf'))

theorem pass4_ok {rx E fs st} (hE : EnvOK2 E fs) (hL : DeclsLegal rx fs) (hF : Final rx E fs st) :
    ∀ {l : List (String × TypeDecl)}, (∀ p, p ∈ l → p.1 ∈ E.nss ∧ p.2 ∈ typeDecls (declsOf fs p.1)) →
      pass4Types E st l = .ok ()
  | [], _ => rfl
  | (ns, d) :: l, h => by
    obtain ⟨hns, hd⟩ := h (ns, d) List.mem_cons_self
    have ih := pass4_ok hE hL hF (l := l) (fun p hp => h p (List.mem_cons_of_mem _ hp))
    simp only [pass4Types]
    cases hkind : d.kind with
    | union c => simpa using ih
    | struct =>
      simp only
      obtain ⟨c, hl, hden⟩ := hF.lookupDecl hE hns hd
      rw [hl]
      simp only
      obtain ⟨_, _, c', hden', _, _, hdef, _⟩ := typeLegal_parts (legal_of_typeDecl hL hd)
      rw [hden] at hden'
      cases hden'
      simp only [hkind, List.all_eq_true] at hdef
      have : defaultFields E st.aliases c.fields = .ok () := by
        apply defaultFields_ok
        intro f hf
        have := hdef f hf
        unfold defaultField
        rw [hF.lookEq hE, aliasFuel_eq hE.ok]
        have hk : (fun k => isUnionKind (kindOf E k)) = (fun k => isUnionKind (kindS fs k)) := by
          funext k; rw [hE.ok.kindOf_eq]
        rw [hk]
        exact this
      rw [this]
      exact ih

theorem nsTypeDecls_mem {E : Env} {fs} (hfiles : E.files = fs) {p : String × TypeDecl} (h : p ∈ nsTypeDecls E) :
    p.1 ∈ E.nss ∧ p.2 ∈ typeDecls (declsOf fs p.1) := by
  unfold nsTypeDecls at h
  simp only [List.mem_flatMap, List.mem_map] at h
  obtain ⟨ns, hns, d, hd, rfl⟩ := h
  rw [hfiles] at hd
  exact ⟨hns, hd⟩

/-! ## pass 6 -/

theorem compileRoutes_ok {rx E fs A ns} (hE : EnvOK2 E fs) (hA : Below A (aliasS rx fs)) :
    ∀ {l : List RouteDecl}, (∀ r, r ∈ l → routeLegal rx fs ns r = true) → ∃ rs, compileRoutes rx E A ns l = .ok rs
  | [], _ => ⟨[], rfl⟩
  | r :: l, h => by
    have hr := h r List.mem_cons_self
    unfold routeLegal at hr
    simp only [Bool.and_eq_true] at hr
    obtain ⟨⟨⟨h1, h2⟩, h3⟩, h4⟩ := hr
    obtain ⟨ta, hta, _, _⟩ := resolve_ok_of_legal hE hA h1
    obtain ⟨tr, htr, _, _⟩ := resolve_ok_of_legal hE hA h2
    cases he : r.error with
    | none => simp [he] at h3
    | some re =>
      simp only [he] at h3
      obtain ⟨te, hte, _, _⟩ := resolve_ok_of_legal hE hA h3
      have hdep : routeDeprecated E ns r.deprecated = .ok () := by
        have := hE.deprecated_eq ns r.deprecated
        rw [h4] at this
        cases hd : routeDeprecated E ns r.deprecated with
        | error e => rw [hd] at this; cases this
        | ok u => rfl
      obtain ⟨rs, hrs⟩ := compileRoutes_ok hE hA (l := l) (fun r' hr' => h r' (List.mem_cons_of_mem _ hr'))
      exact ⟨{ name := r.name, version := r.version, arg := ta, result := tr, error := te, deprecated := r.deprecated } :: rs,
        by simp [compileRoutes, compileRoute, hta, htr, he, hte, hdep, hrs]⟩

theorem pass6_ok {rx E fs A} (hE : EnvOK2 E fs) (hL : DeclsLegal rx fs) (hA : Below A (aliasS rx fs)) :
    ∀ (nss : List String), ∃ L, pass6Nss rx E A nss = .ok L
  | [] => ⟨[], rfl⟩
  | ns :: nss => by
    obtain ⟨rs, hrs⟩ := compileRoutes_ok hE hA (ns := ns) (l := routeDecls (declsOf fs ns)) (by
      intro r hr
      have : (ns, Decl.route r) ∈ allPairs fs := by rw [allPairs_eq]; exact mem_declsOf.mp (mem_routeDecls.mp hr)
      exact hL _ this)
    obtain ⟨L, hL'⟩ := pass6_ok hE hL hA nss
    exact ⟨(ns, rs) :: L, by simp [pass6Nss, hE.ok.files, hrs, hL']⟩

/-! ## the assembly -/

theorem typesOut_ok {st : St} {ns} : ∀ {l : List TypeDecl}, (∀ d, d ∈ l → (st.done.lookup (ns, d.name)).isSome) →
    ∃ out, typesOut st ns l = .ok out
  | [], _ => ⟨[], rfl⟩
  | d :: l, h => by
    have := h d List.mem_cons_self
    cases hl : st.done.lookup (ns, d.name) with
    | none => rw [hl] at this; cases this
    | some c =>
      obtain ⟨out, ho⟩ := typesOut_ok (l := l) (fun d' hd' => h d' (List.mem_cons_of_mem _ hd'))
      exact ⟨(d.name, c) :: out, by simp [typesOut, hl, ho]⟩

theorem aliasesOut_ok {st : St} {ns} : ∀ {l : List (String × TRef)}, (∀ n r, (n, r) ∈ l → (st.aliases.lookup (ns, n)).isSome) →
    ∃ out, aliasesOut st ns l = .ok out
  | [], _ => ⟨[], rfl⟩
  | (n, r) :: l, h => by
    have := h n r List.mem_cons_self
    cases hl : st.aliases.lookup (ns, n) with
    | none => rw [hl] at this; cases this
    | some t =>
      obtain ⟨out, ho⟩ := aliasesOut_ok (l := l) (fun n' r' hd' => h n' r' (List.mem_cons_of_mem _ hd'))
      exact ⟨(n, t) :: out, by simp [aliasesOut, hl, ho]⟩

theorem assemble_ok {E : Env} {fs st en} (hfiles : E.files = fs) (hc : Complete fs E.nss st) :
    ∀ {L : List (String × List CRoute)}, (∀ p, p ∈ L → p.1 ∈ E.nss) → ∃ outs, assemble E st en L = .ok outs
  | [], _ => ⟨[], rfl⟩
  | (ns, rs) :: L, h => by
    have hns := h (ns, rs) List.mem_cons_self
    obtain ⟨types, ht⟩ := typesOut_ok (st := st) (ns := ns) (hc ns hns).1
    obtain ⟨aliases, ha⟩ := aliasesOut_ok (st := st) (ns := ns) (hc ns hns).2
    obtain ⟨outs, ho⟩ := assemble_ok (en := en) hfiles hc (L := L) (fun p hp => h p (List.mem_cons_of_mem _ hp))
    exact ⟨{ name := ns, types := types, aliases := aliases, routes := rs,
             enums := enumsOut en ns (typeDecls (declsOf fs ns)) } :: outs, by simp [assemble, hfiles, ht, ha, ho]⟩

/-! ## pass 5: enumerated subtypes -/

theorem subtypeFields_ok {rx E fs st ns} (hE : EnvOK2 E fs) (hA : Below st.aliases (aliasS rx fs)) :
    ∀ {subs : List (String × TRef)}, (∀ p, p ∈ subs → subtypeRefLegal rx fs ns p = true) →
      ∃ fields, subtypeFields rx E st ns subs = .ok fields
  | [], _ => ⟨[], rfl⟩
  | (tag, r) :: subs, h => by
    have hp := h (tag, r) List.mem_cons_self
    unfold subtypeRefLegal at hp
    simp only [Bool.and_eq_true] at hp
    obtain ⟨⟨hknown, hleg⟩, hkind⟩ := hp
    obtain ⟨t, hr, hd, _⟩ := resolve_ok_of_legal hE hA hleg
    simp only [hd] at hkind
    obtain ⟨fields, hf⟩ := subtypeFields_ok hE hA (subs := subs) (fun p hp' => h p (List.mem_cons_of_mem _ hp'))
    have hk : (E.lookup ns r.head.name).isNone = false := by
      have := hE.known_eq ns r.head.name
      rw [hknown] at this
      cases hl : E.lookup ns r.head.name with
      | none => rw [hl] at this; cases this
      | some e => rfl
    cases t with
    | user k =>
      simp only [beq_iff_eq] at hkind
      refine ⟨(tag, k) :: fields, ?_⟩
      simp [subtypeFields, hk, hr, hE.ok.kindOf_eq, hkind, hf]
    | prim _ | list _ _ _ | map _ _ | nullable _ | «alias» _ => simp at hkind

theorem enumCheck_ok_iff {par : Key → Option Key} {subs : List Key} {self c fields} :
    enumCheck par subs self c fields = .ok () ↔
      c.parent.isSome = false ∧ ∃ seen, enumLoop par self (c.fields.map (·.name)) [] fields = .ok seen ∧
        fields.isEmpty = false ∧ (subs.any fun k => !seen.contains k.2) = false := by
  unfold enumCheck
  cases hp : c.parent.isSome with
  | true => simp
  | false =>
    simp only [Bool.false_eq_true, ↓reduceIte, true_and]
    cases hl : enumLoop par self (c.fields.map (·.name)) [] fields with
    | error e => simp
    | ok seen =>
      simp only [Except.ok.injEq, exists_eq_left']
      cases he : fields.isEmpty with
      | true => simp
      | false =>
        simp only [Bool.false_eq_true, ↓reduceIte, true_and]
        cases ha : (subs.any fun k => !seen.contains k.2) with
        | true => simp
        | false => simp

theorem enumCheck_mono {par : Key → Option Key} {subs subs' : List Key} {self c fields}
    (hs : ∀ k, k ∈ subs → k ∈ subs') (h : enumCheck par subs' self c fields = .ok ()) :
    enumCheck par subs self c fields = .ok () := by
  rw [enumCheck_ok_iff] at h ⊢
  obtain ⟨h1, seen, h2, h3, h4⟩ := h
  refine ⟨h1, seen, h2, h3, ?_⟩
  rw [Bool.eq_false_iff, ne_eq, List.any_eq_true] at h4 ⊢
  rintro ⟨k, hk, hc⟩
  exact h4 ⟨k, hs k hk, hc⟩

theorem enumLoop_parent {par : Key → Option Key} {self} : ∀ {fields : List (String × Key)} {names seen out},
    enumLoop par self names seen fields = .ok out → ∀ p, p ∈ fields → par p.2 = some self
  | [], _, _, _, _, p, hp => by simp at hp
  | (tag, k) :: fields, names, seen, out, h, p, hp => by
    simp only [enumLoop] at h
    split at h
    · cases h
    · split at h
      · cases h
      · rename_i hpar
        split at h
        · cases h
        · simp only [List.mem_cons] at hp
          rcases hp with rfl | hp
          · simpa using hpar
          · exact enumLoop_parent h p hp

theorem enumCheck_facts {par : Key → Option Key} {subs self c fields} (h : enumCheck par subs self c fields = .ok ()) :
    c.parent = none ∧ ∀ p, p ∈ fields → par p.2 = some self := by
  rw [enumCheck_ok_iff] at h
  obtain ⟨h1, seen, h2, _, _⟩ := h
  exact ⟨by cases hc : c.parent <;> simp [hc] at h1 ⊢, enumLoop_parent h2⟩

theorem Final.subtypes_sub {rx E fs st} (hE : EnvOK2 E fs) (hF : Final rx E fs st) (self k : Key)
    (h : k ∈ subtypesOf st self) : k ∈ subtypesS rx fs self := by
  unfold subtypesOf at h
  simp only [List.mem_map, List.mem_filter, beq_iff_eq] at h
  obtain ⟨⟨k', c⟩, ⟨hm, hpar⟩, rfl⟩ := h
  obtain ⟨d, hd, hden⟩ := hF.inv.done k' c hm
  obtain ⟨hdecl, hname⟩ := hE.ok.type_decl hd
  unfold subtypesS
  simp only [List.mem_filterMap]
  refine ⟨(k'.1, .type d), by rw [allPairs_eq]; exact mem_declsOf.mp hdecl, ?_⟩
  simp only at hpar
  have := denoteType_parent hden
  simp only [this, hpar, beq_self_eq_true, ↓reduceIte, hname]

theorem isEmpty_of_sub {l l' : List Key} (hs : ∀ k, k ∈ l → k ∈ l') (h : l'.isEmpty = true) : l.isEmpty = true := by
  cases l with
  | nil => rfl
  | cons a l =>
    have := hs a List.mem_cons_self
    cases l' with
    | nil => simp at this
    | cons b l' => simp at h

/-- a struct that has a parent does not enumerate subtypes (it would violate its own rule) -/
theorem no_enum_of_child {rx fs} (hL : DeclsLegal rx fs) {k self : Key} (hen : hasEnumS fs k = true)
    (hpar : (typeS rx fs k).bind (·.parent) = some self) : False := by
  unfold hasEnumS at hen
  cases hf : findDef fs k.1 k.2 with
  | none => simp [hf] at hen
  | some d =>
    rcases findDef_named hf with ⟨td, rfl, _⟩ | ⟨r, rfl⟩
    · simp only [hf] at hen
      cases hen' : enumOf td with
      | none => simp [hen'] at hen
      | some p =>
        obtain ⟨subs, ca⟩ := p
        obtain ⟨hmem, _⟩ := findDef_mem hf
        have hleg : typeLegal rx fs k.1 td = true := legal_of_typeDecl hL (mem_typeDecls.mpr hmem)
        obtain ⟨_, _, c, hden, _, _, _, henum⟩ := typeLegal_parts hleg
        have hts : typeS rx fs k = some c := by unfold typeS; rw [hf]; exact hden
        rw [hts] at hpar
        simp only [Option.bind_some] at hpar
        unfold enumLegal at henum
        simp only [hen', Bool.and_eq_true] at henum
        obtain ⟨_, h2⟩ := henum
        cases ho : optMapM (subDen rx fs k.1) subs with
        | none => simp [ho] at h2
        | some fields =>
          simp only [ho, Bool.and_eq_true] at h2
          cases hc : enumCheck (fun k => (typeS rx fs k).bind (·.parent)) (subtypesS rx fs (k.1, td.name)) (k.1, td.name) c fields with
          | error e => rw [hc] at h2; simp [isOk] at h2
          | ok u =>
            cases u
            have := (enumCheck_facts hc).1
            rw [this] at hpar; cases hpar
    · simp [hf] at hen

theorem enumLegal_parts {rx fs ns d c subs ca} (h : enumLegal rx fs ns d c = true) (he : enumOf d = some (subs, ca)) :
    (∀ p, p ∈ subs → subtypeRefLegal rx fs ns p = true) ∧ ∃ fields, optMapM (subDen rx fs ns) subs = some fields ∧
      enumCheck (fun k => (typeS rx fs k).bind (·.parent)) (subtypesS rx fs (ns, d.name)) (ns, d.name) c fields = .ok () ∧
      (∀ p, p ∈ fields → (hasEnumS fs p.2 || (subtypesS rx fs p.2).isEmpty) = true) := by
  unfold enumLegal at h
  simp only [he, Bool.and_eq_true, List.all_eq_true] at h
  refine ⟨h.1, ?_⟩
  cases ho : optMapM (subDen rx fs ns) subs with
  | none => simp [ho] at h
  | some fields =>
    simp only [ho, Bool.and_eq_true, List.all_eq_true] at h
    refine ⟨fields, rfl, ?_, h.2.2⟩
    cases hc : enumCheck (fun k => (typeS rx fs k).bind (·.parent)) (subtypesS rx fs (ns, d.name)) (ns, d.name) c fields with
    | error e => rw [hc] at h; simp [isOk] at h
    | ok u => rfl

theorem enumFirst_ok {rx E fs st ns} (hE : EnvOK2 E fs) (hL : DeclsLegal rx fs) (hF : Final rx E fs st)
    (hns : ns ∈ E.nss) : ∀ {ds : List TypeDecl} {en}, (∀ d, d ∈ ds → d ∈ typeDecls (declsOf fs ns)) →
      ∃ en', enumFirst rx E st ns en ds = .ok en'
  | [], en, _ => ⟨en, rfl⟩
  | d :: ds, en, hm => by
    have hd := hm d List.mem_cons_self
    have hrest := fun en' => enumFirst_ok hE hL hF hns (ds := ds) (en := en') (fun d' h' => hm d' (List.mem_cons_of_mem _ h'))
    simp only [enumFirst]
    cases he : enumOf d with
    | none => exact hrest en
    | some p =>
      obtain ⟨subs, ca⟩ := p
      simp only
      obtain ⟨c, hl, hden⟩ := hF.lookupDecl hE hns hd
      rw [hl]
      simp only
      obtain ⟨_, _, c', hden', _, _, _, henum⟩ := typeLegal_parts (legal_of_typeDecl hL hd)
      rw [hden] at hden'
      cases hden'
      obtain ⟨hsubs, fields, hopt, hcheck, _⟩ := enumLegal_parts henum he
      have hA := hF.inv.below hE.ok
      obtain ⟨fields', hf'⟩ := subtypeFields_ok hE hA hsubs
      have := subtypeFields_denote hE.ok hf'
      rw [hopt] at this
      cases this
      rw [hf']
      simp only
      have hset : setEnumerated st (ns, d.name) c fields = .ok () := by
        unfold setEnumerated
        rw [hF.parentEq hE]
        exact enumCheck_mono (hF.subtypes_sub hE (ns, d.name)) hcheck
      rw [hset]
      exact hrest _

theorem hasEnum_lookup {en : EnumMap} {k} (h : hasEnum en k = true) : ∃ fs' ca, en.lookup k = some (fs', ca) := by
  unfold hasEnum at h
  split at h
  · rename_i fs' ca hl; exact ⟨fs', ca, hl⟩
  · cases h

theorem enumSecond_ok {rx E fs st ns en} (hE : EnvOK2 E fs) (hL : DeclsLegal rx fs) (hF : Final rx E fs st)
    (hEn : EnInv rx E fs en) : ∀ {ds : List TypeDecl}, (∀ d, d ∈ ds → d ∈ typeDecls (declsOf fs ns)) →
      enumSecond st ns en ds = .ok ()
  | [], _ => rfl
  | d :: ds, hm => by
    have hd := hm d List.mem_cons_self
    have ih := enumSecond_ok hE hL hF hEn (ds := ds) (fun d' h' => hm d' (List.mem_cons_of_mem _ h'))
    simp only [enumSecond]
    by_cases hc : (hasEnum en (ns, d.name) && d.kind == .struct) = true
    · simp only [hc, ↓reduceIte]
      simp only [Bool.and_eq_true] at hc
      obtain ⟨fs', ca, hlk⟩ := hasEnum_lookup hc.1
      rw [hlk]
      simp only
      obtain ⟨d', subs, hd', hen', hopt⟩ := hEn _ _ (mem_of_lookup hlk)
      rw [hE.ok.lookup_type hd] at hd'
      cases hd'
      simp only at hen' hopt
      obtain ⟨_, _, c, hden, _, _, _, henum⟩ := typeLegal_parts (legal_of_typeDecl hL hd)
      obtain ⟨_, fields, hopt', hcheck, hall⟩ := enumLegal_parts henum hen'
      rw [hopt] at hopt'
      cases hopt'
      have hparents := (enumCheck_facts hcheck).2
      have hno : (fs'.any fun p => !hasEnum en p.2 && !(subtypesOf st p.2).isEmpty) = false := by
        rw [Bool.eq_false_iff, ne_eq, List.any_eq_true]
        rintro ⟨p, hp, hcond⟩
        simp only [Bool.and_eq_true, Bool.not_eq_eq_eq_not, Bool.not_true] at hcond
        have hor := hall p hp
        simp only [Bool.or_eq_true] at hor
        rcases hor with hor | hor
        · exact no_enum_of_child hL hor (hparents p hp)
        · have := isEmpty_of_sub (hF.subtypes_sub hE p.2) hor
          rw [this] at hcond
          cases hcond.2
      simp only [hno, Bool.false_eq_true, ↓reduceIte]
      exact ih
    · simp only [hc, Bool.false_eq_true, ↓reduceIte]
      exact ih

theorem pass5_ok {rx E fs st} (hE : EnvOK2 E fs) (hL : DeclsLegal rx fs) (hF : Final rx E fs st) :
    ∀ {nss : List String} {en}, (∀ ns, ns ∈ nss → ns ∈ E.nss) → EnInv rx E fs en →
      ∃ en', pass5Nss rx E st en nss = .ok en'
  | [], en, _, _ => ⟨en, rfl⟩
  | ns :: nss, en, hns, hEn => by
    simp only [pass5Nss, hE.ok.files]
    obtain ⟨en1, h1⟩ := enumFirst_ok hE hL hF (hns ns List.mem_cons_self) (ns := ns)
      (ds := typeDecls (declsOf fs ns)) (en := en) (fun _ h => h)
    obtain ⟨hEn1, _, _⟩ := enumFirst_inv hE.ok (fun d hm => hE.ok.lookup_type hm) hEn h1
    have h2 := enumSecond_ok hE hL hF hEn1 (ns := ns) (ds := typeDecls (declsOf fs ns)) (fun _ h => h)
    obtain ⟨en', h3⟩ := pass5_ok hE hL hF (nss := nss) (en := en1) (fun ns' h' => hns ns' (List.mem_cons_of_mem _ h')) hEn1
    exact ⟨en', by simp only [h1, h2, h3]⟩

/-! ## all passes -/

theorem pass6Nss_names {rx E A} : ∀ {nss : List String} {L}, pass6Nss rx E A nss = .ok L → L.map (·.1) = nss :=
  fun h => (pass6Nss_spec h).1

/-- **legal declarations are compiled**: on a built environment, passes 3 - 6 and the assembly succeed -/
theorem compileEnv_ok {rx E fs} (hE : EnvOK2 E fs) (hL : DeclsLegal rx fs) : ∃ api, compileEnv rx E = .ok api := by
  obtain ⟨st, h3, hJ, hc⟩ := pass3_ok hE hL
  have hF : Final rx E fs st := ⟨hJ.inv, hc⟩
  have h4 := pass4_ok hE hL hF (l := nsTypeDecls E) (fun p hp => nsTypeDecls_mem hE.ok.files hp)
  obtain ⟨en, h5⟩ := pass5_ok hE hL hF (nss := E.nss) (en := []) (fun _ h => h) (by intro k v hm; simp at hm)
  obtain ⟨L, h6⟩ := pass6_ok hE hL (hJ.inv.below hE.ok) E.nss
  have hnames := pass6Nss_names h6
  obtain ⟨outs, h7⟩ := assemble_ok (en := en) hE.ok.files hc (L := L) (by
    intro p hp
    rw [← hnames]
    exact List.mem_map.mpr ⟨p, hp, rfl⟩)
  exact ⟨{ nss := outs }, by simp only [compileEnv, h3, h4, h5, h6, h7]⟩

end StoneVerif.FeCompile.L
