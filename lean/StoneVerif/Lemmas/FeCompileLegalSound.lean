import StoneVerif.Lemmas.FeCompileLegalAccept
set_option linter.unusedSimpArgs false
/-!
What the compileCore model accepts obeys the rules: the checks that passes 3 - 6 made, at whatever moment and in whatever
order, add up to the order-free clauses of `LegalCore`.
-/
namespace StoneVerif.FeCompile.L
open StoneVerif.FeCompile
open StoneVerif.FeParams (TyKind)

/-- the tests `_create_struct_field` / `_create_union_field` made on a member, aliases not looked into -/
def MemberStat (rx : String → Bool) (fs : List File) (ns : String) (isStruct : Bool) (f : AField) : Prop :=
  if isStruct then
    ∃ r t, f.ty = some r ∧ refStatic rx fs ns r = true ∧ denoteRef rx fs ns r = some t ∧ t.isVoid = false ∧
      (t.isNullable && f.hasDefault) = false
  else
    (f.name == "other") = false ∧
      (f.ty = none ∨ ∃ r t, f.ty = some r ∧ refStatic rx fs ns r = true ∧ denoteRef rx fs ns r = some t ∧ t.isVoid = false)

/-- the tests pass 3 made on a type, aliases not looked into -/
structure TypeStat (rx : String → Bool) (fs : List File) (ns : String) (d : TypeDecl) (c : CType) : Prop where
  ext : extendsLegal rx fs ns d = true
  members : ∀ f, f ∈ d.fields → MemberStat rx fs ns (d.kind == .struct) f
  nodup : dupName (c.fields.map (·.name)) = false
  anc : ∃ anc, ancestorNames (typeS rx fs) (fuelT fs) c.parent = .ok anc ∧ (c.fields.any fun f => anc.contains f.name) = false

/-- the invariant of pass 3 on accepted input -/
structure K (rx : String → Bool) (E : Env) (fs : List File) (st : St) : Prop where
  inv : Inv rx E fs st
  aliasStat : ∀ k t, (k, t) ∈ st.aliases → ∃ r, E.items.lookup k = some (.alias r) ∧ refStatic rx fs k.1 r = true ∧
    ∀ u, u ∈ nullRefs t → u ∈ st.nrefs
  typeStat : ∀ k c, (k, c) ∈ st.done → ∃ d, E.items.lookup k = some (.type d) ∧ TypeStat rx fs k.1 d c ∧
    ∀ f, f ∈ c.fields → ∀ u, u ∈ nullRefs f.ty → u ∈ st.nrefs

theorem K.init {rx E fs} : K rx E fs {} := ⟨Inv.init, by simp, by simp⟩

/-- more recorded `?` keep the invariant -/
theorem K.grow {rx E fs st} (hK : K rx E fs st) (l : List Ty) : K rx E fs { st with nrefs := st.nrefs ++ l } :=
  ⟨hK.inv.nrefs _,
   fun k t hm => by
     obtain ⟨r, h1, h2, h3⟩ := hK.aliasStat k t hm
     exact ⟨r, h1, h2, fun u hu => List.mem_append_left _ (h3 u hu)⟩,
   fun k c hm => by
     obtain ⟨d, h1, h2, h3⟩ := hK.typeStat k c hm
     exact ⟨d, h1, h2, fun f hf u hu => List.mem_append_left _ (h3 f hf u hu)⟩⟩

theorem anc_up {types types' : Key → Option CType} (hle : ∀ k c, types k = some c → types' k = some c) :
    ∀ (f : Nat) {par anc}, ancestorNames types f par = .ok anc → ancestorNames types' f par = .ok anc
  | _, none, anc, h => by simpa [ancestorNames] using h
  | 0, some p, anc, h => by simp [ancestorNames] at h
  | f + 1, some p, anc, h => by
    simp only [ancestorNames] at h ⊢
    cases hc : types p with
    | none => rw [hc] at h; cases h
    | some c =>
      rw [hc] at h
      rw [hle p c hc]
      simp only at h ⊢
      cases ha : ancestorNames types f c.parent with
      | error e => rw [ha] at h; cases h
      | ok anc' =>
        rw [ha] at h
        rw [anc_up hle f ha]
        exact h

theorem mapFields_forall {g : AField → Except Err CField} : ∀ {l : List AField} {cs}, mapFields g l = .ok cs →
    ∀ f, f ∈ l → ∃ c, g f = .ok c
  | [], cs, _, f, hf => by simp at hf
  | f0 :: l, cs, h, f, hf => by
    simp only [mapFields] at h
    split at h
    · cases h
    · rename_i c0 hc0
      split at h
      · cases h
      · rename_i cs0 hcs0
        simp only [List.mem_cons] at hf
        rcases hf with rfl | hf
        · exact ⟨c0, hc0⟩
        · exact mapFields_forall hcs0 f hf

theorem structField_stat {rx E fs A ns f c} (hE : EnvOK2 E fs) (h : structField rx E A ns f = .ok c) :
    MemberStat rx fs ns true f := by
  unfold structField at h
  simp only [MemberStat, ↓reduceIte]
  split at h
  · cases h
  · rename_i r hr
    split at h
    · cases h
    · rename_i t ht
      split at h
      · cases h
      · rename_i hv
        split at h
        · cases h
        · rename_i hn
          exact ⟨r, t, hr, resolveW_static hE r ht, resolve_denote hE.ok ht, by simpa using hv, by simpa using hn⟩

theorem unionField_stat {rx E fs A ns f c} (hE : EnvOK2 E fs) (h : unionField rx E A ns f = .ok c) :
    MemberStat rx fs ns false f := by
  unfold unionField at h
  simp only [MemberStat, Bool.false_eq_true, ↓reduceIte]
  split at h
  · cases h
  · rename_i hname
    refine ⟨by simpa using hname, ?_⟩
    split at h
    · rename_i hr; exact Or.inl hr
    · rename_i r hr
      split at h
      · cases h
      · rename_i t ht
        split at h
        · cases h
        · rename_i hv
          exact Or.inr ⟨r, t, hr, resolveW_static hE r ht, resolve_denote hE.ok ht, by simpa using hv⟩

/-- where the parent slot handed to `populateStep` comes from -/
def ParentSrc (rx : String → Bool) (fs : List File) (ns : String) (d : TypeDecl) : Option Ty → Prop
  | none => d.extends = none
  | some t' => ∃ r, d.extends = some r ∧ refStatic rx fs ns r = true ∧ denoteRef rx fs ns r = some t' ∧
      (r.head.nullable = true → ∃ t, t' = .nullable t)

theorem ParentSrc.den {rx fs ns d pty} (h : ParentSrc rx fs ns d pty) : ParentDen rx fs ns d pty := by
  cases pty with
  | none => exact h
  | some t' => obtain ⟨r, h1, _, h3, _⟩ := h; exact ⟨r, h1, h3⟩

theorem setAttributes_facts {fu st key c st'} (h : setAttributes fu st key c = .ok st') :
    dupName (c.fields.map (·.name)) = false ∧
      ∃ anc, ancestorNames (typesOf st.done) fu c.parent = .ok anc ∧ (c.fields.any fun f => anc.contains f.name) = false := by
  unfold setAttributes at h
  split at h
  · cases h
  · rename_i hd
    split at h
    · cases h
    · rename_i anc ha
      split at h
      · cases h
      · rename_i hany
        exact ⟨by simpa using hd, anc, ha, by simpa using hany⟩

theorem populateStep_sound {rx E fs st1 key d pty st'} (hE : EnvOK2 E fs) (hK : K rx E fs st1)
    (hk : E.items.lookup key = some (.type d)) (hp : ParentSrc rx fs key.1 d pty)
    (h : populateStep rx E st1 key d pty = .ok st') : K rx E fs st' := by
  have hinv := populateStep_inv hE.ok hK.inv hk hp.den h
  have hle : ∀ k c, typesOf st1.done k = some c → typeS rx fs k = some c := fun k c hl => hK.inv.typesBelow hE.ok hl
  unfold populateStep at h
  split at h
  · -- struct
    rename_i hkind
    split at h
    · cases h
    · rename_i parent hpar
      split at h
      · cases h
      · rename_i fields hfields
        obtain ⟨hdup, anc, hanc, hany⟩ := setAttributes_facts h
        have hst := setAttributes_ok h
        subst hst
        have hext : extendsLegal rx fs key.1 d = true := by
          cases pty with
          | none => exact extendsLegal_none hp
          | some t' =>
            obtain ⟨r, h1, h2, h3, h4⟩ := hp
            simp only [structParentOpt] at hpar
            split at hpar
            · rename_i p hsp
              obtain ⟨rfl, hkd⟩ := structParent_ok hsp
              have hnn : r.head.nullable = false := by
                cases hb : r.head.nullable with
                | false => rfl
                | true => obtain ⟨t, ht⟩ := h4 hb; cases ht
              unfold extendsLegal
              simp only [h1, hnn, h2, h3, hkind, ← hE.ok.kindOf_eq, hkd, Bool.not_false, Bool.and_self]
            · cases hpar
        refine ⟨hinv, ?_, ?_⟩
        · intro k t hm
          obtain ⟨r, h1, h2, h3⟩ := hK.aliasStat k t hm
          exact ⟨r, h1, h2, fun u hu => List.mem_append_left _ (h3 u hu)⟩
        · intro k c hm
          simp only [List.mem_cons] at hm
          rcases hm with hm | hm
          · cases hm
            refine ⟨d, hk, ⟨hext, ?_, hdup, anc, ?_, hany⟩, ?_⟩
            · intro f hf
              obtain ⟨c', hc'⟩ := mapFields_forall hfields f hf
              simp only [hkind, beq_self_eq_true]
              exact structField_stat hE hc'
            · rw [← populateFuel_eq hE.ok]
              exact anc_up hle _ hanc
            · intro f hf u hu
              exact List.mem_append_right _ (List.mem_flatMap.mpr ⟨f, hf, hu⟩)
          · obtain ⟨d', h1, h2, h3⟩ := hK.typeStat k c hm
            exact ⟨d', h1, h2, fun f hf u hu => List.mem_append_left _ (h3 f hf u hu)⟩
  · -- union
    rename_i closed hkind
    split at h
    · cases h
    · rename_i parent hpar
      split at h
      · cases h
      · rename_i fields hfields
        split at h
        · cases h
        · rename_i hopen
          obtain ⟨hdup, anc, hanc, hany⟩ := setAttributes_facts h
          have hst := setAttributes_ok h
          subst hst
          have hext : extendsLegal rx fs key.1 d = true := by
            cases pty with
            | none => exact extendsLegal_none hp
            | some t' =>
              obtain ⟨r, h1, h2, h3, h4⟩ := hp
              simp only [unionParentOpt] at hpar
              split at hpar
              · rename_i pq hsp
                obtain ⟨p, pc⟩ := pq
                obtain ⟨rfl, hkd⟩ := unionParent_ok hsp
                cases hpar
                have hnn : r.head.nullable = false := by
                  cases hb : r.head.nullable with
                  | false => rfl
                  | true => obtain ⟨t, ht⟩ := h4 hb; cases ht
                unfold extendsLegal
                simp only [h1, hnn, h2, h3, hkind, ← hE.ok.kindOf_eq, hkd, Bool.not_false, Bool.true_and]
                cases closed <;> cases pc <;> simp [parentIsOpen] at hopen ⊢
              · cases hpar
          have hkb : (TypeKind.union closed == TypeKind.struct) = false := by cases closed <;> rfl
          refine ⟨hinv, ?_, ?_⟩
          · intro k t hm
            obtain ⟨r, h1, h2, h3⟩ := hK.aliasStat k t hm
            exact ⟨r, h1, h2, fun u hu => List.mem_append_left _ (h3 u hu)⟩
          · intro k c hm
            simp only [List.mem_cons] at hm
            rcases hm with hm | hm
            · cases hm
              refine ⟨d, hk, ⟨hext, ?_, hdup, anc, ?_, hany⟩, ?_⟩
              · intro f hf
                obtain ⟨c', hc'⟩ := mapFields_forall hfields f hf
                simp only [hkind, hkb]
                exact unionField_stat hE hc'
              · rw [← populateFuel_eq hE.ok]
                exact anc_up hle _ hanc
              · intro f hf u hu
                simp only [unionCType] at hf
                split at hf
                · simp only [List.mem_append, List.mem_singleton] at hf
                  rcases hf with hf | rfl
                  · exact List.mem_append_right _ (List.mem_flatMap.mpr ⟨f, hf, hu⟩)
                  · simp [otherField, tyVoid, nullRefs] at hu
                · exact List.mem_append_right _ (List.mem_flatMap.mpr ⟨f, hf, hu⟩)
            · obtain ⟨d', h1, h2, h3⟩ := hK.typeStat k c hm
              exact ⟨d', h1, h2, fun f hf u hu => List.mem_append_left _ (h3 f hf u hu)⟩

theorem populate_sound {rx E fs} (hE : EnvOK2 E fs) : ∀ (fuel : Nat) {prog st key d st'}, K rx E fs st →
    E.items.lookup key = some (.type d) → populate rx E fuel prog st key d = .ok st' → K rx E fs st'
  | 0, _, _, _, _, _, _, _, h => by simp [populate] at h
  | fuel + 1, prog, st, key, d, st', hK, hk, h => by
    simp only [populate] at h
    split at h
    · rename_i hext
      exact populateStep_sound hE hK hk (show ParentSrc rx fs key.1 d none from hext) h
    · rename_i r hext
      split at h
      · cases h
      · rename_i t ht
        split at h
        · cases h
        · rename_i st1 hst1
          split at h
          · cases h
          · rename_i t' ht'
            have hK1 : K rx E fs st1 := by
              split at hst1
              · rename_i k
                split at hst1
                · cases hst1; exact hK
                · split at hst1
                  · cases hst1
                  · split at hst1
                    · rename_i d' hd'
                      exact populate_sound hE fuel hK hd' hst1
                    · cases hst1
              · cases hst1; exact hK
            refine populateStep_sound hE (hK1.grow _) hk ?_ h
            obtain ⟨t0, hd, ht0⟩ := resolveW_denote hE.ok r ht
            simp only [Bool.false_eq_true, ↓reduceIte] at ht0
            subst ht0
            have hw := wrapNull_ok ht'
            show ∃ r, _
            refine ⟨r, hext, resolveW_static hE r ht, ?_, ?_⟩
            · rw [hd, hw]; simp [nullableMeaning]
            · intro hb; rw [hw, hb]; exact ⟨t, rfl⟩

theorem setAlias_sound {rx E fs st ns name r st'} (hE : EnvOK2 E fs) (hK : K rx E fs st)
    (hk : E.items.lookup (ns, name) = some (.alias r)) (h : setAlias rx E st ns name r = .ok st') : K rx E fs st' := by
  have hinv := setAlias_inv hE.ok hK.inv hk h
  unfold setAlias at h
  split at h
  · cases h
  · rename_i t ht
    split at h <;> try cases h
    refine ⟨hinv, ?_, ?_⟩
    · intro k t' hm
      simp only [List.mem_cons] at hm
      rcases hm with hm | hm
      · cases hm
        exact ⟨r, hk, resolveW_static hE r ht, fun u hu => List.mem_append_right _ hu⟩
      · obtain ⟨r', h1, h2, h3⟩ := hK.aliasStat k t' hm
        exact ⟨r', h1, h2, fun u hu => List.mem_append_left _ (h3 u hu)⟩
    · intro k c hm
      obtain ⟨d', h1, h2, h3⟩ := hK.typeStat k c hm
      exact ⟨d', h1, h2, fun f hf u hu => List.mem_append_left _ (h3 f hf u hu)⟩

theorem setAliases_sound {rx E fs ns} (hE : EnvOK2 E fs) : ∀ {as : List (String × TRef)} {st st'}, K rx E fs st →
    (∀ n r, (n, r) ∈ as → E.items.lookup (ns, n) = some (.alias r)) → setAliases rx E st ns as = .ok st' → K rx E fs st'
  | [], st, st', hK, _, h => by simp only [setAliases] at h; cases h; exact hK
  | (n, r) :: as, st, st', hK, hl, h => by
    simp only [setAliases] at h
    split at h
    · cases h
    · rename_i st1 h1
      exact setAliases_sound hE (setAlias_sound hE hK (hl n r List.mem_cons_self) h1)
        (fun n' r' hm => hl n' r' (List.mem_cons_of_mem _ hm)) h

theorem populateAll_sound {rx E fs ns} (hE : EnvOK2 E fs) : ∀ {ds : List TypeDecl} {st st'}, K rx E fs st →
    (∀ d, d ∈ ds → E.items.lookup (ns, d.name) = some (.type d)) → populateAll rx E st ns ds = .ok st' → K rx E fs st'
  | [], st, st', hK, _, h => by simp only [populateAll] at h; cases h; exact hK
  | d :: ds, st, st', hK, hl, h => by
    simp only [populateAll] at h
    split at h
    · exact populateAll_sound hE hK (fun d' hm => hl d' (List.mem_cons_of_mem _ hm)) h
    · split at h
      · cases h
      · rename_i st1 h1
        exact populateAll_sound hE (populate_sound hE _ hK (hl d List.mem_cons_self) h1)
          (fun d' hm => hl d' (List.mem_cons_of_mem _ hm)) h

theorem pass3Nss_sound {rx E fs} (hE : EnvOK2 E fs) : ∀ {nss : List String} {st st'}, K rx E fs st →
    pass3Nss rx E st nss = .ok st' → K rx E fs st'
  | [], st, st', hK, h => by simp only [pass3Nss] at h; cases h; exact hK
  | ns :: nss, st, st', hK, h => by
    simp only [pass3Nss] at h
    split at h
    · cases h
    · rename_i st1 h1
      split at h
      · cases h
      · rename_i st2 h2
        rw [hE.ok.files] at h1 h2
        have hK1 := setAliases_sound hE hK (fun n r hm => hE.ok.lookup_alias hm) h1
        have hK2 := populateAll_sound hE hK1 (fun d hm => hE.ok.lookup_type hm) h2
        exact pass3Nss_sound hE hK2 h

theorem recheck_sound {fuel look} : ∀ {l : List Ty}, recheckNullable fuel look l = .ok () → ∀ u, u ∈ l → nullOK look fuel u = true
  | [], _, u, hu => by simp at hu
  | u0 :: l, h, u, hu => by
    simp only [recheckNullable] at h
    simp only [List.mem_cons] at hu
    split at h
    · cases h
    · cases h
    · cases h
    · rename_i hn1 hn2 heq
      rcases hu with rfl | hu
      · unfold nullOK
        rw [heq]
        split
        · rename_i he; cases he; exact absurd rfl (hn1 _)
        · rename_i he; cases he; exact absurd rfl hn2
        · rfl
        · rename_i he; cases he
      · exact recheck_sound h u hu

/-- pass 3 accepted: the static tests hold of every entry, and every recorded `?` is legal with the final targets -/
theorem pass3_sound {rx E fs st} (hE : EnvOK2 E fs) (h : pass3 rx E = .ok st) :
    K rx E fs st ∧ ∀ u, u ∈ st.nrefs → nullOK (lookOf st.aliases) (aliasFuel E) u = true := by
  unfold pass3 at h
  split at h
  · cases h
  · rename_i st0 h0
    split at h
    · cases h
    · rename_i hre
      cases h
      exact ⟨pass3Nss_sound hE K.init h0, recheck_sound hre⟩

end StoneVerif.FeCompile.L
