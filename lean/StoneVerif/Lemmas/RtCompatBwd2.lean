import StoneVerif.Lemmas.RtCompatBwd
/-!
Helper lemmas for C07, part 11 (backward direction): `validate_type_only` and `validate` from the older to the newer spec.
-/
namespace StoneVerif.Rt.Compat
open StoneVerif.Rt

theorem tyWF_B_struct {ρ : Rho} {A B : Env} (cx : Ctx ρ A B) {f g : Flags} {c c' : String}
    (hw : tyWF A (.struct f c) = true) (hr : ρ.rel c c' = true) : ∃ sa sb, A.struct? c = some sa ∧ B.struct? c' = some sb := by
  obtain ⟨sa, hsa⟩ := tyWF_struct hw
  obtain ⟨sb, hsb⟩ := struct_related cx hr hsa
  exact ⟨sa, sb, hsa, hsb⟩

theorem validateTypeOnly_lift {ρ : Rho} {A B : Env} (cx : Ctx ρ A B) {tA tB : PTy} (h : tySub ρ tA tB = true)
    (hw : tyWF A tA = true) (x : PyVal) (hv : validateTypeOnly A tA x = .ok ()) :
    validateTypeOnly B tB (lift ρ B tB x) = .ok () := by
  have hn := tySub_nullable h
  cases x with
  | none =>
    rw [lift_none]
    unfold validateTypeOnly at hv ⊢
    rw [← hn]
    by_cases hnl : tA.flags.nullable = true
    · simp [hnl]
    · simp only [hnl, Bool.false_and, Bool.false_eq_true, if_false] at hv
      cases tA <;> simp [structTypeOk, unionTypeOk, verr, crash] at hv
  | struct sc slots =>
    unfold validateTypeOnly at hv
    simp only [Bool.and_false, Bool.false_eq_true, if_false] at hv
    cases tA <;> cases tB <;> simp only [tySub, Bool.false_eq_true, Bool.and_eq_true, beq_iff_eq] at h <;>
      simp only [crash, reduceCtorEq, unionTypeOk, verr, Bool.false_eq_true, if_false] at hv
    case struct.struct f c g c' =>
      obtain ⟨sa, hsa⟩ := tyWF_struct hw
      obtain ⟨sb, hsb⟩ := struct_related cx h.2 hsa
      rw [lift_struct_struct]
      simp [validateTypeOnly, structTypeOk, structSubclass_self cx.wfB hsb]
    case tree.tree f c g c' =>
      obtain ⟨sa, hsa⟩ := tyWF_tree hw
      obtain ⟨sb, hsb⟩ := struct_related cx h.2 hsa
      rw [lift_tree_struct]
      simp [validateTypeOnly, structTypeOk, structSubclass_treeClassB cx.wfB hsb]
  | union uc tag p =>
    unfold validateTypeOnly at hv
    simp only [Bool.and_false, Bool.false_eq_true, if_false] at hv
    cases tA <;> cases tB <;> simp only [tySub, Bool.false_eq_true, Bool.and_eq_true, beq_iff_eq] at h <;>
      simp only [crash, reduceCtorEq, structTypeOk, verr, Bool.false_eq_true, if_false] at hv
    case union.union f c g c' =>
      obtain ⟨ua, hua⟩ := tyWF_union hw
      obtain ⟨ub, hub⟩ := union_related cx h.2 hua
      obtain ⟨p', hvw⟩ := lift_union_shape ρ B g c' uc tag p
      rw [hvw]
      simp [validateTypeOnly, unionTypeOk, unionSubclass_self cx.wfB hub]
  | _ =>
    exfalso
    unfold validateTypeOnly at hv
    cases tA <;> simp [structTypeOk, unionTypeOk, verr, crash] at hv

/-- every field of B's table is readable on the instance seen under B, when every field of A's table was readable -/
theorem fieldsOk_lift {ρ : Rho} {B : Env} {fa fb fb' : List FieldDef} (hrel : FieldsRel ρ B fa fb)
    (hnd : nodupS (fb'.map (·.name)) = true) (hnames : ∀ g ∈ fb, g.name ∈ fb'.map (·.name))
    (slots : List (String × PyVal)) (hall : fa.all (fun f => attrHas f slots) = true) :
    (fb.all fun g => attrHas g (orderSlots fb' (liftSlots ρ B fb' slots))) = true := by
  rw [List.all_eq_true] at hall ⊢
  intro g hg
  apply attrHas_orderLift ρ B hnd slots (hnames g hg)
  rcases fieldsRel_partner hrel hg with ⟨f, hf, hsub⟩ | ⟨_, hnew⟩
  · have hp := fieldSub_parts hsub
    exact .inl ⟨f, fieldSub_name hsub, hp.2.2.1, hp.2.2.2.2, hall f hf⟩
  · exact .inr hnew

mutual
theorem validate_lift (E : Ext) {ρ : Rho} {A B : Env} (cx : Ctx ρ A B) :
    ∀ (x : PyVal) (tA tB : PTy) (x' : PyVal), tySub ρ tA tB = true → tyWF A tA = true →
      validate E A tA x = .ok x' → validate E B tB (lift ρ B tB x) = .ok (lift ρ B tB x')
  | x, tA, tB, x', h, hw, hv => by
    by_cases hp : isPrimTy tB = true
    · rw [lift_prim ρ B hp, lift_prim ρ B hp, ← validate_prim_sub E A B h hp]
      exact hv
    · have hn := tySub_nullable h
      by_cases hnone : (tA.flags.nullable && isNoneV x) = true
      · have hxn : x = .none := by cases x <;> simp_all [isNoneV]
        subst hxn
        simp only [Bool.and_eq_true] at hnone
        have : x' = .none := by
          unfold validate at hv
          simp [hnone.1] at hv
          exact hv.symm
        subst this
        rw [lift_none]
        unfold validate
        simp [← hn, hnone.1]
      · cases tA <;> cases tB <;> simp only [tySub, Bool.false_eq_true, Bool.and_eq_true, beq_iff_eq] at h <;>
          simp only [isPrimTy, not_true_eq_false] at hp
        case list.list f ia a b g ib a' b' =>
          obtain ⟨⟨⟨hfl, hi⟩, ha⟩, hb⟩ := h
          subst ha; subst hb
          simp only [PTy.flags] at hnone hn
          have hwi : tyWF A ia = true := by simpa [tyWF] using hw
          cases x with
          | list xs =>
            unfold validate at hv
            simp only [PTy.flags, isNoneV, Bool.and_false, Bool.false_eq_true, if_false] at hv
            split at hv
            · cases hv
            · split at hv
              · cases hv
              · rename_i h1 h2
                cases hl : validateList E A ia xs with
                | error e => simp [hl, Except.map] at hv
                | ok ys =>
                  simp only [hl, Except.map, Except.ok.injEq] at hv
                  subst hv
                  have ih := validateList_lift E cx xs ia ib ys hi hwi hl
                  rw [lift_list_list, lift_list_list]
                  unfold validate
                  simp only [PTy.flags, Bool.and_false, Bool.false_eq_true, if_false, liftList_length, h1, h2, ih, Except.map]
          | tuple xs =>
            unfold validate at hv
            simp only [PTy.flags, isNoneV, Bool.and_false, Bool.false_eq_true, if_false] at hv
            split at hv
            · cases hv
            · split at hv
              · cases hv
              · rename_i h1 h2
                cases hl : validateList E A ia xs with
                | error e => simp [hl, Except.map] at hv
                | ok ys =>
                  simp only [hl, Except.map, Except.ok.injEq] at hv
                  subst hv
                  have ih := validateList_lift E cx xs ia ib ys hi hwi hl
                  have hv2 : lift ρ B (.list g ib a b) (.tuple xs) = .tuple (liftList ρ B ib xs) := by unfold lift; rfl
                  rw [hv2, lift_list_list]
                  unfold validate
                  simp only [PTy.flags, Bool.and_false, Bool.false_eq_true, if_false, liftList_length, h1, h2, ih, Except.map]
          | none => simp [isNoneV] at hnone; unfold validate at hv; simp [PTy.flags, hnone, verr] at hv
          | _ => unfold validate at hv; simp [PTy.flags, verr] at hv
        case map.map f ka va g kb vb =>
          obtain ⟨⟨hfl, hk⟩, hvt⟩ := h
          simp only [PTy.flags] at hnone hn
          have hwk : isPrimTy ka = true ∧ tyWF A va = true := by
            simp only [tyWF, Bool.and_eq_true] at hw
            refine ⟨?_, hw.2⟩
            cases ka <;> simp_all [isPrimTy]
          cases x with
          | dict kvs =>
            unfold validate at hv
            simp only [PTy.flags, isNoneV, Bool.and_false, Bool.false_eq_true, if_false] at hv
            cases hl : validateDict E A ka va kvs with
            | error e => simp [hl, Except.map] at hv
            | ok ys =>
              simp only [hl, Except.map, Except.ok.injEq] at hv
              subst hv
              have ih := validateDict_lift E cx kvs ka kb va vb ys hk hvt hwk.1 hwk.2 hl
              rw [lift_map_dict, lift_map_dict]
              unfold validate
              simp only [PTy.flags, Bool.and_false, Bool.false_eq_true, if_false, ih, Except.map]
          | none => simp [isNoneV] at hnone; unfold validate at hv; simp [PTy.flags, hnone, verr] at hv
          | _ => unfold validate at hv; simp [PTy.flags, verr] at hv
        case struct.struct f c g c' =>
          obtain ⟨hfl, hr⟩ := h
          simp only [PTy.flags] at hnone hn
          obtain ⟨sa, hsa⟩ := tyWF_struct hw
          obtain ⟨sb, hsb⟩ := struct_related cx hr hsa
          have hrel := fieldsRel_public cx.compat cx.wfA cx.wfB hr hsa
          cases x with
          | struct sc slots =>
            unfold validate at hv
            simp only [PTy.flags, isNoneV, Bool.and_false, Bool.false_eq_true, if_false] at hv
            split at hv
            · cases hv
            · split at hv
              · cases hv
              · rename_i h1 h2
                cases hv
                rw [structFieldsOk_eq hsa] at h2
                simp only [Bool.not_eq_true, Bool.not_eq_false'] at h2
                rw [lift_struct_struct]
                unfold validate
                simp only [PTy.flags, Bool.and_false, Bool.false_eq_true, if_false, structTypeOk,
                  structSubclass_self cx.wfB hsb, Bool.not_true, structFieldsOk_eq hsb]
                have := fieldsOk_lift hrel hrel.nodupB (fun g' hg' => List.mem_map.mpr ⟨g', hg', rfl⟩) slots h2
                simp [this]
          | none => simp [isNoneV] at hnone; unfold validate at hv; simp [PTy.flags, hnone, verr, structTypeOk] at hv
          | _ => unfold validate at hv; simp [PTy.flags, verr, structTypeOk] at hv
        case tree.tree f c g c' =>
          obtain ⟨hfl, hr⟩ := h
          simp only [PTy.flags] at hnone hn
          obtain ⟨sa, hsa⟩ := tyWF_tree hw
          obtain ⟨sb, hsb⟩ := struct_related cx hr hsa
          have hrel := fieldsRel_public cx.compat cx.wfA cx.wfB hr hsa
          cases x with
          | struct sc slots =>
            unfold validate at hv
            simp only [PTy.flags, isNoneV, Bool.and_false, Bool.false_eq_true, if_false] at hv
            split at hv
            · cases hv
            · split at hv
              · cases hv
              · rename_i h1 h2
                cases hv
                rw [structFieldsOk_eq hsa] at h2
                simp only [Bool.not_eq_true, Bool.not_eq_false'] at h2
                rw [lift_tree_struct]
                have hsubc := structSubclass_treeClassB (ρ := ρ) (c := sc) cx.wfB hsb
                obtain ⟨_, _, _, _, hpre⟩ := publicFields_prefix (envWFX_of_envWFU cx.wfuB) hsubc
                unfold validate
                simp only [PTy.flags, Bool.and_false, Bool.false_eq_true, if_false, structTypeOk,
                  hsubc, Bool.not_true, structFieldsOk_eq hsb]
                have := fieldsOk_lift hrel (publicFields_nodup cx.wfB (treeClassB ρ B c' sc))
                  (attrsPrefix_names hpre) slots h2
                simp [this]
          | none => simp [isNoneV] at hnone; unfold validate at hv; simp [PTy.flags, hnone, verr, structTypeOk] at hv
          | _ => unfold validate at hv; simp [PTy.flags, verr, structTypeOk] at hv
        case union.union f c g c' =>
          obtain ⟨hfl, hr⟩ := h
          simp only [PTy.flags] at hnone hn
          obtain ⟨ua, hua⟩ := tyWF_union hw
          obtain ⟨ub, hub⟩ := union_related cx hr hua
          cases x with
          | union uc tag p =>
            unfold validate at hv
            simp only [PTy.flags, isNoneV, Bool.and_false, Bool.false_eq_true, if_false] at hv
            split at hv
            · cases hv
              obtain ⟨p', hvw⟩ := lift_union_shape ρ B g c' uc tag p
              rw [hvw]
              unfold validate
              simp [PTy.flags, unionTypeOk, unionSubclass_self cx.wfB hub]
            · cases hv
          | none => simp [isNoneV] at hnone; unfold validate at hv; simp [PTy.flags, hnone, verr, unionTypeOk] at hv
          | _ => unfold validate at hv; simp [PTy.flags, verr, unionTypeOk] at hv
theorem validateList_lift (E : Ext) {ρ : Rho} {A B : Env} (cx : Ctx ρ A B) :
    ∀ (xs : List PyVal) (tA tB : PTy) (ys : List PyVal), tySub ρ tA tB = true → tyWF A tA = true →
      validateList E A tA xs = .ok ys → validateList E B tB (liftList ρ B tB xs) = .ok (liftList ρ B tB ys)
  | [], tA, tB, ys, _, _, hv => by
    simp only [validateList, Except.ok.injEq] at hv
    subst hv
    simp [liftList, validateList]
  | x :: xs, tA, tB, ys, h, hw, hv => by
    simp only [validateList, bind, Except.bind] at hv
    cases h1 : validate E A tA x with
    | error e => simp [h1] at hv
    | ok y =>
      simp only [h1] at hv
      cases h2 : validateList E A tA xs with
      | error e => simp [h2] at hv
      | ok ys' =>
        simp only [h2, pure, Except.pure, Except.ok.injEq] at hv
        subst hv
        simp only [liftList, validateList, bind, Except.bind, validate_lift E cx x tA tB y h hw h1,
          validateList_lift E cx xs tA tB ys' h hw h2, pure, Except.pure]
theorem validateDict_lift (E : Ext) {ρ : Rho} {A B : Env} (cx : Ctx ρ A B) :
    ∀ (kvs : List (PyVal × PyVal)) (ka kb va vb : PTy) (ys : List (PyVal × PyVal)),
      tySub ρ ka kb = true → tySub ρ va vb = true → isPrimTy ka = true → tyWF A va = true →
      validateDict E A ka va kvs = .ok ys → validateDict E B kb vb (liftDict ρ B vb kvs) = .ok (liftDict ρ B vb ys)
  | [], ka, kb, va, vb, ys, _, _, _, _, hv => by
    simp only [validateDict, Except.ok.injEq] at hv
    subst hv
    simp [liftDict, validateDict]
  | (k, x) :: rest, ka, kb, va, vb, ys, hk, hvt, hpk, hw, hv => by
    simp only [validateDict, bind, Except.bind] at hv
    cases h0 : validate E A ka k with
    | error e => simp [h0] at hv
    | ok k' =>
      simp only [h0] at hv
      cases h1 : validate E A va x with
      | error e => simp [h1] at hv
      | ok y =>
        simp only [h1] at hv
        cases h2 : validateDict E A ka va rest with
        | error e => simp [h2] at hv
        | ok ys' =>
          simp only [h2, pure, Except.pure, Except.ok.injEq] at hv
          subst hv
          have hk' : validate E B kb k = .ok k' := by
            rw [← validate_prim_sub E A B hk (by rw [← tySub_isPrim hk]; exact hpk)]; exact h0
          simp only [liftDict, validateDict, bind, Except.bind, hk', validate_lift E cx x va vb y hvt hw h1,
            validateDict_lift E cx rest ka kb va vb ys' hk hvt hpk hw h2, pure, Except.pure]
end

end StoneVerif.Rt.Compat
