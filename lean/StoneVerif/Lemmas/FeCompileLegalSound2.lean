import StoneVerif.Lemmas.FeCompileLegalSound
set_option linter.unusedSimpArgs false
/-!
Accepted input obeys the rules, continued: the `?` of a reference resolved against the final alias targets, the alias
graph, passes 4 - 6 read backwards.
-/
namespace StoneVerif.FeCompile.L
open StoneVerif.FeCompile
open StoneVerif.FeParams (TyKind TyVal)

/-! ## the `?` checks `_resolve_type` made -/

theorem wrapNull_nullOK {fuel look t0 t} (h : wrapNull fuel look true t0 = .ok t) : nullOK look fuel t0 = true := by
  unfold wrapNull at h
  simp only [Bool.not_true, Bool.false_eq_true, ↓reduceIte] at h
  unfold nullOK
  split at h
  · cases h
  · cases h
  · cases h
  · rename_i hn1 hn2 heq
    rw [heq]
    split
    · rename_i he; cases he; exact absurd rfl (hn1 _)
    · rename_i he; cases he; exact absurd rfl hn2
    · rfl
    · rename_i he; cases he

theorem finish_nullLegal {fuel look h t0 t} (hf : finish fuel look true h t0 = .ok t)
    (h0 : tyNullLegal look fuel t0 = true) : tyNullLegal look fuel t = true := by
  have ht := finish_ok hf
  simp only [↓reduceIte] at ht
  subst ht
  unfold tyNullLegal at h0 ⊢
  rw [nullRefs_nullableMeaning]
  split
  · rename_i hn
    simp only [List.all_append, h0, List.all_cons, List.all_nil, Bool.and_true, Bool.true_and]
    unfold finish at hf
    simp only [↓reduceIte, hn] at hf
    exact wrapNull_nullOK hf
  · exact h0

theorem mkTy_nil (tv : TyVal) : nullRefs (mkTy tv []) = [] := by
  unfold mkTy
  split <;> simp_all [nullRefs]

theorem instBuiltin_nil_nullRefs {rx k lits kw t} (h : instBuiltin rx k [] lits kw = .ok t) : nullRefs t = [] := by
  unfold instBuiltin at h
  split at h
  · cases h; exact mkTy_nil _
  · cases h
  · cases h

/-- every `?` of a reference that resolved stood on something legal, as far as the aliases set at that moment show -/
theorem resolveW_nullLegal {rx E A} : ∀ (r : TRef) {cur t}, resolveW rx E A true cur r = .ok t →
    tyNullLegal (lookOf A) (aliasFuel E) t = true
  | .leaf h lits, cur, t, hr => by
    simp only [resolveW] at hr
    split at hr
    · cases hr
    · split at hr
      · cases hr
      · split at hr
        · cases hr
        · rename_i t0 hi
          exact finish_nullLegal hr (by simp [tyNullLegal, instBuiltin_nil_nullRefs hi])
    · split at hr
      · cases hr
      · rename_i t0 hn
        obtain ⟨_, ⟨d, _, rfl⟩ | ⟨r', _, rfl⟩⟩ := nonClass_ok hn
        · exact finish_nullLegal hr (by simp [tyNullLegal, nullRefs])
        · exact finish_nullLegal hr (by simp [tyNullLegal, nullRefs])
  | .app1 h a, cur, t, hr => by
    simp only [resolveW] at hr
    split at hr
    · cases hr
    · split at hr
      · cases hr
      · split at hr
        · cases hr
        · rename_i ta ha
          split at hr
          · cases hr
          · rename_i t0 hi
            obtain ⟨mn, mx, rfl⟩ := builtinMeaning_one (instBuiltin_ok hi)
            have iha := resolveW_nullLegal a ha
            exact finish_nullLegal hr (by simpa [tyNullLegal, nullRefs] using iha)
    · split at hr
      · cases hr
      · rename_i t0 hn
        have := (nonClass_ok hn).1
        cases this
  | .app2 h a b, cur, t, hr => by
    simp only [resolveW] at hr
    split at hr
    · cases hr
    · split at hr
      · cases hr
      · split at hr
        · cases hr
        · rename_i ta ha
          split at hr
          · cases hr
          · rename_i tb hb
            split at hr
            · cases hr
            · rename_i t0 hi
              have := builtinMeaning_two (instBuiltin_ok hi)
              subst this
              have iha := resolveW_nullLegal a ha
              have ihb := resolveW_nullLegal b hb
              refine finish_nullLegal hr ?_
              unfold tyNullLegal at iha ihb ⊢
              simp [nullRefs, List.all_append, iha, ihb]
    · split at hr
      · cases hr
      · rename_i t0 hn
        have := (nonClass_ok hn).1
        cases this

/-- a reference that resolved against the final alias targets is legal -/
theorem refLegal_of_resolve {rx E fs A ns r t} (hE : EnvOK2 E fs) (hlook : lookOf A = aliasS rx fs)
    (h : resolve rx E A ns r = .ok t) : refLegal rx fs ns r = true ∧ denoteRef rx fs ns r = some t := by
  have hd := resolve_denote hE.ok h
  refine ⟨?_, hd⟩
  unfold refLegal
  rw [resolveW_static hE r h, hd]
  have := resolveW_nullLegal r h
  rw [hlook, aliasFuel_eq hE.ok] at this
  simpa using this

/-! ## the alias graph -/

theorem path_to_edgeA {A : AliasMap} {a b : Key} (p : Gr.Path (aliasSucc (lookOf A)) a b) : FeCompile.Path (edgeA A) a b := by
  have hedge : ∀ x y, y ∈ aliasSucc (lookOf A) x → edgeA A x y := by
    intro x y hy
    unfold aliasSucc lookOf at hy
    cases hl : A.lookup x with
    | none => simp [hl] at hy
    | some t => rw [hl] at hy; exact ⟨t, hl, hy⟩
  induction p with
  | single he => exact .single (hedge _ _ he)
  | cons he _ ih => exact .cons (hedge _ _ he) ih

def aliasKeyOf : String × Decl → Option Key
  | (ns, .alias n _) => some (ns, n)
  | _ => none

def aliasKeys (fs : List File) : List Key := (allPairs fs).filterMap aliasKeyOf

theorem aliasDecls_append (a b : List Decl) : aliasDecls (a ++ b) = aliasDecls a ++ aliasDecls b := by
  induction a with
  | nil => rfl
  | cons x a ih => cases x <;> simp [aliasDecls, ih]

theorem aliasKeys_decls (ns : String) : ∀ ds : List Decl,
    ((ds.map fun d => (ns, d)).filterMap aliasKeyOf).length = (aliasDecls ds).length
  | [] => rfl
  | d :: ds => by
    have ih := aliasKeys_decls ns ds
    cases d <;> simp only [List.map_cons, List.filterMap_cons, aliasKeyOf, aliasDecls, List.length_cons, ih]

theorem aliasKeys_length (fs : List File) : (aliasKeys fs).length = (allAliasDecls fs).length := by
  unfold aliasKeys allAliasDecls allPairs
  induction fs with
  | nil => rfl
  | cons f fs ih =>
    simp only [List.flatMap_cons, List.filterMap_append, List.length_append, aliasDecls_append]
    rw [ih, aliasKeys_decls]

theorem aliasS_some_key {rx fs k t} (h : aliasS rx fs k = some t) : k ∈ aliasKeys fs := by
  unfold aliasS at h
  cases hf : findDef fs k.1 k.2 with
  | none => simp [hf] at h
  | some d =>
    rcases findDef_named hf with ⟨td, rfl, _⟩ | ⟨r, rfl⟩
    · simp [hf] at h
    · obtain ⟨hm, _⟩ := findDef_mem hf
      unfold aliasKeys
      rw [List.mem_filterMap]
      exact ⟨(k.1, .alias k.2 r), by rw [allPairs_eq]; exact mem_declsOf.mp hm, rfl⟩

/-- on an acyclic alias graph, the order-free search for a cycle through `self` answers `no` -/
theorem alias_search_no {rx fs} (hA : Gr.Acyclic (aliasSucc (aliasS rx fs))) {self : Key} {t : Ty}
    (hs : aliasS rx fs self = some t) :
    anyTri (search (aliasSucc (aliasS rx fs)) self (fuelA fs)) t.aliases = .no := by
  rw [Gr.anyTri_no_iff]
  intro m hm
  apply Gr.search_no_of_acyclic (dom := aliasKeys fs) hA
  · intro x hx
    unfold aliasSucc at hx
    cases hl : aliasS rx fs x with
    | none => simp [hl] at hx
    | some t' => exact aliasS_some_key hl
  · rw [aliasKeys_length]; unfold fuelA; omega
  · intro hr
    have he : m ∈ aliasSucc (aliasS rx fs) self := by unfold aliasSucc; rw [hs]; exact hm
    exact hA self (Gr.path_of_edge_reach he hr)

/-! ## passes 4 - 6 and the assembly, read backwards -/

theorem typesOut_isSome {st : St} {ns} : ∀ {l : List TypeDecl} {out}, typesOut st ns l = .ok out →
    ∀ d, d ∈ l → (st.done.lookup (ns, d.name)).isSome
  | [], _, _, d, hd => by simp at hd
  | d0 :: l, out, h, d, hd => by
    simp only [typesOut] at h
    split at h
    · cases h
    · rename_i c hc
      split at h
      · cases h
      · rename_i cs hcs
        simp only [List.mem_cons] at hd
        rcases hd with rfl | hd
        · rw [hc]; rfl
        · exact typesOut_isSome hcs d hd

theorem aliasesOut_isSome {st : St} {ns} : ∀ {l : List (String × TRef)} {out}, aliasesOut st ns l = .ok out →
    ∀ n r, (n, r) ∈ l → (st.aliases.lookup (ns, n)).isSome
  | [], _, _, n, r, hd => by simp at hd
  | (n0, r0) :: l, out, h, n, r, hd => by
    simp only [aliasesOut] at h
    split at h
    · cases h
    · rename_i t ht
      split at h
      · cases h
      · rename_i ts hts
        simp only [List.mem_cons, Prod.mk.injEq] at hd
        rcases hd with ⟨rfl, rfl⟩ | hd
        · rw [ht]; rfl
        · exact aliasesOut_isSome hts n r hd

theorem assemble_complete {E : Env} {fs st en} (hfiles : E.files = fs) : ∀ {L : List (String × List CRoute)} {outs},
    assemble E st en L = .ok outs → Complete fs (L.map (·.1)) st
  | [], _, _ => by intro ns h; simp at h
  | (ns, rs) :: L, outs, h => by
    simp only [assemble, hfiles] at h
    split at h
    · cases h
    · rename_i types ht
      split at h
      · cases h
      · rename_i aliases ha
        split at h
        · cases h
        · rename_i outs' ho
          intro ns' hns'
          simp only [List.map_cons, List.mem_cons] at hns'
          rcases hns' with rfl | hns'
          · exact ⟨typesOut_isSome ht, aliasesOut_isSome ha⟩
          · exact assemble_complete hfiles ho ns' hns'

theorem defaultFields_sound {E A} : ∀ {l : List CField}, defaultFields E A l = .ok () →
    ∀ f, f ∈ l → isOk (defaultField E A f) = true
  | [], _, f, hf => by simp at hf
  | f0 :: l, h, f, hf => by
    simp only [defaultFields] at h
    split at h
    · cases h
    · rename_i h0
      simp only [List.mem_cons] at hf
      rcases hf with rfl | hf
      · rw [h0]; rfl
      · exact defaultFields_sound h f hf

theorem pass4_sound {E st} : ∀ {l : List (String × TypeDecl)}, pass4Types E st l = .ok () →
    ∀ ns d, (ns, d) ∈ l → d.kind = .struct → ∀ c, st.done.lookup (ns, d.name) = some c →
      defaultFields E st.aliases c.fields = .ok ()
  | [], _, ns, d, hm, _, _, _ => by simp at hm
  | (ns0, d0) :: l, h, ns, d, hm, hk, c, hl => by
    simp only [pass4Types] at h
    simp only [List.mem_cons, Prod.mk.injEq] at hm
    rcases hm with ⟨rfl, rfl⟩ | hm
    · simp only [hk, hl] at h
      split at h
      · cases h
      · rename_i hdf; exact hdf
    · split at h
      · split at h
        · cases h
        · split at h
          · cases h
          · exact pass4_sound h ns d hm hk c hl
      · exact pass4_sound h ns d hm hk c hl

theorem compileRoutes_sound {rx E A ns} : ∀ {l : List RouteDecl} {rs}, compileRoutes rx E A ns l = .ok rs →
    ∀ r, r ∈ l → ∃ c, compileRoute rx E A ns r = .ok c
  | [], _, _, r, hr => by simp at hr
  | r0 :: l, rs, h, r, hr => by
    simp only [compileRoutes] at h
    split at h
    · cases h
    · rename_i c hc
      split at h
      · cases h
      · rename_i cs hcs
        simp only [List.mem_cons] at hr
        rcases hr with rfl | hr
        · exact ⟨c, hc⟩
        · exact compileRoutes_sound hcs r hr

theorem routeLegal_of_compile {rx E fs A ns r c} (hE : EnvOK2 E fs) (hlook : lookOf A = aliasS rx fs)
    (h : compileRoute rx E A ns r = .ok c) : routeLegal rx fs ns r = true := by
  unfold compileRoute at h
  split at h
  · cases h
  · rename_i ta hta
    split at h
    · cases h
    · rename_i tr htr
      split at h
      · cases h
      · rename_i re hre
        split at h
        · cases h
        · rename_i te hte
          split at h
          · cases h
          · rename_i hdep
            unfold routeLegal
            have hd := hE.deprecated_eq ns r.deprecated
            rw [hdep] at hd
            simp [(refLegal_of_resolve hE hlook hta).1, (refLegal_of_resolve hE hlook htr).1, hre,
              (refLegal_of_resolve hE hlook hte).1, ← hd, isOk]

end StoneVerif.FeCompile.L
