import StoneVerif.Model.Cli
/-! Lemmas about `Expr.eval` (the code) and `evalSpec` (the reference) (C19). -/
namespace StoneVerif.Cli

theorem decEq10_int (a b : Int) : decEq10 a 0 b 0 = (a == b) := by
  simp [decEq10]

theorem pyEq_null_right (v : Lit) : pyEq v .null = true ↔ v = .null := by
  cases v <;> simp [pyEq, Lit.num?]

theorem attrSpec_eq_attrGet (r : Attrs) (k : Name) : attrSpec r k = attrGet r k := by
  unfold attrSpec attrGet
  cases r.lookup k <;> rfl

/-- wherever the reference fixes the outcome of a comparison, Python's `==` agrees -/
theorem specEq_sound (v l : Lit) (b : Bool) (h : specEq v l = some b) : pyEq v l = b := by
  cases v <;> cases l <;> simp [specEq] at h <;> subst h <;> simp [pyEq, Lit.num?, decEq10_int]
  case bool.bool x y => cases x <;> cases y <;> decide

theorem kAnd_sound {x y : Option Bool} {a b v : Bool} (hx : ∀ u, x = some u → a = u) (hy : ∀ u, y = some u → b = u)
    (h : kAnd x y = some v) : (a && b) = v := by
  cases x with
  | none =>
    cases y with
    | none => simp [kAnd] at h
    | some q =>
      cases q <;> simp [kAnd] at h
      subst h; simp [hy false rfl]
  | some p =>
    cases p
    · simp [kAnd] at h; subst h; simp [hx false rfl]
    · cases y with
      | none => simp [kAnd] at h
      | some q =>
        cases q <;> simp [kAnd] at h <;> subst h <;> simp [hx true rfl, hy _ rfl]

theorem kOr_sound {x y : Option Bool} {a b v : Bool} (hx : ∀ u, x = some u → a = u) (hy : ∀ u, y = some u → b = u)
    (h : kOr x y = some v) : (a || b) = v := by
  cases x with
  | none =>
    cases y with
    | none => simp [kOr] at h
    | some q =>
      cases q <;> simp [kOr] at h
      subst h; simp [hy true rfl]
  | some p =>
    cases p
    · cases y with
      | none => simp [kOr] at h
      | some q =>
        cases q <;> simp [kOr] at h <;> subst h <;> simp [hx false rfl, hy _ rfl]
    · simp [kOr] at h; subst h; simp [hx true rfl]

/-- the code-following evaluation refines the reference: whenever the property fixes whether a
route satisfies the expression, `eval` returns that -/
theorem evalSpec_sound (e : Expr) (r : Attrs) : ∀ v, evalSpec e r = some v → e.eval r = v := by
  induction e with
  | pred op a l =>
    intro v h
    cases op with
    | eq =>
      simp only [evalSpec, attrSpec_eq_attrGet] at h
      simpa [Expr.eval] using specEq_sound _ _ _ h
    | neq =>
      simp only [evalSpec, attrSpec_eq_attrGet, Option.map_eq_some_iff] at h
      obtain ⟨b, hb, rfl⟩ := h
      simp [Expr.eval, specEq_sound _ _ _ hb]
  | conj c l rr ihl ihr =>
    intro v h
    cases c with
    | and => exact kAnd_sound ihl ihr (by simpa [evalSpec] using h)
    | or => exact kOr_sound ihl ihr (by simpa [evalSpec] using h)

end StoneVerif.Cli
