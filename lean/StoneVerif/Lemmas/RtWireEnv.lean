import StoneVerif.Lemmas.RtWire
import StoneVerif.Model.Rt.WFExtra
/-!
Helper lemmas for C05, part 2: what `envWF` / `envWFX` give (field tables of a class and of its
descendants agree, tag tables, types of fields and tags are well-formed), and `validB → validate` succeeds.
-/
namespace StoneVerif.Rt

theorem isNone_eq_isNoneV (v : PyVal) : isNone v = isNoneV v := by cases v <;> rfl

theorem matchNone_eq_isNoneV (v : PyVal) : (match v with | .none => true | _ => false) = isNoneV v := by
  cases v <;> rfl

/-! ### registered classes -/

theorem struct?_mem {env : Env} {c : String} {s : StructDef} (h : env.struct? c = some s) :
    s ∈ env.structs ∧ s.cls = c := by
  unfold Env.struct? at h
  exact ⟨List.mem_of_find?_eq_some h, by simpa using List.find?_some h⟩

theorem union?_mem {env : Env} {c : String} {u : UnionDef} (h : env.union? c = some u) :
    u ∈ env.unions ∧ u.cls = c := by
  unfold Env.union? at h
  exact ⟨List.mem_of_find?_eq_some h, by simpa using List.find?_some h⟩

theorem publicFields_eq {env : Env} {c : String} {s : StructDef} (h : env.struct? c = some s) :
    publicFields env c = s.allAttrs.filter (·.omitted == none) := by
  simp [publicFields, h, fieldsSpec_nil, StructDef.allAttrs]

/-! ### field tables along a chain -/

theorem sameWire_iff {a b : FieldDef} : a.sameWire b = true ↔
    a.name = b.name ∧ a.ty = b.ty ∧ a.attrNullable = b.attrNullable ∧ a.dflt.isSome = b.dflt.isSome ∧
      a.omitted = b.omitted := by
  simp [FieldDef.sameWire, and_assoc]

theorem attrsPrefix_filter {P C : List FieldDef} (h : attrsPrefix P C = true) :
    attrsPrefix (P.filter (·.omitted == none)) (C.filter (·.omitted == none)) = true := by
  induction P generalizing C with
  | nil => simp [attrsPrefix]
  | cons a as ih =>
    cases C with
    | nil => simp [attrsPrefix] at h
    | cons b bs =>
      simp only [attrsPrefix, Bool.and_eq_true] at h
      obtain ⟨hab, hrest⟩ := h
      have hom : a.omitted = b.omitted := (sameWire_iff.mp hab).2.2.2.2
      have ih' := ih hrest
      by_cases ho : b.omitted = none
      · simp only [List.filter_cons, hom, ho, attrsPrefix, hab, ih', beq_self_eq_true, if_true, Bool.and_self]
      · have : (b.omitted == none) = false := by cases hb : b.omitted <;> simp_all
        simp only [List.filter_cons, hom, this]
        simpa using ih'

theorem attrHas_congr {a b : FieldDef} (h : a.sameWire b = true) (slots : List (String × PyVal)) :
    attrHas a slots = attrHas b slots := by
  obtain ⟨hn, -, hnl, hd, -⟩ := sameWire_iff.mp h
  unfold attrHas attrGet
  rw [hn, hnl]
  cases lookupSlot b.name slots with
  | some v => rfl
  | none => cases b.attrNullable <;> simp [hd]

theorem attrsPrefix_all_attrHas {P C : List FieldDef} (h : attrsPrefix P C = true) (slots : List (String × PyVal))
    (hall : C.all (fun f => attrHas f slots) = true) : P.all (fun f => attrHas f slots) = true := by
  induction P generalizing C with
  | nil => simp
  | cons a as ih =>
    cases C with
    | nil => simp [attrsPrefix] at h
    | cons b bs =>
      simp only [attrsPrefix, Bool.and_eq_true] at h
      simp only [List.all_cons, Bool.and_eq_true] at hall ⊢
      exact ⟨by rw [attrHas_congr h.1]; exact hall.1, ih h.2 hall.2⟩

theorem attrsPrefix_find? {P C : List FieldDef} (h : attrsPrefix P C = true) {k : String} {f : FieldDef}
    (hf : P.find? (·.name == k) = some f) : ∃ f', C.find? (·.name == k) = some f' ∧ f'.ty = f.ty := by
  induction P generalizing C with
  | nil => simp at hf
  | cons a as ih =>
    cases C with
    | nil => simp [attrsPrefix] at h
    | cons b bs =>
      simp only [attrsPrefix, Bool.and_eq_true] at h
      obtain ⟨hn, hty, -⟩ := sameWire_iff.mp h.1
      simp only [List.find?_cons] at hf ⊢
      rw [← hn]
      cases hk : a.name == k with
      | true =>
        simp only [hk] at hf
        cases hf
        exact ⟨b, rfl, hty.symm⟩
      | false =>
        simp only [hk] at hf
        exact ih h.2 hf

/-- A class `cls` that a value's class `c` descends from is registered, and its public field table is,
field by field, the beginning of the value's class's public field table. -/
theorem publicFields_prefix {env : Env} (hx : envWFX env = true) {c cls : String}
    (hsub : env.structSubclass c cls = true) :
    ∃ s sc, env.struct? cls = some s ∧ env.struct? c = some sc ∧
      attrsPrefix (publicFields env cls) (publicFields env c) = true := by
  unfold Env.structSubclass at hsub
  cases hc : env.struct? c with
  | none => simp [hc] at hsub
  | some sc =>
    simp only [hc, StructDef.ancestors, List.contains_iff_mem, List.mem_map] at hsub
    obtain ⟨l, hl, rfl⟩ := hsub
    have hsc := (struct?_mem hc).1
    simp only [envWFX, List.all_eq_true] at hx
    have hch := hx sc hsc
    simp only [StructDef.chainExact, List.all_eq_true] at hch
    have hl' := hch l hl
    cases ha : env.struct? l.cls with
    | none => simp [ha] at hl'
    | some a =>
      simp only [ha] at hl'
      refine ⟨a, sc, rfl, rfl, ?_⟩
      rw [publicFields_eq ha, publicFields_eq hc]
      exact attrsPrefix_filter hl'

theorem validSlots_prefix (E : Ext) (env : Env) {P C : List FieldDef} (h : attrsPrefix P C = true)
    (slots : List (String × PyVal)) (hv : validSlots E env C slots = true) : validSlots E env P slots = true := by
  induction slots with
  | nil => simp [validSlots]
  | cons kx rest ih =>
    obtain ⟨k, x⟩ := kx
    simp only [validSlots, Bool.and_eq_true] at hv ⊢
    refine ⟨?_, ih hv.2⟩
    cases hf : P.find? (·.name == k) with
    | none => rfl
    | some f =>
      obtain ⟨f', hf', hty⟩ := attrsPrefix_find? h hf
      have := hv.1
      simp only [hf'] at this
      simpa [hty] using this

theorem normalSlots_prefix (env : Env) {P C : List FieldDef} (h : attrsPrefix P C = true)
    (slots : List (String × PyVal)) (hv : normalSlots env C slots = true) : normalSlots env P slots = true := by
  induction slots with
  | nil => simp [normalSlots]
  | cons kx rest ih =>
    obtain ⟨k, x⟩ := kx
    simp only [normalSlots, Bool.and_eq_true] at hv ⊢
    refine ⟨?_, ih hv.2⟩
    cases hf : P.find? (·.name == k) with
    | none => rfl
    | some f =>
      obtain ⟨f', hf', hty⟩ := attrsPrefix_find? h hf
      have := hv.1
      simp only [hf'] at this
      simpa [hty] using this

/-- `Struct.validate_fields_only` of the validator's class succeeds on an instance of a descendant whose own
required public fields are present. -/
theorem structFieldsOk_of_valid {env : Env} (hx : envWFX env = true) {c cls : String}
    (hsub : env.structSubclass c cls = true) (slots : List (String × PyVal))
    (hall : (publicFields env c).all (fun f => attrHas f slots) = true) :
    structFieldsOk env cls none (.struct c slots) = true := by
  obtain ⟨s, sc, hs, -, hp⟩ := publicFields_prefix hx hsub
  have := attrsPrefix_all_attrHas hp slots hall
  simp only [structFieldsOk, hs, allFieldsAttr_none_getD_eq_fieldsSpec]
  simpa [publicFields, hs] using this

/-! ### what `envWF` gives -/

theorem envWF_struct {env : Env} (hwf : envWF env = true) {c : String} {s : StructDef}
    (h : env.struct? c = some s) : s.wf env = true := by
  simp only [envWF, Bool.and_eq_true, List.all_eq_true] at hwf
  exact hwf.1.2 s (struct?_mem h).1

theorem envWF_union {env : Env} (hwf : envWF env = true) {c : String} {u : UnionDef}
    (h : env.union? c = some u) : u.wf env = true := by
  simp only [envWF, Bool.and_eq_true, List.all_eq_true] at hwf
  exact hwf.2 u (union?_mem h).1

/-- field validators refer to existing classes -/
theorem publicFields_tyWF {env : Env} (hwf : envWF env = true) {c : String} {f : FieldDef}
    (hf : f ∈ publicFields env c) : tyWF env f.ty = true := by
  unfold publicFields at hf
  cases hs : env.struct? c with
  | none => simp [hs] at hf
  | some s =>
    have hw := envWF_struct hwf hs
    simp only [StructDef.wf, Bool.and_eq_true, List.all_eq_true] at hw
    have hmem : f ∈ s.allAttrs := by
      simp only [hs, fieldsSpec_nil] at hf
      exact (List.mem_filter.mp hf).1
    exact (hw.1.1.2 f hmem).1

theorem names_inj_of_nodup {α} (f : α → String) {l : List α} (h : (l.map f).Nodup) :
    ∀ a ∈ l, ∀ b ∈ l, f a = f b → a = b := by
  induction l with
  | nil => intro a ha; cases ha
  | cons x xs ih =>
    simp only [List.map_cons, List.nodup_cons] at h
    intro a ha b hb hab
    rcases List.mem_cons.mp ha with rfl | ha' <;> rcases List.mem_cons.mp hb with rfl | hb'
    · rfl
    · exact absurd (hab ▸ List.mem_map_of_mem hb') h.1
    · exact absurd (hab ▸ List.mem_map_of_mem ha') h.1
    · exact ih h.2 a ha' b hb' hab

theorem findTag_of_mem_inj {l : List TagDef} (hinj : ∀ a ∈ l, ∀ b ∈ l, a.name = b.name → a = b) {t : TagDef}
    (ht : t ∈ l) : findTag t.name l = some t := by
  cases h : findTag t.name l with
  | none =>
    rw [findTag_eq_find?, List.find?_eq_none] at h
    exact absurd (by simp) (h t ht)
  | some a =>
    obtain ⟨ha, hn⟩ := findTag_some_mem h
    rw [hinj a ha t ht hn]

theorem findTag_congr_of_inj {l₁ l₂ : List TagDef} (hinj : ∀ a ∈ l₂, ∀ b ∈ l₂, a.name = b.name → a = b)
    (hmem : ∀ t, t ∈ l₁ ↔ t ∈ l₂) (tag : String) : findTag tag l₁ = findTag tag l₂ := by
  have hinj₁ : ∀ a ∈ l₁, ∀ b ∈ l₁, a.name = b.name → a = b :=
    fun a ha b hb => hinj a ((hmem a).mp ha) b ((hmem b).mp hb)
  cases h₁ : findTag tag l₁ with
  | some t =>
    obtain ⟨hm, rfl⟩ := findTag_some_mem h₁
    exact (findTag_of_mem_inj hinj ((hmem t).mp hm)).symm
  | none =>
    cases h₂ : findTag tag l₂ with
    | none => rfl
    | some t =>
      obtain ⟨hm, rfl⟩ := findTag_some_mem h₂
      rw [findTag_of_mem_inj hinj₁ ((hmem t).mpr hm)] at h₁
      cases h₁

/-- For a caller without permissions, `_is_tag_present` / `_get_val_data_type` look a tag up in `_tagmap`
(own tags first, then the parents'); with unique tag names that is the look-up in the public tags of the
chain in declaration order. -/
theorem tagmap_lookup {env : Env} (hwf : envWF env = true) {cls : String} {u : UnionDef}
    (hu : env.union? cls = some u) (tag : String) :
    (u.tagmapAttr none).bind (findTag tag) = publicTag? env cls tag := by
  have hw := envWF_union hwf hu
  simp only [UnionDef.wf, Bool.and_eq_true] at hw
  have hnd := (nodupS_iff _).mp hw.1.1.1.2
  have hinj := names_inj_of_nodup (fun t : TagDef => t.name) hnd
  have hb : (u.tagmapAttr none).bind (findTag tag) = findTag tag ((u.tagmapAttr none).getD []) := by
    cases u.tagmapAttr none <;> simp [findTag]
  rw [hb, tagmapAttr_none_getD]
  simp only [publicTag?, hu, tagsSpec_nil]
  apply findTag_congr_of_inj
  · intro a ha b hb
    exact hinj a (List.mem_filter.mp ha).1 b (List.mem_filter.mp hb).1
  · intro t
    simp [List.mem_filter, List.mem_flatMap]

theorem publicTag_tyWF {env : Env} (hwf : envWF env = true) {cls tag : String} {td : TagDef}
    (h : publicTag? env cls tag = some td) : tyWF env td.ty = true ∧ td.name = tag := by
  unfold publicTag? at h
  cases hu : env.union? cls with
  | none => simp [hu] at h
  | some u =>
    simp only [hu] at h
    obtain ⟨hm, hn⟩ := findTag_some_mem h
    have hw := envWF_union hwf hu
    simp only [UnionDef.wf, Bool.and_eq_true, List.all_eq_true] at hw
    rw [tagsSpec_nil] at hm
    exact ⟨(hw.1.1.2 td (List.mem_filter.mp hm).1).2, hn⟩

/-! ### the members of a struct on the wire -/

/-- the value a field is set to: the first slot of that name that holds something other than None -/
def firstSet (name : String) (slots : List (String × PyVal)) : Option PyVal :=
  (slots.find? fun kx => kx.1 == name && !isNoneV kx.2).map (·.2)

theorem lookupW_wireSlots (E : Ext) (env : Env) (fields : List FieldDef) (name : String) {f : FieldDef}
    (hf : fields.find? (·.name == name) = some f) (slots : List (String × PyVal)) :
    lookupW name (wireSlots E env fields slots) = (firstSet name slots).map (wire E env f.ty) := by
  induction slots with
  | nil => simp [wireSlots, lookupW, firstSet]
  | cons kx rest ih =>
    obtain ⟨k, x⟩ := kx
    unfold firstSet at ih ⊢
    by_cases hk : k = name
    · subst hk
      cases x <;> simp [wireSlots, hf, lookupW, isNoneV, ih]
    · cases hfk : fields.find? (·.name == k) <;> cases x <;>
        simp [wireSlots, hfk, lookupW, isNoneV, ih, hk]

theorem find?_name_of_mem {fields : List FieldDef}
    (hinj : ∀ a ∈ fields, ∀ b ∈ fields, a.name = b.name → a = b) {f : FieldDef} (hf : f ∈ fields) :
    fields.find? (·.name == f.name) = some f := by
  cases h : fields.find? (·.name == f.name) with
  | none =>
    rw [List.find?_eq_none] at h
    exact absurd (by simp) (h f hf)
  | some a =>
    have ha := List.mem_of_find?_eq_some h
    have hn : a.name = f.name := by simpa using List.find?_some h
    rw [hinj a ha f hf hn]

theorem publicFields_names_inj {env : Env} (hwf : envWF env = true) (c : String) :
    ∀ a ∈ publicFields env c, ∀ b ∈ publicFields env c, a.name = b.name → a = b := by
  unfold publicFields
  cases hs : env.struct? c with
  | none => intro a ha; cases ha
  | some s =>
    have hw := envWF_struct hwf hs
    simp only [StructDef.wf, Bool.and_eq_true] at hw
    have hinj := names_inj_of_nodup (fun f : FieldDef => f.name) ((nodupS_iff _).mp hw.1.1.1.1.2)
    intro a ha b hb
    simp only [fieldsSpec_nil] at ha hb
    exact hinj a (List.mem_filter.mp ha).1 b (List.mem_filter.mp hb).1

theorem filterMap_congr_mem {α β} {f g : α → Option β} {l : List α} (h : ∀ a ∈ l, f a = g a) :
    l.filterMap f = l.filterMap g := by
  induction l with
  | nil => rfl
  | cons x xs ih =>
    simp only [List.filterMap_cons, h x (by simp), ih (fun a ha => h a (by simp [ha]))]

theorem pick_wireSlots (E : Ext) (env : Env) (fields : List FieldDef)
    (hinj : ∀ a ∈ fields, ∀ b ∈ fields, a.name = b.name → a = b) (slots : List (String × PyVal)) :
    pick fields (wireSlots E env fields slots) =
      fields.filterMap fun f => (firstSet f.name slots).map fun x => (f.name, wire E env f.ty x) := by
  unfold pick
  apply filterMap_congr_mem
  intro f hf
  rw [lookupW_wireSlots E env fields f.name (find?_name_of_mem hinj hf)]
  cases firstSet f.name slots <;> simp

end StoneVerif.Rt
