import StoneVerif.Lemmas.DeclPyWF
import StoneVerif.Lemmas.DeclPySecClassItem
namespace StoneVerif.DeclPy

/-- annotation-type classes -/
theorem sec_ann (ns : Namespace) (st : St) (hwf : StWF st) (hcur : modName ns ∈ st.started)
    (hnd : ((annStmts ns).flatMap Stmt.globals).Nodup)
    (hfresh : ∀ n ∈ (annStmts ns).flatMap Stmt.globals, st.global? (modName ns) n = none) :
    ∃ st', Steps st (modName ns) (annStmts ns) st' := by
  have h := steps_flatMap' annTypeStmts (modName ns) (fun st => modName ns ∈ st.started) (fun _ _ => True)
    (fun hle h => hle.started _ h) (fun _ _ => trivial) ns.annTypes
    (by
      intro pre a post _ st hwf hcur _ hfr
      obtain ⟨st', hs, _, _, _⟩ := steps_cls (cur := modName ns) (n := fmtClass a.name) (base := none)
        (body := ["__slots__", "__init__"] ++ a.params.map (fmtFunc · true))
        (ctor := some (a.params.map (fmtVar · true))) hwf none rfl
        (hfr _ (by simp [annTypeStmts, globals_cls])) hcur
      exact ⟨st', hs, trivial⟩)
    hnd st hwf hcur hfresh
  obtain ⟨st', hs, _⟩ := h
  exact ⟨st', hs⟩


theorem typeWF_field {api : Api} {ns : Namespace} {pre : List DataType} {d : DataType}
    (h : typeWF api ns pre d = true) {f : Field} (hf : f ∈ d.fields) :
    tyOK api ns f.ty = true ∧ noReserved (fmtVar f.name) = true ∧ noReserved (fmtFunc f.name) = true := by
  unfold typeWF at h
  simp only [Bool.and_eq_true] at h
  obtain ⟨⟨⟨⟨⟨_, h2⟩, _⟩, _⟩, _⟩, _⟩ := h
  have := List.all_eq_true.mp h2 f hf
  simp only [Bool.and_eq_true] at this
  exact ⟨this.1.1, this.1.2, this.2⟩

/-- struct and union classes with their `_validator`s -/
theorem sec_classes {api : Api} (hapi : apiWF api = true) {ns : Namespace} (hns : ns ∈ api.namespaces) (st : St)
    (hwf : StWF st) (hctx : Ctx api st ns)
    (hnd : ((classStmts api ns).flatMap Stmt.globals).Nodup)
    (hfresh : ∀ n ∈ (classStmts api ns).flatMap Stmt.globals, st.global? (modName ns) n = none) :
    ∃ st', Steps st (modName ns) (classStmts api ns) st' ∧ ∀ d ∈ ns.types, ClassOK api st' ns d := by
  refine steps_flatMap' (α := DataType)
    (fun d => if d.isStruct then structClassStmts api ns.name d else unionClassStmts ns.name d)
    (modName ns) (fun st => Ctx api st ns) (fun d st => ClassOK api st ns d)
    (fun hle h => h.mono hle) (fun hle h => h.mono hle) ns.types ?_ hnd st hwf hctx hfresh
  intro pre d post hsplit st hwf hctx hpre hfr
  have htw := typeWF_at hapi hns hsplit
  by_cases hs : d.isStruct = true
  · simp only [hs, if_true] at hfr ⊢
    obtain ⟨st', hsteps, hg, hv, he, hb⟩ := class_item hapi hns hwf hctx hsplit hpre
      (["__slots__", "_has_required_fields", "__init__"] ++ d.fields.map (fmtFunc ·.name true)
        ++ ["_process_custom_annotations"])
      (some ((allFieldsStruct api d).map (fmtVar ·.name true)))
      (fun n hn => hfr n (by simpa [structClassStmts, globals_cls] using hn))
    refine ⟨st', hsteps, hg, hv, he, ?_, fun h => by rw [hs] at h; exact absurd h (by simp)⟩
    intro _ f hf
    have := (typeWF_field htw hf).2.1
    rw [← fmtFunc_true_eq_fmtVar this]
    exact hb _ (by simp only [List.mem_append, List.mem_map]; exact Or.inl (Or.inr ⟨f, hf, rfl⟩))
  · have hs' : d.isStruct = false := by simpa using hs
    simp only [hs', Bool.false_eq_true, if_false] at hfr ⊢
    obtain ⟨st', hsteps, hg, hv, he, hb⟩ := class_item hapi hns hwf hctx hsplit hpre
      ((if d.catchAll || d.parent.isNone then ["_catch_all"] else [])
        ++ (d.fields.filter (·.ty.isVoid)).map (fmtVar ·.name)
        ++ (d.fields.filter (fun f => !f.ty.isVoid)).map (fmtFunc ·.name true)
        ++ d.fields.map (fun f => "is_" ++ fmtFunc f.name)
        ++ (d.fields.filter (fun f => !f.ty.isVoid)).map (fun f => "get_" ++ fmtFunc f.name)
        ++ ["_process_custom_annotations"]) none
      (fun n hn => hfr n (by simpa [unionClassStmts, globals_cls] using hn))
    refine ⟨st', hsteps, hg, hv, he, fun h => by rw [hs'] at h; exact absurd h (by simp), ?_⟩
    intro _ n f hf hvoid
    have hown : ∀ f ∈ d.fields, f.ty.isVoid = true → HasA st' (clsId ns.name d.name) (fmtVar f.name) := by
      intro f hf hvoid
      apply hb
      simp only [List.mem_append, List.mem_map, List.mem_filter]
      exact Or.inl (Or.inl (Or.inl (Or.inl (Or.inr ⟨f, ⟨hf, hvoid⟩, rfl⟩))))
    cases n with
    | zero => exact hown f (by simpa [chainFields] using hf) hvoid
    | succ n =>
      simp only [chainFields, List.mem_append] at hf
      rcases hf with hf | hf
      · cases hpo : api.parentOf d with
        | none => simp [hpo] at hf
        | some P' =>
          simp only [hpo] at hf
          cases hp : d.parent with
          | none => simp [Api.parentOf, hp] at hpo
          | some q =>
            obtain ⟨pns, pn⟩ := q
            obtain ⟨P, nsP, hnsP, hname, hmem, hPn, hpo', hkind, hloc, hfor⟩ :=
              parent_info hapi hns hctx hsplit hp
            rw [hpo] at hpo'; injection hpo' with hpo'; subst hpo'
            have hok : ClassOK api st nsP P' := by
              by_cases h : pns = ns.name
              · obtain ⟨rfl, hin⟩ := hloc h; exact hpre P' hin
              · exact (hfor h).2.cls P' hmem
            have hP := hok.tags (by rw [hkind, hs']) n f hf hvoid
            rw [hname, hPn] at hP
            have hP' := hsteps.le.hasA hP
            have hentry : (clsId ns.name d.name, some (clsId pns pn)) ∈ st'.classes := by
              simpa [parentId, hp] using he
            exact lookupAttr_inherit hsteps.wf.tbl hentry hP'
      · exact hown f hf hvoid

end StoneVerif.DeclPy
