import StoneVerif.Lemmas.DeclPyReflPre
namespace StoneVerif.DeclPy

/-- the parent of `d` as the reflection block of `d` sees it -/
theorem parent_refl_facts {api : Api} (hapi : apiWF api = true) {ns : Namespace} (hns : ns ∈ api.namespaces)
    {st : St} (hctx : Ctx api st ns) (hcls : ∀ d ∈ ns.types, ClassOK api st ns d)
    {pre post : List DataType} {d : DataType} (hsplit : ns.types = pre ++ d :: post)
    (hprer : ∀ y ∈ pre, ReflOK api st ns y) {pns pn : Name} (hp : d.parent = some (pns, pn)) :
    ∃ P nsP, nsP ∈ api.namespaces ∧ nsP.name = pns ∧ P ∈ nsP.types ∧ P.name = pn ∧ api.parentOf d = some P
      ∧ P.isStruct = d.isStruct ∧ ClassOK api st nsP P ∧ ReflOK api st nsP P
      ∧ ∀ attr, Resolves st (modName ns) (qual ns.name pns (fmtClass pn) attr).mod
          (qual ns.name pns (fmtClass pn) attr).name (.cls (clsId pns pn)) := by
  obtain ⟨P, nsP, hnsP, hname, hmem, hPn, hpo, hkind, hloc, hfor⟩ := parent_info hapi hns hctx hsplit hp
  have hboth : ClassOK api st nsP P ∧ ReflOK api st nsP P := by
    by_cases h : pns = ns.name
    · obtain ⟨rfl, hin⟩ := hloc h
      exact ⟨hcls P hmem, hprer P hin⟩
    · exact ⟨(hfor h).2.cls P hmem, (hfor h).2.refl P hmem⟩
  exact ⟨P, nsP, hnsP, hname, hmem, hPn, hpo, hkind, hboth.1, hboth.2,
    fun attr => resolves_parent hapi hctx hnsP hname hPn hboth.1 (fun h => (hfor h).1) attr⟩

theorem typeWF_subtypes_clause {api : Api} {ns : Namespace} {pre : List DataType} {d : DataType}
    (h : typeWF api ns pre d = true) (hsub : d.hasSubtypes = true) :
    d.isStruct = true ∧ d.parent = none := by
  unfold typeWF at h
  simp only [Bool.and_eq_true] at h
  have h6 := h.2
  simp only [DataType.hasSubtypes, Bool.not_eq_true'] at hsub
  simp only [hsub, Bool.false_or, Bool.and_eq_true, Option.isNone_iff_eq_none] at h6
  exact ⟨h6.1, h6.2⟩

theorem typeWF_subtype_mem {api : Api} (hapi : apiWF api = true) {ns : Namespace} (hns : ns ∈ api.namespaces)
    {pre : List DataType} {d : DataType} (h : typeWF api ns pre d = true) {sns sn : Name}
    (hs : (sns, sn) ∈ d.subtypes) : sns = ns.name ∧ ∃ s ∈ ns.types, s.name = sn := by
  unfold typeWF at h
  simp only [Bool.and_eq_true] at h
  have h5 := List.all_eq_true.mp h.1.2 _ hs
  simp only [Bool.and_eq_true, beq_iff_eq] at h5
  obtain ⟨hsns, hfind⟩ := h5
  subst hsns
  cases hf : api.findType ns.name sn with
  | none => simp [hf] at hfind
  | some s => exact ⟨rfl, s, (findType_local hapi hns hf).1, (findType_local hapi hns hf).2⟩

/-- a type of the API is well-formed in its own namespace -/
theorem typeWF_mem {api : Api} (hapi : apiWF api = true) {ns : Namespace} (hns : ns ∈ api.namespaces)
    {d : DataType} (hd : d ∈ ns.types) : ∃ pre, typeWF api ns pre d = true := by
  obtain ⟨pre, post, h⟩ := List.append_of_mem hd
  exact ⟨pre, typeWF_at hapi hns h⟩

end StoneVerif.DeclPy
