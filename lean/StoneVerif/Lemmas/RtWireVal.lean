import StoneVerif.Lemmas.RtWireEnv
/-!
Helper lemmas for C05, part 3: a valid value passes the validator (`validB → validate` succeeds).
-/
namespace StoneVerif.Rt

theorem validB_struct_inv {E : Ext} {env : Env} {t : PTy} {c : String} {slots : List (String × PyVal)}
    (h : validB E env t (.struct c slots) = true) :
    (∃ fl cls, (t = .struct fl cls ∨ t = .tree fl cls) ∧ env.structSubclass c cls = true ∧
      (publicFields env c).all (fun f => attrHas f slots) = true ∧
      validSlots E env (publicFields env c) slots = true) := by
  cases t <;> simp [validB, validPrim, isNoneV, PTy.flags] at h
  case struct fl cls => exact ⟨fl, cls, .inl rfl, h.1.1, by simpa using h.1.2, h.2⟩
  case tree fl cls => exact ⟨fl, cls, .inr rfl, h.1.1.2, by simpa using h.1.2, h.2⟩

theorem validate_float_flt (E : Ext) (env : Env) (fl : Flags) (c : String) (lo hi : Option FBits) (x : FBits)
    (h : inRange E lo hi x = true) : validate E env (.float fl c lo hi) (.flt x) = .ok (.flt x) := by
  simp only [validate, PTy.flags, fltOf, Bool.and_false]
  cases lo <;> cases hi <;> simp_all [inRange]

theorem validate_float_num (E : Ext) (env : Env) (fl : Flags) (c : String) (lo hi : Option FBits) (v : PyVal)
    (n : Int) (hv : fltOf E v = some (E.fltOfInt n))
    (h : (match E.fltOfInt n with | some x => inRange E lo hi x | none => false) = true) :
    ∃ v', validate E env (.float fl c lo hi) v = .ok v' := by
  cases hq : E.fltOfInt n with
  | none => simp [hq] at h
  | some x =>
    simp only [hq] at h hv
    refine ⟨.flt x, ?_⟩
    cases v <;> simp only [fltOf, reduceCtorEq] at hv
    all_goals
      simp only [validate, PTy.flags, fltOf, Bool.and_false]
      cases lo <;> cases hi <;> simp_all [inRange]

mutual
theorem validate_ok (E : Ext) (env : Env) (hx : envWFX env = true) :
    ∀ (t : PTy) (v : PyVal), validB E env t v = true → ∃ v', validate E env t v = .ok v'
  | t, .none, h => by
    cases t <;> simp_all [validB, validPrim, validate, isNoneV, PTy.flags]
  | t, .bool b, h => by
    cases t <;> simp [validB, validPrim, isNoneV, PTy.flags] at h
    case bool => simp [validate, PTy.flags]
    case int fl c lo hi => simp [validate, PTy.flags, intOf, h]
    case float fl c lo hi => exact validate_float_num E env fl c lo hi _ _ rfl h
  | t, .int n, h => by
    cases t <;> simp [validB, validPrim, isNoneV, PTy.flags] at h
    case int fl c lo hi => simp [validate, PTy.flags, intOf, h]
    case float fl c lo hi => exact validate_float_num E env fl c lo hi _ _ rfl h
  | t, .flt x, h => by
    cases t <;> simp [validB, validPrim, isNoneV, PTy.flags] at h
    case float fl c lo hi => exact ⟨_, validate_float_flt E env fl c lo hi x h⟩
  | t, .str s, h => by
    cases t <;> simp [validB, validPrim, isNoneV, PTy.flags] at h
    case str fl lo hi pat =>
      cases pat <;> simp_all [validate, PTy.flags]
      rcases h.2 with h2 | h2 <;> simp [h2]
  | t, .bytes s, h => by
    cases t <;> simp_all [validB, validPrim, validate, isNoneV, PTy.flags]
  | t, .ts i ok, h => by
    cases t <;> simp_all [validB, validPrim, validate, isNoneV, PTy.flags]
  | t, .list xs, h => by
    cases t <;> simp [validB, validPrim, isNoneV, PTy.flags] at h
    case list fl item lo hi =>
      obtain ⟨ys, hys⟩ := validateList_ok E env hx item xs h.2
      simp [validate, PTy.flags, h.1.1, h.1.2, hys, Except.map]
  | t, .tuple xs, h => by
    cases t <;> simp [validB, validPrim, isNoneV, PTy.flags] at h
    case list fl item lo hi =>
      obtain ⟨ys, hys⟩ := validateList_ok E env hx item xs h.2
      simp [validate, PTy.flags, h.1.1, h.1.2, hys, Except.map]
  | t, .dict kvs, h => by
    cases t <;> simp [validB, validPrim, isNoneV, PTy.flags] at h
    case map fl kt vt =>
      obtain ⟨ys, hys⟩ := validateDict_ok E env hx kt vt kvs h
      simp [validate, PTy.flags, hys, Except.map]
  | t, .struct c slots, h => by
    obtain ⟨fl, cls, ht, hsub, hall, -⟩ := validB_struct_inv h
    have hf := structFieldsOk_of_valid hx hsub slots hall
    rcases ht with rfl | rfl <;> simp [validate, PTy.flags, structTypeOk, hsub, hf]
  | t, .union c tag p, h => by
    cases t <;> simp [validB, validPrim, isNoneV, PTy.flags] at h
    case union fl cls => simp [validate, PTy.flags, unionTypeOk, h.1]
  | t, .other n, h => by
    cases t <;> simp [validB, validPrim, isNoneV, PTy.flags] at h
theorem validateList_ok (E : Ext) (env : Env) (hx : envWFX env = true) :
    ∀ (t : PTy) (xs : List PyVal), validList E env t xs = true → ∃ ys, validateList E env t xs = .ok ys
  | t, [], h => ⟨[], by simp [validateList]⟩
  | t, x :: xs, h => by
    simp only [validList, Bool.and_eq_true] at h
    obtain ⟨y, hy⟩ := validate_ok E env hx t x h.1
    obtain ⟨ys, hys⟩ := validateList_ok E env hx t xs h.2
    exact ⟨y :: ys, by simp [validateList, hy, hys, bind, Except.bind, pure, Except.pure]⟩
theorem validateDict_ok (E : Ext) (env : Env) (hx : envWFX env = true) :
    ∀ (kt vt : PTy) (kvs : List (PyVal × PyVal)), validDict E env kt vt kvs = true →
      ∃ ys, validateDict E env kt vt kvs = .ok ys
  | kt, vt, [], h => ⟨[], by simp [validateDict]⟩
  | kt, vt, (k, x) :: rest, h => by
    simp only [validDict, Bool.and_eq_true] at h
    obtain ⟨k', hk⟩ := validate_ok E env hx kt k h.1.1
    obtain ⟨x', hx'⟩ := validate_ok E env hx vt x h.1.2
    obtain ⟨ys, hys⟩ := validateDict_ok E env hx kt vt rest h.2
    exact ⟨(k', x') :: ys, by simp [validateDict, hk, hx', hys, bind, Except.bind, pure, Except.pure]⟩
end

end StoneVerif.Rt
