import StoneVerif.Model.FeCompile
set_option linter.unusedSectionVars false
/-!
Graph search on fuel (`FeCompile.search`): what its three answers mean, that a `no` survives the removal of edges,
and that on an acyclic graph whose nodes with successors are among `dom` it never runs out of `dom.length + 1` fuel.
-/
namespace StoneVerif.FeCompile.Gr
open StoneVerif.FeCompile

variable {α : Type} [BEq α] [LawfulBEq α]

theorem anyTri_no_iff {f : α → Tri} : ∀ {l : List α}, anyTri f l = .no ↔ ∀ x, x ∈ l → f x = .no
  | [] => by simp [anyTri]
  | y :: l => by
    simp only [anyTri, List.mem_cons, forall_eq_or_imp]
    cases hy : f y with
    | yes => simp
    | no => simp [anyTri_no_iff (l := l)]
    | fuel =>
      simp only [reduceCtorEq, false_and, iff_false]
      split <;> simp

theorem anyTri_yes_iff {f : α → Tri} : ∀ {l : List α}, anyTri f l = .yes ↔ ∃ x, x ∈ l ∧ f x = .yes
  | [] => by simp [anyTri]
  | y :: l => by
    simp only [anyTri, List.mem_cons, exists_eq_or_imp]
    cases hy : f y with
    | yes => simp
    | no => simp [anyTri_yes_iff (l := l)]
    | fuel =>
      simp only [reduceCtorEq, false_or]
      rw [← anyTri_yes_iff (l := l)]
      split <;> simp_all

theorem anyTri_fuel {f : α → Tri} {l : List α} (h : anyTri f l = .fuel) : ∃ x, x ∈ l ∧ f x = .fuel := by
  induction l with
  | nil => simp [anyTri] at h
  | cons y l ih =>
    simp only [anyTri] at h
    cases hy : f y with
    | yes => simp [hy] at h
    | no =>
      simp only [hy] at h
      obtain ⟨x, hx, hf⟩ := ih h
      exact ⟨x, List.mem_cons_of_mem _ hx, hf⟩
    | fuel => exact ⟨y, List.mem_cons_self, hy⟩

/-- reflexive-transitive closure of the successor graph -/
inductive Reach (succ : α → List α) : α → α → Prop
  | refl {a} : Reach succ a a
  | cons {a b c} : b ∈ succ a → Reach succ b c → Reach succ a c

/-- one or more steps -/
inductive Path (succ : α → List α) : α → α → Prop
  | single {a b} : b ∈ succ a → Path succ a b
  | cons {a b c} : b ∈ succ a → Path succ b c → Path succ a c

theorem Reach.cases' {succ : α → List α} {a b} (h : Reach succ a b) : a = b ∨ ∃ m, m ∈ succ a ∧ Reach succ m b := by
  cases h with
  | refl => exact Or.inl rfl
  | cons he hr => exact Or.inr ⟨_, he, hr⟩

theorem Reach.trans {succ : α → List α} {a b c} (h1 : Reach succ a b) (h2 : Reach succ b c) : Reach succ a c := by
  induction h1 with
  | refl => exact h2
  | cons hr _ ih => exact .cons hr (ih h2)

theorem path_of_edge_reach {succ : α → List α} {a b c} (he : b ∈ succ a) (h : Reach succ b c) : Path succ a c := by
  induction h generalizing a with
  | refl => exact .single he
  | cons hr _ ih => exact .cons he (ih hr)

theorem path_of_reach_edge {succ : α → List α} {a b c} (h : Reach succ a b) (he : c ∈ succ b) : Path succ a c := by
  induction h with
  | refl => exact .single he
  | cons hr _ ih => exact .cons hr (ih he)

theorem Path.toReach {succ : α → List α} {a b} (h : Path succ a b) : Reach succ a b := by
  induction h with
  | single hr => exact .cons hr .refl
  | cons hr _ ih => exact .cons hr ih

theorem Path.trans {succ : α → List α} {a b c} (h1 : Path succ a b) (h2 : Path succ b c) : Path succ a c := by
  induction h1 with
  | single hr => exact .cons hr h2
  | cons hr _ ih => exact .cons hr (ih h2)

theorem Reach.mono {succ succ' : α → List α} (h : ∀ x y, y ∈ succ x → y ∈ succ' x) {a b} (r : Reach succ a b) :
    Reach succ' a b := by
  induction r with
  | refl => exact .refl
  | cons hr _ ih => exact .cons (h _ _ hr) ih

theorem Path.mono {succ succ' : α → List α} (h : ∀ x y, y ∈ succ x → y ∈ succ' x) {a b} (r : Path succ a b) :
    Path succ' a b := by
  induction r with
  | single hr => exact .single (h _ _ hr)
  | cons hr _ ih => exact .cons (h _ _ hr) ih

def Acyclic (succ : α → List α) : Prop := ∀ a, ¬ Path succ a a

theorem search_no {succ : α → List α} {goal : α} : ∀ (f : Nat) {n}, search succ goal f n = .no → ¬ Reach succ n goal
  | 0, n, h => by simp [search] at h
  | f + 1, n, h => by
    simp only [search] at h
    split at h
    · cases h
    · rename_i hne
      have hne' : n ≠ goal := by simpa using hne
      intro hr
      cases hr with
      | refl => exact hne' rfl
      | cons he hrest => exact search_no f (anyTri_no_iff.mp h _ he) hrest

theorem search_yes {succ : α → List α} {goal : α} : ∀ (f : Nat) {n}, search succ goal f n = .yes → Reach succ n goal
  | 0, n, h => by simp [search] at h
  | f + 1, n, h => by
    simp only [search] at h
    split at h
    · rename_i he
      have : n = goal := by simpa using he
      subst this; exact .refl
    · obtain ⟨m, hm, hy⟩ := anyTri_yes_iff.mp h
      exact .cons hm (search_yes f hy)

/-- a `no` on a graph is a `no` on every graph with fewer edges -/
theorem search_mono {succ succ' : α → List α} {goal : α} (hs : ∀ x y, y ∈ succ x → y ∈ succ' x) :
    ∀ (f : Nat) {n}, search succ' goal f n = .no → search succ goal f n = .no
  | 0, n, h => by simp [search] at h
  | f + 1, n, h => by
    simp only [search] at h ⊢
    split at h
    · cases h
    · rename_i hne
      simp only [hne, Bool.false_eq_true, ↓reduceIte]
      rw [anyTri_no_iff] at h ⊢
      intro x hx
      exact search_mono hs f (h x (hs _ _ hx))

theorem anyTri_search_mono {succ succ' : α → List α} {goal : α} (hs : ∀ x y, y ∈ succ x → y ∈ succ' x)
    {f : Nat} {l l' : List α} (hl : ∀ x, x ∈ l → x ∈ l') (h : anyTri (search succ' goal f) l' = .no) :
    anyTri (search succ goal f) l = .no := by
  rw [anyTri_no_iff] at h ⊢
  intro x hx
  exact search_mono hs f (h x (hl x hx))

/-- new edges that all start at `a`, none of them to a node that reaches `a`, create no cycle -/
theorem acyclic_push {succ succ' : α → List α} {a : α} (hA : Acyclic succ)
    (hold : ∀ x, x ≠ a → ∀ y, y ∈ succ' x → y ∈ succ x)
    (hno : ∀ m, m ∈ succ' a → ¬ Reach succ m a) : Acyclic succ' := by
  have r1' : ∀ {x z}, Reach succ' x z → z = a → Reach succ x a := by
    intro x z hr
    induction hr with
    | refl => intro hz; subst hz; exact .refl
    | @cons x y z he _ ih =>
      intro hz
      by_cases hx : x = a
      · subst hx; exact .refl
      · exact .cons (hold x hx y he) (ih hz)
  have r3 : ∀ {x z}, Path succ' x z → Path succ x z ∨ (Reach succ' x a ∧ Path succ' a z) := by
    intro x z p
    induction p with
    | @single x y he =>
      by_cases hx : x = a
      · subst hx; exact Or.inr ⟨.refl, .single he⟩
      · exact Or.inl (.single (hold x hx y he))
    | @cons x y z he p' ih =>
      by_cases hx : x = a
      · subst hx; exact Or.inr ⟨.refl, .cons he p'⟩
      · rcases ih with ih | ⟨ih1, ih2⟩
        · exact Or.inl (.cons (hold x hx y he) ih)
        · exact Or.inr ⟨.cons he ih1, ih2⟩
  intro k p
  rcases r3 p with p' | ⟨hr, p'⟩
  · exact hA k p'
  · have pc : Reach succ' a a ∧ True := ⟨p'.toReach.trans hr, trivial⟩
    -- rotate: a → m →* k →* a
    have pa : Path succ' a a := by
      cases p' with
      | single he => exact path_of_edge_reach he hr
      | cons he prest => exact path_of_edge_reach he (prest.toReach.trans hr)
    cases pa with
    | single he => exact hno _ he .refl
    | cons he prest => exact hno _ he (r1' prest.toReach rfl)

/-! ## running out of fuel needs a long walk -/

def Chain (succ : α → List α) : List α → Prop
  | [] => True
  | [_] => True
  | a :: b :: l => b ∈ succ a ∧ Chain succ (b :: l)

theorem chain_path {succ : α → List α} : ∀ {l : List α} {a}, Chain succ (a :: l) → ∀ x, x ∈ l → Path succ a x
  | [], _, _, x, hx => by simp at hx
  | b :: l, a, hc, x, hx => by
    obtain ⟨hab, hc'⟩ := hc
    simp only [List.mem_cons] at hx
    rcases hx with rfl | hx
    · exact .single hab
    · exact .cons hab (chain_path hc' x hx)

theorem chain_tail {succ : α → List α} {a : α} {l : List α} (h : Chain succ (a :: l)) : Chain succ l := by
  cases l with
  | nil => trivial
  | cons b l => exact h.2

theorem chain_nodup {succ : α → List α} (hA : Acyclic succ) : ∀ {l : List α}, Chain succ l → l.Nodup
  | [], _ => List.nodup_nil
  | a :: l, hc => by
    rw [List.nodup_cons]
    exact ⟨fun hm => hA a (chain_path hc a hm), chain_nodup hA (chain_tail hc)⟩

theorem chain_sources {succ : α → List α} : ∀ {l : List α}, Chain succ l → ∀ x, x ∈ l.dropLast → succ x ≠ []
  | [], _, x, hx => by simp at hx
  | [a], _, x, hx => by simp at hx
  | a :: b :: l, hc, x, hx => by
    obtain ⟨hab, hc'⟩ := hc
    simp only [List.dropLast_cons_cons, List.mem_cons] at hx
    rcases hx with rfl | hx
    · intro he; rw [he] at hab; simp at hab
    · exact chain_sources hc' x hx

theorem search_fuel_chain {succ : α → List α} {goal : α} : ∀ (f : Nat) {n}, search succ goal f n = .fuel →
    ∃ l, l.length = f ∧ Chain succ (n :: l)
  | 0, n, _ => ⟨[], rfl, trivial⟩
  | f + 1, n, h => by
    simp only [search] at h
    split at h
    · cases h
    · obtain ⟨m, hm, hf⟩ := anyTri_fuel h
      obtain ⟨l, hl, hc⟩ := search_fuel_chain f hf
      exact ⟨m :: l, by simp [hl], hm, hc⟩

theorem nodup_subset_length : ∀ {l m : List α}, l.Nodup → (∀ x, x ∈ l → x ∈ m) → l.length ≤ m.length
  | [], _, _, _ => by simp
  | a :: l, m, hn, hs => by
    rw [List.nodup_cons] at hn
    have ha : a ∈ m := hs a List.mem_cons_self
    have hsub : ∀ x, x ∈ l → x ∈ m.erase a := by
      intro x hx
      have hne : x ≠ a := fun he => hn.1 (he ▸ hx)
      exact (List.mem_erase_of_ne hne).mpr (hs x (List.mem_cons_of_mem _ hx))
    have ih := nodup_subset_length hn.2 hsub
    rw [List.length_erase_of_mem ha] at ih
    have : 0 < m.length := List.length_pos_of_mem ha
    simp only [List.length_cons]
    omega

/-- on an acyclic graph whose nodes with successors are among `dom`, `dom.length + 1` fuel is never used up -/
theorem search_not_fuel {succ : α → List α} {goal : α} {dom : List α} (hA : Acyclic succ)
    (hdom : ∀ x, succ x ≠ [] → x ∈ dom) {f : Nat} (hf : dom.length < f) (n : α) : search succ goal f n ≠ .fuel := by
  intro h
  obtain ⟨l, hl, hc⟩ := search_fuel_chain f h
  have hnd := chain_nodup hA hc
  have hsub : (n :: l).dropLast.Nodup := hnd.sublist (List.dropLast_sublist _)
  have hlen : (n :: l).dropLast.length = f := by simp [hl]
  have := nodup_subset_length hsub (fun x hx => hdom x (chain_sources hc x hx))
  omega

theorem search_no_of_acyclic {succ : α → List α} {goal : α} {dom : List α} (hA : Acyclic succ)
    (hdom : ∀ x, succ x ≠ [] → x ∈ dom) {f : Nat} (hf : dom.length < f) {n : α} (hr : ¬ Reach succ n goal) :
    search succ goal f n = .no := by
  cases h : search succ goal f n with
  | no => rfl
  | yes => exact absurd (search_yes f h) hr
  | fuel => exact absurd h (search_not_fuel hA hdom hf n)

end StoneVerif.FeCompile.Gr
