import StoneVerif.Model.IrCheck
import StoneVerif.Lemmas.IrCheck
import StoneVerif.Lemmas.RtWire
import StoneVerif.Lemmas.IrCheckExamplesRt
import StoneVerif.Lemmas.IrCheckExamplesC
/-! C10: round trip of the examples the compiler computes (flat structs over scalar fields).

`IrCheckExamplesRt` is the runtime half (a member-wise good document decodes to the instance holding its members;
the wire form of that instance is the document in declaration order), `IrCheckExamplesC` the compile-time half
(what `addStructExample` accepted for a scalar field is a good member). Here: the class table python_types
generates for a struct (`structDefOfC`), the example document, and the theorem. -/
set_option linter.unusedSimpArgs false
set_option linter.unusedVariables false
namespace StoneVerif.IrCheck
open StoneVerif.Rt

/-! ### `mapM` in `Option` -/

theorem mapM_some_cons {α β : Type} {g : α → Option β} {a : α} {l : List α} {r : List β}
    (h : (a :: l).mapM g = some r) : ∃ b bs, g a = some b ∧ l.mapM g = some bs ∧ r = b :: bs := by
  rw [List.mapM_cons] at h
  cases hb : g a with
  | none => simp [hb] at h
  | some b =>
    cases hbs : l.mapM g with
    | none => simp [hb, hbs] at h
    | some bs => simp [hb, hbs] at h; exact ⟨b, bs, rfl, rfl, h.symm⟩

theorem mapM_append_some {α β : Type} {g : α → Option β} {l₁ l₂ : List α} {r₁ r₂ : List β}
    (h₁ : l₁.mapM g = some r₁) (h₂ : l₂.mapM g = some r₂) : (l₁ ++ l₂).mapM g = some (r₁ ++ r₂) := by
  rw [List.mapM_append, h₁, h₂]; rfl

theorem mapM_some_spec {α β : Type} {g : α → Option β} (nmA : α → String) (nmB : β → String)
    (hnm : ∀ a b, g a = some b → nmB b = nmA a) :
    ∀ {l : List α} {r : List β}, l.mapM g = some r →
      r.map nmB = l.map nmA ∧ (∀ b ∈ r, ∃ a ∈ l, g a = some b) ∧ (∀ a ∈ l, ∃ b ∈ r, g a = some b) := by
  intro l
  induction l with
  | nil => intro r h; simp at h; subst h; simp
  | cons a as ih =>
    intro r h
    obtain ⟨b, bs, hb, hbs, rfl⟩ := mapM_some_cons h
    obtain ⟨h1, h2, h3⟩ := ih hbs
    refine ⟨by simp [h1, hnm a b hb], ?_, ?_⟩
    · intro b' hb'
      rcases List.mem_cons.mp hb' with rfl | hm
      · exact ⟨a, by simp, hb⟩
      · obtain ⟨a', ha', hg⟩ := h2 b' hm
        exact ⟨a', List.mem_cons_of_mem _ ha', hg⟩
    · intro a' ha'
      rcases List.mem_cons.mp ha' with rfl | hm
      · exact ⟨b, by simp, hb⟩
      · obtain ⟨b', hb', hg⟩ := h3 a' hm
        exact ⟨b', List.mem_cons_of_mem _ hb', hg⟩

/-! ### the class table of a struct -/

theorem structDefOfC_inv {us : List CUnion} {cs : CStruct} {sd : StructDef} (h : structDefOfC us cs = some sd) :
    ∃ levels, cs.chain.mapM (fun (x : String × List CField) => match x with
        | (c, fs) => do
          let fds ← fs.mapM (fieldDefOfC us)
          pure ({ cls := c, fields := fds } : Level)) = some levels ∧
      sd = { cls := cs.cls, levels := levels, subtypes := cs.subtypes, catchAll := cs.catchAll } := by
  simp only [structDefOfC, Option.bind_eq_bind, Option.bind_eq_some_iff, Option.pure_def, Option.some.injEq] at h
  obtain ⟨levels, hl, hsd⟩ := h
  exact ⟨levels, hl, hsd.symm⟩

theorem chain_mapM_flat {us : List CUnion} :
    ∀ {chain : List (String × List CField)} {levels : List Level},
      chain.mapM (fun (x : String × List CField) => match x with
        | (c, fs) => do
          let fds ← fs.mapM (fieldDefOfC us)
          pure ({ cls := c, fields := fds } : Level)) = some levels →
      (chain.flatMap (·.2)).mapM (fieldDefOfC us) = some (levels.flatMap (·.fields)) ∧
      levels.map (·.cls) = chain.map (·.1) := by
  intro chain
  induction chain with
  | nil => intro levels h; simp at h; subst h; simp
  | cons x rest ih =>
    intro levels h
    obtain ⟨lv, lvs, hlv, hlvs, rfl⟩ := mapM_some_cons h
    obtain ⟨h1, h2⟩ := ih hlvs
    obtain ⟨c, fs⟩ := x
    cases hf : fs.mapM (fieldDefOfC us) with
    | none => simp [hf] at hlv
    | some fds =>
      simp [hf] at hlv
      subst hlv
      refine ⟨?_, by simp [h2]⟩
      simp only [List.flatMap_cons]
      exact mapM_append_some hf h1

/-- `Struct.all_fields` is the declared fields of the chain, required ones first -/
theorem allFields_eq (cs : CStruct) :
    cs.allFields = (cs.chain.flatMap (·.2)).filter (fun f => !f.optional) ++ (cs.chain.flatMap (·.2)).filter (·.optional) := by
  simp [CStruct.allFields, List.filter_flatMap]

theorem allFields_perm (cs : CStruct) : cs.allFields.Perm (cs.chain.flatMap (·.2)) := by
  rw [allFields_eq]
  have := List.filter_append_perm (fun f : CField => !f.optional) (cs.chain.flatMap (·.2))
  simpa using this

/-! ### the example document -/

theorem collectMembers_filterMap (ex : List (String × ExVal)) (o : CField → Option JVal) :
    ∀ (all : List CField), (∀ f ∈ all, structExampleMember ex f = some ((o f).map fun j => (f.name, j))) →
      collectMembers (all.map (structExampleMember ex)) = some (all.filterMap fun f => (o f).map fun j => (f.name, j)) := by
  intro all
  induction all with
  | nil => intro _; rfl
  | cons f rest ih =>
    intro h
    have hf := h f (by simp)
    have ih' := ih (fun g hg => h g (List.mem_cons_of_mem _ hg))
    cases ho : o f with
    | none => simp [ho] at hf; simp [List.filterMap_cons, ho, hf, collectMembers, ih']
    | some j => simp [ho] at hf; simp [List.filterMap_cons, ho, hf, collectMembers, ih']

/-- what `addStructExample` establishes field by field -/
theorem addStructExample_fields {E : Ext} {C : CExt} {us : List CUnion} {cs : CStruct} {ex : List (String × ExVal)}
    (hadd : addStructExample E C us cs ex = .ok ()) :
    ∀ f ∈ cs.allFields, match exLookup f.name ex with
      | some v => checkExample E C us f.ty v = .ok ()
      | none => (f.dflt.isSome || f.ty.isNullableLit) = true := by
  simp only [addStructExample, invalid, ite_error_eq_ok] at hadd
  have hall := firstErr_ok hadd.2
  intro f hf
  have h := hall f hf
  cases hlk : exLookup f.name ex with
  | some v =>
    simp only [hlk] at h ⊢
    cases hc : checkExample E C us f.ty v with
    | ok u => rfl
    | error e => cases e <;> simp [hc] at h
  | none =>
    simp only [hlk] at h ⊢
    by_cases hb : (f.dflt.isSome || f.ty.isNullableLit) = true
    · exact hb
    · simp [hb] at h

/-! ### the theorem -/

/-- The example document of a flat struct example, the instance it decodes to and its wire form, explicitly:
the document lists the members in `all_fields` order, the instance holds them in declaration order
(`slotsOf`), the wire form lists them in declaration order (`docOf`). -/
theorem example_roundtrip_core (E : Ext) (C : CExt) (us : List CUnion) (env : Env) (cs : CStruct) (sd : StructDef)
    (ex : List (String × ExVal))
    (hsd : structDefOfC us cs = some sd) (henv : env.struct? cs.cls = some sd)
    (hscalar : ∀ f ∈ cs.allFields, scalarTy f.ty = true)
    (hpub : ∀ f ∈ cs.allFields, f.omitted = none)
    (hnd : (cs.allFields.map (·.name)).Nodup)
    (hdef : ∀ f ∈ cs.allFields, ∀ d, f.dflt = some d → ∃ lit, fieldDefault E C us f.ty lit = .ok d)
    (hexact : ∀ f ∈ cs.allFields, (∀ l, exLookup f.name ex = some (.lit l) → exactKind f.ty l = true) ∧
      (∀ d, exLookup f.name ex = none → f.dflt = some d → exactKind f.ty d = true))
    (hadd : addStructExample E C us cs ex = .ok ()) :
    let kvs := cs.allFields.filterMap fun f => (docVal ex f).map fun j => (f.name, j)
    let slots := slotsOf (sd.fieldsFor []) kvs
    structExampleDoc cs ex = some (.obj kvs) ∧
    decode E env [] true (.struct {} cs.cls) (.obj kvs) = .ok (.struct cs.cls slots) ∧
    wire E env (.struct {} cs.cls) (.struct cs.cls slots) = .obj (docOf (sd.fieldsFor []) kvs) ∧
    (docOf (sd.fieldsFor []) kvs).Perm kvs ∧
    normalB env (.struct {} cs.cls) (.struct cs.cls slots) = true ∧
    (cs.cls ∈ cs.chain.map (·.1) → validB E env (.struct {} cs.cls) (.struct cs.cls slots) = true) := by
  intro kvs slots
  obtain ⟨levels, hlv, hsdeq⟩ := structDefOfC_inv hsd
  obtain ⟨hflat, hcls⟩ := chain_mapM_flat hlv
  obtain ⟨hnames, hright, hleft⟩ := mapM_some_spec (g := fieldDefOfC us) (·.name) (·.name)
    (fun a b h => by obtain ⟨_, _, hn, _⟩ := fieldDefOfC_inv h; exact hn) hflat
  have hperm := allFields_perm cs
  have hmem : ∀ f, f ∈ cs.allFields ↔ f ∈ cs.chain.flatMap (·.2) := fun f => hperm.mem_iff
  have hlevels : sd.levels = levels := by rw [hsdeq]
  -- the table the decoder and the encoder walk: every declared field, in declaration order
  have hfor : sd.fieldsFor [] = levels.flatMap (·.fields) := by
    rw [fieldsFor_nil, fieldsSpec_nil, hlevels]
    apply List.filter_eq_self.mpr
    intro fd hfd
    obtain ⟨f, hf, hg⟩ := hright fd hfd
    obtain ⟨_, _, _, _, _, _, hom, _⟩ := fieldDefOfC_inv hg
    simp [hom, hpub f ((hmem f).mpr hf)]
  have hndf : ((sd.fieldsFor []).map (·.name)).Nodup := by
    rw [hfor, hnames]; exact (hperm.map _).nodup_iff.mp hnd
  -- field by field
  have hchk := addStructExample_fields hadd
  have hfield : ∀ f ∈ cs.allFields, ∀ fd, fieldDefOfC us f = some fd →
      structExampleMember ex f = some ((docVal ex f).map fun j => (f.name, j)) ∧ StepOK E env fd (docVal ex f) :=
    fun f hf fd hfd => field_step E C us env ex f fd (hscalar f hf) hfd (hdef f hf) (hexact f hf).1 (hexact f hf).2
      (hchk f hf)
  have hdoc : structExampleDoc cs ex = some (.obj kvs) := by
    unfold structExampleDoc
    rw [collectMembers_filterMap ex (docVal ex) cs.allFields]
    · rfl
    · intro f hf
      obtain ⟨fd, _, hfd⟩ := hleft f ((hmem f).mp hf)
      exact (hfield f hf fd hfd).1
  have hkeys : ∀ kv ∈ kvs, kv.1 ∈ (sd.fieldsFor []).map (·.name) := by
    intro kv hkv
    obtain ⟨f, hf, hfk⟩ := List.mem_filterMap.mp hkv
    rw [hfor, hnames]
    cases hd : docVal ex f with
    | none => simp [hd] at hfk
    | some j =>
      simp [hd] at hfk
      subst hfk
      exact List.mem_map_of_mem ((hmem f).mp hf)
  have hkn : (kvs.map (·.1)).Nodup := List.Nodup.sublist (keys_filterMap_sublist (·.name) (docVal ex) cs.allFields) hnd
  have hstep : ∀ fd ∈ sd.fieldsFor [], StepOK E env fd (jsonLookup fd.name kvs) := by
    intro fd hfd
    rw [hfor] at hfd
    obtain ⟨f, hf, hg⟩ := hright fd hfd
    have hf' := (hmem f).mpr hf
    obtain ⟨_, _, hname, _⟩ := fieldDefOfC_inv hg
    have : jsonLookup fd.name kvs = docVal ex f := by
      rw [hname, jsonLookup_eq_lk]
      exact lk_filterMap_of_mem (·.name) (docVal ex) cs.allFields hnd f hf'
    rw [this]
    exact (hfield f hf' fd hg).2
  have hvn := valid_struct_doc E env cs.cls sd kvs henv
  refine ⟨hdoc, decode_struct_doc E env cs.cls sd kvs henv hndf hkeys hstep,
    wire_struct_doc E env cs.cls sd kvs henv hndf hstep, ?_, ?_, ?_⟩
  · have := doc_perm (·.name) (sd.fieldsFor []) kvs hndf hkn hkeys
    simpa only [docOf, jsonLookup_eq_lk] using this
  · have hpf : publicFields env cs.cls = sd.fieldsFor [] := by simp [publicFields, henv, fieldsFor_nil]
    obtain ⟨_, h2⟩ := validSlots_doc E env _ hndf kvs hstep _ (fun _ h => h)
    unfold normalB
    simp [hpf, h2, slots]
  · intro hself
    have : sd.ancestors.contains cs.cls = true := by
      simp only [StructDef.ancestors, hlevels, hcls]
      simpa using hself
    exact (valid_struct_doc E env cs.cls sd kvs henv this hndf hstep).1

/-
FULL STATEMENT (not proved): every example the compiler computes for a struct or a union, of every shape,
round-trips through the generated classes —

    theorem example_roundtrip (hapi : the API `api` was accepted by the compiler) (henv : envOfC api = some env)
        (hs : cs ∈ api.structs) (hex : `label` is an example of `cs`) :
        ∃ doc v, Struct._compute_example(label) = doc ∧
          jsonCompatObjDecode E env [] true (validatorOf cs) doc = .ok v ∧
          jsonCompatObjEncode E env [] false (validatorOf cs) v = .ok doc' ∧ doc' ≈ doc     (same members)

    and the same for every union example.

WHAT IS MISSING in `example_roundtrip_partial` below:
* references to other examples (`ExVal.ref`: fields of struct / union type take their value from the labelled
  example of the field's type; `structExampleDoc` answers `none` for them — the resolution of labels, with its
  recursion through the API, is outside the model);
* list and map fields (`ExVal.list` / `ExVal.map`), Timestamp and Bytes fields (the document holds the text,
  the instance a datetime / bytes object; the round trip needs the `strptime`/`strftime` and base64 laws);
* aliases as field types (`scalarTy` is the literal Boolean / integer / float / String, optionally `?`);
* structs with enumerated subtypes (the document of a subtype carries `.tag`; decoded at the `StructTree`);
* union examples (see `example_union_roundtrip_partial`);
* literals of an inexact kind (`exactKind`): `true` written for an Int32 field, `1` written for a Float64 field —
  the compiler accepts them and the decoder accepts them, but the instance re-encodes as `1` resp. `1.0`, a
  different JSON token;
* fields omitted for a caller class (`omitted`): the example document lists them, a caller without
  permissions neither decodes (strict) nor encodes them;
-/

/-- ROUND TRIP OF FLAT STRUCT EXAMPLES OVER SCALAR FIELDS.
For a struct (any inheritance chain, no enumerated subtypes involved) whose fields all have a scalar type
(Boolean / integer / float / String, optionally `?`), are public and have distinct names; whose defaults the
compiler accepted (`hdef`); in the environment that holds the class table python_types generates for it
(`hsd`, `henv`): every raw example that `_add_example` accepts and whose literals have exactly the kind of their
field (`hexact`) gives an example document that the strict decoder accepts; the instance is valid and in stored
form; and the wire form of the instance has exactly the members of the document (in declaration order instead
of `all_fields` order: a permutation). -/
theorem example_roundtrip_partial (E : Ext) (C : CExt) (us : List CUnion) (env : Env) (cs : CStruct) (sd : StructDef)
    (ex : List (String × ExVal))
    (hsd : structDefOfC us cs = some sd) (henv : env.struct? cs.cls = some sd)
    (hscalar : ∀ f ∈ cs.allFields, scalarTy f.ty = true)
    (hpub : ∀ f ∈ cs.allFields, f.omitted = none)
    (hnd : (cs.allFields.map (·.name)).Nodup)
    (hdef : ∀ f ∈ cs.allFields, ∀ d, f.dflt = some d → ∃ lit, fieldDefault E C us f.ty lit = .ok d)
    (hexact : ∀ f ∈ cs.allFields, (∀ l, exLookup f.name ex = some (.lit l) → exactKind f.ty l = true) ∧
      (∀ d, exLookup f.name ex = none → f.dflt = some d → exactKind f.ty d = true))
    (hadd : addStructExample E C us cs ex = .ok ()) :
    ∃ kvs slots, structExampleDoc cs ex = some (.obj kvs) ∧
      decode E env [] true (.struct {} cs.cls) (.obj kvs) = .ok (.struct cs.cls slots) ∧
      jsonCompatObjDecode E env [] true (.struct {} cs.cls) (.obj kvs) = .ok (.struct cs.cls slots) ∧
      (∃ kvs', wire E env (.struct {} cs.cls) (.struct cs.cls slots) = .obj kvs' ∧ kvs'.Perm kvs) ∧
      normalB env (.struct {} cs.cls) (.struct cs.cls slots) = true ∧
      (cs.cls ∈ cs.chain.map (·.1) → validB E env (.struct {} cs.cls) (.struct cs.cls slots) = true) := by
  obtain ⟨h1, h2, h3, h4, h5, h6⟩ :=
    example_roundtrip_core E C us env cs sd ex hsd henv hscalar hpub hnd hdef hexact hadd
  exact ⟨_, _, h1, h2, by rw [jsonCompatObjDecode_struct]; exact h2, ⟨_, h3, h4⟩, h5, h6⟩

/-! ### the hypotheses as Boolean tests (convenient for concrete instances) -/

/-- every literal the example document takes for the field — written in the example, or the default that is
filled in — has exactly the kind of the field's type -/
def exactOK (ex : List (String × ExVal)) (f : CField) : Bool :=
  match exLookup f.name ex with
  | some (.lit l) => exactKind f.ty l
  | some _ => true
  | none => match f.dflt with
    | some d => exactKind f.ty d
    | none => true

/-- the field's default is one the compiler stores (a stored default is a fixed point of `fieldDefault`) -/
def dfltOK (E : Ext) (C : CExt) (us : List CUnion) (f : CField) : Bool :=
  match f.dflt with
  | none => true
  | some d => match fieldDefault E C us f.ty d with
    | .ok d' => d' == d
    | .error _ => false

theorem hexact_of_exactOK {ex : List (String × ExVal)} {f : CField} (h : exactOK ex f = true) :
    (∀ l, exLookup f.name ex = some (.lit l) → exactKind f.ty l = true) ∧
    (∀ d, exLookup f.name ex = none → f.dflt = some d → exactKind f.ty d = true) := by
  unfold exactOK at h
  constructor
  · intro l hl; simpa [hl] using h
  · intro d hl hd; simpa [hl, hd] using h

theorem hdef_of_dfltOK {E : Ext} {C : CExt} {us : List CUnion} {f : CField} (h : dfltOK E C us f = true) :
    ∀ d, f.dflt = some d → ∃ lit, fieldDefault E C us f.ty lit = .ok d := by
  intro d hd
  unfold dfltOK at h
  simp only [hd] at h
  refine ⟨d, ?_⟩
  cases hf : fieldDefault E C us f.ty d with
  | error e => simp [hf] at h
  | ok d' => simp [hf] at h; rw [h]

/-- `example_roundtrip_partial` with the per-field hypotheses as one Boolean test -/
theorem example_roundtrip_partial' (E : Ext) (C : CExt) (us : List CUnion) (env : Env) (cs : CStruct) (sd : StructDef)
    (ex : List (String × ExVal))
    (hsd : structDefOfC us cs = some sd) (henv : env.struct? cs.cls = some sd)
    (hfields : (cs.allFields.all fun f => scalarTy f.ty && f.omitted.isNone && dfltOK E C us f && exactOK ex f) = true)
    (hnd : (cs.allFields.map (·.name)).Nodup)
    (hadd : addStructExample E C us cs ex = .ok ()) :
    ∃ kvs slots, structExampleDoc cs ex = some (.obj kvs) ∧
      decode E env [] true (.struct {} cs.cls) (.obj kvs) = .ok (.struct cs.cls slots) ∧
      jsonCompatObjDecode E env [] true (.struct {} cs.cls) (.obj kvs) = .ok (.struct cs.cls slots) ∧
      (∃ kvs', wire E env (.struct {} cs.cls) (.struct cs.cls slots) = .obj kvs' ∧ kvs'.Perm kvs) ∧
      normalB env (.struct {} cs.cls) (.struct cs.cls slots) = true ∧
      (cs.cls ∈ cs.chain.map (·.1) → validB E env (.struct {} cs.cls) (.struct cs.cls slots) = true) := by
  rw [List.all_eq_true] at hfields
  have hf : ∀ f ∈ cs.allFields, scalarTy f.ty = true ∧ f.omitted = none ∧ dfltOK E C us f = true ∧ exactOK ex f = true := by
    intro f hf
    have := hfields f hf
    simp only [Bool.and_eq_true, Option.isNone_iff_eq_none] at this
    exact ⟨this.1.1.1, this.1.1.2, this.1.2, this.2⟩
  exact example_roundtrip_partial E C us env cs sd ex hsd henv (fun f h => (hf f h).1) (fun f h => (hf f h).2.1) hnd
    (fun f h => hdef_of_dfltOK (hf f h).2.2.1) (fun f h => hexact_of_exactOK (hf f h).2.2.2) hadd

/-! ### non-vacuity: a struct with a parent, a defaulted field and a nullable field -/

/-- float arithmetic on the two floats the example uses (1.5 and 0.0), an anchored pattern test -/
def rtE : Ext where
  fltLt a b := a < b
  fltIsNan _ := false
  fltIsInf _ := false
  fltOfInt n := if n = 0 then some 0 else none
  patMatch p s := p == "[a-z]{2}" && s == "ab"
  b64enc h := h
  b64dec s := some (some s)
  strftime _ _ := ""
  strptime _ _ := none
  md5 s := s
  reSearch _ _ := none
  strOfInt _ := ""
  strOfFlt _ := ""

/-- the compile-time external calls (the pattern test is the runtime's own, `E.patMatch`) -/
def rtC : CExt where
  intExact _ := true
  strptimeOk _ _ := false

/-- `struct Base { id Int64; note String? }`,
`struct Item extends Base { flag Boolean = false; name String(pattern="[a-z]{2}"); score Float64; n UInt32? }` -/
def rtItem : CStruct :=
  { cls := "ns.Item",
    chain := [("ns.Base", [{ name := "id", ty := .int "Int64" none none },
                           { name := "note", ty := .nullable (.str none none none) }]),
              ("ns.Item", [{ name := "flag", ty := .bool, dflt := some (.bool false) },
                           { name := "name", ty := .str none none (some "[a-z]{2}") },
                           { name := "score", ty := .float "Float64" none none },
                           { name := "n", ty := .nullable (.int "UInt32" none none) }])] }

def rtItemDef : StructDef := (structDefOfC [] rtItem).getD { cls := "", levels := [], subtypes := none, catchAll := false }

def rtEnv : Env := { structs := [rtItemDef], unions := [] }

/-- the raw example: `note` explicitly null, `flag` and `n` not mentioned -/
def rtEx : List (String × ExVal) :=
  [("name", .lit (.str "ab")), ("id", .lit (.int 7)), ("score", .lit (.flt 4609434218613702656)), ("note", .lit .null)]

/-- the instance satisfies every hypothesis of the theorem … -/
example : structDefOfC [] rtItem = some rtItemDef ∧ rtEnv.struct? rtItem.cls = some rtItemDef ∧
    (rtItem.allFields.all fun f => scalarTy f.ty && f.omitted.isNone && dfltOK rtE rtC [] f && exactOK rtEx f) = true ∧
    addStructExample rtE rtC [] rtItem rtEx = .ok () := by
  refine ⟨rfl, rfl, rfl, rfl⟩

/-- … and the conclusion is what evaluation of the model gives: the document in `all_fields` order (required
`id`, `name`, `score`, then the default of `flag`; no key for the null `note` and the absent `n`), the instance,
and the wire form in declaration order (`id`, `flag`, `name`, `score`) — a genuine permutation. -/
example :
    structExampleDoc rtItem rtEx = some (.obj [("id", .int 7), ("name", .str "ab"), ("score", .flt 4609434218613702656),
      ("flag", .bool false)]) ∧
    decode rtE rtEnv [] true (.struct {} "ns.Item") (.obj [("id", .int 7), ("name", .str "ab"),
        ("score", .flt 4609434218613702656), ("flag", .bool false)]) =
      .ok (.struct "ns.Item" [("id", .int 7), ("flag", .bool false), ("name", .str "ab"), ("score", .flt 4609434218613702656)]) ∧
    wire rtE rtEnv (.struct {} "ns.Item")
        (.struct "ns.Item" [("id", .int 7), ("flag", .bool false), ("name", .str "ab"), ("score", .flt 4609434218613702656)]) =
      .obj [("id", .int 7), ("flag", .bool false), ("name", .str "ab"), ("score", .flt 4609434218613702656)] :=
  ⟨rfl, rfl, rfl⟩

example : ∃ kvs slots, structExampleDoc rtItem rtEx = some (.obj kvs) ∧
    decode rtE rtEnv [] true (.struct {} rtItem.cls) (.obj kvs) = .ok (.struct rtItem.cls slots) ∧
    jsonCompatObjDecode rtE rtEnv [] true (.struct {} rtItem.cls) (.obj kvs) = .ok (.struct rtItem.cls slots) ∧
    (∃ kvs', wire rtE rtEnv (.struct {} rtItem.cls) (.struct rtItem.cls slots) = .obj kvs' ∧ kvs'.Perm kvs) ∧
    normalB rtEnv (.struct {} rtItem.cls) (.struct rtItem.cls slots) = true ∧
    (rtItem.cls ∈ rtItem.chain.map (·.1) → validB rtE rtEnv (.struct {} rtItem.cls) (.struct rtItem.cls slots) = true) :=
  example_roundtrip_partial' rtE rtC [] rtEnv rtItem rtItemDef rtEx rfl rfl rfl (by decide) rfl

def rtB : CStruct := { cls := "ns.B", chain := [("ns.B", [{ name := "k", ty := .int "Int32" none none }])] }
def rtBEnv : Env := { structs := ((structDefOfC [] rtB).map fun sd => [sd]).getD [], unions := [] }

/-- regression (formerly the witness that `exactOK` is needed for booleans): `true` written for an integer field
used to be accepted by the compiler; the strict decoder still takes the document and the instance re-encodes as
`1` — the wire form is not the document. Since the repair of `_BoundedInteger.check` the compiler refuses the
example, so no such document is computed any more. -/
example :
    (structDefOfC [] rtB).isSome = true ∧ rtBEnv.struct? "ns.B" = structDefOfC [] rtB ∧
    addStructExample rtE rtC [] rtB [("k", .lit (.bool true))] =
      .error (.invalid "Bad example for field: boolean is not a valid integer") ∧
    decode rtE rtBEnv [] true (.struct {} "ns.B") (.obj [("k", .bool true)]) = .ok (.struct "ns.B" [("k", .bool true)]) ∧
    wire rtE rtBEnv (.struct {} "ns.B") (.struct "ns.B" [("k", .bool true)]) = .obj [("k", .int 1)] :=
  ⟨rfl, rfl, rfl, rfl, rfl⟩

end StoneVerif.IrCheck
