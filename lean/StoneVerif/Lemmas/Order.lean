import StoneVerif.Model.Order
/-!
Theory of Python's stable `sorted(.., key=..)` as modelled by `Order.sortBy`:

* `cls_sortBy`            : a stable sort keeps, for every key value, the sub-sequence of items with that key;
* `sorted_sortBy`         : the result is ordered by key;
* `eq_of_sorted_of_clsEq` : an ordered list is determined by those sub-sequences;
* `sortBy_congr`          : hence `sortBy` of two lists with the same per-key sub-sequences (`ClassEq`) agree --
  the single fact every order-freedom theorem of C12 reduces to;
* `classEq_of_perm_of_inj`: permutations on which the key is injective are `ClassEq`.
-/
namespace StoneVerif.Order

/-- `le` is a total order on keys (Python `<=` on `str`, on tuples of `str` and `int`) -/
structure TotalLe {κ : Type} (le : κ → κ → Bool) : Prop where
  total : ∀ a b, le a b = true ∨ le b a = true
  trans : ∀ a b c, le a b = true → le b c = true → le a c = true
  antisymm : ∀ a b, le a b = true → le b a = true → a = b

theorem TotalLe.refl {κ : Type} {le : κ → κ → Bool} (h : TotalLe le) (a : κ) : le a a = true := by
  cases h.total a a <;> assumption

theorem strLe_totalLe : TotalLe strLe where
  total a b := by
    simp only [strLe, decide_eq_true_eq]; exact String.le_total a b
  trans a b c := by
    simp only [strLe, decide_eq_true_eq]; exact String.le_trans
  antisymm a b := by
    simp only [strLe, decide_eq_true_eq]; exact String.le_antisymm

theorem pairLe_totalLe : TotalLe pairLe where
  total a b := by
    unfold pairLe
    by_cases h : a.1 = b.1
    · simp only [h, if_true, decide_eq_true_eq]; omega
    · have h' : ¬ b.1 = a.1 := fun e => h e.symm
      simp only [h, h', if_false]; exact strLe_totalLe.total _ _
  trans a b c := by
    obtain ⟨a1, a2⟩ := a
    obtain ⟨b1, b2⟩ := b
    obtain ⟨c1, c2⟩ := c
    unfold pairLe
    dsimp only
    by_cases h1 : a1 = b1 <;> by_cases h2 : b1 = c1
    · subst h1; subst h2
      simp only [↓reduceIte, decide_eq_true_eq]; omega
    · subst h1
      simp only [h2, ↓reduceIte]
      intro _ hbc; exact hbc
    · subst h2
      simp only [h1, ↓reduceIte]
      intro hab _; exact hab
    · simp only [h1, h2, ↓reduceIte]
      intro hab hbc
      have hac := strLe_totalLe.trans _ _ _ hab hbc
      by_cases h3 : a1 = c1
      · exfalso
        subst h3
        exact h2 (strLe_totalLe.antisymm _ _ hbc hab)
      · simp only [h3, ↓reduceIte]; exact hac
  antisymm a b := by
    unfold pairLe
    by_cases h : a.1 = b.1
    · simp only [h, if_true, decide_eq_true_eq]
      intro h1 h2
      exact Prod.ext h (by omega)
    · have h' : ¬ b.1 = a.1 := fun e => h e.symm
      simp only [h, h', if_false]
      intro h1 h2
      exact absurd (strLe_totalLe.antisymm _ _ h1 h2) h

theorem strPairLe_totalLe : TotalLe strPairLe where
  total a b := by
    unfold strPairLe
    by_cases h : a.1 = b.1
    · simp only [h, if_true]; exact strLe_totalLe.total _ _
    · have h' : ¬ b.1 = a.1 := fun e => h e.symm
      simp only [h, h', if_false]; exact strLe_totalLe.total _ _
  trans a b c := by
    obtain ⟨a1, a2⟩ := a
    obtain ⟨b1, b2⟩ := b
    obtain ⟨c1, c2⟩ := c
    unfold strPairLe
    dsimp only
    by_cases h1 : a1 = b1 <;> by_cases h2 : b1 = c1
    · subst h1; subst h2
      simp only [↓reduceIte]; exact strLe_totalLe.trans _ _ _
    · subst h1
      simp only [h2, ↓reduceIte]
      intro _ hbc; exact hbc
    · subst h2
      simp only [h1, ↓reduceIte]
      intro hab _; exact hab
    · simp only [h1, h2, ↓reduceIte]
      intro hab hbc
      have hac := strLe_totalLe.trans _ _ _ hab hbc
      by_cases h3 : a1 = c1
      · exfalso
        subst h3
        exact h2 (strLe_totalLe.antisymm _ _ hbc hab)
      · simp only [h3, ↓reduceIte]; exact hac
  antisymm a b := by
    unfold strPairLe
    by_cases h : a.1 = b.1
    · simp only [h, if_true]
      intro h1 h2
      exact Prod.ext h (strLe_totalLe.antisymm _ _ h1 h2)
    · have h' : ¬ b.1 = a.1 := fun e => h e.symm
      simp only [h, h', if_false]
      intro h1 h2
      exact absurd (strLe_totalLe.antisymm _ _ h1 h2) h

section
variable {α κ : Type} [DecidableEq κ] (key : α → κ) (le : κ → κ → Bool)

/-- the items with key `k`, in their order of appearance -/
def cls (k : κ) (l : List α) : List α := l.filter fun x => decide (key x = k)

/-- same per-key sub-sequences -/
def ClassEq (l₁ l₂ : List α) : Prop := ∀ k, cls key k l₁ = cls key k l₂

/-- ordered by key -/
def SortedBy (l : List α) : Prop := l.Pairwise fun a b => le (key a) (key b) = true

variable {key le}

@[simp] theorem cls_nil (k : κ) : cls key k ([] : List α) = [] := rfl

theorem cls_cons (k : κ) (a : α) (l : List α) :
    cls key k (a :: l) = (if key a = k then [a] else []) ++ cls key k l := by
  unfold cls
  by_cases h : key a = k <;> simp [h]

theorem cls_append (k : κ) (l₁ l₂ : List α) : cls key k (l₁ ++ l₂) = cls key k l₁ ++ cls key k l₂ := by
  simp [cls, List.filter_append]

theorem mem_cls {k : κ} {x : α} {l : List α} : x ∈ cls key k l ↔ x ∈ l ∧ key x = k := by
  simp [cls, List.mem_filter]

omit [DecidableEq κ] in
theorem mem_insertBy {a x : α} {l : List α} : x ∈ insertBy key le a l ↔ x = a ∨ x ∈ l := by
  induction l with
  | nil => simp [insertBy]
  | cons b l ih =>
    unfold insertBy
    split
    · simp
    · simp only [List.mem_cons, ih]
      constructor
      · rintro (h | h | h) <;> simp [h]
      · rintro (h | h | h) <;> simp [h]

omit [DecidableEq κ] in
theorem mem_sortBy {x : α} {l : List α} : x ∈ sortBy key le l ↔ x ∈ l := by
  induction l with
  | nil => simp [sortBy]
  | cons a l ih => simp [sortBy, mem_insertBy, ih]

theorem cls_insertBy (h : TotalLe le) (k : κ) (a : α) (l : List α) :
    cls key k (insertBy key le a l) = (if key a = k then [a] else []) ++ cls key k l := by
  induction l with
  | nil => simp [insertBy, cls_cons]
  | cons b l ih =>
    unfold insertBy
    split
    · rw [cls_cons]
    · rename_i hle
      have hne : key b ≠ key a := by
        intro e
        rw [e] at hle
        exact hle (h.refl _)
      rw [cls_cons, ih, cls_cons]
      by_cases hb : key b = k <;> by_cases ha : key a = k
      · exact absurd (hb.trans ha.symm) hne
      · simp [hb, ha]
      · simp [hb, ha]
      · simp [hb, ha]

/-- stability: sorting does not reorder items with equal keys -/
theorem cls_sortBy (h : TotalLe le) (k : κ) (l : List α) : cls key k (sortBy key le l) = cls key k l := by
  induction l with
  | nil => rfl
  | cons a l ih => rw [sortBy, cls_insertBy h, ih, cls_cons]

omit [DecidableEq κ] in
theorem sorted_insertBy (h : TotalLe le) (a : α) {l : List α} (hs : SortedBy key le l) :
    SortedBy key le (insertBy key le a l) := by
  induction l with
  | nil => simp [insertBy, SortedBy]
  | cons b l ih =>
    unfold SortedBy at hs ⊢
    rw [List.pairwise_cons] at hs
    unfold insertBy
    split
    · rename_i hab
      rw [List.pairwise_cons]
      refine ⟨?_, List.pairwise_cons.mpr hs⟩
      intro x hx
      rcases List.mem_cons.mp hx with rfl | hx
      · exact hab
      · exact h.trans _ _ _ hab (hs.1 x hx)
    · rename_i hab
      have hba : le (key b) (key a) = true := by
        rcases h.total (key a) (key b) with h1 | h1
        · exact absurd h1 hab
        · exact h1
      rw [List.pairwise_cons]
      refine ⟨?_, ih hs.2⟩
      intro x hx
      rcases mem_insertBy.mp hx with rfl | hx
      · exact hba
      · exact hs.1 x hx

omit [DecidableEq κ] in
theorem sorted_sortBy (h : TotalLe le) (l : List α) : SortedBy key le (sortBy key le l) := by
  induction l with
  | nil => simp [sortBy, SortedBy]
  | cons a l ih => exact sorted_insertBy h a ih

theorem eq_nil_of_cls_nil {l : List α} (h : ∀ k, cls key k l = []) : l = [] := by
  cases l with
  | nil => rfl
  | cons b t =>
    have := h (key b)
    rw [cls_cons] at this
    simp at this

/-- an ordered list is determined by its per-key sub-sequences -/
theorem eq_of_sorted_of_clsEq (h : TotalLe le) {l₁ l₂ : List α}
    (h₁ : SortedBy key le l₁) (h₂ : SortedBy key le l₂) (he : ClassEq key l₁ l₂) : l₁ = l₂ := by
  induction l₁ generalizing l₂ with
  | nil =>
    exact (eq_nil_of_cls_nil (l := l₂) fun k => (he k).symm).symm
  | cons a t₁ ih =>
    cases l₂ with
    | nil => exact eq_nil_of_cls_nil (l := a :: t₁) fun k => he k
    | cons b t₂ =>
      unfold SortedBy at h₁ h₂
      rw [List.pairwise_cons] at h₁ h₂
      have hab : a = b := by
        by_cases hk : key a = key b
        · have := he (key a)
          rw [cls_cons, cls_cons] at this
          simp [hk] at this
          exact this.1
        · exfalso
          have e1 := he (key a)
          rw [cls_cons, cls_cons] at e1
          have hk' : ¬ key b = key a := fun e => hk e.symm
          simp [hk'] at e1
          have ha2 : a ∈ t₂ := by
            have : a ∈ cls key (key a) t₂ := by rw [← e1]; simp
            exact (mem_cls.mp this).1
          have e2 := he (key b)
          rw [cls_cons, cls_cons] at e2
          simp [hk] at e2
          have hb1 : b ∈ t₁ := by
            have : b ∈ cls key (key b) t₁ := by rw [e2]; simp
            exact (mem_cls.mp this).1
          exact hk (h.antisymm _ _ (h₁.1 b hb1) (h₂.1 a ha2))
      subst hab
      congr 1
      apply ih h₁.2 h₂.2
      intro k
      have := he k
      rw [cls_cons, cls_cons] at this
      exact List.append_cancel_left this

/-- **the sort only sees the per-key sub-sequences** -/
theorem sortBy_congr (h : TotalLe le) {l₁ l₂ : List α} (he : ClassEq key l₁ l₂) :
    sortBy key le l₁ = sortBy key le l₂ := by
  apply eq_of_sorted_of_clsEq h (sorted_sortBy h l₁) (sorted_sortBy h l₂)
  intro k
  rw [cls_sortBy h, cls_sortBy h, he k]

theorem perm_eq_of_all_eq {l₁ l₂ : List α} (hp : l₁.Perm l₂) (hall : ∀ a ∈ l₁, ∀ b ∈ l₁, a = b) : l₁ = l₂ := by
  induction l₁ generalizing l₂ with
  | nil => exact (List.Perm.nil_eq hp)
  | cons a t ih =>
    cases l₂ with
    | nil => exact absurd hp.symm (by simp)
    | cons b t₂ =>
      have hb : b ∈ a :: t := hp.symm.subset (List.mem_cons_self)
      have hab : a = b := hall a List.mem_cons_self b hb
      subst hab
      congr 1
      apply ih (List.Perm.cons_inv hp)
      intro x hx y hy
      exact hall x (List.mem_cons_of_mem _ hx) y (List.mem_cons_of_mem _ hy)

/-- key injective on the items: any two orders of the same items are `ClassEq` -/
theorem classEq_of_perm_of_inj {l₁ l₂ : List α} (hp : l₁.Perm l₂)
    (hinj : ∀ a ∈ l₁, ∀ b ∈ l₁, key a = key b → a = b) : ClassEq key l₁ l₂ := by
  intro k
  apply perm_eq_of_all_eq (hp.filter _)
  intro a ha b hb
  have ha' := mem_cls.mp ha
  have hb' := mem_cls.mp hb
  exact hinj a ha'.1 b hb'.1 (ha'.2.trans hb'.2.symm)

/-- a sort whose key is injective on the items does not depend on the order in which the items arrive -/
theorem sortBy_perm (h : TotalLe le) {l₁ l₂ : List α} (hp : l₁.Perm l₂)
    (hinj : ∀ a ∈ l₁, ∀ b ∈ l₁, key a = key b → a = b) : sortBy key le l₁ = sortBy key le l₂ :=
  sortBy_congr h (classEq_of_perm_of_inj hp hinj)

theorem ClassEq.refl (l : List α) : ClassEq key l l := fun _ => rfl

theorem ClassEq.append {a₁ a₂ b₁ b₂ : List α} (ha : ClassEq key a₁ a₂) (hb : ClassEq key b₁ b₂) :
    ClassEq key (a₁ ++ b₁) (a₂ ++ b₂) := by
  intro k; rw [cls_append, cls_append, ha k, hb k]

end

section
variable {α β κ : Type} [DecidableEq κ]

theorem cls_map (key : α → κ) (key' : β → κ) (f : α → β) (hf : ∀ x, key' (f x) = key x) (k : κ) (l : List α) :
    cls key' k (l.map f) = (cls key k l).map f := by
  induction l with
  | nil => rfl
  | cons a l ih =>
    rw [List.map_cons, cls_cons, cls_cons, ih, hf]
    by_cases h : key a = k <;> simp [h]

theorem ClassEq.map {key : α → κ} {key' : β → κ} (f : α → β) (hf : ∀ x, key' (f x) = key x) {l₁ l₂ : List α}
    (h : ClassEq key l₁ l₂) : ClassEq key' (l₁.map f) (l₂.map f) := by
  intro k; rw [cls_map key key' f hf, cls_map key key' f hf, h k]

end

/-! ### two iteration orders of one set are permutations of each other -/

theorem SetOrder.perm {α : Type} {π₁ π₂ l₁ l₂ : List α} (h₁ : SetOrder π₁ l₁) (h₂ : SetOrder π₂ l₂)
    (hl : ∀ x, x ∈ l₁ ↔ x ∈ l₂) : π₁.Perm π₂ := by
  apply (List.perm_ext_iff_of_nodup h₁.1 h₂.1).mpr
  intro x
  rw [h₁.2 x, h₂.2 x, hl x]

theorem mem_dedup {α : Type} [DecidableEq α] {x : α} {l : List α} : x ∈ dedup l ↔ x ∈ l := by
  induction l with
  | nil => simp [dedup]
  | cons a l ih =>
    simp only [dedup, List.mem_cons, List.mem_filter, ih, decide_eq_true_eq]
    by_cases h : x = a <;> simp [h]

theorem nodup_dedup {α : Type} [DecidableEq α] (l : List α) : (dedup l).Nodup := by
  induction l with
  | nil => simp [dedup]
  | cons a l ih =>
    simp only [dedup, List.nodup_cons, List.mem_filter, decide_eq_true_eq]
    exact ⟨fun h => h.2 rfl, ih.filter _⟩

/-- `dedup l` is one of the orders in which `set(l)` can be iterated (so `SetOrder` is not vacuous) -/
theorem setOrder_dedup {α : Type} [DecidableEq α] (l : List α) : SetOrder (dedup l) l :=
  ⟨nodup_dedup l, fun _ => mem_dedup⟩

/-! ### two sorts whose comparisons agree on the items give the same list -/

theorem insertBy_le_congr {α κ₁ κ₂ : Type} (key₁ : α → κ₁) (le₁ : κ₁ → κ₁ → Bool) (key₂ : α → κ₂)
    (le₂ : κ₂ → κ₂ → Bool) (a : α) (l : List α)
    (h : ∀ b ∈ l, le₁ (key₁ a) (key₁ b) = le₂ (key₂ a) (key₂ b)) :
    insertBy key₁ le₁ a l = insertBy key₂ le₂ a l := by
  induction l with
  | nil => rfl
  | cons b l ih =>
    unfold insertBy
    rw [h b List.mem_cons_self]
    split
    · rfl
    · congr 1
      exact ih fun c hc => h c (List.mem_cons_of_mem _ hc)

theorem sortBy_le_congr {α κ₁ κ₂ : Type} (key₁ : α → κ₁) (le₁ : κ₁ → κ₁ → Bool) (key₂ : α → κ₂)
    (le₂ : κ₂ → κ₂ → Bool) (l : List α)
    (h : ∀ a ∈ l, ∀ b ∈ l, le₁ (key₁ a) (key₁ b) = le₂ (key₂ a) (key₂ b)) :
    sortBy key₁ le₁ l = sortBy key₂ le₂ l := by
  induction l with
  | nil => rfl
  | cons a l ih =>
    simp only [sortBy]
    rw [ih fun x hx y hy => h x (List.mem_cons_of_mem _ hx) y (List.mem_cons_of_mem _ hy)]
    apply insertBy_le_congr
    intro b hb
    exact h a List.mem_cons_self b (List.mem_cons_of_mem _ (mem_sortBy.mp hb))

/-! ### the key of the caller loops -/

theorem callerKey_inj (a b : Caller) (h : callerKey a = callerKey b) : a = b := by
  cases a <;> cases b <;> simp_all [callerKey, pyStr]

/-! ### `dedupTy` (first occurrence per annotation type) acts inside the classes of equal type (name, namespace) -/

theorem dedupTyGo_congr (s₁ s₂ : List (String × String)) (l : List Proc)
    (h : ∀ p ∈ l, (p.ty ∈ s₁ ↔ p.ty ∈ s₂)) : dedupTyGo s₁ l = dedupTyGo s₂ l := by
  induction l generalizing s₁ s₂ with
  | nil => rfl
  | cons p l ih =>
    have hp := h p List.mem_cons_self
    unfold dedupTyGo
    by_cases h1 : p.ty ∈ s₁
    · rw [if_pos h1, if_pos (hp.mp h1)]
      exact ih _ _ fun q hq => h q (List.mem_cons_of_mem _ hq)
    · rw [if_neg h1, if_neg (fun h2 => h1 (hp.mpr h2))]
      congr 1
      apply ih
      intro q hq
      have := h q (List.mem_cons_of_mem _ hq)
      simp only [List.mem_cons, this]

theorem dedupTyGo_seen_irrelevant (t : String × String) (seen : List (String × String)) (l : List Proc)
    (h : ∀ p ∈ l, p.ty ≠ t) : dedupTyGo (t :: seen) l = dedupTyGo seen l := by
  apply dedupTyGo_congr
  intro p hp
  simp [h p hp]

theorem cls_dedupTyGo (k : String × String) (seen : List (String × String)) (l : List Proc) :
    cls Proc.key k (dedupTyGo seen l) = dedupTyGo seen (cls Proc.key k l) := by
  induction l generalizing seen with
  | nil => rfl
  | cons p l ih =>
    rw [cls_cons]
    by_cases hs : p.ty ∈ seen
    · rw [dedupTyGo, if_pos hs, ih]
      by_cases hk : p.key = k
      · simp only [hk, if_true, List.singleton_append]
        rw [dedupTyGo, if_pos hs]
      · simp [hk]
    · rw [dedupTyGo, if_neg hs, cls_cons, ih]
      by_cases hk : p.key = k
      · simp only [hk, if_true, List.singleton_append]
        rw [dedupTyGo, if_neg hs]
      · simp only [hk, if_false, List.nil_append]
        apply dedupTyGo_seen_irrelevant
        intro q hq hty
        have hq' := (mem_cls.mp hq).2
        apply hk
        have : q.key = p.key := by
          have h1 := congrArg Prod.fst hty
          have h2 := congrArg Prod.snd hty
          simp only [Proc.ty] at h1 h2
          simp only [Proc.key, h1, h2]
        rw [← this]; exact hq'

theorem ClassEq.dedupTy {l₁ l₂ : List Proc} (h : ClassEq Proc.key l₁ l₂) :
    ClassEq Proc.key (dedupTy l₁) (dedupTy l₂) := by
  intro k
  unfold Order.dedupTy
  rw [cls_dedupTyGo, cls_dedupTyGo, h k]

/-! ### `_imported_namespaces`: each `add_imported_namespace` touches one class of the dict -/

/-- what `addImported .. n r` does to the entries for `n` -/
def bump (r : Reason) (n : String) (c : Imports) : Imports :=
  if c.isEmpty then [(n, r)] else c.map fun e => (e.1, e.2.or r)

theorem cls_addImported (st : Imports) (n : String) (r : Reason) (k : String) :
    cls Prod.fst k (addImported st n r) = if n = k then bump r n (cls Prod.fst k st) else cls Prod.fst k st := by
  unfold addImported
  by_cases hany : st.any (fun e => e.1 == n) = true
  · rw [if_pos hany]
    rw [cls_map Prod.fst Prod.fst _ (by intro x; by_cases h : (x.1 == n) = true <;> simp [h])]
    by_cases hk : n = k
    · subst hk
      rw [if_pos rfl]
      have hne : (cls Prod.fst n st).isEmpty = false := by
        rw [List.any_eq_true] at hany
        obtain ⟨e, he, hen⟩ := hany
        have : e ∈ cls Prod.fst n st := mem_cls.mpr ⟨he, by simpa using hen⟩
        cases hc : cls Prod.fst n st with
        | nil => rw [hc] at this; exact absurd this (by simp)
        | cons _ _ => rfl
      unfold bump
      rw [hne]
      simp only [Bool.false_eq_true, if_false]
      apply List.map_congr_left
      intro e he
      have := (mem_cls.mp he).2
      simp [this]
    · rw [if_neg hk]
      conv => rhs; rw [← List.map_id (cls Prod.fst k st)]
      apply List.map_congr_left
      intro e he
      have h1 := (mem_cls.mp he).2
      have : ¬ (e.1 == n) = true := by
        simp only [beq_iff_eq]; intro h2; exact hk (h2.symm.trans h1)
      simp [this]
  · rw [if_neg hany, cls_append, cls_cons, cls_nil]
    by_cases hk : n = k
    · subst hk
      have hemp : cls Prod.fst n st = [] := by
        cases hc : cls Prod.fst n st with
        | nil => rfl
        | cons e t =>
          exfalso
          have he : e ∈ cls Prod.fst n st := by rw [hc]; exact List.mem_cons_self
          have := mem_cls.mp he
          apply hany
          rw [List.any_eq_true]
          exact ⟨e, this.1, by simp [this.2]⟩
      simp [hemp, bump]
    · simp [hk]

theorem bump_bump (r : Reason) (n : String) (c : Imports) : bump r n (bump r n c) = bump r n c := by
  have hor : ∀ x : Reason, (x.or r).or r = x.or r := by
    intro x; cases x; cases r; simp [Reason.or]
  unfold bump
  cases c with
  | nil => simp [Reason.or]
  | cons e t => simp [hor]

/-! ## The output directory as an association list -/

theorem dirGet_dirPut_same (d : Dir) (p : String) (b : Bytes) : dirGet (dirPut d p b) p = some b := by
  induction d with
  | nil => simp [dirPut, dirGet]
  | cons e d ih =>
    obtain ⟨q, c⟩ := e
    by_cases h : q = p <;> simp [dirPut, dirGet, h, ih]

theorem dirGet_dirPut_other (d : Dir) {p q : String} (b : Bytes) (h : p ≠ q) :
    dirGet (dirPut d p b) q = dirGet d q := by
  induction d with
  | nil => simp [dirPut, dirGet, h]
  | cons e d ih =>
    obtain ⟨r, c⟩ := e
    by_cases h1 : r = p
    · subst h1; simp [dirPut, dirGet, h]
    · by_cases h2 : r = q
      · subst h2; simp [dirPut, dirGet, h1]
      · simp [dirPut, dirGet, h1, h2, ih]

theorem dirGet_writeFile (d : Dir) (w : Write) (q : String) :
    dirGet (writeFile d w) q =
      if w.path = q then
        some (match w.mode with | .wb => w.out | .ab => (dirGet d w.path).getD [] ++ w.out)
      else dirGet d q := by
  by_cases h : w.path = q
  · subst h
    cases hm : w.mode <;> simp [writeFile, hm, dirGet_dirPut_same]
  · cases hm : w.mode <;> simp [writeFile, hm, h, dirGet_dirPut_other _ _ h]

theorem build_meets_promise_aux (p : String) (b : Bytes) :
    ∀ (ws : List Write) (d : Dir) (acc : Option Bytes), (acc = none ∨ dirGet d p = acc) →
      promisedFrom acc ws p = some b → dirGet (build d ws) p = some b := by
  intro ws
  induction ws with
  | nil =>
    intro d acc h hp
    simp only [promisedFrom] at hp
    subst hp
    rcases h with h | h
    · cases h
    · simpa [build] using h
  | cons w ws ih =>
    intro d acc h hp
    simp only [build, List.foldl_cons]
    simp only [promisedFrom] at hp
    by_cases hw : w.path = p
    · rw [if_pos hw] at hp
      cases hm : w.mode
      · rw [hm] at hp
        exact ih (writeFile d w) (some w.out) (Or.inr (by rw [dirGet_writeFile, if_pos hw, hm])) hp
      · rw [hm] at hp
        refine ih (writeFile d w) (acc.map (· ++ w.out)) ?_ hp
        cases acc with
        | none => exact Or.inl rfl
        | some a =>
          rcases h with h | h
          · cases h
          · right
            rw [dirGet_writeFile, if_pos hw, hm, hw, h]
            rfl
    · rw [if_neg hw] at hp
      exact ih (writeFile d w) acc (by rw [dirGet_writeFile, if_neg hw]; exact h) hp

theorem promisedFrom_isSome (p : String) : ∀ (ws : List Write) (acc : Option Bytes),
    (acc.isSome ∨ ∃ w ∈ ws, w.path = p ∧ w.mode = .wb) → (promisedFrom acc ws p).isSome := by
  intro ws
  induction ws with
  | nil =>
    intro acc h
    rcases h with h | ⟨w, hw, _⟩
    · simpa [promisedFrom] using h
    · cases hw
  | cons w ws ih =>
    intro acc h
    simp only [promisedFrom]
    by_cases hw : w.path = p
    · rw [if_pos hw]
      cases hm : w.mode
      · exact ih _ (Or.inl rfl)
      · refine ih _ ?_
        rcases h with h | ⟨w', hw', hp', hm'⟩
        · left; cases acc <;> simp_all
        · right
          rcases List.mem_cons.mp hw' with e | e
          · subst e; rw [hm] at hm'; cases hm'
          · exact ⟨w', e, hp', hm'⟩
    · rw [if_neg hw]
      refine ih _ ?_
      rcases h with h | ⟨w', hw', hp', hm'⟩
      · exact Or.inl h
      · right
        rcases List.mem_cons.mp hw' with e | e
        · subst e; exact absurd hp' hw
        · exact ⟨w', e, hp', hm'⟩

end StoneVerif.Order
