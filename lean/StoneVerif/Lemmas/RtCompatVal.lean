import StoneVerif.Lemmas.RtCompatEnv
import StoneVerif.Lemmas.RtWireEnv
/-!
Helper lemmas for C07, part 3: validators across the two environments — whatever B's validator accepts, A's
validator accepts in its A-view (`validate`, `validate_type_only`, `has_default` / `get_default`).
-/
namespace StoneVerif.Rt.Compat
open StoneVerif.Rt

/-- the hypotheses shared by the simulation lemmas -/
structure Ctx (ρ : Rho) (A B : Env) : Prop where
  compat : compatEnv ρ A B = true
  wfA : envWF A = true
  wfB : envWF B = true
  wfxA : envWFX A = true
  wfuB : envWFU B = true

/-! ### defaults -/

def optionalAttr (f : FieldDef) : Bool := f.attrNullable || f.dflt.isSome

theorem newFieldOk_optional {B : Env} {g : FieldDef} (h : newFieldOk B g = true) : optionalAttr g = true := by
  simp only [newFieldOk, Bool.or_eq_true, Bool.and_eq_true] at h
  simp only [optionalAttr, Bool.or_eq_true]
  rcases h with h | h
  · exact .inl h.1
  · exact .inr h.1

theorem allOptional_sub {ρ : Rho} {A B : Env} (cx : Ctx ρ A B) {a b : String} (hr : ρ.rel a b = true)
    {sa sb : StructDef} (hsa : A.struct? a = some sa) (hsb : B.struct? b = some sb) :
    sa.allAttrs.all optionalAttr = sb.allAttrs.all optionalAttr := by
  obtain ⟨sb', hsb', hcom, hext⟩ := structSub_inv (compat_struct cx.compat hr hsa) hsa
  rw [hsb] at hsb'; cases hsb'
  have hnd := struct_nodup (struct_wf cx.wfB hsb)
  rw [Bool.eq_iff_iff, List.all_eq_true, List.all_eq_true]
  constructor
  · intro h g hg
    rcases hext g hg with h1 | h2
    · obtain ⟨f, hf⟩ := Option.isSome_iff_exists.mp h1
      obtain ⟨hfm, hfn⟩ := find_name_some hf
      obtain ⟨g', hg', hsub⟩ := hcom f hfm
      have h1 := find_name_of_mem hnd hg
      rw [← hfn, hg'] at h1
      cases h1
      have hp := fieldSub_parts hsub
      have := h f hfm
      simp only [optionalAttr] at this ⊢
      rw [← hp.2.2.1, ← hp.2.2.2.2]; exact this
    · exact newFieldOk_optional h2
  · intro h f hf
    obtain ⟨g, hg, hsub⟩ := hcom f hf
    have hp := fieldSub_parts hsub
    have := h g (List.mem_of_find?_eq_some hg)
    simp only [optionalAttr] at this ⊢
    rw [hp.2.2.1, hp.2.2.2.2]; exact this

theorem tyWF_struct {env : Env} {fl : Flags} {c : String} (h : tyWF env (.struct fl c) = true) :
    ∃ s, env.struct? c = some s := by
  simp only [tyWF] at h
  cases hs : env.struct? c with
  | none => simp [hs] at h
  | some s => exact ⟨s, rfl⟩

theorem tyWF_tree {env : Env} {fl : Flags} {c : String} (h : tyWF env (.tree fl c) = true) :
    ∃ s, env.struct? c = some s := by
  simp only [tyWF] at h
  cases hs : env.struct? c with
  | none => simp [hs] at h
  | some s => exact ⟨s, rfl⟩

theorem tyWF_union {env : Env} {fl : Flags} {c : String} (h : tyWF env (.union fl c) = true) :
    ∃ u, env.union? c = some u := by
  simp only [tyWF] at h
  exact Option.isSome_iff_exists.mp h

theorem struct_related {ρ : Rho} {A B : Env} (cx : Ctx ρ A B) {a b : String} (hr : ρ.rel a b = true)
    {sa : StructDef} (hsa : A.struct? a = some sa) : ∃ sb, B.struct? b = some sb := by
  obtain ⟨sb, hsb, _⟩ := structSub_inv (compat_struct cx.compat hr hsa) hsa
  exact ⟨sb, hsb⟩

theorem hasDefault_all {env : Env} (fl : Flags) (c : String) {s : StructDef} (hs : env.struct? c = some s) :
    hasDefault env (.struct fl c) = (fl.nullable || s.allAttrs.all optionalAttr) := by
  simp only [hasDefault, PTy.flags, hs, StructDef.allAttrs]; rfl

theorem hasDefault_sub {ρ : Rho} {A B : Env} (cx : Ctx ρ A B) {tA tB : PTy} (h : tySub ρ tA tB = true)
    (hw : tyWF A tA = true) : hasDefault A tA = hasDefault B tB := by
  cases tA <;> cases tB <;> simp only [tySub, Bool.false_eq_true, Bool.and_eq_true, beq_iff_eq] at h
  case struct.struct f c g c' =>
    obtain ⟨sa, hsa⟩ := tyWF_struct hw
    obtain ⟨sb, hsb⟩ := struct_related cx h.2 hsa
    rw [hasDefault_all f c hsa, hasDefault_all g c' hsb, h.1, allOptional_sub cx h.2 hsa hsb]
  all_goals (simp [hasDefault, PTy.flags, h])

theorem orderSlots_nil (fields : List FieldDef) : orderSlots fields [] = [] := by
  induction fields with
  | nil => rfl
  | cons f rest ih => simp only [orderSlots, List.filterMap_cons, lookupSlot, Option.map_none] at ih ⊢; exact ih

theorem treeClassA_root {ρ : Rho} (hwf : ρ.wf = true) (A : Env) {a b : String} (hr : ρ.rel a b = true) :
    treeClassA ρ A a b = a := by
  simp [treeClassA, Rho.toA_of_rel hwf hr]

theorem view_getDefault {ρ : Rho} {A B : Env} (cx : Ctx ρ A B) {tA tB : PTy} (h : tySub ρ tA tB = true) :
    view ρ A tA (getDefault tB) = getDefault tA := by
  have hn := tySub_nullable h
  unfold getDefault
  rw [hn]
  split
  · unfold view; rfl
  · cases tA <;> cases tB <;> simp only [tySub, Bool.false_eq_true, Bool.and_eq_true, beq_iff_eq] at h <;>
      try (unfold view; rfl)
    case struct.struct f c g c' =>
      unfold view
      simp [viewSlots, orderSlots_nil]
    case tree.tree f c g c' =>
      unfold view
      simp [viewSlots, orderSlots_nil, treeClassA_root (compatEnv_wf cx.compat) A h.2]

/-! ### subclass facts -/

theorem levelsPrefix_cls : ∀ {l1 l2 : List Level}, levelsPrefix l1 l2 = true → ∀ l ∈ l1, l.cls ∈ l2.map (·.cls)
  | [], _, _, l, hl => by cases hl
  | a :: as, [], h, _, _ => by simp [levelsPrefix] at h
  | a :: as, b :: bs, h, l, hl => by
    simp only [levelsPrefix, Bool.and_eq_true, Level.sameAs, beq_iff_eq] at h
    rcases List.mem_cons.mp hl with rfl | hl'
    · simp [h.1.1]
    · exact List.mem_cons_of_mem _ (levelsPrefix_cls h.2 l hl')

theorem structSubclass_self {env : Env} (hwf : envWF env = true) {c : String} {s : StructDef}
    (hs : env.struct? c = some s) : env.structSubclass c c = true := by
  have := struct_self_ancestor (struct_wf hwf hs)
  rw [(struct?_mem hs).2] at this
  simp only [Env.structSubclass, hs]
  exact this

theorem unionSubclass_self {env : Env} (hwf : envWF env = true) {c : String} {u : UnionDef}
    (hu : env.union? c = some u) : env.unionSubclass c c = true := by
  have := union_self_ancestor (union_wf hwf hu)
  rw [(union?_mem hu).2] at this
  simp only [Env.unionSubclass, hu]
  exact this

theorem leafTag_inv {env : Env} {root a tag : String} (h : leafTag? env root a = some tag) :
    ∃ s, env.struct? root = some s ∧ ([tag], a, false) ∈ s.subtypes.getD [] := by
  unfold leafTag? at h
  cases hs : env.struct? root with
  | none => simp [hs] at h
  | some s =>
    simp only [hs] at h
    refine ⟨s, rfl, ?_⟩
    split at h
    · rename_i tag' x hf
      cases h
      have hm := List.mem_of_find?_eq_some hf
      have := List.find?_some hf
      simp only [beq_iff_eq] at this
      subst this
      exact hm
    · cases h

theorem subtype_entry_wf {env : Env} {s : StructDef} (h : s.wf env = true) {e : List String × String × Bool}
    (he : e ∈ s.subtypes.getD []) :
    ∃ d, env.struct? e.2.1 = some d ∧ levelsPrefix s.levels d.levels = true ∧ d.subtypes.isSome = e.2.2 := by
  simp only [StructDef.wf, Bool.and_eq_true] at h
  have h6 := h.2
  cases hsub : s.subtypes with
  | none => simp [hsub] at he
  | some subs =>
    simp only [hsub, Option.getD_some] at he
    simp only [hsub, Bool.and_eq_true, List.all_eq_true] at h6
    have := h6.1.2 e he
    obtain ⟨tags, c, tr⟩ := e
    simp only [Bool.and_eq_true] at this
    cases hd : env.struct? c with
    | none => simp [hd] at this
    | some d =>
      simp only [hd, Bool.and_eq_true, beq_iff_eq] at this
      exact ⟨d, rfl, this.2.1, this.2.2⟩

theorem structSubclass_leaf {env : Env} (hwf : envWF env = true) {root a tag : String}
    (h : leafTag? env root a = some tag) : env.structSubclass a root = true := by
  obtain ⟨s, hs, he⟩ := leafTag_inv h
  obtain ⟨d, hd, hpre, _⟩ := subtype_entry_wf (struct_wf hwf hs) he
  have hself := struct_self_ancestor (struct_wf hwf hs)
  rw [(struct?_mem hs).2] at hself
  simp only [StructDef.ancestors, List.contains_eq_mem, List.mem_map, decide_eq_true_eq] at hself
  obtain ⟨l, hl, hlc⟩ := hself
  have := levelsPrefix_cls hpre l hl
  simp only at hd
  simp [Env.structSubclass, hd, StructDef.ancestors, hlc ▸ this]

theorem treeClassA_cases (ρ : Rho) (A : Env) (root c : String) :
    treeClassA ρ A root c = root ∨ (leafTag? A root (treeClassA ρ A root c)).isSome = true := by
  unfold treeClassA
  cases ρ.toA c with
  | none => exact .inl rfl
  | some a =>
    simp only []
    by_cases h1 : a = root
    · simp [h1]
    · by_cases h2 : (leafTag? A root a).isSome = true
      · simp [h1, h2]
      · simp [h1, h2]

theorem structSubclass_treeClassA {ρ : Rho} {A : Env} (hwf : envWF A = true) {root c : String} {s : StructDef}
    (hs : A.struct? root = some s) : A.structSubclass (treeClassA ρ A root c) root = true := by
  rcases treeClassA_cases ρ A root c with h | h
  · rw [h]; exact structSubclass_self hwf hs
  · obtain ⟨tag, ht⟩ := Option.isSome_iff_exists.mp h
    exact structSubclass_leaf hwf ht

/-! ### `validate_type_only` -/

theorem matchNone_eq (v : PyVal) : (match v with | .none => true | _ => false) = isNoneV v := by cases v <;> rfl

theorem view_none (ρ : Rho) (A : Env) (t : PTy) : view ρ A t .none = .none := by unfold view; rfl

theorem view_union_shape (ρ : Rho) (A : Env) (fl : Flags) (cls c tag : String) (p : PyVal) :
    ∃ tag' p', view ρ A (.union fl cls) (.union c tag p) = .union cls tag' p' := by
  unfold view
  simp only []
  split
  · split <;> exact ⟨_, _, rfl⟩
  · exact ⟨_, _, rfl⟩

theorem validateTypeOnly_sub {ρ : Rho} {A B : Env} (cx : Ctx ρ A B) {tA tB : PTy} (h : tySub ρ tA tB = true)
    (hw : tyWF A tA = true) (x : PyVal) (hv : validateTypeOnly B tB x = .ok ()) :
    validateTypeOnly A tA (view ρ A tA x) = .ok () := by
  have hn := tySub_nullable h
  cases x with
  | none =>
    rw [view_none]
    unfold validateTypeOnly at hv ⊢
    rw [hn]
    by_cases hnl : tB.flags.nullable = true
    · simp [hnl]
    · simp only [hnl, Bool.false_and, Bool.false_eq_true, if_false] at hv
      cases tB <;> simp [structTypeOk, unionTypeOk, verr, crash] at hv
  | struct sc slots =>
    unfold validateTypeOnly at hv
    simp only [Bool.and_false, Bool.false_eq_true, if_false] at hv
    cases tA <;> cases tB <;> simp only [tySub, Bool.false_eq_true, Bool.and_eq_true, beq_iff_eq] at h <;>
      simp only [crash, reduceCtorEq, unionTypeOk, verr, Bool.false_eq_true, if_false] at hv
    case struct.struct f c g c' =>
      obtain ⟨sa, hsa⟩ := tyWF_struct hw
      unfold view
      simp [validateTypeOnly, structTypeOk, structSubclass_self cx.wfA hsa]
    case tree.tree f c g c' =>
      obtain ⟨sa, hsa⟩ := tyWF_tree hw
      unfold view
      simp [validateTypeOnly, structTypeOk, structSubclass_treeClassA cx.wfA hsa]
  | union uc tag p =>
    unfold validateTypeOnly at hv
    simp only [Bool.and_false, Bool.false_eq_true, if_false] at hv
    cases tA <;> cases tB <;> simp only [tySub, Bool.false_eq_true, Bool.and_eq_true, beq_iff_eq] at h <;>
      simp only [crash, reduceCtorEq, structTypeOk, verr, Bool.false_eq_true, if_false] at hv
    case union.union f c g c' =>
      obtain ⟨ua, hua⟩ := tyWF_union hw
      obtain ⟨tag', p', hvw⟩ := view_union_shape ρ A f c uc tag p
      rw [hvw]
      simp [validateTypeOnly, unionTypeOk, unionSubclass_self cx.wfA hua]
  | _ =>
    exfalso
    unfold validateTypeOnly at hv
    cases tB <;> simp [structTypeOk, unionTypeOk, verr, crash] at hv

/-! ### `validate` -/

theorem viewList_length (ρ : Rho) (A : Env) (t : PTy) : ∀ xs : List PyVal, (viewList ρ A t xs).length = xs.length
  | [] => rfl
  | x :: xs => by simp [viewList, viewList_length ρ A t xs]

theorem attrHas_iff (f : FieldDef) (slots : List (String × PyVal)) :
    attrHas f slots = ((lookupSlot f.name slots).isSome || f.attrNullable || f.dflt.isSome) := by
  unfold attrHas attrGet
  cases lookupSlot f.name slots with
  | some v => rfl
  | none => cases f.attrNullable <;> simp

/-- a field readable on B's instance is readable on its A-view (slots kept for the fields of `fa'`, A's table) -/
theorem attrHas_orderView (ρ : Rho) (A : Env) {fa' : List FieldDef} (hnd : nodupS (fa'.map (·.name)) = true)
    {f g : FieldDef} (slots : List (String × PyVal)) (hname : f.name = g.name)
    (hnul : f.attrNullable = g.attrNullable) (hd : f.dflt.isSome = g.dflt.isSome)
    (hmem : f.name ∈ fa'.map (·.name)) (hg : attrHas g slots = true) :
    attrHas f (orderSlots fa' (viewSlots ρ A fa' slots)) = true := by
  rw [attrHas_iff] at hg ⊢
  rw [lookupSlot_orderSlots _ _ _ hnd, if_pos hmem, lookupSlot_viewSlots]
  obtain ⟨f', hf', hn'⟩ := List.mem_map.mp hmem
  have hfind : ∃ f'', fa'.find? (·.name == f.name) = some f'' := by
    cases hq : fa'.find? (·.name == f.name) with
    | some f'' => exact ⟨f'', rfl⟩
    | none => exact absurd hmem (find_name_none hq)
  obtain ⟨f'', hf''⟩ := hfind
  rw [hf'', hnul, hd, hname]
  rw [hname] at hf''
  cases hl : lookupSlot g.name slots <;> simp_all

theorem structFieldsOk_eq {env : Env} {cls : String} {s : StructDef} (hs : env.struct? cls = some s) (c : String)
    (slots : List (String × PyVal)) :
    structFieldsOk env cls none (.struct c slots) = (publicFields env cls).all fun f => attrHas f slots := by
  simp only [structFieldsOk, hs, allFieldsAttr_none_getD_eq_fieldsSpec, publicFields]

theorem attrsPrefix_names {P C : List FieldDef} (h : attrsPrefix P C = true) : ∀ f ∈ P, f.name ∈ C.map (·.name) := by
  induction P generalizing C with
  | nil => intro f hf; cases hf
  | cons a as ih =>
    cases C with
    | nil => simp [attrsPrefix] at h
    | cons b bs =>
      simp only [attrsPrefix, Bool.and_eq_true] at h
      intro f hf
      rcases List.mem_cons.mp hf with rfl | hf'
      · simp [(sameWire_iff.mp h.1).1]
      · exact List.mem_cons_of_mem _ (ih h.2 f hf')

mutual
theorem validate_sub (E : Ext) {ρ : Rho} {A B : Env} (cx : Ctx ρ A B) :
    ∀ (x : PyVal) (tA tB : PTy) (x' : PyVal), tySub ρ tA tB = true → tyWF A tA = true →
      validate E B tB x = .ok x' → validate E A tA (view ρ A tA x) = .ok (view ρ A tA x')
  | x, tA, tB, x', h, hw, hv => by
    by_cases hp : isPrimTy tB = true
    · have hpa : isPrimTy tA = true := by rw [tySub_isPrim h]; exact hp
      rw [view_prim ρ A hpa, view_prim ρ A hpa, validate_prim_sub E A B h hp]
      exact hv
    · have hn := tySub_nullable h
      by_cases hnone : (tB.flags.nullable && isNoneV x) = true
      · -- nullable and None
        have hxn : x = .none := by cases x <;> simp_all [isNoneV]
        subst hxn
        simp only [Bool.and_eq_true] at hnone
        have : x' = .none := by
          unfold validate at hv
          simp [hnone.1] at hv
          exact hv.symm
        subst this
        rw [view_none]
        unfold validate
        simp [hn, hnone.1]
      · cases tA <;> cases tB <;> simp only [tySub, Bool.false_eq_true, Bool.and_eq_true, beq_iff_eq] at h <;>
          simp only [isPrimTy, not_true_eq_false] at hp
        case list.list f ia a b g ib a' b' =>
          obtain ⟨⟨⟨hfl, hi⟩, ha⟩, hb⟩ := h
          subst ha; subst hb
          simp only [PTy.flags] at hnone hn
          have hwi : tyWF A ia = true := by simpa [tyWF] using hw
          cases x with
          | list xs =>
            unfold validate at hv
            simp only [PTy.flags, isNoneV, Bool.and_false, Bool.false_eq_true, if_false] at hv
            split at hv
            · cases hv
            · split at hv
              · cases hv
              · rename_i h1 h2
                cases hl : validateList E B ib xs with
                | error e => simp [hl, Except.map] at hv
                | ok ys =>
                  simp only [hl, Except.map, Except.ok.injEq] at hv
                  subst hv
                  have ih := validateList_sub E cx xs ia ib ys hi hwi hl
                  unfold view
                  simp only []
                  unfold validate
                  simp only [PTy.flags, Bool.and_false, Bool.false_eq_true, if_false, viewList_length, h1, h2, ih, Except.map]
          | tuple xs =>
            unfold validate at hv
            simp only [PTy.flags, isNoneV, Bool.and_false, Bool.false_eq_true, if_false] at hv
            split at hv
            · cases hv
            · split at hv
              · cases hv
              · rename_i h1 h2
                cases hl : validateList E B ib xs with
                | error e => simp [hl, Except.map] at hv
                | ok ys =>
                  simp only [hl, Except.map, Except.ok.injEq] at hv
                  subst hv
                  have ih := validateList_sub E cx xs ia ib ys hi hwi hl
                  have hv2 : view ρ A (.list f ia a b) (.tuple xs) = .tuple (viewList ρ A ia xs) := by unfold view; rfl
                  have hv3 : view ρ A (.list f ia a b) (.list ys) = .list (viewList ρ A ia ys) := by unfold view; rfl
                  rw [hv2, hv3]
                  unfold validate
                  simp only [PTy.flags, Bool.and_false, Bool.false_eq_true, if_false, viewList_length, h1, h2, ih, Except.map]
          | none => simp [isNoneV] at hnone; unfold validate at hv; simp [PTy.flags, hnone, verr] at hv
          | _ => unfold validate at hv; simp [PTy.flags, verr] at hv
        case map.map f ka va g kb vb =>
          obtain ⟨⟨hfl, hk⟩, hvt⟩ := h
          simp only [PTy.flags] at hnone hn
          have hwk : isPrimTy ka = true ∧ tyWF A va = true := by
            simp only [tyWF, Bool.and_eq_true] at hw
            refine ⟨?_, hw.2⟩
            cases ka <;> simp_all [isPrimTy]
          cases x with
          | dict kvs =>
            unfold validate at hv
            simp only [PTy.flags, isNoneV, Bool.and_false, Bool.false_eq_true, if_false] at hv
            cases hl : validateDict E B kb vb kvs with
            | error e => simp [hl, Except.map] at hv
            | ok ys =>
              simp only [hl, Except.map, Except.ok.injEq] at hv
              subst hv
              have ih := validateDict_sub E cx kvs ka kb va vb ys hk hvt hwk.1 hwk.2 hl
              have hv2 : view ρ A (.map f ka va) (.dict kvs) = .dict (viewDict ρ A va kvs) := by unfold view; rfl
              have hv3 : view ρ A (.map f ka va) (.dict ys) = .dict (viewDict ρ A va ys) := by unfold view; rfl
              rw [hv2, hv3]
              unfold validate
              simp only [PTy.flags, Bool.and_false, Bool.false_eq_true, if_false, ih, Except.map]
          | none => simp [isNoneV] at hnone; unfold validate at hv; simp [PTy.flags, hnone, verr] at hv
          | _ => unfold validate at hv; simp [PTy.flags, verr] at hv
        case struct.struct f c g c' =>
          obtain ⟨hfl, hr⟩ := h
          simp only [PTy.flags] at hnone hn
          obtain ⟨sa, hsa⟩ := tyWF_struct hw
          obtain ⟨sb, hsb⟩ := struct_related cx hr hsa
          have hrel := fieldsRel_public cx.compat cx.wfA cx.wfB hr hsa
          cases x with
          | struct sc slots =>
            unfold validate at hv
            simp only [PTy.flags, isNoneV, Bool.and_false, Bool.false_eq_true, if_false] at hv
            split at hv
            · cases hv
            · split at hv
              · cases hv
              · rename_i h1 h2
                cases hv
                rw [structFieldsOk_eq hsb] at h2
                simp only [Bool.not_eq_true, Bool.not_eq_false'] at h2
                have hvw : view ρ A (.struct f c) (.struct sc slots) =
                    .struct c (orderSlots (publicFields A c) (viewSlots ρ A (publicFields A c) slots)) := by
                  unfold view; rfl
                rw [hvw]
                unfold validate
                simp only [PTy.flags, Bool.and_false, Bool.false_eq_true, if_false, structTypeOk,
                  structSubclass_self cx.wfA hsa, Bool.not_true, structFieldsOk_eq hsa]
                have : ((publicFields A c).all fun f' =>
                    attrHas f' (orderSlots (publicFields A c) (viewSlots ρ A (publicFields A c) slots))) = true := by
                  rw [List.all_eq_true]
                  intro f' hf'
                  obtain ⟨g', hg', hsub⟩ := hrel.common f' hf'
                  have hp' := fieldSub_parts hsub
                  exact attrHas_orderView ρ A hrel.nodupA slots (fieldSub_name hsub) hp'.2.2.1 hp'.2.2.2.2
                    (List.mem_map.mpr ⟨f', hf', rfl⟩) (List.all_eq_true.mp h2 g' hg')
                simp [this]
          | none => simp [isNoneV] at hnone; unfold validate at hv; simp [PTy.flags, hnone, verr, structTypeOk] at hv
          | _ => unfold validate at hv; simp [PTy.flags, verr, structTypeOk] at hv
        case tree.tree f c g c' =>
          obtain ⟨hfl, hr⟩ := h
          simp only [PTy.flags] at hnone hn
          obtain ⟨sa, hsa⟩ := tyWF_tree hw
          obtain ⟨sb, hsb⟩ := struct_related cx hr hsa
          have hrel := fieldsRel_public cx.compat cx.wfA cx.wfB hr hsa
          cases x with
          | struct sc slots =>
            unfold validate at hv
            simp only [PTy.flags, isNoneV, Bool.and_false, Bool.false_eq_true, if_false] at hv
            split at hv
            · cases hv
            · split at hv
              · cases hv
              · rename_i h1 h2
                cases hv
                rw [structFieldsOk_eq hsb] at h2
                simp only [Bool.not_eq_true, Bool.not_eq_false'] at h2
                have hvw : view ρ A (.tree f c) (.struct sc slots) =
                    .struct (treeClassA ρ A c sc) (orderSlots (publicFields A (treeClassA ρ A c sc))
                      (viewSlots ρ A (publicFields A (treeClassA ρ A c sc)) slots)) := by
                  unfold view; rfl
                rw [hvw]
                have hsubc := structSubclass_treeClassA (ρ := ρ) (c := sc) cx.wfA hsa
                obtain ⟨_, _, hs1, _, hpre⟩ := publicFields_prefix cx.wfxA hsubc
                unfold validate
                simp only [PTy.flags, Bool.and_false, Bool.false_eq_true, if_false, structTypeOk,
                  hsubc, Bool.not_true, structFieldsOk_eq hsa]
                have : ((publicFields A c).all fun f' =>
                    attrHas f' (orderSlots (publicFields A (treeClassA ρ A c sc))
                      (viewSlots ρ A (publicFields A (treeClassA ρ A c sc)) slots))) = true := by
                  rw [List.all_eq_true]
                  intro f' hf'
                  obtain ⟨g', hg', hsub⟩ := hrel.common f' hf'
                  have hp' := fieldSub_parts hsub
                  exact attrHas_orderView ρ A (publicFields_nodup cx.wfA _) slots (fieldSub_name hsub) hp'.2.2.1 hp'.2.2.2.2
                    (attrsPrefix_names hpre f' hf') (List.all_eq_true.mp h2 g' hg')
                simp [this]
          | none => simp [isNoneV] at hnone; unfold validate at hv; simp [PTy.flags, hnone, verr, structTypeOk] at hv
          | _ => unfold validate at hv; simp [PTy.flags, verr, structTypeOk] at hv
        case union.union f c g c' =>
          obtain ⟨hfl, hr⟩ := h
          simp only [PTy.flags] at hnone hn
          obtain ⟨ua, hua⟩ := tyWF_union hw
          cases x with
          | union uc tag p =>
            unfold validate at hv
            simp only [PTy.flags, isNoneV, Bool.and_false, Bool.false_eq_true, if_false] at hv
            split at hv
            · cases hv
              obtain ⟨tag', p', hvw⟩ := view_union_shape ρ A f c uc tag p
              rw [hvw]
              unfold validate
              simp [PTy.flags, unionTypeOk, unionSubclass_self cx.wfA hua]
            · cases hv
          | none => simp [isNoneV] at hnone; unfold validate at hv; simp [PTy.flags, hnone, verr, unionTypeOk] at hv
          | _ => unfold validate at hv; simp [PTy.flags, verr, unionTypeOk] at hv
theorem validateList_sub (E : Ext) {ρ : Rho} {A B : Env} (cx : Ctx ρ A B) :
    ∀ (xs : List PyVal) (tA tB : PTy) (ys : List PyVal), tySub ρ tA tB = true → tyWF A tA = true →
      validateList E B tB xs = .ok ys → validateList E A tA (viewList ρ A tA xs) = .ok (viewList ρ A tA ys)
  | [], tA, tB, ys, _, _, hv => by
    simp only [validateList, Except.ok.injEq] at hv
    subst hv
    simp [viewList, validateList]
  | x :: xs, tA, tB, ys, h, hw, hv => by
    simp only [validateList, bind, Except.bind] at hv
    cases h1 : validate E B tB x with
    | error e => simp [h1] at hv
    | ok y =>
      simp only [h1] at hv
      cases h2 : validateList E B tB xs with
      | error e => simp [h2] at hv
      | ok ys' =>
        simp only [h2, pure, Except.pure, Except.ok.injEq] at hv
        subst hv
        simp only [viewList, validateList, bind, Except.bind, validate_sub E cx x tA tB y h hw h1,
          validateList_sub E cx xs tA tB ys' h hw h2, pure, Except.pure]
theorem validateDict_sub (E : Ext) {ρ : Rho} {A B : Env} (cx : Ctx ρ A B) :
    ∀ (kvs : List (PyVal × PyVal)) (ka kb va vb : PTy) (ys : List (PyVal × PyVal)),
      tySub ρ ka kb = true → tySub ρ va vb = true → isPrimTy ka = true → tyWF A va = true →
      validateDict E B kb vb kvs = .ok ys → validateDict E A ka va (viewDict ρ A va kvs) = .ok (viewDict ρ A va ys)
  | [], ka, kb, va, vb, ys, _, _, _, _, hv => by
    simp only [validateDict, Except.ok.injEq] at hv
    subst hv
    simp [viewDict, validateDict]
  | (k, x) :: rest, ka, kb, va, vb, ys, hk, hvt, hpk, hw, hv => by
    simp only [validateDict, bind, Except.bind] at hv
    cases h0 : validate E B kb k with
    | error e => simp [h0] at hv
    | ok k' =>
      simp only [h0] at hv
      cases h1 : validate E B vb x with
      | error e => simp [h1] at hv
      | ok y =>
        simp only [h1] at hv
        cases h2 : validateDict E B kb vb rest with
        | error e => simp [h2] at hv
        | ok ys' =>
          simp only [h2, pure, Except.pure, Except.ok.injEq] at hv
          subst hv
          have hk' : validate E A ka k = .ok k' := by
            rw [validate_prim_sub E A B hk (by rw [← tySub_isPrim hk]; exact hpk)]; exact h0
          simp only [viewDict, validateDict, bind, Except.bind, hk', validate_sub E cx x va vb y hvt hw h1,
            validateDict_sub E cx rest ka kb va vb ys' hk hvt hpk hw h2, pure, Except.pure]
end

end StoneVerif.Rt.Compat
