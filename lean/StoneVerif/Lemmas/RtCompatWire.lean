import StoneVerif.Lemmas.RtCompatBwd6
import StoneVerif.Lemmas.RtRoundTrip
/-!
Helper lemmas for C07, part 16: the wire form of a good value of the older spec is in encoder form (`tightDoc`).
Induction over good values (`RoundTrip.good_induct`), the struct / tree / union cases through the member lists that `pick`
leaves behind.
-/
namespace StoneVerif.Rt.Compat
open StoneVerif.Rt
open StoneVerif.Rt.RoundTrip (Good good_induct isLeaf slotImage)

/-! ### documents: facts that do not depend on the value -/

theorem tightDoc_null (A : Env) (t : PTy) : tightDoc A t .null = true := by
  unfold tightDoc
  split <;> rfl

theorem tightDoc_withFlags (A : Env) (t : PTy) (fl : Flags) (j : JVal) :
    tightDoc A (t.withFlags fl) j = tightDoc A t j := by
  cases t <;> cases j <;> (unfold tightDoc; rfl)

theorem nvrDoc_withFlags (ρ : Rho) (A B : Env) (t : PTy) (fl : Flags) (j : JVal) :
    nvrDoc ρ A B (t.withFlags fl) j = nvrDoc ρ A B t j := by
  cases t <;> cases j <;> (unfold nvrDoc; rfl)

theorem tightMembers_iff (A : Env) (tbl : List (String × PTy)) : ∀ kvs : List (String × JVal),
    tightMembers A tbl kvs = true ↔ ∀ kx ∈ kvs, (match tbl.find? (·.1 == kx.1) with
      | some (_, ft) => tightDoc A ft kx.2
      | none => kx.1 == ".tag") = true
  | [] => by simp [tightMembers]
  | (k, x) :: rest => by
    simp only [tightMembers, Bool.and_eq_true, List.forall_mem_cons, tightMembers_iff A tbl rest]
    exact Iff.rfl

theorem nvrMembers_iff (ρ : Rho) (A B : Env) (tbl : List (String × PTy)) : ∀ kvs : List (String × JVal),
    nvrMembers ρ A B tbl kvs = true ↔ ∀ kx ∈ kvs, (match tbl.find? (·.1 == kx.1) with
      | some (_, ft) => nvrDoc ρ A B ft kx.2
      | none => true) = true
  | [] => by simp [nvrMembers]
  | (k, x) :: rest => by
    simp only [nvrMembers, Bool.and_eq_true, List.forall_mem_cons, nvrMembers_iff ρ A B tbl rest]
    exact Iff.rfl

theorem nvSlots_iff (ρ : Rho) (A B : Env) (fa : List FieldDef) : ∀ slots : List (String × PyVal),
    nvSlots ρ A B fa slots = true ↔ ∀ kx ∈ slots, (match fa.find? (·.name == kx.1) with
      | some f => noVoidToRequired ρ A B f.ty kx.2
      | none => true) = true
  | [] => by simp [nvSlots]
  | (k, x) :: rest => by
    simp only [nvSlots, Bool.and_eq_true, List.forall_mem_cons, nvSlots_iff ρ A B fa rest]
    exact Iff.rfl

/-- the member table of a field list -/
def tableOf (fields : List FieldDef) : List (String × PTy) := fields.map fun f => (f.name, f.ty)

theorem structTable_tableOf (A : Env) (cls : String) : structTable A cls = tableOf (publicFields A cls) := rfl

theorem tableOf_find (fields : List FieldDef) (k : String) :
    (tableOf fields).find? (·.1 == k) = (fields.find? (·.name == k)).map fun f => (f.name, f.ty) := by
  unfold tableOf
  rw [List.find?_map]
  rfl

theorem tableOf_find_tag {fields : List FieldDef} (h : ∀ f ∈ fields, f.name ≠ ".tag") :
    (tableOf fields).find? (·.1 == ".tag") = none := by
  rw [tableOf_find]
  cases hf : fields.find? (·.name == ".tag") with
  | none => rfl
  | some f =>
    obtain ⟨hm, hn⟩ := RoundTrip.find_field_some hf
    exact absurd hn (h f hm)

/-! ### the members `pick` leaves behind -/

theorem mem_pick_wire {E : Ext} {A : Env} {fields : List FieldDef} {slots : List (String × PyVal)}
    (hnds : (slots.map (·.1)).Nodup) {k : String} {j : JVal}
    (h : (k, j) ∈ pick fields (wireSlots E A fields slots)) :
    ∃ f x, fields.find? (·.name == k) = some f ∧ (k, x) ∈ slots ∧ isNoneV x = false ∧ j = wire E A f.ty x := by
  unfold pick at h
  obtain ⟨f0, _, e⟩ := List.mem_filterMap.1 h
  cases hl : lookupW f0.name (wireSlots E A fields slots) with
  | none => rw [hl] at e; cases e
  | some j' =>
    rw [hl] at e
    simp only [Option.map_some, Option.some.injEq, Prod.mk.injEq] at e
    obtain ⟨e1, e2⟩ := e
    subst e1; subst e2
    rw [RoundTrip.lookupW_wireSlots E A fields hnds] at hl
    unfold slotImage at hl
    cases hfind : fields.find? (·.name == f0.name) with
    | none => rw [hfind] at hl; cases hl
    | some f =>
      rw [hfind] at hl
      cases hls : lookupSlot f0.name slots with
      | none => rw [hls] at hl; cases hl
      | some x =>
        rw [hls] at hl
        simp only [Option.bind_some] at hl
        by_cases hn : isNoneV x = true
        · rw [if_pos hn] at hl; cases hl
        · rw [if_neg hn] at hl
          cases hl
          exact ⟨f, x, rfl, RoundTrip.mem_of_lookupSlot hls, by simpa using hn, rfl⟩

theorem pick_wire_mem {E : Ext} {A : Env} {fields : List FieldDef} {slots : List (String × PyVal)}
    (hnds : (slots.map (·.1)).Nodup) {k : String} {x : PyVal} {f : FieldDef}
    (hx : (k, x) ∈ slots) (hf : fields.find? (·.name == k) = some f) (hnn : isNoneV x = false) :
    (k, wire E A f.ty x) ∈ pick fields (wireSlots E A fields slots) := by
  obtain ⟨hm, hn⟩ := RoundTrip.find_field_some hf
  subst hn
  unfold pick
  refine List.mem_filterMap.2 ⟨f, hm, ?_⟩
  rw [RoundTrip.lookupW_wireSlots E A fields hnds]
  unfold slotImage
  rw [hf, RoundTrip.lookupSlot_of_mem hnds hx]
  simp [hnn]

/-- encoder form of the members of a struct instance -/
theorem tightMembers_pick {E : Ext} {A : Env} {fields : List FieldDef} {slots : List (String × PyVal)}
    (hnds : (slots.map (·.1)).Nodup)
    (ih : ∀ k x f, (k, x) ∈ slots → fields.find? (·.name == k) = some f → tightDoc A f.ty (wire E A f.ty x) = true) :
    tightMembers A (tableOf fields) (pick fields (wireSlots E A fields slots)) = true := by
  rw [tightMembers_iff]
  rintro ⟨k, j⟩ hkj
  obtain ⟨f, x, hf, hx, _, rfl⟩ := mem_pick_wire hnds hkj
  simp only [tableOf_find, hf, Option.map_some]
  exact ih k x f hx hf

theorem tightMembers_tag_cons {A : Env} {fields : List FieldDef} (h : ∀ f ∈ fields, f.name ≠ ".tag") (x : JVal)
    (rest : List (String × JVal)) :
    tightMembers A (tableOf fields) ((".tag", x) :: rest) = tightMembers A (tableOf fields) rest := by
  simp only [tightMembers, tableOf_find_tag h, beq_self_eq_true, Bool.true_and]

theorem publicFields_ne_tag {A : Env} (hwf : envWF A = true) (c : String) : ∀ f ∈ publicFields A c, f.name ≠ ".tag" :=
  fun f hf => RoundTrip.ne_tag_of_not_dot ((RoundTrip.publicFields_facts hwf c).2 f hf).1

theorem jsonLookup_tag_cons (x : JVal) (rest : List (String × JVal)) :
    jsonLookup ".tag" ((".tag", x) :: rest) = some x := by
  simp [jsonLookup]

theorem findSub_leaf {A : Env} (hwf : envWF A = true) {cls c tag : String} {s : StructDef}
    (hs : A.struct? cls = some s) (h : leafTag? A cls c = some tag) :
    findSub [tag] (s.subtypes.getD []) = some ([tag], c, false) := by
  unfold findSub
  exact RoundTrip.subtype_find hwf hs h

/-! ### the induction -/

theorem tightDoc_wire_leaf {E : Ext} {A : Env} (t : PTy) (v : PyVal) (g : Good E A t v) (hl : isLeaf v = true) :
    tightDoc A t (wire E A t v) = true := by
  have h1 := g.valid
  cases v <;> simp [isLeaf] at hl <;> cases t <;>
    simp [validB, validPrim, isNoneV, PTy.flags, wire] at h1 ⊢ <;> (unfold tightDoc; simp [isVoidT])

theorem tightDoc_wire_union {E : Ext} {A : Env} (hwf : envWF A = true) {fl : Flags} {cls c tag : String}
    {payload : PyVal} {td : TagDef} (htd : publicTag? A cls tag = some td) (gp : Good E A td.ty payload)
    (ihp : tightDoc A td.ty (wire E A td.ty payload) = true) :
    tightDoc A (.union fl cls) (wire E A (.union fl cls) (.union c tag payload)) = true := by
  have htag : tag ≠ ".tag" := RoundTrip.ne_tag_of_not_dot (RoundTrip.publicTag_facts hwf htd).2.1
  have htag' : (tag == ".tag") = false := by simpa using htag
  rw [RoundTrip.wire_union E A htd]
  by_cases h1 : (isVoidT td.ty || isNoneV payload) = true
  · rw [if_pos h1]
    by_cases hv : isVoidT td.ty = true
    · rw [tightDoc_union_void A fl cls (jsonLookup_tag_cons _ _) htd hv]; rfl
    · have hv : isVoidT td.ty = false := by simpa using hv
      by_cases hp : isPlainStruct td.ty = true
      · cases htt : td.ty <;> simp [htt, isPlainStruct] at hp
        rw [tightDoc_union_struct A fl cls (jsonLookup_tag_cons _ _) htd htt, structTable_tableOf,
          tightMembers_tag_cons (publicFields_ne_tag hwf _)]
        rfl
      · have hp : isPlainStruct td.ty = false := by simpa using hp
        rw [tightDoc_union_nested A fl cls (jsonLookup_tag_cons _ _) htd hv hp]
        simp [tightMembers, htag']
  · rw [if_neg h1]
    simp only [Bool.or_eq_true, not_or, Bool.not_eq_true] at h1
    by_cases hp : isPlainStruct td.ty = true
    · rw [if_pos hp]
      cases htt : td.ty <;> simp [htt, isPlainStruct] at hp
      rename_i sfl sc
      rw [htt] at gp ihp
      obtain ⟨slots, rfl⟩ := RoundTrip.good_at_struct_inv gp h1.2
      simp only [wire] at ihp ⊢
      rw [tightDoc_struct_obj] at ihp
      rw [tightDoc_union_struct A fl cls (jsonLookup_tag_cons _ _) htd htt, structTable_tableOf,
        tightMembers_tag_cons (publicFields_ne_tag hwf _)]
      exact ihp
    · rw [if_neg hp]
      have hp : isPlainStruct td.ty = false := by simpa using hp
      rw [tightDoc_union_nested A fl cls (jsonLookup_tag_cons _ _) htd h1.1 hp]
      simp [tightMembers, htag', tightDoc_withFlags, ihp]

/-- ENCODER FORM: the wire form of a good value contains nothing its own spec does not know, Void tags bare. -/
theorem tightDoc_wire {E : Ext} {A : Env} (hwf : envWF A = true) (t : PTy) (v : PyVal) (h : Good E A t v) :
    tightDoc A t (wire E A t v) = true := by
  refine good_induct hwf (fun t v => tightDoc A t (wire E A t v) = true) tightDoc_wire_leaf ?_ ?_ ?_ ?_ ?_ t v h
  · intro fl item mn mx xs _ ih
    simp only [wire]
    rw [tightDoc_list_arr]
    have : ∀ ys : List PyVal, (∀ x ∈ ys, tightDoc A item (wire E A item x) = true) →
        tightList A item (wireList E A item ys) = true := by
      intro ys
      induction ys with
      | nil => intro _; simp [wireList, tightList]
      | cons y ys ihy =>
        intro hy
        simp only [wireList, tightList, Bool.and_eq_true]
        exact ⟨hy y List.mem_cons_self, ihy fun x hx => hy x (List.mem_cons_of_mem _ hx)⟩
    exact this xs fun x hx => (ih x hx).2
  · intro fl kt vt kvs _ ih
    simp only [wire]
    rw [tightDoc_map_obj]
    have : ∀ ys : List (PyVal × PyVal), (∀ kx ∈ ys, tightDoc A vt (wire E A vt kx.2) = true) →
        tightVals A vt (wireDict E A vt ys) = true := by
      intro ys
      induction ys with
      | nil => intro _; simp [wireDict, tightVals]
      | cons y ys ihy =>
        intro hy
        obtain ⟨k, x⟩ := y
        have hrest := ihy fun kx hx => hy kx (List.mem_cons_of_mem _ hx)
        cases k <;> simp only [wireDict, tightVals, Bool.and_eq_true] <;> try exact hrest
        exact ⟨hy _ List.mem_cons_self, hrest⟩
    exact this kvs fun kx hkx => (ih kx hkx).2.2.2
  · intro fl cls slots g ih
    obtain ⟨s, hs, hall, hnds⟩ := RoundTrip.good_struct_inv g
    simp only [wire]
    rw [tightDoc_struct_obj, structTable_tableOf]
    exact tightMembers_pick hnds fun k x f hx hf => (ih k x f hx hf).2
  · intro fl cls c slots g ih
    obtain ⟨s, d, tag, hs, hd, _, hleaf, hall, hnds⟩ := RoundTrip.good_tree_inv g
    simp only [wire, hleaf]
    rw [tightDoc_tree_obj A fl cls _ (jsonLookup_tag_cons _ _) hs, findSub_leaf hwf hs hleaf]
    simp only
    rw [structTable_tableOf, tightMembers_tag_cons (publicFields_ne_tag hwf _)]
    exact tightMembers_pick hnds fun k x f hx hf => (ih k x f hx hf).2
  · intro fl cls c tag payload td g htd gp ihp
    exact tightDoc_wire_union hwf htd gp ihp

end StoneVerif.Rt.Compat
