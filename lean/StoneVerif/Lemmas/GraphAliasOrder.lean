import StoneVerif.Lemmas.GraphOrder
/-! `linearize_aliases` (aliases mentioned at any depth first): invariants of `aliasAdd` / `foldAdd`. -/
namespace StoneVerif.Graph

variable {g : Graph} {sf : String}

/-- `id` names a node of the namespace `sf` -/
def SameNs (g : Graph) (sf : String) (id : Id) : Prop := ∃ nd, g.node? id = some nd ∧ nd.ns = sf

/-- every listed alias comes after the aliases of the namespace its target mentions (at any depth) -/
def TargetFirst (g : Graph) (sf : String) (l : List Id) : Prop :=
  ∀ t ∈ l, ∀ nd, g.node? t = some nd → ∀ a ∈ referencedAliases g nd.target, SameNs g sf a → Before l a t

structure PreCore (g : Graph) (sf : String) (C : Id → Prop) (st : LinSt) : Prop where
  outSeen : ∀ x ∈ st.out, x ∈ st.seen
  nodup : st.out.Nodup
  sub : ∀ x ∈ st.out, C x
  tf : TargetFirst g sf st.out

structure Post (g : Graph) (sf : String) (C : Id → Prop) (st st' : LinSt) : Prop where
  core : PreCore g sf C st'
  ext : ∃ extra, st'.out = st.out ++ extra ∧ ∀ x ∈ extra, x ∉ st.seen
  seenMono : ∀ x ∈ st.seen, x ∈ st'.seen
  newSeen : ∀ x ∈ st'.seen, x ∈ st.seen ∨ x ∈ st'.out

theorem Post.refl {C : Id → Prop} {st : LinSt} (h : PreCore g sf C st) : Post g sf C st st :=
  ⟨h, ⟨[], by simp⟩, fun _ hx => hx, fun _ hx => Or.inl hx⟩

theorem Post.trans {C : Id → Prop} {s0 s1 s2 : LinSt} (h1 : Post g sf C s0 s1) (h2 : Post g sf C s1 s2) :
    Post g sf C s0 s2 := by
  obtain ⟨e1, he1, hn1⟩ := h1.ext
  obtain ⟨e2, he2, hn2⟩ := h2.ext
  refine ⟨h2.core, ⟨e1 ++ e2, by rw [he2, he1, List.append_assoc], ?_⟩, fun x hx => h2.seenMono x (h1.seenMono x hx), ?_⟩
  · intro x hx
    rcases List.mem_append.1 hx with hx | hx
    · exact hn1 x hx
    · exact fun hs => hn2 x hx (h1.seenMono x hs)
  · intro x hx
    rcases h2.newSeen x hx with h | h
    · rcases h1.newSeen x h with h' | h'
      · exact Or.inl h'
      · exact Or.inr (by rw [he2]; exact List.mem_append_left _ h')
    · exact Or.inr h

theorem Post.out_mono {C : Id → Prop} {s0 s1 : LinSt} (h : Post g sf C s0 s1) : ∀ x ∈ s0.out, x ∈ s1.out := by
  obtain ⟨e, he, _⟩ := h.ext
  intro x hx; rw [he]; exact List.mem_append_left _ hx

/-- what one call of `add_alias` guarantees (`Q` describes the aliases that may be marked but unfinished) -/
def CallOk (g : Graph) (sf : String) (C : Id → Prop) (rank : Id → Nat)
    (f : Id → LinSt → Except Err LinSt) : Prop :=
  ∀ a st st', f a st = .ok st' → (SameNs g sf a → C a) → PreCore g sf C st →
    (SameNs g sf a → ∀ x ∈ st.seen, x ∈ st.out ∨ rank a < rank x) →
    Post g sf C st st' ∧ (SameNs g sf a → a ∈ st'.seen)

/-- the loop `for x in xs: add_alias(x)` -/
theorem foldAdd_inv {C : Id → Prop} {rank : Id → Nat} {f : Id → LinSt → Except Err LinSt}
    (hf : CallOk g sf C rank f) (Q : Id → Prop) {as : List Id} {st st' : LinSt}
    (h : foldAdd f as st = .ok st') (hC : ∀ a ∈ as, SameNs g sf a → C a) (hpre : PreCore g sf C st)
    (hpend : ∀ x ∈ st.seen, x ∈ st.out ∨ Q x)
    (hQ : ∀ a ∈ as, SameNs g sf a → ∀ x, Q x → rank a < rank x) :
    Post g sf C st st' ∧ (∀ a ∈ as, SameNs g sf a → a ∈ st'.seen) ∧ (∀ x ∈ st'.seen, x ∈ st'.out ∨ Q x) := by
  induction as generalizing st with
  | nil =>
    simp only [foldAdd] at h
    cases h
    exact ⟨Post.refl hpre, (fun a ha => by cases ha), hpend⟩
  | cons a rest ih =>
    simp only [foldAdd] at h
    split at h
    · simp at h
    · rename_i s1 hs1
      obtain ⟨p1, hin1⟩ := hf a st s1 hs1 (hC a (List.mem_cons_self ..)) hpre
        (by
          intro hs x hx
          rcases hpend x hx with h' | h'
          · exact Or.inl h'
          · exact Or.inr (hQ a (List.mem_cons_self ..) hs x h'))
      have hpend1 : ∀ x ∈ s1.seen, x ∈ s1.out ∨ Q x := by
        intro x hx
        rcases p1.newSeen x hx with h' | h'
        · rcases hpend x h' with h'' | h''
          · exact Or.inl (p1.out_mono x h'')
          · exact Or.inr h''
        · exact Or.inl h'
      obtain ⟨p2, hin2, hpend2⟩ := ih h (fun b hb => hC b (List.mem_cons_of_mem _ hb)) p1.core hpend1
        (fun b hb => hQ b (List.mem_cons_of_mem _ hb))
      refine ⟨p1.trans p2, ?_, hpend2⟩
      intro b hb hs
      rcases List.mem_cons.1 hb with rfl | hb
      · exact p2.seenMono _ (hin1 hs)
      · exact hin2 b hb hs

theorem aliasAdd_callOk {C : Id → Prop} {rank : Id → Nat}
    (hrank : ∀ x nd a, g.node? x = some nd → nd.ns = sf → a ∈ referencedAliases g nd.target →
      SameNs g sf a → rank a < rank x)
    (hC : ∀ x nd a, C x → g.node? x = some nd → a ∈ referencedAliases g nd.target → SameNs g sf a → C a)
    (fuel : Nat) : CallOk g sf C rank (aliasAdd g sf fuel) := by
  induction fuel with
  | zero =>
    intro id st st' h hCid hpre hpend
    unfold aliasAdd at h
    split at h
    · rename_i hseen
      cases h
      exact ⟨Post.refl hpre, fun _ => by simpa using hseen⟩
    · split at h
      · simp at h
      · rename_i nd hnd
        split at h
        · rename_i hns
          cases h
          refine ⟨Post.refl hpre, ?_⟩
          rintro ⟨nd', hnd', hns'⟩
          rw [hnd] at hnd'; cases hnd'
          simp [hns'] at hns
        · simp at h
  | succ fuel ih =>
    intro id st st' h hCid hpre hpend
    unfold aliasAdd at h
    split at h
    · rename_i hseen
      cases h
      exact ⟨Post.refl hpre, fun _ => by simpa using hseen⟩
    · rename_i hseen
      have hunseen : id ∉ st.seen := by simpa using hseen
      split at h
      · simp at h
      · rename_i nd hnd
        split at h
        · rename_i hns
          cases h
          refine ⟨Post.refl hpre, ?_⟩
          rintro ⟨nd', hnd', hns'⟩
          rw [hnd] at hnd'; cases hnd'
          simp [hns'] at hns
        · rename_i hns
          have hns' : nd.ns = sf := by simpa using hns
          have hsame : SameNs g sf id := ⟨nd, hnd, hns'⟩
          simp only at h
          split at h
          · simp at h
          · rename_i s2 hfold
            cases h
            -- the state on entry, `id` marked
            have hpre1 : PreCore g sf C { st with seen := id :: st.seen } :=
              ⟨fun x hx => List.mem_cons_of_mem _ (hpre.outSeen x hx), hpre.nodup, hpre.sub, hpre.tf⟩
            have hCid' : C id := hCid hsame
            have hCrefs : ∀ a ∈ referencedAliases g nd.target, SameNs g sf a → C a :=
              fun a ha hs => hC id nd a hCid' hnd ha hs
            obtain ⟨p, hin, hpend2⟩ := foldAdd_inv ih (fun x => x = id ∨ rank id < rank x) hfold hCrefs hpre1
              (by
                intro x hx
                rcases List.mem_cons.1 hx with rfl | hx
                · exact Or.inr (Or.inl rfl)
                · rcases hpend hsame x hx with h' | h'
                  · exact Or.inl h'
                  · exact Or.inr (Or.inr h'))
              (by
                intro a ha hs x hx
                have hlt := hrank id nd a hnd hns' ha hs
                rcases hx with rfl | hx
                · exact hlt
                · omega)
            obtain ⟨extra, hext, hnew⟩ := p.ext
            have hidseen : id ∈ s2.seen := p.seenMono id (List.mem_cons_self ..)
            have hidout : id ∉ s2.out := by
              rw [hext]
              intro hmem
              rcases List.mem_append.1 hmem with hmem | hmem
              · exact hunseen (hpre.outSeen id hmem)
              · exact hnew id hmem (List.mem_cons_self ..)
            refine ⟨⟨⟨?_, ?_, ?_, ?_⟩, ⟨extra ++ [id], ?_, ?_⟩, ?_, ?_⟩, fun _ => hidseen⟩
            · intro x hx
              rcases List.mem_append.1 hx with hx | hx
              · exact p.core.outSeen x hx
              · have : x = id := by simpa using hx
                subst this; exact hidseen
            · rw [List.nodup_append]
              refine ⟨p.core.nodup, by simp, ?_⟩
              intro a ha b hb
              have : b = id := by simpa using hb
              subst this
              intro hab; subst hab; exact hidout ha
            · intro x hx
              rcases List.mem_append.1 hx with hx | hx
              · exact p.core.sub x hx
              · have : x = id := by simpa using hx
                subst this; exact hCid'
            · intro t ht ndt hndt a ha hs
              rcases List.mem_append.1 ht with ht | ht
              · exact (p.core.tf t ht ndt hndt a ha hs).append_right _
              · have : t = id := by simpa using ht
                subst this
                rw [hnd] at hndt; cases hndt
                have hlt := hrank _ nd a hnd hns' ha hs
                rcases hpend2 a (hin a ha hs) with h' | h' | h'
                · exact before_snoc h'
                · subst h'; omega
                · omega
            · show s2.out ++ [id] = st.out ++ (extra ++ [id])
              rw [hext, List.append_assoc]
            · intro x hx
              rcases List.mem_append.1 hx with hx | hx
              · exact fun hs => hnew x hx (List.mem_cons_of_mem _ hs)
              · have : x = id := by simpa using hx
                subst this; exact hunseen
            · intro x hx
              exact p.seenMono x (List.mem_cons_of_mem _ hx)
            · intro x hx
              rcases p.newSeen x hx with h' | h'
              · rcases List.mem_cons.1 h' with rfl | h'
                · exact Or.inr (List.mem_append_right _ (by simp))
                · exact Or.inl h'
              · exact Or.inr (List.mem_append_left _ h')

/-- `linearize_aliases()`: a duplicate-free list of exactly the listed aliases, every alias after the
aliases of the namespace its target mentions at any depth (aliases acyclic: `rank`) -/
theorem linearizeAliases_inv {rank : Id → Nat} {ids out : List Id}
    (h : linearizeAliases g sf ids = .ok out)
    (hrank : ∀ x nd a, g.node? x = some nd → nd.ns = sf → a ∈ referencedAliases g nd.target →
      SameNs g sf a → rank a < rank x)
    (hnd : ids.Nodup) (hown : ∀ x ∈ ids, SameNs g sf x)
    (hclosed : ∀ x nd a, x ∈ ids → g.node? x = some nd → a ∈ referencedAliases g nd.target → SameNs g sf a →
      a ∈ ids) :
    out.Perm ids ∧ TargetFirst g sf out := by
  simp only [linearizeAliases] at h
  split at h
  · simp at h
  · rename_i st hst
    cases h
    have hcall := aliasAdd_callOk (g := g) (sf := sf) (C := (· ∈ ids)) (rank := rank) hrank
      (fun x nd a hx hnd' ha hs => hclosed x nd a hx hnd' ha hs) g.chainFuel
    have hpre0 : PreCore g sf (· ∈ ids) ({} : LinSt) :=
      ⟨(fun x hx => by cases hx), List.nodup_nil, (fun x hx => by cases hx), (fun t ht => by cases ht)⟩
    obtain ⟨p, hin, hpend⟩ := foldAdd_inv hcall (fun _ => False) hst (fun a ha _ => ha) hpre0
      (fun x hx => by cases hx) (fun a _ _ x hx => hx.elim)
    refine ⟨(List.perm_ext_iff_of_nodup p.core.nodup hnd).2 ?_, p.core.tf⟩
    intro a
    constructor
    · exact p.core.sub a
    · intro ha
      rcases hpend a (hin a ha (hown a ha)) with h' | h'
      · exact h'
      · exact h'.elim

/-! ### totality: acyclic aliases (a rank) make the nesting end within the fuel -/

theorem foldAdd_total {f : Id → LinSt → Except Err LinSt} {as : List Id}
    (hf : ∀ a ∈ as, ∀ st, ∃ st', f a st = .ok st') : ∀ st, ∃ st', foldAdd f as st = .ok st' := by
  induction as with
  | nil => intro st; exact ⟨st, rfl⟩
  | cons a rest ih =>
    intro st
    obtain ⟨s1, hs1⟩ := hf a (List.mem_cons_self ..) st
    obtain ⟨s2, hs2⟩ := ih (fun b hb => hf b (List.mem_cons_of_mem _ hb)) s1
    exact ⟨s2, by simp only [foldAdd, hs1, hs2]⟩

theorem aliasAdd_total {rank : Id → Nat}
    (hrank : ∀ x nd a, g.node? x = some nd → nd.ns = sf → a ∈ referencedAliases g nd.target →
      SameNs g sf a → rank a < rank x) :
    ∀ fuel id st, (∃ nd, g.node? id = some nd) → (SameNs g sf id → rank id < fuel) →
      ∃ st', aliasAdd g sf fuel id st = .ok st' := by
  intro fuel
  induction fuel with
  | zero =>
    intro id st ⟨nd, hnd⟩ hlt
    unfold aliasAdd
    split
    · exact ⟨_, rfl⟩
    · simp only [hnd]
      split
      · exact ⟨_, rfl⟩
      · rename_i hns
        have := hlt ⟨nd, hnd, by simpa using hns⟩
        omega
  | succ fuel ih =>
    intro id st ⟨nd, hnd⟩ hlt
    unfold aliasAdd
    split
    · exact ⟨_, rfl⟩
    · simp only [hnd]
      split
      · exact ⟨_, rfl⟩
      · rename_i hns
        have hns' : nd.ns = sf := by simpa using hns
        have hid := hlt ⟨nd, hnd, hns'⟩
        obtain ⟨s2, hs2⟩ := foldAdd_total (f := aliasAdd g sf fuel) (as := referencedAliases g nd.target)
          (by
            intro a ha st1
            have hal : g.isAliasId a = true := by
              simp only [referencedAliases, List.mem_filter] at ha
              exact ha.2
            obtain ⟨na, hna, _⟩ := isAliasId_iff.1 hal
            exact ih a st1 ⟨na, hna⟩ (fun hs => by
              have := hrank id nd a hnd hns' ha hs
              omega))
          { st with seen := id :: st.seen }
        rw [hs2]
        exact ⟨_, rfl⟩

theorem linearizeAliases_total {rank : Id → Nat} {ids : List Id}
    (hrank : ∀ x nd a, g.node? x = some nd → nd.ns = sf → a ∈ referencedAliases g nd.target →
      SameNs g sf a → rank a < rank x)
    (hids : ∀ x ∈ ids, ∃ nd, g.node? x = some nd) (hb : ∀ x ∈ ids, rank x < g.chainFuel) :
    ∃ out, linearizeAliases g sf ids = .ok out := by
  obtain ⟨st, hst⟩ := foldAdd_total (f := aliasAdd g sf g.chainFuel) (as := ids)
    (fun a ha st => aliasAdd_total hrank g.chainFuel a st (hids a ha) (fun _ => hb a ha)) {}
  exact ⟨st.out, by simp only [linearizeAliases, hst]⟩

end StoneVerif.Graph
