import StoneVerif.Lemmas.FeCompileGraph
import StoneVerif.Lemmas.FeCompileLegalReg
import StoneVerif.Lemmas.FeCompileClosed
set_option linter.unusedSimpArgs false
/-!
Pass 2 of the compileCore model (imports) succeeds exactly on the inputs whose imports obey `importsLegal`: the checks
against the imports bound so far are, taken together, the order-free statement about all imports.
-/
namespace StoneVerif.FeCompile.L
open StoneVerif.FeCompile

/-- the imports in the order pass 2 sees them -/
def foldImports (nss : List String) : List (String × String) → List (String × String) → Except Err (List (String × String))
  | I, [] => .ok I
  | I, p :: ps => match addImport nss I p.1 p.2 with
    | .ok I' => foldImports nss I' ps
    | .error e => .error e

theorem foldImports_append {nss} : ∀ {ps qs : List (String × String)} {I},
    foldImports nss I (ps ++ qs) = match foldImports nss I ps with
      | .ok I' => foldImports nss I' qs
      | .error e => .error e
  | [], qs, I => by simp [foldImports]
  | p :: ps, qs, I => by
    simp only [List.cons_append, foldImports]
    cases addImport nss I p.1 p.2 with
    | error e => rfl
    | ok I' => exact foldImports_append

theorem addImportsDecls_fold {nss ns} : ∀ {ds : List Decl} {I},
    addImportsDecls nss I ns ds = foldImports nss I ((ds.map fun d => (ns, d)).filterMap importOf)
  | [], I => by simp [addImportsDecls, foldImports]
  | d :: ds, I => by
    cases d with
    | imp t =>
      simp only [addImportsDecls, List.map_cons, List.filterMap_cons, importOf, foldImports]
      cases addImport nss I ns t with
      | error e => rfl
      | ok I' => exact addImportsDecls_fold
    | type _ | «alias» _ _ | route _ | annot _ _ | annotType _ | patch _ | aliasAnnots _ _ =>
      simp only [addImportsDecls, List.map_cons, List.filterMap_cons, importOf]
      exact addImportsDecls_fold

theorem addImportsFiles_fold {nss} : ∀ {fs : List File} {I},
    addImportsFiles nss I fs = foldImports nss I (importPairs fs)
  | [], I => by simp [addImportsFiles, importPairs, allPairs, foldImports]
  | f :: fs, I => by
    simp only [addImportsFiles, importPairs, allPairs, List.flatMap_cons, List.filterMap_append]
    rw [foldImports_append, ← addImportsDecls_fold]
    cases addImportsDecls nss I f.ns f.decls with
    | error e => rfl
    | ok I' =>
      simp only
      rw [addImportsFiles_fold]
      rfl

theorem mem_importsOf {I : List (String × String)} {n m : String} : m ∈ importsOf I n ↔ (n, m) ∈ I := by
  unfold importsOf
  simp only [List.mem_map, List.mem_filter, beq_iff_eq]
  constructor
  · rintro ⟨p, ⟨hp, rfl⟩, rfl⟩; exact hp
  · intro h; exact ⟨(n, m), ⟨h, rfl⟩, rfl⟩

/-- what the order-free rule says about a set of imports `G` over the namespaces `nss` -/
def ImportsOK (nss : List String) (G : List (String × String)) : Prop :=
  ∀ p, p ∈ G → p.1 ≠ p.2 ∧ nss.contains p.2 = true ∧
    anyTri (search (importsOf G) p.1 (nss.length + 1)) (importsOf G p.2) = .no

theorem importsLegal_iff (fs : List File) : importsLegal fs = true ↔ ImportsOK (nsNames fs []) (importPairs fs) := by
  unfold importsLegal ImportsOK
  simp only [List.all_eq_true, Bool.and_eq_true, bne_iff_ne, ne_eq, beq_iff_eq]
  constructor
  · intro h p hp; have := h p hp; exact ⟨this.1.1, this.1.2, this.2⟩
  · intro h p hp; have := h p hp; exact ⟨⟨this.1, this.2.1⟩, this.2.2⟩

/-- legal imports are accepted one by one, whatever was bound before -/
theorem foldImports_ok_of_legal {nss G} (hG : ImportsOK nss G) : ∀ {ps I}, (∀ p, p ∈ ps → p ∈ G) → (∀ p, p ∈ I → p ∈ G) →
    ∃ I', foldImports nss I ps = .ok I'
  | [], I, _, _ => ⟨I, rfl⟩
  | p :: ps, I, hps, hI => by
    obtain ⟨h1, h2, h3⟩ := hG p (hps p List.mem_cons_self)
    have hsub : ∀ x y, y ∈ importsOf I x → y ∈ importsOf G x := by
      intro x y hy
      rw [mem_importsOf] at hy ⊢
      exact hI _ hy
    have hno := Gr.anyTri_search_mono hsub (f := nss.length + 1) (hsub p.2) h3
    have hadd : addImport nss I p.1 p.2 = .ok ((p.1, p.2) :: I) := by
      unfold addImport
      have : (p.1 == p.2) = false := by simpa using h1
      simp [this, List.contains_iff_mem.mp h2, hno]
    simp only [foldImports, hadd]
    apply foldImports_ok_of_legal hG (fun q hq => hps q (List.mem_cons_of_mem _ hq))
    intro q hq
    simp only [List.mem_cons] at hq
    rcases hq with rfl | hq
    · exact hps p List.mem_cons_self
    · exact hI q hq

/-- accepted imports: each obeys the local rules, and the graph stays acyclic -/
theorem foldImports_acyclic {nss} : ∀ {ps I I'}, foldImports nss I ps = .ok I' → Gr.Acyclic (importsOf I) →
    Gr.Acyclic (importsOf I') ∧ (∀ p, p ∈ I' ↔ p ∈ I ∨ p ∈ ps) ∧
      (∀ p, p ∈ ps → p.1 ≠ p.2 ∧ nss.contains p.2 = true)
  | [], I, I', h, hA => by
    simp only [foldImports] at h; cases h
    exact ⟨hA, by simp, by simp⟩
  | p :: ps, I, I', h, hA => by
    simp only [foldImports] at h
    cases hadd : addImport nss I p.1 p.2 with
    | error e => rw [hadd] at h; cases h
    | ok I1 =>
      rw [hadd] at h
      simp only at h
      unfold addImport at hadd
      split at hadd
      · cases hadd
      · rename_i hne
        split at hadd
        · cases hadd
        · rename_i hc
          split at hadd
          · cases hadd
          · cases hadd
          · rename_i hno
            cases hadd
            have hA1 : Gr.Acyclic (importsOf ((p.1, p.2) :: I)) := by
              refine Gr.acyclic_push (a := p.1) hA ?_ ?_
              · intro x hx y hy
                rw [mem_importsOf] at hy ⊢
                simp only [List.mem_cons, Prod.mk.injEq] at hy
                rcases hy with ⟨rfl, _⟩ | hy
                · exact absurd rfl hx
                · exact hy
              · intro m hm hr
                rw [mem_importsOf] at hm
                simp only [List.mem_cons, Prod.mk.injEq, true_and] at hm
                rcases hm with rfl | hm
                · -- the new edge: its target reaches the importer
                  rcases hr.cases' with he | ⟨m', he, hrest⟩
                  · exact hne (by simp [he])
                  · exact Gr.search_no _ (Gr.anyTri_no_iff.mp hno _ he) hrest
                · exact hA p.1 (Gr.path_of_edge_reach (mem_importsOf.mpr hm) hr)
            obtain ⟨hA', hmem, hloc⟩ := foldImports_acyclic h hA1
            refine ⟨hA', ?_, ?_⟩
            · intro q
              rw [hmem q]
              simp only [List.mem_cons]
              constructor
              · rintro ((rfl | hq) | hq)
                · exact Or.inr (Or.inl rfl)
                · exact Or.inl hq
                · exact Or.inr (Or.inr hq)
              · rintro (hq | rfl | hq)
                · exact Or.inl (Or.inr hq)
                · exact Or.inl (Or.inl rfl)
                · exact Or.inr hq
            · intro q hq
              simp only [List.mem_cons] at hq
              rcases hq with rfl | hq
              · exact ⟨by simpa using hne, by simpa using hc⟩
              · exact hloc q hq

theorem allPairs_eq (fs : List File) : allPairs fs = pairs fs := rfl

theorem mem_nsNames_of_pair {fs : List File} {ns : String} {d : Decl} (h : (ns, d) ∈ allPairs fs) :
    ns ∈ nsNames fs [] :=
  ns_of_decl (mem_declsOf.mpr (by rw [← allPairs_eq]; exact h))

theorem mem_importPairs {fs : List File} {p : String × String} : p ∈ importPairs fs ↔ (p.1, Decl.imp p.2) ∈ allPairs fs := by
  unfold importPairs
  simp only [List.mem_filterMap]
  constructor
  · rintro ⟨⟨ns, d⟩, hm, hd⟩
    cases d <;> simp [importOf] at hd
    subst hd
    exact hm
  · intro h
    exact ⟨_, h, by simp [importOf]⟩

/-- **imports.** pass 2 accepts exactly the inputs whose imports obey the rules -/
theorem imports_ok_iff (fs : List File) : isOk (addImportsFiles (nsNames fs []) [] fs) = importsLegal fs := by
  rw [Bool.eq_iff_iff, importsLegal_iff, addImportsFiles_fold]
  constructor
  · intro hok
    cases hf : foldImports (nsNames fs []) [] (importPairs fs) with
    | error e => rw [hf] at hok; cases hok
    | ok I' =>
      have hA0 : Gr.Acyclic (importsOf ([] : List (String × String))) := by
        intro a p
        cases p with
        | single he => simp [importsOf] at he
        | cons he _ => simp [importsOf] at he
      obtain ⟨hA, hmem, hloc⟩ := foldImports_acyclic hf hA0
      have hsame : ∀ x y, y ∈ importsOf (importPairs fs) x → y ∈ importsOf I' x := by
        intro x y hy
        rw [mem_importsOf] at hy ⊢
        exact (hmem _).mpr (Or.inr hy)
      have hAG : Gr.Acyclic (importsOf (importPairs fs)) := fun a p => hA a (p.mono hsame)
      intro p hp
      obtain ⟨h1, h2⟩ := hloc p hp
      refine ⟨h1, h2, ?_⟩
      rw [Gr.anyTri_no_iff]
      intro m hm
      apply Gr.search_no_of_acyclic (dom := nsNames fs []) hAG
      · intro x hx
        cases hs : importsOf (importPairs fs) x with
        | nil => exact absurd hs hx
        | cons y l =>
          have : y ∈ importsOf (importPairs fs) x := by rw [hs]; exact List.mem_cons_self
          rw [mem_importsOf, mem_importPairs] at this
          exact mem_nsNames_of_pair this
      · omega
      · intro hr
        have he : p.2 ∈ importsOf (importPairs fs) p.1 := mem_importsOf.mpr hp
        exact hAG p.1 (.cons he (Gr.path_of_edge_reach hm hr))
  · intro hG
    obtain ⟨I', hI'⟩ := foldImports_ok_of_legal hG (ps := importPairs fs) (I := []) (fun p hp => hp) (by simp)
    rw [hI']; rfl

end StoneVerif.FeCompile.L
