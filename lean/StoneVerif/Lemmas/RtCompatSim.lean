import StoneVerif.Lemmas.RtCompatVal
import StoneVerif.Lemmas.RtWireMain
/-!
Helper lemmas for C07, part 4: `decode_struct` of the newer spec simulated by `decode_struct` of the older one —
whenever B's table loop succeeds on the decoded members, A's loop succeeds on their A-views and leaves the A-view
of B's instance.
-/
namespace StoneVerif.Rt.Compat
open StoneVerif.Rt

theorem filterMap_congr' {α β} {f g : α → Option β} : ∀ {l : List α}, (∀ x ∈ l, f x = g x) → l.filterMap f = l.filterMap g
  | [], _ => rfl
  | a :: l, h => by
    simp only [List.filterMap_cons, h a List.mem_cons_self,
      filterMap_congr' (l := l) (fun x hx => h x (List.mem_cons_of_mem _ hx))]

/-! ### one field -/

theorem storeVal_sub (E : Ext) {ρ : Rho} {A B : Env} (cx : Ctx ρ A B) {f g : FieldDef} (hsub : fieldSub ρ f g = true)
    (hw : tyWF A f.ty = true) (x : PyVal) (o : Option PyVal) (h : storeVal E B g x = .ok o) :
    storeVal E A f (view ρ A f.ty x) = .ok (o.map (view ρ A f.ty)) := by
  obtain ⟨hty, _, hnul, hud, _⟩ := fieldSub_parts hsub
  unfold storeVal at h ⊢
  rw [isNoneV_view, hnul, hud]
  by_cases h1 : (g.attrNullable && isNoneV x) = true
  · simp only [h1, if_true, Except.ok.injEq] at h ⊢
    subst h; rfl
  · simp only [h1, Bool.false_eq_true, if_false] at h ⊢
    by_cases h2 : g.attrUserDefined = true
    · simp only [h2, if_true] at h ⊢
      cases hv : validateTypeOnly B g.ty x with
      | error e => simp [hv, Except.map] at h
      | ok u =>
        simp only [hv, Except.map, Except.ok.injEq] at h
        subst h
        simp [validateTypeOnly_sub cx hty hw x hv, Except.map]
    · simp only [h2, Bool.false_eq_true, if_false] at h ⊢
      cases hv : validate E B g.ty x with
      | error e => simp [hv, Except.map] at h
      | ok x' =>
        simp only [hv, Except.map, Except.ok.injEq] at h
        subst h
        simp [validate_sub E cx x f.ty g.ty x' hty hw hv, Except.map]

/-- the decoded member of name `name`: whatever B decoded, A decoded its A-view (at type `tA`) -/
def ChildRel (ρ : Rho) (A : Env) (cA cB : List (String × R PyVal)) (name : String) (tA : PTy) : Prop :=
  match childLookup name cB with
  | some (.ok x) => childLookup name cA = some (.ok (view ρ A tA x))
  | some (.error _) => True
  | none => childLookup name cA = none

theorem fieldStep_sub (E : Ext) {ρ : Rho} {A B : Env} (cx : Ctx ρ A B) {f g : FieldDef} (hsub : fieldSub ρ f g = true)
    (hw : tyWF A f.ty = true) {cA cB : List (String × R PyVal)} (hch : ChildRel ρ A cA cB f.name f.ty)
    (o : Option PyVal) (h : fieldStep E B cB g = .ok o) :
    fieldStep E A cA f = .ok (o.map (view ρ A f.ty)) := by
  have hname := fieldSub_name hsub
  have hty := (fieldSub_parts hsub).1
  unfold fieldStep at h ⊢
  unfold ChildRel at hch
  rw [hname] at hch ⊢
  cases hc : childLookup g.name cB with
  | none =>
    simp only [hc] at h hch
    rw [hch]
    simp only [hasDefault_sub cx hty hw]
    by_cases hd : hasDefault B g.ty = true
    · simp only [hd, if_true] at h ⊢
      rw [← view_getDefault cx hty]
      exact storeVal_sub E cx hsub hw _ o h
    · simp only [hd, Bool.false_eq_true, if_false, Except.ok.injEq] at h ⊢
      subst h; rfl
  | some r =>
    cases r with
    | error e => simp [hc] at h
    | ok x =>
      simp only [hc] at h hch
      rw [hch]
      exact storeVal_sub E cx hsub hw x o h

/-! ### the whole struct -/

theorem finishStruct_eq (E : Ext) (env : Env) (hwf : envWF env = true) (strict : Bool) {cls : String} {s : StructDef}
    (hs : env.struct? cls = some s) (kvs : List (String × JVal)) (children : List (String × R PyVal)) :
    finishStruct E env [] strict cls kvs children =
      if strict && kvs.any (fun kx => !((publicFields env cls).map (·.name)).contains kx.1 && !kx.1.startsWith ".tag")
      then verr "unknown field"
      else match runFields E env children (publicFields env cls) with
        | .error e => .error e
        | .ok slots =>
          if (publicFields env cls).all fun f => attrHas f slots then .ok (.struct cls slots)
          else verr "missing required field" := by
  unfold finishStruct
  simp only [hs, fieldsFor_eq_publicFields hs]
  rw [finishFields_run E env children _ [] (publicFields_nodup hwf cls) (fun _ _ => rfl)]
  split
  · rfl
  · cases runFields E env children (publicFields env cls) with
    | error e => rfl
    | ok slots => simp

/-! ### documents without anything unknown -/

theorem table_contains (fields : List FieldDef) (k : String) :
    ((fields.map fun f => (f.name, f.ty)).find? (·.1 == k)).isSome = (fields.map (·.name)).contains k := by
  induction fields with
  | nil => rfl
  | cons f rest ih =>
    simp only [List.map_cons, List.find?_cons, List.contains_cons]
    by_cases h : f.name = k
    · simp [h]
    · have h1 : (f.name == k) = false := by simpa using h
      have h2 : (k == f.name) = false := by simpa using fun h' => h h'.symm
      simp only [h1, h2, Bool.false_or]
      exact ih

/-- no member outside the table (the discriminator aside): the strict check of `decode_struct` passes -/
theorem knownMembers_strict_ok (A : Env) (c : String) : ∀ (kvs : List (String × JVal)),
    knownMembers A (structTable A c) kvs = true →
    kvs.any (fun kx => !((publicFields A c).map (·.name)).contains kx.1 && !kx.1.startsWith ".tag") = false
  | [], _ => rfl
  | (k, x) :: rest, h => by
    simp only [knownMembers, Bool.and_eq_true] at h
    have ih := knownMembers_strict_ok A c rest h.2
    simp only [List.any_cons, ih, Bool.or_false]
    have h1 := h.1
    rw [← table_contains]
    unfold structTable at h1
    cases hf : ((publicFields A c).map fun f => (f.name, f.ty)).find? (·.1 == k) with
    | some p => simp
    | none => simp only [hf] at h1; simp [h1]

/-- `finishStruct` for a pair of classes whose visible field tables are related -/
theorem finishStruct_sub (E : Ext) {ρ : Rho} {A B : Env} (cx : Ctx ρ A B) {a b : String} {sa sb : StructDef}
    (hsa : A.struct? a = some sa) (hsb : B.struct? b = some sb)
    (hcommon : ∀ f ∈ publicFields A a, ∃ g ∈ publicFields B b, fieldSub ρ f g = true)
    (kvs : List (String × JVal)) {cA cB : List (String × R PyVal)}
    (hch : ∀ f ∈ publicFields A a, ChildRel ρ A cA cB f.name f.ty) (sA sB : Bool) (w : PyVal)
    (hk : sA = true → knownMembers A (structTable A a) kvs = true)
    (h : finishStruct E B [] sB b kvs cB = .ok w) :
    ∃ slotsB, w = .struct b slotsB ∧
      finishStruct E A [] sA a kvs cA =
        .ok (.struct a (orderSlots (publicFields A a) (viewSlots ρ A (publicFields A a) slotsB))) := by
  have hnA := publicFields_nodup cx.wfA a
  have hnB := publicFields_nodup cx.wfB b
  rw [finishStruct_eq E B cx.wfB sB hsb] at h
  rw [finishStruct_eq E A cx.wfA sA hsa]
  have hstrict : (sA && kvs.any (fun kx => !((publicFields A a).map (·.name)).contains kx.1 && !kx.1.startsWith ".tag")) = false := by
    cases sA with
    | false => rfl
    | true => rw [Bool.true_and]; exact knownMembers_strict_ok A a kvs (hk rfl)
  split at h
  · cases h
  · cases hrun : runFields E B cB (publicFields B b) with
    | error e => simp [hrun] at h
    | ok slotsB =>
      simp only [hrun] at h
      split at h
      · rename_i hall
        cases h
        refine ⟨slotsB, rfl, ?_⟩
        have hsteps := runFields_steps E B cB _ slotsB hrun hnB
        -- every field of A's table: one step, on the A-view of what B stored
        have hA : ∀ f ∈ publicFields A a, fieldStep E A cA f =
            .ok ((lookupSlot f.name slotsB).map (view ρ A f.ty)) := by
          intro f hf
          obtain ⟨g, hg, hsub⟩ := hcommon f hf
          have := fieldStep_sub E cx hsub (publicFields_tyWF cx.wfA hf) (hch f hf) _ (hsteps g hg)
          rw [fieldSub_name hsub]; exact this
        have hrunA := runFields_of_steps E A cA (fun f => (lookupSlot f.name slotsB).map (view ρ A f.ty)) _ hA
        have hslots : (publicFields A a).filterMap (fun f => ((lookupSlot f.name slotsB).map (view ρ A f.ty)).map fun y => (f.name, y)) =
            orderSlots (publicFields A a) (viewSlots ρ A (publicFields A a) slotsB) := by
          unfold orderSlots
          apply filterMap_congr'
          intro f hf
          rw [lookupSlot_viewSlots, find_name_of_mem hnA hf]
        simp only [hstrict, Bool.false_eq_true, if_false, hrunA, hslots]
        have hallA : ((publicFields A a).all fun f =>
            attrHas f (orderSlots (publicFields A a) (viewSlots ρ A (publicFields A a) slotsB))) = true := by
          rw [List.all_eq_true]
          intro f hf
          obtain ⟨g, hg, hsub⟩ := hcommon f hf
          have hp := fieldSub_parts hsub
          exact attrHas_orderView ρ A hnA slotsB (fieldSub_name hsub) hp.2.2.1 hp.2.2.2.2
            (List.mem_map.mpr ⟨f, hf, rfl⟩) (List.all_eq_true.mp hall g hg)
        simp [hallA]
      · cases h

end StoneVerif.Rt.Compat
