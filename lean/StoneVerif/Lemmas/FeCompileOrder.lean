import StoneVerif.Lemmas.FeCompileClosed
set_option linter.unusedSimpArgs false
/-!
The image of a declaration does not depend on where it stands: two accepted inputs with the same declarations per
namespace (any distribution over files, any order) give every (namespace, name) the same type and the same alias.
-/
namespace StoneVerif.FeCompile

/-- the same declarations in every namespace, whatever the files and the order -/
def SameDecls (fs fs' : List File) : Prop := ∀ ns d, d ∈ declsOf fs ns ↔ d ∈ declsOf fs' ns

namespace L
open StoneVerif.FeParams (TyKind)

theorem SameDecls.symm {fs fs'} (h : SameDecls fs fs') : SameDecls fs' fs := fun ns d => (h ns d).symm

theorem itemOf_inj {d d' : Decl} {n} (hn : declName d = some n) (hn' : declName d' = some n) (h : itemOf d = itemOf d') :
    d = d' := by
  cases d <;> cases d' <;> simp [itemOf, declName] at h hn hn' ⊢
  · exact h
  · subst hn hn'; exact ⟨rfl, h⟩

/-- under unique names (an accepted input) the definition found by name is found in any arrangement -/
theorem findDef_congr {E E' fs fs'} (hE : EnvOK E fs) (hE' : EnvOK E' fs') (hs : SameDecls fs fs') (ns n : String) :
    findDef fs ns n = findDef fs' ns n := by
  have one : ∀ {E E' fs fs'}, EnvOK E fs → EnvOK E' fs' → SameDecls fs fs' → ∀ d, findDef fs ns n = some d →
      findDef fs' ns n = some d := by
    intro E E' fs fs' hE hE' hs d hf
    obtain ⟨hm, hn⟩ := findDef_mem hf
    have hm' := (hs ns d).mp hm
    have hl' := hE'.lookup_decl hm' hn
    obtain ⟨i, hi, _⟩ := itemOf_some_of_name hn
    rw [hi] at hl'
    have hcase : (∃ td, i = .type td) ∨ (∃ r, i = .alias r) := by
      cases d <;> simp [itemOf] at hi <;> subst hi <;> simp
    obtain ⟨d', hf', hd'⟩ := hE'.findDef_of_lookup hl' hcase
    rw [hf']
    have := itemOf_inj (findDef_mem hf').2 hn (by rw [hd', hi])
    rw [this]
  cases hf : findDef fs ns n with
  | some d => exact (one hE hE' hs d hf).symm
  | none =>
    cases hf' : findDef fs' ns n with
    | none => rfl
    | some d' =>
      have := one hE' hE (SameDecls.symm hs) d' hf'
      rw [hf] at this; cases this

theorem imported_congr {fs fs'} (hs : SameDecls fs fs') (ns q : String) : imported fs ns q = imported fs' ns q := by
  unfold imported specDecls
  rw [Bool.eq_iff_iff, List.contains_iff_mem, List.contains_iff_mem]
  exact hs ns _

theorem meaningIn_congr {E E' fs fs'} (hE : EnvOK E fs) (hE' : EnvOK E' fs') (hs : SameDecls fs fs') (ns n : String) :
    meaningIn fs ns n = meaningIn fs' ns n := by
  unfold meaningIn
  rw [findDef_congr hE hE' hs]

theorem headMeaning_congr {E E' fs fs'} (hE : EnvOK E fs) (hE' : EnvOK E' fs') (hs : SameDecls fs fs') (cur : String)
    (h : RefHead) : headMeaning fs cur h = headMeaning fs' cur h := by
  unfold headMeaning
  split
  · rw [imported_congr hs, meaningIn_congr hE hE' hs]
  · rw [meaningIn_congr hE hE' hs]

theorem denoteRef_congr {rx E E' fs fs'} (hE : EnvOK E fs) (hE' : EnvOK E' fs') (hs : SameDecls fs fs') :
    ∀ (r : TRef) (cur : String), denoteRef rx fs cur r = denoteRef rx fs' cur r
  | .leaf h lits, cur => by
    simp only [denoteRef, headMeaning_congr hE hE' hs]
  | .app1 h a, cur => by
    simp only [denoteRef, headMeaning_congr hE hE' hs]
    split
    · rw [denoteRef_congr hE hE' hs a]
    · rfl
  | .app2 h a b, cur => by
    simp only [denoteRef, headMeaning_congr hE hE' hs]
    split
    · rw [denoteRef_congr hE hE' hs a, denoteRef_congr hE hE' hs b]
    · rfl

theorem optMapM_congr {α β} {g g' : α → Option β} (h : ∀ x, g x = g' x) : ∀ l, optMapM g l = optMapM g' l
  | [] => rfl
  | x :: l => by simp only [optMapM, h x, optMapM_congr h l]

theorem denoteType_congr {rx E E' fs fs'} (hE : EnvOK E fs) (hE' : EnvOK E' fs') (hs : SameDecls fs fs')
    (ns : String) (d : TypeDecl) : denoteType rx fs ns d = denoteType rx fs' ns d := by
  have hp : denoteParent rx fs ns d = denoteParent rx fs' ns d := by
    unfold denoteParent
    split
    · rfl
    · rw [denoteRef_congr hE hE' hs]
  have hf : ∀ b, optMapM (denoteField rx fs ns b) d.fields = optMapM (denoteField rx fs' ns b) d.fields := by
    intro b
    apply optMapM_congr
    intro f
    unfold denoteField
    split
    · rfl
    · rw [denoteRef_congr hE hE' hs]
  have ho : ∀ p, inheritsOther fs p = inheritsOther fs' p := by
    intro p
    unfold inheritsOther
    split
    · unfold isOpenUnion; rw [findDef_congr hE hE' hs]
    · rfl
  unfold denoteType
  rw [hp, hf]
  simp only [ho]

/-! ## the Api entry under a key -/

theorem denoteNs_of_ns? {rx fs api ns o} (h : denoteCore rx fs = some api) (ho : api.ns? ns = some o) :
    denoteNs rx fs ns = some o := by
  unfold denoteCore at h
  cases hm : optMapM (denoteNs rx fs) (nsNames fs []) with
  | none => simp [hm] at h
  | some outs =>
    simp [hm] at h
    subst h
    unfold Api.ns? at ho
    simp only at ho
    have hmem := List.mem_of_find?_eq_some ho
    have hname := List.find?_some ho
    simp only [beq_iff_eq] at hname
    obtain ⟨ns', _, hden⟩ := optMapM_mem hm o hmem
    have := (denoteNs_good hden).name
    rw [hname] at this
    subst this
    exact hden

theorem denoteNs_types {rx fs ns o} (h : denoteNs rx fs ns = some o) :
    optMapM (fun d => (denoteType rx fs ns d).map fun c => (d.name, c)) (typeDecls (declsOf fs ns)) = some o.types ∧
    optMapM (fun (p : String × TRef) => (denoteRef rx fs ns p.2).map fun t => (p.1, t)) (aliasDecls (declsOf fs ns)) =
      some o.aliases := by
  unfold denoteNs specDecls at h
  simp only at h
  split at h
  · rename_i types aliases routes enums ht ha hr he
    cases h
    exact ⟨ht, ha⟩
  · cases h

/-- the type the Api holds under (ns, n) is the image of a declaration of that name in that namespace, and of
every such declaration (there is only one in an accepted input) -/
theorem type?_iff {rx E fs api} (hE : EnvOK E fs) (h : denoteCore rx fs = some api) (ns n : String) (c : CType) :
    api.type? (ns, n) = some c ↔ ∃ d, Decl.type d ∈ declsOf fs ns ∧ d.name = n ∧ denoteType rx fs ns d = some c := by
  have fwd : ∀ c, api.type? (ns, n) = some c →
      ∃ d, Decl.type d ∈ declsOf fs ns ∧ d.name = n ∧ denoteType rx fs ns d = some c := by
    intro c hc
    unfold Api.type? at hc
    cases ho : api.ns? ns with
    | none => simp [ho] at hc
    | some o =>
      simp [ho] at hc
      obtain ⟨ht, _⟩ := denoteNs_types (denoteNs_of_ns? h ho)
      obtain ⟨d, hd, hg⟩ := optMapM_mem ht _ (mem_of_lookup hc)
      cases hdt : denoteType rx fs ns d with
      | none => simp [hdt] at hg
      | some c' =>
        simp [hdt] at hg
        exact ⟨d, mem_typeDecls.mp hd, hg.1, by rw [hdt, hg.2]⟩
  constructor
  · exact fwd c
  · rintro ⟨d, hd, hn, hden⟩
    have hty : IsType fs (ns, n) := ⟨d, hd, hn⟩
    have hs := hasType_of_isType h hty
    unfold Api.hasType at hs
    cases hc' : api.type? (ns, n) with
    | none => simp [hc'] at hs
    | some c' =>
      obtain ⟨d', hd', hn', hden'⟩ := fwd c' hc'
      have h1 := hE.lookup_decl hd (n := n) (by simp [declName, hn])
      have h2 := hE.lookup_decl hd' (n := n) (by simp [declName, hn'])
      rw [h1] at h2
      simp [itemOf] at h2
      subst h2
      rw [hden] at hden'
      rw [hden']

theorem alias?_iff {rx E fs api} (hE : EnvOK E fs) (h : denoteCore rx fs = some api) (ns n : String) (t : Ty) :
    api.alias? (ns, n) = some t ↔ ∃ r, Decl.alias n r ∈ declsOf fs ns ∧ denoteRef rx fs ns r = some t := by
  have fwd : ∀ t, api.alias? (ns, n) = some t → ∃ r, Decl.alias n r ∈ declsOf fs ns ∧ denoteRef rx fs ns r = some t := by
    intro t hc
    unfold Api.alias? at hc
    cases ho : api.ns? ns with
    | none => simp [ho] at hc
    | some o =>
      simp [ho] at hc
      obtain ⟨_, ha⟩ := denoteNs_types (denoteNs_of_ns? h ho)
      obtain ⟨p, hp, hg⟩ := optMapM_mem ha _ (mem_of_lookup hc)
      cases hdt : denoteRef rx fs ns p.2 with
      | none => simp [hdt] at hg
      | some t' =>
        simp [hdt] at hg
        obtain ⟨pn, pr⟩ := p
        simp only at hg hdt
        obtain ⟨rfl, rfl⟩ := hg
        exact ⟨pr, mem_aliasDecls.mp hp, hdt⟩
  constructor
  · exact fwd t
  · rintro ⟨r, hd, hden⟩
    have hs := hasAlias_of_isAlias h (k := (ns, n)) ⟨r, hd⟩
    unfold Api.hasAlias at hs
    cases hc' : api.alias? (ns, n) with
    | none => simp [hc'] at hs
    | some t' =>
      obtain ⟨r', hd', hden'⟩ := fwd t' hc'
      have h1 := hE.lookup_decl hd (n := n) rfl
      have h2 := hE.lookup_decl hd' (n := n) rfl
      rw [h1] at h2
      simp [itemOf] at h2
      subst h2
      rw [hden] at hden'
      rw [hden']

theorem option_ext {α} {x y : Option α} (h : ∀ a, x = some a ↔ y = some a) : x = y := by
  cases x with
  | none =>
    cases y with
    | none => rfl
    | some b => exact ((h b).mpr rfl)
  | some a => exact ((h a).mp rfl).symm

theorem compile_order_independent {rx fs fs' api api'} (h : compileCore rx fs = .ok api) (h' : compileCore rx fs' = .ok api')
    (hs : SameDecls fs fs') (k : Key) : api.type? k = api'.type? k ∧ api.alias? k = api'.alias? k := by
  have hd := compile_denote h
  have hd' := compile_denote h'
  have env : ∀ {fs api}, compileCore rx fs = .ok api → ∃ E, EnvOK E fs := by
    intro fs api h
    unfold compileCore at h
    split at h
    · cases h
    · rename_i E hb; exact ⟨E, buildEnv_ok hb⟩
  obtain ⟨E, hE⟩ := env h
  obtain ⟨E', hE'⟩ := env h'
  obtain ⟨ns, n⟩ := k
  refine ⟨option_ext fun c => ?_, option_ext fun t => ?_⟩
  · rw [type?_iff hE hd, type?_iff hE' hd']
    constructor
    · rintro ⟨d, hm, hn, hden⟩
      exact ⟨d, (hs ns _).mp hm, hn, by rw [← denoteType_congr hE hE' hs]; exact hden⟩
    · rintro ⟨d, hm, hn, hden⟩
      exact ⟨d, (hs ns _).mpr hm, hn, by rw [denoteType_congr hE hE' hs]; exact hden⟩
  · rw [alias?_iff hE hd, alias?_iff hE' hd']
    constructor
    · rintro ⟨r, hm, hden⟩
      exact ⟨r, (hs ns _).mp hm, by rw [← denoteRef_congr hE hE' hs]; exact hden⟩
    · rintro ⟨r, hm, hden⟩
      exact ⟨r, (hs ns _).mpr hm, by rw [denoteRef_congr hE hE' hs]; exact hden⟩

end L
end StoneVerif.FeCompile
