import StoneVerif.Lemmas.FeCompileLegalRest
set_option linter.unusedSimpArgs false
/-!
A set of spec files that obeys every rule is never refused by the compileCore model.
-/
namespace StoneVerif.FeCompile.L
open StoneVerif.FeCompile

theorem Legal_parts {rx fs} (h : LegalCore rx fs = true) : namesLegal fs = true ∧ importsLegal fs = true ∧ DeclsLegal rx fs := by
  unfold LegalCore at h
  simp only [Bool.and_eq_true, List.all_eq_true] at h
  exact ⟨h.1.1, h.1.2, h.2⟩

theorem buildEnv_ok_iff (fs : List File) (hl : nsLexical fs = true) :
    isOk (buildEnv fs) = (namesLegal fs && importsLegal fs) := by
  unfold buildEnv
  have h1 := regFiles_ok_iff fs hl
  cases hr : regFiles {} fs with
  | error e =>
    rw [hr] at h1
    simp only [isOk] at h1
    simp only [isOk, ← h1, Bool.false_and]
  | ok st =>
    rw [hr] at h1
    have hn : st.nss = nsNames fs [] := (regFiles_inv (P := []) RegInv.nil hr).2
    simp only [isOk] at h1
    simp only [← h1, hn, Bool.true_and, ← imports_ok_iff]
    cases addImportsFiles (nsNames fs []) [] fs <;> rfl

/-- **never refused**: legal spec files (namespace names being identifiers) are compiled -/
theorem legal_compile_ok {rx fs} (hl : nsLexical fs = true) (h : LegalCore rx fs = true) : ∃ api, compileCore rx fs = .ok api := by
  obtain ⟨hn, hi, hd⟩ := Legal_parts h
  have hb := buildEnv_ok_iff fs hl
  rw [hn, hi] at hb
  unfold compileCore
  cases hE : buildEnv fs with
  | error e => rw [hE] at hb; cases hb
  | ok E =>
    simp only
    exact compileEnv_ok (buildEnv_ok2 hE) hd

end StoneVerif.FeCompile.L
