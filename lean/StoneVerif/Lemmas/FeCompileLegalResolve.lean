import StoneVerif.Lemmas.FeCompileLegalEnv
set_option linter.unusedSimpArgs false
/-!
`_resolve_type` of the compileCore model against the specification-level reading of a reference, both ways: it succeeds
exactly on the references that are well formed (`refStatic`) and whose `?` stand on something that is not nullable /
Void as far as the aliases set at that moment show.
-/
namespace StoneVerif.FeCompile.L
open StoneVerif.FeCompile
open StoneVerif.FeParams (TyKind TyVal Arg)

/-! ## type-valued positional arguments -/

theorem inst_construct {rx k pos kw tv} (h : FeParams.instantiate rx k pos kw = .ok tv) :
    FeParams.construct rx k pos kw = .ok tv := by
  unfold FeParams.instantiate at h
  split at h
  · cases h
  · simp only at h
    split at h
    · cases h
    · split at h
      · cases h
      · split at h
        · cases h
        · exact h

theorem con_one {rx k b kw tv} (h : FeParams.construct rx k [Arg.ty b] kw = .ok tv) : ∃ e mn mx, tv = .list e mn mx := by
  cases k <;> simp [FeParams.construct, FeParams.bad, Arg.isTy] at h
  simp only [bind, Except.bind] at h
  split at h
  · cases h
  · split at h
    · cases h
    · split at h
      · cases h
      · cases h; exact ⟨_, _, _, rfl⟩

theorem con_two {rx k b1 b2 kw tv} (h : FeParams.construct rx k [Arg.ty b1, Arg.ty b2] kw = .ok tv) :
    ∃ a b, tv = .map a b := by
  cases k <;> simp [FeParams.construct, FeParams.bad, Arg.isTy] at h
  split at h
  · cases h; exact ⟨_, _, rfl⟩
  · cases h

theorem builtinMeaning_one {rx k ta kw t} (h : builtinMeaning rx k [ta] [] kw = some t) : ∃ mn mx, t = .list ta mn mx := by
  unfold builtinMeaning at h
  split at h
  · rename_i tv htv
    cases h
    obtain ⟨e, mn, mx, rfl⟩ := con_one (inst_construct (by simpa using htv))
    exact ⟨mn, mx, rfl⟩
  · cases h

theorem builtinMeaning_two {rx k ta tb kw t} (h : builtinMeaning rx k [ta, tb] [] kw = some t) : t = .map ta tb := by
  unfold builtinMeaning at h
  split at h
  · rename_i tv htv
    cases h
    obtain ⟨a, b, rfl⟩ := con_two (inst_construct (by simpa using htv))
    rfl
  · cases h

theorem instBuiltin_of_meaning {rx k tys lits kw t} (h : builtinMeaning rx k tys lits kw = some t) :
    instBuiltin rx k tys lits kw = .ok t := by
  unfold builtinMeaning at h
  unfold instBuiltin
  split at h
  · rename_i tv htv; cases h; rw [htv]
  · cases h

/-! ## the head of a reference -/

theorem headLookup_lookup {E cur h ens e} (hl : headLookup E cur h = .ok (ens, e)) : E.lookup ens h.name = some e := by
  unfold headLookup at hl
  split at hl
  · split at hl
    · cases hl
    · split at hl
      · cases hl
      · rename_i e' he'; cases hl; exact he'
    · cases hl
  · split at hl
    · cases hl
    · rename_i e' he'; cases hl; exact he'

theorem not_shadowed {E : Env} {ens name e} (hl : E.lookup ens name = some e) (hns : ∀ t, e ≠ .ns t) :
    E.imports.contains (ens, name) = false := by
  unfold Env.lookup at hl
  split at hl
  · cases hl; exact absurd rfl (hns name)
  · rename_i hc; simpa using hc

/-- what the environment holds, where the specification level sees a meaning -/
def Match (ens name : String) (e : Entry) : Meaning → Prop
  | .builtin k => e = .builtin k
  | .user key => key = (ens, name) ∧ ∃ d, e = .item (.type d)
  | .alias key => key = (ens, name) ∧ ∃ r, e = .item (.alias r)

theorem headS_of_lookup {E fs} (hE : EnvOK2 E fs) {cur h ens e} (hl : headLookup E cur h = .ok (ens, e)) {m}
    (hm : Match ens h.name e m) : headS fs cur h = some (ens, m) := by
  have hlk := headLookup_lookup hl
  have hns : ∀ t, e ≠ .ns t := by
    intro t he; subst he
    cases m <;> simp [Match] at hm
  have hsh := not_shadowed hlk hns
  rw [hE.ok.imported_iff] at hsh
  have hmean := headMeaning_of_lookup hE.ok hl
  unfold headS
  cases m with
  | builtin k =>
    simp only [Match] at hm
    rw [hmean.1 k hm]; simp [hsh]
  | user key =>
    obtain ⟨rfl, d, he⟩ := hm
    rw [hmean.2.1 d he]; simp [hsh]
  | «alias» key =>
    obtain ⟨rfl, r, he⟩ := hm
    rw [hmean.2.2 r he]; simp [hsh]

theorem findDef_named {fs ns n d} (h : findDef fs ns n = some d) : (∃ td, d = .type td ∧ td.name = n) ∨ (∃ r, d = .alias n r) := by
  obtain ⟨_, hn⟩ := findDef_mem h
  cases d <;> simp [declName] at hn
  · exact Or.inl ⟨_, rfl, hn⟩
  · subst hn; exact Or.inr ⟨_, rfl⟩

theorem lookup_of_meaning {E fs} (hE : EnvOK2 E fs) {ens name m} (hsh : imported fs ens name = false)
    (hm : meaningIn fs ens name = some m) : ∃ e, E.lookup ens name = some e ∧ Match ens name e m := by
  have hc : E.imports.contains (ens, name) = false := by rw [hE.ok.imported_iff]; exact hsh
  unfold Env.lookup
  simp only [hc, Bool.false_eq_true, ↓reduceIte]
  unfold meaningIn at hm
  unfold lookupSym
  cases hf : findDef fs ens name with
  | some d =>
    obtain ⟨hmem, hn⟩ := findDef_mem hf
    have hl := hE.ok.lookup_decl hmem hn
    rcases findDef_named hf with ⟨td, rfl, _⟩ | ⟨r, rfl⟩
    · rw [hf] at hm
      simp only [Option.some.injEq] at hm
      subst hm
      simp only [itemOf] at hl
      rw [hl]
      exact ⟨_, rfl, rfl, td, rfl⟩
    · rw [hf] at hm
      simp only [Option.some.injEq] at hm
      subst hm
      simp only [itemOf] at hl
      rw [hl]
      exact ⟨_, rfl, rfl, r, rfl⟩
  | none =>
    rw [hf] at hm
    simp only at hm
    cases hk : TyKind.ofName? name with
    | none => simp [hk] at hm
    | some k =>
      simp only [hk, Option.map_some, Option.some.injEq] at hm
      subst hm
      have hnone : E.items.lookup (ens, name) = none := by
        cases hi : E.items.lookup (ens, name) with
        | none => rfl
        | some i =>
          have := hE.inv2.nobuiltin ens name (by rw [hi]; rfl)
          rw [hk] at this; cases this
      rw [hnone]
      exact ⟨_, rfl, rfl⟩

theorem lookup_of_headS {E fs} (hE : EnvOK2 E fs) {cur h ens m} (hs : headS fs cur h = some (ens, m)) :
    ∃ e, headLookup E cur h = .ok (ens, e) ∧ Match ens h.name e m := by
  unfold headS at hs
  cases hm : headMeaning fs cur h with
  | none => simp [hm] at hs
  | some p =>
    obtain ⟨ens', m'⟩ := p
    simp only [hm] at hs
    split at hs
    · cases hs
    · rename_i hsh
      simp only [Option.some.injEq, Prod.mk.injEq] at hs
      obtain ⟨rfl, rfl⟩ := hs
      have hsh' : imported fs ens' h.name = false := by simpa using hsh
      unfold headMeaning at hm
      unfold headLookup
      split at hm
      · rename_i q hq
        split at hm
        · rename_i himp
          cases hmi : meaningIn fs q h.name with
          | none => simp [hmi] at hm
          | some m0 =>
            simp only [hmi, Option.map_some, Option.some.injEq, Prod.mk.injEq] at hm
            obtain ⟨rfl, rfl⟩ := hm
            have hlq : E.lookup cur q = some (.ns q) := by
              unfold Env.lookup
              rw [hE.ok.imported_iff, himp]; rfl
            obtain ⟨e, he, hmatch⟩ := lookup_of_meaning hE hsh' hmi
            simp only [hq, hlq, he]
            exact ⟨e, rfl, hmatch⟩
        · cases hm
      · rename_i hq
        cases hmi : meaningIn fs cur h.name with
        | none => simp [hmi] at hm
        | some m0 =>
          simp only [hmi, Option.map_some, Option.some.injEq, Prod.mk.injEq] at hm
          obtain ⟨rfl, rfl⟩ := hm
          obtain ⟨e, he, hmatch⟩ := lookup_of_meaning hE hsh' hmi
          simp only [hq, he]
          exact ⟨e, rfl, hmatch⟩

theorem headMeaning_of_headS {fs cur h p} (hs : headS fs cur h = some p) : headMeaning fs cur h = some p := by
  unfold headS at hs
  cases hm : headMeaning fs cur h with
  | none => simp [hm] at hs
  | some q =>
    obtain ⟨a, b⟩ := q
    simp only [hm] at hs
    split at hs
    · cases hs
    · exact hs

/-! ## unfolding aliases: the aliases set so far against all of them -/

/-- every target that is set is the one the alias declaration denotes -/
def Below (A : AliasMap) (look : Look) : Prop := ∀ k t, A.lookup k = some t → look k = some t

theorem unwrap_mono {A look} (hA : Below A look) : ∀ (f : Nat) (u : Ty),
    (∀ v, unwrapAliases (lookOf A) f u = .ok (some v) → unwrapAliases look f u = .ok (some v)) ∧
    (∀ e, unwrapAliases (lookOf A) f u = .error e → unwrapAliases look f u = .error e)
  | 0, u => by
    cases u <;> simp [unwrapAliases]
  | f + 1, u => by
    cases u with
    | «alias» k =>
      simp only [unwrapAliases, lookOf]
      cases hl : A.lookup k with
      | none => simp
      | some t =>
        simp only [hA k t hl]
        exact unwrap_mono hA f t
    | prim _ | list _ _ _ | map _ _ | nullable _ | user _ => simp [unwrapAliases]

/-- a `?` that is legal with all aliases unfolded passes the check made with the aliases set so far -/
theorem wrapNull_ok_of_legal {A look fuel b t0} (hA : Below A look)
    (hn : b = true → nullOK look fuel t0 = true) : wrapNull fuel (lookOf A) b t0 = .ok (if b then .nullable t0 else t0) := by
  unfold wrapNull
  cases b with
  | false => simp
  | true =>
    have hn' := hn rfl
    unfold nullOK at hn'
    simp only [Bool.not_true, Bool.false_eq_true, ↓reduceIte]
    have hm := unwrap_mono hA fuel t0
    cases hu : unwrapAliases (lookOf A) fuel t0 with
    | error e => rw [hm.2 e hu] at hn'; simp at hn'
    | ok v =>
      cases v with
      | none => rfl
      | some v =>
        rw [hm.1 v hu] at hn'
        cases v with
        | nullable _ => simp at hn'
        | prim pv =>
          cases pv with
          | plain k => cases k <;> first | rfl | simp at hn'
          | int _ _ _ | float _ _ _ | string _ _ _ | timestamp _ | list _ _ _ | map _ _ => rfl
        | list _ _ _ | map _ _ | user _ | «alias» _ => rfl

theorem nullRefs_nullableMeaning (h : RefHead) (t0 : Ty) :
    nullRefs (nullableMeaning h t0) = if h.nullable then nullRefs t0 ++ [t0] else nullRefs t0 := by
  unfold nullableMeaning
  split <;> simp [nullRefs]

theorem tyNullLegal_meaning {look fuel h t0} (hl : tyNullLegal look fuel (nullableMeaning h t0) = true) :
    tyNullLegal look fuel t0 = true ∧ (h.nullable = true → nullOK look fuel t0 = true) := by
  unfold tyNullLegal at hl ⊢
  rw [nullRefs_nullableMeaning] at hl
  split at hl
  · rename_i hn
    simp only [List.all_append, Bool.and_eq_true, List.all_cons, List.all_nil, Bool.and_true] at hl
    exact ⟨hl.1, fun _ => hl.2⟩
  · rename_i hn
    exact ⟨hl, fun h' => absurd h' hn⟩

/-! ## `_resolve_type` succeeds on what is legal -/

theorem finish_ok_of_legal {A look fuel wrap h t0} (hA : Below A look)
    (hn : h.nullable = true → nullOK look fuel t0 = true) :
    ∃ t, finish fuel (lookOf A) wrap h t0 = .ok t := by
  unfold finish
  split
  · exact ⟨_, wrapNull_ok_of_legal hA hn⟩
  · exact ⟨_, rfl⟩

theorem resolveW_ok_of_legal {rx E fs A} (hE : EnvOK2 E fs) (hA : Below A (aliasS rx fs)) :
    ∀ (r : TRef) {wrap cur t}, refStatic rx fs cur r = true → denoteRef rx fs cur r = some t →
      tyNullLegal (aliasS rx fs) (aliasFuel E) t = true → ∃ t', resolveW rx E A wrap cur r = .ok t'
  | .leaf h lits, wrap, cur, t, hs, hd, hn => by
    simp only [refStatic] at hs
    simp only [denoteRef] at hd
    cases hh : headS fs cur h with
    | none => simp [hh] at hs
    | some p =>
      obtain ⟨ens, m⟩ := p
      obtain ⟨e, hl, hmatch⟩ := lookup_of_headS hE hh
      have hmean := headMeaning_of_headS hh
      rw [hmean] at hd
      cases m with
      | builtin k =>
        simp only [Match] at hmatch
        subst hmatch
        simp only [hh, Bool.and_eq_true, Bool.not_eq_eq_eq_not, Bool.not_true] at hs
        cases hb : builtinMeaning rx k [] lits h.kw with
        | none => simp [hb] at hs
        | some t0 =>
          simp only [hb, Option.map_some, Option.some.injEq] at hd
          subst hd
          obtain ⟨_, hnull⟩ := tyNullLegal_meaning hn
          obtain ⟨t', ht'⟩ := finish_ok_of_legal (wrap := wrap) hA hnull
          refine ⟨t', ?_⟩
          simp only [resolveW, hl]
          have hv : (k == TyKind.void && h.nullable) = false := by simpa [voidNullable] using hs.1
          simp only [hv, Bool.false_eq_true, ↓reduceIte, instBuiltin_of_meaning hb]
          exact ht'
      | user key =>
        obtain ⟨rfl, d, rfl⟩ := hmatch
        simp only [hh, Bool.and_eq_true] at hs
        simp only [Option.some.injEq] at hd
        subst hd
        obtain ⟨_, hnull⟩ := tyNullLegal_meaning hn
        obtain ⟨t', ht'⟩ := finish_ok_of_legal (wrap := wrap) hA hnull
        refine ⟨t', ?_⟩
        simp only [resolveW, hl, nonClass]
        have : (!lits.isEmpty || !h.kw.isEmpty) = false := by simp [hs.1, hs.2]
        simp only [this, Bool.false_eq_true, ↓reduceIte]
        exact ht'
      | «alias» key =>
        obtain ⟨rfl, r', rfl⟩ := hmatch
        simp only [hh, Bool.and_eq_true] at hs
        simp only [Option.some.injEq] at hd
        subst hd
        obtain ⟨_, hnull⟩ := tyNullLegal_meaning hn
        obtain ⟨t', ht'⟩ := finish_ok_of_legal (wrap := wrap) hA hnull
        refine ⟨t', ?_⟩
        simp only [resolveW, hl, nonClass]
        have : (!lits.isEmpty || !h.kw.isEmpty) = false := by simp [hs.1, hs.2]
        simp only [this, Bool.false_eq_true, ↓reduceIte]
        exact ht'
  | .app1 h a, wrap, cur, t, hs, hd, hn => by
    simp only [refStatic] at hs
    simp only [denoteRef] at hd
    cases hh : headS fs cur h with
    | none => simp [hh] at hs
    | some p =>
      obtain ⟨ens, m⟩ := p
      obtain ⟨e, hl, hmatch⟩ := lookup_of_headS hE hh
      have hmean := headMeaning_of_headS hh
      rw [hmean] at hd
      cases m with
      | builtin k =>
        simp only [Match] at hmatch
        subst hmatch
        simp only [hh, Bool.and_eq_true, Bool.not_eq_eq_eq_not, Bool.not_true] at hs
        cases hda : denoteRef rx fs ens a with
        | none => simp [hda] at hs
        | some ta =>
          simp only [hda] at hs hd
          cases hb : builtinMeaning rx k [ta] [] h.kw with
          | none => simp [hb] at hs
          | some t0 =>
            simp only [hb, Option.map_some, Option.some.injEq] at hd
            subst hd
            obtain ⟨hn0, hnull⟩ := tyNullLegal_meaning hn
            obtain ⟨mn, mx, rfl⟩ := builtinMeaning_one hb
            have hna : tyNullLegal (aliasS rx fs) (aliasFuel E) ta = true := by
              simpa [tyNullLegal, nullRefs] using hn0
            obtain ⟨ta', hta'⟩ := resolveW_ok_of_legal hE hA a (wrap := true) hs.1.2 hda hna
            obtain ⟨ta0, hda', hta0⟩ := resolveW_denote hE.ok a hta'
            simp only [↓reduceIte] at hta0
            rw [hda, ← hta0] at hda'
            cases hda'
            obtain ⟨t', ht'⟩ := finish_ok_of_legal (wrap := wrap) hA hnull
            refine ⟨t', ?_⟩
            simp only [resolveW, hl]
            have hv : (k == TyKind.void && h.nullable) = false := by simpa [voidNullable] using hs.1.1
            simp only [hv, Bool.false_eq_true, ↓reduceIte, hta', instBuiltin_of_meaning hb]
            exact ht'
      | user key => simp [hh] at hs
      | «alias» key => simp [hh] at hs
  | .app2 h a b, wrap, cur, t, hs, hd, hn => by
    simp only [refStatic] at hs
    simp only [denoteRef] at hd
    cases hh : headS fs cur h with
    | none => simp [hh] at hs
    | some p =>
      obtain ⟨ens, m⟩ := p
      obtain ⟨e, hl, hmatch⟩ := lookup_of_headS hE hh
      have hmean := headMeaning_of_headS hh
      rw [hmean] at hd
      cases m with
      | builtin k =>
        simp only [Match] at hmatch
        subst hmatch
        simp only [hh, Bool.and_eq_true, Bool.not_eq_eq_eq_not, Bool.not_true] at hs
        cases hda : denoteRef rx fs ens a with
        | none => simp [hda] at hs
        | some ta =>
          cases hdb : denoteRef rx fs ens b with
          | none => simp [hda, hdb] at hs
          | some tb =>
            simp only [hda, hdb] at hs hd
            cases hb : builtinMeaning rx k [ta, tb] [] h.kw with
            | none => simp [hb] at hs
            | some t0 =>
              simp only [hb, Option.map_some, Option.some.injEq] at hd
              subst hd
              obtain ⟨hn0, hnull⟩ := tyNullLegal_meaning hn
              have := builtinMeaning_two hb
              subst this
              have hnab : tyNullLegal (aliasS rx fs) (aliasFuel E) ta = true ∧
                  tyNullLegal (aliasS rx fs) (aliasFuel E) tb = true := by
                simpa [tyNullLegal, nullRefs, List.all_append] using hn0
              obtain ⟨ta', hta'⟩ := resolveW_ok_of_legal hE hA a (wrap := true) hs.1.1.2 hda hnab.1
              obtain ⟨tb', htb'⟩ := resolveW_ok_of_legal hE hA b (wrap := true) hs.1.2 hdb hnab.2
              obtain ⟨ta0, hda', hta0⟩ := resolveW_denote hE.ok a hta'
              obtain ⟨tb0, hdb', htb0⟩ := resolveW_denote hE.ok b htb'
              simp only [↓reduceIte] at hta0 htb0
              rw [hda, ← hta0] at hda'
              rw [hdb, ← htb0] at hdb'
              cases hda'
              cases hdb'
              obtain ⟨t', ht'⟩ := finish_ok_of_legal (wrap := wrap) hA hnull
              refine ⟨t', ?_⟩
              simp only [resolveW, hl]
              have hv : (k == TyKind.void && h.nullable) = false := by simpa [voidNullable] using hs.1.1.1
              simp only [hv, Bool.false_eq_true, ↓reduceIte, hta', htb', instBuiltin_of_meaning hb]
              exact ht'
      | user key => simp [hh] at hs
      | «alias» key => simp [hh] at hs

/-! ## what `_resolve_type` accepts is well formed -/

theorem resolveW_static {rx E fs A} (hE : EnvOK2 E fs) : ∀ (r : TRef) {wrap cur t},
    resolveW rx E A wrap cur r = .ok t → refStatic rx fs cur r = true
  | .leaf h lits, wrap, cur, t, hr => by
    simp only [resolveW] at hr
    simp only [refStatic]
    split at hr
    · cases hr
    · rename_i ens k hl
      split at hr
      · cases hr
      · rename_i hv
        split at hr
        · cases hr
        · rename_i t0 hi
          rw [headS_of_lookup hE hl (m := .builtin k) rfl]
          have hvn : voidNullable k h = false := by
            unfold voidNullable; exact Bool.eq_false_iff.mpr hv
          simp [hvn, instBuiltin_ok hi]
    · rename_i ens ent hnb hl
      split at hr
      · cases hr
      · rename_i t0 hn
        obtain ⟨hargs, ⟨d, rfl, rfl⟩ | ⟨r', rfl, rfl⟩⟩ := nonClass_ok hn
        · rw [headS_of_lookup hE hl (m := .user (ens, h.name)) ⟨rfl, d, rfl⟩]
          simpa using hargs
        · rw [headS_of_lookup hE hl (m := .alias (ens, h.name)) ⟨rfl, r', rfl⟩]
          simpa using hargs
  | .app1 h a, wrap, cur, t, hr => by
    simp only [resolveW] at hr
    simp only [refStatic]
    split at hr
    · cases hr
    · rename_i ens k hl
      split at hr
      · cases hr
      · rename_i hv
        split at hr
        · cases hr
        · rename_i ta ha
          split at hr
          · cases hr
          · rename_i t0 hi
            rw [headS_of_lookup hE hl (m := .builtin k) rfl]
            obtain ⟨ta0, hda, hta0⟩ := resolveW_denote hE.ok a ha
            simp only [↓reduceIte] at hta0
            rw [← hta0] at hda
            have hvn : voidNullable k h = false := by
              unfold voidNullable; exact Bool.eq_false_iff.mpr hv
            simp [hda, resolveW_static hE a ha, instBuiltin_ok hi, hvn]
    · rename_i ens ent hnb hl
      split at hr
      · cases hr
      · rename_i t0 hn
        have := (nonClass_ok hn).1
        cases this
  | .app2 h a b, wrap, cur, t, hr => by
    simp only [resolveW] at hr
    simp only [refStatic]
    split at hr
    · cases hr
    · rename_i ens k hl
      split at hr
      · cases hr
      · rename_i hv
        split at hr
        · cases hr
        · rename_i ta ha
          split at hr
          · cases hr
          · rename_i tb hb
            split at hr
            · cases hr
            · rename_i t0 hi
              rw [headS_of_lookup hE hl (m := .builtin k) rfl]
              obtain ⟨ta0, hda, hta0⟩ := resolveW_denote hE.ok a ha
              obtain ⟨tb0, hdb, htb0⟩ := resolveW_denote hE.ok b hb
              simp only [↓reduceIte] at hta0 htb0
              rw [← hta0] at hda
              rw [← htb0] at hdb
              have hvn : voidNullable k h = false := by
                unfold voidNullable; exact Bool.eq_false_iff.mpr hv
              simp [hda, hdb, resolveW_static hE a ha, resolveW_static hE b hb, instBuiltin_ok hi, hvn]
    · rename_i ens ent hnb hl
      split at hr
      · cases hr
      · rename_i t0 hn
        have := (nonClass_ok hn).1
        cases this

end StoneVerif.FeCompile.L
