import StoneVerif.Lemmas.RtDecode
/-! Soundness of the RT decoder (what `decode` returns is valid for the type): helper lemmas for `C06.decode_sound_partial`. -/
namespace StoneVerif.Rt.DecL

/-- What `decode` returns at type `t` before the enclosing assignment / constructor / entry point validates
it: values at user-defined types are already deeply valid; lists and maps have the right shape with such
elements; primitives are the raw JSON scalars (validated by the enclosing `validate`). -/
def Pre (E : Ext) (env : Env) : PTy → PyVal → Prop
  | .list fl item _ _, v => (fl.nullable = true ∧ v = .none) ∨ ∃ xs, v = .list xs ∧ ∀ x ∈ xs, Pre E env item x
  | .map fl kt vt, v => (fl.nullable = true ∧ v = .none) ∨
      ∃ kvs, v = .dict kvs ∧ ∀ p ∈ kvs, Pre E env kt p.1 ∧ Pre E env vt p.2
  | .struct fl c, v => validB E env (.struct fl c) v = true
  | .tree fl c, v => validB E env (.tree fl c) v = true
  | .union fl c, v => validB E env (.union fl c) v = true
  | _, _ => True

theorem validB_nullable_none (E : Ext) (env : Env) (t : PTy) (h : t.flags.nullable = true) :
    validB E env t .none = true := by
  unfold validB; simp [h, isNoneV]

theorem Pre_nullable_none (E : Ext) (env : Env) (t : PTy) (h : t.flags.nullable = true) : Pre E env t .none := by
  cases t <;> simp only [Pre] <;> first
    | trivial
    | exact Or.inl ⟨h, rfl⟩
    | exact Or.inl ⟨h, trivial⟩
    | exact validB_nullable_none E env _ h

theorem validB_prim (E : Ext) (env : Env) (t : PTy) (v : PyVal) (hp : isPrimTy t = true) :
    validB E env t v = ((t.flags.nullable && isNoneV v) || validPrim E t v) := by
  unfold validB
  cases t <;> simp only [isPrimTy, Bool.false_eq_true] at hp <;>
    (split <;> simp_all)

theorem float_tail (E : Ext) (lo hi : Option FBits) (x : FBits) (v' : PyVal)
    (h : (if (E.fltIsNan x || E.fltIsInf x) = true then (verr "nan/inf not supported" : R PyVal)
      else if (match lo with | some l => E.fltLt x l | none => false) = true then verr "not greater than minimum"
      else if (match hi with | some h => E.fltLt h x | none => false) = true then verr "not less than maximum"
      else .ok (.flt x)) = .ok v') : v' = .flt x ∧ inRange E lo hi x = true := by
  cases lo <;> cases hi <;> simp only [] at h <;> repeat' split at h
  all_goals first
    | (simp [verr] at h; done)
    | (cases h; simp_all [inRange])

theorem validate_float_ok (E : Ext) (env : Env) (fl : Flags) (c : String) (lo hi : Option FBits) (v v' : PyVal)
    (hn : ¬(fl.nullable = true ∧ v = .none))
    (h : validate E env (.float fl c lo hi) v = .ok v') :
    ∃ x, fltOf E v = some (some x) ∧ v' = .flt x ∧ inRange E lo hi x = true := by
  cases v <;> (unfold validate at h) <;>
    (simp only [PTy.flags, fltOf, Bool.and_false, Bool.and_true, Bool.false_eq_true, if_false] at h)
  case none =>
    have : fl.nullable = false := by simpa using hn
    simp [this, verr] at h
  case flt x => exact ⟨x, rfl, float_tail E lo hi x v' h⟩
  case int n =>
    cases hf : E.fltOfInt n with
    | none => simp [hf, verr] at h
    | some x => simp only [hf] at h; exact ⟨x, by simp [fltOf, hf], float_tail E lo hi x v' h⟩
  case bool b =>
    cases hf : E.fltOfInt (if b then 1 else 0) with
    | none => simp [hf, verr] at h
    | some x => simp only [hf] at h; exact ⟨x, by simp [fltOf, hf], float_tail E lo hi x v' h⟩
  all_goals simp [verr] at h

theorem validate_prim_cases (E : Ext) (env : Env) (t : PTy) (v v' : PyVal) (hp : isPrimTy t = true)
    (h : validate E env t v = .ok v') :
    (t.flags.nullable = true ∧ v = .none ∧ v' = .none) ∨ (validPrim E t v = true ∧ validPrim E t v' = true) := by
  by_cases hn : t.flags.nullable = true ∧ v = .none
  · left
    obtain ⟨h1, rfl⟩ := hn
    rw [validate_nullable_none _ _ _ h1] at h
    cases h
    exact ⟨h1, rfl, rfl⟩
  · right
    cases t with
    | float fl c lo hi =>
      obtain ⟨x, hf, rfl, hr⟩ := validate_float_ok E env fl c lo hi v v' hn h
      cases v <;> simp [fltOf] at hf
      · rename_i b; simp [validPrim, hf, hr]
      · rename_i n; simp [validPrim, hf, hr]
      · subst hf; simp [validPrim, hr]
    | bool fl =>
      cases v <;> simp [validate, PTy.flags, verr] at h hn
      · simp [hn] at h
      · subst h; simp [validPrim]
    | int fl c lo hi =>
      cases v <;> simp [validate, PTy.flags, verr, intOf] at h hn
      · simp [hn] at h
      · rename_i b
        by_cases hc : (lo ≤ if b = true then 1 else 0) ∧ (if b = true then (1 : Int) else 0) ≤ hi
        · rw [if_pos hc] at h; cases h; simp [validPrim, hc.1, hc.2]
        · rw [if_neg hc] at h; cases h
      · rename_i n
        by_cases hc : lo ≤ n ∧ n ≤ hi
        · rw [if_pos hc] at h; cases h; simp [validPrim, hc.1, hc.2]
        · rw [if_neg hc] at h; cases h
    | str fl a b p =>
      cases v <;> simp [validate, PTy.flags, verr] at h hn
      · simp [hn] at h
      · rename_i s
        repeat' split at h
        all_goals simp at h
        all_goals subst h
        all_goals simp_all [validPrim]
        all_goals exact Decidable.or_iff_not_imp_left.mpr ‹_›
    | bytes fl =>
      cases v <;> simp [validate, PTy.flags, verr] at h hn
      · simp [hn] at h
      · subst h; simp [validPrim]
    | ts fl f =>
      cases v <;> simp [validate, PTy.flags, verr] at h hn
      · simp [hn] at h
      · split at h <;> simp at h
        subst h; simp_all [validPrim]
    | void fl =>
      cases v <;> simp [validate, PTy.flags, verr] at h hn
      · subst h; simp [validPrim]
    | _ => simp [isPrimTy] at hp

theorem validate_struct_eq (E : Ext) (env : Env) (fl : Flags) (c : String) (v : PyVal) :
    validate E env (.struct fl c) v = if fl.nullable && isNoneV v then .ok .none
      else if !structTypeOk env c v then verr "expected struct type"
      else if !structFieldsOk env c none v then verr "missing required field" else .ok v := by
  unfold validate; cases v <;> rfl

theorem validate_tree_eq (E : Ext) (env : Env) (fl : Flags) (c : String) (v : PyVal) :
    validate E env (.tree fl c) v = if fl.nullable && isNoneV v then .ok .none
      else if !structTypeOk env c v then verr "expected struct type"
      else if !structFieldsOk env c none v then verr "missing required field" else .ok v := by
  unfold validate; cases v <;> rfl

theorem validate_union_eq (E : Ext) (env : Env) (fl : Flags) (c : String) (v : PyVal) :
    validate E env (.union fl c) v = if fl.nullable && isNoneV v then .ok .none
      else if unionTypeOk env c v then .ok v else verr "expected union type" := by
  unfold validate; cases v <;> rfl

theorem validate_user_ok (E : Ext) (env : Env) (t : PTy) (v v' : PyVal) (hu : isUserTy t = true)
    (h : validate E env t v = .ok v') : v' = v := by
  cases t <;> simp only [isUserTy, Bool.false_eq_true] at hu
  · rw [validate_struct_eq] at h
    repeat' split at h
    all_goals first
      | (cases h; rfl)
      | (simp [verr] at h; done)
      | (rename_i hc; cases h; cases v <;> simp_all [isNoneV])
  · rw [validate_tree_eq] at h
    repeat' split at h
    all_goals first
      | (cases h; rfl)
      | (simp [verr] at h; done)
      | (rename_i hc; cases h; cases v <;> simp_all [isNoneV])
  · rw [validate_union_eq] at h
    repeat' split at h
    all_goals first
      | (cases h; rfl)
      | (simp [verr] at h; done)
      | (rename_i hc; cases h; cases v <;> simp_all [isNoneV])

theorem validate_list_list (E : Ext) (env : Env) (fl : Flags) (item : PTy) (a b : Option Nat) (xs : List PyVal) :
    validate E env (.list fl item a b) (.list xs) =
      if !geOpt b xs.length then verr "too many items"
      else if !leOpt a xs.length then verr "too few items"
      else (validateList E env item xs).map .list := by
  unfold validate
  simp only [Bool.and_false, Bool.false_eq_true, if_false]

theorem validate_map_dict (E : Ext) (env : Env) (fl : Flags) (kt vt : PTy) (kvs : List (PyVal × PyVal)) :
    validate E env (.map fl kt vt) (.dict kvs) = (validateDict E env kt vt kvs).map .dict := by
  unfold validate
  simp only [Bool.and_false, Bool.false_eq_true, if_false]

theorem validB_list_list (E : Ext) (env : Env) (fl : Flags) (item : PTy) (a b : Option Nat) (xs : List PyVal) :
    validB E env (.list fl item a b) (.list xs) =
      (leOpt a xs.length && geOpt b xs.length && validList E env item xs) := by
  unfold validB
  simp only [isNoneV, Bool.and_false, Bool.false_eq_true, if_false]

theorem validB_map_dict (E : Ext) (env : Env) (fl : Flags) (kt vt : PTy) (kvs : List (PyVal × PyVal)) :
    validB E env (.map fl kt vt) (.dict kvs) = validDict E env kt vt kvs := by
  unfold validB
  simp only [isNoneV, Bool.and_false, Bool.false_eq_true, if_false]

theorem validateList_sound (E : Ext) (env : Env) (t : PTy) :
    ∀ (xs ys : List PyVal),
    (∀ x ∈ xs, ∀ x', validate E env t x = .ok x' → validB E env t x = true ∧ validB E env t x' = true) →
    validateList E env t xs = .ok ys →
    validList E env t xs = true ∧ validList E env t ys = true ∧ ys.length = xs.length := by
  intro xs
  induction xs with
  | nil => intro ys _ h; simp [validateList] at h; subst h; simp [validList]
  | cons x xs ih =>
    intro ys hx h
    simp only [validateList] at h
    cases h1 : validate E env t x with
    | error e => simp [h1, bind, Except.bind] at h
    | ok x' =>
      cases h2 : validateList E env t xs with
      | error e => simp [h1, h2, bind, Except.bind] at h
      | ok ys' =>
        simp [h1, h2, bind, Except.bind, pure, Except.pure] at h
        subst h
        obtain ⟨a1, a2⟩ := hx x List.mem_cons_self x' h1
        obtain ⟨b1, b2, b3⟩ := ih ys' (fun y hy => hx y (List.mem_cons_of_mem _ hy)) h2
        simp [validList, a1, a2, b1, b2, b3]

theorem validateDict_sound (E : Ext) (env : Env) (kt vt : PTy) :
    ∀ (kvs out : List (PyVal × PyVal)),
    (∀ p ∈ kvs, (∀ x', validate E env kt p.1 = .ok x' → validB E env kt p.1 = true ∧ validB E env kt x' = true) ∧
      (∀ x', validate E env vt p.2 = .ok x' → validB E env vt p.2 = true ∧ validB E env vt x' = true)) →
    validateDict E env kt vt kvs = .ok out →
    validDict E env kt vt kvs = true ∧ validDict E env kt vt out = true := by
  intro kvs
  induction kvs with
  | nil => intro out _ h; simp [validateDict] at h; subst h; simp [validDict]
  | cons kv rest ih =>
    obtain ⟨k, x⟩ := kv
    intro out hx h
    simp only [validateDict] at h
    cases h1 : validate E env kt k with
    | error e => simp [h1, bind, Except.bind] at h
    | ok k' =>
      cases h2 : validate E env vt x with
      | error e => simp [h1, h2, bind, Except.bind] at h
      | ok x' =>
        cases h3 : validateDict E env kt vt rest with
        | error e => simp [h1, h2, h3, bind, Except.bind] at h
        | ok rest' =>
          simp [h1, h2, h3, bind, Except.bind, pure, Except.pure] at h
          subst h
          obtain ⟨hk, hv⟩ := hx (k, x) List.mem_cons_self
          obtain ⟨a1, a2⟩ := hk k' h1
          obtain ⟨c1, c2⟩ := hv x' h2
          obtain ⟨b1, b2⟩ := ih rest' (fun y hy => hx y (List.mem_cons_of_mem _ hy)) h3
          simp [validDict, a1, a2, b1, b2, c1, c2]

/-- What passes `validate` after decoding is deeply valid, before and after normalisation. -/
theorem validate_sound (E : Ext) (env : Env) (t : PTy) :
    ∀ v v', Pre E env t v → validate E env t v = .ok v' →
    validB E env t v = true ∧ validB E env t v' = true := by
  induction t with
  | list fl item a b ih =>
    intro v v' hpre h
    simp only [Pre] at hpre
    rcases hpre with ⟨hn, rfl⟩ | ⟨xs, rfl, hxs⟩
    · rw [validate_nullable_none E env (.list fl item a b) hn] at h; cases h
      exact ⟨validB_nullable_none E env (.list fl item a b) hn, validB_nullable_none E env (.list fl item a b) hn⟩
    · rw [validate_list_list] at h
      split at h
      · simp [verr] at h
      · rename_i h1
        split at h
        · simp [verr] at h
        · rename_i h2
          cases hl : validateList E env item xs with
          | error e => simp [hl, Except.map] at h
          | ok ys =>
            simp [hl, Except.map] at h
            subst h
            obtain ⟨b1, b2, b3⟩ := validateList_sound E env item xs ys (fun x hx x' => ih x x' (hxs x hx)) hl
            simp only [Bool.not_eq_true', Bool.not_eq_false] at h1 h2
            rw [validB_list_list, validB_list_list, b3]
            simp [h1, h2, b1, b2]
  | map fl kt vt ihk ihv =>
    intro v v' hpre h
    simp only [Pre] at hpre
    rcases hpre with ⟨hn, rfl⟩ | ⟨kvs, rfl, hkvs⟩
    · rw [validate_nullable_none E env (.map fl kt vt) hn] at h; cases h
      exact ⟨validB_nullable_none E env (.map fl kt vt) hn, validB_nullable_none E env (.map fl kt vt) hn⟩
    · rw [validate_map_dict] at h
      cases hl : validateDict E env kt vt kvs with
      | error e => simp [hl, Except.map] at h
      | ok out =>
        simp [hl, Except.map] at h
        subst h
        obtain ⟨b1, b2⟩ := validateDict_sound E env kt vt kvs out
          (fun p hp => ⟨fun x' => ihk p.1 x' (hkvs p hp).1, fun x' => ihv p.2 x' (hkvs p hp).2⟩) hl
        rw [validB_map_dict, validB_map_dict]
        exact ⟨b1, b2⟩
  | struct fl c =>
    intro v v' hpre h
    have := validate_user_ok E env _ v v' rfl h
    subst this
    exact ⟨hpre, hpre⟩
  | tree fl c =>
    intro v v' hpre h
    have := validate_user_ok E env _ v v' rfl h
    subst this
    exact ⟨hpre, hpre⟩
  | union fl c =>
    intro v v' hpre h
    have := validate_user_ok E env _ v v' rfl h
    subst this
    exact ⟨hpre, hpre⟩
  | _ =>
    intro v v' _ h
    rw [validB_prim E env _ v rfl, validB_prim E env _ v' rfl]
    rcases validate_prim_cases E env _ v v' rfl h with ⟨h1, rfl, rfl⟩ | ⟨h1, h2⟩
    · simp [h1, isNoneV]
    · simp [h1, h2]


theorem Pre_user (E : Ext) (env : Env) (t : PTy) (v : PyVal) (hu : isUserTy t = true) :
    Pre E env t v ↔ validB E env t v = true := by
  cases t <;> simp only [isUserTy, Bool.false_eq_true] at hu <;> simp only [Pre]

theorem mem_setSlot (k : String) (x : PyVal) (p : String × PyVal) :
    ∀ slots, p ∈ setSlot k x slots → p = (k, x) ∨ p ∈ slots := by
  intro slots
  induction slots with
  | nil => intro h; simp [setSlot] at h; exact Or.inl h
  | cons kv rest ih =>
    obtain ⟨k', w⟩ := kv
    intro h
    simp only [setSlot] at h
    split at h
    · rename_i hk
      have : k' = k := by simpa using hk
      subst this
      rcases List.mem_cons.mp h with h | h
      · exact Or.inl h
      · exact Or.inr (List.mem_cons_of_mem _ h)
    · rcases List.mem_cons.mp h with h | h
      · exact Or.inr (h ▸ List.mem_cons_self)
      · rcases ih h with h | h
        · exact Or.inl h
        · exact Or.inr (List.mem_cons_of_mem _ h)

theorem mem_delSlot (k : String) (p : String × PyVal) : ∀ slots, p ∈ delSlot k slots → p ∈ slots := by
  intro slots
  induction slots with
  | nil => intro h; simp [delSlot] at h
  | cons kv rest ih =>
    obtain ⟨k', w⟩ := kv
    intro h
    simp only [delSlot] at h
    split at h
    · exact List.mem_cons_of_mem _ h
    · rcases List.mem_cons.mp h with h | h
      · exact h ▸ List.mem_cons_self
      · exact List.mem_cons_of_mem _ (ih h)

/-- every stored slot that belongs to a declared field holds a valid value of the field's type -/
def SlotsOK (E : Ext) (env : Env) (s : StructDef) (slots : List (String × PyVal)) : Prop :=
  ∀ p ∈ slots, ∀ f ∈ s.allAttrs, f.name = p.1 → validB E env f.ty p.2 = true

theorem attrSet_sound (E : Ext) (env : Env) (s : StructDef) (f : FieldDef) (slots slots' : List (String × PyVal))
    (v : PyVal) (hnd : nodupS (s.allAttrs.map (·.name)) = true) (hf : f ∈ s.allAttrs) (hfl : f.flagsWF = true)
    (hpre : Pre E env f.ty v) (hok : SlotsOK E env s slots) (h : attrSet E env f slots v = .ok slots') :
    SlotsOK E env s slots' := by
  have hnew : ∀ x, validB E env f.ty x = true → SlotsOK E env s (setSlot f.name x slots) := by
    intro x hx p hp g hg hgn
    rcases mem_setSlot _ _ _ _ hp with rfl | hp'
    · have : g = f := nodupS_names_unique (·.name) _ hnd g f hg hf hgn
      subst this; exact hx
    · exact hok p hp' g hg hgn
  rcases attrSet_ok E env f slots slots' v h with ⟨_, _, rfl⟩ | ⟨hu, _, rfl⟩ | ⟨_, x', hv, rfl⟩
  · intro p hp g hg hgn
    exact hok p (mem_delSlot _ _ _ hp) g hg hgn
  · apply hnew
    simp only [FieldDef.flagsWF, Bool.and_eq_true, Bool.or_eq_true, Bool.not_eq_true'] at hfl
    have hut : isUserTy f.ty = true := by
      rcases hfl.1 with h' | h'
      · rw [hu] at h'; cases h'
      · exact h'
    exact (Pre_user E env f.ty v hut).mp hpre
  · exact hnew x' (validate_sound E env f.ty v x' hpre hv).2

theorem finishFields_sound (E : Ext) (env : Env) (s : StructDef) (children : List (String × R PyVal))
    (hnd : nodupS (s.allAttrs.map (·.name)) = true) :
    ∀ (fields : List FieldDef) (slots slots' : List (String × PyVal)),
    (∀ f ∈ fields, f ∈ s.allAttrs ∧ f.flagsWF = true ∧
      (hasDefault env f.ty = true → Pre E env f.ty (getDefault f.ty)) ∧
      (∀ v, childLookup f.name children = some (.ok v) → Pre E env f.ty v)) →
    SlotsOK E env s slots → finishFields E env fields children slots = .ok slots' → SlotsOK E env s slots' := by
  intro fields
  induction fields with
  | nil => intro slots slots' _ hok h; simp [finishFields] at h; subst h; exact hok
  | cons f rest ih =>
    intro slots slots' hfs hok h
    obtain ⟨hf, hfl, hdef, hch⟩ := hfs f List.mem_cons_self
    have hrest := fun g hg => hfs g (List.mem_cons_of_mem _ hg)
    rw [finishFields_cons] at h
    split at h
    · cases h
    · rename_i v hr
      cases ha : attrSet E env f slots v with
      | error e => simp [ha] at h
      | ok s1 =>
        simp only [ha] at h
        exact ih s1 slots' hrest (attrSet_sound E env s f slots s1 v hnd hf hfl (hch v hr) hok ha) h
    · split at h
      · rename_i hd
        cases ha : attrSet E env f slots (getDefault f.ty) with
        | error e => simp [ha] at h
        | ok s1 =>
          simp only [ha] at h
          exact ih s1 slots' hrest (attrSet_sound E env s f slots s1 _ hnd hf hfl (hdef hd) hok ha) h
      · exact ih slots slots' hrest hok h

theorem validSlots_of_SlotsOK (E : Ext) (env : Env) (s : StructDef) (pub : List FieldDef)
    (hpub : ∀ f ∈ pub, f ∈ s.allAttrs) :
    ∀ slots, SlotsOK E env s slots → validSlots E env pub slots = true := by
  intro slots
  induction slots with
  | nil => intro _; simp [validSlots]
  | cons kv rest ih =>
    obtain ⟨k, x⟩ := kv
    intro hok
    simp only [validSlots, Bool.and_eq_true]
    refine ⟨?_, ih fun p hp => hok p (List.mem_cons_of_mem _ hp)⟩
    split
    · rename_i f hfind
      have hm := List.mem_of_find?_eq_some hfind
      have hn : f.name = k := by simpa using List.find?_some hfind
      exact hok (k, x) List.mem_cons_self f (hpub f hm) hn
    · rfl


theorem allFieldsAttrRev_none (ls : List Level) (hne : ls ≠ []) :
    ∃ l, allFieldsAttrRev none ls = some l ∧ ∀ f ∈ ls.flatMap (·.fields), f.omitted = none → f ∈ l := by
  induction ls with
  | nil => exact absurd rfl hne
  | cons l0 parents ih =>
    simp only [allFieldsAttrRev, Option.isNone_none, Bool.true_or, if_true, Bool.and_true]
    by_cases hp : parents = []
    · subst hp
      refine ⟨l0.fields.filter (·.omitted == none), by simp, ?_⟩
      intro f hf ho
      simp only [List.flatMap_cons, List.flatMap_nil, List.append_nil] at hf
      exact List.mem_filter.mpr ⟨hf, by simp [ho]⟩
    · obtain ⟨lp, hlp, hmem⟩ := ih hp
      have : (!parents.isEmpty) = true := by cases parents <;> simp_all
      refine ⟨lp ++ l0.fields.filter (·.omitted == none), by simp [this, hlp], ?_⟩
      intro f hf ho
      rw [List.flatMap_cons] at hf
      rcases List.mem_append.mp hf with h | h
      · exact List.mem_append_right _ (List.mem_filter.mpr ⟨h, by simp [ho]⟩)
      · exact List.mem_append_left _ (hmem f h ho)

theorem public_subset_fieldsFor (s : StructDef) (perms : List String) (f : FieldDef)
    (hf : f ∈ s.fieldsSpec []) : f ∈ s.fieldsFor perms := by
  simp only [StructDef.fieldsSpec, List.mem_filter] at hf
  obtain ⟨hm, ho⟩ := hf
  have hon : f.omitted = none := by
    cases h : f.omitted with
    | none => rfl
    | some c => simp [h] at ho
  have hne : s.levels.reverse ≠ [] := by
    intro h
    have : s.levels = [] := by simpa using h
    simp [this] at hm
  obtain ⟨l, hl, hmem⟩ := allFieldsAttrRev_none s.levels.reverse hne
  unfold StructDef.fieldsFor StructDef.allFieldsAttr
  rw [hl]
  apply List.mem_append_left
  simp only [Option.getD_some]
  apply hmem f _ hon
  simp only [List.mem_flatMap, List.mem_reverse] at hm ⊢
  exact hm

theorem publicFields_eq (env : Env) (c : String) (s : StructDef) (hs : env.struct? c = some s) :
    publicFields env c = s.fieldsSpec [] := by
  simp [publicFields, hs]

theorem fieldsSpec_subset_allAttrs (s : StructDef) (perms : List String) (f : FieldDef)
    (hf : f ∈ s.fieldsSpec perms) : f ∈ s.allAttrs := by
  simp only [StructDef.fieldsSpec, List.mem_filter] at hf
  exact hf.1

theorem getLast?_mem {α} (l : List α) (a : α) (h : l.getLast? = some a) : a ∈ l := by
  exact List.mem_of_getLast? h

theorem structSubclass_self (env : Env) (hwf : envWF env = true) (cls : String) (s : StructDef)
    (hs : env.struct? cls = some s) : env.structSubclass cls cls = true := by
  have h1 := (StructDef.wf_parts env s (envWF_struct env hwf cls s hs)).1
  have hc := (struct?_mem env cls s hs).2
  simp only [Env.structSubclass, hs, StructDef.ancestors, List.contains_eq_mem, List.mem_map, decide_eq_true_eq]
  cases hl : s.levels.getLast? with
  | none => simp [hl] at h1
  | some l =>
    simp only [hl, beq_iff_eq] at h1
    exact ⟨l, List.mem_of_getLast? hl, by rw [h1, hc]⟩

theorem unionSubclass_self (env : Env) (hwf : envWF env = true) (cls : String) (u : UnionDef)
    (hu : env.union? cls = some u) : env.unionSubclass cls cls = true := by
  have h1 := (UnionDef.wf_parts env u (envWF_union env hwf cls u hu)).1
  have hc := (union?_mem env cls u hu).2
  simp only [Env.unionSubclass, hu, UnionDef.ancestors, List.contains_eq_mem, List.mem_map, decide_eq_true_eq]
  cases hl : u.levels.getLast? with
  | none => simp [hl] at h1
  | some l =>
    simp only [hl, beq_iff_eq] at h1
    exact ⟨l, List.mem_of_getLast? hl, by rw [h1, hc]⟩

theorem levelsPrefix_mem_cls : ∀ (a b : List Level), levelsPrefix a b = true → ∀ l ∈ a, ∃ l' ∈ b, l'.cls = l.cls := by
  intro a
  induction a with
  | nil => intro b _ l hl; cases hl
  | cons x xs ih =>
    intro b h l hl
    cases b with
    | nil => simp [levelsPrefix] at h
    | cons y ys =>
      simp only [levelsPrefix, Bool.and_eq_true, Level.sameAs, beq_iff_eq] at h
      rcases List.mem_cons.mp hl with rfl | hl'
      · exact ⟨y, List.mem_cons_self, h.1.1.symm⟩
      · obtain ⟨l', hl'', hc⟩ := ih ys h.2 l hl'
        exact ⟨l', List.mem_cons_of_mem _ hl'', hc⟩

/-- a struct decoded by `decode_struct` is a valid instance of its class -/
theorem finishStruct_sound (E : Ext) (env : Env) (perms : List String) (strict : Bool) (cls : String)
    (s : StructDef) (kvs : List (String × JVal)) (children : List (String × R PyVal)) (v : PyVal)
    (hwf : envWF env = true) (hff : fieldFlagsWF env = true) (hs : env.struct? cls = some s)
    (hdef : ∀ f ∈ s.allAttrs, hasDefault env f.ty = true → Pre E env f.ty (getDefault f.ty))
    (hch : ∀ f ∈ s.fieldsFor perms, ∀ v, childLookup f.name children = some (.ok v) → Pre E env f.ty v)
    (h : finishStruct E env perms strict cls kvs children = .ok v) :
    ∃ slots, v = .struct cls slots ∧ (publicFields env cls).all (fun f => attrHas f slots) = true ∧
      validSlots E env (publicFields env cls) slots = true := by
  have hparts := StructDef.wf_parts env s (envWF_struct env hwf cls s hs)
  unfold finishStruct at h
  simp only [hs] at h
  split at h
  · simp [verr] at h
  · split at h
    · cases h
    · rename_i slots hfin
      split at h
      · rename_i hall
        cases h
        refine ⟨slots, rfl, ?_, ?_⟩
        · rw [publicFields_eq env cls s hs, List.all_eq_true]
          intro f hf
          exact List.all_eq_true.mp hall f (public_subset_fieldsFor s perms f hf)
        · rw [publicFields_eq env cls s hs]
          apply validSlots_of_SlotsOK E env s _ (fun f hf => fieldsSpec_subset_allAttrs s [] f hf)
          refine finishFields_sound E env s children hparts.2.1 (s.fieldsFor perms) [] slots ?_ ?_ hfin
          · intro f hf
            have hfa := fieldsFor_subset s perms f hf
            exact ⟨hfa, fieldFlagsWF_struct env hff cls s hs f hfa, hdef f hfa, hch f hf⟩
          · intro p hp; cases hp
      · simp [verr] at h


end StoneVerif.Rt.DecL
