import StoneVerif.Model.CliReport
/-! Helper lemmas for the command-line answer model (C03). -/
namespace StoneVerif.CliReport

/-- the template of the tree under test, as characters (a literal pin: an edit of the handler's format string shows
here first) -/
theorem template_chars :
    Tables.cliSpecErrorTemplate.toList = ['{', '}', ':', '{', '}', ':', ' ', 'e', 'r', 'r', 'o', 'r', ':', ' ', '{', '}'] := by
  decide +kernel

theorem fields_are : Tables.cliSpecErrorFields = ["path", "lineno", "msg"] := by decide +kernel

theorem style_is : Tables.cliSpecErrorStyle = "format" := by decide +kernel

@[simp] theorem pyStr_str (s : List Char) : pyStr (.str s) = s := rfl

theorem cliAnswer_eq (e : SpecErr) :
    cliAnswer e = .ok (pyStr (pathVal e) ++ ':' :: (pyStr (lineVal e) ++ (": error: ".toList ++ e.msg))) := by
  unfold cliAnswer answer
  rw [fields_are, style_is, template_chars]
  simp [List.mapM_cons, fieldVal, run, runFormat, Functor.map, Except.map]

theorem isOk_map {ε α β} (f : α → β) (x : Except ε α) : (f <$> x).isOk = x.isOk := by
  cases x <;> rfl

/-- `str.format` with `{}` fields does not look at the values: whether it raises depends on the template and on
the number of arguments only. -/
theorem runFormat_kind_blind (t : List Char) (as bs : List PyVal) (h : as.length = bs.length) :
    (runFormat t as).isOk = (runFormat t bs).isOk := by
  fun_induction runFormat t as generalizing bs
  all_goals (conv => rhs; unfold runFormat)
  all_goals (cases bs <;> simp_all [isOk_map])
  all_goals first
    | (rename_i ih; exact ih _ (by simp_all))
    | (split <;> first
        | (simp_all [Except.isOk, Except.toBool]; done)
        | (exfalso; rename_i hcons hnil; obtain ⟨a, as, hh⟩ := List.exists_cons_of_ne_nil (hnil _ rfl)
           exact hcons _ _ _ rfl hh))

end StoneVerif.CliReport
