import StoneVerif.Lemmas.RtCompatBwd6
import StoneVerif.Lemmas.RtCompatFwd4
import StoneVerif.Model.Rt.SpecC06
/-!
Helper lemmas for C07, part 17: what strict decoding accepts contains nothing unknown — a statement about ONE environment:
`decode E A [] true t j = .ok w → knownDoc A t j` for documents without repeated keys.  (With `decode_sub` this gives
`strict_rejects_iff`.)
-/
namespace StoneVerif.Rt.Compat
open StoneVerif.Rt

/-! ### objects without repeated keys -/

theorem jsonLookup_of_mem {k : String} {x : JVal} : ∀ {kvs : List (String × JVal)},
    nodupS (kvs.map (·.1)) = true → (k, x) ∈ kvs → jsonLookup k kvs = some x
  | [], _, hm => by cases hm
  | (k0, x0) :: rest, hnd, hm => by
    obtain ⟨h0, hnd'⟩ := nodupS_cons hnd
    rcases List.mem_cons.mp hm with heq | hm'
    · cases heq; simp [jsonLookup]
    · have hne : (k0 == k) = false := by
        simpa using fun h => h0 (List.mem_map.mpr ⟨(k, x), hm', h.symm⟩)
      simp only [jsonLookup, hne]
      exact jsonLookup_of_mem hnd' hm'

theorem childLookup_of_mem (E : Ext) (env : Env) (strict : Bool) (tbl : List (String × PTy)) {k k' : String} {x : JVal}
    {ft : PTy} (hf : tbl.find? (·.1 == k) = some (k', ft)) : ∀ {kvs : List (String × JVal)},
    nodupS (kvs.map (·.1)) = true → (k, x) ∈ kvs →
    childLookup k (decodeMembers E env [] strict tbl kvs) = some (decode E env [] strict ft x)
  | [], _, hm => by cases hm
  | (k0, x0) :: rest, hnd, hm => by
    obtain ⟨h0, hnd'⟩ := nodupS_cons hnd
    rcases List.mem_cons.mp hm with heq | hm'
    · cases heq
      simp [decodeMembers, hf, childLookup]
    · have hne : (k0 == k) = false := by
        simpa using fun h => h0 (List.mem_map.mpr ⟨(k, x), hm', h.symm⟩)
      have ih := childLookup_of_mem E env strict tbl hf hnd' hm'
      simp only [decodeMembers]
      split <;> simp [childLookup, hne, ih]

/-- what the success of `finishStruct` in strict mode says about every member of the object -/
def MembersOk (E : Ext) (A : Env) (tbl : List (String × PTy)) (kvs : List (String × JVal)) : Prop :=
  ∀ k x, (k, x) ∈ kvs →
    (∃ k' ft v, tbl.find? (·.1 == k) = some (k', ft) ∧ decode E A [] true ft x = .ok v) ∨
    (tbl.find? (·.1 == k) = none ∧ k.startsWith ".tag" = true)

theorem runFields_child_ok (E : Ext) (env : Env) (children : List (String × R PyVal)) :
    ∀ (fields : List FieldDef) (slots : List (String × PyVal)), runFields E env children fields = .ok slots →
    ∀ f ∈ fields, ∀ r, childLookup f.name children = some r → ∃ v, r = .ok v
  | [], _, _, f, hf, _, _ => by cases hf
  | f0 :: rest, slots, h, f, hf, r, hr => by
    simp only [runFields] at h
    split at h
    · cases h
    · rename_i o ho
      split at h
      · cases h
      · rename_i tl htl
        rcases List.mem_cons.mp hf with rfl | hf'
        · unfold fieldStep at ho
          rw [hr] at ho
          cases r with
          | error e => simp at ho
          | ok v => exact ⟨v, rfl⟩
        · exact runFields_child_ok E env children rest tl htl f hf' r hr

theorem membersOk_of_finishStruct (E : Ext) {A : Env} (hwf : envWF A = true) {cls : String} {s : StructDef}
    (hs : A.struct? cls = some s) {kvs : List (String × JVal)} (hnd : nodupS (kvs.map (·.1)) = true) {w : PyVal}
    (h : finishStruct E A [] true cls kvs (decodeMembers E A [] true (structTable A cls) kvs) = .ok w) :
    MembersOk E A (structTable A cls) kvs := by
  rw [finishStruct_eq E A hwf true hs] at h
  split at h
  · cases h
  · rename_i hstrict
    simp only [Bool.true_and, Bool.not_eq_true] at hstrict
    cases hrun : runFields E A (decodeMembers E A [] true (structTable A cls) kvs) (publicFields A cls) with
    | error e => simp [hrun] at h
    | ok slots =>
      intro k x hm
      cases hf : (structTable A cls).find? (·.1 == k) with
      | none =>
        right
        refine ⟨rfl, ?_⟩
        have := List.any_eq_false.mp hstrict (k, x) hm
        have hc : ((publicFields A cls).map (·.name)).contains k = false := by
          rw [← table_contains]
          unfold structTable at hf
          rw [hf]; rfl
        have h3 : (!((publicFields A cls).map (·.name)).contains k && !k.startsWith ".tag") = false :=
          Bool.eq_false_iff.mpr this
        rw [hc] at h3
        cases hsw : k.startsWith ".tag" with
        | true => rfl
        | false => rw [hsw] at h3; cases h3
      | some p =>
        left
        obtain ⟨k', ft⟩ := p
        have hmem := List.mem_of_find?_eq_some hf
        have hk' : k' = k := by simpa using List.find?_some hf
        unfold structTable at hmem
        obtain ⟨f, hfm, hfp⟩ := List.mem_map.mp hmem
        have hfn : f.name = k := by rw [← hk']; exact congrArg Prod.fst hfp
        have hcl := childLookup_of_mem E A true (structTable A cls) hf hnd hm
        obtain ⟨v, hv⟩ := runFields_child_ok E A _ _ slots hrun f hfm _ (by rw [hfn]; exact hcl)
        exact ⟨k', ft, v, rfl, hv⟩

theorem isVoidT_struct (fl : Flags) (c : String) : isVoidT (.struct fl c) = false := rfl
theorem isVoidT_tree (fl : Flags) (c : String) : isVoidT (.tree fl c) = false := rfl
theorem isVoidT_list (fl : Flags) (i : PTy) (a b : Option Nat) : isVoidT (.list fl i a b) = false := rfl
theorem isVoidT_map (fl : Flags) (k v : PTy) : isVoidT (.map fl k v) = false := rfl

theorem knownDoc_prim (A : Env) {t : PTy} (hp : isPrimTy t = true) (hv : isVoidT t = false) (j : JVal) :
    knownDoc A t j = true := by
  cases t <;> simp only [isPrimTy, Bool.false_eq_true] at hp <;> simp only [isVoidT, Bool.true_eq_false] at hv <;>
    cases j <;> (unfold knownDoc; rfl)

theorem knownDoc_null (A : Env) (t : PTy) : knownDoc A t .null = true := by
  unfold knownDoc
  split <;> rfl

/-- the strict check of a Void tag, read back: only the discriminator, or the tag's own key with `null` -/
theorem void_strict_known {tag : String} {kvs : List (String × JVal)} (hnd : nodupS (kvs.map (·.1)) = true)
    (h : ((match jsonLookup tag kvs with | some .null | none => false | some _ => true) ||
      kvs.any fun (k, _) => k != tag && k != ".tag") = false) :
    (kvs.all fun kx => kx.1 == ".tag" || (kx.1 == tag && (match kx.2 with | .null => true | _ => false))) = true := by
  simp only [Bool.or_eq_false_iff] at h
  rw [List.all_eq_true]
  intro ⟨k, x⟩ hm
  have h2 := List.any_eq_false.mp h.2 (k, x) hm
  simp only [Bool.and_eq_true, bne_iff_ne, ne_eq, not_and, Decidable.not_not] at h2
  by_cases hk : k = tag
  · subst hk
    have hl := jsonLookup_of_mem hnd hm
    have h1 := h.1
    rw [hl] at h1
    cases x <;> simp_all
  · have := h2 hk
    simp [this]

mutual
theorem known_of_strict (E : Ext) {A : Env} (hwf : envWF A = true) :
    ∀ (j : JVal) (t : PTy) (w : PyVal), tyWF A t = true → nodupKeys j = true →
      decode E A [] true t j = .ok w → knownDoc A t j = true
  | j, t, w, hw, hnd, hd => by
    by_cases hnull : isNullJ j = true
    · have : j = .null := by cases j <;> simp_all [isNullJ]
      subst this
      exact knownDoc_null A t
    · by_cases hp : isPrimTy t = true
      · by_cases hv : isVoidT t = true
        · cases t <;> simp [isVoidT] at hv
          rw [knownDoc_void]
          rw [decode_prim E A true (by rfl)] at hd
          simp only [Bool.not_eq_true] at hnull
          simp only [hnull, Bool.and_false, Bool.false_eq_true, if_false, makeStoneFriendly] at hd
          cases j <;> simp_all [verr, isNullJ]
        · exact knownDoc_prim A hp (by simpa using hv) j
      · cases t <;> simp only [isPrimTy, not_true_eq_false] at hp
        case list fl item a b =>
          have hwi : tyWF A item = true := by simpa [tyWF] using hw
          cases j with
          | arr xs =>
            rw [knownDoc_list_arr]
            rw [decode_list_arr] at hd
            simp only [nodupKeys] at hnd
            cases hl : decodeList E A [] true item xs with
            | error e => simp [hl, Except.map] at hd
            | ok ys => exact knownList_of_strict E hwf xs item ys hwi hnd hl
          | _ => unfold decode at hd; simp_all [PTy.flags, verr, isNullJ]
        case map fl kt vt =>
          have hwv : tyWF A vt = true := by
            simp only [tyWF, Bool.and_eq_true] at hw; exact hw.2
          cases j with
          | obj kvs =>
            rw [knownDoc_map_obj]
            rw [decode_map_obj] at hd
            simp only [nodupKeys, Bool.and_eq_true] at hnd
            cases hl : decodeMap E A [] true vt kvs with
            | error e => simp [hl, Except.map] at hd
            | ok ys => exact knownVals_of_strict E hwf kvs vt ys hwv hnd.2 hl
          | _ => unfold decode at hd; simp_all [PTy.flags, verr, isNullJ]
        case struct fl cls =>
          obtain ⟨s, hs⟩ := tyWF_struct hw
          cases j with
          | obj kvs =>
            simp only [nodupKeys, Bool.and_eq_true] at hnd
            rw [knownDoc_struct_obj]
            rw [decode_struct_obj', memberTable_struct' A true fl cls s kvs hs] at hd
            exact knownMembers_of_ok E hwf kvs (structTable A cls) hnd.2
              (fun p hp => by
                unfold structTable at hp
                obtain ⟨f, hf, rfl⟩ := List.mem_map.mp hp
                exact publicFields_tyWF hwf hf)
              (fun k x hm => membersOk_of_finishStruct E hwf hs hnd.1 hd k x hm)
          | _ => unfold decode at hd; simp_all [PTy.flags, verr, isNullJ]
        case tree fl cls =>
          obtain ⟨s, hs⟩ := tyWF_tree hw
          cases j with
          | obj kvs =>
            simp only [nodupKeys, Bool.and_eq_true] at hnd
            cases ht : jsonLookup ".tag" kvs with
            | none => unfold decode at hd; simp [ht, PTy.flags, verr] at hd
            | some tv =>
              cases tv with
              | str tag =>
                rw [knownDoc_tree_obj A fl cls kvs ht hs]
                rw [decode_tree_obj E A true fl cls kvs ht hs] at hd
                cases hf : findSub [tag] (s.subtypes.getD []) with
                | none => simp [hf, verr] at hd
                | some e =>
                  obtain ⟨tags, sc, tr⟩ := e
                  cases tr with
                  | true => simp [hf, verr] at hd
                  | false =>
                    simp only [hf, Bool.false_eq_true, if_false] at hd ⊢
                    obtain ⟨hm, _⟩ := findSub_some hf
                    obtain ⟨_, d, hdd⟩ := structSubclass_entry hwf hs hm
                    simp only at hdd
                    exact knownMembers_of_ok E hwf kvs (structTable A sc) hnd.2
                      (fun p hp => by
                        unfold structTable at hp
                        obtain ⟨f, hf', rfl⟩ := List.mem_map.mp hp
                        exact publicFields_tyWF hwf hf')
                      (fun k x hm' => membersOk_of_finishStruct E hwf hdd hnd.1 hd k x hm')
              | _ => unfold decode at hd; simp [ht, PTy.flags, verr] at hd
          | _ => unfold decode at hd; simp_all [PTy.flags, verr, isNullJ]
        case union fl cls =>
          obtain ⟨u, hu⟩ := tyWF_union hw
          cases j with
          | str tag =>
            rw [knownDoc_union_str]
            cases ht : publicTag? A cls tag with
            | some td => rfl
            | none =>
              rw [decode_union_str_unknown E hwf true fl hu ht] at hd
              simp [verr] at hd
          | obj kvs =>
            simp only [nodupKeys, Bool.and_eq_true] at hnd
            cases ht : jsonLookup ".tag" kvs with
            | none => unfold decode at hd; simp [ht, hu, PTy.flags, verr] at hd
            | some tv =>
              cases tv with
              | str tag =>
                cases htd : publicTag? A cls tag with
                | none =>
                  rw [decode_union_obj_unknown E hwf true fl hu ht htd] at hd
                  simp [verr] at hd
                | some td =>
                  have hwt := (publicTag_tyWF hwf htd).1
                  by_cases hnc : (some tag == u.catchAll) = true
                  · rw [decode_union_obj_catchAll E hwf true fl hu ht htd hnc] at hd
                    simp [verr] at hd
                  · simp only [Bool.not_eq_true] at hnc
                    by_cases hv : isVoidT td.ty = true
                    · rw [knownDoc_union_void A fl cls ht htd hv]
                      rw [decode_union_obj_void E hwf true fl hu ht htd hnc hv] at hd
                      have hc := (of_ite_verr hd).1
                      simp only [Bool.true_and, Bool.not_eq_true] at hc
                      exact void_strict_known hnd.1 hc
                    · simp only [Bool.not_eq_true] at hv
                      by_cases hp : isPlainStruct td.ty = true
                      · cases hq : td.ty <;> simp [hq, isPlainStruct] at hp
                        rename_i sfl sc
                        rw [knownDoc_union_struct A fl cls ht htd hq]
                        rw [decode_union_obj_struct E hwf true fl hu ht htd hnc hq] at hd
                        obtain ⟨s', hs'⟩ : ∃ s', A.struct? sc = some s' := tyWF_struct (hq ▸ hwt)
                        by_cases hlen : (sfl.nullable && kvs.length == 1) = true
                        · -- only the discriminator
                          simp only [Bool.and_eq_true, beq_iff_eq] at hlen
                          have hkvs := only_tag ht (by simp [hlen.2])
                          subst hkvs
                          have hfd : (structTable A sc).find? (·.1 == ".tag") = none := by
                            cases hfd : (structTable A sc).find? (·.1 == ".tag") with
                            | none => rfl
                            | some p =>
                              exfalso
                              unfold structTable at hfd
                              obtain ⟨f, hf, hfp⟩ := List.mem_map.mp (List.mem_of_find?_eq_some hfd)
                              have : p.1 = ".tag" := by simpa using List.find?_some hfd
                              exact field_name_ne_dotTag hwf hf (by rw [← this, ← hfp])
                          simp only [knownMembers, hfd, Bool.and_true]
                          simp
                        · simp only [hlen, Bool.false_eq_true, if_false] at hd
                          cases hfin : finishStruct E A [] true sc kvs (decodeMembers E A [] true (structTable A sc) kvs) with
                          | error e => simp [hfin] at hd
                          | ok v =>
                            exact knownMembers_of_ok E hwf kvs (structTable A sc) hnd.2
                              (fun p hp' => by
                                unfold structTable at hp'
                                obtain ⟨f, hf', rfl⟩ := List.mem_map.mp hp'
                                exact publicFields_tyWF hwf hf')
                              (fun k x hm' => membersOk_of_finishStruct E hwf hs' hnd.1 hfin k x hm')
                      · simp only [Bool.not_eq_true] at hp
                        rw [knownDoc_union_nested A fl cls ht htd hv hp]
                        rw [decode_union_obj_nested E hwf true fl hu ht htd hnc hv hp] at hd
                        have hne := publicTag_ne_dotTag hwf htd
                        cases hpl : payloadOf (childLookup tag (decodeMembers E A [] true [(tag, td.ty.withFlags {})] kvs))
                            (jsonLookup tag kvs).isSome td.ty.flags.nullable with
                        | error e => simp [hpl] at hd
                        | ok v =>
                          simp only [hpl] at hd
                          have hany := (of_ite_verr hd).1
                          simp only [Bool.not_eq_true] at hany
                          apply knownMembers_of_ok E hwf kvs _ hnd.2
                            (fun p hp' => by
                              simp only [List.mem_singleton] at hp'
                              subst hp'
                              exact tyWF_withFlags hwt hv)
                          intro k x hm
                          have h2 := List.any_eq_false.mp hany (k, x) hm
                          by_cases hk : k = tag
                          · subst hk
                            left
                            have hf : [(k, td.ty.withFlags {})].find? (·.1 == k) = some (k, td.ty.withFlags {}) := by simp
                            have hcl := childLookup_of_mem E A true _ hf hnd.1 hm
                            rw [hcl] at hpl
                            simp only [payloadOf] at hpl
                            exact ⟨k, _, v, hf, hpl⟩
                          · right
                            have : k = ".tag" := by
                              by_cases hk2 : k = ".tag"
                              · exact hk2
                              · exact absurd (by simp [hk, hk2]) h2
                            subst this
                            have hne' : (tag == ".tag") = false := by simpa using hne
                            simp [hne']
              | _ => unfold decode at hd; simp [ht, hu, PTy.flags, verr] at hd
          | _ => unfold decode at hd; simp_all [PTy.flags, verr, isNullJ]
theorem knownList_of_strict (E : Ext) {A : Env} (hwf : envWF A = true) :
    ∀ (xs : List JVal) (t : PTy) (ys : List PyVal), tyWF A t = true → nodupKeysList xs = true →
      decodeList E A [] true t xs = .ok ys → knownList A t xs = true
  | [], _, _, _, _, _ => rfl
  | x :: xs, t, ys, hw, hnd, hd => by
    simp only [nodupKeysList, Bool.and_eq_true] at hnd
    simp only [decodeList, bind, Except.bind] at hd
    cases h1 : decode E A [] true t x with
    | error e => simp [h1] at hd
    | ok y =>
      simp only [h1] at hd
      cases h2 : decodeList E A [] true t xs with
      | error e => simp [h2] at hd
      | ok ys' =>
        simp only [knownList, Bool.and_eq_true]
        exact ⟨known_of_strict E hwf x t y hw hnd.1 h1, knownList_of_strict E hwf xs t ys' hw hnd.2 h2⟩
theorem knownVals_of_strict (E : Ext) {A : Env} (hwf : envWF A = true) :
    ∀ (kvs : List (String × JVal)) (t : PTy) (ys : List (PyVal × PyVal)), tyWF A t = true → nodupKeysKvs kvs = true →
      decodeMap E A [] true t kvs = .ok ys → knownVals A t kvs = true
  | [], _, _, _, _, _ => rfl
  | (k, x) :: rest, t, ys, hw, hnd, hd => by
    simp only [nodupKeysKvs, Bool.and_eq_true] at hnd
    simp only [decodeMap, bind, Except.bind] at hd
    cases h1 : decode E A [] true t x with
    | error e => simp [h1] at hd
    | ok y =>
      simp only [h1] at hd
      cases h2 : decodeMap E A [] true t rest with
      | error e => simp [h2] at hd
      | ok ys' =>
        simp only [knownVals, Bool.and_eq_true]
        exact ⟨known_of_strict E hwf x t y hw hnd.1 h1, knownVals_of_strict E hwf rest t ys' hw hnd.2 h2⟩
theorem knownMembers_of_ok (E : Ext) {A : Env} (hwf : envWF A = true) :
    ∀ (kvs : List (String × JVal)) (tbl : List (String × PTy)), nodupKeysKvs kvs = true →
      (∀ p ∈ tbl, tyWF A p.2 = true) → MembersOk E A tbl kvs → knownMembers A tbl kvs = true
  | [], _, _, _, _ => rfl
  | (k, x) :: rest, tbl, hnd, hwt, hok => by
    simp only [nodupKeysKvs, Bool.and_eq_true] at hnd
    have ih := knownMembers_of_ok E hwf rest tbl hnd.2 hwt (fun k' x' hm => hok k' x' (List.mem_cons_of_mem _ hm))
    simp only [knownMembers, Bool.and_eq_true]
    refine ⟨?_, ih⟩
    rcases hok k x List.mem_cons_self with ⟨k', ft, v, hf, hv⟩ | ⟨hf, hs⟩
    · simp only [hf]
      exact known_of_strict E hwf x ft v (hwt _ (List.mem_of_find?_eq_some hf)) hnd.1 hv
    · simp only [hf]; exact hs
end

end StoneVerif.Rt.Compat
