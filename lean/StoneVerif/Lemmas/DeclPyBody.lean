import StoneVerif.Lemmas.DeclPySections
namespace StoneVerif.DeclPy

/-! ## The body of a module -/

def bodyStmts (api : Api) (ns : Namespace) : List Stmt :=
  annStmts ns ++ (classStmts api ns ++ (aliasSection api ns ++ (reflStmts api ns ++ (defaultSection ns
    ++ routeStmts ns.name ns.routes))))

theorem pyTypesStmts_eq (api : Api) (ns : Namespace) : pyTypesStmts api ns = importStmts ns ++ bodyStmts api ns := by
  simp only [pyTypesStmts, bodyStmts, List.append_assoc]

theorem fresh_after {st st' : St} {cur : Name} {l : List Stmt} (hs : Steps st cur l st') {N : List Name}
    (hdisj : ∀ n ∈ N, n ∉ l.flatMap Stmt.globals) (h0 : ∀ n ∈ N, st.global? cur n = none) :
    ∀ n ∈ N, st'.global? cur n = none := by
  intro n hn
  rw [hs.frame cur n (fun _ => hdisj n hn)]
  exact h0 n hn

theorem body_ok {api : Api} (hapi : apiWF api = true) {ns : Namespace} (hns : ns ∈ api.namespaces) (st : St)
    (hwf : StWF st) (hctx : Ctx api st ns)
    (honly : ∀ n, (st.global? (modName ns) n).isSome = true → n ∈ ns.imports.map fmtNamespace) :
    ∃ st', Steps st (modName ns) (bodyStmts api ns) st' ∧ Loaded api st' ns := by
  have hnd := bindNames_nodup hapi hns
  simp only [bindNames, List.append_assoc] at hnd
  -- I ++ (A ++ (C ++ (AL ++ (R ++ [ROUTES]))))
  obtain ⟨_, hnd1, hdI⟩ := List.nodup_append.mp hnd
  obtain ⟨hndA, hnd2, hdA⟩ := List.nodup_append.mp hnd1
  obtain ⟨hndC, hnd3, hdC⟩ := List.nodup_append.mp hnd2
  obtain ⟨hndAL, hndR, hdAL⟩ := List.nodup_append.mp hnd3
  have hfresh0 : ∀ n, n ∈ (ns.annTypes.map (fmtClass ·.name) ++ (ns.types.flatMap (fun d => [fmtClass d.name, fmtClass d.name ++ "_validator"])
      ++ (ns.aliases.flatMap (fun a => (fmtClass a.name ++ "_validator") ::
          (if aliasEndsInUser api api.nAliases a.ty then [fmtClass a.name] else []))
      ++ (ns.routes.map (fun r => fmtFunc r.name false r.version) ++ ["ROUTES"])))) →
      st.global? (modName ns) n = none := by
    intro n hn
    cases hg : st.global? (modName ns) n with
    | none => rfl
    | some v =>
      have := honly n (by simp [hg])
      exact absurd rfl (hdI n this n hn)
  -- annotation types
  obtain ⟨st1, hs1⟩ := sec_ann ns st hwf hctx.started (by rw [globals_annStmts]; exact hndA)
    (by rw [globals_annStmts]; intro n hn; exact hfresh0 n (List.mem_append_left _ hn))
  -- classes
  obtain ⟨st2, hs2, hcls2⟩ := sec_classes hapi hns st1 hs1.wf (hctx.mono hs1.le)
    (by rw [globals_classStmts]; exact hndC)
    (by
      rw [globals_classStmts]
      refine fresh_after hs1 (fun n hn => ?_)
        (fun n hn => hfresh0 n (List.mem_append_right _ (List.mem_append_left _ hn)))
      rw [globals_annStmts]
      exact fun h => hdA n h n (List.mem_append_left _ hn) rfl)
  have hs12 := hs1.append hs2
  -- aliases
  obtain ⟨st3, hs3, hals3⟩ := sec_aliases hapi hns st2 hs2.wf (hctx.mono hs12.le) hcls2
    (by rw [globals_aliasSection]; exact hndAL)
    (by
      rw [globals_aliasSection]
      refine fresh_after hs12 (fun n hn => ?_)
        (fun n hn => hfresh0 n (List.mem_append_right _ (List.mem_append_right _ (List.mem_append_left _ hn))))
      rw [List.flatMap_append, globals_annStmts, globals_classStmts, List.mem_append]
      rintro (h | h)
      · exact hdA n h n (List.mem_append_right _ (List.mem_append_left _ hn)) rfl
      · exact hdC n h n (List.mem_append_left _ hn) rfl)
  have hs123 := hs12.append hs3
  have hcls3 : ∀ d ∈ ns.types, ClassOK api st3 ns d := fun d hd => (hcls2 d hd).mono hs3.le
  -- reflection
  obtain ⟨st4, hs4, hrefl4⟩ := sec_refl hapi hns st3 hs3.wf (hctx.mono hs123.le) hcls3 hals3
  have hs1234 := hs123.append hs4
  have hcls4 : ∀ d ∈ ns.types, ClassOK api st4 ns d := fun d hd => (hcls3 d hd).mono hs4.le
  have hals4 : ∀ a ∈ ns.aliases, AliasOK api st4 ns a := fun a ha => (hals3 a ha).mono hs4.le
  -- defaults
  obtain ⟨st5, hs5⟩ := sec_defaults hapi hns st4 hs4.wf (hctx.mono hs1234.le) hcls4 hals4
  have hs12345 := hs1234.append hs5
  have hcls5 : ∀ d ∈ ns.types, ClassOK api st5 ns d := fun d hd => (hcls4 d hd).mono hs5.le
  have hals5 : ∀ a ∈ ns.aliases, AliasOK api st5 ns a := fun a ha => (hals4 a ha).mono hs5.le
  -- routes
  obtain ⟨st6, hs6⟩ := sec_routes hapi hns st5 hs5.wf (hctx.mono hs12345.le) hcls5 hals5
    (by rw [globals_routeStmts]; exact hndR)
    (by
      rw [globals_routeStmts]
      refine fresh_after hs12345 (fun n hn => ?_)
        (fun n hn => hfresh0 n (List.mem_append_right _ (List.mem_append_right _ (List.mem_append_right _ hn))))
      simp only [List.flatMap_append, globals_annStmts, globals_classStmts, globals_aliasSection,
        globals_reflStmts, globals_defaultSection, List.append_nil, List.mem_append]
      rintro ((h | h) | h)
      · exact hdA n h n (List.mem_append_right _ (List.mem_append_right _ hn)) rfl
      · exact hdC n h n (List.mem_append_right _ hn) rfl
      · exact hdAL n h n hn rfl)
  have hall := hs12345.append hs6
  refine ⟨st6, ?_, hall.le.started _ hctx.started, fun d hd => (hcls5 d hd).mono hs6.le,
    fun d hd => (hrefl4 d hd).mono (hs5.le.trans hs6.le), fun a ha => (hals5 a ha).mono hs6.le⟩
  simpa only [bodyStmts, List.append_assoc] using hall

end StoneVerif.DeclPy
