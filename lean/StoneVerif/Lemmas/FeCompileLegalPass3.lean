import StoneVerif.Lemmas.FeCompileLegalResolve
import StoneVerif.Lemmas.FeCompileFuel
import StoneVerif.Lemmas.FeCompileAcyclic
set_option linter.unusedSimpArgs false
/-!
LegalCore declarations go through pass 3 (`_populate_type_attributes`) of the compileCore model: no alias is refused, no
population of a type fails, whatever the order.
-/
namespace StoneVerif.FeCompile.L
open StoneVerif.FeCompile
open StoneVerif.FeParams (TyKind)

/-- every declaration obeys its rules -/
def DeclsLegal (rx : String → Bool) (fs : List File) : Prop := ∀ p, p ∈ allPairs fs → declLegal rx fs p.1 p.2 = true

/-! ## the tables against the specification-level maps -/

theorem Inv.below {rx E fs st} (hE : EnvOK E fs) (hI : Inv rx E fs st) : Below st.aliases (aliasS rx fs) := by
  intro k t hl
  obtain ⟨r, hr, hd⟩ := hI.aliases k t (mem_of_lookup hl)
  obtain ⟨d', hf, hd'⟩ := hE.findDef_of_lookup (ns := k.1) (n := k.2) hr (Or.inr ⟨r, rfl⟩)
  cases d' <;> simp [itemOf] at hd'
  subst hd'
  simp [aliasS, hf, hd]

theorem Inv.typesBelow {rx E fs st} (hE : EnvOK E fs) (hI : Inv rx E fs st) {k c} (hl : st.done.lookup k = some c) :
    typeS rx fs k = some c := by
  obtain ⟨d, hd, hden⟩ := hI.done k c (mem_of_lookup hl)
  obtain ⟨d', hf, hd'⟩ := hE.findDef_of_lookup (ns := k.1) (n := k.2) hd (Or.inl ⟨d, rfl⟩)
  cases d' <;> simp [itemOf] at hd'
  subst hd'
  simp [typeS, hf, hden]

theorem typeS_of_lookup {rx E fs} (hE : EnvOK E fs) {k d} (hl : E.items.lookup k = some (.type d)) :
    typeS rx fs k = denoteType rx fs k.1 d := by
  obtain ⟨d', hf, hd'⟩ := hE.findDef_of_lookup (ns := k.1) (n := k.2) hl (Or.inl ⟨d, rfl⟩)
  cases d' <;> simp [itemOf] at hd'
  subst hd'
  simp [typeS, hf]

/-- on a table that holds all ancestors of what it holds, the walk up gives what it gives on any larger map -/
theorem anc_mono {types types' : Key → Option CType} (hle : ∀ k c, types k = some c → types' k = some c)
    (hcl : ∀ k c, types k = some c → ∀ p, c.parent = some p → (types p).isSome) :
    ∀ (f : Nat) {par anc}, (∀ p, par = some p → (types p).isSome) → ancestorNames types' f par = .ok anc →
      ancestorNames types f par = .ok anc
  | _, none, anc, _, h => by simpa [ancestorNames] using h
  | 0, some p, anc, _, h => by simp [ancestorNames] at h
  | f + 1, some p, anc, hp, h => by
    simp only [ancestorNames] at h ⊢
    cases hc : types p with
    | none => have := hp p rfl; rw [hc] at this; cases this
    | some c =>
      rw [hle p c hc] at h
      simp only at h ⊢
      cases ha : ancestorNames types' f c.parent with
      | error e => rw [ha] at h; cases h
      | ok anc' =>
        rw [ha] at h
        rw [anc_mono hle hcl f (hcl p c hc) ha]
        exact h

/-! ## no inheritance cycle where the walk up ends -/

def succP (rx : String → Bool) (fs : List File) (k : Key) : List Key := ((typeS rx fs k).bind (·.parent)).toList

theorem mem_succP {rx fs k p} : p ∈ succP rx fs k ↔ ∃ c, typeS rx fs k = some c ∧ c.parent = some p := by
  unfold succP
  cases typeS rx fs k with
  | none => simp
  | some c => cases hp : c.parent <;> simp [hp, eq_comm]

theorem cyc_no_anc {rx fs} : ∀ (f : Nat) {k}, Gr.Path (succP rx fs) k k → ∀ anc, ancestorNames (typeS rx fs) f (some k) ≠ .ok anc
  | 0, _, _, anc => by simp [ancestorNames]
  | f + 1, k, hp, anc => by
    simp only [ancestorNames]
    cases hc : typeS rx fs k with
    | none => simp
    | some c =>
      simp only
      -- the only edge out of `k` goes to its parent, which lies on the cycle too
      have hrot : ∃ p', c.parent = some p' ∧ Gr.Path (succP rx fs) p' p' := by
        cases hp with
        | single he =>
          obtain ⟨c', hc', hpar⟩ := mem_succP.mp he
          rw [hc] at hc'; cases hc'
          exact ⟨k, hpar, .single he⟩
        | cons he hrest =>
          obtain ⟨c', hc', hpar⟩ := mem_succP.mp he
          rw [hc] at hc'; cases hc'
          exact ⟨_, hpar, hrest.trans (.single he)⟩
      obtain ⟨p', hpar, hcyc⟩ := hrot
      rw [hpar]
      cases ha : ancestorNames (typeS rx fs) f (some p') with
      | error e => simp
      | ok anc' => exact absurd ha (cyc_no_anc f hcyc anc')

/-! ## one field, one list of fields -/

theorem mapFields_ok {g : AField → Except Err CField} : ∀ {l : List AField}, (∀ f, f ∈ l → ∃ c, g f = .ok c) →
    ∃ cs, mapFields g l = .ok cs
  | [], _ => ⟨[], rfl⟩
  | f :: l, h => by
    obtain ⟨c, hc⟩ := h f List.mem_cons_self
    obtain ⟨cs, hcs⟩ := mapFields_ok (l := l) (fun f' hf' => h f' (List.mem_cons_of_mem _ hf'))
    exact ⟨c :: cs, by simp [mapFields, hc, hcs]⟩

theorem refLegal_parts {rx fs ns r} (h : refLegal rx fs ns r = true) :
    refStatic rx fs ns r = true ∧ ∃ t, denoteRef rx fs ns r = some t ∧ tyNullLegal (aliasS rx fs) (fuelA fs) t = true := by
  unfold refLegal at h
  simp only [Bool.and_eq_true] at h
  cases hd : denoteRef rx fs ns r with
  | none => simp [hd] at h
  | some t => simp only [hd] at h; exact ⟨h.1, t, rfl, h.2⟩

theorem aliasFuel_eq {E fs} (hE : EnvOK E fs) : aliasFuel E = fuelA fs := by unfold aliasFuel fuelA; rw [hE.files]
theorem populateFuel_eq {E fs} (hE : EnvOK E fs) : populateFuel E = fuelT fs := by unfold populateFuel fuelT; rw [hE.files]

/-- a legal reference resolves, to what it denotes -/
theorem resolve_ok_of_legal {rx E fs A} (hE : EnvOK2 E fs) (hA : Below A (aliasS rx fs)) {ns r}
    (h : refLegal rx fs ns r = true) : ∃ t, resolve rx E A ns r = .ok t ∧ denoteRef rx fs ns r = some t ∧
      tyNullLegal (aliasS rx fs) (fuelA fs) t = true := by
  obtain ⟨hs, t, hd, hn⟩ := refLegal_parts h
  obtain ⟨t', ht'⟩ := resolveW_ok_of_legal hE hA r (wrap := true) hs hd (by rw [aliasFuel_eq hE.ok]; exact hn)
  have := resolve_denote hE.ok (show resolve rx E A ns r = .ok t' from ht')
  rw [hd] at this
  cases this
  exact ⟨t, ht', hd, hn⟩

theorem structField_ok {rx E fs A ns f} (hE : EnvOK2 E fs) (hA : Below A (aliasS rx fs))
    (h : structMemberLegal rx fs ns f = true) :
    ∃ c, structField rx E A ns f = .ok c ∧ tyNullLegal (aliasS rx fs) (fuelA fs) c.ty = true := by
  unfold structMemberLegal at h
  cases hty : f.ty with
  | none => simp [hty] at h
  | some r =>
    simp only [hty, Bool.and_eq_true] at h
    obtain ⟨t, hr, hd, hn⟩ := resolve_ok_of_legal hE hA h.1
    simp only [hd, Bool.and_eq_true, Bool.not_eq_eq_eq_not, Bool.not_true] at h
    refine ⟨{ name := f.name, ty := t, hasDefault := f.hasDefault }, ?_, hn⟩
    unfold structField
    simp only [hty, hr]
    simp [h.2.1, h.2.2]

theorem unionField_ok {rx E fs A ns f} (hE : EnvOK2 E fs) (hA : Below A (aliasS rx fs))
    (h : unionMemberLegal rx fs ns f = true) :
    ∃ c, unionField rx E A ns f = .ok c ∧ tyNullLegal (aliasS rx fs) (fuelA fs) c.ty = true := by
  unfold unionMemberLegal at h
  simp only [Bool.and_eq_true, bne_iff_ne, ne_eq] at h
  have hname : (f.name == "other") = false := by simpa using h.1
  unfold unionField
  simp only [hname, Bool.false_eq_true, ↓reduceIte]
  cases hty : f.ty with
  | none => exact ⟨_, rfl, by simp [tyNullLegal, tyVoid, nullRefs]⟩
  | some r =>
    have h2 := h.2
    simp only [hty, Bool.and_eq_true] at h2
    obtain ⟨t, hr, hd, hn⟩ := resolve_ok_of_legal hE hA h2.1
    simp only [hd, Bool.not_eq_eq_eq_not, Bool.not_true] at h2
    refine ⟨{ name := f.name, ty := t, hasDefault := false }, ?_, hn⟩
    simp [hr, h2.2]

theorem mapFields_nrefs {g : AField → Except Err CField} {P : CField → Prop} : ∀ {l : List AField} {cs},
    (∀ f c, f ∈ l → g f = .ok c → P c) → mapFields g l = .ok cs → ∀ c, c ∈ cs → P c
  | [], cs, _, h, c, hc => by simp only [mapFields] at h; cases h; simp at hc
  | f :: l, cs, hp, h, c, hc => by
    simp only [mapFields] at h
    split at h
    · cases h
    · rename_i c0 hc0
      split at h
      · cases h
      · rename_i cs0 hcs0
        cases h
        simp only [List.mem_cons] at hc
        rcases hc with rfl | hc
        · exact hp f _ List.mem_cons_self hc0
        · exact mapFields_nrefs (fun f' c' hf' => hp f' c' (List.mem_cons_of_mem _ hf')) hcs0 c hc

/-! ## the invariant of pass 3 on legal input -/

structure J (rx : String → Bool) (E : Env) (fs : List File) (st : St) : Prop where
  inv : Inv rx E fs st
  closed : ∀ k c, st.done.lookup k = some c → ∀ p, c.parent = some p → (st.done.lookup p).isSome
  nrefs : ∀ u, u ∈ st.nrefs → nullOK (aliasS rx fs) (fuelA fs) u = true

theorem J.init {rx E fs} : J rx E fs {} := ⟨Inv.init, by simp, by simp⟩

theorem typeLegal_parts {rx fs ns d} (h : typeLegal rx fs ns d = true) :
    extendsLegal rx fs ns d = true ∧
    (match d.kind with
     | .struct => d.fields.all (structMemberLegal rx fs ns)
     | .union _ => d.fields.all (unionMemberLegal rx fs ns)) = true ∧
    ∃ c, denoteType rx fs ns d = some c ∧ dupName (c.fields.map (·.name)) = false ∧
      (∃ anc, ancestorNames (typeS rx fs) (fuelT fs) c.parent = .ok anc ∧ (c.fields.any fun f => anc.contains f.name) = false) ∧
      (match d.kind with
       | .struct => c.fields.all fun f =>
           isOk (defaultLegal (fuelA fs) (aliasS rx fs) (fun k => isUnionKind (kindS fs k)) f)
       | .union _ => true) = true ∧
      enumLegal rx fs ns d c = true := by
  unfold typeLegal at h
  simp only [Bool.and_eq_true] at h
  obtain ⟨⟨h1, h2⟩, h3⟩ := h
  refine ⟨h1, h2, ?_⟩
  cases hd : denoteType rx fs ns d with
  | none => simp [hd] at h3
  | some c =>
    simp only [hd, Bool.and_eq_true, Bool.not_eq_eq_eq_not, Bool.not_true] at h3
    obtain ⟨⟨⟨h4, h5⟩, h6⟩, h7⟩ := h3
    refine ⟨c, rfl, h4, ?_, h6, h7⟩
    cases ha : ancestorNames (typeS rx fs) (fuelT fs) c.parent with
    | error e => simp [ha] at h5
    | ok anc => simp only [ha] at h5; exact ⟨anc, rfl, by simpa using h5⟩

theorem extendsLegal_none {rx fs ns d} (h : d.extends = none) : extendsLegal rx fs ns d = true := by
  unfold extendsLegal; rw [h]

theorem extendsLegal_parts {rx fs ns d r} (h : extendsLegal rx fs ns d = true) (hr : d.extends = some r) :
    r.head.nullable = false ∧ refStatic rx fs ns r = true ∧ ∃ p, denoteRef rx fs ns r = some (.user p) ∧
      (match d.kind, kindS fs p with
       | .struct, some .struct => true
       | .union closed, some (.union pclosed) => !(closed && !pclosed)
       | _, _ => false) = true := by
  unfold extendsLegal at h
  simp only [hr, Bool.and_eq_true, Bool.not_eq_eq_eq_not, Bool.not_true] at h
  obtain ⟨⟨h1, h2⟩, h3⟩ := h
  refine ⟨h1, h2, ?_⟩
  split at h3
  · rename_i p hp; exact ⟨p, hp, h3⟩
  · cases h3

/-- the parent slot handed to `populateStep` on legal input -/
def ParentReady (rx : String → Bool) (fs : List File) (st : St) (key : Key) (d : TypeDecl) : Option Ty → Prop
  | none => d.extends = none
  | some t' => ∃ r p, d.extends = some r ∧ t' = .user p ∧ denoteRef rx fs key.1 r = some (.user p) ∧
      (st.done.lookup p).isSome

theorem populateStep_ok {rx E fs st1 key d pty} (hE : EnvOK2 E fs) (hJ : J rx E fs st1)
    (hk : E.items.lookup key = some (.type d)) (hl : typeLegal rx fs key.1 d = true)
    (hp : ParentReady rx fs st1 key d pty) (hfresh : st1.done.lookup key = none) :
    ∃ st' c, populateStep rx E st1 key d pty = .ok st' ∧ st'.done = (key, c) :: st1.done ∧
      st'.aliases = st1.aliases ∧ J rx E fs st' := by
  obtain ⟨hext, hmem, c, hden, hdup, ⟨anc, hanc, hany⟩, _, _⟩ := typeLegal_parts hl
  have hA := hJ.inv.below hE.ok
  -- the old-style description of the parent slot
  have hp' : ParentDen rx fs key.1 d pty := by
    cases pty with
    | none => exact hp
    | some t' => obtain ⟨r, p, h1, rfl, h3, _⟩ := hp; exact ⟨r, h1, h3⟩
  have hparentDone : ∀ p, c.parent = some p → (st1.done.lookup p).isSome := by
    intro p hcp
    cases pty with
    | none =>
      simp only [ParentReady] at hp
      have : denoteParent rx fs key.1 d = some none := by unfold denoteParent; rw [hp]
      unfold denoteType at hden
      rw [this] at hden
      split at hden
      · rename_i parent fields hpar _
        cases hpar
        split at hden <;> (cases hden; simp at hcp)
      · cases hden
    | some t' =>
      obtain ⟨r, p', h1, rfl, h3, h4⟩ := hp
      have : denoteParent rx fs key.1 d = some (some p') := by unfold denoteParent; simp [h1, h3]
      unfold denoteType at hden
      rw [this] at hden
      split at hden
      · rename_i parent fields hpar _
        cases hpar
        split at hden <;> (cases hden; simp at hcp; subst hcp; exact h4)
      · cases hden
  have hancDone : ancestorNames (typesOf st1.done) (populateFuel E) c.parent = .ok anc := by
    rw [populateFuel_eq hE.ok]
    exact anc_mono (fun k c hl => hJ.inv.typesBelow hE.ok hl) hJ.closed _ hparentDone hanc
  unfold populateStep
  cases hkind : d.kind with
  | struct =>
    simp only [hkind] at hmem ⊢
    -- parent
    have hpar : ∃ parent, structParentOpt E pty = .ok parent := by
      cases pty with
      | none => exact ⟨none, rfl⟩
      | some t' =>
        obtain ⟨r, p, h1, rfl, h3, h4⟩ := hp
        obtain ⟨_, _, p', hp', hkd⟩ := extendsLegal_parts hext h1
        rw [h3] at hp'
        cases hp'
        rw [hkind] at hkd
        have hks : kindS fs p = some .struct := by
          cases hh : kindS fs p with
          | none => simp [hh] at hkd
          | some kd => cases kd <;> simp [hh] at hkd ⊢
        refine ⟨some p, ?_⟩
        simp [structParentOpt, structParent, hE.ok.kindOf_eq, hks]
    obtain ⟨parent, hparent⟩ := hpar
    rw [hparent]
    simp only
    rw [List.all_eq_true] at hmem
    obtain ⟨fields, hfields⟩ := mapFields_ok (g := structField rx E st1.aliases key.1)
      (fun f hf => (structField_ok hE hA (hmem f hf)).imp fun _ h => h.1)
    rw [hfields]
    simp only
    have hc : denoteType rx fs key.1 d = some { isStruct := true, parent := parent, fields := fields } := by
      have hf := mapFields_optMapM (h := denoteField rx fs key.1 true) (fun f c => structField_denote hE.ok) hfields
      have hdp := structParentOpt_denote hp' hparent
      unfold denoteType
      simp [hdp, hkind, hf]
    rw [hden] at hc
    cases hc
    have hset : setAttributes (populateFuel E)
        { st1 with nrefs := st1.nrefs ++ fields.flatMap (fun f => nullRefs f.ty) } key
        { isStruct := true, parent := parent, fields := fields } =
        .ok { st1 with nrefs := st1.nrefs ++ fields.flatMap (fun f => nullRefs f.ty),
                       done := (key, { isStruct := true, parent := parent, fields := fields }) :: st1.done } := by
      unfold setAttributes
      simp only [hdup, Bool.false_eq_true, ↓reduceIte, hancDone, hany]
    refine ⟨_, _, hset, rfl, rfl, ?_⟩
    have hstep : populateStep rx E st1 key d pty =
        .ok { st1 with nrefs := st1.nrefs ++ fields.flatMap (fun f => nullRefs f.ty),
                       done := (key, { isStruct := true, parent := parent, fields := fields }) :: st1.done } := by
      unfold populateStep
      simp only [hkind, hparent, hfields]
      exact hset
    refine ⟨populateStep_inv hE.ok hJ.inv hk hp' hstep, ?_, ?_⟩
    · intro k' c' hl' p hcp
      simp only at hl' ⊢
      by_cases hkk : k' = key
      · subst hkk
        rw [lookup_cons_self] at hl'
        cases hl'
        exact lookup_isSome_cons (hparentDone p hcp)
      · rw [lookup_cons_ne hkk] at hl'
        exact lookup_isSome_cons (hJ.closed k' c' hl' p hcp)
    · intro u hu
      simp only [List.mem_append, List.mem_flatMap] at hu
      rcases hu with hu | ⟨f, hf, hu⟩
      · exact hJ.nrefs u hu
      · have := mapFields_nrefs (P := fun c => tyNullLegal (aliasS rx fs) (fuelA fs) c.ty = true)
          (fun f' c' hf' hc' => by
            obtain ⟨c'', h1, h2⟩ := structField_ok hE hA (hmem f' hf')
            rw [h1] at hc'; cases hc'; exact h2) hfields f hf
        unfold tyNullLegal at this
        rw [List.all_eq_true] at this
        exact this u hu
  | union closed =>
    simp only [hkind] at hmem ⊢
    have hpar : ∃ parent, unionParentOpt E pty = .ok parent ∧ (closed && parentIsOpen parent) = false := by
      cases pty with
      | none => exact ⟨none, rfl, by simp [parentIsOpen]⟩
      | some t' =>
        obtain ⟨r, p, h1, rfl, h3, h4⟩ := hp
        obtain ⟨_, _, p', hp', hkd⟩ := extendsLegal_parts hext h1
        rw [h3] at hp'
        cases hp'
        rw [hkind] at hkd
        cases hh : kindS fs p with
        | none => simp [hh] at hkd
        | some kd =>
          cases kd with
          | struct => simp [hh] at hkd
          | union pclosed =>
            simp only [hh, Bool.not_eq_eq_eq_not, Bool.not_true] at hkd
            refine ⟨some (p, pclosed), ?_, ?_⟩
            · simp [unionParentOpt, unionParent, hE.ok.kindOf_eq, hh]
            · simpa [parentIsOpen] using hkd
    obtain ⟨parent, hparent, hopen⟩ := hpar
    rw [hparent]
    simp only
    rw [List.all_eq_true] at hmem
    obtain ⟨fields, hfields⟩ := mapFields_ok (g := unionField rx E st1.aliases key.1)
      (fun f hf => (unionField_ok hE hA (hmem f hf)).imp fun _ h => h.1)
    rw [hfields]
    simp only [hopen, Bool.false_eq_true, ↓reduceIte]
    have hc : denoteType rx fs key.1 d = some (unionCType closed parent fields) := by
      have hf := mapFields_optMapM (h := denoteField rx fs key.1 false) (fun f c => unionField_denote hE.ok) hfields
      obtain ⟨hdp, hop⟩ := unionParentOpt_denote hE.ok hp' hparent
      have hkb : (TypeKind.union closed == TypeKind.struct) = false := by cases closed <;> rfl
      unfold denoteType
      simp only [hdp, hkind, hkb, hf]
      simp [hop, unionCType]
    rw [hden] at hc
    cases hc
    have hset : setAttributes (populateFuel E)
        { st1 with nrefs := st1.nrefs ++ fields.flatMap (fun f => nullRefs f.ty) } key
        (unionCType closed parent fields) =
        .ok { st1 with nrefs := st1.nrefs ++ fields.flatMap (fun f => nullRefs f.ty),
                       done := (key, unionCType closed parent fields) :: st1.done } := by
      unfold setAttributes
      simp only [hdup, Bool.false_eq_true, ↓reduceIte, hancDone, hany]
    refine ⟨_, _, hset, rfl, rfl, ?_⟩
    have hstep : populateStep rx E st1 key d pty =
        .ok { st1 with nrefs := st1.nrefs ++ fields.flatMap (fun f => nullRefs f.ty),
                       done := (key, unionCType closed parent fields) :: st1.done } := by
      unfold populateStep
      simp only [hkind, hparent, hfields, hopen, Bool.false_eq_true, ↓reduceIte]
      exact hset
    refine ⟨populateStep_inv hE.ok hJ.inv hk hp' hstep, ?_, ?_⟩
    · intro k' c' hl' p hcp
      simp only at hl' ⊢
      by_cases hkk : k' = key
      · subst hkk
        rw [lookup_cons_self] at hl'
        cases hl'
        exact lookup_isSome_cons (hparentDone p hcp)
      · rw [lookup_cons_ne hkk] at hl'
        exact lookup_isSome_cons (hJ.closed k' c' hl' p hcp)
    · intro u hu
      simp only [List.mem_append, List.mem_flatMap] at hu
      rcases hu with hu | ⟨f, hf, hu⟩
      · exact hJ.nrefs u hu
      · have := mapFields_nrefs (P := fun c => tyNullLegal (aliasS rx fs) (fuelA fs) c.ty = true)
          (fun f' c' hf' hc' => by
            obtain ⟨c'', h1, h2⟩ := unionField_ok hE hA (hmem f' hf')
            rw [h1] at hc'; cases hc'; exact h2) hfields f hf
        unfold tyNullLegal at this
        rw [List.all_eq_true] at this
        exact this u hu

/-! ## population, depth first -/

theorem denoteType_parent {rx fs ns d c} (h : denoteType rx fs ns d = some c) : denoteParent rx fs ns d = some c.parent := by
  unfold denoteType at h
  split at h
  · rename_i parent fields hp _
    split at h <;> (cases h; exact hp)
  · cases h

theorem legal_of_lookup {rx E fs} (hE : EnvOK E fs) (hL : DeclsLegal rx fs) {k d}
    (hk : E.items.lookup k = some (.type d)) : typeLegal rx fs k.1 d = true := by
  have := (hE.type_decl hk).1
  have hm : (k.1, Decl.type d) ∈ allPairs fs := by rw [allPairs_eq]; exact mem_declsOf.mp this
  exact hL _ hm

/-- the tables only grow -/
def Grow (st st' : St) : Prop :=
  (∀ k, (st.done.lookup k).isSome → (st'.done.lookup k).isSome) ∧
  (∀ k, (st.aliases.lookup k).isSome → (st'.aliases.lookup k).isSome)

theorem Grow.refl (st : St) : Grow st st := ⟨fun _ h => h, fun _ h => h⟩
theorem Grow.trans {a b c : St} (h1 : Grow a b) (h2 : Grow b c) : Grow a c :=
  ⟨fun k h => h2.1 k (h1.1 k h), fun k h => h2.2 k (h1.2 k h)⟩

theorem populate_ok {rx E fs} (hE : EnvOK2 E fs) (hL : DeclsLegal rx fs) : ∀ (fuel : Nat) {prog st key d},
    J rx E fs st → E.items.lookup key = some (.type d) → slack fs prog < fuel → key ∈ prog →
    (∀ x, x ∈ prog → Gr.Reach (succP rx fs) x key) → st.done.lookup key = none →
    ∃ st', populate rx E fuel prog st key d = .ok st' ∧ J rx E fs st' ∧ st'.aliases = st.aliases ∧
      (st'.done.lookup key).isSome ∧ Grow st st' ∧
      (∀ k, k ∈ prog → k ≠ key → st.done.lookup k = none → st'.done.lookup k = none)
  | 0, _, _, _, _, _, _, h, _, _, _ => by omega
  | fuel + 1, prog, st, key, d, hJ, hk, hfuel, hkin, hreach, hfresh => by
    have hl := legal_of_lookup hE.ok hL hk
    obtain ⟨hext, _, c, hden, _, ⟨anc, hanc, _⟩, _, _⟩ := typeLegal_parts hl
    have htypeS : typeS rx fs key = some c := by rw [typeS_of_lookup hE.ok hk]; exact hden
    simp only [populate]
    cases hx : d.extends with
    | none =>
      obtain ⟨st', c', hs, hdone, hal, hJ'⟩ := populateStep_ok hE hJ hk hl (pty := none) hx hfresh
      refine ⟨st', hs, hJ', hal, by rw [hdone, lookup_cons_self]; rfl, ⟨?_, ?_⟩, ?_⟩
      · intro k h; rw [hdone]; exact lookup_isSome_cons h
      · intro k h; rw [hal]; exact h
      · intro k _ hne hn; rw [hdone, lookup_cons_ne hne]; exact hn
    | some r =>
      obtain ⟨hnn, hstat, p, hdr, hkd⟩ := extendsLegal_parts hext hx
      have hA := hJ.inv.below hE.ok
      -- the reference resolves to the parent
      obtain ⟨t', ht'⟩ := resolveW_ok_of_legal hE hA r (wrap := false) (cur := key.1) hstat hdr
        (by simp [tyNullLegal, nullRefs])
      obtain ⟨t0, hd0, ht0⟩ := resolveW_denote hE.ok r ht'
      simp only [Bool.false_eq_true, ↓reduceIte] at ht0
      subst ht0
      rw [hdr] at hd0
      have htp : t' = .user p := by
        simp only [nullableMeaning, hnn, Bool.false_eq_true, ↓reduceIte, Option.some.injEq] at hd0
        exact hd0.symm
      subst htp
      simp only [ht']
      -- the edge key → p of the inheritance graph
      have hpar : c.parent = some p := by
        have := denoteType_parent hden
        unfold denoteParent at this
        simp only [hx, hdr, Option.some.injEq] at this
        exact this.symm
      have hedge : p ∈ succP rx fs key := mem_succP.mpr ⟨c, htypeS, hpar⟩
      have hnocyc : ¬ Gr.Path (succP rx fs) p p := by
        intro hcyc
        rw [hpar] at hanc
        exact cyc_no_anc _ hcyc anc hanc
      have hkp : key ≠ p := by
        rintro rfl
        exact hnocyc (.single hedge)
      -- `p` is a declared type
      have hkpd : ∃ d', E.items.lookup p = some (.type d') := by
        have : (kindS fs p).isSome := by
          cases hh : kindS fs p with
          | none => cases hkk : d.kind <;> simp [hh, hkk] at hkd
          | some _ => rfl
        rw [← hE.ok.kindOf_eq] at this
        cases hko : kindOf E p with
        | none => rw [hko] at this; cases this
        | some kd => obtain ⟨d', hd', _⟩ := kindOf_some hko; exact ⟨d', hd'⟩
      obtain ⟨d', hd'⟩ := hkpd
      have hw : ∀ A : AliasMap, wrapNull (aliasFuel E) (lookOf A) r.head.nullable (.user p) = .ok (.user p) := by
        intro A; simp [wrapNull, hnn]
      -- what remains once the parent is in the table
      have tail : ∀ st1, J rx E fs st1 → st1.aliases = st.aliases → (st1.done.lookup p).isSome → Grow st st1 →
          st1.done.lookup key = none →
          (∀ k, k ∈ prog → k ≠ key → st.done.lookup k = none → st1.done.lookup k = none) →
          ∃ st', populateStep rx E { st1 with nrefs := st1.nrefs ++ nullRefs (.user p) } key d (some (.user p)) = .ok st' ∧
            J rx E fs st' ∧ st'.aliases = st.aliases ∧ (st'.done.lookup key).isSome ∧ Grow st st' ∧
            (∀ k, k ∈ prog → k ≠ key → st.done.lookup k = none → st'.done.lookup k = none) := by
        intro st1 hJ1 hal1 hsome1 hgrow1 hfresh1 hstay1
        have hJ1' : J rx E fs { st1 with nrefs := st1.nrefs ++ nullRefs (.user p) } :=
          ⟨hJ1.inv.nrefs _, hJ1.closed, by simpa [nullRefs] using hJ1.nrefs⟩
        obtain ⟨st', c', hs, hdone, hal, hJ'⟩ := populateStep_ok hE hJ1' hk hl (pty := some (.user p))
          ⟨r, p, hx, rfl, hdr, hsome1⟩ hfresh1
        refine ⟨st', hs, hJ', by rw [hal]; exact hal1, by rw [hdone, lookup_cons_self]; rfl, ⟨?_, ?_⟩, ?_⟩
        · intro k h; rw [hdone]; exact lookup_isSome_cons (hgrow1.1 k h)
        · intro k h; rw [hal]; exact hgrow1.2 k h
        · intro k hk hne hn; rw [hdone, lookup_cons_ne hne]; exact hstay1 k hk hne hn
      by_cases hdn : (st.done.lookup p).isSome = true
      · simp only [hdn, ↓reduceIte, hw]
        exact tail st hJ rfl hdn (Grow.refl st) hfresh (fun _ _ _ h => h)
      · simp only [hdn, Bool.false_eq_true, ↓reduceIte]
        have hpn : st.done.lookup p = none := by
          cases hq : st.done.lookup p with
          | none => rfl
          | some v => simp [hq] at hdn
        by_cases hpc : prog.contains p = true
        · exfalso
          exact hnocyc (Gr.path_of_reach_edge (hreach p (List.contains_iff_mem.mp hpc)) hedge)
        · simp only [hpc, Bool.false_eq_true, ↓reduceIte, hd']
          have hpnot : ¬ p ∈ prog := fun hm => hpc (List.contains_iff_mem.mpr hm)
          have hsl := slack_cons_lt (fs := fs) (prog := prog)
            (mem_typeKeys (hE.ok.type_decl hd').1 (hE.ok.type_decl hd').2) (by simpa using hpc)
          obtain ⟨st1, hs1, hJ1, hal1, hsome1, hgrow1, hstay1⟩ := populate_ok hE hL fuel (prog := p :: prog) hJ hd'
            (by omega) List.mem_cons_self
            (by
              intro x hx'
              simp only [List.mem_cons] at hx'
              rcases hx' with rfl | hx'
              · exact .refl
              · exact (hreach x hx').trans (.cons hedge .refl))
            hpn
          have hkeyprog : ∀ k, k ∈ prog → k ≠ p := fun k hk he => hpnot (he ▸ hk)
          simp only [hs1, hw]
          exact tail st1 hJ1 hal1 hsome1 hgrow1 (hstay1 key (List.mem_cons_of_mem _ hkin) hkp hfresh)
            (fun k hk _ hn => hstay1 k (List.mem_cons_of_mem _ hk) (hkeyprog k hk) hn)

/-! ## aliases, and the whole pass -/

theorem aliasSucc_below {A look} (hA : Below A look) (x y : Key) (h : y ∈ aliasSucc (lookOf A) x) : y ∈ aliasSucc look x := by
  unfold aliasSucc lookOf at h
  unfold aliasSucc
  cases hl : A.lookup x with
  | none => simp [hl] at h
  | some t => rw [hl] at h; rw [hA x t hl]; exact h

theorem setAlias_ok {rx E fs st ns name r} (hE : EnvOK2 E fs) (hJ : J rx E fs st)
    (hk : E.items.lookup (ns, name) = some (.alias r)) (hl : aliasLegal rx fs ns name r = true) :
    ∃ st', setAlias rx E st ns name r = .ok st' ∧ J rx E fs st' ∧ st'.done = st.done ∧ Grow st st' ∧
      (st'.aliases.lookup (ns, name)).isSome := by
  unfold aliasLegal at hl
  simp only [Bool.and_eq_true] at hl
  have hA := hJ.inv.below hE.ok
  obtain ⟨t, hr, hd, hn⟩ := resolve_ok_of_legal hE hA hl.1
  have hsearch := hl.2
  simp only [hd, beq_iff_eq] at hsearch
  have hno : anyTri (search (aliasSucc (lookOf st.aliases)) (ns, name) (aliasFuel E)) t.aliases = .no := by
    rw [aliasFuel_eq hE.ok]
    exact Gr.anyTri_search_mono (aliasSucc_below hA) (fun x hx => hx) hsearch
  have hs : setAlias rx E st ns name r =
      .ok { st with aliases := ((ns, name), t) :: st.aliases, nrefs := st.nrefs ++ nullRefs t } := by
    unfold setAlias
    simp only [hr, hno]
  refine ⟨_, hs, ⟨setAlias_inv hE.ok hJ.inv hk hs, hJ.closed, ?_⟩, rfl, ⟨fun _ h => h, fun k h => lookup_isSome_cons h⟩, ?_⟩
  · intro u hu
    simp only [List.mem_append] at hu
    rcases hu with hu | hu
    · exact hJ.nrefs u hu
    · unfold tyNullLegal at hn
      rw [List.all_eq_true] at hn
      exact hn u hu
  · simp only [lookup_cons_self]; rfl

theorem setAliases_ok {rx E fs ns} (hE : EnvOK2 E fs) (hL : DeclsLegal rx fs) : ∀ {as : List (String × TRef)} {st},
    J rx E fs st → (∀ n r, (n, r) ∈ as → (n, r) ∈ aliasDecls (declsOf fs ns)) →
    ∃ st', setAliases rx E st ns as = .ok st' ∧ J rx E fs st' ∧ st'.done = st.done ∧ Grow st st' ∧
      (∀ n r, (n, r) ∈ as → (st'.aliases.lookup (ns, n)).isSome)
  | [], st, hJ, _ => ⟨st, rfl, hJ, rfl, Grow.refl st, by simp⟩
  | (n, r) :: as, st, hJ, hm => by
    have hmem := hm n r List.mem_cons_self
    have hk := hE.ok.lookup_alias hmem
    have hleg : aliasLegal rx fs ns n r = true := by
      have : (ns, Decl.alias n r) ∈ allPairs fs := by
        rw [allPairs_eq]; exact mem_declsOf.mp (mem_aliasDecls.mp hmem)
      exact hL _ this
    obtain ⟨st1, hs1, hJ1, hd1, hg1, hsome1⟩ := setAlias_ok hE hJ hk hleg
    obtain ⟨st2, hs2, hJ2, hd2, hg2, hsome2⟩ := setAliases_ok hE hL (as := as) hJ1
      (fun n' r' h' => hm n' r' (List.mem_cons_of_mem _ h'))
    refine ⟨st2, by simp [setAliases, hs1, hs2], hJ2, by rw [hd2, hd1], hg1.trans hg2, ?_⟩
    intro n' r' h'
    simp only [List.mem_cons, Prod.mk.injEq] at h'
    rcases h' with ⟨rfl, rfl⟩ | h'
    · exact hg2.2 _ hsome1
    · exact hsome2 n' r' h'

theorem populateAll_ok {rx E fs ns} (hE : EnvOK2 E fs) (hL : DeclsLegal rx fs) : ∀ {ds : List TypeDecl} {st},
    J rx E fs st → (∀ d, d ∈ ds → d ∈ typeDecls (declsOf fs ns)) →
    ∃ st', populateAll rx E st ns ds = .ok st' ∧ J rx E fs st' ∧ st'.aliases = st.aliases ∧ Grow st st' ∧
      (∀ d, d ∈ ds → (st'.done.lookup (ns, d.name)).isSome)
  | [], st, hJ, _ => ⟨st, rfl, hJ, rfl, Grow.refl st, by simp⟩
  | d :: ds, st, hJ, hm => by
    have hk := hE.ok.lookup_type (hm d List.mem_cons_self)
    simp only [populateAll]
    by_cases hdn : (st.done.lookup (ns, d.name)).isSome = true
    · simp only [hdn, ↓reduceIte]
      obtain ⟨st2, hs2, hJ2, ha2, hg2, hsome2⟩ := populateAll_ok hE hL (ds := ds) hJ
        (fun d' h' => hm d' (List.mem_cons_of_mem _ h'))
      refine ⟨st2, hs2, hJ2, ha2, hg2, ?_⟩
      intro d' h'
      simp only [List.mem_cons] at h'
      rcases h' with rfl | h'
      · exact hg2.1 _ hdn
      · exact hsome2 d' h'
    · simp only [hdn, Bool.false_eq_true, ↓reduceIte]
      have hpn : st.done.lookup (ns, d.name) = none := by
        cases hq : st.done.lookup (ns, d.name) with
        | none => rfl
        | some v => simp [hq] at hdn
      obtain ⟨st1, hs1, hJ1, ha1, hsome1, hg1, _⟩ := populate_ok hE hL (populateFuel E) (prog := [(ns, d.name)]) hJ hk
        (by
          unfold populateFuel slack
          rw [hE.ok.files, ← typeKeys_length]
          exact Nat.lt_succ_of_le (List.length_filter_le _ _))
        (List.mem_singleton.mpr rfl)
        (by intro x hx; rw [List.mem_singleton.mp hx]; exact .refl)
        hpn
      simp only [hs1]
      obtain ⟨st2, hs2, hJ2, ha2, hg2, hsome2⟩ := populateAll_ok hE hL (ds := ds) hJ1
        (fun d' h' => hm d' (List.mem_cons_of_mem _ h'))
      refine ⟨st2, hs2, hJ2, by rw [ha2, ha1], hg1.trans hg2, ?_⟩
      intro d' h'
      simp only [List.mem_cons] at h'
      rcases h' with rfl | h'
      · exact hg2.1 _ hsome1
      · exact hsome2 d' h'

/-- every type and alias declared in the namespaces of `nss` is in the tables -/
def Complete (fs : List File) (nss : List String) (st : St) : Prop :=
  ∀ ns, ns ∈ nss → (∀ d, d ∈ typeDecls (declsOf fs ns) → (st.done.lookup (ns, d.name)).isSome) ∧
    (∀ n r, (n, r) ∈ aliasDecls (declsOf fs ns) → (st.aliases.lookup (ns, n)).isSome)

theorem pass3Nss_ok {rx E fs} (hE : EnvOK2 E fs) (hL : DeclsLegal rx fs) : ∀ {nss : List String} {st},
    J rx E fs st → ∃ st', pass3Nss rx E st nss = .ok st' ∧ J rx E fs st' ∧ Grow st st' ∧ Complete fs nss st'
  | [], st, hJ => ⟨st, rfl, hJ, Grow.refl st, by intro ns h; simp at h⟩
  | ns :: nss, st, hJ => by
    simp only [pass3Nss, hE.ok.files]
    obtain ⟨st1, hs1, hJ1, hd1, hg1, hsome1⟩ := setAliases_ok hE hL (ns := ns) (as := aliasDecls (declsOf fs ns)) hJ
      (fun _ _ h => h)
    obtain ⟨st2, hs2, hJ2, ha2, hg2, hsome2⟩ := populateAll_ok hE hL (ns := ns) (ds := typeDecls (declsOf fs ns)) hJ1
      (fun _ h => h)
    obtain ⟨st3, hs3, hJ3, hg3, hc3⟩ := pass3Nss_ok hE hL (nss := nss) hJ2
    refine ⟨st3, by simp only [hs1, hs2, hs3], hJ3, (hg1.trans hg2).trans hg3, ?_⟩
    intro ns' hns'
    simp only [List.mem_cons] at hns'
    rcases hns' with rfl | hns'
    · exact ⟨fun d hd => hg3.1 _ (hsome2 d hd), fun n r hm => hg3.2 _ (hg2.2 _ (hsome1 n r hm))⟩
    · exact hc3 ns' hns'

theorem recheck_ok {A look fuel} (hA : Below A look) : ∀ {l : List Ty}, (∀ u, u ∈ l → nullOK look fuel u = true) →
    recheckNullable fuel (lookOf A) l = .ok ()
  | [], _ => rfl
  | u :: l, h => by
    have hw := wrapNull_ok_of_legal (b := true) hA (fun _ => h u List.mem_cons_self)
    unfold wrapNull at hw
    simp only [Bool.not_true, Bool.false_eq_true, ↓reduceIte] at hw
    simp only [recheckNullable]
    have ih := recheck_ok hA (l := l) (fun u' hu' => h u' (List.mem_cons_of_mem _ hu'))
    split at hw
    · cases hw
    · cases hw
    · cases hw
    · exact ih

/-- **pass 3 accepts legal declarations** -/
theorem pass3_ok {rx E fs} (hE : EnvOK2 E fs) (hL : DeclsLegal rx fs) :
    ∃ st, pass3 rx E = .ok st ∧ J rx E fs st ∧ Complete fs E.nss st := by
  obtain ⟨st, hs, hJ, _, hc⟩ := pass3Nss_ok hE hL (nss := E.nss) (st := {}) J.init
  refine ⟨st, ?_, hJ, hc⟩
  unfold pass3
  simp only [hs]
  have := recheck_ok (hJ.inv.below hE.ok) (fuel := aliasFuel E) (l := st.nrefs)
    (by rw [aliasFuel_eq hE.ok]; exact hJ.nrefs)
  simp only [this]

end StoneVerif.FeCompile.L
