import StoneVerif.Lemmas.DeclPyReflUnion
/-!
The sections of a module body (C09): each runs to completion from a state in which the earlier sections have run
and the imported modules are loaded, and establishes what later sections and importing modules rely on.
`sec_ann`, `sec_classes` (DeclPySecClass), `sec_aliases` (DeclPySecAlias), `sec_defaults` (DeclPySecDefaults),
`sec_routes` (DeclPySecRoutes); here: `sec_refl`.
-/
namespace StoneVerif.DeclPy

/-- reflection attributes -/
theorem sec_refl {api : Api} (hapi : apiWF api = true) {ns : Namespace} (hns : ns ∈ api.namespaces) (st : St)
    (hwf : StWF st) (hctx : Ctx api st ns) (hcls : ∀ d ∈ ns.types, ClassOK api st ns d)
    (hals : ∀ a ∈ ns.aliases, AliasOK api st ns a) :
    ∃ st', Steps st (modName ns) (reflStmts api ns) st' ∧ ∀ d ∈ ns.types, ReflOK api st' ns d := by
  have hng : (reflStmts api ns).flatMap Stmt.globals = [] := globals_reflStmts api ns
  refine steps_flatMap' (α := DataType)
    (fun d => if d.isStruct then structReflStmts api ns.name d else unionReflStmts api ns.name d) (modName ns)
    (fun st => Ctx api st ns ∧ (∀ d ∈ ns.types, ClassOK api st ns d) ∧ (∀ a ∈ ns.aliases, AliasOK api st ns a))
    (fun d st => ReflOK api st ns d)
    (fun hle h => ⟨h.1.mono hle, fun d hd => (h.2.1 d hd).mono hle, fun a ha => (h.2.2 a ha).mono hle⟩)
    (fun hle h => h.mono hle) ns.types ?_
    (by rw [show (ns.types.flatMap _) = reflStmts api ns from rfl, hng]; exact List.nodup_nil)
    st hwf ⟨hctx, hcls, hals⟩
    (by rw [show (ns.types.flatMap _) = reflStmts api ns from rfl, hng]; intro n hn; simp at hn)
  intro pre d post hsplit st hwf ⟨hctx, hcls, hals⟩ hprer _
  by_cases hs : d.isStruct = true
  · simp only [hs, if_true]
    exact struct_refl_item hapi hns hwf hctx hcls hals hsplit hprer hs
  · have hs' : d.isStruct = false := by simpa using hs
    simp only [hs', Bool.false_eq_true, if_false]
    exact union_refl_item hapi hns hwf hctx hcls hals hsplit hprer hs'

end StoneVerif.DeclPy
