import StoneVerif.Lemmas.IrCheckExamplesEnc
/-! C10: a union example `t = null` for a member whose type is a nullable struct (`t S2?`). Until repair 00ddb10
`Union._compute_example` died on it (`ex_val.update(None)`: TypeError); now the example is the tag alone, and
that document round-trips. -/
set_option linter.unusedSimpArgs false
set_option linter.unusedVariables false
namespace StoneVerif.IrCheck
open StoneVerif.Rt

/-- a tag whose validator is a nullable struct, document `{".tag": tag}`: the decoder answers the tag with `None` -/
theorem decode_union_tagonly_struct (E : Ext) (env : Env) (cls : String) (ud : UnionDef) (tag : String) (fl : Flags) (sc : String)
    (henv : env.union? cls = some ud) (hpres : ud.isTagPresent tag [] = true)
    (hvdt : ud.valDataType tag [] = some (.struct fl sc)) (hctor : ud.ctorValidator tag = some (.struct fl sc))
    (hca : ¬ some tag = ud.catchAll) (htne : tag ≠ ".tag") (hnl : fl.nullable = true) :
    decode E env [] true (.union {} cls) (.obj [(".tag", .str tag)]) = .ok (.union cls tag .none) := by
  have h1 : (".tag" == tag) = false := by simp; exact fun h => htne h.symm
  have h2 : (tag == ".tag") = false := by simp [htne]
  have hval : validate E env (.struct fl sc) .none = .ok .none := validate_nullable_none E env _ hnl
  have hmk : mkUnion E env cls tag .none = .ok (.union cls tag .none) := by
    simp [mkUnion, henv, hctor, PTy.flags, hnl, hval, bind, Except.bind, pure, Except.pure]
  have hfl : (PTy.union ({} : Flags) cls).flags.nullable = false := rfl
  unfold decode
  simp [hfl, henv, jsonLookup, hpres, hca, hvdt, isVoidTy, isPlainStruct, PTy.flags, hnl, h1, h2, hmk]

/-- UNION EXAMPLE `tag = null` FOR A NULLABLE STRUCT MEMBER. The compiler accepts it (no hypothesis: `null` passes
`Nullable.check_example`), the computed example is `{".tag": tag}`, the strict decoder turns it into the tag with
`None`, that instance is valid and in stored form, and its wire form is the document. -/
theorem example_union_null_struct_roundtrip (E : Ext) (C : CExt) (us : List CUnion) (env : Env) (cu : CUnion) (ud : UnionDef)
    (tag : String) (t : CTag) (c : String)
    (hud : unionDefOfC cu = some ud) (henv : env.union? cu.cls = some ud)
    (hpub : ∀ t ∈ cu.allTags, t.omitted = none) (hnd : (cu.allTags.map (·.name)).Nodup)
    (ht : cu.allTags.find? (·.name == tag) = some t)
    (hty : t.ty = .nullable (.struct c false))
    (hca : some tag ≠ cu.catchAll) (htne : tag ≠ ".tag") :
    unionExample E C us cu [(tag, .lit .null)] = .ok (some (.obj [(".tag", .str tag)])) ∧
      decode E env [] true (.union {} cu.cls) (.obj [(".tag", .str tag)]) = .ok (.union cu.cls tag .none) ∧
      jsonCompatObjDecode E env [] true (.union {} cu.cls) (.obj [(".tag", .str tag)]) = .ok (.union cu.cls tag .none) ∧
      wire E env (.union {} cu.cls) (.union cu.cls tag .none) = .obj [(".tag", .str tag)] ∧
      normalB env (.union {} cu.cls) (.union cu.cls tag .none) = true ∧
      (cu.cls ∈ cu.chain.map (·.1) → validB E env (.union {} cu.cls) (.union cu.cls tag .none) = true) := by
  obtain ⟨td, vt, hvt, htdty, htdn, hpres, hvdt, hctor, hpt, hcatch, hcls, hanc⟩ := union_tables hud hpub hnd ht
  have hca' : ¬ some tag = ud.catchAll := by rw [hcatch]; exact hca
  have hself : cu.cls ∈ cu.chain.map (·.1) → cu.cls ∈ ud.ancestors := by
    intro h; unfold UnionDef.ancestors; rw [hanc]; exact h
  have hvteq : vt = .struct { nullable := true } c := by
    rw [hty] at hvt
    simp [validatorOf, PTy.flags, PTy.withFlags] at hvt
    exact hvt.symm
  subst hvteq
  have hex : unionExample E C us cu [(tag, .lit .null)] = .ok (some (.obj [(".tag", .str tag)])) := by
    simp [unionExample, addUnionExample, ht, hty, checkExample, unionExampleDoc, jsonOfEx, jsonOfLit]
  have hdec := decode_union_tagonly_struct E env cu.cls ud tag _ c henv hpres hvdt hctor hca' htne rfl
  refine ⟨hex, hdec, by rw [jsonCompatObjDecode_union]; exact hdec,
    wire_union_tagonly E env cu.cls ud tag td henv hpt,
    normalB_union env cu.cls ud tag td .none henv hpt (normalB_none env _), ?_⟩
  intro hs
  refine validB_union E env cu.cls ud tag td .none henv (hself hs) hpt ?_
  rw [htdty]
  simp only [isVoidT]
  unfold validB
  simp [PTy.flags, isNoneV]

/-- the same through the real entry points, in a well-formed environment -/
theorem example_union_null_struct_roundtrip_encode (E : Ext) (C : CExt) (us : List CUnion) (env : Env) (cu : CUnion) (ud : UnionDef)
    (tag : String) (t : CTag) (c : String)
    (hwf : envWF env = true) (hchain : envWFX env = true)
    (hud : unionDefOfC cu = some ud) (henv : env.union? cu.cls = some ud)
    (hpub : ∀ t ∈ cu.allTags, t.omitted = none) (hnd : (cu.allTags.map (·.name)).Nodup)
    (ht : cu.allTags.find? (·.name == tag) = some t)
    (hty : t.ty = .nullable (.struct c false))
    (hca : some tag ≠ cu.catchAll) (htne : tag ≠ ".tag") :
    ∃ doc u, unionExample E C us cu [(tag, .lit .null)] = .ok (some doc) ∧ doc = .obj [(".tag", .str tag)] ∧
      jsonCompatObjDecode E env [] true (.union {} cu.cls) doc = .ok u ∧
      jsonCompatObjEncode E env [] false (.union {} cu.cls) u = .ok doc := by
  obtain ⟨h1, _, h3, h4, h5, h6⟩ :=
    example_union_null_struct_roundtrip E C us env cu ud tag t c hud henv hpub hnd ht hty hca htne
  obtain ⟨levels, hlv, hudeq⟩ := unionDefOfC_inv hud
  obtain ⟨_, hcls⟩ := uchain_mapM_flat hlv
  have hself : cu.cls ∈ cu.chain.map (·.1) := by
    have := envWF_union_self hwf henv
    rw [hudeq] at this
    simpa [hcls] using this
  have htwf : tyWF env (.union {} cu.cls) = true := by simp [tyWF, henv]
  refine ⟨_, _, h1, rfl, h3, ?_⟩
  rw [StoneVerif.C05.jsonCompatObjEncode_eq_wire E env hwf hchain _ _ htwf (h6 hself) h5, h4]

/-! ### non-vacuity: `struct Pt { x Int32 }`, `union Shape { dot Pt?; none }` in the generated environment -/

def rtPt : CStruct := { cls := "ns.Pt", chain := [("ns.Pt", [{ name := "x", ty := .int "Int32" none none }])] }

def rtShape : CUnion :=
  { cls := "ns.Shape",
    chain := [("ns.Shape", [{ name := "dot", ty := .nullable (.struct "ns.Pt" false) }, { name := "other", ty := .void }])],
    catchAll := some "other" }

def rtNullApi : CApi := { structs := [rtPt], unions := [rtShape] }

def rtNullEnv : Env := (envOfC rtNullApi).getD { structs := [], unions := [] }

theorem rtNullEnv_wf : (envOfC rtNullApi).isSome = true ∧ envWF rtNullEnv = true ∧ envWFX rtNullEnv = true := by
  decide +kernel

theorem rtNullEnv_eq : envOfC rtNullApi = some rtNullEnv := by
  unfold rtNullEnv
  cases h : envOfC rtNullApi with
  | none => have := rtNullEnv_wf.1; simp [h] at this
  | some e => rfl

example : ∃ doc u, unionExample rtE rtC [] rtShape [("dot", .lit .null)] = .ok (some doc) ∧ doc = .obj [(".tag", .str "dot")] ∧
    jsonCompatObjDecode rtE rtNullEnv [] true (.union {} rtShape.cls) doc = .ok u ∧
    jsonCompatObjEncode rtE rtNullEnv [] false (.union {} rtShape.cls) u = .ok doc := by
  obtain ⟨ud, hud, henv⟩ := envOfC_union rtNullEnv_eq (by decide) (cu := rtShape) (by simp [rtNullApi])
  exact example_union_null_struct_roundtrip_encode rtE rtC [] rtNullEnv rtShape ud "dot"
    { name := "dot", ty := .nullable (.struct "ns.Pt" false) } "ns.Pt" rtNullEnv_wf.2.1 rtNullEnv_wf.2.2 hud henv
    (by decide) (by decide) rfl rfl (by decide) (by decide)

end StoneVerif.IrCheck
