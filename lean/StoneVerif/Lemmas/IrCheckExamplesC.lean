import StoneVerif.Model.IrCheck
import StoneVerif.Lemmas.IrCheck
import StoneVerif.Lemmas.IrCheckExamplesRt
/-! C10, examples, part 2 (compile-time side): what `addStructExample` accepted for a scalar field is, member by
member, a value the runtime takes over unchanged (`StepOK`); the class table python_types generates. -/
set_option linter.unusedSimpArgs false
set_option linter.unusedVariables false
namespace StoneVerif.IrCheck
open StoneVerif.Rt

theorem firstErr_ok {α : Type} {g : α → CR Unit} {l : List α} (h : firstErr g l = .ok ()) : ∀ x ∈ l, g x = .ok () := by
  induction l with
  | nil => intro x hx; cases hx
  | cons a as ih =>
    simp only [firstErr] at h
    cases ha : g a with
    | error e => simp [ha] at h
    | ok u =>
      simp only [ha] at h
      intro x hx
      rcases List.mem_cons.mp hx with rfl | hm
      · cases u; exact ha
      · exact ih h x hm

/-! ### one scalar member -/

/-- Boolean, an integer type, a float type, String -/
def baseScalar : IrTy → Bool
  | .bool | .int .. | .float .. | .str .. => true
  | _ => false

theorem scalarTy_cases {t : IrTy} (h : scalarTy t = true) :
    baseScalar t = true ∨ ∃ t0, t = .nullable t0 ∧ baseScalar t0 = true := by
  cases t <;> simp [scalarTy, baseScalar] at h ⊢
  rename_i t0
  cases t0 <;> simp [scalarTy, baseScalar] at h ⊢

/-- the member `j`, at the validator `vt` -/
structure ScalarOK (E : Ext) (env : Env) (vt : PTy) (j : JVal) : Prop where
  dec : decode E env [] true vt j = .ok (pyOfJson j)
  val : validate E env vt (pyOfJson j) = .ok (pyOfJson j)
  wir : wire E env vt (pyOfJson j) = j
  nn : pyOfJson j ≠ .none
  vld : validB E env vt (pyOfJson j) = true
  nrm : normalB env vt (pyOfJson j) = true

theorem scalarOK_bool (E : Ext) (env : Env) (fl : Flags) (b : Bool) : ScalarOK E env (.bool fl) (.bool b) where
  dec := by unfold decode; simp [PTy.flags, makeStoneFriendly, pyOfJson]
  val := by simp [pyOfJson, validate, PTy.flags]
  wir := by simp [pyOfJson, wire]
  nn := by simp [pyOfJson]
  vld := by unfold validB; simp [pyOfJson, PTy.flags, isNoneV, validPrim]
  nrm := by simp [pyOfJson, normalB]

theorem scalarOK_int (E : Ext) (env : Env) (fl : Flags) (cls : String) (lo hi n : Int) (h1 : lo ≤ n) (h2 : n ≤ hi) :
    ScalarOK E env (.int fl cls lo hi) (.int n) where
  dec := by unfold decode; simp [PTy.flags, makeStoneFriendly, pyOfJson]
  val := by simp [pyOfJson, validate, PTy.flags, intOf, h1, h2]
  wir := by simp [pyOfJson, wire]
  nn := by simp [pyOfJson]
  vld := by unfold validB; simp [pyOfJson, PTy.flags, isNoneV, validPrim, h1, h2]
  nrm := by simp [pyOfJson, normalB]

theorem scalarOK_float (E : Ext) (env : Env) (fl : Flags) (cls : String) (lo hi : Option FBits) (x : FBits)
    (hnan : E.fltIsNan x = false) (hinf : E.fltIsInf x = false)
    (hlo : (match lo with | some l => E.fltLt x l | none => false) = false)
    (hhi : (match hi with | some u => E.fltLt u x | none => false) = false) :
    ScalarOK E env (.float fl cls lo hi) (.flt x) where
  dec := by unfold decode; simp [PTy.flags, makeStoneFriendly, pyOfJson]
  val := by cases lo <;> cases hi <;> simp_all [pyOfJson, validate, PTy.flags, fltOf]
  wir := by simp [pyOfJson, wire]
  nn := by simp [pyOfJson]
  vld := by unfold validB; cases lo <;> cases hi <;> simp_all [pyOfJson, PTy.flags, isNoneV, validPrim, inRange]
  nrm := by simp [pyOfJson, normalB]

theorem scalarOK_str (E : Ext) (env : Env) (fl : Flags) (a b : Option Nat) (p : Option String) (s : String)
    (hge : geOpt b s.length = true) (hle : leOpt a s.length = true)
    (hp : ∀ q, p = some q → q ≠ "" → E.patMatch q s = true) :
    ScalarOK E env (.str fl a b p) (.str s) where
  dec := by unfold decode; simp [PTy.flags, makeStoneFriendly, pyOfJson]
  val := by
    cases p with
    | none => simp [pyOfJson, validate, PTy.flags, hge, hle]
    | some q =>
      simp [pyOfJson, validate, PTy.flags, hge, hle]
      intro hq hm
      simp [hp q rfl hq] at hm
  wir := by simp [pyOfJson, wire]
  nn := by simp [pyOfJson]
  vld := by
    unfold validB
    cases p with
    | none => simp [pyOfJson, PTy.flags, isNoneV, validPrim, hge, hle]
    | some q =>
      simp [pyOfJson, PTy.flags, isNoneV, validPrim, hge, hle]
      by_cases hq : q = ""
      · exact Or.inl hq
      · exact Or.inr (hp q rfl hq)
  nrm := by simp [pyOfJson, normalB]

/-- A literal of exactly the kind of a base scalar type that `check` accepts: at the validator generated for
the type (whatever wrapper flags it carries) the literal's JSON token decodes, validates, and encodes as itself. -/
theorem base_step (E : Ext) (C : CExt) (us : List CUnion) (env : Env)
    (t0 : IrTy) (vt0 : PTy) (l : Lit) (hb : baseScalar t0 = true) (hvt : validatorOf t0 = some vt0)
    (hc : check E C us t0 l = .ok ()) (hk : exactKind t0 l = true) (fl : Flags) :
    ScalarOK E env (vt0.withFlags fl) (jsonOfLit l) := by
  cases t0 <;> simp [baseScalar] at hb
  case bool =>
    cases l <;> simp [exactKind] at hk
    simp [validatorOf] at hvt; subst hvt
    exact scalarOK_bool E env fl _
  case int cls mn mx =>
    cases l <;> simp [exactKind] at hk
    rename_i n
    simp only [check] at hc
    obtain ⟨lo, hi, hbd, h1, h2⟩ := checkIntVal_ok hc
    simp [validatorOf, hbd] at hvt; subst hvt
    exact scalarOK_int E env fl cls _ _ n h1 h2
  case float cls mn mx =>
    cases l <;> simp [exactKind] at hk
    rename_i x
    simp only [check] at hc
    obtain ⟨tlo, thi, hbd, h1, h2, h3, h4⟩ := checkFloatVal_ok hc
    simp [validatorOf, hbd] at hvt; subst hvt
    exact scalarOK_float E env fl cls _ _ x h1 h2 h3 h4
  case str a b p =>
    cases l <;> simp [exactKind] at hk
    rename_i s
    simp [validatorOf] at hvt; subst hvt
    simp only [check] at hc
    cases hge : geOpt b s.length <;> cases hle : leOpt a s.length <;> simp [hge, hle] at hc
    refine scalarOK_str E env fl a b p s hge hle ?_
    intro q hq hne
    subst hq
    simp at hc
    exact hc hne

/-- the validator generated for a scalar type: the base validator, with the nullable flag iff the type is `T?` -/
theorem validatorOf_scalar {t : IrTy} {vt : PTy} (hs : scalarTy t = true) (hvt : validatorOf t = some vt) :
    ∃ t0 vt0 fl, baseScalar t0 = true ∧ validatorOf t0 = some vt0 ∧ vt = vt0.withFlags fl ∧
      fl.nullable = t.isNullableLit ∧ (t = t0 ∨ t = .nullable t0) := by
  rcases scalarTy_cases hs with hb | ⟨t0, rfl, hb⟩
  · refine ⟨t, vt, vt.flags, hb, hvt, (withFlags_self vt).symm, ?_, Or.inl rfl⟩
    cases t <;> simp [baseScalar] at hb <;> simp [validatorOf] at hvt
    · subst hvt; rfl
    · obtain ⟨a, b, _, rfl⟩ := hvt; rfl
    · obtain ⟨a, b, _, rfl⟩ := hvt; rfl
    · subst hvt; rfl
  · simp only [validatorOf] at hvt
    cases hvt0 : validatorOf t0 with
    | none => simp [hvt0] at hvt
    | some vt0 =>
      simp only [hvt0] at hvt
      refine ⟨t0, vt0, { vt0.flags with nullable := true }, hb, hvt0, ?_, rfl, Or.inr rfl⟩
      split at hvt
      · cases hvt
      · split at hvt
        · cases hvt
        · cases hvt; rfl

theorem attrSet_of_validate (E : Ext) (env : Env) (fd : FieldDef) (x : PyVal) (hx : x ≠ .none)
    (hud : fd.attrUserDefined = false) (hv : validate E env fd.ty x = .ok x) (slots : List (String × PyVal)) :
    attrSet E env fd slots x = .ok (setSlot fd.name x slots) := by
  cases x <;> simp [attrSet, hud, hv, bind, Except.bind, pure, Except.pure] at hx ⊢

theorem scalar_not_userDefined {t : IrTy} (hs : scalarTy t = true) : t.isUserDefinedLit = false := by
  rcases scalarTy_cases hs with hb | ⟨t0, rfl, hb⟩
  · cases t <;> simp [baseScalar, IrTy.isUserDefinedLit] at hb ⊢
  · cases t0 <;> simp [baseScalar, IrTy.isUserDefinedLit] at hb ⊢

/-- a scalar example value is a literal that `check` accepts -/
theorem scalar_example_lit {E : Ext} {C : CExt} {us : List CUnion} {t : IrTy} {v : ExVal} (hs : scalarTy t = true)
    (h : checkExample E C us t v = .ok ()) : ∃ l, v = .lit l ∧ check E C us t l = .ok () := by
  have prim : ∀ t', checkPrimExample E C us t' v = .ok () → ∃ l, v = .lit l ∧ check E C us t' l = .ok () := by
    intro t' h'
    cases v <;> simp [checkPrimExample] at h'
    rename_i l
    refine ⟨l, rfl, ?_⟩
    cases hc : check E C us t' l with
    | ok u => rfl
    | error e => cases e <;> simp [hc, invalid, ccrash] at h'
  rcases scalarTy_cases hs with hb | ⟨t0, rfl, hb⟩
  · cases t <;> simp [baseScalar] at hb <;> simp only [checkExample] at h <;> exact prim _ h
  · by_cases hn : v = .lit .null
    · subst hn; exact ⟨.null, rfl, by simp [check]⟩
    · have h0 : checkExample E C us t0 v = .ok () := by
        simp only [checkExample] at h
        exact h
      have : ∃ l, v = .lit l ∧ check E C us t0 l = .ok () := by
        cases t0 <;> simp [baseScalar] at hb <;> simp only [checkExample] at h0 <;> exact prim _ h0
      obtain ⟨l, rfl, hl⟩ := this
      refine ⟨l, rfl, ?_⟩
      cases l <;> simp [check] at hn ⊢ <;> exact hl

/-- the value the example document holds for a field (`none` = no key) -/
def docVal (ex : List (String × ExVal)) (f : CField) : Option JVal :=
  match structExampleMember ex f with
  | some (some kv) => some kv.2
  | _ => none

/-- ONE FIELD: what `addStructExample` checked for a scalar field makes the field's member of the example
document a member the runtime round-trips (`StepOK`). -/
theorem field_step (E : Ext) (C : CExt) (us : List CUnion) (env : Env)
    (ex : List (String × ExVal)) (f : CField) (fd : FieldDef)
    (hsc : scalarTy f.ty = true) (hfd : fieldDefOfC us f = some fd)
    (hdef : ∀ d, f.dflt = some d → ∃ lit, fieldDefault E C us f.ty lit = .ok d)
    (hex1 : ∀ l, exLookup f.name ex = some (.lit l) → exactKind f.ty l = true)
    (hex2 : ∀ d, exLookup f.name ex = none → f.dflt = some d → exactKind f.ty d = true)
    (hchk : match exLookup f.name ex with
      | some v => checkExample E C us f.ty v = .ok ()
      | none => (f.dflt.isSome || f.ty.isNullableLit) = true) :
    structExampleMember ex f = some ((docVal ex f).map fun j => (f.name, j)) ∧ StepOK E env fd (docVal ex f) := by
  obtain ⟨vt, hvt, hname, hty, hnull, hud, _, _⟩ := fieldDefOfC_inv hfd
  obtain ⟨t0, vt0, fl, hb, hvt0, hvteq, hfln, hshape⟩ := validatorOf_scalar hsc hvt
  have hud' : fd.attrUserDefined = false := by rw [hud]; exact scalar_not_userDefined hsc
  -- a non-null literal of the exact kind that the base check accepts gives a good member
  have good : ∀ l, check E C us t0 l = .ok () → exactKind t0 l = true → StepSome E env fd (jsonOfLit l) := by
    intro l hc hk
    have sc := base_step E C us env t0 vt0 l hb hvt0 hc hk fl
    rw [← hvteq, ← hty] at sc
    exact { dec := sc.dec, set := attrSet_of_validate E env fd _ sc.nn hud' sc.val, wir := sc.wir, nn := sc.nn,
            vld := sc.vld, nrm := sc.nrm }
  -- the absent member of a nullable field
  have absent : f.ty.isNullableLit = true → StepOK E env fd none := by
    intro hn
    refine ⟨by rw [hnull]; exact hn, ?_⟩
    rw [hty, hvteq, flags_withFlags, hfln]; exact hn
  have hmem : ∀ o : Option JVal, structExampleMember ex f = some (o.map fun j => (f.name, j)) → docVal ex f = o := by
    intro o ho
    cases o <;> simp [docVal, ho]
  suffices h : ∃ o : Option JVal, structExampleMember ex f = some (o.map fun j => (f.name, j)) ∧ StepOK E env fd o by
    obtain ⟨o, h1, h2⟩ := h
    rw [hmem o h1]; exact ⟨h1, h2⟩
  cases hlk : exLookup f.name ex with
  | some v =>
    simp only [hlk] at hchk
    obtain ⟨l, rfl, hcl⟩ := scalar_example_lit hsc hchk
    have hk := hex1 l hlk
    by_cases hn : l = .null
    · subst hn
      refine ⟨none, by simp [structExampleMember, hlk, isNullEx], absent ?_⟩
      rcases hshape with h | h
      · rw [h] at hcl; cases t0 <;> simp [baseScalar, check] at hb hcl
      · rw [h]; rfl
    · refine ⟨some (jsonOfLit l), ?_, ?_⟩
      · have : isNullEx (.lit l) = false := by cases l <;> simp [isNullEx] at hn ⊢
        simp [structExampleMember, hlk, this, jsonOfEx]
      · rcases hshape with h | h
        · rw [h] at hcl hk; exact good l hcl hk
        · rw [h] at hcl hk
          have hcl' : check E C us t0 l = .ok () := by cases l <;> simp [check] at hn hcl ⊢ <;> exact hcl
          have hk' : exactKind t0 l = true := by cases l <;> simp [exactKind] at hn hk ⊢ <;> exact hk
          exact good l hcl' hk'
  | none =>
    simp only [hlk] at hchk
    cases hd : f.dflt with
    | some d =>
      obtain ⟨lit, hfdft⟩ := hdef d hd
      have hcl := fieldDefault_check hfdft
      have hnn := fieldDefault_not_nullable hfdft
      have hk := hex2 d hlk hd
      refine ⟨some (jsonOfLit d), by simp [structExampleMember, hlk, hd], ?_⟩
      rcases hshape with h | h
      · rw [h] at hcl hk; exact good d hcl hk
      · rw [h] at hnn; simp [IrTy.isNullableLit] at hnn
    | none =>
      simp [hd] at hchk
      exact ⟨none, by simp [structExampleMember, hlk, hd], absent hchk⟩

end StoneVerif.IrCheck
